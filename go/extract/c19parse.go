package main

import (
	"fmt"
	"go/ast"
	"go/token"
	"regexp"
	"strings"
)

// C19, fourth part: WHICH DENOMINATION the middleware believes it received.
//
// `parseIBCCoinDenom(packet, packetDenom)` recomputes, from the packet's denomination path, the denomination under which
// the ibc-go transfer application has just credited the receiver; `Keeper.OnRecvPacket` then decides on THAT value
// whether the coin is the chain's own (nothing to do) or must be moved into its ERC-20 form.  The function is translated
// statement by statement into a DECISION PROGRAM over the packet denomination: exclusive paths (condition, result).
//
//   conditions  returnsVia <channel expr>   transfertypes.ReceiverChainIsSource(<port>, <channel>, packetDenom)
//               baseEq c                    transfertypes.ParseDenomTrace(packetDenom).BaseDenom == c  (GetBaseDenom() too)
//               denomEq c / hasPrefix p     packetDenom == c / strings.HasPrefix(packetDenom, p)
//               not / and / or / tt / unknown <source>
//   results     strip <channel expr>        the prefix `<port>/<channel>/` cut off; the rest, hashed unless it is a bare name
//               prefixed <channel expr>     hash of `<port>/<channel>/` ++ packetDenom
//               const c / same / unknown <source>
//
// The value of the returned variable is obtained by inlining every local of the branch (single static assignment plus
// `if c { x = e }` as `ite(c,e,x)`) and matching the resulting expression against the two shapes above; anything else is
// emitted as `unknown` so that the proof, not the translator, breaks.

type parsePath struct{ cond, res string }

type parseTr struct {
	c     *ctxT
	denom string // name of the packet-denomination parameter (or the expression that holds it: `data.Denom`)
	pkg   string // qualifier of ibc-go's transfer types package in the translated file (`transfertypes`; `types` inside ibc-go)
}

func (t *parseTr) q() string {
	if t.pkg == "" {
		return "transfertypes"
	}
	return t.pkg
}

// inline prints an expression with every local variable replaced by the expression it is bound to
func (t *parseTr) inline(e ast.Expr, env map[string]string) string {
	switch x := e.(type) {
	case *ast.Ident:
		if v, ok := env[x.Name]; ok {
			return v
		}
		return x.Name
	case *ast.ParenExpr:
		return "(" + t.inline(x.X, env) + ")"
	case *ast.UnaryExpr:
		return x.Op.String() + t.inline(x.X, env)
	case *ast.BinaryExpr:
		return t.inline(x.X, env) + x.Op.String() + t.inline(x.Y, env)
	case *ast.SelectorExpr:
		if _, isId := x.X.(*ast.Ident); isId {
			if _, bound := env[x.X.(*ast.Ident).Name]; !bound {
				return t.c.src(x) // package-qualified name or field of a parameter
			}
		}
		return t.inline(x.X, env) + "." + x.Sel.Name
	case *ast.CallExpr:
		var as []string
		for _, a := range x.Args {
			as = append(as, t.inline(a, env))
		}
		return t.inline(x.Fun, env) + "(" + strings.Join(as, ",") + ")"
	case *ast.SliceExpr:
		lo, hi := "", ""
		if x.Low != nil {
			lo = t.inline(x.Low, env)
		}
		if x.High != nil {
			hi = t.inline(x.High, env)
		}
		return t.inline(x.X, env) + "[" + lo + ":" + hi + "]"
	}
	return strings.Join(strings.Fields(t.c.src(e)), "")
}

func reDenomPrefixOf(pkg string) string {
	return regexp.QuoteMeta(pkg) + `\.GetDenomPrefix\(([^,()]+(?:\(\))?),([^,()]+(?:\(\))?)\)`
}

func portOf(chanExpr string) string {
	switch chanExpr {
	case "packet.GetSourceChannel()":
		return "packet.GetSourcePort()"
	case "packet.SourceChannel":
		return "packet.SourcePort"
	case "packet.GetDestChannel()":
		return "packet.GetDestPort()"
	case "packet.DestinationChannel":
		return "packet.DestinationPort"
	}
	return ""
}

// result classifies the inlined value of the returned expression
func (t *parseTr) result(e ast.Expr, env map[string]string) string {
	if v, ok := t.c.c19Const(e); ok {
		return "(.const " + leanStr(v) + ")"
	}
	return t.classify(t.inline(e, env))
}

// classify: the two shapes of a computed denomination, on the fully inlined expression text
func (t *parseTr) classify(s string) string {
	if s == t.denom {
		return ".same"
	}
	q := regexp.QuoteMeta
	reDenomPrefix := reDenomPrefixOf(t.q())
	pk := q(t.q())
	u := q(t.denom) + `\[len\(` + reDenomPrefix + `\):\]`
	reStrip := regexp.MustCompile(`^ite\(!` + pk + `\.ParseDenomTrace\(` + u + `\)\.IsNativeDenom\(\),` + pk + `\.ParseDenomTrace\(` + u + `\)\.IBCDenom\(\),` + u + `\)$`)
	rePrefixed := regexp.MustCompile(`^` + pk + `\.ParseDenomTrace\(` + reDenomPrefix + `\+` + q(t.denom) + `\)\.IBCDenom\(\)$`)
	if m := reStrip.FindStringSubmatch(s); m != nil {
		// the same (port, channel) in all three places, and the port of the same end as the channel
		if m[1] == m[3] && m[1] == m[5] && m[2] == m[4] && m[2] == m[6] && portOf(m[2]) == m[1] {
			return "(.strip " + leanStr(m[2]) + ")"
		}
	}
	if m := rePrefixed.FindStringSubmatch(s); m != nil && portOf(m[2]) == m[1] {
		return "(.prefixed " + leanStr(m[2]) + ")"
	}
	return "(.unknown " + leanStr(s) + ")"
}

func (t *parseTr) cond(e ast.Expr, env map[string]string) string {
	unknown := func() string { return "(.unknown " + leanStr(t.inline(e, env)) + ")" }
	switch x := e.(type) {
	case *ast.ParenExpr:
		return t.cond(x.X, env)
	case *ast.Ident:
		if x.Name == "true" {
			return ".tt"
		}
	case *ast.UnaryExpr:
		if x.Op == token.NOT {
			return "(.not " + t.cond(x.X, env) + ")"
		}
	case *ast.CallExpr:
		f := t.c.src(x.Fun)
		if strings.HasSuffix(f, "ReceiverChainIsSource") && len(x.Args) == 3 && t.inline(x.Args[2], env) == t.denom {
			ch := t.inline(x.Args[1], env)
			if portOf(ch) == t.inline(x.Args[0], env) {
				return "(.returnsVia " + leanStr(ch) + ")"
			}
		}
		if f == "strings.HasPrefix" && len(x.Args) == 2 && t.inline(x.Args[0], env) == t.denom {
			if v, ok := t.c.c19Const(x.Args[1]); ok {
				return "(.hasPrefix " + leanStr(v) + ")"
			}
		}
	case *ast.BinaryExpr:
		switch x.Op {
		case token.LAND:
			return "(.and " + t.cond(x.X, env) + " " + t.cond(x.Y, env) + ")"
		case token.LOR:
			return "(.or " + t.cond(x.X, env) + " " + t.cond(x.Y, env) + ")"
		case token.EQL, token.NEQ:
			wrap := func(s string) string {
				if x.Op == token.NEQ {
					return "(.not " + s + ")"
				}
				return s
			}
			for _, p := range [][2]ast.Expr{{x.X, x.Y}, {x.Y, x.X}} {
				v, ok := t.c.c19Const(p[1])
				if !ok {
					continue
				}
				switch t.inline(p[0], env) {
				case t.denom:
					return wrap("(.denomEq " + leanStr(v) + ")")
				case t.q() + ".ParseDenomTrace(" + t.denom + ").BaseDenom", t.q() + ".ParseDenomTrace(" + t.denom + ").GetBaseDenom()":
					return wrap("(.baseEq " + leanStr(v) + ")")
				}
			}
		}
	}
	return unknown()
}

func c19CopyEnv(env map[string]string) map[string]string {
	m := map[string]string{}
	for k, v := range env {
		m[k] = v
	}
	return m
}

// assign applies the effect of a simple statement of a branch to the environment; false = not understood
func (t *parseTr) assign(st ast.Stmt, env map[string]string) bool {
	switch x := st.(type) {
	case *ast.AssignStmt:
		if len(x.Lhs) == 1 && len(x.Rhs) == 1 && (x.Tok == token.DEFINE || x.Tok == token.ASSIGN) {
			if id, ok := x.Lhs[0].(*ast.Ident); ok {
				env[id.Name] = t.inline(x.Rhs[0], env)
				return true
			}
		}
	case *ast.DeclStmt:
		if gd, ok := x.Decl.(*ast.GenDecl); ok && gd.Tok == token.VAR {
			for _, sp := range gd.Specs {
				vs := sp.(*ast.ValueSpec)
				for i, nm := range vs.Names {
					if i < len(vs.Values) {
						env[nm.Name] = t.inline(vs.Values[i], env)
					} else {
						env[nm.Name] = `""`
					}
				}
			}
			return true
		}
	case *ast.IfStmt:
		// `if c { x = e }` without else, body of plain assignments: x becomes ite(c, e, x)
		if x.Init == nil && x.Else == nil {
			c := t.inline(x.Cond, env)
			inner := c19CopyEnv(env)
			for _, bs := range x.Body.List {
				as, ok := bs.(*ast.AssignStmt)
				if !ok || as.Tok != token.ASSIGN || len(as.Lhs) != 1 || len(as.Rhs) != 1 {
					return false
				}
				id, ok := as.Lhs[0].(*ast.Ident)
				if !ok {
					return false
				}
				inner[id.Name] = t.inline(as.Rhs[0], inner)
			}
			for k, v := range inner {
				if env[k] != v {
					env[k] = "ite(" + c + "," + v + "," + env[k] + ")"
				}
			}
			return true
		}
	case *ast.ExprStmt, *ast.EmptyStmt:
		return true
	}
	return false
}

func pand(a, b string) string {
	switch {
	case a == ".tt":
		return b
	case b == ".tt":
		return a
	}
	return "(.and " + a + " " + b + ")"
}

// mentionsDenom: does the condition (after inlining) talk about the packet denomination or the packet
func (t *parseTr) decides(e ast.Expr, env map[string]string) bool {
	s := t.inline(e, env)
	return strings.Contains(s, t.denom) || strings.Contains(s, "packet.")
}

// prog: exclusive (condition, result) paths of a statement list; a path that falls off the end has result ""
func (t *parseTr) prog(stmts []ast.Stmt, env map[string]string) []parsePath {
	for i, st := range stmts {
		switch x := st.(type) {
		case *ast.ReturnStmt:
			if len(x.Results) == 1 {
				return []parsePath{{".tt", t.result(x.Results[0], env)}}
			}
			return []parsePath{{".tt", "(.unknown " + leanStr(t.c.src(st)) + ")"}}
		case *ast.IfStmt:
			if x.Init != nil && !t.assign(x.Init, env) {
				return []parsePath{{".tt", "(.unknown " + leanStr(firstLine(t.c.src(st))) + ")"}}
			}
			// an `if` that cannot return and only re-binds locals is part of the value computation
			if !containsReturn(x) && x.Else == nil && !t.isBranchPoint(x, env) {
				if t.assign(st, env) {
					continue
				}
			}
			cnd := t.cond(x.Cond, env)
			var out []parsePath
			join := func(c string, body []ast.Stmt) {
				e2 := c19CopyEnv(env)
				for _, p := range t.prog(append(append([]ast.Stmt{}, body...), stmts[i+1:]...), e2) {
					out = append(out, parsePath{pand(c, p.cond), p.res})
				}
			}
			join(cnd, x.Body.List)
			ncnd := "(.not " + cnd + ")"
			switch el := x.Else.(type) {
			case nil:
				join(ncnd, nil)
			case *ast.BlockStmt:
				join(ncnd, el.List)
			default:
				join(ncnd, []ast.Stmt{el})
			}
			return out
		default:
			if !t.assign(st, env) {
				return []parsePath{{".tt", "(.unknown " + leanStr(firstLine(t.c.src(st))) + ")"}}
			}
		}
	}
	return []parsePath{{".tt", "(.unknown \"no return\")"}}
}

// isBranchPoint: an if whose condition is one of the recognised questions about the packet denomination
func (t *parseTr) isBranchPoint(x *ast.IfStmt, env map[string]string) bool {
	return !strings.Contains(t.cond(x.Cond, env), ".unknown")
}

func containsReturn(n ast.Node) bool {
	found := false
	ast.Inspect(n, func(m ast.Node) bool {
		if _, ok := m.(*ast.ReturnStmt); ok {
			found = true
		}
		return !found
	})
	return found
}

func (c *ctxT) c19Parse(sb *strings.Builder) {
	sb.WriteString(`/-- questions ` + "`parseIBCCoinDenom`" + ` asks about the packet denomination (translated from the Go AST) -/
inductive PCond where
  | returnsVia (chan : String) | baseEq (c : String) | denomEq (c : String) | hasPrefix (p : String)
  | not (c : PCond) | and (a b : PCond) | or (a b : PCond) | tt | unknown (src : String)
  deriving DecidableEq, Repr
/-- what it answers: the prefix of one channel end cut off (a bare name stays, a longer path is hashed), the prefix of one
channel end put in front and hashed, a constant, the packet denomination itself -/
inductive PRes where
  | strip (chan : String) | prefixed (chan : String) | const (c : String) | same | unknown (src : String)
  deriving DecidableEq, Repr
`)
	var paths []parsePath
	if fd := c.findFunc("x/ibc/middleware/keeper", "", "parseIBCCoinDenom"); fd != nil && fd.Body != nil {
		ps := paramNames(fd)
		if len(ps) == 2 {
			t := &parseTr{c: c, denom: ps[1]}
			paths = t.prog(fd.Body.List, map[string]string{})
		}
	}
	var xs, facts []string
	for _, p := range paths {
		xs = append(xs, "("+p.cond+", "+p.res+")")
		facts = append(facts, p.cond+" => "+p.res)
	}
	fmt.Fprintf(sb, "/-- parseIBCCoinDenom: exclusive paths as (condition over the packet denomination, denomination it answers) -/\ndef parseDenomProg : List (PCond × PRes) := [%s]\n", strings.Join(xs, ", "))
	c.facts["C19.parseDenomProg"] = facts
}
