package main

import (
	"fmt"
	"go/ast"
	"strings"
)

// c15LookupSteps: the top-level statements of one of the custom-parameter look-ups of x/gov/keeper/proposal.go
// (GetCustomMsgVotingPeriod, GetCustomMsgQuorum) in source order, as (kind, argument) pairs the Lean model interprets:
//
//	("msgType", <how the type url is obtained>)   msgType := getProposalMsgType(proposal) — the classification of c15.go
//	("ifFound", <expr>)                           if customParams, found := keeper.GetCustomParams(ctx, msgType); found { return <expr> }
//	("ifNotFound", <expr>)                        … ; !found { return <expr> }
//	("return", <expr>)                            return <expr>
//	("other", <source>)                           anything else
func c15LookupSteps(c *ctxT, kdir, fn, kind string) [][2]string {
	fd := c.findFunc(kdir, "Keeper", fn)
	if fd == nil || fd.Body == nil {
		return [][2]string{{"other", "<" + fn + " not found>"}}
	}
	var out [][2]string
	for _, st := range fd.Body.List {
		switch x := st.(type) {
		case *ast.AssignStmt:
			if len(x.Lhs) == 1 && len(x.Rhs) == 1 && c.src(x.Lhs[0]) == "msgType" {
				out = append(out, [2]string{"msgType", kind})
				continue
			}
		case *ast.IfStmt:
			if x.Init != nil && x.Else == nil && x.Body != nil && len(x.Body.List) == 1 &&
				squash(c.src(x.Init)) == "customParams, found := keeper.GetCustomParams(ctx, msgType)" {
				if r, ok := x.Body.List[0].(*ast.ReturnStmt); ok && len(r.Results) == 1 {
					switch squash(c.src(x.Cond)) {
					case "found":
						out = append(out, [2]string{"ifFound", squash(c.src(r.Results[0]))})
						continue
					case "!found":
						out = append(out, [2]string{"ifNotFound", squash(c.src(r.Results[0]))})
						continue
					}
				}
			}
		case *ast.ReturnStmt:
			if len(x.Results) == 1 {
				out = append(out, [2]string{"return", squash(c.src(x.Results[0]))})
				continue
			}
		}
		out = append(out, [2]string{"other", squash(c.src(st))})
	}
	return out
}

func c15EmitLookup(c *ctxT, b *strings.Builder, name, doc string, steps [][2]string) {
	fmt.Fprintf(b, "/-- %s -/\ndef %s : List (String × String) := [\n", doc, name)
	var flat []string
	for i, t := range steps {
		sep := ","
		if i == len(steps)-1 {
			sep = ""
		}
		fmt.Fprintf(b, "  (%s, %s)%s\n", leanStr(t[0]), leanStr(t[1]), sep)
		flat = append(flat, t[0]+" "+t[1])
	}
	b.WriteString("]\n\n")
	c.facts["C15."+name] = flat
}
