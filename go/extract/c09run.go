package main

import (
	"fmt"
	"go/ast"
	"go/token"
	"sort"
	"strings"
)

// C09, second table: the SHAPE of every precompile method's Run, statement by statement, as the frame model needs it
// (Model/C09.lean `RunShape`): what Run does outside / before / after the one ExecuteNativeAction closure, whether a
// deferred recover() or a finite gas meter sits around the native action, and — path by path through the closure, helpers
// of the package expanded — the ORDER of keeper writes (W), keeper reads (R), EVM calls on the same StateDB (E: methods
// of an ERC20Call value, evm.Call) and logs (L).  Emitted next to the method table as `runFacts` (keyed by ABI name).

type c09RunFacts struct {
	Contract, AbiName  string
	RunSeq             []string // top-level statements of Run in source order
	OuterWritesBefore  int      // keeper calls that are not reads, on an outer ctx (stateDB.Context()), before the native action
	OuterWritesAfter   int      // … after it (or anywhere, when there is no native action)
	OuterWritesOnError int      // round 4: … in the body of `if err = ExecuteNativeAction(…); err != nil { … }` (or of the `if err != nil` that tests the action's error): after the snapshot was put back
	OuterReads         int
	NativeStmts        int        // statements containing ExecuteNativeAction
	ActionErrorDropped int        // the error ExecuteNativeAction returns is discarded, or reassigned / shadowed before it is tested or returned
	Recovers           int        // recover() calls anywhere in Run (deferred function literals included)
	Defers             int        // defer statements in Run
	CtxRebinds         []string   // With*/… methods through which a ctx is re-bound or re-wrapped in Run
	UseGas             int        // contract.UseGas / gas meter consumption on the contract in Run
	Panics             int        // explicit panic(...) in Run
	Paths              [][]string // event paths through the closure (helpers expanded, branches split, loops unrolled twice)
	PathsTruncated     bool
}

const c09MaxPaths = 6000

var c09ReadPrefixes = []string{"Get", "Has", "Is", "Query", "Validate", "Calculate", "Must", "Parse", "Unpack", "Pack", "New", "Logger", "ModuleAddress", "ToTargetDenom", "Iterate", "Check"}

func c09IsRead(name string) bool {
	for _, p := range c09ReadPrefixes {
		if strings.HasPrefix(name, p) {
			return true
		}
	}
	return false
}

type c09PathCtx struct {
	c       *ctxT
	byName  map[string]*ast.FuncDecl // package functions / methods by name (helpers)
	depth   int
	erc20   map[string]bool // local variables holding an ERC20Call
	ctxName map[string]bool // identifiers that denote a ctx in the current function
	trunc   *bool
}

// events of one expression / simple statement, in source order
func (pc *c09PathCtx) events(n ast.Node) [][]string {
	type ev struct {
		pos  int
		alts [][]string
	}
	var evs []ev
	ast.Inspect(n, func(x ast.Node) bool {
		if _, isLit := x.(*ast.FuncLit); isLit {
			return false
		}
		ce, ok := x.(*ast.CallExpr)
		if !ok {
			return true
		}
		name := calleeName(ce)
		// EVM call on the same StateDB
		if se, ok := ce.Fun.(*ast.SelectorExpr); ok {
			if id, ok := se.X.(*ast.Ident); ok {
				if pc.erc20[id.Name] {
					k := "E:"
					if name == "TotalSupply" || name == "BalanceOf" || name == "Decimals" || name == "Symbol" || name == "Name" {
						k = "S:" // static call: cannot write
					}
					evs = append(evs, ev{int(ce.Pos()), [][]string{{k + name}}})
					return true
				}
				if id.Name == "evm" && (name == "Call" || name == "CallCode" || name == "DelegateCall" || name == "Create" || name == "Create2") {
					evs = append(evs, ev{int(ce.Pos()), [][]string{{"E:evm." + name}}})
					return true
				}
				if id.Name == "evm" && name == "StaticCall" {
					evs = append(evs, ev{int(ce.Pos()), [][]string{{"S:evm.StaticCall"}}})
					return true
				}
			}
		}
		if name == "EmitEvent" || name == "AddLog" {
			if se, ok := ce.Fun.(*ast.SelectorExpr); ok && name == "EmitEvent" {
				if _, isCall := se.X.(*ast.CallExpr); isCall {
					return true // ctx.EventManager().EmitEvent: a Cosmos event
				}
			}
			evs = append(evs, ev{int(ce.Pos()), [][]string{{"L:" + name}}})
			return true
		}
		// does the call receive a ctx?
		hasCtx := false
		for _, a := range ce.Args {
			if id, ok := a.(*ast.Ident); ok && pc.ctxName[id.Name] {
				hasCtx = true
			}
		}
		if !hasCtx {
			return true
		}
		if fd, ok := pc.byName[name]; ok && fd.Body != nil && pc.depth < 4 {
			sub := pc.funcPaths(fd)
			evs = append(evs, ev{int(ce.Pos()), sub})
			return true
		}
		k := "W:"
		if c09IsRead(name) {
			k = "R:"
		}
		evs = append(evs, ev{int(ce.Pos()), [][]string{{k + name}}})
		return true
	})
	sort.SliceStable(evs, func(i, j int) bool { return evs[i].pos < evs[j].pos })
	res := [][]string{{}}
	for _, e := range evs {
		res = pc.cross(res, e.alts)
	}
	return res
}

func (pc *c09PathCtx) cross(a, b [][]string) [][]string {
	var out [][]string
	seen := map[string]bool{}
	for _, x := range a {
		for _, y := range b {
			p := append(append([]string{}, x...), y...)
			k := strings.Join(p, ",")
			if seen[k] {
				continue
			}
			seen[k] = true
			out = append(out, p)
			if len(out) >= c09MaxPaths {
				*pc.trunc = true
				return out
			}
		}
	}
	return out
}

// paths through a statement list: (paths that fall through, paths that returned)
func (pc *c09PathCtx) stmts(list []ast.Stmt) (open, done [][]string) {
	open = [][]string{{}}
	for _, st := range list {
		if len(open) == 0 {
			break
		}
		o2, d2 := pc.stmt(st)
		done = append(done, pc.cross(open, d2)...)
		open = pc.cross(open, o2)
		if len(done) > c09MaxPaths {
			*pc.trunc = true
			done = done[:c09MaxPaths]
		}
	}
	return open, done
}

func (pc *c09PathCtx) stmt(st ast.Stmt) (open, done [][]string) {
	switch v := st.(type) {
	case *ast.ReturnStmt:
		return nil, pc.events(v)
	case *ast.BlockStmt:
		return pc.stmts(v.List)
	case *ast.IfStmt:
		pre := [][]string{{}}
		if v.Init != nil {
			pc.noteAssign(v.Init)
			pre = pc.events(v.Init)
		}
		pre = pc.cross(pre, pc.events(v.Cond))
		bo, bd := pc.stmts(v.Body.List)
		var eo, ed [][]string
		if v.Else != nil {
			eo, ed = pc.stmt(v.Else)
		} else {
			eo = [][]string{{}}
		}
		open = pc.cross(pre, append(bo, eo...))
		done = pc.cross(pre, append(bd, ed...))
		return open, done
	case *ast.ForStmt, *ast.RangeStmt:
		var body *ast.BlockStmt
		pre := [][]string{{}}
		if f, ok := v.(*ast.ForStmt); ok {
			body = f.Body
			if f.Init != nil {
				pre = pc.events(f.Init)
			}
			if f.Cond != nil {
				pre = pc.cross(pre, pc.events(f.Cond))
			}
		} else {
			r := v.(*ast.RangeStmt)
			body = r.Body
			pre = pc.events(r.X)
		}
		bo, bd := pc.stmts(body.List)
		// zero, one or two iterations
		once := bo
		twice := pc.cross(bo, bo)
		open = pc.cross(pre, append(append([][]string{{}}, once...), twice...))
		done = pc.cross(pre, append(append([][]string{}, bd...), pc.cross(bo, bd)...))
		return open, done
	case *ast.SwitchStmt:
		pre := [][]string{{}}
		if v.Tag != nil {
			pre = pc.events(v.Tag)
		}
		hasDefault := false
		for _, cc := range v.Body.List {
			cl := cc.(*ast.CaseClause)
			if cl.List == nil {
				hasDefault = true
			}
			o, d := pc.stmts(cl.Body)
			open = append(open, o...)
			done = append(done, d...)
		}
		if !hasDefault {
			open = append(open, []string{})
		}
		return pc.cross(pre, open), pc.cross(pre, done)
	case *ast.DeferStmt, *ast.GoStmt:
		return [][]string{{}}, nil
	default:
		pc.noteAssign(st)
		return pc.events(st), nil
	}
}

// noteAssign records local variables that hold an ERC20Call or a ctx
func (pc *c09PathCtx) noteAssign(st ast.Stmt) {
	as, ok := st.(*ast.AssignStmt)
	if !ok {
		return
	}
	for i, l := range as.Lhs {
		id, ok := l.(*ast.Ident)
		if !ok || i >= len(as.Rhs) {
			continue
		}
		if ce, ok := as.Rhs[i].(*ast.CallExpr); ok {
			n := calleeName(ce)
			if n == "NewERC20Call" {
				pc.erc20[id.Name] = true
			}
			// ctx re-wrapped: ctx = ctx.WithX(...), cacheCtx, _ := ctx.CacheContext()
			if se, ok := ce.Fun.(*ast.SelectorExpr); ok {
				if r, ok := se.X.(*ast.Ident); ok && pc.ctxName[r.Name] && (strings.HasPrefix(n, "With") || n == "CacheContext") {
					pc.ctxName[id.Name] = true
				}
				if inner, ok := se.X.(*ast.CallExpr); ok { // ctx.WithA(..).WithB(..)
					if strings.HasPrefix(n, "With") && strings.Contains(pc.c.src(inner), "With") {
						pc.ctxName[id.Name] = true
					}
				}
			}
		}
	}
}

func (pc *c09PathCtx) funcPaths(fd *ast.FuncDecl) [][]string {
	sub := &c09PathCtx{c: pc.c, byName: pc.byName, depth: pc.depth + 1, erc20: map[string]bool{}, ctxName: map[string]bool{}, trunc: pc.trunc}
	if fd.Type.Params != nil {
		for _, p := range fd.Type.Params.List {
			if se, ok := p.Type.(*ast.SelectorExpr); ok && se.Sel.Name == "Context" {
				for _, n := range p.Names {
					sub.ctxName[n.Name] = true
				}
			}
		}
	}
	o, d := sub.stmts(fd.Body.List)
	return append(o, d...)
}

func (c *ctxT) c09Run(contract, abiName string, run *ast.FuncDecl, decls []*ast.FuncDecl) c09RunFacts {
	rf := c09RunFacts{Contract: contract, AbiName: abiName}
	byName := map[string]*ast.FuncDecl{}
	for _, fd := range decls {
		if fd.Body == nil || fd.Name.Name == "Run" || fd.Type.Params == nil {
			continue
		}
		for _, p := range fd.Type.Params.List {
			if se, ok := p.Type.(*ast.SelectorExpr); ok && se.Sel.Name == "Context" {
				byName[fd.Name.Name] = fd
			}
		}
	}
	outerCtxVars := map[string]bool{}
	ast.Inspect(run.Body, func(x ast.Node) bool {
		if as, ok := x.(*ast.AssignStmt); ok && len(as.Lhs) == 1 && len(as.Rhs) == 1 {
			if id, ok := as.Lhs[0].(*ast.Ident); ok && isContextCall(as.Rhs[0]) {
				outerCtxVars[id.Name] = true
			}
		}
		// branch, write := <outer ctx>.CacheContext(): the branch is as good as the outer ctx once its write-back
		// function is kept (a discarded `_` means the branch is never written back)
		if as, ok := x.(*ast.AssignStmt); ok && len(as.Lhs) == 2 && len(as.Rhs) == 1 {
			if ce, ok := as.Rhs[0].(*ast.CallExpr); ok && calleeName(ce) == "CacheContext" {
				if se, ok := ce.Fun.(*ast.SelectorExpr); ok {
					base := false
					if id, ok := se.X.(*ast.Ident); ok && outerCtxVars[id.Name] {
						base = true
					}
					if isContextCall(se.X) {
						base = true
					}
					id0, ok0 := as.Lhs[0].(*ast.Ident)
					id1, ok1 := as.Lhs[1].(*ast.Ident)
					if base && ok0 && ok1 && id1.Name != "_" {
						outerCtxVars[id0.Name] = true
					}
				}
			}
		}
		return true
	})
	// calls that receive an outer ctx, outside any ExecuteNativeAction closure
	var closure *ast.FuncLit
	closureParam := ""
	// ctx-receiving calls of a package helper, transitively (all of them act on the ctx the helper was handed)
	var helperCalls func(fd *ast.FuncDecl, depth int) []string
	helperCalls = func(fd *ast.FuncDecl, depth int) []string {
		var res []string
		params := map[string]bool{}
		for _, p := range fd.Type.Params.List {
			if se, ok := p.Type.(*ast.SelectorExpr); ok && se.Sel.Name == "Context" {
				for _, n := range p.Names {
					params[n.Name] = true
				}
			}
		}
		ast.Inspect(fd.Body, func(x ast.Node) bool {
			ce, ok := x.(*ast.CallExpr)
			if !ok {
				return true
			}
			for _, a := range ce.Args {
				if id, ok := a.(*ast.Ident); ok && params[id.Name] {
					n := calleeName(ce)
					if h, ok := byName[n]; ok && depth < 4 {
						res = append(res, helperCalls(h, depth+1)...)
					} else if c09IsRead(n) {
						res = append(res, "R:"+n)
					} else {
						res = append(res, "W:"+n)
					}
					break
				}
			}
			return true
		})
		return res
	}
	outerCalls := func(n ast.Node) []string {
		var res []string
		ast.Inspect(n, func(x ast.Node) bool {
			if ce, ok := x.(*ast.CallExpr); ok {
				if calleeName(ce) == "ExecuteNativeAction" {
					return false // the closure is analysed separately
				}
				if isContextCall(ce) {
					return true
				}
				for _, a := range ce.Args {
					outer := false
					switch v := a.(type) {
					case *ast.Ident:
						outer = outerCtxVars[v.Name] || v.Name == "ctx"
					case *ast.CallExpr:
						outer = isContextCall(v)
					}
					if outer {
						k := "W:"
						if c09IsRead(calleeName(ce)) {
							k = "R:"
						}
						if h, ok := byName[calleeName(ce)]; ok {
							res = append(res, helperCalls(h, 0)...)
						} else {
							res = append(res, k+calleeName(ce))
						}
						break
					}
				}
			}
			return true
		})
		return res
	}
	hasCall := func(n ast.Node, name string) bool {
		found := false
		ast.Inspect(n, func(x ast.Node) bool {
			if ce, ok := x.(*ast.CallExpr); ok && calleeName(ce) == name {
				found = true
			}
			return !found
		})
		return found
	}
	for _, st := range run.Body.List {
		switch v := st.(type) {
		case *ast.DeferStmt:
			rf.Defers++
			if hasCall(v, "recover") {
				rf.RunSeq = append(rf.RunSeq, "defer-recover")
			} else {
				rf.RunSeq = append(rf.RunSeq, "defer")
			}
			continue
		case *ast.ReturnStmt:
			for _, o := range outerCalls(v) {
				rf.RunSeq = append(rf.RunSeq, "outer:"+o)
			}
			rf.RunSeq = append(rf.RunSeq, "return")
			continue
		}
		if hasCall(st, "ExecuteNativeAction") {
			// anything else in the same statement that touches an outer ctx comes first in evaluation order only if it is an
			// argument; record it as outer before
			// round 4: calls in the error branch of `if err = ExecuteNativeAction(..); err != nil { … }` run AFTER the action has
			// failed and its snapshot was put back — they are recorded as such, not as writes ahead of the action
			var errBody *ast.BlockStmt
			if is, ok := st.(*ast.IfStmt); ok && is.Init != nil && hasCall(is.Init, "ExecuteNativeAction") && !hasCall(is.Body, "ExecuteNativeAction") {
				errBody = is.Body
			}
			inErr := map[string]int{}
			if errBody != nil {
				for _, o := range outerCalls(errBody) {
					inErr[o]++
				}
			}
			for _, o := range outerCalls(st) {
				if inErr[o] > 0 {
					inErr[o]--
					rf.RunSeq = append(rf.RunSeq, "outer-on-error:"+o)
					continue
				}
				rf.RunSeq = append(rf.RunSeq, "outer:"+o)
			}
			rf.RunSeq = append(rf.RunSeq, "native")
			ast.Inspect(st, func(x ast.Node) bool {
				if ce, ok := x.(*ast.CallExpr); ok && calleeName(ce) == "ExecuteNativeAction" && len(ce.Args) == 3 && closure == nil {
					if fl, ok := ce.Args[2].(*ast.FuncLit); ok && len(fl.Type.Params.List) == 1 && len(fl.Type.Params.List[0].Names) == 1 {
						closure = fl
						closureParam = fl.Type.Params.List[0].Names[0].Name
					}
				}
				return true
			})
			// an `if err = ExecuteNativeAction(..); err != nil { return .. }` carries its error return inside
			continue
		}
		oc := outerCalls(st)
		// round 4: `err = ExecuteNativeAction(..)` followed by `if err != nil { … }`: outer calls in that body are on the error path
		onErr := false
		if is, ok := st.(*ast.IfStmt); ok && closure != nil && is.Init == nil {
			if be, ok := is.Cond.(*ast.BinaryExpr); ok && be.Op == token.NEQ && isNilIdent(be.Y) {
				if id, ok := be.X.(*ast.Ident); ok && strings.HasPrefix(id.Name, "err") {
					onErr = true
				}
			}
		}
		switch {
		case len(oc) > 0 && onErr:
			for _, o := range oc {
				rf.RunSeq = append(rf.RunSeq, "outer-on-error:"+o)
			}
		case len(oc) > 0:
			for _, o := range oc {
				rf.RunSeq = append(rf.RunSeq, "outer:"+o)
			}
		case hasCall(st, "UnpackInput"):
			rf.RunSeq = append(rf.RunSeq, "unpack")
		case hasCall(st, "UseGas"):
			rf.RunSeq = append(rf.RunSeq, "usegas")
		default:
			if is, ok := st.(*ast.IfStmt); ok && len(is.Body.List) > 0 {
				if _, isRet := is.Body.List[len(is.Body.List)-1].(*ast.ReturnStmt); isRet {
					rf.RunSeq = append(rf.RunSeq, "guard")
					continue
				}
			}
			rf.RunSeq = append(rf.RunSeq, "stmt")
		}
	}
	ast.Inspect(run.Body, func(x ast.Node) bool {
		ce, ok := x.(*ast.CallExpr)
		if !ok {
			return true
		}
		n := calleeName(ce)
		switch {
		case n == "recover":
			rf.Recovers++
		case n == "panic":
			rf.Panics++
		case n == "UseGas":
			rf.UseGas++
		case strings.HasPrefix(n, "With") || n == "CacheContext":
			if se, ok := ce.Fun.(*ast.SelectorExpr); ok {
				recv := strings.Join(strings.Fields(c.src(se.X)), "")
				if recv == "ctx" || recv == closureParam || outerCtxVars[recv] || strings.HasSuffix(recv, ".Context()") || strings.Contains(recv, ".With") {
					rf.CtxRebinds = append(rf.CtxRebinds, n)
				}
			}
		}
		return true
	})
	// def-use of the error of ExecuteNativeAction over the top-level statements of Run
	isNativeCall := func(e ast.Expr) bool {
		ce, ok := e.(*ast.CallExpr)
		return ok && calleeName(ce) == "ExecuteNativeAction"
	}
	mentions := func(n ast.Node, name string) bool {
		found := false
		ast.Inspect(n, func(x ast.Node) bool {
			if id, ok := x.(*ast.Ident); ok && id.Name == name {
				found = true
			}
			return !found
		})
		return found
	}
	assigns := func(st ast.Stmt, name string) bool {
		as, ok := st.(*ast.AssignStmt)
		if !ok {
			return false
		}
		for _, l := range as.Lhs {
			if id, ok := l.(*ast.Ident); ok && id.Name == name {
				return true
			}
		}
		return false
	}
	testsNotNil := func(e ast.Expr, name string) bool {
		ok := false
		ast.Inspect(e, func(x ast.Node) bool {
			if be, isB := x.(*ast.BinaryExpr); isB && be.Op == token.NEQ && isNilIdent(be.Y) {
				if id, isI := be.X.(*ast.Ident); isI && id.Name == name {
					ok = true
				}
			}
			return !ok
		})
		return ok
	}
	for i, st := range run.Body.List {
		if !hasCall(st, "ExecuteNativeAction") {
			continue
		}
		switch v := st.(type) {
		case *ast.IfStmt:
			as, isAs := v.Init.(*ast.AssignStmt)
			if isAs && len(as.Lhs) == 1 && len(as.Rhs) == 1 && isNativeCall(as.Rhs[0]) {
				id, _ := as.Lhs[0].(*ast.Ident)
				if id == nil || id.Name == "_" || !testsNotNil(v.Cond, id.Name) {
					rf.ActionErrorDropped++
				}
			} else {
				rf.ActionErrorDropped++ // a shape this analysis does not know
			}
		case *ast.ReturnStmt:
			// return …, stateDB.ExecuteNativeAction(…): handed on as it is
		case *ast.AssignStmt:
			if len(v.Lhs) != 1 || len(v.Rhs) != 1 || !isNativeCall(v.Rhs[0]) {
				rf.ActionErrorDropped++
				break
			}
			id, _ := v.Lhs[0].(*ast.Ident)
			if id == nil || id.Name == "_" {
				rf.ActionErrorDropped++
				break
			}
			used := false
			for _, nx := range run.Body.List[i+1:] {
				if is, ok := nx.(*ast.IfStmt); ok {
					if is.Init != nil && assigns(is.Init, id.Name) {
						break // reassigned in the init of the next if
					}
					if testsNotNil(is.Cond, id.Name) {
						used = true
						break
					}
				}
				if rs, ok := nx.(*ast.ReturnStmt); ok {
					for _, r := range rs.Results {
						if rid, ok := r.(*ast.Ident); ok && rid.Name == id.Name {
							used = true
						}
					}
					break
				}
				if assigns(nx, id.Name) {
					break // overwritten or shadowed before any test
				}
				if mentions(nx, id.Name) {
					used = true // handed to something else (wrapped, logged, returned inside) — not lost silently
					break
				}
			}
			if !used {
				rf.ActionErrorDropped++
			}
		default:
			rf.ActionErrorDropped++ // result discarded (expression statement) or unknown shape
		}
	}
	seenNative := false
	for _, x := range rf.RunSeq {
		switch {
		case x == "native":
			seenNative = true
			rf.NativeStmts++
		case strings.HasPrefix(x, "outer:R:"):
			rf.OuterReads++
		case strings.HasPrefix(x, "outer:W:"):
			if seenNative {
				rf.OuterWritesAfter++
			} else {
				rf.OuterWritesBefore++
			}
		case strings.HasPrefix(x, "outer-on-error:W:"):
			rf.OuterWritesOnError++
		}
	}
	if closure != nil {
		trunc := false
		pc := &c09PathCtx{c: c, byName: byName, erc20: map[string]bool{}, ctxName: map[string]bool{closureParam: true}, trunc: &trunc}
		// ERC20Call values created before the closure are visible inside it
		ast.Inspect(run.Body, func(x ast.Node) bool {
			if as, ok := x.(*ast.AssignStmt); ok {
				for i, l := range as.Lhs {
					if id, ok := l.(*ast.Ident); ok && i < len(as.Rhs) {
						if ce, ok := as.Rhs[i].(*ast.CallExpr); ok && calleeName(ce) == "NewERC20Call" {
							pc.erc20[id.Name] = true
						}
					}
				}
			}
			return true
		})
		o, d := pc.stmts(closure.Body.List)
		seen := map[string]bool{}
		for _, p := range append(o, d...) {
			k := strings.Join(p, ",")
			if !seen[k] {
				seen[k] = true
				rf.Paths = append(rf.Paths, p)
			}
		}
		sort.Slice(rf.Paths, func(i, j int) bool { return strings.Join(rf.Paths[i], ",") < strings.Join(rf.Paths[j], ",") })
		// the facts stated over paths are prefix-closed: keep the maximal paths only
		var maxp [][]string
		for i, p := range rf.Paths {
			k := strings.Join(p, ",") + ","
			isPrefix := len(p) == 0 && len(rf.Paths) > 1
			for j, q := range rf.Paths {
				if i != j && len(q) > len(p) && strings.HasPrefix(strings.Join(q, ",")+",", k) {
					isPrefix = true
					break
				}
			}
			if !isPrefix {
				maxp = append(maxp, p)
			}
		}
		rf.Paths = maxp
		rf.PathsTruncated = trunc
	}
	return rf
}

func c09RunFactsLean(rfs []c09RunFacts) string {
	var sb strings.Builder
	sb.WriteString(`/-- shape of one method's Run (see go/extract/c09run.go): top-level statements in order, recover()/defer, ctx re-binding,
and every path through the native-action closure as a sequence of W (keeper write) / R (keeper read) / E (EVM call on the
same StateDB) / S (static EVM call) / L (log) events, helpers of the package expanded -/
inductive Ev | W | R | E | S | L
  deriving Repr, DecidableEq

structure RunFacts where
  contract : String
  abiName : String
  runSeq : List String
  outerWritesBefore : Nat
  outerWritesAfter : Nat
  outerWritesOnError : Nat
  outerReads : Nat
  nativeStmts : Nat
  actionErrorDropped : Nat
  recovers : Nat
  defers : Nat
  ctxRebinds : List String
  useGas : Nat
  panics : Nat
  paths : List (List Ev)
  pathsTruncated : Bool
  deriving Repr, DecidableEq

def runFacts : List RunFacts := [
`)
	for i, r := range rfs {
		var ps []string
		for _, p := range r.Paths {
			var ks []string
			for _, e := range p {
				ks = append(ks, "."+e[:1])
			}
			ps = append(ps, "\n      -- "+strings.Join(p, " ")+"\n      "+leanList(ks))
		}
		fmt.Fprintf(&sb, "  { contract := %s, abiName := %s, runSeq := %s,\n    outerWritesBefore := %d, outerWritesAfter := %d, outerWritesOnError := %d, outerReads := %d, nativeStmts := %d, actionErrorDropped := %d, recovers := %d, defers := %d, ctxRebinds := %s, useGas := %d, panics := %d,\n    paths := %s, pathsTruncated := %s }",
			leanStr(r.Contract), leanStr(r.AbiName), leanStrs(r.RunSeq), r.OuterWritesBefore, r.OuterWritesAfter, r.OuterWritesOnError, r.OuterReads, r.NativeStmts, r.ActionErrorDropped, r.Recovers, r.Defers, leanStrs(r.CtxRebinds), r.UseGas, r.Panics,
			leanList(ps), leanBool(r.PathsTruncated))
		if i+1 < len(rfs) {
			sb.WriteString(",")
		}
		sb.WriteString("\n")
	}
	sb.WriteString("]\n\n")
	return sb.String()
}
