package main

import (
	"fmt"
	"go/ast"
	"go/parser"
	"go/token"
	"math/big"
	"path/filepath"
	"strconv"
	"strings"
)

// C10: statement-level translations (small imperative IRs, interpreted by lean/FxVerif/Model/C10.lean) of
//   - x/gov/keeper CheckContractAddressIsDisabled: prelude, the one `for _, e := range <list>` loop with its body in
//     source order (assignments, strings.Cut, if / continue / break / return), epilogue;
//   - x/staking/precompile (*TransferShare).decrementAllowance: GetAllowance / comparisons / Sub / SetAllowance / returns
//     in source order, with the key arguments of the two keeper calls;
//   - x/staking/keeper GetAllowance / SetAllowance: the arguments both hand to types.GetAllowanceKey;
//   - per state-changing method of both precompiles: the ordered list of ctx-receiving calls inside the
//     ExecuteNativeAction closure, each with how its error is treated (checked / returned / blank / expr) and the
//     provenance of every argument;
//   - both dispatchers' step order is taken from Gen.C09.dispatchers.
//
// Anything the translator does not understand is emitted as an `unknown "<source>"` node: the interpreter answers
// `unknown` for it, so the proof obligation (not the translator) breaks and the driver disagrees with the real app.
func init() { register(extractC10) }

type c10Vars struct {
	idx   map[string]int
	names []string
}

func (v *c10Vars) id(name string) int {
	if i, ok := v.idx[name]; ok {
		return i
	}
	if v.idx == nil {
		v.idx = map[string]int{}
	}
	i := len(v.names)
	v.idx[name] = i
	v.names = append(v.names, name)
	return i
}

func leanChars(s string) string {
	var parts []string
	for _, r := range s {
		switch r {
		case '\'':
			parts = append(parts, `'\''`)
		case '\\':
			parts = append(parts, `'\\'`)
		case '\n':
			parts = append(parts, `'\n'`)
		case '\t':
			parts = append(parts, `'\t'`)
		default:
			parts = append(parts, "'"+string(r)+"'")
		}
	}
	return "[" + strings.Join(parts, ", ") + "]"
}

func flat(s string) string { return strings.Join(strings.Fields(s), " ") }

func selName(e ast.Expr) (string, string) {
	if se, ok := e.(*ast.SelectorExpr); ok {
		if id, ok := se.X.(*ast.Ident); ok {
			return id.Name, se.Sel.Name
		}
		return "", se.Sel.Name
	}
	return "", ""
}

// ---------------------------------------------------------------------------------------------------------
// CheckContractAddressIsDisabled

type c10Dis struct {
	c                   *ctxT
	vars                c10Vars
	listP, addrP, methP string
	unknowns            int
}

func (d *c10Dis) unk(kind string, n ast.Node) string {
	d.unknowns++
	return "(." + kind + " " + leanStr(flat(d.c.src(n))) + ")"
}

func (d *c10Dis) se(e ast.Expr) string {
	switch v := e.(type) {
	case *ast.ParenExpr:
		return d.se(v.X)
	case *ast.Ident:
		if v.Name == d.listP || v.Name == d.addrP || v.Name == d.methP || v.Name == "nil" || v.Name == "true" || v.Name == "false" {
			return d.unk("unknown", e)
		}
		return fmt.Sprintf("(.var %d)", d.vars.id(v.Name))
	case *ast.BasicLit:
		if v.Kind == token.STRING {
			if s, err := strconv.Unquote(v.Value); err == nil {
				return "(.lit " + leanChars(s) + ")"
			}
		}
	case *ast.BinaryExpr:
		if v.Op == token.ADD {
			return "(.cat " + d.se(v.X) + " " + d.se(v.Y) + ")"
		}
	case *ast.CallExpr:
		pk, fn := selName(v.Fun)
		switch {
		case pk == "strings" && fn == "ToLower" && len(v.Args) == 1:
			return "(.lower " + d.se(v.Args[0]) + ")"
		case pk == "strings" && fn == "ToUpper" && len(v.Args) == 1:
			return "(.upper " + d.se(v.Args[0]) + ")"
		case pk == d.addrP && (fn == "String" || fn == "Hex") && len(v.Args) == 0:
			return ".addrString"
		case pk == "hex" && fn == "EncodeToString" && len(v.Args) == 1:
			if id, ok := v.Args[0].(*ast.Ident); ok && id.Name == d.methP {
				return ".hexMethodId"
			}
		case pk == "fmt" && fn == "Sprintf" && len(v.Args) >= 1:
			if bl, ok := v.Args[0].(*ast.BasicLit); ok && bl.Kind == token.STRING {
				if f, err := strconv.Unquote(bl.Value); err == nil {
					pieces := strings.Split(f, "%s")
					if len(pieces) == len(v.Args) && !strings.Contains(strings.Join(pieces, ""), "%") {
						out := "(.lit " + leanChars(pieces[0]) + ")"
						for i, a := range v.Args[1:] {
							out = "(.cat " + out + " " + d.se(a) + ")"
							if pieces[i+1] != "" {
								out = "(.cat " + out + " (.lit " + leanChars(pieces[i+1]) + "))"
							}
						}
						return out
					}
				}
			}
		}
	}
	return d.unk("unknown", e)
}

func (d *c10Dis) be(e ast.Expr) string {
	switch v := e.(type) {
	case *ast.ParenExpr:
		return d.be(v.X)
	case *ast.Ident:
		if v.Name == "true" {
			return ".tt"
		}
		if v.Name == "false" {
			return "(.not .tt)"
		}
		return fmt.Sprintf("(.bvar %d)", d.vars.id(v.Name))
	case *ast.UnaryExpr:
		if v.Op == token.NOT {
			return "(.not " + d.be(v.X) + ")"
		}
	case *ast.BinaryExpr:
		switch v.Op {
		case token.LAND:
			return "(.and " + d.be(v.X) + " " + d.be(v.Y) + ")"
		case token.LOR:
			return "(.or " + d.be(v.X) + " " + d.be(v.Y) + ")"
		case token.EQL, token.NEQ:
			// len(<list>) == 0
			if ce, ok := v.X.(*ast.CallExpr); ok {
				if id, ok := ce.Fun.(*ast.Ident); ok && id.Name == "len" && len(ce.Args) == 1 {
					if a, ok := ce.Args[0].(*ast.Ident); ok && a.Name == d.listP {
						if bl, ok := v.Y.(*ast.BasicLit); ok && bl.Value == "0" {
							if v.Op == token.EQL {
								return ".lenZero"
							}
							return "(.not .lenZero)"
						}
					}
					return d.unk("unknown", e)
				}
			}
			if v.Op == token.EQL {
				return "(.eq " + d.se(v.X) + " " + d.se(v.Y) + ")"
			}
			return "(.not (.eq " + d.se(v.X) + " " + d.se(v.Y) + "))"
		}
	case *ast.CallExpr:
		pk, fn := selName(v.Fun)
		switch {
		case pk == "strings" && fn == "HasPrefix" && len(v.Args) == 2:
			return "(.hasPrefix " + d.se(v.Args[0]) + " " + d.se(v.Args[1]) + ")"
		case pk == "strings" && fn == "EqualFold" && len(v.Args) == 2:
			return "(.eq (.lower " + d.se(v.Args[0]) + ") (.lower " + d.se(v.Args[1]) + "))"
		}
	}
	return d.unk("unknown", e)
}

func (d *c10Dis) block(b *ast.BlockStmt) string {
	if b == nil {
		return "[]"
	}
	var parts []string
	for _, s := range b.List {
		parts = append(parts, d.stmt(s))
	}
	return leanList(parts)
}

func (d *c10Dis) stmt(s ast.Stmt) string {
	switch v := s.(type) {
	case *ast.AssignStmt:
		if len(v.Lhs) == 1 && len(v.Rhs) == 1 && (v.Tok == token.DEFINE || v.Tok == token.ASSIGN) {
			if id, ok := v.Lhs[0].(*ast.Ident); ok && id.Name != "_" {
				return fmt.Sprintf("(.assign %d %s)", d.vars.id(id.Name), d.se(v.Rhs[0]))
			}
		}
		if len(v.Lhs) == 3 && len(v.Rhs) == 1 {
			if ce, ok := v.Rhs[0].(*ast.CallExpr); ok {
				if pk, fn := selName(ce.Fun); pk == "strings" && fn == "Cut" && len(ce.Args) == 2 {
					ids := make([]int, 3)
					okAll := true
					for i, l := range v.Lhs {
						id, ok := l.(*ast.Ident)
						if !ok {
							okAll = false
							break
						}
						if id.Name == "_" {
							ids[i] = d.vars.id(fmt.Sprintf("_blank%d", i))
						} else {
							ids[i] = d.vars.id(id.Name)
						}
					}
					if okAll {
						return fmt.Sprintf("(.cut %d %d %d %s %s)", ids[0], ids[1], ids[2], d.se(ce.Args[0]), d.se(ce.Args[1]))
					}
				}
			}
		}
	case *ast.IfStmt:
		if v.Init == nil {
			els := "[]"
			switch e := v.Else.(type) {
			case *ast.BlockStmt:
				els = d.block(e)
			case *ast.IfStmt:
				els = "[" + d.stmt(e) + "]"
			}
			return "(.ite " + d.be(v.Cond) + " " + d.block(v.Body) + " " + els + ")"
		}
	case *ast.ReturnStmt:
		if len(v.Results) == 1 {
			if isNilIdent(v.Results[0]) {
				return ".retNil"
			}
			if ce, ok := v.Results[0].(*ast.CallExpr); ok {
				pk, fn := selName(ce.Fun)
				if (pk == "errors" && fn == "New") || (pk == "fmt" && fn == "Errorf") || fn == "Wrap" || fn == "Wrapf" {
					return ".retErr"
				}
			}
		}
	case *ast.BranchStmt:
		if v.Label == nil && v.Tok == token.CONTINUE {
			return ".cont"
		}
		if v.Label == nil && v.Tok == token.BREAK {
			return ".brk"
		}
	}
	return d.unk("unknown", s)
}

// ---------------------------------------------------------------------------------------------------------
// decrementAllowance

type c10Dec struct {
	c        *ctxT
	vars     c10Vars
	params   []string
	unknowns int
}

var c10BigConsts = map[string]string{
	"abi.MaxUint256":      "115792089237316195423570985008687907853269984665640564039457584007913129639935",
	"math.MaxBig256":      "115792089237316195423570985008687907853269984665640564039457584007913129639935",
	"abi.MaxInt256":       "57896044618658097711785492504343953926634992332820282019728792003956564819967",
	"common.Big0":         "0",
	"common.Big1":         "1",
	"common.Big2":         "2",
	"common.Big3":         "3",
	"common.Big32":        "32",
	"common.Big256":       "256",
	"common.Big257":       "257",
	"math.BigPow(2, 256)": "115792089237316195423570985008687907853269984665640564039457584007913129639936",
}

func (d *c10Dec) unk(n ast.Node) string {
	d.unknowns++
	return "(.unknown " + leanStr(flat(d.c.src(n))) + ")"
}

// pureRecv: a receiver whose previous value does not matter and which is not a named variable: big.NewInt(k), new(big.Int)
func pureBigRecv(e ast.Expr) bool {
	ce, ok := e.(*ast.CallExpr)
	if !ok {
		return false
	}
	if pk, fn := selName(ce.Fun); pk == "big" && fn == "NewInt" {
		return true
	}
	if id, ok := ce.Fun.(*ast.Ident); ok && id.Name == "new" {
		return true
	}
	return false
}

func (d *c10Dec) ie(e ast.Expr) string {
	switch v := e.(type) {
	case *ast.ParenExpr:
		return d.ie(v.X)
	case *ast.Ident:
		if v.Name == "nil" {
			return d.unk(e)
		}
		return fmt.Sprintf("(.var %d)", d.vars.id(v.Name))
	case *ast.SelectorExpr:
		if k, ok := c10BigConsts[flat(d.c.src(v))]; ok {
			return "(.const " + k + ")"
		}
	case *ast.CallExpr:
		pk, fn := selName(v.Fun)
		if pk == "big" && fn == "NewInt" && len(v.Args) == 1 {
			if bl, ok := v.Args[0].(*ast.BasicLit); ok && bl.Kind == token.INT {
				if n, ok := new(big.Int).SetString(strings.ReplaceAll(bl.Value, "_", ""), 0); ok && n.Sign() >= 0 {
					return "(.const " + n.String() + ")"
				}
			}
		}
		if se, ok := v.Fun.(*ast.SelectorExpr); ok && len(v.Args) == 2 && pureBigRecv(se.X) {
			switch se.Sel.Name {
			case "Sub":
				return "(.sub " + d.ie(v.Args[0]) + " " + d.ie(v.Args[1]) + ")"
			case "Add":
				return "(.add " + d.ie(v.Args[0]) + " " + d.ie(v.Args[1]) + ")"
			}
		}
		if se, ok := v.Fun.(*ast.SelectorExpr); ok && se.Sel.Name == "Set" && len(v.Args) == 1 && pureBigRecv(se.X) {
			return d.ie(v.Args[0])
		}
	}
	return d.unk(e)
}

func cmpOpName(t token.Token) string {
	switch t {
	case token.LSS:
		return ".lt"
	case token.LEQ:
		return ".le"
	case token.EQL:
		return ".eq"
	case token.NEQ:
		return ".ne"
	case token.GTR:
		return ".gt"
	case token.GEQ:
		return ".ge"
	}
	return ""
}

func smallInt(e ast.Expr) (int, bool) {
	switch v := e.(type) {
	case *ast.BasicLit:
		if v.Kind == token.INT {
			n, err := strconv.Atoi(v.Value)
			return n, err == nil
		}
	case *ast.UnaryExpr:
		if v.Op == token.SUB {
			n, ok := smallInt(v.X)
			return -n, ok
		}
	}
	return 0, false
}

func leanInt(n int) string {
	if n < 0 {
		return fmt.Sprintf("(%d)", n)
	}
	return strconv.Itoa(n)
}

func (d *c10Dec) ic(e ast.Expr) string {
	switch v := e.(type) {
	case *ast.ParenExpr:
		return d.ic(v.X)
	case *ast.UnaryExpr:
		if v.Op == token.NOT {
			return "(.not " + d.ic(v.X) + ")"
		}
	case *ast.BinaryExpr:
		switch v.Op {
		case token.LAND:
			return "(.and " + d.ic(v.X) + " " + d.ic(v.Y) + ")"
		case token.LOR:
			return "(.or " + d.ic(v.X) + " " + d.ic(v.Y) + ")"
		}
		if op := cmpOpName(v.Op); op != "" {
			if ce, ok := v.X.(*ast.CallExpr); ok {
				if se, ok := ce.Fun.(*ast.SelectorExpr); ok {
					if k, ok := smallInt(v.Y); ok {
						if se.Sel.Name == "Cmp" && len(ce.Args) == 1 {
							return "(.cmp " + d.ie(se.X) + " " + d.ie(ce.Args[0]) + " " + op + " " + leanInt(k) + ")"
						}
						if se.Sel.Name == "Sign" && len(ce.Args) == 0 {
							return "(.cmp " + d.ie(se.X) + " (.const 0) " + op + " " + leanInt(k) + ")"
						}
					}
				}
			}
		}
	}
	return "(.unknown " + leanStr(flat(d.c.src(e))) + ")"
}

func (d *c10Dec) keyArgs(args []ast.Expr) string {
	var ks []string
	for _, a := range args {
		ks = append(ks, leanStr(flat(d.c.src(a))))
	}
	return leanList(ks)
}

func (d *c10Dec) block(b *ast.BlockStmt) string {
	if b == nil {
		return "[]"
	}
	var parts []string
	for _, s := range b.List {
		parts = append(parts, d.stmt(s)...)
	}
	return leanList(parts)
}

func (d *c10Dec) stmt(s ast.Stmt) []string {
	switch v := s.(type) {
	case *ast.AssignStmt:
		if len(v.Lhs) == 1 && len(v.Rhs) == 1 && (v.Tok == token.DEFINE || v.Tok == token.ASSIGN) {
			id, ok := v.Lhs[0].(*ast.Ident)
			if !ok || id.Name == "_" {
				break
			}
			if ce, ok := v.Rhs[0].(*ast.CallExpr); ok {
				if _, fn := selName(ce.Fun); fn == "GetAllowance" && len(ce.Args) >= 1 {
					return []string{fmt.Sprintf("(.getAllow %d %s)", d.vars.id(id.Name), d.keyArgs(ce.Args[1:]))}
				}
				// x := recv.Sub(a, b) with a named receiver also overwrites the receiver
				if se, ok := ce.Fun.(*ast.SelectorExpr); ok && (se.Sel.Name == "Sub" || se.Sel.Name == "Add") && len(ce.Args) == 2 {
					if rid, ok := se.X.(*ast.Ident); ok {
						op := ".sub"
						if se.Sel.Name == "Add" {
							op = ".add"
						}
						e := "(" + op + " " + d.ie(ce.Args[0]) + " " + d.ie(ce.Args[1]) + ")"
						return []string{fmt.Sprintf("(.assign %d %s)", d.vars.id(rid.Name), e),
							fmt.Sprintf("(.assign %d (.var %d))", d.vars.id(id.Name), d.vars.id(rid.Name))}
					}
				}
			}
			return []string{fmt.Sprintf("(.assign %d %s)", d.vars.id(id.Name), d.ie(v.Rhs[0]))}
		}
	case *ast.ExprStmt:
		if ce, ok := v.X.(*ast.CallExpr); ok {
			if _, fn := selName(ce.Fun); fn == "SetAllowance" && len(ce.Args) >= 2 {
				n := len(ce.Args)
				return []string{"(.setAllow " + d.keyArgs(ce.Args[1:n-1]) + " " + d.ie(ce.Args[n-1]) + ")"}
			}
			if se, ok := ce.Fun.(*ast.SelectorExpr); ok && (se.Sel.Name == "Sub" || se.Sel.Name == "Add") && len(ce.Args) == 2 {
				if rid, ok := se.X.(*ast.Ident); ok {
					op := ".sub"
					if se.Sel.Name == "Add" {
						op = ".add"
					}
					return []string{fmt.Sprintf("(.assign %d (%s %s %s))", d.vars.id(rid.Name), op, d.ie(ce.Args[0]), d.ie(ce.Args[1]))}
				}
			}
		}
	case *ast.IfStmt:
		if v.Init == nil {
			els := "[]"
			switch e := v.Else.(type) {
			case *ast.BlockStmt:
				els = d.block(e)
			case *ast.IfStmt:
				els = leanList(d.stmt(e))
			}
			return []string{"(.ite " + d.ic(v.Cond) + " " + d.block(v.Body) + " " + els + ")"}
		}
	case *ast.ReturnStmt:
		if len(v.Results) == 1 {
			if isNilIdent(v.Results[0]) {
				return []string{".retNil"}
			}
			if ce, ok := v.Results[0].(*ast.CallExpr); ok {
				pk, fn := selName(ce.Fun)
				if (pk == "errors" && fn == "New") || (pk == "fmt" && fn == "Errorf") || fn == "Wrap" || fn == "Wrapf" {
					return []string{".retErr"}
				}
			}
		}
	}
	return []string{d.unk(s)}
}

// ---------------------------------------------------------------------------------------------------------
// closure call sequences

type c10Step struct {
	Callee string
	Err    string   // checked | returned | blank | expr | assigned
	Args   []string // provenance per argument ("ctx", "caller", "arg:From", "origin", "self", "other:<src>")
}

// c10Closure lists, in source order, the ctx-receiving calls of the ExecuteNativeAction closure of a method's Run
func (c *ctxT) c10Closure(run *ast.FuncDecl) ([]c10Step, bool) {
	alias := map[string]ast.Expr{}
	ast.Inspect(run.Body, func(x ast.Node) bool {
		as, ok := x.(*ast.AssignStmt)
		if !ok || len(as.Lhs) != 1 || len(as.Rhs) != 1 {
			return true
		}
		if id, ok := as.Lhs[0].(*ast.Ident); ok {
			if _, dup := alias[id.Name]; !dup {
				alias[id.Name] = as.Rhs[0]
			}
		}
		return true
	})
	var lit *ast.FuncLit
	n := 0
	ast.Inspect(run.Body, func(x ast.Node) bool {
		if ce, ok := x.(*ast.CallExpr); ok {
			if se, ok := ce.Fun.(*ast.SelectorExpr); ok && se.Sel.Name == "ExecuteNativeAction" && len(ce.Args) == 3 {
				if fl, ok := ce.Args[2].(*ast.FuncLit); ok {
					lit = fl
					n++
				}
			}
		}
		return true
	})
	if lit == nil || n != 1 || len(lit.Type.Params.List) != 1 || len(lit.Type.Params.List[0].Names) != 1 {
		return nil, false
	}
	param := lit.Type.Params.List[0].Names[0].Name
	var steps []c10Step
	isErrVar := func(e ast.Expr) (string, bool) {
		id, ok := e.(*ast.Ident)
		if !ok {
			return "", false
		}
		return id.Name, strings.HasPrefix(strings.ToLower(id.Name), "err")
	}
	// does `if <v> != nil { ...; return <v> }` hold for this if statement?
	checks := func(is *ast.IfStmt, v string) bool {
		be, ok := is.Cond.(*ast.BinaryExpr)
		if !ok || be.Op != token.NEQ || !isNilIdent(be.Y) {
			return false
		}
		if id, ok := be.X.(*ast.Ident); !ok || id.Name != v {
			return false
		}
		if len(is.Body.List) == 0 {
			return false
		}
		rs, ok := is.Body.List[len(is.Body.List)-1].(*ast.ReturnStmt)
		if !ok || len(rs.Results) == 0 {
			return false
		}
		id, ok := rs.Results[len(rs.Results)-1].(*ast.Ident)
		return ok && id.Name == v
	}
	receivesCtx := func(ce *ast.CallExpr) bool {
		for _, a := range ce.Args {
			if id, ok := a.(*ast.Ident); ok && id.Name == param {
				return true
			}
		}
		return false
	}
	mk := func(ce *ast.CallExpr, errKind string) {
		st := c10Step{Callee: calleeName(ce), Err: errKind}
		for _, a := range ce.Args {
			if id, ok := a.(*ast.Ident); ok && id.Name == param {
				st.Args = append(st.Args, "ctx")
				continue
			}
			if id, ok := a.(*ast.Ident); ok && id.Name == "evm" {
				st.Args = append(st.Args, "evm")
				continue
			}
			st.Args = append(st.Args, strings.Join(c.c09Prov(a, alias, 0), "+"))
		}
		steps = append(steps, st)
	}
	var walk func(list []ast.Stmt)
	walk = func(list []ast.Stmt) {
		for i, s := range list {
			handled := map[*ast.CallExpr]bool{}
			switch v := s.(type) {
			case *ast.IfStmt:
				if as, ok := v.Init.(*ast.AssignStmt); ok && len(as.Rhs) == 1 {
					if ce, ok := as.Rhs[0].(*ast.CallExpr); ok && receivesCtx(ce) {
						kind := "assigned"
						if name, isErr := isErrVar(as.Lhs[len(as.Lhs)-1]); isErr && checks(v, name) {
							kind = "checked"
						} else if name == "_" {
							kind = "blank"
						}
						mk(ce, kind)
						handled[ce] = true
					}
				}
			case *ast.AssignStmt:
				if len(v.Rhs) == 1 {
					if ce, ok := v.Rhs[0].(*ast.CallExpr); ok && receivesCtx(ce) {
						kind := "assigned"
						name, isErr := isErrVar(v.Lhs[len(v.Lhs)-1])
						if name == "_" {
							kind = "blank"
						} else if isErr && i+1 < len(list) {
							if nx, ok := list[i+1].(*ast.IfStmt); ok && nx.Init == nil && checks(nx, name) {
								kind = "checked"
							}
						}
						mk(ce, kind)
						handled[ce] = true
					}
				}
			case *ast.ExprStmt:
				if ce, ok := v.X.(*ast.CallExpr); ok && receivesCtx(ce) {
					mk(ce, "expr")
					handled[ce] = true
				}
			case *ast.ReturnStmt:
				if len(v.Results) == 1 {
					if ce, ok := v.Results[0].(*ast.CallExpr); ok && receivesCtx(ce) {
						mk(ce, "returned")
						handled[ce] = true
					}
				}
			}
			// any other ctx-receiving call nested in this statement (arguments, conditions), and nested blocks
			ast.Inspect(s, func(x ast.Node) bool {
				switch w := x.(type) {
				case *ast.BlockStmt:
					if x != ast.Node(s) {
						walk(w.List)
						return false
					}
				case *ast.CallExpr:
					if !handled[w] && receivesCtx(w) {
						mk(w, "nested")
						handled[w] = true
					}
				}
				return true
			})
		}
	}
	walk(lit.Body.List)
	return steps, true
}

// ---------------------------------------------------------------------------------------------------------

func extractC10(c *ctxT) {
	var sb strings.Builder
	sb.WriteString("namespace FxVerif.Gen.C10\n\n")
	sb.WriteString(`/-- string expressions of CheckContractAddressIsDisabled (variables are numbered, names in ` + "`disVarNames`" + `) -/
inductive SE
  | var (x : Nat) | lit (s : List Char) | lower (e : SE) | upper (e : SE) | cat (a b : SE)
  | addrString | hexMethodId | unknown (src : String)
  deriving Repr

inductive BE
  | tt | eq (a b : SE) | bvar (x : Nat) | not (b : BE) | and (a b : BE) | or (a b : BE) | lenZero
  | hasPrefix (a b : SE) | unknown (src : String)
  deriving Repr

inductive St
  | assign (x : Nat) (e : SE)
  | cut (before after found : Nat) (e sep : SE)
  | ite (c : BE) (thn els : List St)
  | retErr | retNil | cont | brk
  | unknown (src : String)
  deriving Repr

/-- prelude; the single range loop over the disabled list (loop variable, body); epilogue -/
structure DisProg where
  params : List String
  pre : List St
  loopVar : Nat
  body : List St
  post : List St
  loops : Nat
  deriving Repr

/-- integer expressions / conditions / statements of decrementAllowance -/
inductive IE
  | var (x : Nat) | const (n : Nat) | sub (a b : IE) | add (a b : IE) | unknown (src : String)
  deriving Repr

inductive CmpOp | lt | le | eq | ne | gt | ge
  deriving Repr, DecidableEq

inductive IC
  | cmp (a b : IE) (op : CmpOp) (k : Int) | not (c : IC) | and (a b : IC) | or (a b : IC) | unknown (src : String)
  deriving Repr

inductive ASt
  | getAllow (x : Nat) (key : List String)
  | setAllow (key : List String) (e : IE)
  | assign (x : Nat) (e : IE)
  | ite (c : IC) (thn els : List ASt)
  | retErr | retNil
  | unknown (src : String)
  deriving Repr

structure DecProg where
  params : List String
  body : List ASt
  deriving Repr

/-- one ctx-receiving call of an ExecuteNativeAction closure -/
structure Step where
  callee : String
  err : String
  args : List String
  deriving Repr, DecidableEq

structure Closure where
  contract : String
  abiName : String
  single : Bool
  steps : List Step
  deriving Repr, DecidableEq

`)

	// ---- CheckContractAddressIsDisabled
	d := &c10Dis{c: c}
	var pre, body, post []string
	loopVar, loops := 0, 0
	var params []string
	fd := c.findFunc("x/gov/keeper", "", "CheckContractAddressIsDisabled")
	if fd == nil || fd.Body == nil {
		pre = append(pre, "(.unknown \"CheckContractAddressIsDisabled not found\")")
	} else {
		for _, p := range fd.Type.Params.List {
			ts := flat(c.src(p.Type))
			for _, n := range p.Names {
				params = append(params, n.Name+" "+ts)
				switch ts {
				case "[]string":
					d.listP = n.Name
				case "common.Address":
					d.addrP = n.Name
				case "[]byte":
					d.methP = n.Name
				}
			}
		}
		for _, s := range fd.Body.List {
			if rs, ok := s.(*ast.RangeStmt); ok {
				loops++
				x, isId := rs.X.(*ast.Ident)
				key, keyOk := rs.Key.(*ast.Ident)
				val, valOk := rs.Value.(*ast.Ident)
				if loops == 1 && isId && x.Name == d.listP && keyOk && key.Name == "_" && valOk && rs.Tok == token.DEFINE {
					loopVar = d.vars.id(val.Name)
					for _, b := range rs.Body.List {
						body = append(body, d.stmt(b))
					}
					continue
				}
				tgt := &pre
				if loops > 1 {
					tgt = &post
				}
				*tgt = append(*tgt, d.unk("unknown", s))
				continue
			}
			if loops == 0 {
				pre = append(pre, d.stmt(s))
			} else {
				post = append(post, d.stmt(s))
			}
		}
	}
	fmt.Fprintf(&sb, "/-- %s: variable numbering of `disabledProg` -/\ndef disVarNames : List String := %s\n\n", "x/gov/keeper CheckContractAddressIsDisabled", leanStrs(d.vars.names))
	fmt.Fprintf(&sb, "def disabledProg : DisProg :=\n  { params := %s,\n    pre := %s,\n    loopVar := %d,\n    body := %s,\n    post := %s,\n    loops := %d }\n\n",
		leanStrs(params), leanList(pre), loopVar, leanList(body), leanList(post), loops)
	c.facts["C10.disabledProg.unknowns"] = d.unknowns
	c.facts["C10.disabledProg.vars"] = d.vars.names

	// ---- decrementAllowance
	de := &c10Dec{c: c}
	var dbody []string
	dfd := c.findFunc("x/staking/precompile", "TransferShare", "decrementAllowance")
	if dfd == nil || dfd.Body == nil {
		dbody = append(dbody, "(.unknown \"decrementAllowance not found\")")
		de.unknowns++
	} else {
		for _, p := range dfd.Type.Params.List {
			for _, n := range p.Names {
				de.params = append(de.params, n.Name)
				de.vars.id(n.Name)
			}
		}
		for _, s := range dfd.Body.List {
			dbody = append(dbody, de.stmt(s)...)
		}
	}
	fmt.Fprintf(&sb, "/-- x/staking/precompile (*TransferShare).decrementAllowance: variable numbering (parameters first) -/\ndef decVarNames : List String := %s\n\n", leanStrs(de.vars.names))
	fmt.Fprintf(&sb, "def decrementProg : DecProg :=\n  { params := %s,\n    body := %s }\n\n", leanStrs(de.params), leanList(dbody))
	c.facts["C10.decrementProg.unknowns"] = de.unknowns

	// ---- keeper GetAllowance / SetAllowance key arguments
	keyArgs := func(name string) ([]string, []string) {
		fd := c.findFunc("x/staking/keeper", "Keeper", name)
		var ps, ks []string
		if fd == nil || fd.Body == nil {
			return nil, nil
		}
		for _, p := range fd.Type.Params.List {
			for _, n := range p.Names {
				ps = append(ps, n.Name)
			}
		}
		ast.Inspect(fd.Body, func(x ast.Node) bool {
			if ce, ok := x.(*ast.CallExpr); ok && calleeName(ce) == "GetAllowanceKey" && ks == nil {
				for _, a := range ce.Args {
					ks = append(ks, flat(c.src(a)))
				}
			}
			return true
		})
		return ps, ks
	}
	gp, gk := keyArgs("GetAllowance")
	sp, sk := keyArgs("SetAllowance")
	fmt.Fprintf(&sb, "/-- x/staking/keeper: parameters of GetAllowance / SetAllowance and the arguments each hands to types.GetAllowanceKey -/\ndef getAllowanceParams : List String := %s\ndef getAllowanceKey : List String := %s\ndef setAllowanceParams : List String := %s\ndef setAllowanceKey : List String := %s\n\n",
		leanStrs(gp), leanStrs(gk), leanStrs(sp), leanStrs(sk))

	// ---- closures
	var clos []string
	type cloFact struct {
		Contract, AbiName string
		Steps             []c10Step
	}
	var cloFacts []cloFact
	for _, pk := range []struct{ name, rel string }{{"staking", "x/staking/precompile"}, {"crosschain", "x/crosschain/precompile"}} {
		decls := c.funcDecls(pk.rel)
		// type -> abi name, through the constructors
		abiOf := map[string]string{}
		for _, fd := range decls {
			if fd.Recv != nil || fd.Body == nil || !strings.HasPrefix(fd.Name.Name, "New") || fd.Type.Results == nil || len(fd.Type.Results.List) != 1 {
				continue
			}
			st, ok := fd.Type.Results.List[0].Type.(*ast.StarExpr)
			if !ok {
				continue
			}
			id, ok := st.X.(*ast.Ident)
			if !ok {
				continue
			}
			ast.Inspect(fd.Body, func(x ast.Node) bool {
				if ie, ok := x.(*ast.IndexExpr); ok {
					if se, ok := ie.X.(*ast.SelectorExpr); ok && se.Sel.Name == "Methods" {
						if bl, ok := ie.Index.(*ast.BasicLit); ok {
							abiOf[id.Name], _ = strconv.Unquote(bl.Value)
						}
					}
				}
				return true
			})
		}
		for _, fd := range decls {
			if fd.Name.Name != "Run" || fd.Body == nil || recvName(fd) == "Contract" {
				continue
			}
			name, ok := abiOf[recvName(fd)]
			if !ok {
				continue
			}
			steps, single := c.c10Closure(fd)
			if !single && steps == nil {
				// read-only methods have no closure
				hasNative := false
				ast.Inspect(fd.Body, func(x ast.Node) bool {
					if ce, ok := x.(*ast.CallExpr); ok && calleeName(ce) == "ExecuteNativeAction" {
						hasNative = true
					}
					return true
				})
				if !hasNative {
					continue
				}
			}
			var ss []string
			for _, s := range steps {
				ss = append(ss, fmt.Sprintf("{ callee := %s, err := %s, args := %s }", leanStr(s.Callee), leanStr(s.Err), leanStrs(s.Args)))
			}
			clos = append(clos, fmt.Sprintf("  -- %s\n  { contract := %s, abiName := %s, single := %s, steps := %s }", c.pos(fd), leanStr(pk.name), leanStr(name), leanBool(single), leanList(ss)))
			cloFacts = append(cloFacts, cloFact{pk.name, name, steps})
		}
	}
	sb.WriteString("/-- per state-changing method: the ctx-receiving calls inside its ExecuteNativeAction closure, in source order -/\ndef closures : List Closure := [\n" + strings.Join(clos, ",\n") + "\n]\n\n")
	c.facts["C10.closures"] = cloFacts

	// ---- value flows: how each payable crosschain method ties the native coins it takes from the precompile account
	// (handlerOriginToken's amount) to contract.Value()
	type vflow struct {
		Abi, Branch, Taken string
		Guards             []string
	}
	var vflows []string
	var vfacts []vflow
	{
		decls := c.funcDecls("x/crosschain/precompile")
		abiOf := map[string]string{}
		for _, fd := range decls {
			if fd.Recv != nil || fd.Body == nil || !strings.HasPrefix(fd.Name.Name, "New") || fd.Type.Results == nil || len(fd.Type.Results.List) != 1 {
				continue
			}
			if st, ok := fd.Type.Results.List[0].Type.(*ast.StarExpr); ok {
				if id, ok := st.X.(*ast.Ident); ok {
					ast.Inspect(fd.Body, func(x ast.Node) bool {
						if ie, ok := x.(*ast.IndexExpr); ok {
							if se, ok := ie.X.(*ast.SelectorExpr); ok && se.Sel.Name == "Methods" {
								if bl, ok := ie.Index.(*ast.BasicLit); ok {
									abiOf[id.Name], _ = strconv.Unquote(bl.Value)
								}
							}
						}
						return true
					})
				}
			}
		}
		for _, fd := range decls {
			if fd.Name.Name != "Run" || fd.Body == nil || recvName(fd) == "Contract" {
				continue
			}
			name, ok := abiOf[recvName(fd)]
			if !ok {
				continue
			}
			alias := map[string]ast.Expr{}
			ast.Inspect(fd.Body, func(x ast.Node) bool {
				if as, ok := x.(*ast.AssignStmt); ok && len(as.Lhs) == 1 && len(as.Rhs) == 1 {
					if id, ok := as.Lhs[0].(*ast.Ident); ok {
						if _, dup := alias[id.Name]; !dup {
							alias[id.Name] = as.Rhs[0]
						}
					}
				}
				return true
			})
			var ve func(e ast.Expr, depth int) string
			ve = func(e ast.Expr, depth int) string {
				switch v := e.(type) {
				case *ast.ParenExpr:
					return ve(v.X, depth)
				case *ast.Ident:
					if rhs, ok := alias[v.Name]; ok && depth < 5 {
						return ve(rhs, depth+1)
					}
				case *ast.SelectorExpr:
					if id, ok := v.X.(*ast.Ident); ok && id.Name == "args" {
						return "(.arg " + leanStr(v.Sel.Name) + ")"
					}
				case *ast.CallExpr:
					if se, ok := v.Fun.(*ast.SelectorExpr); ok {
						if id, ok := se.X.(*ast.Ident); ok && id.Name == "contract" && se.Sel.Name == "Value" && len(v.Args) == 0 {
							return ".value"
						}
						if se.Sel.Name == "Add" && len(v.Args) == 2 && pureBigRecv(se.X) {
							return "(.add " + ve(v.Args[0], depth) + " " + ve(v.Args[1], depth) + ")"
						}
						if pk, fn := selName(v.Fun); pk == "big" && fn == "NewInt" && len(v.Args) == 1 {
							if bl, ok := v.Args[0].(*ast.BasicLit); ok && bl.Kind == token.INT {
								return "(.const " + strings.ReplaceAll(bl.Value, "_", "") + ")"
							}
						}
					}
				}
				return "(.unknown " + leanStr(flat(c.src(e))) + ")"
			}
			// every handlerOriginToken call with the if-statements that enclose it and the error-returning comparisons
			// that precede it inside the innermost enclosing block
			var visit func(list []ast.Stmt, conds []string)
			visit = func(list []ast.Stmt, conds []string) {
				var guards []string
				for _, st := range list {
					if is, ok := st.(*ast.IfStmt); ok && is.Init == nil {
						if be, ok := is.Cond.(*ast.BinaryExpr); ok {
							if op := cmpOpName(be.Op); op != "" {
								if ce, ok := be.X.(*ast.CallExpr); ok {
									if se, ok := ce.Fun.(*ast.SelectorExpr); ok && se.Sel.Name == "Cmp" && len(ce.Args) == 1 {
										if k, ok := smallInt(be.Y); ok && len(is.Body.List) > 0 {
											if rs, ok := is.Body.List[len(is.Body.List)-1].(*ast.ReturnStmt); ok && len(rs.Results) > 0 && !isNilIdent(rs.Results[len(rs.Results)-1]) && is.Else == nil {
												guards = append(guards, "{ lhs := "+ve(se.X, 0)+", rhs := "+ve(ce.Args[0], 0)+", op := "+op+", k := "+leanInt(k)+" }")
											}
										}
									}
								}
							}
						}
					}
					found := false
					ast.Inspect(st, func(x ast.Node) bool {
						if _, isBlock := x.(*ast.BlockStmt); isBlock {
							return false
						}
						if _, isLit := x.(*ast.FuncLit); isLit {
							return false
						}
						if ce, ok := x.(*ast.CallExpr); ok && calleeName(ce) == "handlerOriginToken" && len(ce.Args) == 4 {
							found = true
							vf := vflow{Abi: name, Branch: strings.Join(conds, " && "), Taken: ve(ce.Args[3], 0), Guards: guards}
							vfacts = append(vfacts, vf)
							vflows = append(vflows, fmt.Sprintf("  -- %s\n  { abiName := %s, branch := %s, guards := %s, taken := %s, recipient := %s }",
								c.pos(ce), leanStr(name), leanStr(vf.Branch), leanList(guards), vf.Taken, leanStr(strings.Join(c.c09Prov(ce.Args[2], alias, 0), "+"))))
						}
						return true
					})
					_ = found
					switch v := st.(type) {
					case *ast.IfStmt:
						cond := flat(c.src(v.Cond))
						visit(v.Body.List, append(append([]string{}, conds...), cond))
						if eb, ok := v.Else.(*ast.BlockStmt); ok {
							visit(eb.List, append(append([]string{}, conds...), "!("+cond+")"))
						}
					case *ast.ForStmt:
						visit(v.Body.List, conds)
					case *ast.RangeStmt:
						visit(v.Body.List, conds)
					case *ast.BlockStmt:
						visit(v.List, conds)
					}
				}
			}
			ast.Inspect(fd.Body, func(x ast.Node) bool {
				if fl, ok := x.(*ast.FuncLit); ok {
					visit(fl.Body.List, nil)
					return false
				}
				return true
			})
		}
	}
	sb.WriteString(`/-- amounts in a payable method: msg.value, an ABI argument, a sum -/
inductive VE
  | value | arg (name : String) | add (a b : VE) | const (n : Nat) | unknown (src : String)
  deriving Repr, DecidableEq

/-- ` + "`if lhs.Cmp(rhs) op k { return err }`" + ` -/
structure VGuard where
  lhs : VE
  rhs : VE
  op : CmpOp
  k : Int
  deriving Repr, DecidableEq

/-- one call of handlerOriginToken (precompile account -> evm module -> ` + "`recipient`" + `): the conditions of the enclosing ifs,
the error-returning comparisons before it in its block, the amount it is handed -/
structure ValueFlow where
  abiName : String
  branch : String
  guards : List VGuard
  taken : VE
  recipient : String
  deriving Repr, DecidableEq

`)
	sb.WriteString("def valueFlows : List ValueFlow := [\n" + strings.Join(vflows, ",\n") + "\n]\n\n")
	c.facts["C10.valueFlows"] = vfacts
	// handlerOriginToken itself: from which account the coins leave and where they go
	var otf []string
	if hfd := c.findFunc("x/crosschain/precompile", "Keeper", "handlerOriginToken"); hfd != nil && hfd.Body != nil {
		var ps []string
		for _, p := range hfd.Type.Params.List {
			for _, n := range p.Names {
				ps = append(ps, n.Name)
			}
		}
		otf = append(otf, "("+leanStr("params")+", "+leanStrs(ps)+")")
		ast.Inspect(hfd.Body, func(x ast.Node) bool {
			if ce, ok := x.(*ast.CallExpr); ok {
				nm := calleeName(ce)
				if strings.HasPrefix(nm, "SendCoins") || nm == "NewCoin" || nm == "MintCoins" || nm == "BurnCoins" {
					var as []string
					for _, a := range ce.Args {
						as = append(as, flat(c.src(a)))
					}
					otf = append(otf, "("+leanStr(nm)+", "+leanStrs(as)+")")
				}
			}
			return true
		})
	}
	sb.WriteString("/-- x/crosschain/precompile handlerOriginToken: its parameters and its bank calls in source order -/\n")
	sb.WriteString("def originTokenFlow : List (String × List String) := " + leanList(otf) + "\n\n")

	// ---- handlerTransferShares: the statements that read, guard and rewrite the two delegations, in source order
	var flow []string
	if hfd := c.findFunc("x/staking/precompile", "TransferShare", "handlerTransferShares"); hfd != nil && hfd.Body != nil {
		var hparams []string
		for _, p := range hfd.Type.Params.List {
			for _, n := range p.Names {
				hparams = append(hparams, n.Name)
			}
		}
		flow = append(flow, "("+leanStr("params")+", "+leanStr(strings.Join(hparams, ","))+")")
		add := func(k, v string) { flow = append(flow, "("+leanStr(k)+", "+leanStr(v)+")") }
		mutating := func(n ast.Node) bool {
			found := false
			ast.Inspect(n, func(x ast.Node) bool {
				if ce, ok := x.(*ast.CallExpr); ok {
					nm := calleeName(ce)
					for _, pre := range []string{"Set", "Remove", "Delete", "Withdraw", "Increment", "decrement", "increment", "Send", "Mint", "Burn"} {
						if strings.HasPrefix(nm, pre) {
							found = true
						}
					}
				}
				return true
			})
			return found
		}
		var walk func(list []ast.Stmt, depth int)
		walk = func(list []ast.Stmt, depth int) {
			for _, st := range list {
				switch v := st.(type) {
				case *ast.AssignStmt:
					if len(v.Rhs) == 1 {
						if ce, ok := v.Rhs[0].(*ast.CallExpr); ok {
							nm := calleeName(ce)
							lhs := flat(c.src(v.Lhs[0]))
							switch {
							case nm == "GetDelegation" && len(ce.Args) == 3:
								add("get", lhs+":"+flat(c.src(ce.Args[1]))+":"+flat(c.src(ce.Args[2])))
							case nm == "NewDelegation" && len(ce.Args) == 3:
								add("new", lhs+":"+flat(c.src(ce.Args[0]))+":"+flat(c.src(ce.Args[2])))
							case nm == "LegacyNewDecFromBigInt" && len(ce.Args) == 1:
								add("amount", lhs+":"+flat(c.src(ce.Args[0])))
							case nm == "WithdrawDelegatorReward":
								who := ""
								ast.Inspect(ce, func(x ast.Node) bool {
									if kv, ok := x.(*ast.KeyValueExpr); ok {
										if k, ok := kv.Key.(*ast.Ident); ok && k.Name == "DelegatorAddress" {
											who = flat(c.src(kv.Value))
										}
									}
									return true
								})
								add("withdraw", who)
							case nm == "Sub" || nm == "Add":
								if se, ok := ce.Fun.(*ast.SelectorExpr); ok && len(ce.Args) == 1 {
									recv := flat(c.src(se.X))
									if strings.HasSuffix(lhs, ".Shares") && recv == lhs {
										add(strings.ToLower(nm), strings.TrimSuffix(lhs, ".Shares")+":"+flat(c.src(ce.Args[0])))
									}
								}
							}
						}
					}
				case *ast.IfStmt:
					cond := flat(c.src(v.Cond))
					if v.Init != nil {
						if as, ok := v.Init.(*ast.AssignStmt); ok && len(as.Rhs) == 1 {
							if ce, ok := as.Rhs[0].(*ast.CallExpr); ok {
								nm := calleeName(ce)
								if (nm == "SetDelegation" || nm == "RemoveDelegation") && len(ce.Args) == 2 {
									add(map[string]string{"SetDelegation": "set", "RemoveDelegation": "remove"}[nm], flat(c.src(ce.Args[1])))
								}
							}
						}
					}
					endsInReturn := false
					retNilErr := false
					if n := len(v.Body.List); n > 0 {
						if rs, ok := v.Body.List[n-1].(*ast.ReturnStmt); ok && len(rs.Results) > 0 {
							endsInReturn = true
							retNilErr = isNilIdent(rs.Results[len(rs.Results)-1])
						}
					}
					switch {
					case strings.Contains(cond, ".LT(") && endsInReturn && !retNilErr:
						add("guard-lt", cond)
					case strings.Contains(cond, "==") && !strings.Contains(cond, "nil") && endsInReturn && retNilErr:
						if mutating(v.Body) {
							add("early-return-mutating", cond)
						} else {
							add("early-return", cond)
						}
					}
					walk(v.Body.List, depth+1)
					if eb, ok := v.Else.(*ast.BlockStmt); ok {
						walk(eb.List, depth+1)
					}
				}
			}
		}
		walk(hfd.Body.List, 0)
	}
	sb.WriteString("/-- x/staking/precompile handlerTransferShares: the statements that read, guard and rewrite the two delegations, in source order -/\n")
	sb.WriteString("def transferFlow : List (String × String) := " + leanList(flow) + "\n\n")

	// ---- go-ethereum fork (dependency): how a precompile frame is built and who is debited for msg.value
	var frameArgs []string
	addrCopySrc, transferArgs := "", []string{}
	var kindArgs []string
	if gdir := c.depDir("github.com/ethereum/go-ethereum"); gdir != "" {
		if f, err := parser.ParseFile(c.fset, filepath.Join(gdir, "core", "vm", "contracts.go"), nil, 0); err == nil {
			for _, d := range f.Decls {
				fd, ok := d.(*ast.FuncDecl)
				if !ok || fd.Body == nil || fd.Name.Name != "runPrecompiledContract" {
					continue
				}
				ast.Inspect(fd.Body, func(x ast.Node) bool {
					switch v := x.(type) {
					case *ast.AssignStmt:
						if len(v.Lhs) == 1 && len(v.Rhs) == 1 {
							if id, ok := v.Lhs[0].(*ast.Ident); ok && id.Name == "addrCopy" {
								addrCopySrc = flat(c.src(v.Rhs[0]))
							}
						}
					case *ast.CallExpr:
						if calleeName(v) == "NewPrecompile" && frameArgs == nil {
							for _, a := range v.Args {
								frameArgs = append(frameArgs, flat(c.src(a)))
							}
						}
					}
					return true
				})
			}
		}
		if f, err := parser.ParseFile(c.fset, filepath.Join(gdir, "core", "vm", "evm.go"), nil, 0); err == nil {
			byName := map[string][]string{}
			for _, d := range f.Decls {
				fd, ok := d.(*ast.FuncDecl)
				if !ok || fd.Body == nil || recvName(fd) != "EVM" {
					continue
				}
				switch fd.Name.Name {
				case "Call", "CallCode", "DelegateCall", "StaticCall":
				default:
					continue
				}
				ast.Inspect(fd.Body, func(x ast.Node) bool {
					ce, ok := x.(*ast.CallExpr)
					if !ok {
						return true
					}
					if calleeName(ce) == "RunPrecompiledContract" && byName[fd.Name.Name] == nil {
						for _, a := range ce.Args {
							byName[fd.Name.Name] = append(byName[fd.Name.Name], flat(c.src(a)))
						}
					}
					if fd.Name.Name == "Call" && calleeName(ce) == "Transfer" && len(transferArgs) == 0 {
						for _, a := range ce.Args {
							transferArgs = append(transferArgs, flat(c.src(a)))
						}
					}
					return true
				})
			}
			for _, k := range []string{"Call", "CallCode", "DelegateCall", "StaticCall"} {
				kindArgs = append(kindArgs, "("+leanStr(k)+", "+leanStrs(byName[k])+")")
			}
		}
	}
	sb.WriteString("/-- go-ethereum fork core/vm/evm.go: the arguments each call kind hands to RunPrecompiledContract -/\n")
	sb.WriteString("def forkPrecompileArgs : List (String × List String) := " + leanList(kindArgs) + "\n")
	sb.WriteString("/-- go-ethereum fork core/vm/contracts.go runPrecompiledContract: `addrCopy := …` and the arguments of NewPrecompile (caller, self, value, gas) -/\n")
	sb.WriteString("def forkAddrCopy : String := " + leanStr(addrCopySrc) + "\ndef forkFrameArgs : List String := " + leanStrs(frameArgs) + "\n")
	sb.WriteString("/-- go-ethereum fork EVM.Call: the arguments of the value Transfer -/\n")
	sb.WriteString("def forkCallTransfer : List String := " + leanStrs(transferArgs) + "\n\n")

	sb.WriteString("end FxVerif.Gen.C10\n")
	c.write("C10.lean", sb.String())
}
