package main

// C11 (fourth translator): the native actions of `TransferShares.Run` and `TransferFromShares.Run` — the closures handed
// to `ExecuteNativeAction` — are translated statement by statement into two small instruction lists (`Gen.C11.cfg.runTransfer`
// and `cfg.runFrom`) that the Lean model INTERPRETS (`Model/C11.lean`, `State.runR`): which call is made for whom
// (`contract.Caller()` / `args.From` / `args.To`, also through a local bound to one of them), with which validator and
// amount, whether its error is handed back, in which ORDER, and under which CONDITION (a call wrapped in an `if` is emitted
// as `.guarded cond call`, so that "decrementAllowance is called unconditionally, before the handler" is a regenerated
// fact the proofs depend on: `good cfg` demands `cfg.runFrom = refRunFrom`).  A state-changing statement outside the
// closure, or a statement the translator does not know, is emitted as `.unknown "<source>"` (the model refuses it).
//
// Statements without effect on the staking / distribution / allowance stores are skipped: unpacking of the input, the
// bindings `valAddr := args.GetValidator()` / `spender := contract.Caller()` (tracked as aliases), `PackOutput`, event
// emission, `if err != nil { return err }`, the final `return nil` / `return result, nil`.

import (
	"go/ast"
	"strings"
)

const c11RunTypes = `/-- whom an address argument of a Run closure denotes -/
inductive Who
  | caller                  -- contract.Caller() (also a local bound to it)
  | argFrom                 -- args.From
  | argTo                   -- args.To
  | unknown (src : String)
deriving Repr, DecidableEq

/-- conditions over the arguments of the call (they cannot change while the closure runs) -/
inductive RCond
  | eq (a b : Who)          -- a == b
  | ne (a b : Who)          -- a != b
  | unknown (src : String)
deriving Repr, DecidableEq

/-- the statements of the native action of TransferShares.Run / TransferFromShares.Run.  ` + "`val`" + `: the validator argument
is args.GetValidator(); ` + "`sharesArg`" + `: the amount is args.Shares; ` + "`errReturned`" + `: a failure of the call fails the action -/
inductive RStmt
  | decAllowance (val : Bool) (owner spender : Who) (sharesArg errReturned : Bool)   -- m.decrementAllowance(ctx, val, owner, spender, amt)
  | handler (val : Bool) (from_ to : Who) (sharesArg errReturned : Bool)             -- m.handlerTransferShares(ctx, evm, val, from, to, amt)
  | guarded (c : RCond) (x : RStmt)                                                  -- x inside if c { … }
  | retNil                                                                           -- an early ` + "`return nil`" + `
  | unknown (src : String)
deriving Repr, DecidableEq

`

type c11RunT struct {
	c     *ctxT
	alias map[string]string // local name -> normalised source it is bound to
}

func (r *c11RunT) resolve(s string) string {
	s = c11Norm(s)
	s = strings.TrimSuffix(s, ".Bytes()")
	for i := 0; i < 4; i++ {
		if a, ok := r.alias[s]; ok {
			s = strings.TrimSuffix(a, ".Bytes()")
		} else {
			break
		}
	}
	return s
}

func (r *c11RunT) who(e ast.Expr) string {
	switch s := r.resolve(r.c.src(e)); s {
	case "contract.Caller()":
		return ".caller"
	case "args.From":
		return ".argFrom"
	case "args.To":
		return ".argTo"
	default:
		return "(.unknown " + leanStr(s) + ")"
	}
}

func (r *c11RunT) isVal(e ast.Expr) bool   { return r.resolve(r.c.src(e)) == "args.GetValidator()" }
func (r *c11RunT) isShare(e ast.Expr) bool { return r.resolve(r.c.src(e)) == "args.Shares" }

func (r *c11RunT) cond(e ast.Expr) string {
	if be, ok := e.(*ast.BinaryExpr); ok && (be.Op.String() == "==" || be.Op.String() == "!=") {
		op := ".eq"
		if be.Op.String() == "!=" {
			op = ".ne"
		}
		return "(" + op + " " + r.who(be.X) + " " + r.who(be.Y) + ")"
	}
	return "(.unknown " + leanStr(c11Norm(r.c.src(e))) + ")"
}

func c11Bool(b bool) string {
	if b {
		return "true"
	}
	return "false"
}

// call translates one call of decrementAllowance / handlerTransferShares.
func (r *c11RunT) call(ce *ast.CallExpr, errReturned bool) string {
	switch c11CallName(ce) {
	case "decrementAllowance":
		if len(ce.Args) == 5 && c11Norm(r.c.src(ce.Args[0])) == "ctx" {
			return "(.decAllowance " + c11Bool(r.isVal(ce.Args[1])) + " " + r.who(ce.Args[2]) + " " + r.who(ce.Args[3]) + " " +
				c11Bool(r.isShare(ce.Args[4])) + " " + c11Bool(errReturned) + ")"
		}
	case "handlerTransferShares":
		if len(ce.Args) == 6 && c11Norm(r.c.src(ce.Args[0])) == "ctx" {
			return "(.handler " + c11Bool(r.isVal(ce.Args[2])) + " " + r.who(ce.Args[3]) + " " + r.who(ce.Args[4]) + " " +
				c11Bool(r.isShare(ce.Args[5])) + " " + c11Bool(errReturned) + ")"
		}
	}
	return "(.unknown " + leanStr(c11Norm(r.c.src(ce))) + ")"
}

func c11IsErrCheck(st ast.Stmt, c *ctxT) bool {
	is, ok := st.(*ast.IfStmt)
	return ok && is.Init == nil && is.Else == nil && c11Norm(c.src(is.Cond)) == "err != nil" && c11OnlyReturnsErr(is.Body)
}

// stateCall finds the (single) call of one of the two tracked functions inside n.
func c11StateCall(n ast.Node) *ast.CallExpr {
	cs := c11Calls(n, "decrementAllowance", "handlerTransferShares")
	if len(cs) == 1 {
		return cs[0]
	}
	return nil
}

// block translates a statement list; `next` lookahead decides errReturned for `x, err := call(); if err != nil {return err}`.
func (r *c11RunT) block(list []ast.Stmt, top bool) []string {
	var out []string
	for i, st := range list {
		src := c11Norm(r.c.src(st))
		nextIsErrCheck := i+1 < len(list) && c11IsErrCheck(list[i+1], r.c)
		switch x := st.(type) {
		case *ast.AssignStmt:
			if ce := c11StateCall(x); ce != nil {
				if len(x.Rhs) == 1 && x.Rhs[0] == ast.Expr(ce) {
					lastErr := len(x.Lhs) > 0 && c11Norm(r.c.src(x.Lhs[len(x.Lhs)-1])) == "err"
					out = append(out, r.call(ce, lastErr && nextIsErrCheck))
				} else {
					out = append(out, "(.unknown "+leanStr(src)+")")
				}
				continue
			}
			// alias bindings and neutral assignments
			if len(x.Lhs) == 1 && len(x.Rhs) == 1 {
				if id, ok := x.Lhs[0].(*ast.Ident); ok {
					rhs := c11Norm(r.c.src(x.Rhs[0]))
					switch {
					case rhs == "args.GetValidator()" || rhs == "contract.Caller()" || rhs == "args.From" || rhs == "args.To" || rhs == "args.Shares":
						r.alias[id.Name] = rhs
						continue
					case strings.HasPrefix(rhs, "evm.StateDB."):
						continue
					}
				}
			}
			if strings.Contains(src, "m.PackOutput(") || strings.Contains(src, "m.UnpackInput(") {
				continue
			}
			out = append(out, "(.unknown "+leanStr(src)+")")
		case *ast.DeclStmt:
			continue
		case *ast.ExprStmt:
			if ce := c11StateCall(x); ce != nil {
				if x.X == ast.Expr(ce) {
					out = append(out, r.call(ce, false)) // result dropped
				} else {
					out = append(out, "(.unknown "+leanStr(src)+")")
				}
				continue
			}
			if strings.HasPrefix(src, "ctx.EventManager().EmitEvent(") {
				continue
			}
			out = append(out, "(.unknown "+leanStr(src)+")")
		case *ast.ReturnStmt:
			last := ""
			if len(x.Results) > 0 {
				last = c11Norm(r.c.src(x.Results[len(x.Results)-1]))
			}
			if ce := c11StateCall(x); ce != nil {
				out = append(out, "(.unknown "+leanStr(src)+")")
				continue
			}
			if i == len(list)-1 && top {
				continue // the final return
			}
			if last == "nil" {
				out = append(out, ".retNil")
				continue
			}
			if last == "err" {
				continue // error propagation
			}
			out = append(out, "(.unknown "+leanStr(src)+")")
		case *ast.IfStmt:
			if c11IsErrCheck(x, r.c) {
				continue
			}
			// if err := call(…); err != nil { return err }
			if x.Init != nil && x.Else == nil && c11Norm(r.c.src(x.Cond)) == "err != nil" && c11OnlyReturnsErr(x.Body) {
				if as, ok := x.Init.(*ast.AssignStmt); ok && len(as.Rhs) == 1 {
					if ce, ok := as.Rhs[0].(*ast.CallExpr); ok {
						if c11StateCall(as) == ce {
							out = append(out, r.call(ce, true))
							continue
						}
						if c11StateCall(as) == nil && (strings.Contains(src, "m.PackOutput(") || strings.Contains(src, "m.UnpackInput(")) {
							continue
						}
					}
				}
				out = append(out, "(.unknown "+leanStr(src)+")")
				continue
			}
			if x.Init == nil && c11StateCall(x.Cond) == nil {
				// a conditional block: every statement of it is guarded by the condition (its negation in the else block)
				cnd := r.cond(x.Cond)
				for _, s := range r.block(x.Body.List, false) {
					out = append(out, "(.guarded "+cnd+" "+s+")")
				}
				if x.Else != nil {
					neg := "(.unknown " + leanStr("!("+c11Norm(r.c.src(x.Cond))+")") + ")"
					if strings.HasPrefix(cnd, "(.eq ") {
						neg = "(.ne " + strings.TrimPrefix(cnd, "(.eq ")
					} else if strings.HasPrefix(cnd, "(.ne ") {
						neg = "(.eq " + strings.TrimPrefix(cnd, "(.ne ")
					}
					if eb, ok := x.Else.(*ast.BlockStmt); ok {
						for _, s := range r.block(eb.List, false) {
							out = append(out, "(.guarded "+neg+" "+s+")")
						}
					} else {
						out = append(out, "(.unknown "+leanStr(c11Norm(r.c.src(x.Else)))+")")
					}
				}
				continue
			}
			out = append(out, "(.unknown "+leanStr(src)+")")
		default:
			out = append(out, "(.unknown "+leanStr(src)+")")
		}
	}
	return out
}

// c11RunProg translates the Run method `fd`: the statements of the closure handed to ExecuteNativeAction; tracked calls
// outside the closure are reported as unknown statements in front.
func (c *ctxT) c11RunProg(fd *ast.FuncDecl) []string {
	if fd == nil || fd.Body == nil {
		return []string{"(.unknown \"Run method not found\")"}
	}
	r := &c11RunT{c: c, alias: map[string]string{}}
	var closure *ast.FuncLit
	var out []string
	// alias bindings made before the closure (valAddr := args.GetValidator() in TransferShares.Run)
	for _, st := range fd.Body.List {
		if as, ok := st.(*ast.AssignStmt); ok && len(as.Lhs) == 1 && len(as.Rhs) == 1 {
			if id, ok := as.Lhs[0].(*ast.Ident); ok {
				switch rhs := c11Norm(c.src(as.Rhs[0])); rhs {
				case "args.GetValidator()", "contract.Caller()", "args.From", "args.To", "args.Shares":
					r.alias[id.Name] = rhs
				}
			}
		}
	}
	ast.Inspect(fd.Body, func(n ast.Node) bool {
		if ce, ok := n.(*ast.CallExpr); ok && c11CallName(ce) == "ExecuteNativeAction" && closure == nil {
			for _, a := range ce.Args {
				if fl, ok := a.(*ast.FuncLit); ok {
					closure = fl
				}
			}
		}
		return true
	})
	for _, ce := range c11Calls(fd.Body, "decrementAllowance", "handlerTransferShares", "SetAllowance") {
		if closure == nil || !c11Contains(closure, ce) {
			out = append(out, "(.unknown "+leanStr("outside the native action: "+c11Norm(c.src(ce)))+")")
		}
	}
	if closure == nil {
		return append(out, "(.unknown \"no ExecuteNativeAction closure\")")
	}
	return append(out, r.block(closure.Body.List, true)...)
}
