package main

import (
	"fmt"
	"go/ast"
	"go/parser"
	"go/token"
	"os"
	"path/filepath"
	"sort"
	"strings"
)

// C18, third translator: the INVENTORY of places in x/ and app/ where the code goes on after something failed, or runs
// something on a branch of the store — every syntactic form a tolerated-failure boundary can take:
//   cache         X.CacheContext()                     detail = how the write function is used (never / under which conditions / deferred)
//   recover       recover()                            detail = variables assigned in the recovering closure
//   nativeAction  stateDB.ExecuteNativeAction(…)       (snapshot, reverted when the closure returns an error)
//   errorAck      NewErrorAcknowledgement(…)           (an error turned into an acknowledgement: IBC goes on)
//   swallow       `if err != nil { … }` whose body does not leave the function / loop, `if err == nil { … }` whose error
//                 path falls through: execution continues after an error
//   discard       `_ = f(…)` / `_, _ = f(…)`
// Props/C18.inventory_classified requires every entry to be classified in Model/C18Inv.lean (covered by one of the
// boundary programs, a read with a fallback, propagates, never committed, not block processing, another property's
// subject): a NEW site breaks the proof until it is looked at.

type c18Site struct {
	Kind, File, Fn, Detail string
}

func c18InvSkip(rel string) bool {
	if strings.HasSuffix(rel, "_test.go") || strings.Contains(rel, ".pb.") {
		return true
	}
	for _, bad := range []string{"/client/", "/simulation/", "/testutil/", "/legacy/", "/mock", "/cli/"} {
		if strings.Contains("/"+rel, bad) {
			return true
		}
	}
	return false
}

func (c *ctxT) c18Inventory() string {
	var sites []c18Site
	fset := token.NewFileSet()
	src := func(n ast.Node) string {
		saved := c.fset
		c.fset = fset
		s := c.src(n)
		c.fset = saved
		return strings.Join(strings.Fields(s), " ")
	}
	for _, root := range []string{"x", "app"} {
		_ = filepath.Walk(filepath.Join(c.repo, root), func(path string, info os.FileInfo, err error) error {
			if err != nil || info.IsDir() || !strings.HasSuffix(path, ".go") {
				return nil
			}
			rel, _ := filepath.Rel(c.repo, path)
			if c18InvSkip(rel) {
				return nil
			}
			f, err := parser.ParseFile(fset, path, nil, 0)
			if err != nil {
				return nil
			}
			for _, d := range f.Decls {
				fd, ok := d.(*ast.FuncDecl)
				if !ok || fd.Body == nil {
					continue
				}
				fn := fd.Name.Name
				if r := recvName(fd); r != "" {
					fn = r + "." + fn
				}
				add := func(kind, detail string) { sites = append(sites, c18Site{kind, rel, fn, detail}) }
				// conditions under which a call of identifier object `obj` happens inside the function
				usage := func(obj *ast.Object) string {
					if obj == nil {
						return "discarded"
					}
					var uses []string
					var walk func(n ast.Node, path []string, deferred bool)
					walk = func(n ast.Node, path []string, deferred bool) {
						switch x := n.(type) {
						case nil:
							return
						case *ast.IfStmt:
							if x.Init != nil {
								walk(x.Init, path, deferred)
							}
							walk(x.Body, append(append([]string{}, path...), src(x.Cond)), deferred)
							if x.Else != nil {
								walk(x.Else, append(append([]string{}, path...), "!("+src(x.Cond)+")"), deferred)
							}
							return
						case *ast.DeferStmt:
							walk(x.Call, path, true)
							return
						case *ast.CallExpr:
							if id, ok := x.Fun.(*ast.Ident); ok && id.Obj == obj {
								u := "always"
								if len(path) > 0 {
									u = "if " + strings.Join(path, " && ")
								}
								if deferred {
									u = "deferred " + u
								}
								uses = append(uses, u)
							}
						case *ast.ReturnStmt:
							for _, r := range x.Results {
								if id, ok := r.(*ast.Ident); ok && id.Obj == obj {
									uses = append(uses, "returned")
								}
							}
						}
						ast.Inspect(n, func(m ast.Node) bool {
							if m == n || m == nil {
								return true
							}
							switch m.(type) {
							case *ast.IfStmt, *ast.DeferStmt, *ast.CallExpr, *ast.ReturnStmt:
								walk(m, path, deferred)
								return false
							}
							return true
						})
					}
					walk(fd.Body, nil, false)
					if len(uses) == 0 {
						return "never called"
					}
					return strings.Join(uses, " | ")
				}
				term := func(b *ast.BlockStmt) bool {
					if b == nil || len(b.List) == 0 {
						return false
					}
					switch l := b.List[len(b.List)-1].(type) {
					case *ast.ReturnStmt, *ast.BranchStmt:
						return true
					case *ast.ExprStmt:
						s := src(l.X)
						return strings.HasPrefix(s, "panic(") || strings.HasPrefix(s, "os.Exit") || strings.Contains(s, "Fatal")
					}
					return false
				}
				ast.Inspect(fd.Body, func(n ast.Node) bool {
					switch x := n.(type) {
					case *ast.AssignStmt:
						if len(x.Rhs) == 1 {
							if ce, ok := x.Rhs[0].(*ast.CallExpr); ok {
								if sel, ok := ce.Fun.(*ast.SelectorExpr); ok && sel.Sel.Name == "CacheContext" && len(x.Lhs) == 2 {
									var obj *ast.Object
									if id, ok := x.Lhs[1].(*ast.Ident); ok && id.Name != "_" {
										obj = id.Obj
									}
									add("cache", "write function: "+usage(obj))
									return true
								}
								allBlank := len(x.Lhs) > 0
								for _, l := range x.Lhs {
									if id, ok := l.(*ast.Ident); !ok || id.Name != "_" {
										allBlank = false
									}
								}
								if allBlank {
									add("discard", src(ce.Fun))
								}
							}
						}
					case *ast.CallExpr:
						switch fun := x.Fun.(type) {
						case *ast.Ident:
							if fun.Name == "recover" && len(x.Args) == 0 {
								add("recover", "")
							}
						case *ast.SelectorExpr:
							switch fun.Sel.Name {
							case "ExecuteNativeAction":
								add("nativeAction", "")
							case "NewErrorAcknowledgement":
								add("errorAck", "")
							}
						}
					case *ast.IfStmt:
						be, ok := x.Cond.(*ast.BinaryExpr)
						if !ok {
							return true
						}
						id, ok1 := be.X.(*ast.Ident)
						nl, ok2 := be.Y.(*ast.Ident)
						if !ok1 || !ok2 || nl.Name != "nil" || !strings.HasSuffix(strings.ToLower(id.Name), "err") {
							return true
						}
						what := ""
						if x.Init != nil {
							if as, ok := x.Init.(*ast.AssignStmt); ok && len(as.Rhs) == 1 {
								if ce, ok := as.Rhs[0].(*ast.CallExpr); ok {
									what = " after " + src(ce.Fun)
								}
							}
						}
						if be.Op == token.NEQ && !term(x.Body) {
							add("swallow", "if "+src(x.Cond)+" { no exit }"+what)
						} else if be.Op == token.EQL {
							eb, _ := x.Else.(*ast.BlockStmt)
							if x.Else == nil || (eb != nil && !term(eb)) {
								add("swallow", "if "+src(x.Cond)+" { … } error path goes on"+what)
							}
						}
					}
					return true
				})
			}
			return nil
		})
	}
	sort.SliceStable(sites, func(i, j int) bool {
		a, b := sites[i], sites[j]
		if a.File != b.File {
			return a.File < b.File
		}
		if a.Fn != b.Fn {
			return a.Fn < b.Fn
		}
		if a.Kind != b.Kind {
			return a.Kind < b.Kind
		}
		return false // keep source order inside one function
	})
	var sb strings.Builder
	sb.WriteString(`/-! ## inventory of tolerated-failure / store-branch sites in x/ and app/ (third translator, go/extract/c18inv.go) -/

/-- one site: syntactic kind ("cache" | "recover" | "nativeAction" | "errorAck" | "swallow" | "discard"), file, enclosing
function ("Recv.Func"), detail (for a cache: how its write function is used) -/
structure Site where
  kind : String
  file : String
  fn : String
  detail : String
deriving DecidableEq, Repr

def toleratedSites : List Site := [
`)
	for i, s := range sites {
		sep := ","
		if i == len(sites)-1 {
			sep = ""
		}
		fmt.Fprintf(&sb, "  ⟨%s, %s, %s, %s⟩%s\n", leanStr(s.Kind), leanStr(s.File), leanStr(s.Fn), leanStr(s.Detail), sep)
	}
	sb.WriteString("]\n\n")
	c.facts["C18.sites"] = sites
	return sb.String()
}
