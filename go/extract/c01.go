package main

import (
	"fmt"
	"go/ast"
	"go/token"
	"os"
	"path/filepath"
	"regexp"
	"sort"
	"strconv"
	"strings"
)

// C01/C02: facts of the attestation / quorum code that the theorems are stated over.
//   - numeric constants: vote threshold (66), its divisor (100) and the comparison used against it (LT), the governance
//     change threshold (30/100), MaxKeepEventSize, MaxOracleSize, the power reduction (fxtypes init: 10^20);
//   - guards read off the AST: per-oracle contiguity check in Attest, the two conjuncts of the tally condition, the
//     fallback of GetLastEventNonceByOracle, the Online check of checkBridgerIsOracle, whether UnbondedOracle deletes the
//     per-oracle last nonce, which functions call SetLastTotalPower;
//   - MsgClaim: the proto signer option, where MsgServer.Claim takes the voter from, and whether MsgClaim.ValidateBasic
//     compares the wrapper's bridger_address with the wrapped claim's bridger.
func init() { register(extractC01) }

const c01Keeper = "x/crosschain/keeper"
const c01Types = "x/crosschain/types"

// valueSpec finds the value expression of a package-level const/var.
func (c *ctxT) valueSpec(rel, name string) ast.Expr {
	p := c.pkg(rel)
	for _, fn := range sortedKeys(p) {
		for _, d := range p[fn].Decls {
			gd, ok := d.(*ast.GenDecl)
			if !ok || (gd.Tok != token.CONST && gd.Tok != token.VAR) {
				continue
			}
			for _, sp := range gd.Specs {
				vs := sp.(*ast.ValueSpec)
				for i, n := range vs.Names {
					if n.Name == name && i < len(vs.Values) {
						return vs.Values[i]
					}
				}
			}
		}
	}
	return nil
}

var reNewInt = regexp.MustCompile(`^(?:sdkmath|math|sdk)\.NewInt\((\d[\d_]*)\)$`)

// natOf evaluates an integer literal or sdkmath.NewInt(<literal>); -1 when it has another shape.
func (c *ctxT) natOf(e ast.Expr) int64 {
	if e == nil {
		return -1
	}
	s := c.src(e)
	if m := reNewInt.FindStringSubmatch(s); m != nil {
		s = m[1]
	}
	s = strings.ReplaceAll(s, "_", "")
	n, err := strconv.ParseInt(s, 10, 64)
	if err != nil {
		return -1
	}
	return n
}

func leanNat(n int64) string {
	if n < 0 {
		return "0 /- not found in the source -/"
	}
	return strconv.FormatInt(n, 10)
}


// conjuncts splits a && b && c.
func conjuncts(e ast.Expr) []ast.Expr {
	if p, ok := e.(*ast.ParenExpr); ok {
		return conjuncts(p.X)
	}
	if be, ok := e.(*ast.BinaryExpr); ok && be.Op == token.LAND {
		return append(conjuncts(be.X), conjuncts(be.Y)...)
	}
	return []ast.Expr{e}
}

// returnsError: block ends in a return whose last result is not the identifier nil.
func returnsError(b *ast.BlockStmt) bool {
	if b == nil || len(b.List) == 0 {
		return false
	}
	r, ok := b.List[len(b.List)-1].(*ast.ReturnStmt)
	if !ok || len(r.Results) == 0 {
		return false
	}
	last := r.Results[len(r.Results)-1]
	if id, ok := last.(*ast.Ident); ok && id.Name == "nil" {
		return false
	}
	return true
}

func callsMethod(n ast.Node, method string) bool {
	found := false
	ast.Inspect(n, func(x ast.Node) bool {
		if ce, ok := x.(*ast.CallExpr); ok {
			if se, ok := ce.Fun.(*ast.SelectorExpr); ok && se.Sel.Name == method {
				found = true
			}
		}
		return !found
	})
	return found
}

func extractC01(c *ctxT) {
	facts := map[string]any{}

	// ---- constants
	votes := c.natOf(c.valueSpec(c01Types, "AttestationVotesPowerThreshold"))
	gov := c.natOf(c.valueSpec(c01Types, "AttestationProposalOracleChangePowerThreshold"))
	maxKeep := c.natOf(c.valueSpec(c01Types, "MaxKeepEventSize"))
	maxOracle := c.natOf(c.valueSpec(c01Types, "MaxOracleSize"))

	// ---- TryAttestation: requiredPower := types.AttestationVotesPowerThreshold.Mul(totalPower).Quo(sdkmath.NewInt(100)); LT
	var votesDiv int64 = -1
	reqExpr := ".unknown"
	cmp := "other"
	totalFromStore := false
	sumsFoundOnly := false
	if fd := c.findFunc(c01Keeper, "Keeper", "TryAttestation"); fd != nil && fd.Body != nil {
		reReq := regexp.MustCompile(`^types\.AttestationVotesPowerThreshold\.Mul\(totalPower\)\.Quo\((?:sdkmath|math)\.NewInt\((\d+)\)\)$`)
		ast.Inspect(fd.Body, func(n ast.Node) bool {
			switch x := n.(type) {
			case *ast.AssignStmt:
				if len(x.Lhs) == 1 && len(x.Rhs) == 1 {
					l, r := c.src(x.Lhs[0]), c.src(x.Rhs[0])
					if l == "requiredPower" {
						if m := reReq.FindStringSubmatch(r); m != nil {
							votesDiv, _ = strconv.ParseInt(m[1], 10, 64)
						}
						reqExpr = c.qexpr(x.Rhs[0], map[string]string{"totalPower": ".total"}, 0)
					}
					if l == "totalPower" && r == "k.GetLastTotalPower(ctx)" {
						totalFromStore = true
					}
				}
			case *ast.IfStmt:
				s := c.src(x.Cond)
				if len(x.Body.List) == 1 {
					if br, ok := x.Body.List[0].(*ast.BranchStmt); ok && br.Tok == token.CONTINUE {
						switch s {
						case "attestationPower.LT(requiredPower)":
							cmp = "lt"
						case "attestationPower.LTE(requiredPower)":
							cmp = "lte"
						case "!found":
							sumsFoundOnly = true
						}
					}
				}
				// `if !found { log; continue }`
				if s == "!found" && len(x.Body.List) > 0 {
					if br, ok := x.Body.List[len(x.Body.List)-1].(*ast.BranchStmt); ok && br.Tok == token.CONTINUE {
						sumsFoundOnly = true
					}
				}
			}
			return true
		})
	}

	// ---- TryAttestation: what happens, inside the vote loop, once the power is not below the bar (top-level statements of
	// the loop body after the `continue` guard): the last observed nonce is set unconditionally, the attestation is marked
	// observed and stored, the handler runs through processAttestation, and the loop is left with `break`.
	obsSetsLast, obsMarks, obsProcess, obsBreaks := false, false, false, false
	if fd := c.findFunc(c01Keeper, "Keeper", "TryAttestation"); fd != nil && fd.Body != nil {
		for _, st := range fd.Body.List {
			rs, ok := st.(*ast.RangeStmt)
			if !ok || rs.Body == nil {
				continue
			}
			after := false
			marked := false
			for i, b := range rs.Body.List {
				if x, ok := b.(*ast.IfStmt); ok && strings.HasPrefix(c.src(x.Cond), "attestationPower.") {
					after = true
					continue
				}
				if !after {
					continue
				}
				switch x := b.(type) {
				case *ast.ExprStmt:
					switch c.src(x.X) {
					case "k.SetLastObservedEventNonce(ctx, claim.GetEventNonce())":
						obsSetsLast = true
					case "k.SetAttestation(ctx, claim.GetEventNonce(), claim.ClaimHash(), att)":
						if marked {
							obsMarks = true
						}
					}
				case *ast.AssignStmt:
					if len(x.Lhs) == 1 && len(x.Rhs) == 1 && c.src(x.Lhs[0]) == "att.Observed" && c.src(x.Rhs[0]) == "true" {
						marked = true
					}
					if len(x.Rhs) == 1 && c.src(x.Rhs[0]) == "k.processAttestation(ctx, claim)" {
						obsProcess = true
					}
				case *ast.BranchStmt:
					if x.Tok == token.BREAK && i == len(rs.Body.List)-1 {
						obsBreaks = true
					}
				}
			}
		}
	}
	// ---- where the summed powers come from: TryAttestation adds `oracle.GetPower()` of the found oracle; SetLastTotalPower
	// sums `oracle.GetPower()` over GetAllOracles(ctx, true) (online only) and stores the sum
	tallyGetPower, totalOnlineGetPower := false, false
	if fd := c.findFunc(c01Keeper, "Keeper", "TryAttestation"); fd != nil && fd.Body != nil {
		body := strings.Join(strings.Fields(stripComments(c.src(fd.Body))), " ")
		tallyGetPower = strings.Contains(body, "oracle, found := k.GetOracle(ctx, oracleAddr)") &&
			strings.Contains(body, "oraclePower := oracle.GetPower() attestationPower = attestationPower.Add(oraclePower)")
	}
	if fd := c.findFunc(c01Keeper, "Keeper", "SetLastTotalPower"); fd != nil && fd.Body != nil {
		body := strings.Join(strings.Fields(stripComments(c.src(fd.Body))), " ")
		totalOnlineGetPower = strings.HasPrefix(body, "{ oracles := k.GetAllOracles(ctx, true) totalPower := sdkmath.ZeroInt() for _, oracle := range oracles { totalPower = totalPower.Add(oracle.GetPower()) }") &&
			strings.Contains(body, "store.Set(types.LastTotalPowerKey, k.cdc.MustMarshal(&sdk.IntProto{Int: totalPower}))")
	}

	// ---- AttestationHandler: the three deferred claim types are only parked (SavePendingExecuteClaim), nothing else runs
	parksOnly := false
	if fd := c.findFunc(c01Keeper, "Keeper", "AttestationHandler"); fd != nil && fd.Body != nil {
		ast.Inspect(fd.Body, func(n ast.Node) bool {
			cc, ok := n.(*ast.CaseClause)
			if !ok {
				return true
			}
			var ts []string
			for _, e := range cc.List {
				ts = append(ts, c.src(e))
			}
			sort.Strings(ts)
			if strings.Join(ts, ",") == "*types.MsgBridgeCallClaim,*types.MsgBridgeCallResultClaim,*types.MsgSendToFxClaim" {
				if len(cc.Body) == 1 {
					if es, ok := cc.Body[0].(*ast.ExprStmt); ok && c.src(es.X) == "k.SavePendingExecuteClaim(ctx, externalClaim)" {
						parksOnly = true
					}
				}
			}
			return true
		})
	}

	if m := regexp.MustCompile(`^\(\.quo .* \(\.lit (\d+)\)\)$`).FindStringSubmatch(reqExpr); m != nil && votesDiv < 0 {
		votesDiv, _ = strconv.ParseInt(m[1], 10, 64) // the outermost operation divides by a literal
	}
	facts["C01.requiredExpr"] = reqExpr

	// ---- Attest: contiguity guard and tally condition
	contig, tallyNotObs, tallyNext, tallyCalled := false, false, false, false
	if fd := c.findFunc(c01Keeper, "Keeper", "Attest"); fd != nil && fd.Body != nil {
		lastFromOracle := false
		for _, st := range fd.Body.List {
			switch x := st.(type) {
			case *ast.AssignStmt:
				if len(x.Lhs) == 1 && len(x.Rhs) == 1 && c.src(x.Lhs[0]) == "lastEventNonce" &&
					c.src(x.Rhs[0]) == "k.GetLastEventNonceByOracle(ctx, oracleAddr)" {
					lastFromOracle = true
				}
			case *ast.IfStmt:
				s := c.src(x.Cond)
				if s == "claim.GetEventNonce() != lastEventNonce+1" && lastFromOracle && returnsError(x.Body) && !tallyCalled {
					contig = true
				}
				if callsMethod(x.Body, "TryAttestation") {
					tallyCalled = true
					for _, cj := range conjuncts(x.Cond) {
						switch c.src(cj) {
						case "!att.Observed":
							tallyNotObs = true
						case "claim.GetEventNonce() == k.GetLastObservedEventNonce(ctx)+1":
							tallyNext = true
						}
					}
				}
			case *ast.ExprStmt:
				if callsMethod(x, "TryAttestation") {
					tallyCalled = true // unconditional
				}
			}
		}
	}

	// ---- GetLastEventNonceByOracle fallback: absent key -> lastObserved-1 (0 when lastObserved = 0)
	fallback := false
	if fd := c.findFunc(c01Keeper, "Keeper", "GetLastEventNonceByOracle"); fd != nil && fd.Body != nil {
		body := strings.Join(strings.Fields(stripComments(c.src(fd.Body))), " ")
		want := "{ store := ctx.KVStore(k.storeKey) bytes := store.Get(types.GetLastEventNonceByOracleKey(oracleAddr)) if len(bytes) == 0 { lastEventNonce := k.GetLastObservedEventNonce(ctx) if lastEventNonce >= 1 { return lastEventNonce - 1 } else { return 0 } } return sdk.BigEndianToUint64(bytes) }"
		fallback = body == want
		facts["C01.fallbackBody"] = body
	}

	// ---- checkBridgerIsOracle: Online check
	online := false
	if fd := c.findFunc(c01Keeper, "MsgServer", "checkBridgerIsOracle"); fd != nil && fd.Body != nil {
		for _, st := range fd.Body.List {
			if x, ok := st.(*ast.IfStmt); ok && c.src(x.Cond) == "!oracle.Online" && returnsError(x.Body) {
				online = true
			}
		}
	}

	// ---- EditBridger: the index entry of the OLD bridger is deleted (DelOracleAddrByBridgerAddr(ctx, oracle.GetBridger()))
	// before the record's bridger is overwritten, and the new entry is set afterwards
	editDelOldFirst := false
	if fd := c.findFunc(c01Keeper, "MsgServer", "EditBridger"); fd != nil && fd.Body != nil {
		delIdx, asgIdx, setIdx := -1, -1, -1
		for i, st := range fd.Body.List {
			switch x := st.(type) {
			case *ast.ExprStmt:
				switch c.src(x.X) {
				case "s.DelOracleAddrByBridgerAddr(ctx, oracle.GetBridger())":
					delIdx = i
				case "s.SetOracleAddrByBridgerAddr(ctx, bridgerAddr, oracleAddr)":
					setIdx = i
				}
			case *ast.AssignStmt:
				if len(x.Lhs) == 1 && c.src(x.Lhs[0]) == "oracle.BridgerAddress" {
					asgIdx = i
				}
			}
		}
		editDelOldFirst = delIdx >= 0 && asgIdx > delIdx && setIdx > delIdx
	}

	// ---- UnbondedOracle deletes the per-oracle last nonce
	unbondDel := false
	if fd := c.findFunc(c01Keeper, "MsgServer", "UnbondedOracle"); fd != nil && fd.Body != nil {
		unbondDel = callsMethod(fd.Body, "DelLastEventNonceByOracle")
	}

	// ---- UnbondedOracle vs the staking unbonding delegation of the oracle's delegate address:
	//   requireExists  : `if _, err = GetUnbondingDelegation(..); err != nil { return nil, err }`
	//   refuseIfExists : `if _, err = GetUnbondingDelegation(..); err == nil { return nil, ErrInvalid... }`
	ubdRule := "none"
	if fd := c.findFunc(c01Keeper, "MsgServer", "UnbondedOracle"); fd != nil && fd.Body != nil {
		for _, st := range fd.Body.List {
			x, ok := st.(*ast.IfStmt)
			if !ok || x.Init == nil || !strings.Contains(c.src(x.Init), "GetUnbondingDelegation(") || !returnsError(x.Body) {
				continue
			}
			switch c.src(x.Cond) {
			case "err != nil":
				ubdRule = "requireExists"
			case "err == nil":
				ubdRule = "refuseIfExists"
			}
		}
	}

	// ---- ExecuteClaim: look-up guard, deletion of the parked entry, and their order relative to the handlers.
	//   execChecks : `x, found := k.GetPendingExecuteClaim(ctx, eventNonce)` followed by `if !found { return err }`
	//   execDeletes: an unconditional top-level `k.DeletePendingExecuteClaim(ctx, eventNonce)`
	//   execDeleteFirst: that statement precedes every top-level statement that (transitively in its own subtree) calls a
	//                    handler (SendToFxExecuted / BridgeCallHandler / BridgeCallResultHandler)
	execChecks, execDeletes, execDeleteFirst := false, false, false
	var execHandlers []string
	if fd := c.findFunc(c01Keeper, "Keeper", "ExecuteClaim"); fd != nil && fd.Body != nil {
		delIdx, firstHandler, getIdx := -1, -1, -1
		handlerNames := []string{"SendToFxExecuted", "BridgeCallHandler", "BridgeCallResultHandler"}
		for i, st := range fd.Body.List {
			switch x := st.(type) {
			case *ast.AssignStmt:
				if len(x.Rhs) == 1 && c.src(x.Rhs[0]) == "k.GetPendingExecuteClaim(ctx, eventNonce)" && len(x.Lhs) == 2 && c.src(x.Lhs[1]) == "found" {
					getIdx = i
				}
			case *ast.IfStmt:
				if getIdx >= 0 && i == getIdx+1 && x.Init == nil && c.src(x.Cond) == "!found" && returnsError(x.Body) {
					execChecks = true
				}
			case *ast.ExprStmt:
				if c.src(x.X) == "k.DeletePendingExecuteClaim(ctx, eventNonce)" && delIdx < 0 {
					delIdx = i
				}
			}
			for _, h := range handlerNames {
				if callsMethod(st, h) {
					if firstHandler < 0 {
						firstHandler = i
					}
					execHandlers = append(execHandlers, h)
				}
			}
		}
		execDeletes = delIdx >= 0
		execDeleteFirst = delIdx >= 0 && firstHandler >= 0 && delIdx < firstHandler && getIdx >= 0 && getIdx < delIdx
		facts["C01.executeClaim"] = map[string]any{"getIdx": getIdx, "deleteIdx": delIdx, "firstHandlerIdx": firstHandler, "handlers": execHandlers}
	}
	// the precompile runs ExecuteClaim inside StateDB.ExecuteNativeAction and returns its error (so a handler error
	// reverts the native action as a whole)
	execInNative := false
	if fd := c.findFunc("x/crosschain/precompile", "ExecuteClaimMethod", "Run"); fd != nil && fd.Body != nil {
		ast.Inspect(fd.Body, func(n ast.Node) bool {
			ce, ok := n.(*ast.CallExpr)
			if !ok {
				return true
			}
			se, ok := ce.Fun.(*ast.SelectorExpr)
			if !ok || se.Sel.Name != "ExecuteNativeAction" || len(ce.Args) == 0 {
				return true
			}
			fl, ok := ce.Args[len(ce.Args)-1].(*ast.FuncLit)
			if !ok || fl.Body == nil {
				return true
			}
			for _, st := range fl.Body.List {
				if x, ok := st.(*ast.IfStmt); ok && x.Init != nil && callsMethod(x.Init, "ExecuteClaim") &&
					c.src(x.Cond) == "err != nil" && returnsError(x.Body) {
					execInNative = true
				}
			}
			return true
		})
	}

	// ---- SetLastTotalPower call sites
	sites := map[string]bool{}
	for _, fd := range c.funcDecls(c01Keeper) {
		if fd.Body != nil && fd.Name.Name != "SetLastTotalPower" && callsMethod(fd.Body, "SetLastTotalPower") {
			sites[fd.Name.Name] = true
		}
	}
	var siteList []string
	for k := range sites {
		siteList = append(siteList, k)
	}
	sort.Strings(siteList)
	// slashing refreshes only when something was slashed
	slashingCond := false
	if fd := c.findFunc(c01Keeper, "Keeper", "slashing"); fd != nil && fd.Body != nil {
		for _, st := range fd.Body.List {
			if x, ok := st.(*ast.IfStmt); ok && callsMethod(x.Body, "SetLastTotalPower") &&
				c.src(x.Cond) == "oracleSetHasSlash || batchHasSlash || bridgeCallHasSlash" {
				slashingCond = true
			}
		}
	}
	// UpdateProposalOracles / UnbondedOracleFromProposal do NOT refresh
	govRefresh := sites["UpdateProposalOracles"] || sites["UnbondedOracleFromProposal"] || sites["UpdateChainOracles"]

	// ---- GetPower = DelegateAmount / sdk.DefaultPowerReduction ; fxtypes init sets DefaultPowerReduction = 10^k
	powerOk := false
	if fd := c.findFunc(c01Types, "Oracle", "GetPower"); fd != nil && fd.Body != nil {
		powerOk = strings.Join(strings.Fields(c.src(fd.Body)), " ") == "{ return m.DelegateAmount.Quo(sdk.DefaultPowerReduction) }"
	}
	powerRed := "0 /- not found in the source -/"
	rePR := regexp.MustCompile(`sdk\.DefaultPowerReduction\s*=\s*sdkmath\.NewIntFromBigInt\(new\(big\.Int\)\.Exp\(big\.NewInt\((\d+)\),\s*big\.NewInt\((\d+)\),\s*nil\)\)`)
	if bz, err := os.ReadFile(filepath.Join(c.repo, "types", "constant.go")); err == nil {
		if m := rePR.FindStringSubmatch(string(bz)); m != nil && powerOk {
			base, _ := strconv.Atoi(m[1])
			exp, _ := strconv.Atoi(m[2])
			if base == 10 && exp <= 60 {
				powerRed = "1" + strings.Repeat("0", exp)
			}
		}
	}

	// ---- MsgClaim: signer option, voter source, ValidateBasic binding
	signerField := ""
	if bz, err := os.ReadFile(filepath.Join(c.repo, "proto", "fx", "gravity", "crosschain", "v1", "tx.proto")); err == nil {
		re := regexp.MustCompile(`(?s)message MsgClaim \{.*?option \(cosmos\.msg\.v1\.signer\) = "([A-Za-z_]+)"`)
		if m := re.FindStringSubmatch(string(bz)); m != nil {
			signerField = m[1]
		}
	}
	voterSrc := "unknown"
	if fd := c.findFunc(c01Keeper, "MsgServer", "Claim"); fd != nil && fd.Body != nil {
		bridgerFrom := ""
		for _, st := range fd.Body.List {
			if x, ok := st.(*ast.AssignStmt); ok && len(x.Lhs) >= 1 && len(x.Rhs) == 1 {
				l, r := c.src(x.Lhs[0]), c.src(x.Rhs[0])
				if l == "bridgerAddr" {
					switch {
					case r == "claim.GetClaimer()":
						bridgerFrom = "inner"
					case strings.Contains(r, "msg.BridgerAddress"):
						bridgerFrom = "wrapper"
					}
				}
				if l == "oracleAddr" && r == "s.checkBridgerIsOracle(ctx, bridgerAddr)" && bridgerFrom != "" {
					voterSrc = bridgerFrom
				}
			}
		}
	}
	binds := false
	if fd := c.findFunc(c01Types, "MsgClaim", "ValidateBasic"); fd != nil && fd.Body != nil {
		recv := "m"
		if len(fd.Recv.List[0].Names) == 1 {
			recv = fd.Recv.List[0].Names[0].Name
		}
		for _, st := range fd.Body.List { // top level only: the check must be on every accepting path
			x, ok := st.(*ast.IfStmt)
			if !ok || !returnsError(x.Body) || x.Init != nil {
				continue
			}
			be, ok := x.Cond.(*ast.BinaryExpr)
			if !ok || be.Op != token.NEQ {
				continue
			}
			a, b := c.src(be.X), c.src(be.Y)
			isW := func(s string) bool { return s == recv+".BridgerAddress" || s == recv+".GetBridgerAddress()" }
			isI := func(s string) bool {
				return s == "claim.GetClaimer().String()" || s == "claim.GetBridgerAddress()" || s == "claim.BridgerAddress"
			}
			if (isW(a) && isI(b)) || (isW(b) && isI(a)) {
				binds = true
			}
		}
	}

	// ---- can a claim reach the message server inside a signed transaction at all?  (round 4)
	// (a) MsgClaim wraps the claim in an Any: after the wire round trip of a transaction the cached value is only there if
	//     MsgClaim implements UnpackInterfaces (codec.UnpackAny of the field) — otherwise ValidateBasic fails on a nil claim;
	// (b) a claim message on its own is a transaction message only if its type is registered as an sdk.Msg implementation
	//     (RegisterImplementations((*sdk.Msg)(nil), ...)) or is the request type of an rpc of the Msg service.
	claimUnpacks := false
	for _, fd := range c.funcDecls(c01Types) {
		if fd.Name.Name == "UnpackInterfaces" && recvName(fd) == "MsgClaim" && fd.Body != nil {
			ast.Inspect(fd.Body, func(n ast.Node) bool {
				if call, ok := n.(*ast.CallExpr); ok {
					if sel, ok := call.Fun.(*ast.SelectorExpr); ok && sel.Sel.Name == "UnpackAny" && len(call.Args) >= 1 && strings.HasSuffix(c.src(call.Args[0]), ".Claim") {
						claimUnpacks = true
					}
				}
				return true
			})
		}
	}
	claimTypes := []string{"MsgSendToFxClaim", "MsgBridgeCallClaim", "MsgBridgeCallResultClaim", "MsgSendToExternalClaim", "MsgBridgeTokenClaim", "MsgOracleSetUpdatedClaim"}
	var directMsgs []string
	msgClaimRegistered := false
	if fd := c.findFunc(c01Types, "", "RegisterInterfaces"); fd != nil && fd.Body != nil {
		ast.Inspect(fd.Body, func(n ast.Node) bool {
			call, ok := n.(*ast.CallExpr)
			if !ok {
				return true
			}
			sel, ok := call.Fun.(*ast.SelectorExpr)
			if !ok || sel.Sel.Name != "RegisterImplementations" || len(call.Args) < 1 || !strings.Contains(c.src(call.Args[0]), "sdk.Msg") {
				return true
			}
			for _, a := range call.Args[1:] {
				t := strings.TrimSuffix(strings.TrimPrefix(c.src(a), "&"), "{}")
				if t == "MsgClaim" {
					msgClaimRegistered = true
				}
				for _, ct := range claimTypes {
					if t == ct {
						directMsgs = append(directMsgs, ct)
					}
				}
			}
			return true
		})
	}
	if bz, err := os.ReadFile(filepath.Join(c.repo, "proto", "fx", "gravity", "crosschain", "v1", "tx.proto")); err == nil {
		re := regexp.MustCompile(`(?s)service Msg \{(.*?)\n\}`)
		if m := re.FindStringSubmatch(stripComments(string(bz))); m != nil {
			for _, r := range regexp.MustCompile(`rpc\s+\w+\s*\(\s*(\w+)\s*\)`).FindAllStringSubmatch(m[1], -1) {
				for _, ct := range claimTypes {
					if r[1] == ct {
						directMsgs = append(directMsgs, ct)
					}
				}
			}
		}
	}
	sort.Strings(directMsgs)

	var sb strings.Builder
	sb.WriteString("namespace FxVerif.Gen.C01\n\n")
	sb.WriteString("inductive Cmp where | lt | lte | other\n  deriving DecidableEq, Repr\n\n")
	sb.WriteString("inductive UbdRule where | requireExists | refuseIfExists | none\n  deriving DecidableEq, Repr\n\n")
	sb.WriteString("/-- where a handler recomputes the recorded total power relative to storing the oracle record -/\ninductive RefreshRule where | afterStore | beforeStore | ifPositiveAfterStore | other | none\n  deriving DecidableEq, Repr\n\n")
	sb.WriteString("/-- integer expressions over the recorded total power and the vote threshold constant -/\ninductive QExpr where\n  | total | threshold | unknown\n  | lit (n : Nat)\n  | mul (a b : QExpr) | quo (a b : QExpr) | add (a b : QExpr) | sub (a b : QExpr)\n  deriving DecidableEq, Repr\n\n")
	sb.WriteString("/-- value of an expression (`thr` = the threshold constant; `Quo` truncates; amounts are non-negative) -/\ndef QExpr.eval (thr total : Nat) : QExpr → Nat\n  | .total => total\n  | .threshold => thr\n  | .unknown => 0\n  | .lit n => n\n  | .mul a b => a.eval thr total * b.eval thr total\n  | .quo a b => a.eval thr total / b.eval thr total\n  | .add a b => a.eval thr total + b.eval thr total\n  | .sub a b => a.eval thr total - b.eval thr total\n\n")
	w := func(doc, name, typ, val string) {
		fmt.Fprintf(&sb, "/-- %s -/\ndef %s : %s := %s\n\n", doc, name, typ, val)
	}
	w("types.AttestationVotesPowerThreshold", "votesThreshold", "Nat", leanNat(votes))
	w("divisor in TryAttestation: requiredPower := threshold.Mul(totalPower).Quo(NewInt(d)), totalPower := GetLastTotalPower", "votesDivisor", "Nat", leanNat(votesDiv))
	w("TryAttestation: the right-hand side of `requiredPower := ...` (helper functions of x/crosschain/types inlined)", "requiredExpr", "QExpr", reqExpr)
	w("TryAttestation: `if attestationPower.<cmp>(requiredPower) { continue }`", "tallyCmp", "Cmp", "."+cmp)
	w("TryAttestation reads the total from the store (GetLastTotalPower)", "tallyTotalFromStore", "Bool", leanBool(totalFromStore))
	w("TryAttestation skips votes of addresses that are not registered oracles (`if !found { continue }`)", "tallySkipsUnregistered", "Bool", leanBool(sumsFoundOnly))
	w("types.AttestationProposalOracleChangePowerThreshold", "govChangeThreshold", "Nat", leanNat(gov))
	w("types.MaxKeepEventSize", "maxKeepEventSize", "Nat", leanNat(maxKeep))
	w("types.MaxOracleSize", "maxOracleSize", "Nat", leanNat(maxOracle))
	w("Oracle.GetPower = DelegateAmount.Quo(sdk.DefaultPowerReduction); fxtypes init sets DefaultPowerReduction", "powerReduction", "Nat", powerRed)
	w("Attest: `if claim.GetEventNonce() != lastEventNonce+1 { return err }` with lastEventNonce := GetLastEventNonceByOracle", "attestChecksContiguity", "Bool", leanBool(contig))
	w("Attest: the TryAttestation call is guarded by `!att.Observed`", "tallyRequiresNotObserved", "Bool", leanBool(tallyNotObs))
	w("Attest: the TryAttestation call is guarded by `nonce == GetLastObservedEventNonce+1`", "tallyRequiresNextNonce", "Bool", leanBool(tallyNext))
	w("Attest calls TryAttestation at all", "tallyCalled", "Bool", leanBool(tallyCalled))
	w("GetLastEventNonceByOracle: absent key -> lastObserved-1 (0 if lastObserved = 0); exact body shape recognised", "fallbackLastObservedMinusOne", "Bool", leanBool(fallback))
	w("checkBridgerIsOracle: `if !oracle.Online { return err }`", "claimRequiresOnline", "Bool", leanBool(online))
	w("EditBridger deletes the bridger-index entry of the old bridger before overwriting the record's bridger", "editBridgerDeletesOldIndexFirst", "Bool", leanBool(editDelOldFirst))
	w("UnbondedOracle calls DelLastEventNonceByOracle", "unbondDeletesLastNonce", "Bool", leanBool(unbondDel))
	w("UnbondedOracle and the delegate address' staking unbonding delegation: error unless one exists / ErrInvalid while one exists", "unbondUbdRule", "UbdRule", "."+ubdRule)
	w("TryAttestation adds exactly `oracle.GetPower()` of each found voter to the attestation power", "tallyAddsGetPower", "Bool", leanBool(tallyGetPower))
	w("SetLastTotalPower stores the sum of `GetPower()` over GetAllOracles(ctx, true) (online oracles)", "totalSumsOnlineGetPower", "Bool", leanBool(totalOnlineGetPower))
	w("Oracle.GetPower is `DelegateAmount.Quo(sdk.DefaultPowerReduction)` (truncating)", "getPowerTruncates", "Bool", leanBool(powerOk))
	w("TryAttestation: once the bar is reached `SetLastObservedEventNonce(claim nonce)` runs unconditionally", "observeSetsLastObserved", "Bool", leanBool(obsSetsLast))
	w("TryAttestation: once the bar is reached `att.Observed = true` is stored with SetAttestation", "observeMarksObserved", "Bool", leanBool(obsMarks))
	w("TryAttestation: the handler runs through processAttestation (cache context)", "observeRunsHandler", "Bool", leanBool(obsProcess))
	w("TryAttestation: the vote loop ends with `break` once the attestation was observed", "observeBreaksLoop", "Bool", leanBool(obsBreaks))
	w("AttestationHandler: send-to-fx / bridge-call / bridge-call-result claims are ONLY parked (SavePendingExecuteClaim)", "deferredClaimsOnlyParked", "Bool", leanBool(parksOnly))
	w("ExecuteClaim: `_, found := GetPendingExecuteClaim(ctx, eventNonce); if !found { return err }`", "execChecksPending", "Bool", leanBool(execChecks))
	w("ExecuteClaim has an unconditional top-level `k.DeletePendingExecuteClaim(ctx, eventNonce)`", "execDeletesPending", "Bool", leanBool(execDeletes))
	w("ExecuteClaim: the look-up precedes the deletion, and the deletion precedes every statement that calls a handler", "execDeletesBeforeHandler", "Bool", leanBool(execDeleteFirst))
	w("the executeClaim precompile runs ExecuteClaim inside ExecuteNativeAction and returns its error", "execErrorRevertsNativeAction", "Bool", leanBool(execInNative))
	bondRule := c.refreshRule(c.findFunc(c01Keeper, "MsgServer", "BondedOracle"))
	addDelRule := c.refreshRule(c.findFunc(c01Keeper, "MsgServer", "AddDelegate"))
	facts["C01.refreshRules"] = map[string]string{"BondedOracle": bondRule, "AddDelegate": addDelRule}
	w("BondedOracle: where SetLastTotalPower is called relative to SetOracle", "bondRefreshRule", "RefreshRule", "."+bondRule)
	w("AddDelegate: where SetLastTotalPower is called relative to SetOracle", "addDelegateRefreshRule", "RefreshRule", "."+addDelRule)
	w("BondedOracle calls SetLastTotalPower unconditionally after storing the oracle", "refreshOnBond", "Bool", leanBool(sites["BondedOracle"] && bondRule == "afterStore"))
	w("AddDelegate calls SetLastTotalPower unconditionally after storing the oracle", "refreshOnAddDelegate", "Bool", leanBool(sites["AddDelegate"] && addDelRule == "afterStore"))
	w("slashing calls SetLastTotalPower when any oracle was slashed", "refreshOnSlash", "Bool", leanBool(sites["slashing"] && slashingCond))
	w("AddOracleSetRequest calls SetLastTotalPower", "refreshOnOracleSetRequest", "Bool", leanBool(sites["AddOracleSetRequest"]))
	w("UpdateProposalOracles / UnbondedOracleFromProposal call SetLastTotalPower (they do not on the unchanged tree)", "refreshOnGovUpdate", "Bool", leanBool(govRefresh))
	w("proto option (cosmos.msg.v1.signer) of MsgClaim names the wrapper's field", "claimSignerIsWrapperBridger", "Bool", leanBool(signerField == "bridger_address"))
	w("MsgServer.Claim takes the voter from the wrapped claim (claim.GetClaimer())", "claimVoterIsInnerBridger", "Bool", leanBool(voterSrc == "inner"))
	w("MsgServer.Claim takes the voter from the wrapper (msg.BridgerAddress)", "claimVoterIsWrapperBridger", "Bool", leanBool(voterSrc == "wrapper"))
	w("MsgClaim.ValidateBasic rejects when wrapper bridger_address != wrapped claim's bridger", "claimValidateBasicBindsSigner", "Bool", leanBool(binds))
	w("MsgClaim implements UnpackInterfaces and unpacks its `Claim` field (needed for the wrapped claim to survive the wire round trip of a transaction)", "msgClaimUnpacksInterfaces", "Bool", leanBool(claimUnpacks))
	w("MsgClaim is registered as an sdk.Msg implementation", "msgClaimRegisteredAsMsg", "Bool", leanBool(msgClaimRegistered))
	w("a signed MsgClaim transaction can reach MsgServer.Claim with its wrapped claim", "claimTxDeliverable", "Bool", leanBool(claimUnpacks && msgClaimRegistered))
	{
		var qs []string
		for _, d := range directMsgs {
			qs = append(qs, strconv.Quote(d))
		}
		w("claim types that are transaction messages on their own (registered as sdk.Msg or request type of a Msg service rpc)", "directClaimMsgTypes", "List String", "["+strings.Join(qs, ", ")+"]")
	}
	facts["C01.claimTxDeliverable"] = claimUnpacks && msgClaimRegistered
	facts["C01.directClaimMsgTypes"] = directMsgs
	sb.WriteString(c.c01Genesis(facts))
	sb.WriteString("end FxVerif.Gen.C01\n")
	c.write("C01.lean", sb.String())

	facts["C01.votesThreshold"] = votes
	facts["C01.votesDivisor"] = votesDiv
	facts["C01.tallyCmp"] = cmp
	facts["C01.govChangeThreshold"] = gov
	facts["C01.maxKeepEventSize"] = maxKeep
	facts["C01.maxOracleSize"] = maxOracle
	facts["C01.powerReduction"] = powerRed
	facts["C01.refreshSites"] = siteList
	facts["C01.unbondUbdRule"] = ubdRule
	facts["C01.claimSignerField"] = signerField
	facts["C01.claimVoterSource"] = voterSrc
	facts["C01.claimValidateBasicBindsSigner"] = binds
	facts["C01.guards"] = map[string]bool{"contiguity": contig, "tallyNotObserved": tallyNotObs, "tallyNextNonce": tallyNext,
		"online": online, "unbondDeletesLastNonce": unbondDel, "fallback": fallback,
		"execChecksPending": execChecks, "execDeletesPending": execDeletes, "execDeletesBeforeHandler": execDeleteFirst,
		"execErrorRevertsNativeAction": execInNative, "observeSetsLastObserved": obsSetsLast, "observeMarksObserved": obsMarks,
		"observeRunsHandler": obsProcess, "observeBreaksLoop": obsBreaks, "deferredClaimsOnlyParked": parksOnly,
		"tallyAddsGetPower": tallyGetPower, "totalSumsOnlineGetPower": totalOnlineGetPower}
	for k, v := range facts {
		c.facts[k] = v
	}
}

var reLineComment = regexp.MustCompile(`(?m)//.*$`)

func stripComments(s string) string { return reLineComment.ReplaceAllString(s, "") }


// ---- the quorum formula as an expression tree (regenerated; the model evaluates it) ----------------------------------

// qexpr translates a Go expression over sdkmath.Int into the Lean `QExpr` term: the threshold constant, the total, integer
// literals, Mul / Quo / Add / Sub (and their Raw forms), and calls of single-`return` helper functions of x/crosschain/types,
// which are inlined with their parameters bound (depth-limited).  Anything else becomes `.unknown` (evaluates to 0).
func (c *ctxT) qexpr(e ast.Expr, env map[string]string, depth int) string {
	if depth > 4 {
		return ".unknown"
	}
	switch x := e.(type) {
	case *ast.ParenExpr:
		return c.qexpr(x.X, env, depth)
	case *ast.Ident:
		if v, ok := env[x.Name]; ok {
			return v
		}
		if x.Name == "AttestationVotesPowerThreshold" {
			return ".threshold"
		}
	case *ast.SelectorExpr:
		if x.Sel.Name == "AttestationVotesPowerThreshold" {
			return ".threshold"
		}
	case *ast.BasicLit:
		if n := c.natOf(x); n >= 0 {
			return fmt.Sprintf("(.lit %d)", n)
		}
	case *ast.CallExpr:
		if n := c.natOf(x); n >= 0 { // sdkmath.NewInt(<literal>)
			return fmt.Sprintf("(.lit %d)", n)
		}
		if se, ok := x.Fun.(*ast.SelectorExpr); ok && len(x.Args) == 1 {
			op := map[string]string{"Mul": "mul", "MulRaw": "mul", "Quo": "quo", "QuoRaw": "quo", "Add": "add", "AddRaw": "add", "Sub": "sub", "SubRaw": "sub"}[se.Sel.Name]
			if op != "" {
				// a method of an Int value (not a package-level function such as types.F(x))
				if id, isPkg := se.X.(*ast.Ident); !(isPkg && (id.Name == "types" || id.Name == "sdkmath" || id.Name == "math")) {
					return fmt.Sprintf("(.%s %s %s)", op, c.qexpr(se.X, env, depth), c.qexpr(x.Args[0], env, depth))
				}
			}
		}
		// helper function of x/crosschain/types: `func F(a sdkmath.Int, ...) sdkmath.Int { return <expr> }`
		name := ""
		switch f := x.Fun.(type) {
		case *ast.Ident:
			name = f.Name
		case *ast.SelectorExpr:
			if id, ok := f.X.(*ast.Ident); ok && id.Name == "types" {
				name = f.Sel.Name
			}
		}
		if name != "" {
			for _, rel := range []string{c01Types, c01Keeper} {
				fd := c.findFunc(rel, "", name)
				if fd == nil || fd.Body == nil || len(fd.Body.List) != 1 || fd.Type.Params == nil {
					continue
				}
				rs, ok := fd.Body.List[0].(*ast.ReturnStmt)
				if !ok || len(rs.Results) != 1 {
					continue
				}
				var params []string
				for _, f := range fd.Type.Params.List {
					for _, n := range f.Names {
						params = append(params, n.Name)
					}
				}
				if len(params) != len(x.Args) {
					continue
				}
				env2 := map[string]string{}
				for i, pn := range params {
					env2[pn] = c.qexpr(x.Args[i], env, depth+1)
				}
				return c.qexpr(rs.Results[0], env2, depth+1)
			}
		}
	}
	return ".unknown"
}

// refreshRule classifies where a message-server method recomputes the recorded total power relative to storing the oracle:
//   afterStore           : unconditional top-level `s.SetLastTotalPower(ctx)` after the top-level `s.SetOracle(ctx, oracle)`
//   beforeStore          : unconditional top-level call, but before the oracle record is stored
//   ifPositiveAfterStore : inside a top-level `if delegateCoin.IsPositive() { ... }` after the store
//   other                : some other guarded / nested call;   none: no call
func (c *ctxT) refreshRule(fd *ast.FuncDecl) string {
	if fd == nil || fd.Body == nil {
		return "none"
	}
	storeIdx, rule := -1, "none"
	for i, st := range fd.Body.List {
		switch x := st.(type) {
		case *ast.ExprStmt:
			switch c.src(x.X) {
			case "s.SetOracle(ctx, oracle)":
				if storeIdx < 0 {
					storeIdx = i
				}
			case "s.SetLastTotalPower(ctx)":
				if rule == "none" {
					if storeIdx >= 0 {
						rule = "afterStore"
					} else {
						rule = "beforeStore"
					}
				}
			}
		case *ast.IfStmt:
			if callsMethod(x, "SetLastTotalPower") && rule == "none" {
				rule = "other"
				if x.Init == nil && x.Else == nil && c.src(x.Cond) == "delegateCoin.IsPositive()" && storeIdx >= 0 && len(x.Body.List) >= 1 {
					all := true
					for _, b := range x.Body.List {
						if es, ok := b.(*ast.ExprStmt); !ok || c.src(es.X) != "s.SetLastTotalPower(ctx)" {
							all = false
						}
					}
					if all {
						rule = "ifPositiveAfterStore"
					}
				}
			}
		default:
			if callsMethod(st, "SetLastTotalPower") && rule == "none" {
				rule = "other"
			}
		}
	}
	return rule
}
