package main

import (
	"go/ast"
	"go/token"
	"strings"
)

// C10, token leg (round 3): the ERC-20 branch of the payable crosschain methods.  `crossChain` / `increaseBridgeFee` with a
// non-zero token address (or without msg.value) go through x/crosschain/precompile (*Keeper).handlerERC20Token, which
// pulls the tokens with an ERC-20 `transferFrom` issued BY THE PRECOMPILE ADDRESS — i.e. it spends the ERC-20 allowance
// the holder granted to the precompile — and converts them to coins of the holder.  Whose tokens, whose allowance and whose
// coins move is decided by the arguments of five calls; they are re-read here, statement by statement (helpers of the
// package that receive the ctx are inlined with their parameters substituted), and emitted as a small program
// `Gen.C10Tok.erc20Leg` that Model/C10Tok.lean interprets.
//
//   Who  := sender (the handler's parameter) | precompile (crosschaintypes.GetAddress()) | erc20Module | tokenContract | other
//   TOp  := transferFrom by frm to | burn by frm | bankSend frm to | mint to | ite cond thn els | fail | unknown

func init() { register(extractC10Tok) }

// round 4: everything the token-leg translator passes over WITHOUT emitting an op (reads by name, calls that do not
// receive the ctx, plain assignments, the `!found` early return, error tests of the previous line, returns of an error
// variable) is recorded here in full and printed into Gen/C10Tok.lean (`erc20LegSkipped`); Props/C10.lean compares the
// list with the reviewed one, so that a new statement kind in handlerERC20Token / convertERC20 is noticed.
var c10tokSkipped [][2]string

func (t *c10tokCtx) skip(why string, n ast.Node) {
	c10tokSkipped = append(c10tokSkipped, [2]string{why, c09flat(t.c.src(n))})
}

type c10tokCtx struct {
	c      *ctxT
	decls  map[string]*ast.FuncDecl
	subst  map[string]string // identifier -> Who (Lean term)
	erc20  map[string]string // local ERC20Call variable -> Who of the account issuing the call
	depth  int
	amount map[string]bool // identifiers that denote the amount handed in
}

func (t *c10tokCtx) who(e ast.Expr) string {
	src := c09flat(t.c.src(e))
	src = strings.TrimSuffix(src, ".Bytes()")
	if w, ok := t.subst[src]; ok {
		return w
	}
	switch src {
	case "crosschaintypes.GetAddress()":
		return ".precompile"
	case "c.erc20Keeper.ModuleAddress()", "erc20types.ModuleName":
		return ".erc20Module"
	case "tokenPair.GetERC20Contract()":
		return ".tokenContract"
	}
	return "(.other " + leanStr(src) + ")"
}

// is this `if err != nil { return … err }` (or an if with init doing the call)?
func c10tokChecked(is *ast.IfStmt) bool {
	be, ok := is.Cond.(*ast.BinaryExpr)
	if !ok || be.Op != token.NEQ || !isNilIdent(be.Y) {
		return false
	}
	if len(is.Body.List) == 0 {
		return false
	}
	_, isRet := is.Body.List[len(is.Body.List)-1].(*ast.ReturnStmt)
	return isRet
}

func (t *c10tokCtx) call(ce *ast.CallExpr, checked bool) []string {
	name := calleeName(ce)
	ck := leanBool(checked)
	if se, ok := ce.Fun.(*ast.SelectorExpr); ok {
		if id, ok := se.X.(*ast.Ident); ok {
			if by, isE := t.erc20[id.Name]; isE {
				switch {
				case name == "TransferFrom" && len(ce.Args) == 3:
					return []string{".transferFrom " + by + " " + t.who(ce.Args[0]) + " " + t.who(ce.Args[1]) + " " + ck}
				case name == "Burn" && len(ce.Args) == 2:
					return []string{".burn " + by + " " + t.who(ce.Args[0]) + " " + ck}
				case name == "BalanceOf" || name == "TotalSupply" || name == "Decimals":
					t.skip("erc20-view", ce)
					return nil
				}
				return []string{".unknown " + leanStr(c09flat(t.c.src(ce)))}
			}
		}
	}
	switch {
	case name == "SendCoinsFromAccountToModule" && len(ce.Args) == 4:
		return []string{".bankSend " + t.who(ce.Args[1]) + " " + t.who(ce.Args[2]) + " " + ck}
	case name == "SendCoinsFromModuleToAccount" && len(ce.Args) == 4:
		return []string{".bankSend " + t.who(ce.Args[1]) + " " + t.who(ce.Args[2]) + " " + ck}
	case name == "SendCoins" && len(ce.Args) == 4:
		return []string{".bankSend " + t.who(ce.Args[1]) + " " + t.who(ce.Args[2]) + " " + ck}
	case name == "MintCoins" && len(ce.Args) == 3:
		return []string{".mint " + t.who(ce.Args[1]) + " " + ck}
	case name == "BurnCoins" && len(ce.Args) == 3:
		return []string{".unknown " + leanStr(c09flat(t.c.src(ce)))}
	}
	// a helper of the package that receives the ctx: inline it
	hasCtx := false
	for _, a := range ce.Args {
		if id, ok := a.(*ast.Ident); ok && id.Name == "ctx" {
			hasCtx = true
		}
	}
	if fd, ok := t.decls[name]; ok && hasCtx && t.depth < 3 && fd.Body != nil {
		sub := &c10tokCtx{c: t.c, decls: t.decls, subst: map[string]string{}, erc20: map[string]string{}, depth: t.depth + 1}
		i := 0
		for _, f := range fd.Type.Params.List {
			for _, n := range f.Names {
				if i < len(ce.Args) {
					w := t.who(ce.Args[i])
					if !strings.HasPrefix(w, "(.other") {
						sub.subst[n.Name] = w
					}
				}
				i++
			}
		}
		ops := sub.block(fd.Body.List)
		if !checked {
			ops = append(ops, ".unknown "+leanStr("unchecked result of "+name))
		}
		return ops
	}
	if c09IsRead(name) || !hasCtx {
		if c09IsRead(name) {
			t.skip("read", ce)
		} else {
			t.skip("no-ctx", ce)
		}
		return nil
	}
	return []string{".unknown " + leanStr(c09flat(t.c.src(ce)))}
}

func (t *c10tokCtx) block(list []ast.Stmt) []string {
	var ops []string
	for i, st := range list {
		switch s := st.(type) {
		case *ast.AssignStmt:
			if len(s.Rhs) == 1 {
				if ce, ok := s.Rhs[0].(*ast.CallExpr); ok {
					if calleeName(ce) == "NewERC20Call" && len(ce.Args) >= 3 && len(s.Lhs) == 1 {
						if id, ok := s.Lhs[0].(*ast.Ident); ok {
							t.erc20[id.Name] = t.who(ce.Args[1])
							t.skip("erc20-call-object", st)
							continue
						}
					}
					checked := false
					if i+1 < len(list) {
						if nx, ok := list[i+1].(*ast.IfStmt); ok && nx.Init == nil && c10tokChecked(nx) {
							checked = true
						}
					}
					ops = append(ops, t.call(ce, checked)...)
				} else {
					t.skip("assign", st)
				}
			} else {
				t.skip("assign", st)
			}
		case *ast.IfStmt:
			if s.Init != nil {
				if as, ok := s.Init.(*ast.AssignStmt); ok && len(as.Rhs) == 1 {
					if ce, ok := as.Rhs[0].(*ast.CallExpr); ok {
						ops = append(ops, t.call(ce, c10tokChecked(s))...)
						continue
					}
				}
			}
			if c10tokChecked(s) {
				t.skip("error-test", st)
				continue // the test of an error assigned on the previous line
			}
			cond := c09flat(t.c.src(s.Cond))
			if cond == "!found" {
				t.skip("not-found-return", st)
				continue // unknown token pair: nothing has moved yet
			}
			thn := t.block(s.Body.List)
			var els []string
			switch e := s.Else.(type) {
			case *ast.BlockStmt:
				els = t.block(e.List)
			case *ast.IfStmt:
				els = t.block([]ast.Stmt{e})
			}
			ops = append(ops, "(.ite "+leanStr(cond)+" "+leanList(thn)+" "+leanList(els)+")")
		case *ast.ExprStmt:
			if ce, ok := s.X.(*ast.CallExpr); ok {
				ops = append(ops, t.call(ce, false)...)
			} else {
				t.skip("expr", st)
			}
		case *ast.ReturnStmt:
			failed := false
			if len(s.Results) > 0 {
				last := s.Results[len(s.Results)-1]
				if !isNilIdent(last) {
					if id, ok := last.(*ast.Ident); !ok || !strings.HasPrefix(id.Name, "err") {
						ops = append(ops, ".fail")
						failed = true
					}
				}
			}
			if !failed {
				t.skip("return", st)
			}
		default:
			t.skip("other", st)
		}
	}
	return ops
}

func wrapOps(ops []string) []string {
	out := make([]string, len(ops))
	for i, o := range ops {
		if strings.HasPrefix(o, "(") {
			out[i] = o
		} else {
			out[i] = "(" + o + ")"
		}
	}
	return out
}

func extractC10Tok(c *ctxT) {
	c10tokSkipped = nil
	var sb strings.Builder
	sb.WriteString("namespace FxVerif.Gen.C10Tok\n\n")
	sb.WriteString(`inductive Who | sender | precompile | erc20Module | tokenContract | other (src : String)
  deriving Repr, DecidableEq

/-- token / coin movements of the ERC-20 leg, in source order (` + "`checked`" + `: the call's error makes the handler return it) -/
inductive TOp
  | transferFrom (issuer frm to : Who) (checked : Bool)
  | burn (issuer frm : Who) (checked : Bool)
  | bankSend (frm to : Who) (checked : Bool)
  | mint (to : Who) (checked : Bool)
  | ite (cond : String) (thn els : List TOp)
  | fail
  | unknown (src : String)

`)
	decls := map[string]*ast.FuncDecl{}
	for _, fd := range c.funcDecls("x/crosschain/precompile") {
		decls[fd.Name.Name] = fd
	}
	var ops []string
	params := []string{}
	if fd := decls["handlerERC20Token"]; fd != nil && fd.Body != nil {
		t := &c10tokCtx{c: c, decls: decls, subst: map[string]string{}, erc20: map[string]string{}}
		for _, f := range fd.Type.Params.List {
			for _, n := range f.Names {
				params = append(params, n.Name)
			}
		}
		if len(params) >= 3 {
			t.subst[params[2]] = ".sender"
		}
		ops = t.block(fd.Body.List)
	}
	// rewrite nested lists with parenthesised elements
	var fix func(s string) string
	fix = func(s string) string { return s }
	_ = fix
	sb.WriteString("/-- x/crosschain/precompile (*Keeper).handlerERC20Token(ctx, evm, sender, token, amount) with convertERC20 inlined -/\n")
	sb.WriteString("def erc20LegParams : List String := " + leanStrs(params) + "\n")
	sb.WriteString("def erc20Leg : List TOp := " + leanList(wrapOps(ops)) + "\n\n")
	sb.WriteString("/-- every statement / call of handlerERC20Token (helpers inlined) the translator passed over without emitting an op, in full -/\n")
	sb.WriteString("def erc20LegSkipped : List (String × String) := [\n  " + strings.Join(func() []string {
		var r []string
		for _, x := range c10tokSkipped {
			r = append(r, "("+leanStr(x[0])+", "+leanStr(x[1])+")")
		}
		return r
	}(), ",\n  ") + "]\n\n")
	c.facts["C10.erc20LegSkipped"] = c10tokSkipped
	// call sites: the argument handed in as `sender` by every Run that calls the handler
	type site struct{ Method, Sender string }
	var sites []string
	for _, fd := range c.funcDecls("x/crosschain/precompile") {
		if fd.Name.Name != "Run" || fd.Body == nil {
			continue
		}
		alias := map[string]ast.Expr{}
		ast.Inspect(fd.Body, func(x ast.Node) bool {
			if as, ok := x.(*ast.AssignStmt); ok && len(as.Lhs) == 1 && len(as.Rhs) == 1 {
				if id, ok := as.Lhs[0].(*ast.Ident); ok {
					if _, dup := alias[id.Name]; !dup {
						alias[id.Name] = as.Rhs[0]
					}
				}
			}
			return true
		})
		ast.Inspect(fd.Body, func(x ast.Node) bool {
			if ce, ok := x.(*ast.CallExpr); ok && calleeName(ce) == "handlerERC20Token" && len(ce.Args) >= 3 {
				sites = append(sites, "("+leanStr(recvName(fd))+", "+leanStr(strings.Join(c.c09Prov(ce.Args[2], alias, 0), "+"))+")")
			}
			return true
		})
	}
	sb.WriteString("/-- every call of handlerERC20Token in a `Run`: receiver type, provenance of the `sender` argument -/\n")
	sb.WriteString("def erc20LegSites : List (String × String) := " + leanList(sites) + "\n\n")
	sb.WriteString("end FxVerif.Gen.C10Tok\n")
	c.write("C10Tok.lean", sb.String())
	c.facts["C10.erc20Leg"] = ops
	c.facts["C10.erc20LegSites"] = sites
}
