package main

// C12 (round 5): the MESSAGE layer in front of the confirm handlers.  Emits Gen/C12Msg.lean.
//
//   * ValidateBasic of MsgOracleSetConfirm / MsgConfirmBatch / MsgBridgeCallConfirm as a check list, in source order: per
//     `if` statement what is examined (router membership of the chain name, bech32 parsing, ValidateExternalAddr of a field
//     under the chain name, emptiness, hex decoding), of which message field, and the error it returns;
//   * the address validators the external-address router dispatches to (EthereumAddress.ValidateExternalAddr ->
//     contract.ValidateEthereumAddress, tronAddress.ValidateExternalAddr -> ValidateTronAddress) as check lists: empty, length,
//     format predicates, and the CANONICAL-SPELLING comparison (`expect := render(parse(address)); if expect != address`);
//   * Oracle.GetPower (which field, which operation, which divisor) and the assignment of sdk.DefaultPowerReduction
//     (base and exponent), the accumulation statement of GetCurrentOracleSet's total power.

import (
	"fmt"
	"go/ast"
	"go/token"
	"strconv"
	"strings"
)

func init() { register(extractC12Msg) }

func c12FieldCtor(recv, e string) string {
	e = strings.TrimPrefix(e, recv+".")
	switch e {
	case "ChainName":
		return ".chainName"
	case "BridgerAddress":
		return ".bridger"
	case "ExternalAddress":
		return ".external"
	case "TokenContract":
		return ".token"
	case "Signature":
		return ".signature"
	}
	return ".other " + leanStr(e)
}

// head of an error text: up to the first ':' or '%'
func c12ErrHead(s string) string {
	if i := strings.IndexAny(s, ":%"); i >= 0 {
		s = s[:i]
	}
	return strings.TrimSpace(s)
}

func (c *ctxT) c12ReturnErr(body *ast.BlockStmt) (errName, text string) {
	if body == nil || len(body.List) != 1 {
		return "?", "?"
	}
	rs, ok := body.List[0].(*ast.ReturnStmt)
	if !ok || len(rs.Results) != 1 {
		return "?", "?"
	}
	ce, ok := rs.Results[0].(*ast.CallExpr)
	if !ok {
		return "?", c12ws(c.src(rs.Results[0]))
	}
	fn := c12ws(c.src(ce.Fun)) // sdkerrors.ErrInvalidRequest.Wrap
	parts := strings.Split(fn, ".")
	if len(parts) >= 2 {
		errName = parts[len(parts)-2]
	}
	if len(ce.Args) > 0 {
		if bl, ok := ce.Args[0].(*ast.BasicLit); ok && bl.Kind == token.STRING {
			text = c12ErrHead(strings.Trim(bl.Value, "\"`"))
		}
	}
	return
}

type c12VbCheck struct {
	Kind  string `json:"kind"`
	Field string `json:"field"`
	Chain string `json:"chain"`
	Err   string `json:"err"`
	Text  string `json:"text"`
}

func (c *ctxT) c12ReadValidateBasic(fd *ast.FuncDecl) (checks []c12VbCheck, lean []string, tail string) {
	recv := "m"
	if fd.Recv != nil && len(fd.Recv.List) > 0 && len(fd.Recv.List[0].Names) > 0 {
		recv = fd.Recv.List[0].Names[0].Name
	}
	for _, st := range fd.Body.List {
		switch s := st.(type) {
		case *ast.IfStmt:
			kind, field, chain := ".other "+leanStr(c12ws(c.src(s.Cond))), ".other \"\"", ".other \"\""
			k := "other"
			cond := c12ws(c.src(s.Cond))
			if as, ok := s.Init.(*ast.AssignStmt); ok && len(as.Rhs) == 1 {
				switch r := as.Rhs[0].(type) {
				case *ast.IndexExpr:
					if exprIdent(r.X) == "externalAddressRouter" && cond == "!ok" {
						kind, k, field = ".chainRegistered", "chainRegistered", c12FieldCtor(recv, c12ws(c.src(r.Index)))
					}
				case *ast.CallExpr:
					fn := c12ws(c.src(r.Fun))
					switch {
					case fn == "sdk.AccAddressFromBech32" && len(r.Args) == 1 && cond == "err != nil":
						kind, k, field = ".bech32", "bech32", c12FieldCtor(recv, c12ws(c.src(r.Args[0])))
					case fn == "ValidateExternalAddr" && len(r.Args) == 2 && cond == "err != nil":
						kind, k = ".extAddr", "extAddr"
						chain, field = c12FieldCtor(recv, c12ws(c.src(r.Args[0]))), c12FieldCtor(recv, c12ws(c.src(r.Args[1])))
					case fn == "hex.DecodeString" && len(r.Args) == 1 && cond == "err != nil":
						kind, k, field = ".hex", "hex", c12FieldCtor(recv, c12ws(c.src(r.Args[0])))
					default:
						kind = ".other " + leanStr(c12ws(c.src(s.Init))+"; "+cond)
					}
				}
			} else if s.Init == nil {
				if be, ok := s.Cond.(*ast.BinaryExpr); ok && be.Op == token.EQL {
					if ce, ok := be.X.(*ast.CallExpr); ok && exprIdent(ce.Fun) == "len" && len(ce.Args) == 1 {
						if v, ok := c12IntLit(be.Y); ok && v == 0 {
							kind, k, field = ".nonEmpty", "nonEmpty", c12FieldCtor(recv, c12ws(c.src(ce.Args[0])))
						}
					}
				}
			}
			en, text := c.c12ReturnErr(s.Body)
			if s.Else != nil {
				kind = ".other " + leanStr(c12ws(c.src(s)))
			}
			checks = append(checks, c12VbCheck{k, field, chain, en, text})
			lean = append(lean, fmt.Sprintf("⟨%s, %s, %s, %s, %s⟩", kind, field, chain, leanStr(en), leanStr(text)))
		case *ast.ReturnStmt:
			tail = c12ws(c.src(s))
		default:
			checks = append(checks, c12VbCheck{"other", "", "", "", c12ws(c.src(st))})
			lean = append(lean, fmt.Sprintf("⟨.other %s, .other \"\", .other \"\", \"\", \"\"⟩", leanStr(c12ws(c.src(st)))))
		}
	}
	return
}

// address validator: statement list -> check list
func (c *ctxT) c12ReadAddrValidator(fd *ast.FuncDecl, consts map[string]string) (lean []string, facts [][3]string) {
	param := "address"
	if len(fd.Type.Params.List) > 0 && len(fd.Type.Params.List[0].Names) > 0 {
		param = fd.Type.Params.List[0].Names[0].Name
	}
	defs := map[string]string{} // local variable -> defining expression (parameter spelled `address`, locals substituted)
	subst := func(e string) string {
		for v, d := range defs {
			e = strings.ReplaceAll(e, v, d)
		}
		return e
	}
	add := func(kind, arg, text string) {
		num := "none"
		if v, err := strconv.ParseUint(arg, 10, 64); err == nil && kind == ".length" {
			num = fmt.Sprintf("some %d", v)
		}
		lean = append(lean, fmt.Sprintf("⟨%s, %s, %s, %s⟩", kind, leanStr(arg), num, leanStr(text)))
		facts = append(facts, [3]string{kind, arg, text})
	}
	lastCall := ""
	for _, st := range fd.Body.List {
		switch s := st.(type) {
		case *ast.AssignStmt:
			if len(s.Rhs) == 1 {
				rhs := subst(strings.ReplaceAll(c12ws(c.src(s.Rhs[0])), param, "address"))
				if id := exprIdent(s.Lhs[0]); id != "" && id != "_" {
					defs[id] = rhs
				}
				lastCall = rhs
				continue
			}
			add(".other", c12ws(c.src(st)), "")
		case *ast.IfStmt:
			text := "?"
			if len(s.Body.List) == 1 {
				if rs, ok := s.Body.List[0].(*ast.ReturnStmt); ok && len(rs.Results) == 1 {
					if ce, ok := rs.Results[0].(*ast.CallExpr); ok && len(ce.Args) > 0 {
						if bl, ok := ce.Args[0].(*ast.BasicLit); ok {
							text = c12ErrHead(strings.Trim(bl.Value, "\"`"))
						}
					}
				}
			}
			cond := strings.ReplaceAll(c12ws(c.src(s.Cond)), param, "address")
			if s.Init != nil || s.Else != nil {
				add(".other", c12ws(c.src(s)), text)
				continue
			}
			switch be := s.Cond.(type) {
			case *ast.BinaryExpr:
				x, y := strings.ReplaceAll(c12ws(c.src(be.X)), param, "address"), c12ws(c.src(be.Y))
				switch {
				case be.Op == token.EQL && x == "address" && y == `""`:
					add(".empty", "", text)
				case be.Op == token.NEQ && x == "len(address)":
					if v, ok := consts[y]; ok {
						y = v
					}
					add(".length", y, text)
				case be.Op == token.NEQ && x == "err" && y == "nil":
					add(".wellFormed", lastCall, text)
				case be.Op == token.NEQ && (y == param || x == "address"):
					other := x
					if x == "address" {
						other = y
					}
					if d, ok := defs[other]; ok {
						add(".canonical", d, text)
					} else {
						add(".other", cond, text)
					}
				default:
					add(".other", cond, text)
				}
			case *ast.UnaryExpr:
				if be.Op == token.NOT {
					add(".wellFormed", strings.ReplaceAll(c12ws(c.src(be.X)), param, "address"), text)
				} else {
					add(".other", cond, text)
				}
			default:
				add(".other", cond, text)
			}
		case *ast.ReturnStmt:
			if r := c12ws(c.src(s)); r != "return nil" {
				add(".other", r, "")
			}
		default:
			add(".other", c12ws(c.src(st)), "")
		}
	}
	return
}

func extractC12Msg(c *ctxT) {
	var sb strings.Builder
	sb.WriteString("namespace FxVerif.Gen.C12Msg\n\n")
	sb.WriteString("/-- what one `if … { return <error> }` of a confirm message's `ValidateBasic` examines -/\n")
	sb.WriteString("inductive VbKind where\n  | chainRegistered | bech32 | extAddr | nonEmpty | hex | other (src : String)\n  deriving DecidableEq, Repr\n\n")
	sb.WriteString("/-- the message field a check reads -/\n")
	sb.WriteString("inductive VbField where\n  | chainName | bridger | external | token | signature | other (src : String)\n  deriving DecidableEq, Repr\n\n")
	sb.WriteString("/-- one check: kind, the field examined, (extAddr) the field holding the chain name, the sdk error, the head of its text -/\n")
	sb.WriteString("structure VbCheck where\n  kind : VbKind\n  field : VbField\n  chain : VbField\n  err : String\n  text : String\n  deriving DecidableEq, Repr\n\n")

	vbFacts := map[string][]c12VbCheck{}
	var progs, tails []string
	for _, typ := range []string{"MsgOracleSetConfirm", "MsgConfirmBatch", "MsgBridgeCallConfirm"} {
		fd := c.findFunc("x/crosschain/types", typ, "ValidateBasic")
		if fd == nil || fd.Body == nil {
			progs = append(progs, fmt.Sprintf("(%s, [])", leanStr(typ)))
			tails = append(tails, fmt.Sprintf("(%s, \"missing\")", leanStr(typ)))
			continue
		}
		checks, lean, tail := c.c12ReadValidateBasic(fd)
		vbFacts[typ] = checks
		progs = append(progs, fmt.Sprintf("(%s, [\n    %s])", leanStr(typ), strings.Join(lean, ",\n    ")))
		tails = append(tails, fmt.Sprintf("(%s, %s)", leanStr(typ), leanStr(tail)))
	}
	c.facts["C12.confirmValidateBasic"] = vbFacts
	sb.WriteString("/-- `ValidateBasic` of the three confirm messages: the checks in source order -/\n")
	sb.WriteString("def confirmValidateBasic : List (String × List VbCheck) := [\n  " + strings.Join(progs, ",\n  ") + "]\n\n")
	sb.WriteString("/-- the statement each `ValidateBasic` ends with -/\n")
	sb.WriteString("def confirmValidateBasicTail : List (String × String) := [" + strings.Join(tails, ", ") + "]\n\n")

	// ---- address validators ----
	sb.WriteString("/-- one check of an address validator: `empty` (`address == \"\"`), `length` (`len(address) != <arg>`, `num` its value when the constant is fx-core's), `wellFormed` (a format\npredicate / decoder named by `arg` fails), `canonical` (`<arg> != address`: the text is not the rendering of what it parses to) -/\n")
	sb.WriteString("inductive AddrKind where\n  | empty | length | wellFormed | canonical | other\n  deriving DecidableEq, Repr\n\n")
	sb.WriteString("structure AddrCheck where\n  kind : AddrKind\n  arg : String\n  num : Option Nat\n  text : String\n  deriving DecidableEq, Repr\n\n")
	consts := map[string]string{}
	for _, f := range c.pkg("contract") {
		for _, d := range f.Decls {
			if gd, ok := d.(*ast.GenDecl); ok && gd.Tok == token.CONST {
				for _, sp := range gd.Specs {
					if vs, ok := sp.(*ast.ValueSpec); ok && len(vs.Names) == 1 && len(vs.Values) == 1 {
						consts[vs.Names[0].Name] = c12ws(c.src(vs.Values[0]))
					}
				}
			}
		}
	}
	addrFacts := map[string]any{}
	emitAddr := func(name, rel, fn string) {
		fd := c.findFunc(rel, "", fn)
		var lean []string
		if fd != nil && fd.Body != nil {
			var facts [][3]string
			lean, facts = c.c12ReadAddrValidator(fd, consts)
			addrFacts[name] = facts
		}
		sb.WriteString(fmt.Sprintf("/-- `%s` (%s) as a check list -/\ndef %s : List AddrCheck := [\n  %s]\n\n", fn, rel, name, strings.Join(lean, ",\n  ")))
	}
	emitAddr("ethAddrChecks", "contract", "ValidateEthereumAddress")
	emitAddr("tronAddrChecks", "x/tron/types", "ValidateTronAddress")
	c.facts["C12.addrChecks"] = addrFacts
	// router dispatch: <type>.ValidateExternalAddr -> the function it returns
	var disp []string
	for _, p := range [][2]string{{"x/crosschain/types", "EthereumAddress"}, {"x/tron/types", "tronAddress"}} {
		callee := "?"
		if fd := c.findFunc(p[0], p[1], "ValidateExternalAddr"); fd != nil && fd.Body != nil && len(fd.Body.List) == 1 {
			if rs, ok := fd.Body.List[0].(*ast.ReturnStmt); ok && len(rs.Results) == 1 {
				if ce, ok := rs.Results[0].(*ast.CallExpr); ok {
					callee = c12ws(c.src(ce.Fun))
				}
			}
		}
		disp = append(disp, fmt.Sprintf("(%s, %s)", leanStr(p[1]), leanStr(callee)))
	}
	sb.WriteString("/-- which validator each address style of the external-address router dispatches to -/\n")
	sb.WriteString("def addrValidatorOf : List (String × String) := [" + strings.Join(disp, ", ") + "]\n\n")
	// ValidateExternalAddr (package function): router lookup + dispatch
	var vea []string
	if fd := c.findFunc("x/crosschain/types", "", "ValidateExternalAddr"); fd != nil && fd.Body != nil {
		for _, st := range fd.Body.List {
			vea = append(vea, leanStr(c12ws(c.src(st))))
		}
	}
	sb.WriteString("/-- `types.ValidateExternalAddr(chainName, addr)`: its statements -/\n")
	sb.WriteString("def validateExternalAddrStmts : List String := " + leanList(vea) + "\n\n")

	// ---- Oracle.GetPower, DefaultPowerReduction, the total-power accumulation ----
	field, method, divisor := "?", "?", "?"
	if fd := c.findFunc("x/crosschain/types", "Oracle", "GetPower"); fd != nil && fd.Body != nil && len(fd.Body.List) == 1 {
		if rs, ok := fd.Body.List[0].(*ast.ReturnStmt); ok && len(rs.Results) == 1 {
			if ce, ok := rs.Results[0].(*ast.CallExpr); ok && len(ce.Args) == 1 {
				if se, ok := ce.Fun.(*ast.SelectorExpr); ok {
					method = se.Sel.Name
					if s2, ok := se.X.(*ast.SelectorExpr); ok {
						field = s2.Sel.Name
					}
					divisor = c12ws(c.src(ce.Args[0]))
				}
			}
		}
	}
	sb.WriteString("/-- `Oracle.GetPower`: `m.<field>.<method>(<divisor>)` -/\n")
	sb.WriteString(fmt.Sprintf("def oraclePower : String × String × String := (%s, %s, %s)\n\n", leanStr(field), leanStr(method), leanStr(divisor)))
	// sdk.DefaultPowerReduction = sdkmath.NewIntFromBigInt(new(big.Int).Exp(big.NewInt(B), big.NewInt(E), nil))
	base, exp := uint64(0), uint64(0)
	redSrc := ""
	for _, f := range c.pkg("types") {
		ast.Inspect(f, func(n ast.Node) bool {
			as, ok := n.(*ast.AssignStmt)
			if !ok || len(as.Lhs) != 1 || len(as.Rhs) != 1 || c12ws(c.src(as.Lhs[0])) != "sdk.DefaultPowerReduction" {
				return true
			}
			redSrc = c12ws(c.src(as.Rhs[0]))
			ast.Inspect(as.Rhs[0], func(m ast.Node) bool {
				ce, ok := m.(*ast.CallExpr)
				if !ok {
					return true
				}
				if se, ok := ce.Fun.(*ast.SelectorExpr); ok && se.Sel.Name == "Exp" && len(ce.Args) == 3 {
					get := func(e ast.Expr) uint64 {
						if c2, ok := e.(*ast.CallExpr); ok && len(c2.Args) == 1 {
							if v, ok := c12IntLit(c2.Args[0]); ok {
								return v
							}
						}
						return 0
					}
					base, exp = get(ce.Args[0]), get(ce.Args[1])
				}
				return true
			})
			return false
		})
	}
	sb.WriteString("/-- the assignment of `sdk.DefaultPowerReduction` in `types/` (base, exponent of the `Exp` call; source) -/\n")
	sb.WriteString(fmt.Sprintf("def powerReductionExp : Nat × Nat := (%d, %d)\ndef powerReductionSrc : String := %s\n\n", base, exp, leanStr(redSrc)))
	// the accumulation and skip statements of GetCurrentOracleSet's first loop
	var loop []string
	if fd := c.findFunc("x/crosschain/keeper", "Keeper", "GetCurrentOracleSet"); fd != nil && fd.Body != nil {
		for _, st := range fd.Body.List {
			if rs, ok := st.(*ast.RangeStmt); ok && c12ws(c.src(rs.X)) == "allOracles" {
				for _, b := range rs.Body.List {
					switch x := b.(type) {
					case *ast.ExprStmt:
						if ce, ok := x.X.(*ast.CallExpr); ok {
							loop = append(loop, leanStr(c12ws(c.src(ce.Fun))+"(…)"))
							continue
						}
					case *ast.AssignStmt:
						if exprIdent(x.Lhs[0]) == "bridgeValidators" {
							loop = append(loop, leanStr("bridgeValidators = append(…)"))
							continue
						}
					}
					loop = append(loop, leanStr(c12ws(c.src(b))))
				}
				break
			}
		}
	}
	sb.WriteString("/-- the body of the loop of `GetCurrentOracleSet` that sums the raw powers (`var totalPower uint64`) -/\n")
	sb.WriteString("def totalPowerLoop : List String := " + leanList(loop) + "\n\n")
	c.facts["C12.oraclePower"] = []string{field, method, divisor, redSrc}
	sb.WriteString("end FxVerif.Gen.C12Msg\n")
	c.write("C12Msg.lean", sb.String())
}
