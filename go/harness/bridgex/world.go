// Package bridgex is the shared set-up of the C04 / C08 harnesses: a real in-process fxcore app with several users,
// three bridged chains and token groups of every ownership kind registered through the real registration paths
// (erc20 RegisterNativeCoin / RegisterNativeERC20, crosschain AddBridgeTokenExecuted), plus canonical state dumps.
package bridgex

import (
	"fmt"
	"math/big"
	"sort"
	"strings"

	sdkmath "cosmossdk.io/math"
	sdk "github.com/cosmos/cosmos-sdk/types"
	authtypes "github.com/cosmos/cosmos-sdk/x/auth/types"
	"github.com/ethereum/go-ethereum/common"

	"github.com/functionx/fx-core/v8/contract"
	"github.com/functionx/fx-core/v8/testutil/helpers"
	fxtypes "github.com/functionx/fx-core/v8/types"
	crosschainkeeper "github.com/functionx/fx-core/v8/x/crosschain/keeper"
	crosschaintypes "github.com/functionx/fx-core/v8/x/crosschain/types"
	erc20types "github.com/functionx/fx-core/v8/x/erc20/types"

	"fxverif/harness/hx"
)

const (
	KindFX       = 0
	KindModule   = 1
	KindExternal = 2
)

var Chains = []string{"eth", "bsc", "polygon"}

type Group struct {
	G        int
	Kind     int
	Base     string            // base denom
	OnChain  []bool            // per chain
	Contract []string          // external token contract per chain ("" if none)
	Bridge   []string          // bridge denom per chain
	Erc20    common.Address    // fxcore ERC-20 contract of the pair
}

type World struct {
	S      *hx.Suite
	Users  []*helpers.Signer
	Owner  *helpers.Signer // owner of the externally-owned ERC-20 contracts
	Groups []*Group
	Bad    common.Address // contract whose every call reverts
	Height int64
}

func (w *World) Keeper(c int) crosschainkeeper.Keeper {
	switch Chains[c] {
	case "eth":
		return w.S.App.EthKeeper
	case "bsc":
		return w.S.App.BscKeeper
	case "polygon":
		return w.S.App.PolygonKeeper
	}
	panic("chain")
}

func ModuleAddr(name string) sdk.AccAddress { return authtypes.NewModuleAddress(name) }

func Erc20ModuleAddr() common.Address {
	return common.BytesToAddress(ModuleAddr(erc20types.ModuleName).Bytes())
}

// layout: group -> (kind, chains)
var Layout = []struct {
	Kind   int
	Chains []int
}{
	{KindFX, []int{0}},
	{KindModule, []int{0}},
	{KindModule, []int{0, 1, 2}},
	{KindExternal, []int{0}},
	{KindExternal, []int{0, 1}},
}

const NUsers = 3

// NewWorld boots the app and registers everything.  All amounts are small plain integers.
func NewWorld(s *hx.Suite) *World {
	w := &World{S: s}
	ctx := s.Ctx
	for i := 0; i < NUsers; i++ {
		u := helpers.NewSigner(helpers.NewEthPrivKey())
		s.MintToken(u.AccAddress(), sdk.NewCoin(fxtypes.DefaultDenom, sdkmath.NewInt(1000)))
		w.Users = append(w.Users, u)
	}
	w.Owner = helpers.NewSigner(helpers.NewEthPrivKey())
	s.MintToken(w.Owner.AccAddress(), sdk.NewCoin(fxtypes.DefaultDenom, sdkmath.NewInt(1)))

	for g, l := range Layout {
		grp := &Group{G: g, Kind: l.Kind, OnChain: make([]bool, len(Chains)), Contract: make([]string, len(Chains)), Bridge: make([]string, len(Chains))}
		for _, c := range l.Chains {
			grp.OnChain[c] = true
			grp.Contract[c] = helpers.GenExternalAddr(Chains[c])
			grp.Bridge[c] = crosschaintypes.NewBridgeDenom(Chains[c], grp.Contract[c])
		}
		var aliases []string
		for c := range Chains {
			if grp.OnChain[c] {
				aliases = append(aliases, grp.Bridge[c])
			}
		}
		symbol := fmt.Sprintf("TK%c", 'A'+g)
		switch l.Kind {
		case KindFX:
			grp.Base = fxtypes.DefaultDenom
			pair, ok := s.App.Erc20Keeper.GetTokenPair(ctx, fxtypes.DefaultDenom)
			if !ok {
				panic("FX pair not registered at genesis")
			}
			grp.Erc20 = pair.GetERC20Contract()
			symbol = fxtypes.DefaultDenom
			for c := range Chains {
				if grp.OnChain[c] {
					grp.Bridge[c] = fxtypes.DefaultDenom // the code uses FX itself as the bridge denomination
				}
			}
		case KindModule:
			md := fxtypes.GetCrossChainMetadataManyToOne("Token "+symbol, symbol, 18, aliases...)
			pair, err := s.App.Erc20Keeper.RegisterNativeCoin(ctx, md)
			must(err)
			grp.Base = pair.Denom
			grp.Erc20 = pair.GetERC20Contract()
		case KindExternal:
			fip := contract.GetFIP20()
			addr, err := s.App.EvmKeeper.DeployUpgradableContract(ctx, w.Owner.Address(), fip.Address, nil, &fip.ABI,
				"Token "+symbol, symbol, uint8(18), Erc20ModuleAddr())
			must(err)
			for _, u := range w.Users {
				_, err = s.App.EvmKeeper.ApplyContract(ctx, w.Owner.Address(), addr, nil, fip.ABI, "mint", u.Address(), big.NewInt(500))
				must(err)
			}
			pair, err := s.App.Erc20Keeper.RegisterNativeERC20(ctx, addr, aliases...)
			must(err)
			grp.Base = pair.Denom
			grp.Erc20 = addr
		}
		for c := range Chains {
			if !grp.OnChain[c] {
				continue
			}
			err := w.Keeper(c).AddBridgeTokenExecuted(ctx, &crosschaintypes.MsgBridgeTokenClaim{
				TokenContract: grp.Contract[c], Name: "Token " + symbol, Symbol: symbol, Decimals: 18, ChainName: Chains[c],
			})
			must(err)
		}
		w.Groups = append(w.Groups, grp)
	}
	for c := range Chains {
		w.Keeper(c).SetLastObservedBlockHeight(ctx, 1000, uint64(ctx.BlockHeight()))
	}
	// every user approves the crosschain precompile for every token
	maxU := new(big.Int).Sub(new(big.Int).Lsh(big.NewInt(1), 255), big.NewInt(1))
	for _, grp := range w.Groups {
		for _, u := range w.Users {
			_, err := s.App.EvmKeeper.ApplyContract(ctx, u.Address(), grp.Erc20, nil, contract.GetFIP20().ABI, "approve", crosschaintypes.GetAddress(), maxU)
			must(err)
		}
	}
	// a contract whose every call reverts: PUSH1 0 PUSH1 0 REVERT
	w.Bad = common.HexToAddress("0x00000000000000000000000000000000000bad01")
	must(s.App.EvmKeeper.CreateContractWithCode(ctx, w.Bad, []byte{0x60, 0x00, 0x60, 0x00, 0xfd}))
	w.Height = ctx.BlockHeight()
	return w
}

func must(err error) {
	if err != nil {
		panic(err)
	}
}

// Atomic runs f on a cache context and commits it only on success (message-level atomicity).
func (w *World) Atomic(f func(ctx sdk.Context) error) string {
	w.Height++
	w.S.Ctx = w.S.Ctx.WithBlockHeight(w.Height)
	cctx, write := w.S.Ctx.CacheContext()
	res := hx.Try(func() error { return f(cctx) })
	if res == "ok" {
		write()
	}
	return res
}

// Msg routes a message through the app's real message router.
func (w *World) Msg(msg sdk.Msg) string {
	return w.Atomic(func(ctx sdk.Context) error {
		h := w.S.App.MsgServiceRouter().Handler(msg)
		if h == nil {
			return fmt.Errorf("no handler")
		}
		_, err := h(ctx, msg)
		return err
	})
}

// CallPrecompile runs a real EVM message from `from` to the crosschain precompile.
func (w *World) CallEVM(from common.Address, to common.Address, value *big.Int, data []byte) string {
	return w.Atomic(func(ctx sdk.Context) error {
		res, err := w.S.App.EvmKeeper.CallEVM(ctx, from, &to, value, 3_000_000, data, true)
		if err != nil {
			return err
		}
		if res.Failed() {
			return fmt.Errorf("vm: %s", res.VmError)
		}
		return nil
	})
}

// ---------------------------------------------------------------------------------------------------------
// observation

type acct struct {
	name string
	acc  sdk.AccAddress
}

func (w *World) accounts() []acct {
	var as []acct
	for i, u := range w.Users {
		as = append(as, acct{fmt.Sprintf("u%d", i), u.AccAddress()})
	}
	as = append(as, acct{"x", sdk.AccAddress(w.Bad.Bytes())})
	for c, ch := range Chains {
		as = append(as, acct{fmt.Sprintf("m%d", c), ModuleAddr(ch)})
	}
	as = append(as, acct{"e", ModuleAddr(erc20types.ModuleName)})
	as = append(as, acct{"w", sdk.AccAddress(w.Groups[0].Erc20.Bytes())})
	return as
}

func (w *World) BalanceOf(token common.Address, a common.Address) *big.Int {
	v, err := w.S.App.EvmKeeper.ERC20BalanceOf(w.S.Ctx, token, a)
	must(err)
	return v
}

func (w *World) TotalSupply(token common.Address) *big.Int {
	var res struct{ Value *big.Int }
	must(w.S.App.EvmKeeper.QueryContract(w.S.Ctx, w.Owner.Address(), token, contract.GetFIP20().ABI, "totalSupply", &res))
	return res.Value
}

// Holding of one account in one asset; asset index 0 = base, 1..3 = bridge denom of chain 0..2, 4 = ERC-20
func (w *World) Holding(g *Group, k int, a sdk.AccAddress) *big.Int {
	switch {
	case k == 0:
		return w.S.App.BankKeeper.GetBalance(w.S.Ctx, a, g.Base).Amount.BigInt()
	case k <= 3:
		c := k - 1
		if !g.OnChain[c] || g.Kind == KindFX {
			return big.NewInt(0)
		}
		return w.S.App.BankKeeper.GetBalance(w.S.Ctx, a, g.Bridge[c]).Amount.BigInt()
	default:
		return w.BalanceOf(g.Erc20, common.BytesToAddress(a.Bytes()))
	}
}

func (w *World) Supply(g *Group, k int) *big.Int {
	switch {
	case k == 0:
		return w.S.App.BankKeeper.GetSupply(w.S.Ctx, g.Base).Amount.BigInt()
	case k <= 3:
		c := k - 1
		if !g.OnChain[c] || g.Kind == KindFX {
			return big.NewInt(0)
		}
		return w.S.App.BankKeeper.GetSupply(w.S.Ctx, g.Bridge[c]).Amount.BigInt()
	default:
		return w.TotalSupply(g.Erc20)
	}
}

var assetNames = []string{"B", "b0", "b1", "b2", "T"}

func (w *World) UserIdx(a []byte) int {
	for i, u := range w.Users {
		if string(u.AccAddress().Bytes()) == string(a) {
			return i
		}
	}
	return -1
}

func (w *World) addrName(a []byte) string {
	if i := w.UserIdx(a); i >= 0 {
		return fmt.Sprintf("u%d", i)
	}
	for _, ac := range w.accounts() {
		if string(ac.acc.Bytes()) == string(a) {
			return ac.name
		}
	}
	return "?"
}

func (w *World) GroupByContract(c int, contract string) int {
	for _, g := range w.Groups {
		if g.OnChain[c] && strings.EqualFold(g.Contract[c], contract) {
			return g.G
		}
	}
	return -1
}

// InFlight returns per group the value in pool + batches + outgoing bridge calls (for the monitor) and the canonical
// record strings.
func (w *World) InFlight() (map[int]*big.Int, []string) {
	val := map[int]*big.Int{}
	add := func(g int, v *big.Int) {
		if val[g] == nil {
			val[g] = new(big.Int)
		}
		val[g].Add(val[g], v)
	}
	var recs []string
	ctx := w.S.Ctx
	for c := range Chains {
		k := w.Keeper(c)
		txs := k.GetUnbatchedTransactions(ctx)
		sort.Slice(txs, func(i, j int) bool { return txs[i].Id < txs[j].Id })
		for _, tx := range txs {
			g := w.GroupByContract(c, tx.Token.Contract)
			add(g, tx.Token.Amount.BigInt())
			add(g, tx.Fee.Amount.BigInt())
			rel := 0
			if w.S.App.Erc20Keeper.HasOutgoingTransferRelation(ctx, Chains[c], tx.Id) {
				rel = 1
			}
			recs = append(recs, fmt.Sprintf("p%d.%d=%d:%d:%s:%s:%d", c, tx.Id, w.UserIdx(sdk.MustAccAddressFromBech32(tx.Sender)), g, tx.Token.Amount, tx.Fee.Amount, rel))
		}
		batches := k.GetOutgoingTxBatches(ctx)
		sort.Slice(batches, func(i, j int) bool { return batches[i].BatchNonce < batches[j].BatchNonce })
		for _, b := range batches {
			g := w.GroupByContract(c, b.TokenContract)
			btx := append([]*crosschaintypes.OutgoingTransferTx{}, b.Transactions...)
			sort.Slice(btx, func(i, j int) bool { return btx[i].Id < btx[j].Id })
			var parts []string
			for _, tx := range btx {
				add(g, tx.Token.Amount.BigInt())
				add(g, tx.Fee.Amount.BigInt())
				parts = append(parts, fmt.Sprintf("%d/%s/%s", tx.Id, tx.Token.Amount, tx.Fee.Amount))
			}
			recs = append(recs, fmt.Sprintf("b%d.%d=%d:%s", c, b.BatchNonce, g, strings.Join(parts, ",")))
		}
		var calls []*crosschaintypes.OutgoingBridgeCall
		k.IterateOutgoingBridgeCalls(ctx, func(oc *crosschaintypes.OutgoingBridgeCall) bool {
			calls = append(calls, oc)
			return false
		})
		sort.Slice(calls, func(i, j int) bool { return calls[i].Nonce < calls[j].Nonce })
		for _, oc := range calls {
			var parts []string
			for _, t := range oc.Tokens {
				g := w.GroupByContract(c, t.Contract)
				add(g, t.Amount.BigInt())
				parts = append(parts, fmt.Sprintf("%d:%s", g, t.Amount))
			}
			fm := 0
			if k.HasBridgeCallFromMsg(ctx, oc.Nonce) {
				fm = 1
			}
			recs = append(recs, fmt.Sprintf("c%d.%d=%s:%s:%s:%d", c, oc.Nonce,
				w.addrName(crosschaintypes.ExternalAddrToAccAddr(Chains[c], oc.Sender)),
				w.addrName(crosschaintypes.ExternalAddrToAccAddr(Chains[c], oc.Refund)),
				strings.Join(parts, "+"), fm))
		}
	}
	return val, recs
}

// Dump returns the canonical state line (same format as the Lean driver's showState).
func (w *World) Dump() string {
	var out []string
	for _, ac := range w.accounts() {
		for _, g := range w.Groups {
			for k := 0; k < 5; k++ {
				v := w.Holding(g, k, ac.acc)
				if v.Sign() != 0 {
					out = append(out, fmt.Sprintf("%s.g%d%s=%s", ac.name, g.G, assetNames[k], v))
				}
			}
		}
	}
	for _, g := range w.Groups {
		for k := 0; k < 5; k++ {
			if g.G == 0 && k == 0 {
				continue
			}
			v := w.Supply(g, k)
			if v.Sign() != 0 {
				out = append(out, fmt.Sprintf("s.g%d%s=%s", g.G, assetNames[k], v))
			}
		}
	}
	_, recs := w.InFlight()
	out = append(out, recs...)
	return strings.Join(out, " ")
}

// Held returns, per group, the sum over all tracked non-module accounts (users and the bad contract) of their
// holdings in every representation.
func (w *World) Held() map[int]*big.Int {
	res := map[int]*big.Int{}
	holders := w.accounts()[:NUsers+1]
	for _, g := range w.Groups {
		sum := new(big.Int)
		for _, ac := range holders {
			for k := 0; k < 5; k++ {
				sum.Add(sum, w.Holding(g, k, ac.acc))
			}
		}
		res[g.G] = sum
	}
	return res
}
