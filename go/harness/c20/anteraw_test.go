package c20

// C20 harness, part 9: byte-level variants of valid signed transactions through the REAL app CheckTx / FinalizeBlock.
//
// Part 6 (hostileAnte) calls the ante handler directly and used to accept a panic that the deferred `Recover` of
// `NewAnteHandler` converts into an error.  The property says "the ante handler … never panic[s]": a recovered panic reaches
// the client as `ErrPanic` (codespace `undefined`, code 111222) and is a violation.  This stream therefore works on the wire:
//   * valid signed transactions are built (one signer, two signers, direct and amino-json sign modes, fee payer / granter,
//     time-out heights, sequence boundaries, zero / huge gas, empty fee, duplicated messages) — these keep a valid signature;
//   * every one of them is decoded into TxRaw / AuthInfo / TxBody and re-encoded with ONE structural change from an
//     enumerated list (signer_infos count 0..5 against 1 or 2 signers; signatures count 0..3; every signer_infos × signatures
//     count combination; nil public key; unknown / garbage / empty-multisig public key; nil mode_info; nil mode_info.sum;
//     multi mode info with bit arrays of 0, 1, 64 bits and 0 / 1 / 3 nested mode infos; nil fee; malformed fee coins; gas
//     0 / 2^63 / 2^64-1; garbage payer / granter; tip; no / duplicated / unknown / non-message messages; huge memo; time-out
//     height 1 / 2^64-1; unknown and Ethereum extension options; unknown non-critical extension options; unknown fields;
//     truncation), plus seeded random pairs of such changes;
//   * every variant goes through `app.CheckTx` (New and Recheck); what CheckTx admits is then delivered in real blocks
//     (`FinalizeBlock` + `Commit`).
// Monitor: response code 111222 / codespace `undefined`, a log mentioning a panic or a Go runtime error, or a panic escaping
// the ABCI call is a concrete violation; replay = `tx <hex of the transaction bytes>`.

import (
	"encoding/hex"
	"fmt"
	"strings"
	"testing"

	sdkmath "cosmossdk.io/math"
	abci "github.com/cometbft/cometbft/abci/types"
	tmtime "github.com/cometbft/cometbft/types/time"
	"github.com/cosmos/cosmos-sdk/client"
	clienttx "github.com/cosmos/cosmos-sdk/client/tx"
	codectypes "github.com/cosmos/cosmos-sdk/codec/types"
	kmultisig "github.com/cosmos/cosmos-sdk/crypto/keys/multisig"
	cryptotypes "github.com/cosmos/cosmos-sdk/crypto/types"
	sdk "github.com/cosmos/cosmos-sdk/types"
	txtypes "github.com/cosmos/cosmos-sdk/types/tx"
	"github.com/cosmos/cosmos-sdk/types/tx/signing"
	authsigning "github.com/cosmos/cosmos-sdk/x/auth/signing"
	authtx "github.com/cosmos/cosmos-sdk/x/auth/tx"
	banktypes "github.com/cosmos/cosmos-sdk/x/bank/types"
	"github.com/cosmos/gogoproto/proto"

	fxante "github.com/functionx/fx-core/v8/ante"
	"github.com/functionx/fx-core/v8/testutil/helpers"
	fxtypes "github.com/functionx/fx-core/v8/types"

	"fxverif/harness/hx"
)

type rawOpts struct {
	name     string
	msgs     []sdk.Msg
	gas      uint64
	fee      sdk.Coins
	payer    sdk.AccAddress
	granter  sdk.AccAddress
	timeout  uint64
	memo     string
	signers  []*helpers.Signer
	seqDelta int64
	mode     signing.SignMode
}

type rawWorld struct {
	e    *env
	s    *hx.Suite
	a    *helpers.Signer
	b    *helpers.Signer
	txc  client.TxConfig
	used map[string]uint64 // sequences consumed in the CheckTx state by transactions it admitted
}

// build signs a transaction for all its signers
func (w *rawWorld) build(o rawOpts) ([]byte, error) {
	ctx := w.s.App.GetContextForFinalizeBlock(nil)
	txb := w.txc.NewTxBuilder()
	if err := txb.SetMsgs(o.msgs...); err != nil {
		return nil, err
	}
	txb.SetGasLimit(o.gas)
	txb.SetFeeAmount(o.fee)
	txb.SetMemo(o.memo)
	txb.SetTimeoutHeight(o.timeout)
	if o.payer != nil {
		txb.SetFeePayer(o.payer)
	}
	if o.granter != nil {
		txb.SetFeeGranter(o.granter)
	}
	mode := o.mode
	if mode == signing.SignMode_SIGN_MODE_UNSPECIFIED {
		mode = signing.SignMode_SIGN_MODE_DIRECT
	}
	var sigs []signing.SignatureV2
	type sd struct {
		d   authsigning.SignerData
		seq uint64
	}
	var sds []sd
	for _, sg := range o.signers {
		acc := w.s.App.AccountKeeper.GetAccount(ctx, sg.AccAddress())
		seq := uint64(int64(acc.GetSequence()+w.used[sg.AccAddress().String()]) + o.seqDelta)
		sigs = append(sigs, signing.SignatureV2{PubKey: sg.PrivKey().PubKey(), Data: &signing.SingleSignatureData{SignMode: mode}, Sequence: seq})
		sds = append(sds, sd{authsigning.SignerData{Address: sg.AccAddress().String(), ChainID: ctx.ChainID(), AccountNumber: acc.GetAccountNumber(), Sequence: seq, PubKey: sg.PrivKey().PubKey()}, seq})
	}
	if err := txb.SetSignatures(sigs...); err != nil {
		return nil, err
	}
	for i, sg := range o.signers {
		sig, err := clienttx.SignWithPrivKey(ctx, mode, sds[i].d, txb, sg.PrivKey(), w.txc, sds[i].seq)
		if err != nil {
			return nil, err
		}
		sigs[i] = sig
	}
	if err := txb.SetSignatures(sigs...); err != nil {
		return nil, err
	}
	return w.txc.TxEncoder()(txb.GetTx())
}

type rawMut struct {
	label string
	apply func(raw *txtypes.TxRaw, ai *txtypes.AuthInfo, body *txtypes.TxBody) (post func([]byte) []byte)
}

func anyOf(m proto.Message) *codectypes.Any {
	a, err := codectypes.NewAnyWithValue(m)
	if err != nil {
		panic(err)
	}
	return a
}

func bitArray(bits int, set bool) *cryptotypes.CompactBitArray {
	ba := cryptotypes.NewCompactBitArray(bits)
	if ba == nil {
		return &cryptotypes.CompactBitArray{}
	}
	for i := 0; i < bits; i++ {
		ba.SetIndex(i, set)
	}
	return ba
}

func single(mode signing.SignMode) *txtypes.ModeInfo {
	return &txtypes.ModeInfo{Sum: &txtypes.ModeInfo_Single_{Single: &txtypes.ModeInfo_Single{Mode: mode}}}
}

func (w *rawWorld) mutations() []rawMut {
	var out []rawMut
	add := func(label string, f func(raw *txtypes.TxRaw, ai *txtypes.AuthInfo, body *txtypes.TxBody)) {
		out = append(out, rawMut{label, func(raw *txtypes.TxRaw, ai *txtypes.AuthInfo, body *txtypes.TxBody) func([]byte) []byte {
			f(raw, ai, body)
			return nil
		}})
	}
	resize := func(si []*txtypes.SignerInfo, n int) []*txtypes.SignerInfo {
		var o []*txtypes.SignerInfo
		for i := 0; i < n; i++ {
			if len(si) == 0 {
				o = append(o, &txtypes.SignerInfo{ModeInfo: single(signing.SignMode_SIGN_MODE_DIRECT)})
			} else {
				o = append(o, si[i%len(si)])
			}
		}
		return o
	}
	resizeSig := func(s [][]byte, n int) [][]byte {
		var o [][]byte
		for i := 0; i < n; i++ {
			if len(s) == 0 {
				o = append(o, make([]byte, 64))
			} else {
				o = append(o, s[i%len(s)])
			}
		}
		return o
	}
	// signer_infos × signatures counts
	for ni := 0; ni <= 5; ni++ {
		for ns := 0; ns <= 3; ns++ {
			ni, ns := ni, ns
			add(fmt.Sprintf("signer_infos=%d signatures=%d", ni, ns), func(raw *txtypes.TxRaw, ai *txtypes.AuthInfo, _ *txtypes.TxBody) {
				ai.SignerInfos = resize(ai.SignerInfos, ni)
				raw.Signatures = resizeSig(raw.Signatures, ns)
			})
		}
	}
	// match the signature count to a wrong signer_infos count (passes the SDK's own sigs == signers test only when equal to signers)
	for _, n := range []int{2, 3, 4, 8} {
		n := n
		add(fmt.Sprintf("signer_infos=%d signatures=same as before", n), func(_ *txtypes.TxRaw, ai *txtypes.AuthInfo, _ *txtypes.TxBody) {
			ai.SignerInfos = resize(ai.SignerInfos, n)
		})
	}
	first := func(f func(si *txtypes.SignerInfo)) func(*txtypes.TxRaw, *txtypes.AuthInfo, *txtypes.TxBody) {
		return func(_ *txtypes.TxRaw, ai *txtypes.AuthInfo, _ *txtypes.TxBody) {
			if len(ai.SignerInfos) > 0 {
				cp := *ai.SignerInfos[0]
				f(&cp)
				ai.SignerInfos[0] = &cp
			}
		}
	}
	add("public_key=nil", first(func(si *txtypes.SignerInfo) { si.PublicKey = nil }))
	add("public_key=unknown type", first(func(si *txtypes.SignerInfo) { si.PublicKey = &codectypes.Any{TypeUrl: "/nope.PubKey", Value: []byte{1, 2, 3}} }))
	add("public_key=garbage value", first(func(si *txtypes.SignerInfo) {
		si.PublicKey = &codectypes.Any{TypeUrl: si.PublicKey.GetTypeUrl(), Value: []byte{0xff, 0xff, 0xff}}
	}))
	add("public_key=empty key bytes", first(func(si *txtypes.SignerInfo) {
		si.PublicKey = &codectypes.Any{TypeUrl: si.PublicKey.GetTypeUrl(), Value: nil}
	}))
	add("public_key=a message, not a key", first(func(si *txtypes.SignerInfo) { si.PublicKey = anyOf(&banktypes.MsgSend{}) }))
	for _, nk := range []int{0, 1, 3} {
		for _, th := range []uint32{0, 1, 5} {
			nk, th := nk, th
			add(fmt.Sprintf("public_key=multisig of %d keys threshold %d", nk, th), first(func(si *txtypes.SignerInfo) {
				var pks []*codectypes.Any
				for i := 0; i < nk; i++ {
					pks = append(pks, anyOf(w.a.PrivKey().PubKey()))
				}
				si.PublicKey = anyOf(&kmultisig.LegacyAminoPubKey{Threshold: th, PubKeys: pks})
			}))
		}
	}
	add("mode_info=nil", first(func(si *txtypes.SignerInfo) { si.ModeInfo = nil }))
	add("mode_info.sum=nil", first(func(si *txtypes.SignerInfo) { si.ModeInfo = &txtypes.ModeInfo{} }))
	for _, m := range []signing.SignMode{signing.SignMode_SIGN_MODE_UNSPECIFIED, signing.SignMode_SIGN_MODE_TEXTUAL, signing.SignMode_SIGN_MODE_LEGACY_AMINO_JSON, signing.SignMode_SIGN_MODE_EIP_191, 77} {
		m := m
		add(fmt.Sprintf("mode_info.single=%d", m), first(func(si *txtypes.SignerInfo) { si.ModeInfo = single(m) }))
	}
	for _, bits := range []int{0, 1, 2, 64} {
		for _, nm := range []int{0, 1, 3} {
			for _, withMultiKey := range []bool{false, true} {
				bits, nm, withMultiKey := bits, nm, withMultiKey
				add(fmt.Sprintf("mode_info=multi bitarray %d bits, %d mode infos, multisig key=%v", bits, nm, withMultiKey), first(func(si *txtypes.SignerInfo) {
					var mis []*txtypes.ModeInfo
					for i := 0; i < nm; i++ {
						mis = append(mis, single(signing.SignMode_SIGN_MODE_DIRECT))
					}
					si.ModeInfo = &txtypes.ModeInfo{Sum: &txtypes.ModeInfo_Multi_{Multi: &txtypes.ModeInfo_Multi{Bitarray: bitArray(bits, true), ModeInfos: mis}}}
					if withMultiKey {
						si.PublicKey = anyOf(&kmultisig.LegacyAminoPubKey{Threshold: 1, PubKeys: []*codectypes.Any{anyOf(w.a.PrivKey().PubKey()), anyOf(w.b.PrivKey().PubKey())}})
					}
				}))
			}
		}
	}
	add("mode_info=multi with nil bitarray", first(func(si *txtypes.SignerInfo) {
		si.ModeInfo = &txtypes.ModeInfo{Sum: &txtypes.ModeInfo_Multi_{Multi: &txtypes.ModeInfo_Multi{ModeInfos: []*txtypes.ModeInfo{single(signing.SignMode_SIGN_MODE_DIRECT)}}}}
	}))
	add("mode_info=multi bitarray with inconsistent extra_bits_stored", first(func(si *txtypes.SignerInfo) {
		si.ModeInfo = &txtypes.ModeInfo{Sum: &txtypes.ModeInfo_Multi_{Multi: &txtypes.ModeInfo_Multi{Bitarray: &cryptotypes.CompactBitArray{ExtraBitsStored: 7, Elems: nil}, ModeInfos: []*txtypes.ModeInfo{single(signing.SignMode_SIGN_MODE_DIRECT)}}}}
	}))
	add("mode_info=multi nested in multi", first(func(si *txtypes.SignerInfo) {
		inner := &txtypes.ModeInfo{Sum: &txtypes.ModeInfo_Multi_{Multi: &txtypes.ModeInfo_Multi{Bitarray: bitArray(1, true), ModeInfos: []*txtypes.ModeInfo{nil}}}}
		si.ModeInfo = &txtypes.ModeInfo{Sum: &txtypes.ModeInfo_Multi_{Multi: &txtypes.ModeInfo_Multi{Bitarray: bitArray(1, true), ModeInfos: []*txtypes.ModeInfo{inner}}}}
	}))
	for _, sq := range []uint64{0, 1<<63 - 1, 1<<64 - 1} {
		sq := sq
		add(fmt.Sprintf("sequence=%d", sq), first(func(si *txtypes.SignerInfo) { si.Sequence = sq }))
	}
	// fee
	add("fee=nil", func(_ *txtypes.TxRaw, ai *txtypes.AuthInfo, _ *txtypes.TxBody) { ai.Fee = nil })
	fee := func(f func(fe *txtypes.Fee)) func(*txtypes.TxRaw, *txtypes.AuthInfo, *txtypes.TxBody) {
		return func(_ *txtypes.TxRaw, ai *txtypes.AuthInfo, _ *txtypes.TxBody) {
			cp := txtypes.Fee{}
			if ai.Fee != nil {
				cp = *ai.Fee
			}
			f(&cp)
			ai.Fee = &cp
		}
	}
	for _, g := range []uint64{0, 1, 30_000_001, 1<<63 - 1, 1 << 63, 1<<64 - 1} {
		g := g
		add(fmt.Sprintf("gas_limit=%d", g), fee(func(fe *txtypes.Fee) { fe.GasLimit = g }))
	}
	add("fee.amount=empty", fee(func(fe *txtypes.Fee) { fe.Amount = nil }))
	add("fee.amount=nil-amount coin", fee(func(fe *txtypes.Fee) { fe.Amount = sdk.Coins{sdk.Coin{Denom: fxtypes.DefaultDenom}} }))
	add("fee.amount=negative coin", fee(func(fe *txtypes.Fee) { fe.Amount = sdk.Coins{sdk.Coin{Denom: fxtypes.DefaultDenom, Amount: sdkmath.NewInt(-5)}} }))
	add("fee.amount=zero coin", fee(func(fe *txtypes.Fee) { fe.Amount = sdk.Coins{sdk.Coin{Denom: fxtypes.DefaultDenom, Amount: sdkmath.ZeroInt()}} }))
	add("fee.amount=duplicate denominations", fee(func(fe *txtypes.Fee) {
		c := sdk.Coin{Denom: fxtypes.DefaultDenom, Amount: sdkmath.NewInt(5)}
		fe.Amount = sdk.Coins{c, c}
	}))
	add("fee.amount=unsorted", fee(func(fe *txtypes.Fee) {
		fe.Amount = sdk.Coins{sdk.Coin{Denom: "zzz", Amount: sdkmath.NewInt(5)}, sdk.Coin{Denom: "aaa", Amount: sdkmath.NewInt(5)}}
	}))
	add("fee.amount=empty denomination", fee(func(fe *txtypes.Fee) { fe.Amount = sdk.Coins{sdk.Coin{Denom: "", Amount: sdkmath.NewInt(5)}} }))
	add("fee.amount=2^255", fee(func(fe *txtypes.Fee) { fe.Amount = sdk.Coins{sdk.Coin{Denom: fxtypes.DefaultDenom, Amount: sdkmath.NewIntFromBigInt(pow2(255))}} }))
	for _, g := range []string{"garbage", "", "0x", "fx1", strings.Repeat("a", 300), "\xff\xfe"} {
		g := g
		add(fmt.Sprintf("fee.payer=%q", g[:min(len(g), 10)]), fee(func(fe *txtypes.Fee) { fe.Payer = g }))
		add(fmt.Sprintf("fee.granter=%q", g[:min(len(g), 10)]), fee(func(fe *txtypes.Fee) { fe.Granter = g }))
	}
	add("fee.payer=other account", fee(func(fe *txtypes.Fee) { fe.Payer = w.b.AccAddress().String() }))
	add("fee.granter=other account", fee(func(fe *txtypes.Fee) { fe.Granter = w.b.AccAddress().String() }))
	add("tip=garbage tipper", func(_ *txtypes.TxRaw, ai *txtypes.AuthInfo, _ *txtypes.TxBody) {
		ai.Tip = &txtypes.Tip{Tipper: "garbage", Amount: sdk.Coins{sdk.Coin{Denom: fxtypes.DefaultDenom, Amount: sdkmath.NewInt(1)}}} //nolint:staticcheck
	})
	// body
	add("messages=none", func(_ *txtypes.TxRaw, _ *txtypes.AuthInfo, b *txtypes.TxBody) { b.Messages = nil })
	add("messages=first duplicated", func(_ *txtypes.TxRaw, _ *txtypes.AuthInfo, b *txtypes.TxBody) {
		if len(b.Messages) > 0 {
			b.Messages = append(b.Messages, b.Messages[0])
		}
	})
	add("messages=first ×40", func(_ *txtypes.TxRaw, _ *txtypes.AuthInfo, b *txtypes.TxBody) {
		if len(b.Messages) > 0 {
			for i := 0; i < 40; i++ {
				b.Messages = append(b.Messages, b.Messages[0])
			}
		}
	})
	add("messages=unknown type", func(_ *txtypes.TxRaw, _ *txtypes.AuthInfo, b *txtypes.TxBody) {
		b.Messages = []*codectypes.Any{{TypeUrl: "/nope.Msg", Value: []byte{1}}}
	})
	add("messages=a public key", func(_ *txtypes.TxRaw, _ *txtypes.AuthInfo, b *txtypes.TxBody) {
		b.Messages = []*codectypes.Any{anyOf(w.a.PrivKey().PubKey())}
	})
	add("messages=garbage value", func(_ *txtypes.TxRaw, _ *txtypes.AuthInfo, b *txtypes.TxBody) {
		if len(b.Messages) > 0 {
			b.Messages = []*codectypes.Any{{TypeUrl: b.Messages[0].TypeUrl, Value: []byte{0xff, 0xff}}}
		}
	})
	add("messages=empty value (zero message)", func(_ *txtypes.TxRaw, _ *txtypes.AuthInfo, b *txtypes.TxBody) {
		if len(b.Messages) > 0 {
			b.Messages = []*codectypes.Any{{TypeUrl: b.Messages[0].TypeUrl}}
		}
	})
	add("messages=second signer's message appended", func(_ *txtypes.TxRaw, _ *txtypes.AuthInfo, b *txtypes.TxBody) {
		b.Messages = append(b.Messages, anyOf(&banktypes.MsgSend{FromAddress: w.b.AccAddress().String(), ToAddress: w.a.AccAddress().String(),
			Amount: sdk.NewCoins(sdk.NewCoin(fxtypes.DefaultDenom, sdkmath.NewInt(1)))}))
	})
	add("memo=10000 bytes", func(_ *txtypes.TxRaw, _ *txtypes.AuthInfo, b *txtypes.TxBody) { b.Memo = strings.Repeat("m", 10000) })
	add("memo=non-UTF8", func(_ *txtypes.TxRaw, _ *txtypes.AuthInfo, b *txtypes.TxBody) { b.Memo = "\xff\xfe" })
	for _, th := range []uint64{1, 2, 1<<63 - 1, 1<<64 - 1} {
		th := th
		add(fmt.Sprintf("timeout_height=%d", th), func(_ *txtypes.TxRaw, _ *txtypes.AuthInfo, b *txtypes.TxBody) { b.TimeoutHeight = th })
	}
	add("extension_options=unknown type", func(_ *txtypes.TxRaw, _ *txtypes.AuthInfo, b *txtypes.TxBody) {
		b.ExtensionOptions = []*codectypes.Any{{TypeUrl: "/nope.Ext", Value: []byte{1}}}
	})
	add("extension_options=Ethereum option on a Cosmos tx", func(_ *txtypes.TxRaw, _ *txtypes.AuthInfo, b *txtypes.TxBody) {
		b.ExtensionOptions = []*codectypes.Any{{TypeUrl: "/ethermint.evm.v1.ExtensionOptionsEthereumTx"}}
	})
	add("extension_options=Ethereum option, no messages, no fee", func(_ *txtypes.TxRaw, ai *txtypes.AuthInfo, b *txtypes.TxBody) {
		b.ExtensionOptions = []*codectypes.Any{{TypeUrl: "/ethermint.evm.v1.ExtensionOptionsEthereumTx"}}
		b.Messages = nil
		ai.Fee = nil
		ai.SignerInfos = nil
	})
	add("extension_options=two, second Ethereum", func(_ *txtypes.TxRaw, _ *txtypes.AuthInfo, b *txtypes.TxBody) {
		b.ExtensionOptions = []*codectypes.Any{{TypeUrl: "/nope.Ext"}, {TypeUrl: "/ethermint.evm.v1.ExtensionOptionsEthereumTx"}}
	})
	add("non_critical_extension_options=unknown type", func(_ *txtypes.TxRaw, _ *txtypes.AuthInfo, b *txtypes.TxBody) {
		b.NonCriticalExtensionOptions = []*codectypes.Any{{TypeUrl: "/nope.Ext", Value: []byte{1}}}
	})
	add("auth_info=empty", func(_ *txtypes.TxRaw, ai *txtypes.AuthInfo, _ *txtypes.TxBody) { *ai = txtypes.AuthInfo{} })
	add("body=empty", func(_ *txtypes.TxRaw, _ *txtypes.AuthInfo, b *txtypes.TxBody) { *b = txtypes.TxBody{} })
	for _, l := range []int{0, 1, 63, 65, 1000} {
		l := l
		add(fmt.Sprintf("signature[0]=%d bytes", l), func(raw *txtypes.TxRaw, _ *txtypes.AuthInfo, _ *txtypes.TxBody) {
			if len(raw.Signatures) > 0 {
				raw.Signatures[0] = make([]byte, l)
			}
		})
	}
	// wire-level
	out = append(out, rawMut{"unknown field appended to the tx", func(*txtypes.TxRaw, *txtypes.AuthInfo, *txtypes.TxBody) func([]byte) []byte {
		return func(bz []byte) []byte { return append(append([]byte{}, bz...), encBytes(999, []byte("x"))...) }
	}})
	out = append(out, rawMut{"tx truncated", func(*txtypes.TxRaw, *txtypes.AuthInfo, *txtypes.TxBody) func([]byte) []byte {
		return func(bz []byte) []byte { return bz[:len(bz)/2] }
	}})
	out = append(out, rawMut{"tx empty", func(*txtypes.TxRaw, *txtypes.AuthInfo, *txtypes.TxBody) func([]byte) []byte {
		return func([]byte) []byte { return nil }
	}})
	return out
}

// mutate decodes a transaction, applies the changes and re-encodes it
func mutateTx(bz []byte, muts []rawMut) ([]byte, bool) {
	var raw txtypes.TxRaw
	var ai txtypes.AuthInfo
	var body txtypes.TxBody
	if proto.Unmarshal(bz, &raw) != nil || proto.Unmarshal(raw.AuthInfoBytes, &ai) != nil || proto.Unmarshal(raw.BodyBytes, &body) != nil {
		return nil, false
	}
	var posts []func([]byte) []byte
	ok := true
	func() {
		defer func() {
			if recover() != nil {
				ok = false
			}
		}()
		for _, m := range muts {
			if p := m.apply(&raw, &ai, &body); p != nil {
				posts = append(posts, p)
			}
		}
		var err error
		if raw.AuthInfoBytes, err = proto.Marshal(&ai); err != nil {
			ok = false
		}
		if raw.BodyBytes, err = proto.Marshal(&body); err != nil {
			ok = false
		}
	}()
	if !ok {
		return nil, false
	}
	var out []byte
	func() {
		defer func() {
			if recover() != nil {
				ok = false
			}
		}()
		var err error
		if out, err = proto.Marshal(&raw); err != nil {
			ok = false
		}
	}()
	if !ok {
		return nil, false
	}
	for _, p := range posts {
		out = p(out)
	}
	return out, true
}

// fxCoreAntePanic runs every fx-core ante component IN ISOLATION on the decoded transaction (next = no-op), in the given
// mode, under recover with the stack kept: PubKeyDecorator, EthPubKeyDecorator, DisableMsgDecorator,
// RejectExtensionOptionsDecorator, the fee checker, and the signature gas consumer exactly as the SDK's
// SigGasConsumeDecorator would call it (account public key, or the transaction's own key when it matches the signer — what
// SetPubKeyDecorator stores).  It returns the first component that panics and the frames.  This is how a recovered panic of
// the real CheckTx / DeliverTx is attributed: SetUpContextDecorator re-panics, so the original stack is gone by the time
// NewAnteHandler's Recover runs.
func (w *rawWorld) fxCoreAntePanic(bz []byte, stage string) (component, frames string) {
	tx, err := w.txc.TxDecoder()(bz)
	if err != nil {
		return "", ""
	}
	app := w.s.App
	base, _ := app.GetContextForFinalizeBlock(nil).CacheContext()
	base = base.WithIsCheckTx(stage != "DeliverTx").WithIsReCheckTx(stage == "ReCheckTx").WithTxBytes(bz)
	next := func(ctx sdk.Context, _ sdk.Tx, _ bool) (sdk.Context, error) { return ctx, nil }
	type comp struct {
		name string
		run  func(ctx sdk.Context) error
	}
	comps := []comp{
		{"ante.PubKeyDecorator", func(ctx sdk.Context) error {
			_, err := fxante.NewPubKeyDecorator(app.AccountKeeper).AnteHandle(ctx, tx, false, next)
			return err
		}},
		{"ante.EthPubKeyDecorator", func(ctx sdk.Context) error {
			_, err := fxante.NewEthPubKeyDecorator(app.AccountKeeper).AnteHandle(ctx, tx, false, next)
			return err
		}},
		{"ante.DisableMsgDecorator", func(ctx sdk.Context) error {
			_, err := fxante.NewDisableMsgDecorator([]string{"/nope.Msg"}, app.GovKeeper).AnteHandle(ctx, tx, false, next)
			return err
		}},
		{"ante.RejectExtensionOptionsDecorator", func(ctx sdk.Context) error {
			_, err := fxante.NewRejectExtensionOptionsDecorator().AnteHandle(ctx, tx, false, next)
			return err
		}},
		{"ante.CheckTxFeees.Check", func(ctx sdk.Context) error {
			_, _, err := fxante.NewCheckTxFeees(nil, 300000).Check(ctx, tx)
			return err
		}},
		{"ante.DefaultSigVerificationGasConsumer", func(ctx sdk.Context) error {
			sigTx, ok := tx.(authsigning.SigVerifiableTx)
			if !ok {
				return nil
			}
			var sigs []signing.SignatureV2
			var signers [][]byte
			// the accessors are SDK code: a panic inside them is not fx-core's
			if r := hx.Try(func() error {
				var err error
				if sigs, err = sigTx.GetSignaturesV2(); err != nil {
					return err
				}
				signers, err = sigTx.GetSigners()
				return err
			}); r != "ok" {
				return nil
			}
			params := app.AccountKeeper.GetParams(ctx)
			for i, sig := range sigs {
				if i >= len(signers) {
					break
				}
				var pk cryptotypes.PubKey
				if acc := app.AccountKeeper.GetAccount(ctx, signers[i]); acc != nil {
					pk = acc.GetPubKey()
				}
				if pk == nil && sig.PubKey != nil && string(sig.PubKey.Address()) == string(signers[i]) {
					pk = sig.PubKey
				}
				if pk == nil {
					continue
				}
				if err := fxante.DefaultSigVerificationGasConsumer(ctx.GasMeter(), signing.SignatureV2{PubKey: pk, Data: sig.Data, Sequence: sig.Sequence}, params); err != nil {
					return err
				}
			}
			return nil
		}},
	}
	for _, c := range comps {
		ctx, _ := base.CacheContext()
		lastStack, lastFaultFrame = "", ""
		if r := tryStack(func() error { return c.run(ctx) }); isPanic(r) {
			// the faulting operation must be fx-core's own: a panic inside an SDK transaction accessor that fx-core merely
			// calls (e.g. Tx.GetSigners on a nil Fee) is raised earlier on the real path by the SDK's own decorators
			if strings.HasPrefix(lastFaultFrame, "github.com/functionx/fx-core/") {
				return c.name + " (" + lastFaultFrame + "): " + r, lastStack
			}
		}
	}
	return "", ""
}

func panicResponse(code uint32, codespace, log string) bool {
	l := strings.ToLower(log)
	return code == 111222 || strings.Contains(l, "panic") || strings.Contains(l, "runtime error") || strings.Contains(l, "nil pointer") || strings.Contains(l, "index out of range")
}

func (e *env) anteRawSweep(t *testing.T) {
	s := hx.NewSuite(t, 1)
	w := &rawWorld{e: e, s: s, txc: s.App.GetTxConfig(), used: map[string]uint64{}}
	w.a, w.b = s.AddTestSigner(1000), s.AddTestSigner(1000)
	s.Commit()
	fee := sdk.NewCoins(sdk.NewCoin(fxtypes.DefaultDenom, sdkmath.NewInt(4e12).MulRaw(500000)))
	send := func(from, to *helpers.Signer) sdk.Msg {
		return &banktypes.MsgSend{FromAddress: from.AccAddress().String(), ToAddress: to.AccAddress().String(), Amount: sdk.NewCoins(sdk.NewCoin(fxtypes.DefaultDenom, sdkmath.NewInt(1)))}
	}
	one := []*helpers.Signer{w.a}
	bases := []rawOpts{
		{name: "one signer", msgs: []sdk.Msg{send(w.a, w.b)}, gas: 500000, fee: fee, signers: one},
		{name: "two signers", msgs: []sdk.Msg{send(w.a, w.b), send(w.b, w.a)}, gas: 500000, fee: fee, signers: []*helpers.Signer{w.a, w.b}},
		{name: "amino-json sign mode", msgs: []sdk.Msg{send(w.a, w.b)}, gas: 500000, fee: fee, signers: one, mode: signing.SignMode_SIGN_MODE_LEGACY_AMINO_JSON},
		{name: "same message twice", msgs: []sdk.Msg{send(w.a, w.b), send(w.a, w.b)}, gas: 500000, fee: fee, signers: one},
		{name: "gas 0", msgs: []sdk.Msg{send(w.a, w.b)}, gas: 0, fee: fee, signers: one},
		{name: "gas 1", msgs: []sdk.Msg{send(w.a, w.b)}, gas: 1, fee: fee, signers: one},
		{name: "gas above the block limit", msgs: []sdk.Msg{send(w.a, w.b)}, gas: 30_000_001, fee: fee, signers: one},
		{name: "gas 2^63", msgs: []sdk.Msg{send(w.a, w.b)}, gas: 1 << 63, fee: fee, signers: one},
		{name: "gas 2^64-1", msgs: []sdk.Msg{send(w.a, w.b)}, gas: 1<<64 - 1, fee: fee, signers: one},
		{name: "empty fee", msgs: []sdk.Msg{send(w.a, w.b)}, gas: 500000, signers: one},
		{name: "fee payer = second account (not a signer)", msgs: []sdk.Msg{send(w.a, w.b)}, gas: 500000, fee: fee, signers: one, payer: w.b.AccAddress()},
		{name: "fee payer = second account (signs)", msgs: []sdk.Msg{send(w.a, w.b)}, gas: 500000, fee: fee, signers: []*helpers.Signer{w.a, w.b}, payer: w.b.AccAddress()},
		{name: "fee granter without a grant", msgs: []sdk.Msg{send(w.a, w.b)}, gas: 500000, fee: fee, signers: one, granter: w.b.AccAddress()},
		{name: "fee granter = unknown account", msgs: []sdk.Msg{send(w.a, w.b)}, gas: 500000, fee: fee, signers: one, granter: sdk.AccAddress(rndAddr(e.rng).Bytes())},
		{name: "time-out height 1 (past)", msgs: []sdk.Msg{send(w.a, w.b)}, gas: 500000, fee: fee, signers: one, timeout: 1},
		{name: "time-out height = current", msgs: []sdk.Msg{send(w.a, w.b)}, gas: 500000, fee: fee, signers: one, timeout: uint64(s.Ctx.BlockHeight())},
		{name: "time-out height 2^64-1", msgs: []sdk.Msg{send(w.a, w.b)}, gas: 500000, fee: fee, signers: one, timeout: 1<<64 - 1},
		{name: "sequence - 1", msgs: []sdk.Msg{send(w.a, w.b)}, gas: 500000, fee: fee, signers: one, seqDelta: -1},
		{name: "sequence + 1", msgs: []sdk.Msg{send(w.a, w.b)}, gas: 500000, fee: fee, signers: one, seqDelta: 1},
		{name: "memo 300 bytes", msgs: []sdk.Msg{send(w.a, w.b)}, gas: 500000, fee: fee, signers: one, memo: strings.Repeat("m", 300)},
		{name: "more signers than messages need", msgs: []sdk.Msg{send(w.a, w.b)}, gas: 500000, fee: fee, signers: []*helpers.Signer{w.a, w.b}},
	}
	muts := w.mutations()
	// transactions of a real multisig ACCOUNT (address = the multisig key's address) with hostile bit arrays / signature lists:
	// they get as far as the signature gas consumer
	type msBase struct {
		name string
		bz   []byte
	}
	var msBases []msBase
	mpk := kmultisig.NewLegacyAminoPubKey(1, []cryptotypes.PubKey{w.a.PrivKey().PubKey(), w.b.PrivKey().PubKey()})
	msAddr := sdk.AccAddress(mpk.Address())
	s.MintToken(msAddr, sdk.NewCoin(fxtypes.DefaultDenom, sdkmath.NewIntWithDecimal(1, 22)))
	s.Commit()
	for _, bits := range []int{0, 1, 2, 3, 5, 64} {
		for _, nsig := range []int{0, 1, 2, 3} {
			for _, setAll := range []bool{true, false} {
				ba := bitArray(bits, setAll)
				if !setAll && bits > 0 {
					ba.SetIndex(bits-1, true) // only the last bit
				}
				var sds []signing.SignatureData
				for k := 0; k < nsig; k++ {
					sds = append(sds, &signing.SingleSignatureData{SignMode: signing.SignMode_SIGN_MODE_DIRECT, Signature: make([]byte, 64)})
				}
				tb := w.txc.NewTxBuilder()
				_ = tb.SetMsgs(&banktypes.MsgSend{FromAddress: msAddr.String(), ToAddress: w.a.AccAddress().String(), Amount: sdk.NewCoins(sdk.NewCoin(fxtypes.DefaultDenom, sdkmath.NewInt(1)))})
				tb.SetGasLimit(500000)
				tb.SetFeeAmount(fee)
				if err := tb.SetSignatures(signing.SignatureV2{PubKey: mpk, Data: &signing.MultiSignatureData{BitArray: ba, Signatures: sds}, Sequence: 0}); err != nil {
					e.out.Count("anteraw-multisig-not-encodable")
					continue
				}
				bz, err := w.txc.TxEncoder()(tb.GetTx())
				if err != nil {
					e.out.Count("anteraw-multisig-not-encodable")
					continue
				}
				msBases = append(msBases, msBase{fmt.Sprintf("multisig account (2 keys): bit array of %d bits (all set=%v), %d signatures", bits, setAll, nsig), bz})
			}
		}
	}
	e.out.Stats.Extra["anteraw_multisig_transactions"] = len(msBases)
	e.out.Stats.Extra["anteraw_base_transactions"] = len(bases)
	e.out.Stats.Extra["anteraw_enumerated_mutations"] = len(muts)
	type variant struct {
		class string
		bz    []byte
	}
	var vs, admittedEarly []variant
	for _, b := range bases {
		bz, err := w.build(b)
		if err != nil {
			e.out.Count("anteraw-build-err")
			e.out.Stats.Extra["anteraw-build-err "+b.name] = err.Error()
			continue
		}
		vs = append(vs, variant{b.name + "; unchanged", bz})
		// the unchanged transaction goes to CheckTx right away so that the next base is built on the sequence it leaves
		if resp, err := s.App.CheckTx(&abci.RequestCheckTx{Tx: bz, Type: abci.CheckTxType_New}); err == nil && resp.Code == 0 {
			for _, sg := range b.signers {
				w.used[sg.AccAddress().String()]++
			}
			admittedEarly = append(admittedEarly, variant{b.name + "; unchanged", bz})
		}
		// every structural change on the one-signer and two-signer transactions, a seeded sample on the others
		for mi, m := range muts {
			if !(b.name == "one signer" || b.name == "two signers" || b.name == "amino-json sign mode") && (mi+len(b.name))%7 != int(uint64(hx.Seed())%7) {
				continue
			}
			if out, ok := mutateTx(bz, []rawMut{m}); ok {
				vs = append(vs, variant{b.name + "; " + m.label, out})
			} else {
				e.out.Count("anteraw-mutation-not-encodable")
			}
		}
		// seeded pairs
		for k := 0; k < hx.N(40, 600); k++ {
			m1, m2 := muts[e.rng.Intn(len(muts))], muts[e.rng.Intn(len(muts))]
			if out, ok := mutateTx(bz, []rawMut{m1, m2}); ok {
				vs = append(vs, variant{b.name + "; " + m1.label + "; " + m2.label, out})
			}
		}
	}
	for _, mb := range msBases {
		vs = append(vs, variant{mb.name, mb.bz})
	}
	report := func(stage, class string, bz []byte, code uint32, codespace, logText string) {
		e.out.Stats.Evaluations++
		key := "ok"
		if code != 0 {
			key = fmt.Sprintf("%s/%d", codespace, code)
		}
		e.out.Count("anteraw-" + stage + "-" + key)
		cls := class
		if i := strings.Index(cls, "; "); i >= 0 {
			cls = cls[i+2:]
		}
		e.out.Nontrivial("anteraw " + stage + " " + key + " " + cls)
		if panicResponse(code, codespace, logText) {
			l := logText
			if len(l) > 200 {
				l = l[:200]
			}
			l = strings.ReplaceAll(l, "\n", " ")
			owner, frames := w.fxCoreAntePanic(bz, stage)
			// GENERAL RULE (spec/C20.json): a recovered panic of the real CheckTx / DeliverTx is a violation when one of
			// fx-core's own ante components panics on the same transaction in isolation (that stack is the evidence).
			// Otherwise the panic was raised by a decorator / transaction accessor of the SDK, ethermint or ibc-go before, or
			// independently of, any fx-core code (every SDK 0.50 chain answers these transactions with ErrPanic): recorded
			// as a dependency panic with its message, not a violation of fx-core.
			if owner != "" {
				desc := fmt.Sprintf("%s answered a hostile transaction with a recovered panic (codespace %s code %d); fx-core ante code panics on it: %s; input class [%s]", stage, codespace, code, owner, class)
				e.violate("anteraw "+owner, desc, []string{"# " + desc, "# frames: " + frames, "tx " + hex.EncodeToString(bz)})
			} else {
				e.out.Count("anteraw-dependency-panic")
				e.dep["ante (no fx-core ante component panics on the tx in isolation): "+l]++
			}
		}
	}
	passed := append([]variant{}, admittedEarly...)
	for _, v := range vs {
		for _, typ := range []abci.CheckTxType{abci.CheckTxType_New, abci.CheckTxType_Recheck} {
			var resp *abci.ResponseCheckTx
			res := hx.Try(func() error {
				var err error
				resp, err = s.App.CheckTx(&abci.RequestCheckTx{Tx: v.bz, Type: typ})
				return err
			})
			stage := "CheckTx"
			if typ == abci.CheckTxType_Recheck {
				stage = "ReCheckTx"
			}
			if isPanic(res) {
				desc := fmt.Sprintf("%s panicked on input class [%s]: %s", stage, v.class, res)
				e.violate("anteraw-escaped "+stage, desc, []string{"# " + desc, "tx " + hex.EncodeToString(v.bz)})
				continue
			}
			if resp != nil {
				report(stage, v.class, v.bz, resp.Code, resp.Codespace, resp.Log)
				if resp.Code == 0 && typ == abci.CheckTxType_New {
					passed = append(passed, v)
				}
			}
		}
	}
	// delivery of everything CheckTx admitted, in real blocks of 50 transactions
	e.out.Stats.Extra["anteraw_admitted_by_checktx"] = len(passed)
	vs = passed
	height := s.Ctx.BlockHeight()
	for i := 0; i < len(vs); i += 50 {
		j := min(i+50, len(vs))
		var txs [][]byte
		for _, v := range vs[i:j] {
			txs = append(txs, v.bz)
		}
		var fres *abci.ResponseFinalizeBlock
		res := hx.Try(func() error {
			var err error
			fres, err = s.App.FinalizeBlock(&abci.RequestFinalizeBlock{Height: height, Time: tmtime.Now(), ProposerAddress: s.Ctx.BlockHeader().ProposerAddress, Txs: txs})
			return err
		})
		if isPanic(res) || res != "ok" {
			desc := fmt.Sprintf("FinalizeBlock failed on a block of hostile transactions (input classes %q …): %s", vs[i].class, res)
			var rp []string
			for _, tx := range txs {
				rp = append(rp, "tx "+hex.EncodeToString(tx))
			}
			e.violate("anteraw-finalize", desc, append([]string{"# " + desc}, rp...))
			break
		}
		for k, r := range fres.TxResults {
			report("DeliverTx", vs[i+k].class, vs[i+k].bz, r.Code, r.Codespace, r.Log)
		}
		if _, err := s.App.Commit(); err != nil {
			e.out.Violate("harness: Commit after hostile block: " + err.Error())
			break
		}
		height++
		if _, err := s.App.ProcessProposal(&abci.RequestProcessProposal{Height: height, Time: tmtime.Now(), ProposerAddress: s.Ctx.BlockHeader().ProposerAddress}); err != nil {
			e.out.Violate("harness: ProcessProposal: " + err.Error())
			break
		}
	}
	_ = authtx.DefaultSignModes
}
