package c20

// C20 harness, part 12: the remaining ways hostile bytes reach a node.
//
//  (a) every registered Msg type URL (fx-core, Cosmos SDK, IBC, ethermint) as the BODY of a transaction — zero value, random
//      bytes, fields 1..8 as maximal varints, 200-fold nested length-delimited fields, the valid fx-core templates — directly and
//      wrapped in authz.MsgExec (1, 5 and 40 levels deep), gov v1 MsgSubmitProposal and, for every registered legacy proposal
//      content, gov v1beta1 MsgSubmitProposal; through the real `CheckTx`, `PrepareProposal`, `ProcessProposal`,
//      `FinalizeBlock` (a proposer can put any bytes into a block) and the `/app/simulate` query (which runs the messages'
//      handlers);
//  (b) `Query` with hostile paths: every gRPC query method of the fx-core modules with empty, random and structurally valid but
//      semantically hostile requests (generated from the method's input descriptor: junk / huge / non-bech32 strings, unknown
//      chains, 0 / 1 / 2^64-1 integers, pagination extremes), store and p2p paths, junk paths, negative and huge heights;
//  (c) ICS-20 packets with hostile data (receiver, amount, denom, memo JSON of every shape) through the real transfer stack
//      (`IBCKeeper.Router` route `transfer`: the fx middleware over the transfer module): OnRecvPacket / OnAcknowledgementPacket /
//      OnTimeoutPacket.
// Monitors: a panic that escapes an ABCI call; a response `codespace undefined / code 111222` (recovered panic) or a panic in a
// directly called handler whose faulting frame is in fx-core.  Panics raised inside dependency code on dependency message types
// are counted (`dependency_type_panics`), as in parts 1 and 9.

import (
	"context"
	"encoding/hex"
	"encoding/json"
	"fmt"
	"math/rand"
	"reflect"
	"runtime/debug"
	"sort"
	"strings"
	"testing"

	sdkmath "cosmossdk.io/math"
	abci "github.com/cometbft/cometbft/abci/types"
	tmtime "github.com/cometbft/cometbft/types/time"
	codectypes "github.com/cosmos/cosmos-sdk/codec/types"
	sdk "github.com/cosmos/cosmos-sdk/types"
	txtypes "github.com/cosmos/cosmos-sdk/types/tx"
	authtypes "github.com/cosmos/cosmos-sdk/x/auth/types"
	"github.com/cosmos/cosmos-sdk/x/authz"
	banktypes "github.com/cosmos/cosmos-sdk/x/bank/types"
	govtypes "github.com/cosmos/cosmos-sdk/x/gov/types"
	govv1 "github.com/cosmos/cosmos-sdk/x/gov/types/v1"
	govv1beta1 "github.com/cosmos/cosmos-sdk/x/gov/types/v1beta1"
	"github.com/cosmos/gogoproto/proto"
	transfertypes "github.com/cosmos/ibc-go/v8/modules/apps/transfer/types"
	clienttypes "github.com/cosmos/ibc-go/v8/modules/core/02-client/types"
	channeltypes "github.com/cosmos/ibc-go/v8/modules/core/04-channel/types"
	"google.golang.org/protobuf/encoding/protowire"
	protov2 "google.golang.org/protobuf/proto"
	"google.golang.org/protobuf/reflect/protoreflect"
	"google.golang.org/protobuf/types/dynamicpb"

	"github.com/functionx/fx-core/v8/testutil/helpers"
	fxtypes "github.com/functionx/fx-core/v8/types"

	"fxverif/harness/hx"
)

// tryBlame runs f under recover and, on a panic, names the frame that is to blame: walking outwards from the panic, frames of
// value-level helper packages that panic BY CONTRACT on a bad argument (the Go runtime, the standard library, cosmossdk.io/math,
// cosmossdk.io/errors, the package github.com/cosmos/cosmos-sdk/types itself: sdk.NewCoin, sdk.MustAccAddressFromBech32, …)
// are skipped; the first remaining frame is the code that handed the bad argument over.  fx-core there = fx-core's panic.
func tryBlame(f func() error) (res, blame, frames string) {
	defer func() {
		if r := recover(); r != nil {
			msg := fmt.Sprint(r)
			if i := strings.IndexByte(msg, '\n'); i >= 0 {
				msg = msg[:i]
			}
			st := string(debug.Stack())
			frames = panicFrames(st)
			seen := false
			for _, l := range strings.Split(st, "\n") {
				if strings.HasPrefix(l, "\t") || l == "" {
					continue
				}
				if strings.HasPrefix(l, "panic(") {
					seen = true
					continue
				}
				if !seen {
					continue
				}
				if i := strings.LastIndexByte(l, '('); i > 0 {
					l = l[:i]
				}
				first := l
				if i := strings.IndexByte(first, '/'); i >= 0 {
					first = first[:i]
				}
				helper := !strings.Contains(first, ".") || strings.HasPrefix(l, "runtime.") || // runtime / standard library
					strings.HasPrefix(l, "cosmossdk.io/math.") || strings.HasPrefix(l, "cosmossdk.io/math/") || strings.HasPrefix(l, "cosmossdk.io/errors.") ||
					strings.HasPrefix(l, "github.com/cosmos/cosmos-sdk/types.")
				if strings.HasPrefix(l, "github.com/functionx/fx-core/") || !helper {
					blame = l
					break
				}
			}
			res = "panic:" + msg
		}
	}()
	if err := f(); err != nil {
		return "err:" + err.Error(), "", ""
	}
	return "ok", "", ""
}

type abciVariant struct {
	class string
	bz    []byte
}

// hostileAnyPayloads: wire payloads for a message of unknown shape
func hostileAnyPayloads(rng *rand.Rand) []struct {
	name string
	v    []byte
} {
	var maxVar []byte
	for n := 1; n <= 8; n++ {
		maxVar = append(maxVar, encVarint(protowire.Number(n), 1<<64-1)...)
	}
	nested := []byte("x")
	for i := 0; i < 200; i++ {
		nested = encBytes(1, nested)
	}
	nested2 := []byte{}
	for i := 0; i < 60; i++ {
		nested2 = encBytes(protowire.Number(1+i%4), nested2)
	}
	rb := make([]byte, 48)
	rng.Read(rb)
	return []struct {
		name string
		v    []byte
	}{
		{"zero value", nil},
		{"random bytes", rb},
		{"fields 1..8 = varint 2^64-1", maxVar},
		{"field 1 nested 200 deep", nested},
		{"fields 1..4 nested 60 deep (empty core)", nested2},
		{"truncated length prefix", []byte{0x0a, 0xff, 0xff, 0xff, 0xff, 0x0f}},
		{"group wire type", []byte{0x0b, 0x0c}},
	}
}

// unpackMsgs lists the messages of a decoded tx including those nested in MsgExec / MsgSubmitProposal (cached values)
func unpackMsgs(msgs []sdk.Msg, depth int, out *[]proto.Message) {
	if depth > 50 {
		return
	}
	for _, m := range msgs {
		*out = append(*out, m)
		switch v := m.(type) {
		case *authz.MsgExec:
			if inner, err := v.GetMessages(); err == nil {
				unpackMsgs(inner, depth+1, out)
			}
		case *govv1.MsgSubmitProposal:
			if inner, err := v.GetMsgs(); err == nil {
				unpackMsgs(inner, depth+1, out)
			}
		case *govv1beta1.MsgSubmitProposal:
			if c := v.GetContent(); c != nil {
				if pm, ok := c.(proto.Message); ok {
					*out = append(*out, pm)
				}
			}
		}
	}
}

// fxMsgPanic: does stateless validation / signer extraction / (simulate only) the handler of an fx-core message of this tx panic
// with the faulting frame inside fx-core?
func (w *rawWorld) fxMsgPanic(bz []byte, withHandlers bool) (string, string) {
	var tx sdk.Tx
	if r := hx.Try(func() error {
		var err error
		tx, err = w.txc.TxDecoder()(bz)
		return err
	}); r != "ok" {
		return "", ""
	}
	var all []proto.Message
	var top []sdk.Msg
	if r := hx.Try(func() error { top = tx.GetMsgs(); return nil }); r != "ok" {
		return "", ""
	}
	unpackMsgs(top, 0, &all)
	for _, m := range all {
		if !w.e.isFx(m) {
			continue
		}
		name := "/" + proto.MessageName(m)
		if vb, ok := m.(sdk.HasValidateBasic); ok {
			lastStack, lastFaultFrame = "", ""
			if r := tryStack(func() error { return vb.ValidateBasic() }); isPanic(r) && strings.HasPrefix(lastFaultFrame, "github.com/functionx/fx-core/") {
				return "ValidateBasic of " + name + " (" + lastFaultFrame + "): " + r, lastStack
			}
		}
		lastStack, lastFaultFrame = "", ""
		if r := tryStack(func() error { _, _, err := w.s.App.AppCodec().GetMsgV1Signers(m); return err }); isPanic(r) && strings.HasPrefix(lastFaultFrame, "github.com/functionx/fx-core/") {
			return "GetSigners of " + name + " (" + lastFaultFrame + "): " + r, lastStack
		}
	}
	if withHandlers {
		for _, m := range top {
			if !w.e.isFx(m) {
				continue
			}
			if f := reflect.ValueOf(m).Elem().FieldByName("Authority"); f.IsValid() {
				continue // exclusion rule 1 (spec/C20.json): only the governance authority can deliver it
			}
			h := w.s.App.MsgServiceRouter().Handler(m)
			if h == nil {
				continue
			}
			ctx, _ := w.s.App.GetContextForFinalizeBlock(nil).CacheContext()
			lastStack, lastFaultFrame = "", ""
			if r := tryStack(func() error { _, err := h(ctx, m); return err }); isPanic(r) && strings.HasPrefix(lastFaultFrame, "github.com/functionx/fx-core/") {
				return "handler of /" + proto.MessageName(m) + " (" + lastFaultFrame + "): " + r, lastStack
			}
		}
	}
	return "", ""
}

func (e *env) abciSweep(t *testing.T) {
	s := hx.NewSuite(t, 1)
	w := &rawWorld{e: e, s: s, txc: s.App.GetTxConfig(), used: map[string]uint64{}}
	w.a, w.b = s.AddTestSigner(1000), s.AddTestSigner(1000)
	s.Commit()
	fee := sdk.NewCoins(sdk.NewCoin(fxtypes.DefaultDenom, sdkmath.NewInt(4e12).MulRaw(500000)))
	base, err := w.build(rawOpts{name: "base", msgs: []sdk.Msg{&banktypes.MsgSend{FromAddress: w.a.AccAddress().String(), ToAddress: w.b.AccAddress().String(),
		Amount: sdk.NewCoins(sdk.NewCoin(fxtypes.DefaultDenom, sdkmath.NewInt(1)))}}, gas: 500000, fee: fee, signers: []*helpers.Signer{w.a}})
	if err != nil {
		e.out.Violate("harness: abci base transaction does not build: " + err.Error())
		return
	}
	withMsgs := func(class string, anys ...*codectypes.Any) (abciVariant, bool) {
		out, ok := mutateTx(base, []rawMut{{label: class, apply: func(_ *txtypes.TxRaw, _ *txtypes.AuthInfo, body *txtypes.TxBody) func([]byte) []byte {
			body.Messages = anys
			return nil
		}}})
		return abciVariant{class, out}, ok
	}
	grantee := w.a.AccAddress().String()
	wrapExec := func(a *codectypes.Any, levels int) *codectypes.Any {
		for i := 0; i < levels; i++ {
			bz, _ := proto.Marshal(&authz.MsgExec{Grantee: grantee, Msgs: []*codectypes.Any{a}})
			a = &codectypes.Any{TypeUrl: "/cosmos.authz.v1beta1.MsgExec", Value: bz}
		}
		return a
	}
	wrapGov := func(a *codectypes.Any) *codectypes.Any {
		bz, _ := proto.Marshal(&govv1.MsgSubmitProposal{Messages: []*codectypes.Any{a}, Proposer: grantee, Title: "t", Summary: "s",
			InitialDeposit: sdk.NewCoins(sdk.NewCoin(fxtypes.DefaultDenom, sdkmath.NewInt(1)))})
		return &codectypes.Any{TypeUrl: "/cosmos.gov.v1.MsgSubmitProposal", Value: bz}
	}
	reg := s.App.InterfaceRegistry()
	urls := reg.ListImplementations(sdk.MsgInterfaceProtoName)
	sort.Strings(urls)
	var vs []abciVariant
	add := func(class string, anys ...*codectypes.Any) {
		if v, ok := withMsgs(class, anys...); ok {
			vs = append(vs, v)
		} else {
			e.out.Count("abci-variant-not-encodable")
		}
	}
	pls := hostileAnyPayloads(e.rng)
	nPer := hx.N(3, len(pls))
	for ui, u := range urls {
		short := u
		e.out.Count("abci-msg-type")
		for k := 0; k < nPer; k++ {
			pl := pls[(ui+k*3+int(uint64(hx.Seed())%7))%len(pls)]
			if k == 0 {
				pl = pls[0]
			}
			a := &codectypes.Any{TypeUrl: u, Value: pl.v}
			add(short+" <- "+pl.name, a)
			switch (ui + k) % 4 {
			case 0:
				add(short+" <- "+pl.name+" in MsgExec", wrapExec(a, 1))
			case 1:
				add(short+" <- "+pl.name+" in MsgExec x5", wrapExec(a, 5))
			case 2:
				add(short+" <- "+pl.name+" in gov v1 MsgSubmitProposal", wrapGov(a))
			case 3:
				add(short+" <- "+pl.name+" in MsgExec in MsgSubmitProposal", wrapGov(wrapExec(a, 1)))
			}
		}
	}
	// the valid fx-core templates, plain and nested (these pass decoding, so ValidateBasic / GetSigners run inside the ante chain)
	for _, m := range e.templates() {
		a, err := codectypes.NewAnyWithValue(m)
		if err != nil {
			continue
		}
		u := sdk.MsgTypeURL(m)
		add(u+" <- valid template", a)
		add(u+" <- valid template in MsgExec", wrapExec(a, 1))
		add(u+" <- valid template in gov v1 MsgSubmitProposal", wrapGov(a))
		if e.rng.Intn(4) == 0 {
			add(u+" <- valid template in MsgExec x40", wrapExec(a, 40))
		}
		// the template's wire bytes with one field dropped, nested
		wire, _ := proto.Marshal(m)
		if fs, ok := parseWire(wire); ok && len(fs) > 0 {
			i := e.rng.Intn(len(fs))
			add(fmt.Sprintf("%s <- template without field %d in MsgExec", u, fs[i].num), wrapExec(&codectypes.Any{TypeUrl: u, Value: join(fs, i, nil)}, 1))
		}
	}
	// legacy proposal contents
	contents := reg.ListImplementations("cosmos.gov.v1beta1.Content")
	sort.Strings(contents)
	for ci, cu := range contents {
		for k := 0; k < 2; k++ {
			pl := pls[(ci+k*2)%len(pls)]
			bz, _ := proto.Marshal(&govv1beta1.MsgSubmitProposal{Content: &codectypes.Any{TypeUrl: cu, Value: pl.v}, Proposer: grantee,
				InitialDeposit: sdk.NewCoins(sdk.NewCoin(fxtypes.DefaultDenom, sdkmath.NewInt(1)))})
			add("legacy content "+cu+" <- "+pl.name, &codectypes.Any{TypeUrl: "/cosmos.gov.v1beta1.MsgSubmitProposal", Value: bz})
			lc, _ := proto.Marshal(&govv1.MsgExecLegacyContent{Content: &codectypes.Any{TypeUrl: cu, Value: pl.v}, Authority: authtypes.NewModuleAddress(govtypes.ModuleName).String()})
			add("MsgExecLegacyContent "+cu+" <- "+pl.name, wrapGov(&codectypes.Any{TypeUrl: "/cosmos.gov.v1.MsgExecLegacyContent", Value: lc}))
		}
	}
	add("no messages")
	add("unknown type url", &codectypes.Any{TypeUrl: "/nope.Msg", Value: []byte{1}})
	add("empty type url", &codectypes.Any{})
	vs = append(vs, abciVariant{"empty transaction", nil}, abciVariant{"random transaction bytes", func() []byte { b := make([]byte, 200); e.rng.Read(b); return b }()},
		abciVariant{"1 MiB of zeros", make([]byte, 1<<20)})
	e.out.Stats.Extra["abci_variants"] = len(vs)

	report := func(stage, class string, bz []byte, code uint32, codespace, logText string, withHandlers bool) {
		e.out.Stats.Evaluations++
		key := "ok"
		if code != 0 {
			key = fmt.Sprintf("%s/%d", codespace, code)
		}
		e.out.Count("abci-" + stage + "-" + key)
		cls := class
		if i := strings.Index(cls, " <- "); i >= 0 {
			cls = cls[i+4:]
		}
		e.out.Nontrivial("abci " + stage + " " + key + " " + cls)
		if !panicResponse(code, codespace, logText) {
			return
		}
		owner, frames := w.fxCoreAntePanic(bz, stage)
		if owner == "" {
			owner, frames = w.fxMsgPanic(bz, withHandlers)
		}
		if owner != "" {
			desc := fmt.Sprintf("%s answered a hostile transaction with a recovered panic (codespace %s code %d); fx-core code panics on it: %s; input class [%s]", stage, codespace, code, owner, class)
			e.violate("abci "+owner, desc, []string{"# " + desc, "# frames: " + frames, "tx " + hex.EncodeToString(bz)})
			return
		}
		l := strings.ReplaceAll(logText, "\n", " ")
		if len(l) > 160 {
			l = l[:160]
		}
		e.out.Count("abci-dependency-panic")
		e.dep["abci "+stage+" (no fx-core component panics on the tx in isolation): "+l]++
	}

	// CheckTx and simulate
	for _, v := range vs {
		var resp *abci.ResponseCheckTx
		res := hx.Try(func() error {
			var err error
			resp, err = s.App.CheckTx(&abci.RequestCheckTx{Tx: v.bz, Type: abci.CheckTxType_New})
			return err
		})
		if isPanic(res) {
			desc := fmt.Sprintf("CheckTx panicked on input class [%s]: %s", v.class, res)
			e.violate("abci-escaped CheckTx", desc, []string{"# " + desc, "tx " + hex.EncodeToString(v.bz)})
		} else if resp != nil {
			report("CheckTx", v.class, v.bz, resp.Code, resp.Codespace, resp.Log, false)
		}
		if len(v.bz) > 1<<16 {
			continue
		}
		var q *abci.ResponseQuery
		res = hx.Try(func() error {
			var err error
			q, err = s.App.Query(context.Background(), &abci.RequestQuery{Path: "/app/simulate", Data: v.bz})
			return err
		})
		if isPanic(res) {
			desc := fmt.Sprintf("Query /app/simulate panicked on input class [%s]: %s", v.class, res)
			e.violate("abci-escaped simulate", desc, []string{"# " + desc, "tx " + hex.EncodeToString(v.bz)})
		} else if q != nil {
			report("Simulate", v.class, v.bz, q.Code, q.Codespace, q.Log, true)
		}
	}
	// PrepareProposal / ProcessProposal / FinalizeBlock with blocks of hostile transactions
	height := s.App.LastBlockHeight() + 1
	proposer := s.Ctx.BlockHeader().ProposerAddress
	for i := 0; i < len(vs); i += 60 {
		j := min(i+60, len(vs))
		var txs [][]byte
		for _, v := range vs[i:j] {
			txs = append(txs, v.bz)
		}
		replay := func() []string {
			var rp []string
			for _, tx := range txs {
				if len(tx) <= 1<<16 {
					rp = append(rp, "tx "+hex.EncodeToString(tx))
				}
			}
			return rp
		}
		for _, maxB := range []int64{-1, 0, 1, 1 << 20, 1<<63 - 1} {
			var pr *abci.ResponsePrepareProposal
			res := hx.Try(func() error {
				var err error
				pr, err = s.App.PrepareProposal(&abci.RequestPrepareProposal{MaxTxBytes: maxB, Txs: txs, Height: height, Time: tmtime.Now(), ProposerAddress: proposer})
				return err
			})
			e.out.Stats.Evaluations++
			e.out.Count("abci-PrepareProposal-" + strings.SplitN(res, ":", 2)[0])
			if isPanic(res) {
				desc := fmt.Sprintf("PrepareProposal (MaxTxBytes %d) panicked on a list of hostile transactions (first class [%s]): %s", maxB, vs[i].class, res)
				e.violate("abci-escaped PrepareProposal", desc, append([]string{"# " + desc}, replay()...))
			} else if pr != nil {
				e.out.Nontrivial(fmt.Sprintf("abci PrepareProposal max=%d kept %d of %d", maxB, len(pr.Txs), len(txs)))
			}
		}
		var pp *abci.ResponseProcessProposal
		res := hx.Try(func() error {
			var err error
			pp, err = s.App.ProcessProposal(&abci.RequestProcessProposal{Txs: txs, Height: height, Time: tmtime.Now(), ProposerAddress: proposer})
			return err
		})
		e.out.Stats.Evaluations++
		if isPanic(res) {
			desc := fmt.Sprintf("ProcessProposal panicked on a block of hostile transactions (first class [%s]): %s", vs[i].class, res)
			e.violate("abci-escaped ProcessProposal", desc, append([]string{"# " + desc}, replay()...))
		} else if pp != nil {
			e.out.Count("abci-ProcessProposal-" + pp.Status.String())
		}
		var fres *abci.ResponseFinalizeBlock
		res = hx.Try(func() error {
			var err error
			fres, err = s.App.FinalizeBlock(&abci.RequestFinalizeBlock{Height: height, Time: tmtime.Now(), ProposerAddress: proposer, Txs: txs})
			return err
		})
		if isPanic(res) || res != "ok" {
			desc := fmt.Sprintf("FinalizeBlock failed on a block of hostile transactions (first class [%s]): %s", vs[i].class, res)
			e.violate("abci-finalize", desc, append([]string{"# " + desc}, replay()...))
			break
		}
		for k, r := range fres.TxResults {
			report("DeliverTx", vs[i+k].class, vs[i+k].bz, r.Code, r.Codespace, r.Log, false)
		}
		if _, err := s.App.Commit(); err != nil {
			e.out.Violate("harness: Commit after a block of hostile transactions: " + err.Error())
			break
		}
		height++
		// as helpers.BaseSuite.Commit does: open the next block so that GetContextForFinalizeBlock works
		if _, err := s.App.ProcessProposal(&abci.RequestProcessProposal{Height: height, Time: tmtime.Now(), ProposerAddress: proposer}); err != nil {
			e.out.Violate("harness: ProcessProposal of the next (empty) block: " + err.Error())
			break
		}
	}
	s.Ctx = s.App.GetContextForFinalizeBlock(nil)
	e.querySweep(s, w)
	e.queryTransport(s, w)
	e.ibcPacketSweep(s, w)
}

// ---------------------------------------------------------------------------------------------------------------
// (b) Query

var hostileStrs = []string{"", "eth", "tron", "bsc", "nope", "erc20", "FX", "0", "-1", "0x", "0x0000000000000000000000000000000000000000",
	"fx1", "fx1qqqqqqqqqqqqqqqqqqqqqqqqqqqqqqqqqqqqqq", "cosmos1qqqqqqqqqqqqqqqqqqqqqqqqqqqqqqqqnrql8a", "ÿ", "a/b/c", "ibc/", "channel-0", "transfer/channel-0",
	"px/transfer/channel-18446744073709551616", strings.Repeat("9", 300), strings.Repeat("a", 70000), " ", "\x00", "eth0x0000000000000000000000000000000000000000"}

func hostileDyn(md protoreflect.MessageDescriptor, rng *rand.Rand, addrs []string, depth int) *dynamicpb.Message {
	m := dynamicpb.NewMessage(md)
	fds := md.Fields()
	scalar := func(fd protoreflect.FieldDescriptor) (protoreflect.Value, bool) {
		switch fd.Kind() {
		case protoreflect.StringKind:
			// a request is routed by its chain name first: mostly a registered chain, so that the other fields are looked at
			if strings.Contains(string(fd.Name()), "chain") && rng.Intn(10) < 7 {
				return protoreflect.ValueOfString([]string{"eth", "tron", "bsc"}[rng.Intn(3)]), true
			}
			if rng.Intn(3) == 0 {
				return protoreflect.ValueOfString(addrs[rng.Intn(len(addrs))]), true
			}
			return protoreflect.ValueOfString(strings.ToValidUTF8(hostileStrs[rng.Intn(len(hostileStrs))], "?")), true
		case protoreflect.BytesKind:
			b := make([]byte, rng.Intn(40))
			rng.Read(b)
			return protoreflect.ValueOfBytes(b), true
		case protoreflect.Uint64Kind, protoreflect.Fixed64Kind:
			return protoreflect.ValueOfUint64([]uint64{0, 1, 2, 1 << 63, 1<<64 - 1, rng.Uint64()}[rng.Intn(6)]), true
		case protoreflect.Uint32Kind, protoreflect.Fixed32Kind:
			return protoreflect.ValueOfUint32([]uint32{0, 1, 1<<32 - 1}[rng.Intn(3)]), true
		case protoreflect.Int64Kind, protoreflect.Sint64Kind, protoreflect.Sfixed64Kind:
			return protoreflect.ValueOfInt64([]int64{0, 1, -1, 1<<63 - 1, -1 << 63}[rng.Intn(5)]), true
		case protoreflect.Int32Kind, protoreflect.Sint32Kind, protoreflect.Sfixed32Kind:
			return protoreflect.ValueOfInt32([]int32{0, 1, -1, 1<<31 - 1, -1 << 31}[rng.Intn(5)]), true
		case protoreflect.BoolKind:
			return protoreflect.ValueOfBool(rng.Intn(2) == 0), true
		case protoreflect.EnumKind:
			return protoreflect.ValueOfEnum(protoreflect.EnumNumber([]int32{0, 1, 2, 99, -1}[rng.Intn(5)])), true
		case protoreflect.MessageKind:
			if depth > 2 {
				return protoreflect.Value{}, false
			}
			return protoreflect.ValueOfMessage(hostileDyn(fd.Message(), rng, addrs, depth+1)), true
		}
		return protoreflect.Value{}, false
	}
	for i := 0; i < fds.Len(); i++ {
		fd := fds.Get(i)
		if rng.Intn(5) == 0 || fd.IsMap() {
			continue
		}
		if fd.IsList() {
			l := m.Mutable(fd).List()
			for k := rng.Intn(3); k > 0; k-- {
				if v, ok := scalar(fd); ok {
					l.Append(v)
				}
			}
			continue
		}
		if v, ok := scalar(fd); ok {
			m.Set(fd, v)
		}
	}
	return m
}

func (e *env) querySweep(s *hx.Suite, w *rawWorld) {
	type qm struct {
		path string
		in   protoreflect.MessageDescriptor
	}
	var methods []qm
	proto.HybridResolver.RangeFiles(func(fd protoreflect.FileDescriptor) bool {
		if !strings.HasPrefix(string(fd.Package()), "fx.") {
			return true
		}
		svcs := fd.Services()
		for i := 0; i < svcs.Len(); i++ {
			sv := svcs.Get(i)
			if sv.Name() != "Query" {
				continue
			}
			ms := sv.Methods()
			for k := 0; k < ms.Len(); k++ {
				methods = append(methods, qm{"/" + string(sv.FullName()) + "/" + string(ms.Get(k).Name()), ms.Get(k).Input()})
			}
		}
		return true
	})
	sort.Slice(methods, func(i, j int) bool { return methods[i].path < methods[j].path })
	e.out.Stats.Extra["fx_grpc_query_methods"] = len(methods)
	addrs := []string{w.a.AccAddress().String(), sdk.ValAddress(w.a.AccAddress()).String(), helpers.GenHexAddress().String(),
		authtypes.NewModuleAddress(govtypes.ModuleName).String(), helpers.GenExternalAddr("tron"), "eth", "tron", "bsc"}
	router := s.App.GRPCQueryRouter()
	ask := func(class, path string, data []byte, height int64, prove bool) {
		var q *abci.ResponseQuery
		res := hx.Try(func() error {
			var err error
			q, err = s.App.Query(context.Background(), &abci.RequestQuery{Path: path, Data: data, Height: height, Prove: prove})
			return err
		})
		e.out.Stats.Evaluations++
		replay := []string{fmt.Sprintf("query %s height=%d prove=%v data=%s", path, height, prove, hex.EncodeToString(data))}
		if isPanic(res) {
			desc := fmt.Sprintf("Query panicked on path %s, request class [%s]: %s", path, class, res)
			e.violate("query-escaped "+path, desc, append([]string{"# " + desc}, replay...))
			return
		}
		if q == nil {
			e.out.Count("query-error-return")
			return
		}
		key := "ok"
		if q.Code != 0 {
			key = fmt.Sprintf("%s/%d", q.Codespace, q.Code)
		}
		e.out.Count("query-" + key)
		e.out.Nontrivial("query " + path + " " + key)
		if !panicResponse(q.Code, q.Codespace, q.Log) {
			return
		}
		// attribute: call the registered handler directly, keeping the stack
		owner, frames := "", ""
		if h := router.Route(path); h != nil {
			if ctx, err := s.App.CreateQueryContext(0, false); err == nil {
				r, blame, fr := tryBlame(func() error { _, err := h(ctx, &abci.RequestQuery{Path: path, Data: data}); return err })
				if isPanic(r) && strings.HasPrefix(blame, "github.com/functionx/fx-core/") {
					owner, frames = blame+": "+r, fr
				}
			}
		}
		if owner != "" {
			desc := fmt.Sprintf("gRPC query %s answered a malformed request with a recovered panic (code %d); the handler panics in fx-core code: %s; request class [%s]", path, q.Code, owner, class)
			e.violate("query "+path, desc, append([]string{"# " + desc, "# frames: " + frames}, replay...))
			return
		}
		l := strings.ReplaceAll(q.Log, "\n", " ")
		if len(l) > 160 {
			l = l[:160]
		}
		e.out.Count("query-dependency-panic")
		e.dep["query "+path+": "+l]++
	}
	n := hx.N(12, 200)
	for _, m := range methods {
		if router.Route(m.path) == nil {
			e.out.Count("query-method-not-routed")
			continue
		}
		e.out.Count("query-method")
		ask("empty request", m.path, nil, 0, false)
		rb := make([]byte, 24)
		e.rng.Read(rb)
		ask("random bytes", m.path, rb, 0, false)
		ask("fields 1..8 = varint 2^64-1", m.path, hostileAnyPayloads(e.rng)[2].v, 0, false)
		for k := 0; k < n; k++ {
			dm := hostileDyn(m.in, e.rng, addrs, 0)
			bz, err := protov2.Marshal(dm)
			if err != nil {
				e.out.Count("query-request-not-encodable")
				continue
			}
			h := []int64{0, 0, 0, 1, s.App.LastBlockHeight(), s.App.LastBlockHeight() + 5, -1, 1<<63 - 1}[e.rng.Intn(8)]
			ask("structured hostile request", m.path, bz, h, e.rng.Intn(8) == 0)
		}
	}
	// non-gRPC paths
	var stores []string
	for name := range s.App.GetKVStoreKey() {
		stores = append(stores, name)
	}
	sort.Strings(stores)
	paths := []string{"", "/", "//", "/app", "/app/", "/app/version", "/app/simulate", "/app/nope", "/store", "/store/", "/store/nope/key", "/store//key",
		"/p2p", "/p2p/filter/addr/1.2.3.4:1", "/p2p/filter/id/abc", "/p2p/filter", "/custom/bank/balances", "/custom", "custom/gov/params", "/fx.gravity.crosschain.v1.Query/Nope",
		"/fx.gravity.crosschain.v1.Query/", "/fx.gravity.crosschain.v1.Query", "/cosmos.bank.v1beta1.Query/Balance/extra", strings.Repeat("/", 500), strings.Repeat("a", 70000)}
	for _, st := range stores {
		paths = append(paths, "/store/"+st+"/key", "/store/"+st+"/subspace", "/store/"+st+"/nope")
	}
	for _, p := range paths {
		for _, h := range []int64{0, 1, s.App.LastBlockHeight(), s.App.LastBlockHeight() + 1, -1, 1<<63 - 1} {
			rb := make([]byte, e.rng.Intn(40))
			e.rng.Read(rb)
			ask("hostile path", p, rb, h, h%2 == 0)
		}
	}
}

// ---------------------------------------------------------------------------------------------------------------
// (c) ICS-20 packets

func (e *env) ibcPacketSweep(s *hx.Suite, w *rawWorld) {
	mod, ok := s.App.IBCKeeper.Router.GetRoute(transfertypes.ModuleName)
	if !ok {
		e.out.Violate("harness: no transfer route in the IBC router")
		return
	}
	// a real transfer channel (local id from the app, counterparty channel-9) whose escrow holds FX, so that packets the transfer
	// module accepts reach the middleware's own code on both the "voucher" and the "coming home" path
	_, chID := s.GenIBCTransferChannel()
	const cpID = "channel-9"
	if c, found := s.App.IBCKeeper.ChannelKeeper.GetChannel(s.Ctx, "transfer", chID); found {
		c.Counterparty.ChannelId = cpID
		s.App.IBCKeeper.ChannelKeeper.SetChannel(s.Ctx, "transfer", chID, c)
	}
	escrowed := sdk.NewCoin(fxtypes.DefaultDenom, sdkmath.NewIntWithDecimal(1, 21))
	s.MintToken(transfertypes.GetEscrowAddress("transfer", chID), escrowed)
	s.App.IBCTransferKeeper.SetTotalEscrowForDenom(s.Ctx, escrowed)
	home := "transfer/" + cpID + "/"
	hexAddr := helpers.GenHexAddress().String()
	evmTyp := "/fx.ibc.middleware.v1.IbcCallEvmPacket"
	memoOf := func(m map[string]any) string { bz, _ := json.Marshal(m); return string(bz) }
	memos := []string{"", "{}", "null", "[]", "\"x\"", "{", strings.Repeat("{\"a\":", 2000), memoOf(map[string]any{"@type": evmTyp}),
		memoOf(map[string]any{"@type": evmTyp, "to": hexAddr, "data": "", "value": "0"}),
		memoOf(map[string]any{"@type": evmTyp, "to": hexAddr, "data": "abcd"}),
		memoOf(map[string]any{"@type": evmTyp, "to": hexAddr, "data": "abcd", "value": nil}),
		memoOf(map[string]any{"@type": evmTyp, "to": hexAddr, "data": "abcd", "value": ""}),
		memoOf(map[string]any{"@type": evmTyp, "to": hexAddr, "data": "abcd", "value": "-1"}),
		memoOf(map[string]any{"@type": evmTyp, "to": hexAddr, "data": "abcd", "value": strings.Repeat("9", 100)}),
		memoOf(map[string]any{"@type": evmTyp, "to": hexAddr, "data": "zz", "value": "0"}),
		memoOf(map[string]any{"@type": evmTyp, "to": hexAddr, "data": "abc", "value": "0"}),
		memoOf(map[string]any{"@type": evmTyp, "to": "", "data": "abcd", "value": "0"}),
		memoOf(map[string]any{"@type": evmTyp, "to": strings.ToLower(hexAddr), "data": "abcd", "value": "0"}),
		memoOf(map[string]any{"@type": evmTyp, "to": 5, "data": []int{1}, "value": map[string]any{}}),
		memoOf(map[string]any{"@type": "/cosmos.bank.v1beta1.MsgSend"}),
		memoOf(map[string]any{"@type": "/nope"}), memoOf(map[string]any{"@type": 7}),
		memoOf(map[string]any{"@type": evmTyp, "to": hexAddr, "data": "abcd", "value": "0", "extra": 1}),
		memoOf(map[string]any{"@type": evmTyp, "to": hexAddr, "data": strings.Repeat("ab", 40000), "value": "1"}),
		memoOf(map[string]any{"forward": map[string]any{"receiver": "x"}}),
	}
	receivers := []string{w.a.AccAddress().String(), hexAddr, strings.ToLower(hexAddr), "", "fx1", "0x", "cosmos1qqqqqqqqqqqqqqqqqqqqqqqqqqqqqqqqnrql8a", "ÿ", strings.Repeat("a", 5000),
		sdk.ValAddress(w.a.AccAddress()).String()}
	amounts := []string{"1", "0", "-1", "", "abc", "1e3", strings.Repeat("9", 78), strings.Repeat("9", 400), "115792089237316195423570985008687907853269984665640564039457584007913129639936", " 1", "0x10"}
	denoms := []string{fxtypes.DefaultDenom, home + fxtypes.DefaultDenom, home + "uatom", "uatom", "", home, "ibc/ABC", "a/b/c/d/e", "ÿ", home + "transfer/channel-1/x",
		strings.Repeat("d", 200)}
	senders := []string{"cosmos1qqqqqqqqqqqqqqqqqqqqqqqqqqqqqqqqnrql8a", w.b.AccAddress().String(), "", "junk"}
	type pk struct {
		class string
		data  []byte
	}
	var pks []pk
	mk := func(class, denom, amount, sender, receiver, memo string) {
		d := transfertypes.FungibleTokenPacketData{Denom: denom, Amount: amount, Sender: sender, Receiver: receiver, Memo: memo}
		bz, err := json.Marshal(map[string]string{"denom": d.Denom, "amount": d.Amount, "sender": d.Sender, "receiver": d.Receiver, "memo": d.Memo})
		if err == nil {
			pks = append(pks, pk{class, bz})
		}
	}
	// every memo with a packet that the transfer module accepts (so the middleware's own code runs), with both receiver forms
	for i, m := range memos {
		mk(fmt.Sprintf("memo class %d, bech32 receiver, native voucher", i), "uatom", "5", senders[0], receivers[0], m)
		mk(fmt.Sprintf("memo class %d, hex receiver, native voucher", i), "uatom", "5", senders[0], receivers[1], m)
		mk(fmt.Sprintf("memo class %d, hex receiver, FX coming home", i), home+fxtypes.DefaultDenom, "5", senders[0], receivers[1], m)
	}
	for _, r := range receivers {
		mk("receiver class ["+short([]byte(r))+"]", "uatom", "5", senders[0], r, "")
	}
	for _, a := range amounts {
		mk("amount class ["+short([]byte(a))+"]", "uatom", a, senders[0], receivers[1], memos[8])
	}
	for _, d := range denoms {
		mk("denom class ["+short([]byte(d))+"]", d, "5", senders[0], receivers[1], memos[8])
	}
	for k := 0; k < hx.N(150, 3000); k++ {
		mk("random combination", hx.Pick(e.rng, denoms), hx.Pick(e.rng, amounts), hx.Pick(e.rng, senders), hx.Pick(e.rng, receivers), hx.Pick(e.rng, memos))
	}
	for _, raw := range [][]byte{nil, []byte("{}"), []byte("null"), []byte("[1]"), []byte("{\"amount\":5}"), []byte("\xff\xfe"), []byte(strings.Repeat("[", 10000))} {
		pks = append(pks, pk{"raw packet data [" + short(raw) + "]", raw})
	}
	e.out.Stats.Extra["ibc_packets"] = len(pks)
	run := func(stage, class string, data []byte, f func(ctx sdk.Context, p channeltypes.Packet) string) {
		ctx, _ := s.Ctx.CacheContext()
		p := channeltypes.NewPacket(data, uint64(1+e.rng.Intn(1000)), "transfer", cpID, "transfer", chID, clienttypes.NewHeight(100, 100000), 0)
		if stage != "OnRecvPacket" {
			// acknowledgements and time-outs concern packets THIS chain sent
			p = channeltypes.NewPacket(data, uint64(1+e.rng.Intn(1000)), "transfer", chID, "transfer", cpID, clienttypes.NewHeight(100, 100000), 0)
		}
		var outcome string
		res, blame, frames := tryBlame(func() error { outcome = f(ctx, p); return nil })
		e.out.Stats.Evaluations++
		if isPanic(res) {
			if strings.HasPrefix(blame, "github.com/functionx/fx-core/") {
				desc := fmt.Sprintf("panic in %s of the transfer stack (fx middleware) on an ICS-20 packet of class [%s] (%s): %s", stage, class, blame, res)
				e.violate("ibc "+stage+" "+blame, desc, []string{"# " + desc, "# frames: " + frames, "packet " + stage + " " + hex.EncodeToString(data)})
			} else {
				e.out.Count("ibc-dependency-panic")
				e.dep["ibc "+stage+": "+res]++
			}
			return
		}
		e.out.Count("ibc-" + stage + "-" + outcome)
		cls := class
		if strings.HasPrefix(cls, "random") {
			cls = "random"
		}
		e.out.Nontrivial("ibc " + stage + " " + outcome + " " + cls)
	}
	errAck := channeltypes.NewErrorAcknowledgement(fmt.Errorf("x")).Acknowledgement()
	okAck := channeltypes.NewResultAcknowledgement([]byte{1}).Acknowledgement()
	for _, p := range pks {
		run("OnRecvPacket", p.class, p.data, func(ctx sdk.Context, pkt channeltypes.Packet) string {
			ack := mod.OnRecvPacket(ctx, pkt, nil)
			if ack == nil {
				return "nil-ack"
			}
			if ack.Success() {
				return "ack-ok"
			}
			var a channeltypes.Acknowledgement
			if json.Unmarshal(ack.Acknowledgement(), &a) == nil {
				// ibc-go redacts the text: "ABCI code: N: error handling packet: see events for details"
				if w := strings.Fields(a.GetError()); len(w) >= 3 && w[0] == "ABCI" {
					return "ack-error-code" + strings.TrimSuffix(w[2], ":")
				}
			}
			return "ack-error"
		})
		for _, ack := range [][]byte{errAck, okAck, []byte("{}"), nil} {
			run("OnAcknowledgementPacket", p.class, p.data, func(ctx sdk.Context, pkt channeltypes.Packet) string {
				if err := mod.OnAcknowledgementPacket(ctx, pkt, ack, nil); err != nil {
					return "err"
				}
				return "ok"
			})
		}
		run("OnTimeoutPacket", p.class, p.data, func(ctx sdk.Context, pkt channeltypes.Packet) string {
			if err := mod.OnTimeoutPacket(ctx, pkt, nil); err != nil {
				return "err"
			}
			return "ok"
		})
	}
}
