package c20

// C20 harness, part 10: the fee rule of a node CONFIGURED the way an operator configures it.
//
// Part 5 builds `ante.NewCheckTxFeees(types, allowance)` itself.  The property is about the node: "a transaction skips the
// node's minimum gas price only if every one of its messages is of a configured fee-exempt type and its gas limit is
// within the per-message allowance".  Between the configuration file and the checker sits app.go (`setAnteHandler`: reads
// `bypass-min-fee.msg-types` / `bypass-min-fee.msg-max-gas-usage` from the application options), so this stream boots the
// REAL `app.New(...)` once per configuration — exempt types ∈ {absent, empty, one type, two types}, allowance ∈ {absent, 0,
// 1, 200000, 2^64-1}, minimum gas price non-zero (`baseapp.SetMinGasPrices`) — on a seeded genesis, and sends signed
// transactions through the real `CheckTx`: every combination of (all messages exempt / one not exempt / none exempt) ×
// (1..3 messages) × gas ∈ {1, n·allowance-1, n·allowance, n·allowance+1, 150000, 10^7} × fee ∈ {none, one below the minimum,
// exactly the minimum}.  The verdict (admitted / refused for insufficient fee) is compared with the property's rule computed
// from the CONFIGURATION (specVerdict; an absent or zero allowance exempts nothing with a positive gas limit).
// A difference is a concrete violation; replay = the configuration and the transaction.

import (
	"encoding/hex"
	"fmt"
	"strings"
	"testing"
	"time"

	"cosmossdk.io/log"
	sdkmath "cosmossdk.io/math"
	abci "github.com/cometbft/cometbft/abci/types"
	tmproto "github.com/cometbft/cometbft/proto/tendermint/types"
	dbm "github.com/cosmos/cosmos-db"
	"github.com/cosmos/cosmos-sdk/baseapp"
	"github.com/cosmos/cosmos-sdk/client/flags"
	sdk "github.com/cosmos/cosmos-sdk/types"
	banktypes "github.com/cosmos/cosmos-sdk/x/bank/types"
	distrtypes "github.com/cosmos/cosmos-sdk/x/distribution/types"
	"github.com/spf13/viper"

	fxapp "github.com/functionx/fx-core/v8/app"
	fxcfg "github.com/functionx/fx-core/v8/server/config"
	fxtypes "github.com/functionx/fx-core/v8/types"

	"fxverif/harness/detx"
	"fxverif/harness/hx"
)

type nodeCfg struct {
	types    any // nil = key absent, else []string
	maxGas   any // nil = key absent, else uint64
	typeList []string
	maxB     uint64
}

func (c nodeCfg) String() string {
	t, m := "absent", "absent"
	if c.types != nil {
		t = "[" + strings.Join(c.typeList, ",") + "]"
	}
	if c.maxGas != nil {
		m = fmt.Sprint(c.maxB)
	}
	return fmt.Sprintf("bypass-min-fee.msg-types=%s bypass-min-fee.msg-max-gas-usage=%s", t, m)
}

func (e *env) nodeConfigSweep(t *testing.T) {
	seed := hx.Seed()
	const chainID = "fxcore"
	user := detx.CosmosKey(seed, "c20-fee-user")
	other := detx.CosmosKey(seed, "c20-fee-other")
	val := detx.ValSpec{Oper: detx.CosmosKey(seed, "c20-val"), Cons: detx.ConsKey(seed, "c20-val"), Power: 100}
	funds := sdk.NewCoins(sdk.NewCoin(fxtypes.DefaultDenom, sdkmath.NewIntWithDecimal(1, 30)))
	gd := detx.BuildGenesis(detx.GenesisSpec{ChainID: chainID, TimeUnix: 1_700_000_000, Vals: []detx.ValSpec{val},
		Accounts: []detx.AccSpec{{Addr: user.Acc(), Coins: funds}, {Addr: other.Acc(), Coins: funds}}})
	sendURL := sdk.MsgTypeURL(&banktypes.MsgSend{})
	wdURL := sdk.MsgTypeURL(&distrtypes.MsgSetWithdrawAddress{})
	// minimum gas price: 4000 gwei-ish per gas unit of FX (a Dec with a fractional part so that ⌈price·gas⌉ matters)
	minPrice := sdkmath.LegacyMustNewDecFromStr("2.5")
	minGas := sdk.DecCoins{sdk.NewDecCoinFromDec(fxtypes.DefaultDenom, minPrice)}
	var cfgs []nodeCfg
	for _, ty := range []struct {
		v    any
		list []string
	}{{nil, nil}, {[]string{}, nil}, {[]string{sendURL}, []string{sendURL}}, {[]string{sendURL, wdURL}, []string{sendURL, wdURL}}} {
		for _, mg := range []struct {
			v any
			n uint64
		}{{nil, 0}, {uint64(0), 0}, {uint64(1), 1}, {uint64(200000), 200000}, {fxcfg.DefaultBypassMinFee().MsgMaxGasUsage, fxcfg.DefaultBypassMinFee().MsgMaxGasUsage}, {uint64(1<<64 - 1), 1<<64 - 1}} {
			cfgs = append(cfgs, nodeCfg{types: ty.v, maxGas: mg.v, typeList: ty.list, maxB: mg.n})
		}
	}
	e.out.Stats.Extra["nodeconfig_configurations"] = len(cfgs)
	e.out.Reset("nodeconfig")
	for _, cfg := range cfgs {
		opts := viper.New()
		opts.Set(flags.FlagChainID, chainID)
		if cfg.types != nil {
			opts.Set(fxcfg.BypassMinFeeMsgTypesKey, cfg.types)
		}
		if cfg.maxGas != nil {
			opts.Set(fxcfg.BypassMinFeeMsgMaxGasUsageKey, cfg.maxGas)
		}
		var a *fxapp.App
		boot := hx.Try(func() error {
			a = fxapp.New(log.NewNopLogger(), dbm.NewMemDB(), nil, true, map[int64]bool{}, fxtypes.GetDefaultNodeHome(), opts,
				baseapp.SetChainID(chainID), baseapp.SetMinGasPrices(minGas.String()))
			cp := fxapp.CustomGenesisConsensusParams().ToProto()
			gt := time.Unix(gd.TimeUnix, 0).UTC()
			if _, err := a.InitChain(&abci.RequestInitChain{Time: gt, ChainId: chainID, ConsensusParams: &cp, AppStateBytes: gd.AppState, InitialHeight: 1}); err != nil {
				return err
			}
			consAddr := val.Cons.PubKey().Address()
			ci := abci.CommitInfo{Votes: []abci.VoteInfo{{Validator: abci.Validator{Address: consAddr, Power: val.Power}, BlockIdFlag: tmproto.BlockIDFlagCommit}}}
			if _, err := a.FinalizeBlock(&abci.RequestFinalizeBlock{Height: 1, Time: gt.Add(5 * time.Second), ProposerAddress: consAddr, DecidedLastCommit: ci}); err != nil {
				return err
			}
			_, err := a.Commit()
			return err
		})
		if boot != "ok" {
			e.out.Violate("a node with configuration [" + cfg.String() + "] does not start: " + boot)
			continue
		}
		ctx := a.GetContextForCheckTx(nil)
		acc := a.AccountKeeper.GetAccount(ctx, user.Acc())
		if acc == nil {
			e.out.Violate("harness: genesis account missing in the configured node")
			continue
		}
		txc := a.GetTxConfig()
		msgOf := func(url string) sdk.Msg {
			switch url {
			case sendURL:
				return &banktypes.MsgSend{FromAddress: user.Addr(), ToAddress: other.Addr(), Amount: sdk.NewCoins(sdk.NewCoin(fxtypes.DefaultDenom, sdkmath.NewInt(1)))}
			default:
				return &distrtypes.MsgSetWithdrawAddress{DelegatorAddress: user.Addr(), WithdrawAddress: other.Addr()}
			}
		}
		exempt := map[string]bool{}
		for _, u := range cfg.typeList {
			exempt[u] = true
		}
		// message lists: all of the first configured kind, mixed, none exempt
		var lists [][]string
		for n := 1; n <= 3; n++ {
			all := make([]string, n)
			for i := range all {
				all[i] = sendURL
			}
			lists = append(lists, all)
			mixed := append(append([]string{}, all[:n-1]...), wdURL) // exempt …, then the other type last
			lists = append(lists, mixed)
			rev := append([]string{wdURL}, all[:n-1]...) // the other type first
			lists = append(lists, rev)
		}
		for _, urls := range lists {
			n := uint64(len(urls))
			base := n * cfg.maxB // wraps like the code; the specification below refuses to judge a wrapped product
			gases := []uint64{0, 1, base - 1, base, base + 1, 150000, 9_000_000, (1<<64 - 1) / 2}
			seenGas := map[uint64]bool{}
			for _, gas := range gases {
				if seenGas[gas] {
					continue
				}
				seenGas[gas] = true
				req := ceilMul(minPrice, gas)
				for _, feeKind := range []string{"none", "below", "exact"} {
					var fee sdk.Coins
					switch feeKind {
					case "below":
						if !req.IsPositive() || req.Equal(sdkmath.OneInt()) {
							continue
						}
						fee = sdk.NewCoins(sdk.NewCoin(fxtypes.DefaultDenom, req.SubRaw(1)))
					case "exact":
						fee = sdk.NewCoins(sdk.NewCoin(fxtypes.DefaultDenom, req))
					}
					var msgs []sdk.Msg
					for _, u := range urls {
						msgs = append(msgs, msgOf(u))
					}
					hexTx, err := detx.SignCosmos(txc, detx.CosmosTx{Signer: user, AccNum: acc.GetAccountNumber(), Seq: acc.GetSequence(), Gas: gas, Fee: fee, ChainID: chainID, Msgs: msgs})
					if err != nil {
						e.out.Count("nodeconfig-build-err")
						continue
					}
					bz, _ := hex.DecodeString(hexTx)
					var resp *abci.ResponseCheckTx
					// Recheck mode: same ante chain and fee checker, but nothing is cached (the sequence does not advance)
					res := hx.Try(func() error {
						var err error
						resp, err = a.CheckTx(&abci.RequestCheckTx{Tx: bz, Type: abci.CheckTxType_New})
						return err
					})
					e.out.Stats.Evaluations++
					if isPanic(res) || resp == nil {
						e.violate("nodeconfig-panic", "CheckTx of a configured node ["+cfg.String()+"] failed: "+res, []string{"# " + cfg.String(), "tx " + hexTx})
						continue
					}
					obs := "admit"
					switch {
					case resp.Code == 0:
						// admitted: the CheckTx state now holds sequence+1; rebuild the account view
						acc = a.AccountKeeper.GetAccount(a.GetContextForCheckTx(nil), user.Acc())
					case resp.Codespace == "sdk" && resp.Code == 13:
						obs = "refuse"
					default:
						obs = fmt.Sprintf("other %s/%d", resp.Codespace, resp.Code)
					}
					fc := feeCase{msgs: msgs, exempt: cfg.typeList, maxB: cfg.maxB, gas: gas, fee: fee, prices: minGas}
					want, ok := specVerdict(fc, true)
					if !strings.HasPrefix(obs, "other") {
						// the same question to the Lean model of the WIRED checker (Gen.C20.wiredCheckTxFeees, translated from app.go)
						cm := "absent"
						if cfg.maxGas != nil {
							cm = fmt.Sprint(cfg.maxB)
						}
						e.out.Emit(strings.Replace(fc.op("c"), "fee c ", "nodefee "+cm+" ", 1), obs)
					}
					e.out.Count("nodeconfig-" + obs)
					allEx := true
					for _, u := range urls {
						if !exempt[u] {
							allEx = false
						}
					}
					e.out.Nontrivial(fmt.Sprintf("nodeconfig types=%d max=%v n=%d allExempt=%v gas-vs-allowance=%s fee=%s %s", len(cfg.typeList), cfg.maxGas, n, allEx, cmpU(gas, base), feeKind, obs))
					if strings.HasPrefix(obs, "other") {
						// out of gas in the ante handler for tiny gas limits, etc.: not a fee verdict
						continue
					}
					if ok && want != obs {
						desc := fmt.Sprintf("a node configured with [%s] and minimum gas price %s answers CheckTx `%s` where the property's rule says `%s`: %d message(s) %v, gas limit %d (n·allowance = %d), fee %s (⌈price·gas⌉ = %s)",
							cfg.String(), minGas.String(), obs, want, n, shortURLs(urls), gas, base, feeOrNone(fee), req)
						e.violate("nodeconfig "+want+" vs "+obs, desc, []string{"# " + desc, "# node: " + cfg.String() + " minimum-gas-prices=" + minGas.String(), "tx " + hexTx})
					}
				}
			}
		}
	}
}

func cmpU(a, b uint64) string {
	switch {
	case a < b:
		return "below"
	case a == b:
		return "equal"
	}
	return "above"
}

func shortURLs(us []string) []string {
	var o []string
	for _, u := range us {
		o = append(o, u[strings.LastIndexByte(u, '.')+1:])
	}
	return o
}

func feeOrNone(c sdk.Coins) string {
	if len(c) == 0 {
		return "none"
	}
	return c.String()
}
