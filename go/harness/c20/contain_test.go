package c20

// C20 harness, part 12: handler-level panic sites — CONTAINMENT.
//
// `Gen/C20Handler.lean` (typed translator) lists every explicit `panic(…)` / `Must…` behind a transaction-level entry point of the
// bridge modules; `Props/C20.lean` proves over the regenerated call graph that none of the explicit panics is reachable from a
// block hook (`handler_panic_contained`) and that the panic sites of claim EXECUTION are reachable from a transaction only through
// the calls behind the vote-power threshold of `TryAttestation` (`claim_execution_sites_quorum_gated`).  This stream ties those
// theorems to the running code.  A hostile ORACLE QUORUM (two of three equal oracles) and any account behind it produce
// the inputs the other harnesses stumbled over:
//   * MsgSendToExternalClaim for a batch that does not exist (never created / already executed)  -> `unknown batch nonce …`
//   * MsgSendToExternalClaim for a batch that timed out and was cancelled by an observed height    -> `unknown batch nonce …`
//   * MsgBridgeCallResultClaim for a bridge call that does not exist (never made / refunded after its timeout), parked by the
//     quorum and then executed by ANY account through the `executeClaim` precompile (signed MsgEthereumTx) -> `bridge call not found`
// Every message is run the way `baseapp.runTx` runs it (the regenerated fact `runTxRecoversFirst`): on a cache of the block
// state, under a deferred recover, written back only on success.  MsgClaim cannot arrive as transaction bytes on this tree
// (EXCLUSION RULE 3), so the runner is re-stated here; the EVM transaction is a real signed MsgEthereumTx.
// Monitors (each a concrete violation with the message history as replay):
//   1. the faulting fx-core function of a recovered panic must be a site-hosting function of the regenerated inventory that is
//      NOT block-reachable (else: a panic outside the contained inventory);
//   2. a panic raised by a vote that does not complete a quorum (a single bridger) must not come from a function that the
//      inventory places behind the quorum gate;
//   3. after a contained panic the block hooks still run: the application's EndBlocker and BeginBlocker on the same state do not
//      panic, and the state the failed message would have written is absent (last observed event nonce unchanged);
// and one compared line per recovered panic: `hpanic <function> <single|quorum|any>` -> `contained` (the model answers from the
// regenerated certificates).

import (
	"encoding/json"
	"fmt"
	"math/big"
	"os"
	"path/filepath"
	"regexp"
	"strings"
	"testing"

	sdkmath "cosmossdk.io/math"
	codectypes "github.com/cosmos/cosmos-sdk/codec/types"
	sdk "github.com/cosmos/cosmos-sdk/types"
	"github.com/ethereum/go-ethereum/common"

	fxtypes "github.com/functionx/fx-core/v8/types"
	crosschainkeeper "github.com/functionx/fx-core/v8/x/crosschain/keeper"
	crosschaintypes "github.com/functionx/fx-core/v8/x/crosschain/types"

	"fxverif/harness/bridgex"
	"fxverif/harness/evmx"
	"fxverif/harness/hx"
)

type hFunc struct {
	Block   bool   `json:"block"`
	Ungated bool   `json:"ungated"`
	Tx      bool   `json:"tx"`
	Kind    string `json:"kind"`
}

type hInv struct {
	Funcs map[string]hFunc `json:"funcs"`
	Sites []struct {
		Func string `json:"func"`
		Kind string `json:"kind"`
		Expr string `json:"expr"`
	} `json:"sites"`
	RunTxRecoversFirst bool `json:"runTxRecoversFirst"`
}

func loadHandlerInv() *hInv {
	inv := &hInv{Funcs: map[string]hFunc{}}
	fp := os.Getenv("VERIF_FACTS")
	if fp == "" {
		return inv
	}
	bz, err := os.ReadFile(filepath.Join(filepath.Dir(fp), "gen.tmp", "c20handler.json"))
	if err != nil {
		return inv
	}
	_ = json.Unmarshal(bz, inv)
	return inv
}

var reFuncLit = regexp.MustCompile(`(\.func\d+)+(\.\d+)*$`)

// invName: a Go runtime function name in the form of the inventory (`x/crosschain/keeper.Keeper.OutgoingTxBatchExecuted`)
func invName(frame string) string {
	f := strings.TrimPrefix(frame, "github.com/functionx/fx-core/v8/")
	f = reFuncLit.ReplaceAllString(f, "")
	f = strings.ReplaceAll(f, "(*", "")
	f = strings.ReplaceAll(f, ")", "")
	return f
}

// fxFrames: the fx-core functions of a panic stack, innermost first (full import paths)
func fxFrames(stack string) []string {
	var out []string
	seen := false
	for _, l := range strings.Split(stack, "\n") {
		if strings.HasPrefix(l, "\t") || l == "" {
			continue
		}
		if strings.HasPrefix(l, "panic(") {
			seen = true
			out = out[:0]
			continue
		}
		if !seen {
			continue
		}
		if i := strings.LastIndexByte(l, '('); i > 0 {
			l = l[:i]
		}
		if strings.HasPrefix(l, "github.com/functionx/fx-core/v8/") {
			out = append(out, l)
		}
	}
	return out
}

type qWorld struct {
	e        *env
	w        *bridgex.World
	inv      *hInv
	bridgers map[string][]sdk.AccAddress // chain -> the three bridgers
	history  []string
	hookBase map[string]string
}

func (q *qWorld) setup() {
	s := q.w.S
	q.bridgers = map[string][]sdk.AccAddress{}
	for c, chain := range bridgex.Chains {
		k := q.w.Keeper(c)
		var oracles []string
		var accs []sdk.AccAddress
		for i := 0; i < 3; i++ {
			o := s.AddTestAddress(1, crosschaintypes.NewDelegateAmount(sdkmath.NewInt(300*1e3).MulRaw(1e18)))[0]
			oracles = append(oracles, o.String())
			accs = append(accs, o)
		}
		k.SetProposalOracle(s.Ctx, &crosschaintypes.ProposalOracle{Oracles: oracles})
		for _, oracle := range accs {
			bridger := s.AddTestAddress(1, sdk.NewCoin(fxtypes.DefaultDenom, sdkmath.NewInt(1000).MulRaw(1e18)))[0]
			ext := crosschaintypes.ExternalAddrToStr(chain, rndAddr(q.e.rng).Bytes())
			_, err := crosschainkeeper.NewMsgServerImpl(k).BondedOracle(s.Ctx, &crosschaintypes.MsgBondedOracle{OracleAddress: oracle.String(), BridgerAddress: bridger.String(),
				ExternalAddress: ext, ValidatorAddress: s.ValAddr[0].String(),
				DelegateAmount: crosschaintypes.NewDelegateAmount(sdkmath.NewInt(10000).MulRaw(1e18)), ChainName: chain})
			if err != nil {
				q.e.out.Stats.Extra["contain-setup-bond-err "+chain] = err.Error()
				continue
			}
			q.bridgers[chain] = append(q.bridgers[chain], bridger)
		}
	}
	for _, u := range q.w.Users {
		s.MintToken(u.AccAddress(), sdk.NewCoin(fxtypes.DefaultDenom, sdkmath.NewIntWithDecimal(1000, 18)))
	}
}

// runLikeTx: what baseapp's transaction runner does with one message — cache, deferred recover, write back on success only
func runLikeTx(ctx sdk.Context, f func(ctx sdk.Context) error) string {
	cctx, write := ctx.CacheContext()
	res := tryStack(func() error { return f(cctx) })
	if res == "ok" {
		write()
	}
	return res
}

// afterPanic: monitors 1-3 for one recovered panic; `votes` = single | quorum | any
func (q *qWorld) afterPanic(ctx sdk.Context, chainIdx int, res, stack, votes, class string, lastObservedBefore uint64) {
	e := q.e
	frames := fxFrames(stack)
	fn := ""
	for _, f := range frames {
		n := invName(f)
		if _, ok := q.inv.Funcs[n]; ok {
			fn = n
			break
		}
	}
	e.out.Count("contain-panic " + votes)
	replay := append([]string{}, q.history...)
	if fn == "" {
		if len(q.inv.Funcs) > 0 {
			desc := fmt.Sprintf("a recovered handler-level panic on input class [%s] has no fx-core frame that the regenerated handler inventory knows (frames %v): %s", class, frames, res)
			e.violate("contain-unknown-frame "+class, desc, append([]string{"# " + desc}, replay...))
		}
		return
	}
	hosts := false
	for _, s := range q.inv.Sites {
		if s.Func == fn {
			hosts = true
		}
	}
	info := q.inv.Funcs[fn]
	e.out.Nontrivial("contained panic in " + fn + " " + votes)
	e.out.Emit("hpanic "+fn+" "+votes, "contained")
	if !hosts {
		desc := fmt.Sprintf("a recovered handler-level panic on input class [%s] was raised in %s, which hosts no site of the regenerated handler inventory: %s", class, fn, res)
		e.violate("contain-unlisted-site "+fn, desc, append([]string{"# " + desc}, replay...))
	}
	if info.Block {
		desc := fmt.Sprintf("panic on input class [%s] in %s, a function the regenerated call graph reaches from a block hook — not contained by the transaction runner: %s", class, fn, res)
		e.violate("contain-block-reachable "+fn, desc, append([]string{"# " + desc}, replay...))
	}
	if votes == "single" && specGated[fn] {
		// independent of the regenerated gate (which follows the code): the specification's list, `claimExecutionFuncs` of Props/C20.lean
		desc := fmt.Sprintf("a single bridger's vote (no quorum) on input class [%s] executed the claim: panic in %s, a claim-execution function that only a vote completing the 2/3 quorum may reach: %s", class, fn, res)
		e.violate("contain-single-vote-executes "+fn, desc, append([]string{"# " + desc}, replay...))
	}
	if votes == "single" && !info.Ungated {
		desc := fmt.Sprintf("a single bridger's vote (no quorum) on input class [%s] reached the panic in %s, which the regenerated graph places behind the vote-power threshold of TryAttestation: %s", class, fn, res)
		e.violate("contain-gate-bypassed "+fn, desc, append([]string{"# " + desc}, replay...))
	}
	// 3. the block hooks still run on the state the failed message left behind, and that state is the one before the message
	k := q.w.Keeper(chainIdx)
	if got := k.GetLastObservedEventNonce(ctx); got != lastObservedBefore {
		desc := fmt.Sprintf("after a recovered panic in %s on input class [%s] the last observed event nonce is %d, before the message it was %d: the failed message left state behind", fn, class, got, lastObservedBefore)
		e.violate("contain-state-left "+fn, desc, append([]string{"# " + desc}, replay...))
	}
	q.hooks(ctx, class+"; after the recovered panic in "+fn)
}

// hooks: the block hooks of the application run on (a copy of) the state a hostile input left behind; a hook that panics on
// the untouched world (a harness artefact: no proposer, no votes) is skipped
func (q *qWorld) hooks(ctx sdk.Context, class string) {
	e := q.e
	bctx, _ := ctx.CacheContext()
	for _, hook := range []struct {
		name string
		f    func(c sdk.Context) error
	}{
		{"EndBlocker", func(c sdk.Context) error { _, err := q.w.S.App.EndBlocker(c); return err }},
		{"BeginBlocker", func(c sdk.Context) error { _, err := q.w.S.App.BeginBlocker(c.WithBlockHeight(c.BlockHeight() + 1)); return err }},
	} {
		if q.hookBase == nil {
			q.hookBase = map[string]string{}
		}
		if _, done := q.hookBase[hook.name]; !done {
			base, _ := q.w.S.Ctx.CacheContext()
			q.hookBase[hook.name] = tryStack(func() error { return hook.f(base) })
			e.out.Stats.Extra["contain-hook-baseline "+hook.name] = strings.SplitN(q.hookBase[hook.name], "\n", 2)[0]
		}
		if isPanic(q.hookBase[hook.name]) {
			continue
		}
		r := tryStack(func() error { return hook.f(bctx) })
		e.out.Stats.Evaluations++
		e.out.Count("contain-hook-" + hook.name + "-" + strings.SplitN(r, ":", 2)[0])
		if isPanic(r) {
			desc := fmt.Sprintf("the application's %s panics on the state left by hostile input of class [%s]: %s — no transaction runner recovers a block hook, a node would stop", hook.name, class, r)
			e.violate("contain-hook-panic "+hook.name, desc, append([]string{"# " + desc, "# frames: " + lastStack}, q.history...))
		}
	}
}

func (q *qWorld) claimMsg(chain string, claim crosschaintypes.ExternalClaim) *crosschaintypes.MsgClaim {
	any, err := codectypes.NewAnyWithValue(claim)
	if err != nil {
		panic(err)
	}
	return &crosschaintypes.MsgClaim{ChainName: chain, BridgerAddress: claim.GetClaimer().String(), Claim: any}
}

// vote delivers one bridger's claim the way the transaction runner would; returns the result and whether it panicked
func (q *qWorld) vote(ctx sdk.Context, c int, voter int, mk func(bridger string, eventNonce uint64) crosschaintypes.ExternalClaim, class string) string {
	chain := bridgex.Chains[c]
	k := q.w.Keeper(c)
	b := q.bridgers[chain][voter]
	oracle, found := k.GetOracleAddrByBridgerAddr(ctx, b)
	if !found {
		return "err:no oracle"
	}
	claim := mk(b.String(), k.GetLastEventNonceByOracle(ctx, oracle)+1)
	msg := q.claimMsg(chain, claim)
	if r := hx.Try(func() error { return msg.ValidateBasic() }); r != "ok" {
		if isPanic(r) {
			desc := fmt.Sprintf("panic in ValidateBasic of a claim on input class [%s]: %s", class, r)
			q.e.violate("contain-vb "+class, desc, []string{"# " + desc})
		}
		q.e.out.Count("contain-vote-rejected-by-validatebasic")
		return "err:" + r
	}
	q.history = append(q.history, fmt.Sprintf("claim %s voter=%d %s %s", chain, voter, msg.Claim.TypeUrl, short(msg.Claim.Value)))
	before := k.GetLastObservedEventNonce(ctx)
	handler := q.w.S.App.MsgServiceRouter().Handler(msg)
	res := runLikeTx(ctx, func(cctx sdk.Context) error { _, err := handler(cctx, msg); return err })
	q.e.out.Stats.Evaluations++
	q.e.out.Count("contain-vote-" + strings.SplitN(res, ":", 2)[0])
	if isPanic(res) {
		votes := "quorum"
		if voter == 0 {
			votes = "single"
		}
		q.afterPanic(ctx, c, res, lastStackFull, votes, class, before)
	} else {
		q.hooks(ctx, class)
	}
	return res
}

var lastStackFull string

// specGated mirrors `claimExecutionFuncs` of Props/C20.lean: functions that execute an OBSERVED claim
var specGated = map[string]bool{
	"x/crosschain/keeper.Keeper.OutgoingTxBatchExecuted": true, "x/crosschain/keeper.Keeper.cleanupTimedOutBatches": true,
	"x/crosschain/keeper.Keeper.CancelOutgoingTxBatch": true, "x/crosschain/keeper.Keeper.UpdateOracleSetExecuted": true,
	"x/crosschain/keeper.Keeper.SavePendingExecuteClaim": true, "x/crosschain/keeper.Keeper.IterateAttestationAndClaim": true,
}

func (e *env) containSweep(t *testing.T) {
	e.out.Reset("contain")
	q := &qWorld{e: e, w: bridgex.NewWorld(hx.NewSuite(t, 2)), inv: loadHandlerInv()}
	q.setup()
	s := q.w.S
	e.out.Stats.Extra["contain_inventory_functions"] = len(q.inv.Funcs)
	e.out.Stats.Extra["contain_inventory_sites"] = len(q.inv.Sites)
	if len(q.inv.Funcs) > 0 && !q.inv.RunTxRecoversFirst {
		e.violate("contain-runner", "the regenerated fact `runTxRecoversFirst` is false: baseapp's transaction runner no longer recovers before it runs the messages; the containment argument of the handler-level panic sites does not apply", nil)
	}
	rounds := hx.N(6, 60)
	for r := 0; r < rounds; r++ {
		for c := range bridgex.Chains {
			chain := bridgex.Chains[c]
			if len(q.bridgers[chain]) < 3 {
				continue
			}
			var groups []*bridgex.Group
			for _, g := range q.w.Groups {
				if g.OnChain[c] {
					groups = append(groups, g)
				}
			}
			grp := groups[e.rng.Intn(len(groups))]
			k := q.w.Keeper(c)
			// every scenario runs on its own branch of the world and is discarded
			// --- scenario A: a batch that does not exist
			{
				ctx, _ := s.Ctx.CacheContext()
				q.history = q.history[:0]
				nonce := hx.Pick(e.rng, []uint64{0, 1, 2, 1 << 32, 1<<63 - 1, 1 << 63, 1<<64 - 1})
				contract := grp.Contract[c]
				if e.rng.Intn(3) == 0 {
					contract = crosschaintypes.ExternalAddrToStr(chain, rndAddr(e.rng).Bytes())
				}
				class := fmt.Sprintf("quorum MsgSendToExternalClaim for a batch that does not exist (batch nonce %d, %s token contract)", nonce, map[bool]string{true: "registered", false: "unknown"}[contract == grp.Contract[c]])
				height := 1 + uint64(e.rng.Intn(1000))
				mk := func(b string, en uint64) crosschaintypes.ExternalClaim {
					return &crosschaintypes.MsgSendToExternalClaim{EventNonce: en, BlockHeight: height, BatchNonce: nonce, TokenContract: contract, BridgerAddress: b, ChainName: chain}
				}
				for v := 0; v < 3; v++ {
					res := q.vote(ctx, c, v, mk, class)
					e.out.Nontrivial("contain A voter " + fmt.Sprint(v) + " " + strings.SplitN(res, ":", 2)[0])
				}
			}
			// --- scenario B: a real batch that timed out: a quorum observes a height beyond the batch timeout (cancels it), then reports it executed
			{
				ctx, _ := s.Ctx.CacheContext()
				q.history = q.history[:0]
				u := q.w.Users[e.rng.Intn(len(q.w.Users))]
				class := "quorum MsgSendToExternalClaim for a batch cancelled after its timeout"
				bridgeDenom := grp.Bridge[c]
				amt := sdkmath.NewInt(int64(10 + e.rng.Intn(50)))
				s.MintToken(u.AccAddress(), sdk.NewCoin(grp.Base, amt.MulRaw(2)))
				if grp.Bridge[c] != "" && grp.Bridge[c] != grp.Base {
					s.MintToken(u.AccAddress(), sdk.NewCoin(grp.Bridge[c], amt.MulRaw(2)))
				}
				ctx, _ = s.Ctx.CacheContext()
				made := runLikeTx(ctx, func(cctx sdk.Context) error {
					// fund the user with the bridge denomination's base and queue a transfer, then build the batch
					base := grp.Base
					_, err := crosschainkeeper.NewMsgServerImpl(k).SendToExternal(cctx, &crosschaintypes.MsgSendToExternal{Sender: u.AccAddress().String(),
						Dest: crosschaintypes.ExternalAddrToStr(chain, rndAddr(e.rng).Bytes()), Amount: sdk.NewCoin(base, amt), BridgeFee: sdk.NewCoin(base, amt), ChainName: chain})
					if err != nil {
						return err
					}
					_, err = crosschainkeeper.NewMsgServerImpl(k).RequestBatch(cctx, &crosschaintypes.MsgRequestBatch{Sender: q.bridgers[chain][0].String(), Denom: base,
						MinimumFee: sdkmath.NewInt(1), FeeReceive: crosschaintypes.ExternalAddrToStr(chain, rndAddr(e.rng).Bytes()), ChainName: chain, BaseFee: sdkmath.ZeroInt()})
					return err
				})
				_ = bridgeDenom
				e.out.Count("contain-B-setup-" + strings.SplitN(made, ":", 2)[0])
				if made != "ok" {
					e.out.Stats.Extra["contain-B-setup-err "+fmt.Sprint(grp.Kind)] = made
				}
				var batch *crosschaintypes.OutgoingTxBatch
				k.IterateOutgoingTxBatches(ctx, func(b *crosschaintypes.OutgoingTxBatch) bool { batch = b; return true })
				if made == "ok" && batch != nil {
					q.history = append(q.history, fmt.Sprintf("setup %s: SendToExternal + RequestBatch -> batch nonce %d timeout %d", chain, batch.BatchNonce, batch.BatchTimeout))
					beyond := batch.BatchTimeout + 1 + uint64(e.rng.Intn(5))
					// 1. the quorum observes an (honest-looking) deposit at a height beyond the timeout: the batch is cancelled
					dep := func(b string, en uint64) crosschaintypes.ExternalClaim {
						return &crosschaintypes.MsgSendToFxClaim{EventNonce: en, BlockHeight: beyond, TokenContract: batch.TokenContract, Amount: sdkmath.NewInt(1),
							Sender: crosschaintypes.ExternalAddrToStr(chain, rndAddr(e.rng).Bytes()), Receiver: u.AccAddress().String(), TargetIbc: "", BridgerAddress: b, ChainName: chain}
					}
					// same claim for all voters: fix the random parts
					d0 := dep("", 0).(*crosschaintypes.MsgSendToFxClaim)
					depSame := func(b string, en uint64) crosschaintypes.ExternalClaim {
						cp := *d0
						cp.BridgerAddress, cp.EventNonce = b, en
						return &cp
					}
					for v := 0; v < 2; v++ {
						q.vote(ctx, c, v, depSame, "quorum MsgSendToFxClaim at a height beyond a batch timeout")
					}
					if k.GetOutgoingTxBatch(ctx, batch.TokenContract, batch.BatchNonce) == nil {
						e.out.Count("contain-B-batch-cancelled")
						ex := func(b string, en uint64) crosschaintypes.ExternalClaim {
							return &crosschaintypes.MsgSendToExternalClaim{EventNonce: en, BlockHeight: beyond + 1, BatchNonce: batch.BatchNonce, TokenContract: batch.TokenContract, BridgerAddress: b, ChainName: chain}
						}
						for v := 0; v < 3; v++ {
							res := q.vote(ctx, c, v, ex, class)
							e.out.Nontrivial("contain B voter " + fmt.Sprint(v) + " " + strings.SplitN(res, ":", 2)[0])
						}
					} else {
						e.out.Count("contain-B-batch-still-there")
					}
				}
			}
			// --- scenario C: a bridge-call result for a bridge call that does not exist, parked by the quorum, executed by anyone
			{
				ctx, _ := s.Ctx.CacheContext()
				q.history = q.history[:0]
				bcNonce := hx.Pick(e.rng, []uint64{0, 1, 7, 1 << 40, 1<<64 - 1})
				success := e.rng.Intn(2) == 0
				class := fmt.Sprintf("executeClaim of a parked MsgBridgeCallResultClaim whose bridge call does not exist (nonce %d, success=%v)", bcNonce, success)
				origin := crosschaintypes.ExternalAddrToStr(chain, rndAddr(e.rng).Bytes())
				mk := func(b string, en uint64) crosschaintypes.ExternalClaim {
					return &crosschaintypes.MsgBridgeCallResultClaim{ChainName: chain, BridgerAddress: b, EventNonce: en, BlockHeight: 5, Nonce: bcNonce, TxOrigin: origin, Success: success, Cause: ""}
				}
				var parked uint64
				for v := 0; v < 2; v++ {
					oracle, _ := k.GetOracleAddrByBridgerAddr(ctx, q.bridgers[chain][v])
					parked = k.GetLastEventNonceByOracle(ctx, oracle) + 1
					q.vote(ctx, c, v, mk, "quorum MsgBridgeCallResultClaim for a bridge call that does not exist")
				}
				if _, ok := k.GetPendingExecuteClaim(ctx, parked); ok {
					e.out.Count("contain-C-claim-parked")
					m, ok := crosschaintypes.GetABI().Methods["executeClaim"]
					if ok {
						data, err := m.Inputs.Pack(chain, new(big.Int).SetUint64(parked))
						if err == nil {
							data = append(append([]byte{}, m.ID...), data...)
							signer := q.w.Users[e.rng.Intn(len(q.w.Users))]
							to := crosschaintypes.GetAddress()
							q.history = append(q.history, fmt.Sprintf("evmtx from=user to=%s data=%s", to.Hex(), short(data)))
							before := k.GetLastObservedEventNonce(ctx)
							res := runLikeTx(ctx, func(cctx sdk.Context) error {
								tx, err := evmx.SignedTx(cctx, s.App, signer, to, big.NewInt(0), data, 3_000_000, []common.Address{to})
								if err != nil {
									return err
								}
								r, err := evmx.Send(cctx, s.App, tx)
								if err != nil {
									return err
								}
								if r.Failed() {
									return fmt.Errorf("reverted: %s", r.VmError)
								}
								return nil
							})
							e.out.Stats.Evaluations++
							e.out.Count("contain-C-executeClaim-" + strings.SplitN(res, ":", 2)[0])
							e.out.Nontrivial("contain C executeClaim " + strings.SplitN(res, ":", 2)[0])
							if !isPanic(res) {
								q.hooks(ctx, class)
							}
							if isPanic(res) {
								q.afterPanic(ctx, c, res, lastStackFull, "any", class, before)
								if _, still := k.GetPendingExecuteClaim(ctx, parked); !still {
									desc := fmt.Sprintf("after the recovered panic of executeClaim (input class [%s]) the parked claim is gone: the failed transaction left state behind", class)
									e.violate("contain-C-state", desc, append([]string{"# " + desc}, q.history...))
								}
							}
						}
					}
				} else {
					e.out.Count("contain-C-claim-not-parked")
				}
			}
		}
	}
}
