package c20

// C20 harness, part 11: the REGENERATED validation programs against the real ValidateBasic.
//
// go/extractt/c20msg.go translates every ValidateBasic / validateBasic / Validate of the fx-core message types into guard programs
// (Gen/C20Msg.lean) and, beside them, the list of things each program looks at (`c20msg.json`: which paths' nil-ness, values,
// lengths, which external validators on which fields, loops, calls).  For every decoded fx-core message of the message sweep
// this file computes exactly those features from the REAL decoded value (reflection; the external validators are the real
// functions), emits `mvb <program> <features>` and the real verdict (`ok` / `err` / `panic`); the Lean driver interprets the
// regenerated program on the features.  A difference is a correspondence failure: the translation, the model's semantics of a
// dependency (Coin.IsValid on a nil amount, Coins.Validate, SafeAdd, …) or the code changed.

import (
	"bytes"
	"crypto/ecdsa"
	"encoding/hex"
	"encoding/json"
	"fmt"
	"math/big"
	"os"
	"path/filepath"
	"reflect"
	"regexp"
	"sort"
	"strings"

	sdkmath "cosmossdk.io/math"
	codectypes "github.com/cosmos/cosmos-sdk/codec/types"
	sdk "github.com/cosmos/cosmos-sdk/types"
	banktypes "github.com/cosmos/cosmos-sdk/x/bank/types"
	govv1beta1 "github.com/cosmos/cosmos-sdk/x/gov/types/v1beta1"
	"github.com/cosmos/gogoproto/proto"
	"github.com/ethereum/go-ethereum/common"
	"github.com/ethereum/go-ethereum/crypto"
	ibctransfertypes "github.com/cosmos/ibc-go/v8/modules/apps/transfer/types"

	"github.com/functionx/fx-core/v8/contract"
	fxtypes "github.com/functionx/fx-core/v8/types"
	crosschaintypes "github.com/functionx/fx-core/v8/x/crosschain/types"
	migratetypes "github.com/functionx/fx-core/v8/x/migrate/types"

	"fxverif/harness/hx"
)

type mpItem struct {
	K      string   `json:"k"`
	Fn     string   `json:"fn"`
	Args   []string `json:"args"`
	Oracle bool     `json:"oracle"`
	P      string   `json:"p"`
	Coll   string   `json:"coll"`
	Var    string   `json:"var"`
	Items  []mpItem `json:"items"`
	Names  []string `json:"names"`
	Pfx    string   `json:"pfx"`
	Sel    string   `json:"sel"`
}

type mpProg struct {
	Feats  []mpItem `json:"feats"`
	Root   bool     `json:"root"`
	Approx bool     `json:"approx"`
	Reach  bool     `json:"reach"`
}

type mpTable struct {
	Progs map[string]mpProg `json:"progs"`
}

var mpLoaded *mpTable

func loadMsgProgs() *mpTable {
	if mpLoaded != nil {
		return mpLoaded
	}
	mpLoaded = &mpTable{Progs: map[string]mpProg{}}
	fp := os.Getenv("VERIF_FACTS")
	if fp == "" {
		return mpLoaded
	}
	bz, err := os.ReadFile(filepath.Join(filepath.Dir(fp), "gen.tmp", "c20msg.json"))
	if err != nil {
		return mpLoaded
	}
	_ = json.Unmarshal(bz, mpLoaded)
	return mpLoaded
}

type mpCtx struct {
	root     reflect.Value
	feats    map[string]string
	skip     string // reason the message cannot be described (an external function the table does not know)
	tbl      *mpTable
	depth    int
	bindVar  string
	bindRepl string
}

var reSeen = regexp.MustCompile(`^\w+\[\w+\]$`)

func mpKey(kind string, parts ...string) string {
	return kind + ":" + hx.HexS(strings.Join(parts, "\x01"))
}

func subPath(pfx, p string) string {
	if pfx == "" {
		return p
	}
	if p == "" {
		return pfx
	}
	return pfx + "." + p
}

// abs: the key the model looks up = sub(pfx, bind(p))
func (c *mpCtx) abs(pfx, p string) string {
	if c.bindVar != "" && strings.HasPrefix(p, "$"+c.bindVar) {
		p = c.bindRepl + p[len(c.bindVar)+1:]
	}
	return subPath(pfx, p)
}

var anyPtrType = reflect.TypeOf((*codectypes.Any)(nil))

// resolve walks an absolute path from the message
func (c *mpCtx) resolve(path string) (reflect.Value, bool) {
	v := c.root
	if path == "" {
		return v, true
	}
	for _, seg := range strings.Split(path, ".") {
		idx := -1
		if i := strings.IndexByte(seg, '['); i >= 0 {
			fmt.Sscanf(seg[i:], "[%d]", &idx)
			seg = seg[:i]
		}
		for v.Kind() == reflect.Ptr || v.Kind() == reflect.Interface {
			if v.IsNil() {
				return v, false
			}
			if v.Type() == anyPtrType {
				cv := v.Interface().(*codectypes.Any).GetCachedValue()
				if cv == nil {
					return v, false
				}
				v = reflect.ValueOf(cv)
				continue
			}
			v = v.Elem()
		}
		if v.Kind() != reflect.Struct {
			return v, false
		}
		v = v.FieldByName(seg)
		if !v.IsValid() {
			return v, false
		}
		if idx >= 0 {
			if v.Kind() != reflect.Slice || idx >= v.Len() {
				return v, false
			}
			v = v.Index(idx)
		}
	}
	return v, true
}

func (c *mpCtx) str(path string) (string, bool) {
	v, ok := c.resolve(path)
	if !ok || v.Kind() != reflect.String {
		return "", false
	}
	return v.String(), true
}

func isNilValue(v reflect.Value) bool {
	switch x := v.Interface().(type) {
	case sdkmath.Int:
		return x.IsNil()
	case sdkmath.LegacyDec:
		return x.IsNil()
	case sdkmath.Uint:
		return false
	}
	switch v.Kind() {
	case reflect.Ptr, reflect.Interface, reflect.Slice, reflect.Map:
		return v.IsNil()
	}
	return false
}

func bigOf(v reflect.Value) *big.Int {
	switch x := v.Interface().(type) {
	case sdkmath.Int:
		if x.IsNil() {
			return big.NewInt(0)
		}
		return x.BigInt()
	case sdkmath.LegacyDec:
		if x.IsNil() {
			return big.NewInt(0)
		}
		return x.BigInt()
	}
	return big.NewInt(0)
}

func errB(err error) string {
	if err != nil {
		return "1"
	}
	return "0"
}

func boolB(b bool) string {
	if b {
		return "1"
	}
	return "0"
}

// ext evaluates an external validator / opaque expression on the real values; ok=false = unknown function
func (c *mpCtx) ext(fn string, args []string) (string, bool) {
	s := func(i int) (string, bool) {
		if i >= len(args) {
			return "", false
		}
		return c.str(args[i])
	}
	switch fn {
	case "mapHas:externalAddressRouter":
		v, ok := s(0)
		if !ok {
			return "", false
		}
		has := false
		for _, ch := range crosschaintypes.GetSupportChains() {
			if ch == v {
				has = true
			}
		}
		return boolB(has), true
	case "cosmos-sdk/types.AccAddressFromBech32":
		if v, ok := s(0); ok {
			_, err := sdk.AccAddressFromBech32(v)
			return errB(err), true
		}
	case "cosmos-sdk/types.ValAddressFromBech32":
		if v, ok := s(0); ok {
			_, err := sdk.ValAddressFromBech32(v)
			return errB(err), true
		}
	case "cosmos-sdk/types.ValidateDenom":
		if v, ok := s(0); ok {
			return errB(sdk.ValidateDenom(v)), true
		}
	case "transfer/types.ValidateIBCDenom":
		if v, ok := s(0); ok {
			return errB(ibctransfertypes.ValidateIBCDenom(v)), true
		}
	case "encoding/hex.DecodeString":
		if v, ok := s(0); ok {
			_, err := hex.DecodeString(v)
			return errB(err), true
		}
	case "fx/contract.ValidateEthereumAddress":
		if v, ok := s(0); ok {
			return errB(contract.ValidateEthereumAddress(v)), true
		}
	case "fx/types.StrToByte32":
		if v, ok := s(0); ok {
			_, err := fxtypes.StrToByte32(v)
			return errB(err), true
		}
	case "fx/x/crosschain/types.ValidateExternalAddr":
		a, ok1 := s(0)
		b, ok2 := s(1)
		if ok1 && ok2 {
			return errB(crosschaintypes.ValidateExternalAddr(a, b)), true
		}
	case "Coin.Validate":
		if v, ok := c.resolve(args[0]); ok {
			if coin, isCoin := v.Interface().(sdk.Coin); isCoin {
				res := hx.Try(func() error { return coin.Validate() })
				return boolB(res != "ok"), true
			}
		}
	case "Coins.Validate":
		if v, ok := c.resolve(args[0]); ok {
			if coins, isCoins := v.Interface().(sdk.Coins); isCoins {
				res := hx.Try(func() error { return coins.Validate() })
				return boolB(res != "ok"), true
			}
		}
	case "Metadata.Validate":
		if v, ok := c.resolve(args[0]); ok {
			if md, isMd := v.Interface().(banktypes.Metadata); isMd {
				res := hx.Try(func() error { return md.Validate() })
				return boolB(res != "ok"), true
			}
		}
	case "fx/types.ValidateMetadata":
		if v, ok := c.resolve(args[0]); ok {
			if md, isMd := v.Interface().(banktypes.Metadata); isMd {
				res := hx.Try(func() error { return fxtypes.ValidateMetadata(md) })
				return boolB(res != "ok"), true
			}
		}
	case "types/v1beta1.ValidateAbstract":
		if v, ok := c.resolve(args[0]); ok && v.CanAddr() {
			if ct, isCt := v.Addr().Interface().(govv1beta1.Content); isCt {
				res := hx.Try(func() error { return govv1beta1.ValidateAbstract(ct) })
				return boolB(res != "ok"), true
			}
		}
	case "assertOk:ExternalClaim":
		if v, ok := c.resolve(args[0]); ok && v.Type() == anyPtrType && !v.IsNil() {
			_, isClaim := v.Interface().(*codectypes.Any).GetCachedValue().(crosschaintypes.ExternalClaim)
			return boolB(isClaim), true
		}
		return "0", true
	case `strings.TrimSpace(alias) == ""`:
		if v, ok := s(0); ok {
			return boolB(strings.TrimSpace(v) == ""), true
		}
	case "IsPositive", "IsNegative", "IsZero", "SafeAdd", "GT(sdkmath.LegacyOneDec())":
		return "0", true // computed by the model from the value
	case "bytes.Equal(fromAddress.Bytes(), toAddress.Bytes())", "go-ethereum/crypto.SigToPub", "*pubKey", "bytes.Equal(address.Bytes(), toAddress.Bytes())":
		// locals of MsgMigrateAccount.ValidateBasic, recomputed from the message with the same dependency calls
		if m, ok := c.root.Interface().(*migratetypes.MsgMigrateAccount); ok {
			from, _ := sdk.AccAddressFromBech32(m.From)
			to := common.HexToAddress(m.To)
			switch fn {
			case "bytes.Equal(fromAddress.Bytes(), toAddress.Bytes())":
				return boolB(bytes.Equal(from.Bytes(), to.Bytes())), true
			case "*pubKey":
				return "0", true
			}
			sig, herr := hex.DecodeString(m.Signature)
			if herr != nil {
				return "0", true // not looked at: the hex test returns first
			}
			var pub *ecdsa.PublicKey
			var serr error
			r := hx.Try(func() error { pub, serr = crypto.SigToPub(migratetypes.MigrateAccountSignatureHash(from, to.Bytes()), sig); return nil })
			if r != "ok" {
				return "1", true // a dependency panic is the harness's other monitors' business; the program sees an error
			}
			if fn == "go-ethereum/crypto.SigToPub" {
				return errB(serr), true
			}
			if serr != nil || pub == nil {
				return "0", true
			}
			return boolB(bytes.Equal(crypto.PubkeyToAddress(*pub).Bytes(), to.Bytes())), true
		}
	}
	// `seen[x]` inside `for _, x := range coll`: some earlier element equals this one
	if reSeen.MatchString(fn) {
		var fa []string
		for _, a := range args {
			if !strings.Contains(a, "%") {
				fa = append(fa, a)
			}
		}
		if len(fa) != 1 {
			return "", false
		}
		full := args
		args = fa
		defer func() { args = full }()
		if i := strings.LastIndexByte(args[0], '['); i >= 0 && strings.HasSuffix(args[0], "]") {
			var idx int
			fmt.Sscanf(args[0][i:], "[%d]", &idx)
			cur, ok := c.str(args[0])
			if ok {
				dup := false
				for j := 0; j < idx; j++ {
					if o, ok := c.str(fmt.Sprintf("%s[%d]", args[0][:i], j)); ok && o == cur {
						dup = true
					}
				}
				return boolB(dup), true
			}
		}
	}
	return "", false
}

func (c *mpCtx) items(items []mpItem, pfx string) {
	for _, it := range items {
		if c.skip != "" {
			return
		}
		switch it.K {
		case "ext":
			args := make([]string, len(it.Args))
			for i, a := range it.Args {
				args[i] = c.abs(pfx, a)
			}
			v, ok := c.ext(it.Fn, args)
			if !ok {
				// a value that cannot be resolved because an enclosing pointer is nil is not looked at by the program either
				// (the nil test dominates); an unknown function makes the message undescribable
				if !c.knownFn(it.Fn) {
					c.skip = "unknown external function " + it.Fn
					return
				}
				continue
			}
			c.feats[mpKey("e", append([]string{it.Fn}, args...)...)] = v
		case "nil":
			p := c.abs(pfx, it.P)
			if v, ok := c.resolve(p); ok {
				c.feats[mpKey("n", p)] = boolB(isNilValue(v))
			} else {
				c.feats[mpKey("n", p)] = "1"
			}
		case "big":
			p := c.abs(pfx, it.P)
			if v, ok := c.resolve(p); ok {
				c.feats[mpKey("b", p)] = bigOf(v).String()
			}
		case "anynil":
			p := c.abs(pfx, it.P)
			if v, ok := c.resolve(p); ok {
				if coins, isCoins := v.Interface().(sdk.Coins); isCoins {
					c.feats[mpKey("a", p)] = boolB(coins.IsAnyNil())
				}
			}
		case "len":
			p := c.abs(pfx, it.P)
			if v, ok := c.resolve(p); ok && (v.Kind() == reflect.String || v.Kind() == reflect.Slice) {
				c.feats[mpKey("l", p)] = fmt.Sprint(v.Len())
			}
		case "num":
			p := c.abs(pfx, it.P)
			if v, ok := c.resolve(p); ok {
				switch {
				case v.CanInt():
					c.feats[mpKey("u", p)] = fmt.Sprint(v.Int())
				case v.CanUint():
					c.feats[mpKey("u", p)] = fmt.Sprint(v.Uint())
				}
			}
		case "str":
			p := c.abs(pfx, it.P)
			if v, ok := c.str(p); ok {
				c.feats[mpKey("s", p)] = hx.HexS(v)
			}
		case "loop":
			if c.bindVar != "" {
				c.skip = "nested loop"
				return
			}
			coll := c.abs(pfx, it.Coll)
			v, ok := c.resolve(coll)
			n := 0
			if ok && v.Kind() == reflect.Slice {
				n = v.Len()
			}
			c.feats[mpKey("l", coll)] = fmt.Sprint(n)
			for i := 0; i < n && i < 40; i++ {
				c.bindVar, c.bindRepl = it.Var, fmt.Sprintf("%s[%d]", it.Coll, i)
				c.items(it.Items, pfx)
			}
			c.bindVar, c.bindRepl = "", ""
			if n > 40 {
				c.skip = "collection longer than 40"
			}
		case "call":
			if it.Sel != "" {
				continue // described by the dispatch item
			}
			c.call(it.Names[0], subPath(pfx, it.Pfx))
		case "dispatch":
			base := c.abs(pfx, it.Pfx)
			sel := len(it.Names)
			if v, ok := c.resolve(base); ok && v.Type() == anyPtrType && !v.IsNil() {
				if cv := v.Interface().(*codectypes.Any).GetCachedValue(); cv != nil {
					ty := reflect.TypeOf(cv)
					if ty.Kind() == reflect.Ptr {
						ty = ty.Elem()
					}
					for i, n := range it.Names {
						if strings.HasPrefix(n, strings.TrimPrefix(ty.PkgPath(), modPath)+"."+ty.Name()+".") {
							sel = i
							c.call(n, base)
						}
					}
				}
			}
			c.feats[mpKey("u", subPath(pfx, it.Sel))] = fmt.Sprint(sel)
		}
	}
}

func (c *mpCtx) knownFn(fn string) bool {
	switch fn {
	case "mapHas:externalAddressRouter", "cosmos-sdk/types.AccAddressFromBech32", "cosmos-sdk/types.ValAddressFromBech32",
		"cosmos-sdk/types.ValidateDenom", "transfer/types.ValidateIBCDenom", "encoding/hex.DecodeString",
		"fx/contract.ValidateEthereumAddress", "fx/types.StrToByte32", "fx/x/crosschain/types.ValidateExternalAddr", "Coin.Validate",
		"Coins.Validate", "Metadata.Validate", "fx/types.ValidateMetadata", "types/v1beta1.ValidateAbstract", "assertOk:ExternalClaim",
		`strings.TrimSpace(alias) == ""`, "IsPositive", "IsNegative", "IsZero", "SafeAdd", "GT(sdkmath.LegacyOneDec())",
		"bytes.Equal(fromAddress.Bytes(), toAddress.Bytes())", "go-ethereum/crypto.SigToPub", "*pubKey", "bytes.Equal(address.Bytes(), toAddress.Bytes())":
		return true
	}
	return reSeen.MatchString(fn)
}

func (c *mpCtx) call(name, pfx string) {
	c.depth++
	defer func() { c.depth-- }()
	p, ok := c.tbl.Progs[name]
	if !ok || c.depth > 6 {
		c.skip = "no program " + name
		return
	}
	if p.Approx {
		c.skip = "approximated program " + name
		return
	}
	c.items(p.Feats, pfx)
}

// msgProgLine describes a decoded message for the model; "" when the type has no program or cannot be described
func (e *env) msgProgLine(m proto.Message) (string, string) {
	tbl := loadMsgProgs()
	ty := reflect.TypeOf(m)
	if ty.Kind() != reflect.Ptr {
		return "", "not a pointer"
	}
	name := strings.TrimPrefix(ty.Elem().PkgPath(), modPath) + "." + ty.Elem().Name() + ".ValidateBasic"
	if _, ok := tbl.Progs[name]; !ok {
		return "", "no program"
	}
	c := &mpCtx{root: reflect.ValueOf(m), feats: map[string]string{}, tbl: tbl}
	res := hx.Try(func() error { c.call(name, ""); return nil })
	if res != "ok" {
		return "", "feature extraction failed: " + res
	}
	if c.skip != "" {
		return "", c.skip
	}
	keys := make([]string, 0, len(c.feats))
	for k := range c.feats {
		keys = append(keys, k)
	}
	sort.Strings(keys)
	var sb strings.Builder
	sb.WriteString("mvb " + name)
	for _, k := range keys {
		sb.WriteString(" " + k + "=" + c.feats[k])
	}
	return sb.String(), ""
}

