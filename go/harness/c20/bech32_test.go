package c20

// Round 5 — the bech32 decoder behind every Cosmos-address check, against the Lean model (`Model/C20Bech32.lean`).
//
//   bech <hex of the string>      real types/bech32.DecodeAndConvert -> `ok <hrp hex> <bytes hex>` | error class (from the typed
//                                 errors of github.com/cosmos/btcutil/bech32)
//   bechacc <hex of the string>   real sdk.GetFromBech32(s, fxtypes.AddressPrefix) + fxtypes.VerifyAddressFormat (what
//                                 sdk.AccAddressFromBech32 runs on a node after fxtypes.SetConfig) -> ok | empty | <class> | prefix | length
//
// Generator: valid account / validator / foreign-prefix addresses; 5-bit payloads of every length 0..40 and around the limit
// encoded with a VALID checksum (so the ConvertBits incomplete-group rule and the length rule are reached); one-character
// substitutions, case flips (whole string / one letter), truncations and extensions, separators moved to the window boundaries,
// characters outside the charset and outside the printable range at every position class, lengths 0, 7, 8, 1023, 1024, raw
// random bytes.  Any panic of the real decoder is a violation (hostile addresses reach it from every ValidateBasic).

import (
	"errors"
	"fmt"
	"strings"

	btcbech32 "github.com/cosmos/btcutil/bech32"
	sdk "github.com/cosmos/cosmos-sdk/types"
	sdkbech32 "github.com/cosmos/cosmos-sdk/types/bech32"

	fxtypes "github.com/functionx/fx-core/v8/types"

	"fxverif/harness/hx"
)

func bechClass(s string, err error) string {
	var (
		eLen  btcbech32.ErrInvalidLength
		eChar btcbech32.ErrInvalidCharacter
		eMix  btcbech32.ErrMixedCase
		eSep  btcbech32.ErrInvalidSeparatorIndex
		eNon  btcbech32.ErrNonCharsetChar
		eSum  btcbech32.ErrInvalidChecksum
		eGrp  btcbech32.ErrInvalidIncompleteGroup
	)
	switch {
	case errors.As(err, &eLen):
		if len(s) < 8 {
			return "too-short"
		}
		return "too-long"
	case errors.As(err, &eChar):
		return "invalid-char"
	case errors.As(err, &eMix):
		return "mixed-case"
	case errors.As(err, &eSep):
		return "separator"
	case errors.As(err, &eNon):
		return "non-charset"
	case errors.As(err, &eSum):
		return "checksum"
	case errors.As(err, &eGrp):
		return "incomplete-group"
	}
	return "other:" + err.Error()
}

func hexOrDash(b []byte) string {
	if len(b) == 0 {
		return "-"
	}
	return hx.Hex(b)
}

func (e *env) bech32One(s string, class string) {
	var hrp string
	var bz []byte
	var err error
	r := hx.Try(func() error { hrp, bz, err = sdkbech32.DecodeAndConvert(s); return nil })
	if isPanic(r) {
		desc := fmt.Sprintf("bech32.DecodeAndConvert panics on input class [%s] (%d bytes): %s", class, len(s), r)
		e.violate("bech32-panic", desc, []string{"# " + desc, "bech " + hexOrDash([]byte(s))})
		return
	}
	obs := ""
	if err != nil {
		obs = bechClass(s, err)
	} else {
		obs = "ok " + hexOrDash([]byte(hrp)) + " " + hexOrDash(bz)
	}
	e.out.Emit("bech "+hexOrDash([]byte(s)), obs)
	k := obs
	if err == nil {
		k = "ok"
	}
	e.out.Count("bech-" + k)
	e.out.Nontrivial("bech " + class + " " + k)

	// the account-address validator on top of it, as production composes it (cmd/root.go: fxtypes.SetConfig installs the prefix
	// `fxtypes.AddressPrefix` and the verifier `fxtypes.VerifyAddressFormat`; the in-process test application keeps the SDK defaults,
	// so the two pieces are called directly): sdk.GetFromBech32(s, AddressPrefix) then VerifyAddressFormat
	var aerr, verr error
	r = hx.Try(func() error {
		var b2 []byte
		if b2, aerr = sdk.GetFromBech32(s, fxtypes.AddressPrefix); aerr == nil {
			verr = fxtypes.VerifyAddressFormat(b2)
		}
		return nil
	})
	if isPanic(r) {
		desc := fmt.Sprintf("sdk.GetFromBech32 / fxtypes.VerifyAddressFormat panics on input class [%s] (%d bytes): %s", class, len(s), r)
		e.violate("bech32acc-panic", desc, []string{"# " + desc, "bechacc " + hexOrDash([]byte(s))})
		return
	}
	aobs := "ok"
	switch {
	case aerr == nil && verr == nil:
	case aerr == nil:
		aobs = "length"
	case len(s) == 0:
		aobs = "empty"
	case err != nil:
		aobs = bechClass(s, err)
	case strings.Contains(aerr.Error(), "invalid Bech32 prefix"):
		aobs = "prefix"
	default:
		aobs = "other:" + aerr.Error()
	}
	e.out.Emit("bechacc "+hexOrDash([]byte(s)), aobs)
	e.out.Count("bechacc-" + aobs)
}

func (e *env) bech32Sweep() {
	e.out.Reset("bech32")
	rng := e.rng
	const cs = "qpzry9x8gf2tvdw0s3jn54khce6mua7l"
	randBytes := func(n int) []byte { b := make([]byte, n); rng.Read(b); return b }
	enc5 := func(hrp string, n int) string {
		vals := make([]byte, n)
		for i := range vals {
			vals[i] = byte(rng.Intn(32))
		}
		if rng.Intn(2) == 0 && n > 0 {
			vals[n-1] = 0 // zero padding bits: accepted when at most 4 of them
		}
		s, err := btcbech32.Encode(hrp, vals)
		if err != nil {
			return hrp + "1"
		}
		return s
	}
	var valid []string
	for i := 0; i < hx.N(6, 40); i++ {
		b := randBytes(20)
		valid = append(valid, sdk.AccAddress(b).String(), sdk.ValAddress(b).String())
		for _, hrp := range []string{"fx", "fx", "fxvaloper", "cosmos", "f", "fx1", "a", strings.Repeat("h", 83), "fX"[0:1] + "x", "~!"} {
			if s, err := sdkbech32.ConvertAndEncode(hrp, randBytes([]int{0, 1, 19, 20, 20, 20, 21, 32, 33, 255}[rng.Intn(10)])); err == nil {
				valid = append(valid, s)
			}
		}
	}
	for _, s := range valid {
		e.bech32One(s, "valid encoding")
	}
	// 5-bit payloads of every small length with a valid checksum; and at the length limit
	for n := 0; n <= 40; n++ {
		e.bech32One(enc5("fx", n), fmt.Sprintf("valid checksum, %d five-bit groups", n))
		e.bech32One(enc5("a", n), fmt.Sprintf("valid checksum, %d five-bit groups", n))
	}
	for _, total := range []int{1022, 1023, 1024, 1025, 90, 91} {
		e.bech32One(enc5("fx", total-9), fmt.Sprintf("valid checksum, total length %d", total))
	}
	// fixed boundary strings
	for _, s := range []string{"", " ", "\t\n", "1", "a1", "a12uel5", "a12uel5l", "A12UEL5L", "a12UEL5L", "1qqqqqqq", "11qqqqqq", "a1qqqqq1", "aqqqqqqqq",
		"a1qqqqqq", "a1qqqqqqq", "\x00a12uel5l", "a12uel5l\x00", "a12uel5l ", "é12uel5l", "a12uel5\x7f", "a1b2uel5l", "a1i2uel5l", "a1o2uel5l",
		strings.Repeat("1", 8), strings.Repeat("1", 1023), strings.Repeat("q", 1024), "fx1" + strings.Repeat("q", 1020), "fx1" + strings.Repeat("q", 1021)} {
		e.bech32One(s, "boundary string")
	}
	// mutations of valid encodings
	n := hx.N(400, 6000)
	for i := 0; i < n; i++ {
		s := []byte(valid[rng.Intn(len(valid))])
		class := ""
		switch rng.Intn(12) {
		case 0:
			class = "one data character substituted (charset)"
			s[len(s)-1-rng.Intn(minInt(len(s), 38))] = cs[rng.Intn(32)]
		case 1:
			class = "one character substituted (any byte)"
			s[rng.Intn(len(s))] = byte(rng.Intn(256))
		case 2:
			class = "upper case"
			s = []byte(strings.ToUpper(string(s)))
		case 3:
			class = "one letter flipped to upper case"
			p := rng.Intn(len(s))
			s[p] = strings.ToUpper(string(s[p : p+1]))[0]
		case 4:
			class = "truncated"
			s = s[:rng.Intn(len(s))]
		case 5:
			class = "extended"
			for k := rng.Intn(4) + 1; k > 0; k-- {
				s = append(s, cs[rng.Intn(32)])
			}
		case 6:
			class = "separator inserted"
			p := rng.Intn(len(s) + 1)
			s = append(s[:p:p], append([]byte{'1'}, s[p:]...)...)
		case 7:
			class = "separator removed"
			s = []byte(strings.Replace(string(s), "1", "", 1))
		case 8:
			class = "character outside the printable range inserted"
			p := rng.Intn(len(s) + 1)
			s = append(s[:p:p], append([]byte{[]byte{0, 9, 10, 32, 127, 128, 255}[rng.Intn(7)]}, s[p:]...)...)
		case 9:
			class = "non-charset letter in the data part"
			s[len(s)-1-rng.Intn(minInt(len(s), 38))] = "bio1BIO"[rng.Intn(7)]
		case 10:
			class = "random bytes"
			s = randBytes(rng.Intn(60))
		case 11:
			class = "two strings joined"
			s = append(s, valid[rng.Intn(len(valid))]...)
		}
		e.bech32One(string(s), class)
	}
}

func minInt(a, b int) int {
	if a < b {
		return a
	}
	return b
}
