package c20

// C20 harness: validation and failing-input search on the REAL code (never a substitute for the theorems).
//  1. message sweep: every Msg implementation in the app's interface registry x (zero value, raw random bytes, and — for
//     the fx-core types — valid templates mutated at the protobuf wire level: every field (recursively) dropped,
//     emptied, replaced by huge / negative / wrong-charset / non-UTF8 / random payloads, varints set to 0/1/max) →
//     app codec Unmarshal → ValidateBasic → codec GetSigners, all under recover.  A panic is a monitor violation.
//  2. IBC memo packets: JSON memos (fields absent / wrong types) → UnmarshalInterfaceJSON → ValidateBasic.
//  3. precompiles: every method of the crosschain and staking ABIs x (valid-typed random args, mutated, truncated,
//     random calldata) through the real EVM (EvmKeeper.CallEVM → Contract.Run → UnpackInput → ParseMethodArgs → Validate).
//  4. pure decoders vs the Lean model: ParseFxTarget, StrToByte32, hex strings (correspondence lines); ParseAddress /
//     ValidateEthereumAddress under recover with a format monitor.
//  5. fee rule vs the Lean definition generated from ante/fees.go: (a) CheckTxFeees.Check directly on unsigned txs over
//     a wide input space (gas 0 … 2^64-1, unsorted fees, zero prices), (b) the full ante handler in CheckTx mode on
//     signed transactions (random exempt sets, allowances, gas around n·allowance ±1, fees around ⌈price·gas⌉ ±1).
//  6. hostile transactions into the real ante handler (more signer infos than signers, multisig bit arrays out of range,
//     zero gas, gas above the block limit): must return an error, never panic.

import (
	"context"
	"encoding/hex"
	"encoding/json"
	"errors"
	"fmt"
	"math/big"
	"math/rand"
	"os"
	"reflect"
	"sort"
	"strings"
	"testing"
	"unicode/utf8"

	sdkmath "cosmossdk.io/math"
	"github.com/cosmos/cosmos-sdk/client"
	clienttx "github.com/cosmos/cosmos-sdk/client/tx"
	codectypes "github.com/cosmos/cosmos-sdk/codec/types"
	"github.com/cosmos/cosmos-sdk/crypto/keys/multisig"
	cryptotypes "github.com/cosmos/cosmos-sdk/crypto/types"
	sdk "github.com/cosmos/cosmos-sdk/types"
	"github.com/cosmos/cosmos-sdk/types/bech32"
	sdkerrors "github.com/cosmos/cosmos-sdk/types/errors"
	txtypes "github.com/cosmos/cosmos-sdk/types/tx"
	"github.com/cosmos/cosmos-sdk/types/tx/signing"
	authsigning "github.com/cosmos/cosmos-sdk/x/auth/signing"
	authtypes "github.com/cosmos/cosmos-sdk/x/auth/types"
	banktypes "github.com/cosmos/cosmos-sdk/x/bank/types"
	distrtypes "github.com/cosmos/cosmos-sdk/x/distribution/types"
	govtypes "github.com/cosmos/cosmos-sdk/x/gov/types"
	stakingtypes "github.com/cosmos/cosmos-sdk/x/staking/types"
	"github.com/cosmos/gogoproto/proto"
	"github.com/ethereum/go-ethereum/accounts/abi"
	"github.com/ethereum/go-ethereum/common"
	"google.golang.org/protobuf/encoding/protowire"

	fxante "github.com/functionx/fx-core/v8/ante"
	fxapp "github.com/functionx/fx-core/v8/app"
	"github.com/functionx/fx-core/v8/contract"
	"github.com/functionx/fx-core/v8/testutil/helpers"
	fxtypes "github.com/functionx/fx-core/v8/types"
	crosschaintypes "github.com/functionx/fx-core/v8/x/crosschain/types"
	erc20types "github.com/functionx/fx-core/v8/x/erc20/types"
	fxevmtypes "github.com/functionx/fx-core/v8/x/evm/types"
	fxgovtypes "github.com/functionx/fx-core/v8/x/gov/types"
	ibcmwtypes "github.com/functionx/fx-core/v8/x/ibc/middleware/types"
	migratetypes "github.com/functionx/fx-core/v8/x/migrate/types"
	fxstakingtypes "github.com/functionx/fx-core/v8/x/staking/types"

	"fxverif/harness/hx"
)

const modPath = "github.com/functionx/fx-core/v8/"

type env struct {
	mvbN map[string]int
	s   *hx.Suite
	out *hx.Out
	rng *rand.Rand
	dep map[string]int // panics inside dependency message types (recorded, not fx-core violations)
	seenV map[string]int
}

// violate records one violation per distinct key (first failing input as replay), counting the rest
func (e *env) violate(key, desc string, replay []string) {
	e.seenV[key]++
	if e.seenV[key] > 1 {
		return
	}
	e.out.ViolateWith(desc, replay)
}

func isPanic(r string) bool { return strings.HasPrefix(r, "panic:") }

func short(b []byte) string {
	if len(b) > 1200 {
		return hex.EncodeToString(b[:1200]) + fmt.Sprintf("…(%d bytes)", len(b))
	}
	return hex.EncodeToString(b)
}

// ---------------------------------------------------------------------------------------------------------
// 1. message sweep

func (e *env) isFx(m proto.Message) bool {
	return strings.HasPrefix(reflect.TypeOf(m).Elem().PkgPath(), modPath)
}

// checkDecoded runs ValidateBasic and the codec's GetSigners on a decoded message; returns outcome kinds
func (e *env) checkDecoded(url string, m proto.Message, class string, wire []byte) {
	fx := e.isFx(m)
	report := func(stage, res string) {
		desc := fmt.Sprintf("panic in %s of %s on input class [%s]: %s", stage, url, class, res)
		if fx {
			if strings.HasPrefix(class, "corpus witness") {
				class = "corpus"
			}
			e.violate(stage+" "+url+" "+fieldOf(class), desc, []string{"# " + desc, "msg " + url + " " + short(wire)})
		} else {
			e.dep[url+" "+stage]++
		}
	}
	if vb, ok := m.(sdk.HasValidateBasic); ok {
		res := hx.Try(func() error { return vb.ValidateBasic() })
		if fx {
			e.mvb(url, m, class, res)
		}
		switch {
		case isPanic(res):
			e.out.Count("vb-panic")
			report("ValidateBasic", res)
		case res == "ok":
			e.out.Count("vb-ok")
			e.out.Nontrivial("vb-ok " + url)
		default:
			e.out.Count("vb-err")
			e.out.Nontrivial("vb-err " + url + " " + errKind(res))
		}
	}
	res := hx.Try(func() error {
		_, _, err := e.s.App.AppCodec().GetMsgV1Signers(m)
		return err
	})
	if isPanic(res) {
		e.out.Count("signers-panic")
		report("GetSigners(codec)", res)
	} else if res == "ok" {
		e.out.Count("signers-ok")
	} else {
		e.out.Count("signers-err")
	}
}

// mvb: the regenerated validation program (Gen/C20Msg.lean) must give the verdict of the real ValidateBasic
func (e *env) mvb(url string, m proto.Message, class, res string) {
	if e.mvbN == nil {
		e.mvbN = map[string]int{}
	}
	always := strings.HasSuffix(class, " absent") || strings.HasSuffix(class, " empty") || class == "valid template" || strings.HasPrefix(class, "corpus") || strings.HasPrefix(class, "zero value")
	if !always && e.mvbN[url] >= hx.N(120, 3000) {
		return
	}
	line, why := e.msgProgLine(m)
	if line == "" {
		e.out.Count("mvb-skipped: " + why)
		return
	}
	e.mvbN[url]++
	verdict := "err"
	switch {
	case isPanic(res):
		verdict = "panic"
	case res == "ok":
		verdict = "ok"
	}
	e.out.Count("mvb-" + verdict)
	e.out.Emit(line, verdict)
}

// fieldOf extracts the field path of a mutation class ("field 4.2 absent" -> "4.2")
func fieldOf(class string) string {
	w := strings.Fields(class)
	if len(w) >= 2 && w[0] == "field" {
		return w[1]
	}
	return class
}

func errKind(res string) string {
	s := strings.TrimPrefix(res, "err:")
	if i := strings.LastIndex(s, ": "); i >= 0 {
		s = s[i+2:]
	}
	if len(s) > 40 {
		s = s[:40]
	}
	return s
}

func (e *env) decodeAndCheck(url string, wire []byte, class string) {
	m, err := e.s.App.InterfaceRegistry().Resolve(url)
	if err != nil {
		return
	}
	res := hx.Try(func() error { return e.s.App.AppCodec().Unmarshal(wire, m) })
	e.out.Stats.Evaluations++
	if isPanic(res) {
		e.out.Count("unmarshal-panic")
		desc := fmt.Sprintf("panic in codec Unmarshal of %s on input class [%s]: %s", url, class, res)
		if e.isFx(m) {
			e.violate("Unmarshal "+url, desc, []string{"# " + desc, "msg " + url + " " + short(wire)})
		} else {
			e.dep[url+" Unmarshal"]++
		}
		return
	}
	if res != "ok" {
		e.out.Count("unmarshal-err")
		return
	}
	e.out.Count("unmarshal-ok")
	e.checkDecoded(url, m, class, wire)
}

type wfield struct {
	num protowire.Number
	typ protowire.Type
	raw []byte // full encoding of the field (tag + value)
	val []byte // payload for BytesType
	v   uint64 // varint / fixed value
}

func parseWire(b []byte) ([]wfield, bool) {
	var out []wfield
	for len(b) > 0 {
		num, typ, n := protowire.ConsumeTag(b)
		if n < 0 {
			return nil, false
		}
		m := protowire.ConsumeFieldValue(num, typ, b[n:])
		if m < 0 {
			return nil, false
		}
		f := wfield{num: num, typ: typ, raw: b[:n+m]}
		switch typ {
		case protowire.BytesType:
			v, _ := protowire.ConsumeBytes(b[n:])
			f.val = v
		case protowire.VarintType:
			f.v, _ = protowire.ConsumeVarint(b[n:])
		}
		out = append(out, f)
		b = b[n+m:]
	}
	return out, true
}

func encBytes(num protowire.Number, v []byte) []byte {
	return protowire.AppendBytes(protowire.AppendTag(nil, num, protowire.BytesType), v)
}

func encVarint(num protowire.Number, v uint64) []byte {
	return protowire.AppendVarint(protowire.AppendTag(nil, num, protowire.VarintType), v)
}

func join(fs []wfield, i int, repl []byte) []byte {
	var out []byte
	for j, f := range fs {
		if j == i {
			out = append(out, repl...)
		} else {
			out = append(out, f.raw...)
		}
	}
	return out
}

type mutation struct {
	class string
	wire  []byte
}

var payloads = []struct {
	name string
	v    []byte
}{
	{"empty", nil}, {"zero", []byte("0")}, {"negative", []byte("-1")}, {"negative-big", []byte("-" + strings.Repeat("9", 90))},
	{"huge-number", []byte(strings.Repeat("9", 400))}, {"decimal", []byte("0.5")}, {"wrong-charset", []byte("ÿþ Ω€ not/an address")},
	{"non-utf8", []byte{0xff, 0xfe, 0x80, 0x00, 0xc3}}, {"long", []byte(strings.Repeat("a", 20000))},
	{"hex-odd", []byte("abc")}, {"0x", []byte("0x")}, {"space", []byte("  ")}, {"nul", []byte{0}},
	{"bech32-junk", []byte("fx1qqqqqqqqqqqqqqqqqqqqqqqqqqqqqqqqqqqqqq")}, {"eth-lower", []byte("0x" + strings.Repeat("ab", 20))},
	{"eth-zero", []byte("0x0000000000000000000000000000000000000000")},
	// well-formed hex of boundary lengths (signatures are 65 bytes, hashes 32, addresses 20)
	{"hex-1B", []byte("00")}, {"hex-2B", []byte("abcd")}, {"hex-20B", []byte(strings.Repeat("ab", 20))}, {"hex-32B", []byte(strings.Repeat("ab", 32))},
	{"hex-64B", []byte(strings.Repeat("1b", 64))}, {"hex-65B", []byte(strings.Repeat("1b", 65))}, {"hex-66B", []byte(strings.Repeat("1b", 66))},
}

// mutations of a wire message, recursively into length-delimited fields that parse as messages
func mutate(b []byte, path string, depth int, rng *rand.Rand, out *[]mutation) {
	fs, ok := parseWire(b)
	if !ok {
		return
	}
	for i, f := range fs {
		p := fmt.Sprintf("%s%d", path, f.num)
		*out = append(*out, mutation{"field " + p + " absent", join(fs, i, nil)})
		*out = append(*out, mutation{"field " + p + " duplicated", join(fs, i, append(append([]byte{}, f.raw...), f.raw...))})
		switch f.typ {
		case protowire.BytesType:
			for _, pl := range payloads {
				*out = append(*out, mutation{"field " + p + " = " + pl.name, join(fs, i, encBytes(f.num, pl.v))})
			}
			rb := make([]byte, 1+rng.Intn(40))
			rng.Read(rb)
			*out = append(*out, mutation{"field " + p + " = random bytes", join(fs, i, encBytes(f.num, rb))})
			if len(f.val) > 0 {
				fl := append([]byte{}, f.val...)
				fl[rng.Intn(len(fl))] ^= byte(1 << uint(rng.Intn(8)))
				*out = append(*out, mutation{"field " + p + " bit flipped", join(fs, i, encBytes(f.num, fl))})
				*out = append(*out, mutation{"field " + p + " truncated", join(fs, i, encBytes(f.num, f.val[:len(f.val)/2]))})
			}
			*out = append(*out, mutation{"field " + p + " as varint", join(fs, i, encVarint(f.num, uint64(rng.Int63())))})
			if depth > 0 && len(f.val) > 1 {
				var sub []mutation
				mutate(f.val, p+".", depth-1, rng, &sub)
				for _, sm := range sub {
					*out = append(*out, mutation{sm.class, join(fs, i, encBytes(f.num, sm.wire))})
				}
			}
		case protowire.VarintType:
			for _, v := range []uint64{0, 1, 1<<63 - 1, 1 << 63, 1<<64 - 1} {
				*out = append(*out, mutation{fmt.Sprintf("field %s = varint %d", p, v), join(fs, i, encVarint(f.num, v))})
			}
			*out = append(*out, mutation{"field " + p + " as bytes", join(fs, i, encBytes(f.num, []byte("x")))})
		}
	}
	// unknown extra field, trailing garbage
	*out = append(*out, mutation{"unknown field " + path + "999", append(append([]byte{}, b...), encBytes(999, []byte("x"))...)})
	*out = append(*out, mutation{"truncated message " + path, b[:len(b)/2]})
}

func (e *env) templates() []sdk.Msg {
	acc := func() string { return helpers.GenAccAddress().String() }
	val := func() string { return sdk.ValAddress(helpers.GenAccAddress()).String() }
	gov := authtypes.NewModuleAddress(govtypes.ModuleName).String()
	var out []sdk.Msg
	coin := func(n int64) sdk.Coin { return sdk.NewCoin(fxtypes.DefaultDenom, sdkmath.NewInt(n)) }
	sig := strings.Repeat("ab", 65)
	for _, chain := range []string{"eth", "tron"} {
		ext := func() string { return helpers.GenExternalAddr(chain) }
		claims := []crosschaintypes.ExternalClaim{
			&crosschaintypes.MsgSendToFxClaim{EventNonce: 1, BlockHeight: 2, TokenContract: ext(), Amount: sdkmath.NewInt(5), Sender: ext(), Receiver: acc(), TargetIbc: hex.EncodeToString([]byte("px/transfer/channel-0")), BridgerAddress: acc(), ChainName: chain},
			&crosschaintypes.MsgBridgeCallClaim{ChainName: chain, BridgerAddress: acc(), EventNonce: 1, BlockHeight: 2, Sender: ext(), Refund: ext(), TokenContracts: []string{ext(), ext()}, Amounts: []sdkmath.Int{sdkmath.NewInt(1), sdkmath.NewInt(2)}, To: ext(), Data: "abcd", Value: sdkmath.ZeroInt(), Memo: "00", TxOrigin: ext()},
			&crosschaintypes.MsgBridgeCallResultClaim{ChainName: chain, BridgerAddress: acc(), EventNonce: 1, BlockHeight: 2, Nonce: 3, TxOrigin: ext(), Success: true, Cause: "00"},
			&crosschaintypes.MsgSendToExternalClaim{EventNonce: 1, BlockHeight: 2, BatchNonce: 3, TokenContract: ext(), BridgerAddress: acc(), ChainName: chain},
			&crosschaintypes.MsgBridgeTokenClaim{EventNonce: 1, BlockHeight: 2, TokenContract: ext(), Name: "Tok", Symbol: "TOK", Decimals: 18, BridgerAddress: acc(), ChannelIbc: hex.EncodeToString([]byte("transfer/channel-0")), ChainName: chain},
			&crosschaintypes.MsgOracleSetUpdatedClaim{EventNonce: 1, BlockHeight: 2, OracleSetNonce: 3, Members: []crosschaintypes.BridgeValidator{{Power: 10, ExternalAddress: ext()}, {Power: 20, ExternalAddress: ext()}}, BridgerAddress: acc(), ChainName: chain},
		}
		for _, c := range claims {
			out = append(out, c.(sdk.Msg))
			any, err := codectypes.NewAnyWithValue(c)
			if err == nil {
				out = append(out, &crosschaintypes.MsgClaim{ChainName: chain, BridgerAddress: acc(), Claim: any})
			}
		}
		// a MsgClaim wrapping a non-claim
		if any, err := codectypes.NewAnyWithValue(&banktypes.MsgSend{FromAddress: acc(), ToAddress: acc()}); err == nil {
			out = append(out, &crosschaintypes.MsgClaim{ChainName: chain, BridgerAddress: acc(), Claim: any})
		}
		params := crosschaintypes.DefaultParams()
		params.GravityId = "fx-" + chain + "-bridge"
		params.Oracles = nil
		out = append(out,
			&crosschaintypes.MsgBondedOracle{ChainName: chain, OracleAddress: acc(), BridgerAddress: acc(), ExternalAddress: ext(), ValidatorAddress: val(), DelegateAmount: coin(100)},
			&crosschaintypes.MsgAddDelegate{ChainName: chain, OracleAddress: acc(), Amount: coin(10)},
			&crosschaintypes.MsgReDelegate{ChainName: chain, OracleAddress: acc(), ValidatorAddress: val()},
			&crosschaintypes.MsgEditBridger{ChainName: chain, OracleAddress: acc(), BridgerAddress: val()},
			&crosschaintypes.MsgWithdrawReward{ChainName: chain, OracleAddress: acc()},
			&crosschaintypes.MsgUnbondedOracle{ChainName: chain, OracleAddress: acc()},
			&crosschaintypes.MsgOracleSetConfirm{Nonce: 1, BridgerAddress: acc(), ExternalAddress: ext(), Signature: sig, ChainName: chain},
			&crosschaintypes.MsgSendToExternal{Sender: acc(), Dest: ext(), Amount: coin(10), BridgeFee: coin(1), ChainName: chain},
			&crosschaintypes.MsgRequestBatch{Sender: acc(), Denom: "eth0x1", MinimumFee: sdkmath.NewInt(1), FeeReceive: ext(), ChainName: chain, BaseFee: sdkmath.ZeroInt()},
			&crosschaintypes.MsgConfirmBatch{Nonce: 1, TokenContract: ext(), BridgerAddress: acc(), ExternalAddress: ext(), Signature: sig, ChainName: chain},
			&crosschaintypes.MsgBridgeCallConfirm{ChainName: chain, BridgerAddress: acc(), ExternalAddress: ext(), Nonce: 1, Signature: sig},
			&crosschaintypes.MsgCancelSendToExternal{TransactionId: 1, Sender: acc(), ChainName: chain},
			&crosschaintypes.MsgIncreaseBridgeFee{ChainName: chain, TransactionId: 1, Sender: acc(), AddBridgeFee: coin(1)},
			&crosschaintypes.MsgUpdateParams{ChainName: chain, Authority: gov, Params: params},
			&crosschaintypes.MsgUpdateChainOracles{ChainName: chain, Authority: gov, Oracles: []string{acc(), acc()}},
			&crosschaintypes.MsgBridgeCall{ChainName: chain, Sender: acc(), Refund: acc(), Coins: sdk.NewCoins(coin(3), sdk.NewCoin("usdt", sdkmath.NewInt(4))), To: ext(), Data: "abcd", Value: sdkmath.ZeroInt(), Memo: "00"},
			&crosschaintypes.MsgBridgeCall{ChainName: chain, Sender: acc(), To: ext(), Data: "abcd", Value: sdkmath.ZeroInt()},
		)
	}
	vp := fxgovtypes.NewCustomParams("0.5", 1000000000, "0.3")
	out = append(out,
		&erc20types.MsgConvertCoin{Coin: coin(5), Receiver: helpers.GenHexAddress().String(), Sender: acc()},
		&erc20types.MsgConvertERC20{ContractAddress: helpers.GenHexAddress().String(), Amount: sdkmath.NewInt(3), Receiver: acc(), Sender: helpers.GenHexAddress().String()},
		&erc20types.MsgRegisterERC20{Authority: gov, Erc20Address: helpers.GenHexAddress().String(), Aliases: []string{"aliasa", "aliasb"}},
		&erc20types.MsgConvertDenom{Sender: acc(), Receiver: acc(), Coin: coin(5), Target: "eth"},
		&erc20types.MsgUpdateParams{Authority: gov, Params: erc20types.DefaultParams()},
		&erc20types.MsgRegisterCoin{Authority: gov, Metadata: fxtypes.GetCrossChainMetadataManyToOne("Test Token", "TTK", 18)},
		&erc20types.MsgToggleTokenConversion{Authority: gov, Token: fxtypes.DefaultDenom},
		&erc20types.MsgUpdateDenomAlias{Authority: gov, Denom: fxtypes.DefaultDenom, Alias: "aliasx"},
		&fxevmtypes.MsgCallContract{Authority: gov, ContractAddress: helpers.GenHexAddress().String(), Data: "01"},
		&fxgovtypes.MsgUpdateStore{Authority: gov, UpdateStores: []fxgovtypes.UpdateStore{{Space: "erc20", Key: "fe01", OldValue: "", Value: "01"}}},
		&fxgovtypes.MsgUpdateSwitchParams{Authority: gov, Params: fxgovtypes.SwitchParams{DisableMsgTypes: []string{sdk.MsgTypeURL(&banktypes.MsgSend{})}}},
		&fxgovtypes.MsgUpdateCustomParams{Authority: gov, MsgUrl: sdk.MsgTypeURL(&distrtypes.MsgCommunityPoolSpend{}), CustomParams: *vp},
		&migratetypes.MsgMigrateAccount{From: acc(), To: helpers.GenHexAddress().String(), Signature: strings.Repeat("11", 65)},
	)
	return out
}

func (e *env) msgSweep() {
	reg := e.s.App.InterfaceRegistry()
	urls := reg.ListImplementations(sdk.MsgInterfaceProtoName)
	sort.Strings(urls)
	e.out.Stats.Extra["registered_msg_types"] = len(urls)
	nRand := hx.N(40, 400)
	fxTypes := map[string]bool{}
	for _, u := range urls {
		m, err := reg.Resolve(u)
		if err != nil {
			continue
		}
		if e.isFx(m) {
			fxTypes[u] = true
		}
		e.out.Count("msg-type")
		// zero value
		e.decodeAndCheck(u, nil, "zero value (every field absent)")
		// raw random bytes, and random bytes with a plausible structure
		for i := 0; i < nRand; i++ {
			b := make([]byte, e.rng.Intn(64))
			e.rng.Read(b)
			e.decodeAndCheck(u, b, "raw random bytes")
			var w []byte
			for k := 0; k < 1+e.rng.Intn(6); k++ {
				num := protowire.Number(1 + e.rng.Intn(14))
				if e.rng.Intn(3) == 0 {
					w = append(w, encVarint(num, e.rng.Uint64()>>uint(e.rng.Intn(64)))...)
				} else {
					pl := payloads[e.rng.Intn(len(payloads))].v
					if len(pl) > 500 {
						pl = pl[:500]
					}
					w = append(w, encBytes(num, pl)...)
				}
			}
			e.decodeAndCheck(u, w, "random well-formed fields")
		}
	}
	// templates of the fx-core types, valid then mutated on the wire
	covered := map[string]bool{}
	tpls := e.templates()
	budget := hx.N(1500, 100000) // mutations per template (quick tier samples)
	for _, t := range tpls {
		u := sdk.MsgTypeURL(t)
		covered[u] = true
		wire, err := e.s.App.AppCodec().Marshal(t)
		if err != nil {
			e.out.Violate("harness: template of " + u + " does not marshal: " + err.Error())
			continue
		}
		if vb, ok := t.(sdk.HasValidateBasic); ok {
			if res := hx.Try(func() error { return vb.ValidateBasic() }); res != "ok" {
				e.out.Count("template-not-valid " + u)
				e.out.Stats.Extra["template-invalid "+u] = res
			} else {
				e.out.Count("template-valid")
			}
		}
		e.decodeAndCheck(u, wire, "valid template")
		var ms []mutation
		mutate(wire, "", 3, e.rng, &ms)
		if len(ms) > budget {
			// always keep the "absent" mutations (the nil Int/Dec/Coin class), sample the rest
			var keep, rest []mutation
			for _, m := range ms {
				if strings.HasSuffix(m.class, " absent") {
					keep = append(keep, m)
				} else {
					rest = append(rest, m)
				}
			}
			e.rng.Shuffle(len(rest), func(i, j int) { rest[i], rest[j] = rest[j], rest[i] })
			if n := budget - len(keep); n > 0 && n < len(rest) {
				rest = rest[:n]
			}
			ms = append(keep, rest...)
		}
		for _, m := range ms {
			e.out.Count("mutation")
			e.decodeAndCheck(u, m.wire, m.class)
		}
	}
	var missing []string
	for u := range fxTypes {
		if !covered[u] {
			missing = append(missing, u)
		}
	}
	sort.Strings(missing)
	e.out.Stats.Extra["fx_msg_types_without_template"] = missing
	e.out.Stats.Extra["fx_msg_types"] = len(fxTypes)
}

// corpus: witnesses kept from earlier findings (`msg <type-url> <wire hex>` lines), replayed first
func (e *env) corpus() {
	dir := os.Getenv("VERIF_CORPUS")
	ents, err := os.ReadDir(dir)
	if dir == "" || err != nil {
		return
	}
	for _, ent := range ents {
		for _, l := range hx.ReadLines(dir + "/" + ent.Name()) {
			w := strings.Fields(l)
			if len(w) == 3 && w[0] == "msg" {
				if b, err := hex.DecodeString(w[2]); err == nil {
					e.out.Count("corpus")
					e.decodeAndCheck(w[1], b, "corpus witness "+ent.Name())
				}
			}
			// `bech <hex>`: a string for the bech32 decoder (BIP-173 test vectors and boundary strings), compared with the Lean model
			if len(w) == 2 && w[0] == "bech" {
				if b, err := hex.DecodeString(strings.TrimPrefix(w[1], "-")); err == nil {
					e.out.Count("corpus")
					e.bech32One(string(b), "corpus witness "+ent.Name())
				}
			}
		}
	}
}

// ---------------------------------------------------------------------------------------------------------
// 2. IBC memo packets

func (e *env) memoSweep() {
	to := helpers.GenHexAddress().String()
	typ := "/" + proto.MessageName(&ibcmwtypes.IbcCallEvmPacket{})
	base := map[string]any{"@type": typ, "to": to, "data": "abcd", "value": "0"}
	var memos []struct{ class, js string }
	add := func(class string, m map[string]any) {
		bz, _ := json.Marshal(m)
		memos = append(memos, struct{ class, js string }{class, string(bz)})
	}
	add("valid", base)
	for _, k := range []string{"to", "data", "value"} {
		m := map[string]any{}
		for kk, v := range base {
			if kk != k {
				m[kk] = v
			}
		}
		add("memo JSON without `"+k+"`", m)
		for _, pl := range []any{"", "-1", "abc", strings.Repeat("9", 300), 5, nil, []string{"x"}, "0x", "ÿ"} {
			m2 := map[string]any{}
			for kk, v := range base {
				m2[kk] = v
			}
			m2[k] = pl
			add(fmt.Sprintf("memo JSON `%s` = %v", k, pl), m2)
		}
	}
	for _, mm := range memos {
		var mp ibcmwtypes.MemoPacket
		res := hx.Try(func() error { return e.s.App.AppCodec().UnmarshalInterfaceJSON([]byte(mm.js), &mp) })
		e.out.Stats.Evaluations++
		if isPanic(res) {
			e.out.ViolateWith("panic in UnmarshalInterfaceJSON of IBC memo packet on input class ["+mm.class+"]: "+res, []string{"memo " + mm.js})
			continue
		}
		if res != "ok" || mp == nil {
			e.out.Count("memo-decode-err")
			continue
		}
		if p, ok := mp.(*ibcmwtypes.IbcCallEvmPacket); ok && p.Value.IsNil() {
			// the reviewed-safe argument for IbcCallEvmPacket.ValidateBasic rests on this never happening
			e.violate("memo-nil", "JSON memo decoding left IbcCallEvmPacket.Value nil on input class ["+mm.class+"] (ValidateBasic dereferences it)", []string{"memo " + mm.js})
		}
		r2 := hx.Try(func() error { return mp.ValidateBasic() })
		e.out.Count("memo-vb-" + strings.SplitN(r2, ":", 2)[0])
		e.out.Nontrivial("memo " + mm.class + " " + strings.SplitN(r2, ":", 2)[0])
		if isPanic(r2) {
			desc := "panic in ValidateBasic of IbcCallEvmPacket on input class [" + mm.class + "]: " + r2
			e.violate("memo-vb", desc, []string{"# " + desc, "memo " + mm.js})
		}
	}
}

// ---------------------------------------------------------------------------------------------------------
// 3. precompiles

func randABIValue(t abi.Type, rng *rand.Rand) any {
	switch t.T {
	case abi.AddressTy:
		if rng.Intn(5) == 0 {
			return common.Address{}
		}
		return helpers.GenHexAddress()
	case abi.UintTy, abi.IntTy:
		var v *big.Int
		switch rng.Intn(5) {
		case 0:
			v = big.NewInt(0)
		case 1:
			v = big.NewInt(1)
		case 2:
			v = new(big.Int).Sub(new(big.Int).Lsh(big.NewInt(1), uint(t.Size)), big.NewInt(1))
		default:
			v = big.NewInt(rng.Int63())
		}
		if t.T == abi.IntTy {
			v = big.NewInt(-rng.Int63n(1000))
		}
		switch {
		case t.Size == 8 && t.T == abi.UintTy:
			return uint8(v.Uint64())
		case t.Size == 16 && t.T == abi.UintTy:
			return uint16(v.Uint64())
		case t.Size == 32 && t.T == abi.UintTy:
			return uint32(v.Uint64())
		case t.Size == 64 && t.T == abi.UintTy:
			return v.Uint64()
		}
		return v
	case abi.BoolTy:
		return rng.Intn(2) == 0
	case abi.StringTy:
		return hx.Pick(rng, []string{"", "eth", "bsc", "tron", "nope", sdk.ValAddress(helpers.GenAccAddress()).String(), helpers.GenAccAddress().String(),
			helpers.GenHexAddress().String(), "\xff\xfe", strings.Repeat("x", 3000), "chain/gravity", "ibc/0/px"})
	case abi.BytesTy:
		b := make([]byte, rng.Intn(70))
		rng.Read(b)
		return b
	case abi.FixedBytesTy:
		arr := reflect.New(t.GetType()).Elem()
		if rng.Intn(3) != 0 {
			s := hx.Pick(rng, []string{"eth", "bsc", "chain/gravity", "ibc/0/px", "px/transfer/channel-0", "\xff"})
			for i := 0; i < len(s) && i < t.Size; i++ {
				arr.Index(i).SetUint(uint64(s[i]))
			}
		}
		return arr.Interface()
	case abi.SliceTy:
		n := rng.Intn(4)
		sl := reflect.MakeSlice(t.GetType(), 0, n)
		for i := 0; i < n; i++ {
			sl = reflect.Append(sl, reflect.ValueOf(randABIValue(*t.Elem, rng)))
		}
		return sl.Interface()
	}
	return nil
}

func (e *env) precompileSweep() {
	signer := e.s.AddTestSigner(1000)
	n := hx.N(70, 700)
	type pc struct {
		name string
		addr common.Address
		abi  abi.ABI
	}
	for _, p := range []pc{{"crosschain", crosschaintypes.GetAddress(), crosschaintypes.GetABI()}, {"staking", fxstakingtypes.GetAddress(), fxstakingtypes.GetABI()}} {
		var names []string
		for name := range p.abi.Methods {
			names = append(names, name)
		}
		sort.Strings(names)
		e.out.Stats.Extra["precompile_methods_"+p.name] = len(names)
		for _, name := range names {
			m := p.abi.Methods[name]
			for i := 0; i < n; i++ {
				var data []byte
				class := ""
				switch k := i % 7; {
				case k <= 2:
					var args []any
					okArgs := true
					for _, in := range m.Inputs {
						v := randABIValue(in.Type, e.rng)
						if v == nil {
							okArgs = false
						}
						args = append(args, v)
					}
					packed, err := m.Inputs.Pack(args...)
					if !okArgs || err != nil {
						packed = make([]byte, 32*len(m.Inputs))
					}
					data = append(append([]byte{}, m.ID...), packed...)
					class = "well-typed random arguments"
					if k == 2 && len(packed) > 0 {
						// corrupt one word (offsets / lengths included)
						w := e.rng.Intn(len(packed)/32+1) * 32
						for j := w; j < w+32 && j < len(packed); j++ {
							if e.rng.Intn(2) == 0 {
								data[4+j] = byte(e.rng.Intn(256))
							}
						}
						class = "one ABI word corrupted"
					}
				case k == 3:
					data = append([]byte{}, m.ID...)
					class = "selector only"
				case k == 4:
					rb := make([]byte, e.rng.Intn(300))
					e.rng.Read(rb)
					data = append(append([]byte{}, m.ID...), rb...)
					class = "selector + random bytes"
				case k == 5:
					// huge offsets / lengths
					words := 1 + e.rng.Intn(8)
					rb := make([]byte, 32*words)
					for w := 0; w < words; w++ {
						switch e.rng.Intn(3) {
						case 0:
							for j := 0; j < 32; j++ {
								rb[32*w+j] = 0xff
							}
						case 1:
							rb[32*w+31] = byte(e.rng.Intn(256))
						}
					}
					data = append(append([]byte{}, m.ID...), rb...)
					class = "selector + extreme offset/length words"
				default:
					data = make([]byte, e.rng.Intn(6))
					e.rng.Read(data)
					class = "short random calldata"
				}
				ctx, _ := e.s.Ctx.CacheContext()
				addr := p.addr
				vmFailed := false
				res := hx.Try(func() error {
					r, err := e.s.App.EvmKeeper.CallEVM(ctx, signer.Address(), &addr, nil, 3_000_000, data, false)
					if err == nil && r != nil && r.Failed() {
						vmFailed = true
					}
					return err
				})
				e.out.Stats.Evaluations++
				kind := strings.SplitN(res, ":", 2)[0]
				if kind == "ok" && vmFailed {
					kind = "reverted"
				}
				e.out.Count("precompile-" + kind)
				e.out.Nontrivial("precompile " + p.name + "." + name + " " + class + " " + kind)
				if isPanic(res) {
					desc := fmt.Sprintf("panic in precompile %s.%s on input class [%s]: %s", p.name, name, class, res)
					e.violate("precompile "+p.name+"."+name, desc, []string{"# " + desc, "call " + p.addr.Hex() + " " + short(data)})
				}
			}
		}
	}
}

// ---------------------------------------------------------------------------------------------------------
// 4. decoders vs the Lean model

func (e *env) decoderSweep() {
	parts := []string{"", "ibc", "px", "fx", "0x", "transfer", "channel-0", "channel-18446744073709551615", "channel-18446744073709551616", "channel-", "channel-01",
		"channel-1a", "channel-+1", "channel--1", "channel-000000000000000000001", "channel-channel-1", " ", "\t", "0", "1", "chain", "gravity", "module", "evm", "eth", "erc20", "cosmos", "é", " ", " ", "Channel-1", "transfer ", "x/y"}
	n := hx.N(5000, 60000)
	e.out.Reset("decoders")
	emitTarget := func(s string) {
		var t fxtypes.FxTarget
		if r := hx.Try(func() error { t = fxtypes.ParseFxTarget(s); return nil }); isPanic(r) {
			e.violate("target-panic", "panic in ParseFxTarget on input class [slash-separated target text]: "+r+" input="+hex.EncodeToString([]byte(s)), []string{"target " + hx.HexS(s)})
			e.out.Emit("target "+hx.HexS(s), "panic")
			return
		}
		obs := ""
		if t.IsIBC() {
			obs = "ibc " + hx.HexS(t.Prefix) + " " + hx.HexS(t.SourcePort) + " " + hx.HexS(t.SourceChannel)
			e.out.Count("target-ibc")
			if !t.IBCValidate() {
				e.out.Violate("ParseFxTarget returned an IBC target that fails IBCValidate for input " + hex.EncodeToString([]byte(s)))
			}
		} else {
			obs = "plain " + hx.HexS(t.GetTarget())
			e.out.Count("target-plain")
		}
		e.out.Emit("target "+hx.HexS(s), obs)
		e.out.Nontrivial("target " + strings.SplitN(obs, " ", 2)[0] + fmt.Sprint(strings.Count(s, "/")))
	}
	for _, s := range []string{"module/evm", "chain/gravity", "gravity", "chain/module/evm", "ibc/0/px", "ibc/px/transfer/channel-0", "px/transfer/channel-0", "chain/ibc/0/px",
		"ibc/0/ ", "ibc//px", "ibc/0/px/", "ibc/", "ibc", "/", "//", "///", "ibc/a/b/c/d", "chain/chain/gravity", "ibc/18446744073709551615/x", "ibc/18446744073709551616/x"} {
		emitTarget(s)
	}
	for i := 0; i < n; i++ {
		k := 1 + e.rng.Intn(5)
		var ps []string
		for j := 0; j < k; j++ {
			ps = append(ps, hx.Pick(e.rng, parts))
		}
		s := strings.Join(ps, "/")
		if e.rng.Intn(3) == 0 {
			// mostly-valid IBC targets, boundary channel numbers, then occasionally damaged
			num := hx.Pick(e.rng, []string{"0", "7", "007", "18446744073709551615", "18446744073709551616", "99999999999999999999", "100000000000000000000", "", "1a"})
			pfx := hx.Pick(e.rng, []string{"px", "fx", "0x", "cosmos", " ", "\t ", "é", "a b"})
			s = hx.Pick(e.rng, []string{"ibc/" + num + "/" + pfx, pfx + "/transfer/channel-" + num, "ibc/" + pfx + "/transfer/channel-" + num, pfx + "/Transfer/channel-" + num, "ibc/" + num + "/" + pfx + "/x"})
			if e.rng.Intn(5) == 0 && len(s) > 0 {
				k := e.rng.Intn(len(s))
				s = s[:k] + hx.Pick(e.rng, []string{"/", "-", "0", " "}) + s[k:]
			}
		}
		if e.rng.Intn(4) == 0 {
			s = "chain/" + s
		}
		if !utf8.ValidString(s) {
			continue
		}
		emitTarget(s)
		// hex variant + non-UTF8: monitor only
		if i%10 == 0 {
			junk := make([]byte, e.rng.Intn(20))
			e.rng.Read(junk)
			for _, in := range []string{hex.EncodeToString([]byte(s)), string(junk), hex.EncodeToString(junk), "zz"} {
				if r := hx.Try(func() error { _ = fxtypes.ParseFxTarget(in, true); _ = fxtypes.ParseFxTarget(in); return nil }); isPanic(r) {
					e.out.Violate("panic in ParseFxTarget on input class [arbitrary bytes / hex]: " + r + " input=" + hex.EncodeToString([]byte(in)))
				}
			}
		}
	}
	// StrToByte32, hex strings
	for i := 0; i < n/4; i++ {
		l := hx.Pick(e.rng, []int{0, 1, 5, 31, 32, 33, 64, e.rng.Intn(70)})
		b := make([]byte, l)
		e.rng.Read(b)
		out, err := fxtypes.StrToByte32(string(b))
		obs := "err"
		if err == nil {
			obs = "ok " + hx.Hex(out[:])
		}
		e.out.Emit("b32 "+hx.Hex(b), obs)
		e.out.Nontrivial(fmt.Sprintf("b32 %v %d", err == nil, l/8))
		// hex.DecodeString acceptance (used by every hex-string field check)
		alphabet := "0123456789abcdefABCDEFgG xX"
		hl := e.rng.Intn(9)
		hs := make([]byte, hl)
		for j := range hs {
			hs[j] = alphabet[e.rng.Intn(len(alphabet))]
		}
		_, herr := hex.DecodeString(string(hs))
		hobs := "ok"
		if herr != nil {
			hobs = "err"
		}
		e.out.Emit("hexstr "+hx.Hex(hs), hobs)
	}
	// ValidateModuleName (pattern regenerated into Gen/C20.lean) and Byte32ToString vs the Lean model: boundary lengths
	// 0,1,2,33,34 and every character class
	nameAlphabet := "abzAZ09/_-. :\x00\xc3\xa9\xff\n"
	for i := 0; i < n/4; i++ {
		l := hx.Pick(e.rng, []int{0, 1, 2, 3, 32, 33, 34, e.rng.Intn(40)})
		b := make([]byte, l)
		for j := range b {
			if e.rng.Intn(12) == 0 {
				b[j] = nameAlphabet[e.rng.Intn(len(nameAlphabet))]
			} else {
				b[j] = "abcxyzABCXYZ0189/"[e.rng.Intn(17)]
			}
		}
		if l > 0 && e.rng.Intn(4) != 0 {
			b[0] = "aZq"[e.rng.Intn(3)]
		}
		obs := "ok"
		if crosschaintypes.ValidateModuleName(string(b)) != nil {
			obs = "err"
		}
		e.out.Emit("modname "+hx.Hex(b), obs)
		e.out.Nontrivial(fmt.Sprintf("modname %s %d", obs, l))
		var arr [32]byte
		k := e.rng.Intn(33)
		for j := 0; j < k; j++ {
			if e.rng.Intn(4) != 0 {
				arr[j] = byte(1 + e.rng.Intn(255))
			}
		}
		e.out.Emit("b32s "+hx.Hex(arr[:]), hx.HexS(fxtypes.Byte32ToString(arr)))
	}
	// signature → address helper used by the confirm handlers (indexing signature[64])
	for l := 0; l <= 70; l++ {
		sig := make([]byte, l)
		e.rng.Read(sig)
		if l > 64 {
			sig[64] = byte(hx.Pick(e.rng, []int{0, 1, 27, 28, 29, 255}))
		}
		hash := make([]byte, hx.Pick(e.rng, []int{0, 31, 32, 33}))
		res := hx.Try(func() error { _, err := crosschaintypes.EthAddressFromSignature(hash, sig); return err })
		e.out.Stats.Evaluations++
		e.out.Count("ethsig-" + strings.SplitN(res, ":", 2)[0])
		if isPanic(res) {
			e.violate("ethsig-panic", fmt.Sprintf("panic in EthAddressFromSignature on input class [signature of %d bytes]: %s", l, res), []string{"ethsig " + hx.Hex(sig)})
		}
	}
	// address parsers: total, and accepted Ethereum addresses have the stated format
	addrPool := []string{"", "0x", helpers.GenHexAddress().String(), strings.ToLower(helpers.GenHexAddress().String()), helpers.GenAccAddress().String(),
		"fx1", "fx1qqqq", strings.Repeat("0x", 21), "0x" + strings.Repeat("g", 40), "\xff\xfe", strings.Repeat("a", 5000), "0X" + strings.Repeat("0", 40),
		"0x0000000000000000000000000000000000000000", sdk.ValAddress(helpers.GenAccAddress()).String(), "cosmos1qqqqqqqqqqqqqqqqqqqqqqqqqqqqqqqqnrql8a"}
	for i := 0; i < n/4; i++ {
		a := hx.Pick(e.rng, addrPool)
		if e.rng.Intn(2) == 0 && len(a) > 0 {
			bb := []byte(a)
			bb[e.rng.Intn(len(bb))] = byte(e.rng.Intn(256))
			a = string(bb)
		}
		res := hx.Try(func() error {
			_, _, err := fxtypes.ParseAddress(a)
			_ = contract.ValidateEthereumAddress(a)
			for _, c := range []string{"eth", "tron", "nope"} {
				_ = crosschaintypes.ValidateExternalAddr(c, a)
			}
			return err
		})
		e.out.Stats.Evaluations++
		e.out.Count("address-" + strings.SplitN(res, ":", 2)[0])
		if isPanic(res) {
			e.out.Violate("panic in address parser on input class [mutated address text]: " + res + " input=" + hex.EncodeToString([]byte(a)))
		}
		// correspondence with the Lean models of ValidateEthereumAddress / ParseAddress (Keccak checksum and bech32 are inputs)
		if !isPanic(res) {
			ck := boolB(common.HexToAddress(a).Hex() == a)
			kind := "ok"
			if err := contract.ValidateEthereumAddress(a); err != nil {
				switch {
				case err.Error() == "empty":
					kind = "empty"
				case err.Error() == "wrong length":
					kind = "wrong-length"
				case err.Error() == "invalid format":
					kind = "invalid-format"
				case strings.HasPrefix(err.Error(), "mismatch"):
					kind = "checksum"
				default:
					kind = "other:" + err.Error()
				}
			}
			e.out.Emit("ethaddr "+hx.HexS(a)+" "+ck, kind)
			e.out.Nontrivial("ethaddr " + kind)
			_, _, berr := bech32.DecodeAndConvert(a)
			_, isEvm, perr := fxtypes.ParseAddress(a)
			pk := "err"
			if perr == nil && isEvm {
				pk = "evm"
			} else if perr == nil {
				pk = "bech32"
			}
			e.out.Emit("paddr "+hx.HexS(a)+" "+boolB(berr == nil)+" "+ck, pk)
			e.out.Nontrivial("paddr " + pk)
		}
		if contract.ValidateEthereumAddress(a) == nil {
			okFmt := len(a) == 42 && strings.HasPrefix(a, "0x")
			for _, c := range a[min(2, len(a)):] {
				if !strings.ContainsRune("0123456789abcdefABCDEF", c) {
					okFmt = false
				}
			}
			if !okFmt {
				e.out.Violate("ValidateEthereumAddress accepted a text outside ^0x[0-9a-fA-F]{40}$: " + hex.EncodeToString([]byte(a)))
			}
		}
	}
}

// ---------------------------------------------------------------------------------------------------------
// 5. fee rule

type feeCase struct {
	msgs   []sdk.Msg
	exempt []string
	maxB   uint64
	gas    uint64
	fee    sdk.Coins
	prices sdk.DecCoins
}

func listOr(xs []string) string {
	if len(xs) == 0 {
		return "-"
	}
	return strings.Join(xs, ",")
}

func (c feeCase) op(mode string) string {
	var ms, fs, ps []string
	for _, m := range c.msgs {
		ms = append(ms, sdk.MsgTypeURL(m))
	}
	for _, f := range c.fee {
		fs = append(fs, f.Denom+":"+f.Amount.String())
	}
	for _, p := range c.prices {
		ps = append(ps, p.Denom+":"+p.Amount.BigInt().String())
	}
	return fmt.Sprintf("fee %s %s %s %d %d %s %s", mode, listOr(ms), listOr(c.exempt), c.maxB, c.gas, listOr(fs), listOr(ps))
}

func ceilMul(p sdkmath.LegacyDec, gas uint64) sdkmath.Int {
	n := new(big.Int).Mul(p.BigInt(), new(big.Int).SetUint64(gas))
	one := new(big.Int).Exp(big.NewInt(10), big.NewInt(18), nil)
	q, r := new(big.Int).QuoRem(n, one, new(big.Int))
	if r.Sign() > 0 {
		q.Add(q, big.NewInt(1))
	}
	return sdkmath.NewIntFromBigInt(q)
}

// specVerdict: the fee rule as the property states it, written independently of ante/fees.go.  ok=false outside the
// range where the statement applies (gas = 0 with a fee, gas >= 2^63, allowance product overflowing uint64).
func specVerdict(c feeCase, checkTx bool) (string, bool) {
	if c.gas >= 1<<63 || (c.gas == 0 && len(c.fee) > 0) {
		return "", false
	}
	if !checkTx {
		return "admit", true
	}
	n := new(big.Int).Mul(big.NewInt(int64(len(c.msgs))), new(big.Int).SetUint64(c.maxB))
	if n.BitLen() > 64 {
		return "", false
	}
	ex := map[string]bool{}
	for _, u := range c.exempt {
		ex[u] = true
	}
	bypass := len(c.msgs) > 0 && new(big.Int).SetUint64(c.gas).Cmp(n) <= 0
	for _, m := range c.msgs {
		if !ex[sdk.MsgTypeURL(m)] {
			bypass = false
		}
	}
	if bypass {
		return "admit", true
	}
	anyPrice := false
	for _, p := range c.prices {
		if !p.Amount.IsZero() {
			anyPrice = true
		}
	}
	if !anyPrice {
		return "admit", true
	}
	for _, f := range c.fee {
		for _, p := range c.prices {
			if p.Denom == f.Denom {
				if req := ceilMul(p.Amount, c.gas); !req.IsZero() && f.Amount.GTE(req) {
					return "admit", true
				}
				break
			}
		}
	}
	return "refuse", true
}

func (e *env) genFeeCase(from sdk.AccAddress, wide bool) feeCase {
	rng := e.rng
	to := helpers.GenAccAddress()
	pool := []sdk.Msg{
		&banktypes.MsgSend{FromAddress: from.String(), ToAddress: to.String(), Amount: sdk.NewCoins(sdk.NewCoin(fxtypes.DefaultDenom, sdkmath.NewInt(1)))},
		&distrtypes.MsgSetWithdrawAddress{DelegatorAddress: from.String(), WithdrawAddress: to.String()},
		&stakingtypes.MsgDelegate{DelegatorAddress: from.String(), ValidatorAddress: sdk.ValAddress(e.s.ValAddr[0]).String(), Amount: sdk.NewCoin(fxtypes.DefaultDenom, sdkmath.NewInt(1))},
		&crosschaintypes.MsgSendToExternal{Sender: from.String(), Dest: helpers.GenExternalAddr("eth"), Amount: sdk.NewCoin("eth0x1", sdkmath.NewInt(2)), BridgeFee: sdk.NewCoin("eth0x1", sdkmath.NewInt(1)), ChainName: "eth"},
	}
	var c feeCase
	nm := 1 + rng.Intn(3)
	if wide && rng.Intn(8) == 0 {
		nm = 0
	}
	// exempt set: random subset, biased to "all exempt" and "all but one"
	urls := []string{}
	for _, m := range pool {
		urls = append(urls, sdk.MsgTypeURL(m))
	}
	switch rng.Intn(4) {
	case 0:
		c.exempt = urls
	case 1:
		c.exempt = urls[:len(urls)-1]
	case 2:
		for _, u := range urls {
			if rng.Intn(2) == 0 {
				c.exempt = append(c.exempt, u)
			}
		}
	}
	for i := 0; i < nm; i++ {
		c.msgs = append(c.msgs, pool[rng.Intn(len(pool))])
	}
	c.maxB = hx.Pick(rng, []uint64{100000, 200000, 300000})
	if wide {
		c.maxB = hx.Pick(rng, []uint64{0, 1, 60000, 300000, 1 << 62, 1<<63 + 5, 1<<64 - 1})
	}
	base := uint64(nm) * c.maxB // wraps like the code
	c.gas = hx.Pick(rng, []uint64{base, base + 1, base - 1, base + uint64(rng.Intn(100000)), 200000, 1000000})
	if wide {
		c.gas = hx.Pick(rng, []uint64{0, 1, base, base + 1, base - 1, 1<<63 - 1, 1 << 63, 1<<64 - 1, uint64(rng.Int63n(2000000))})
	} else if c.gas < 99000 || c.gas > 25000000 {
		c.gas = 150000 + uint64(rng.Intn(50000))
	}
	// minimum gas prices: sorted by denomination (ParseDecCoins), 0–2 entries
	priceChoices := []string{"0.000000000000000001", "0.0000025", "0.5", "1", "1.000000000000000001", "4000000000000", "0.3333333333333333"}
	denoms := []string{fxtypes.DefaultDenom, "usdt"}
	sort.Strings(denoms)
	switch rng.Intn(5) {
	case 0: // none
	case 1, 2:
		c.prices = sdk.DecCoins{sdk.NewDecCoinFromDec(hx.Pick(rng, denoms), sdkmath.LegacyMustNewDecFromStr(hx.Pick(rng, priceChoices)))}
	default:
		c.prices = sdk.DecCoins{sdk.NewDecCoinFromDec(denoms[0], sdkmath.LegacyMustNewDecFromStr(hx.Pick(rng, priceChoices))),
			sdk.NewDecCoinFromDec(denoms[1], sdkmath.LegacyMustNewDecFromStr(hx.Pick(rng, priceChoices)))}
	}
	if wide && rng.Intn(6) == 0 && len(c.prices) > 0 {
		c.prices[rng.Intn(len(c.prices))].Amount = sdkmath.LegacyZeroDec() // literal zero entry
	}
	// fee around the requirement
	var fee sdk.Coins
	for _, d := range denoms {
		if rng.Intn(3) == 0 {
			continue
		}
		req := sdkmath.ZeroInt()
		for _, p := range c.prices {
			if p.Denom == d {
				req = ceilMul(p.Amount, c.gas)
			}
		}
		amt := req.AddRaw(int64(rng.Intn(3) - 1))
		if rng.Intn(6) == 0 {
			amt = sdkmath.NewInt(int64(rng.Intn(1000)))
		}
		if !amt.IsPositive() {
			if wide && rng.Intn(2) == 0 {
				fee = append(fee, sdk.Coin{Denom: d, Amount: sdkmath.ZeroInt()})
			}
			continue
		}
		fee = append(fee, sdk.Coin{Denom: d, Amount: amt})
	}
	if wide {
		// further fee denominations the node has no price for (before, between and after the priced ones): they must never
		// buy admission, whatever their amount
		for _, d := range []string{"aaa", "zzz", "Axx"} {
			if rng.Intn(3) == 0 {
				amt := hx.Pick(rng, []sdkmath.Int{sdkmath.NewInt(1), sdkmath.NewInt(int64(1 + rng.Intn(1000000))), sdkmath.NewIntWithDecimal(1, 30)})
				fee = append(fee, sdk.Coin{Denom: d, Amount: amt})
				e.out.Count("fee-extra-unpriced-denom")
			}
		}
		if rng.Intn(4) != 0 {
			sort.Slice(fee, func(i, j int) bool { return fee[i].Denom < fee[j].Denom })
		}
	}
	if wide && len(fee) == 2 && rng.Intn(4) == 0 {
		fee[0], fee[1] = fee[1], fee[0] // unsorted
	}
	c.fee = fee
	return c
}

func (e *env) buildTx(c feeCase, signer *helpers.Signer, sign bool, ctx sdk.Context) (sdk.Tx, client.TxBuilder, error) {
	txCfg := e.s.App.GetTxConfig()
	txb := txCfg.NewTxBuilder()
	if err := txb.SetMsgs(c.msgs...); err != nil {
		return nil, nil, err
	}
	txb.SetGasLimit(c.gas)
	txb.SetFeeAmount(c.fee)
	if !sign {
		return txb.GetTx(), txb, nil
	}
	acc := e.s.App.AccountKeeper.GetAccount(ctx, signer.AccAddress())
	mode := signing.SignMode_SIGN_MODE_DIRECT
	priv := signer.PrivKey()
	sigV2 := signing.SignatureV2{PubKey: priv.PubKey(), Data: &signing.SingleSignatureData{SignMode: mode}, Sequence: acc.GetSequence()}
	if err := txb.SetSignatures(sigV2); err != nil {
		return nil, nil, err
	}
	sd := authsigning.SignerData{Address: signer.AccAddress().String(), ChainID: ctx.ChainID(), AccountNumber: acc.GetAccountNumber(), Sequence: acc.GetSequence(), PubKey: priv.PubKey()}
	sigV2, err := clienttx.SignWithPrivKey(context.TODO(), mode, sd, txb, priv, txCfg, acc.GetSequence())
	if err != nil {
		return nil, nil, err
	}
	if err := txb.SetSignatures(sigV2); err != nil {
		return nil, nil, err
	}
	return txb.GetTx(), txb, nil
}

func (e *env) anteHandler(exempt []string, maxB uint64) sdk.AnteHandler {
	return anteHandlerFor(e.s.App, exempt, maxB)
}

func anteHandlerFor(app *fxapp.App, exempt []string, maxB uint64) sdk.AnteHandler {
	opts := fxante.HandlerOptions{
		AccountKeeper: app.AccountKeeper, BankKeeper: app.BankKeeper, EvmKeeper: app.EvmKeeper, FeeMarketKeeper: app.FeeMarketKeeper,
		IbcKeeper: app.IBCKeeper, GovKeeper: app.GovKeeper, SignModeHandler: app.GetTxConfig().SignModeHandler(),
		SigGasConsumer: fxante.DefaultSigVerificationGasConsumer, MaxTxGasWanted: 0,
		TxFeeChecker: fxante.NewCheckTxFeees(exempt, maxB).Check,
	}
	if err := opts.Validate(); err != nil {
		panic(err)
	}
	return fxante.NewAnteHandler(opts)
}

func (e *env) feeSweep() {
	signer := e.s.AddTestSigner(1000)
	big1 := sdkmath.NewIntWithDecimal(1, 40)
	e.s.MintToken(signer.AccAddress(), sdk.NewCoin(fxtypes.DefaultDenom, big1), sdk.NewCoin("usdt", big1), sdk.NewCoin("eth0x1", big1))
	e.s.Commit()
	// (a) the checker directly
	e.out.Reset("fee-direct")
	n := hx.N(15000, 200000)
	for i := 0; i < n; i++ {
		c := e.genFeeCase(signer.AccAddress(), true)
		tx, _, err := e.buildTx(c, signer, false, e.s.Ctx)
		if err != nil {
			continue
		}
		for _, mode := range []string{"c", "d"} {
			if mode == "d" && i%5 != 0 {
				continue
			}
			ctx := e.s.Ctx.WithIsCheckTx(mode == "c").WithMinGasPrices(c.prices)
			chk := fxante.NewCheckTxFeees(c.exempt, c.maxB)
			res := hx.Try(func() error { _, _, err := chk.Check(ctx, tx); return err })
			obs := "admit"
			switch {
			case isPanic(res):
				obs = "panic"
			case res != "ok":
				obs = "refuse"
				if !strings.Contains(res, "insufficient fees; got") {
					obs = "other " + errKind(res)
				}
			}
			e.out.Emit(c.op(mode), obs)
			e.out.Count("fee-direct-" + obs)
			// independent specification of the rule (the property's wording), where int64(gas) is faithful
			if want, ok := specVerdict(c, mode == "c"); ok && want != obs {
				e.violate("fee-spec "+want+" vs "+obs, "fee checker verdict `"+obs+"` differs from the independent specification `"+want+"` (bypass only if the tx has messages, all of exempt types, gas <= n*allowance; otherwise a non-zero minimum price must be covered): "+c.op(mode), []string{c.op(mode)})
			}
			e.out.Nontrivial(fmt.Sprintf("fee-direct %s n=%d ex=%d p=%d f=%d %s", mode, len(c.msgs), len(c.exempt), len(c.prices), len(c.fee), obs))
		}
	}
	// (b) the full ante handler on signed transactions, CheckTx mode
	e.out.Reset("fee-ante")
	n2 := hx.N(2500, 25000)
	for i := 0; i < n2; i++ {
		c := e.genFeeCase(signer.AccAddress(), false)
		ctx, _ := e.s.Ctx.CacheContext()
		ctx = ctx.WithIsCheckTx(true).WithMinGasPrices(c.prices)
		tx, _, err := e.buildTx(c, signer, true, ctx)
		if err != nil {
			e.out.Count("fee-ante-build-err")
			continue
		}
		ah := e.anteHandler(c.exempt, c.maxB)
		var aerr error
		res := hx.Try(func() error { _, aerr = ah(ctx, tx, false); return aerr })
		obs := "admit"
		switch {
		case isPanic(res):
			obs = "panic"
			e.violate("ante-panic-signed", "the ante handler panicked on a signed transaction: "+res, []string{c.op("c")})
		case res != "ok":
			if errors.Is(aerr, sdkerrors.ErrInsufficientFee) && strings.Contains(res, "insufficient fees; got") {
				obs = "refuse"
			} else {
				obs = "other " + errKind(res)
			}
		}
		e.out.Emit(c.op("c"), obs)
		e.out.Count("fee-ante-" + strings.SplitN(obs, " ", 2)[0])
		e.out.Nontrivial(fmt.Sprintf("fee-ante n=%d ex=%d p=%d f=%d %s", len(c.msgs), len(c.exempt), len(c.prices), len(c.fee), obs))
		// the property's last sentence, directly: a tx that neither bypasses nor meets a non-zero minimum must be refused
		allEx := len(c.msgs) > 0
		exm := map[string]bool{}
		for _, u := range c.exempt {
			exm[u] = true
		}
		for _, m := range c.msgs {
			if !exm[sdk.MsgTypeURL(m)] {
				allEx = false
			}
		}
		bypass := allEx && c.gas <= uint64(len(c.msgs))*c.maxB
		covered := false
		anyPrice := false
		for _, p := range c.prices {
			if p.Amount.IsPositive() {
				anyPrice = true
			}
			for _, f := range c.fee {
				if f.Denom == p.Denom && p.Amount.IsPositive() && f.Amount.GTE(ceilMul(p.Amount, c.gas)) {
					covered = true
				}
			}
		}
		if !bypass && anyPrice && !covered && obs == "admit" {
			e.violate("below-min-admitted", "CheckTx admitted a transaction below the node's minimum gas price that is not fee-exempt: "+c.op("c"), []string{c.op("c")})
		}
		if bypass && strings.HasPrefix(obs, "refuse") {
			e.violate("bypass-refused", "CheckTx refused (insufficient fee) a transaction that qualifies for the bypass: "+c.op("c"), []string{c.op("c")})
		}
	}
}

// ---------------------------------------------------------------------------------------------------------
// 6. hostile transactions into the real ante handler

func (e *env) hostileAnte() {
	signer := e.s.AddTestSigner(1000)
	e.s.Commit()
	txCfg := e.s.App.GetTxConfig()
	ah := e.anteHandler(nil, 300000)
	to := helpers.GenAccAddress()
	send := &banktypes.MsgSend{FromAddress: signer.AccAddress().String(), ToAddress: to.String(), Amount: sdk.NewCoins(sdk.NewCoin(fxtypes.DefaultDenom, sdkmath.NewInt(1)))}
	fee := sdk.NewCoins(sdk.NewCoin(fxtypes.DefaultDenom, sdkmath.NewIntWithDecimal(1, 18)))
	run := func(class string, tx sdk.Tx) {
		for _, check := range []bool{true, false} {
			ctx, _ := e.s.Ctx.CacheContext()
			ctx = ctx.WithIsCheckTx(check)
			res := hx.Try(func() error { _, err := ah(ctx, tx, false); return err })
			e.out.Stats.Evaluations++
			e.out.Count("hostile-ante-" + strings.SplitN(res, ":", 2)[0])
			e.out.Nontrivial("hostile " + class + " " + strings.SplitN(res, ":", 2)[0])
			if isPanic(res) {
				e.violate("ante-panic "+class, "the ante handler panicked on input class ["+class+"]: "+res, []string{"# ante " + class})
			}
			if strings.Contains(res, "panic") || strings.Contains(res, "runtime error") {
				// a panic that the deferred Recover of NewAnteHandler turned into ErrPanic is still a panic of the ante handler
				e.out.Count("hostile-ante-recovered-panic")
				e.out.Stats.Extra["recovered: "+class] = errKind(res)
				e.violate("ante-recovered-panic "+class, "the ante handler answered input class ["+class+"] with a recovered panic (ErrPanic): "+res, []string{"# ante " + class})
			}
		}
	}
	base := feeCase{msgs: []sdk.Msg{send}, gas: 200000, fee: fee}
	tx, txb, err := e.buildTx(base, signer, true, e.s.Ctx)
	if err != nil {
		e.out.Violate("harness: cannot build the base transaction: " + err.Error())
		return
	}
	run("valid signed tx", tx)
	// gas 0, gas above the block limit, empty fee
	for _, g := range []uint64{0, 1, 30_000_001, 1<<63 - 1, 1 << 63, 1<<64 - 1} {
		c := base
		c.gas = g
		if t2, _, err := e.buildTx(c, signer, true, e.s.Ctx); err == nil {
			run(fmt.Sprintf("gas limit %d", g), t2)
		}
	}
	// more signer infos than signers: re-encode the raw tx with a duplicated SignerInfo
	bz, err := txCfg.TxEncoder()(txb.GetTx())
	if err == nil {
		var raw txtypes.TxRaw
		if proto.Unmarshal(bz, &raw) == nil {
			var ai txtypes.AuthInfo
			if proto.Unmarshal(raw.AuthInfoBytes, &ai) == nil && len(ai.SignerInfos) == 1 {
				for _, extra := range []int{1, 3} {
					ai2 := ai
					ai2.SignerInfos = append([]*txtypes.SignerInfo{}, ai.SignerInfos...)
					for k := 0; k < extra; k++ {
						ai2.SignerInfos = append(ai2.SignerInfos, ai.SignerInfos[0])
					}
					aib, _ := proto.Marshal(&ai2)
					raw2 := txtypes.TxRaw{BodyBytes: raw.BodyBytes, AuthInfoBytes: aib, Signatures: raw.Signatures}
					bz2, _ := proto.Marshal(&raw2)
					if t3, err := txCfg.TxDecoder()(bz2); err == nil {
						run(fmt.Sprintf("%d signer infos for 1 signer and 1 signature", 1+extra), t3)
					} else {
						e.out.Count("hostile-decode-rejected")
					}
				}
			}
		}
	}
	// multisig with a bit array longer than the key set / more set bits than signatures
	pks := []cryptotypes.PubKey{helpers.NewPriKey().PubKey(), helpers.NewPriKey().PubKey()}
	mpk := multisig.NewLegacyAminoPubKey(1, pks)
	for _, bits := range []int{2, 5, 64} {
		ba := cryptotypes.NewCompactBitArray(bits)
		for i := 0; i < bits; i++ {
			ba.SetIndex(i, true)
		}
		msd := &signing.MultiSignatureData{BitArray: ba, Signatures: []signing.SignatureData{&signing.SingleSignatureData{SignMode: signing.SignMode_SIGN_MODE_DIRECT, Signature: make([]byte, 64)}}}
		tb := txCfg.NewTxBuilder()
		msAddr := sdk.AccAddress(mpk.Address())
		e.s.MintToken(msAddr, sdk.NewCoin(fxtypes.DefaultDenom, sdkmath.NewIntWithDecimal(1, 20)))
		_ = tb.SetMsgs(&banktypes.MsgSend{FromAddress: msAddr.String(), ToAddress: to.String(), Amount: sdk.NewCoins(sdk.NewCoin(fxtypes.DefaultDenom, sdkmath.NewInt(1)))})
		tb.SetGasLimit(300000)
		tb.SetFeeAmount(fee)
		if err := tb.SetSignatures(signing.SignatureV2{PubKey: mpk, Data: msd, Sequence: 0}); err == nil {
			run(fmt.Sprintf("multisig bit array of %d bits over 2 keys with 1 signature", bits), tb.GetTx())
		}
	}
}

// ---------------------------------------------------------------------------------------------------------

func TestC20(t *testing.T) {
	seed := hx.Seed()
	rng := rand.New(rand.NewSource(seed))
	out := hx.NewOut()
	defer out.Close("validation + search (not proof): every registered Msg type x zero/random/wire-mutated templates -> Unmarshal/ValidateBasic/GetSigners; IBC memo JSON; every crosschain+staking precompile method x random/mutated calldata through the EVM; ParseFxTarget/StrToByte32/hex vs the Lean model; CheckTxFeees.Check and the full CheckTx ante handler vs the Lean definition generated from ante/fees.go; hostile txs into the ante handler. non-trivial = distinct (type|method, input class, outcome)")
	e := &env{s: hx.NewSuite(t, 1+rng.Intn(2)), out: out, rng: rng, dep: map[string]int{}, seenV: map[string]int{}}
	out.Reset("sweeps")

	// the inventory must cover what the harness sees: every fx-core ValidateBasic owner is in the extracted roots
	if fp := os.Getenv("VERIF_FACTS"); fp != "" {
		if bz, err := os.ReadFile(fp); err == nil {
			var facts map[string]json.RawMessage
			_ = json.Unmarshal(bz, &facts)
			var roots []string
			_ = json.Unmarshal(facts["C20.roots"], &roots)
			rootSet := map[string]bool{}
			for _, r := range roots {
				rootSet[r] = true
			}
			if len(roots) > 0 {
				for _, u := range e.s.App.InterfaceRegistry().ListImplementations(sdk.MsgInterfaceProtoName) {
					m, err := e.s.App.InterfaceRegistry().Resolve(u)
					if err != nil || !e.isFx(m) {
						continue
					}
					if _, ok := m.(sdk.HasValidateBasic); !ok {
						continue
					}
					ty := reflect.TypeOf(m).Elem()
					key := strings.TrimPrefix(ty.PkgPath(), modPath) + ":" + ty.Name() + ".ValidateBasic"
					if !rootSet[key] {
						out.Violate("registered fx-core message " + u + " has a ValidateBasic that the extracted inventory does not list as a root (" + key + ")")
					}
				}
			}
		}
	}

	e.corpus()
	e.msgSweep()
	e.memoSweep()
	e.precompileSweep()
	e.precompileRunSweep(t)
	e.handlerSweep(t)
	e.containSweep(t)
	e.decoderSweep()
	e.bech32Sweep()
	e.feeSweep()
	e.hostileAnte()
	e.anteRawSweep(t)
	e.nodeConfigSweep(t)
	e.abciSweep(t)
	out.Stats.Extra["violation_counts"] = e.seenV
	if len(e.dep) > 0 {
		out.Stats.Extra["dependency_type_panics (SDK/IBC/ethermint message code, outside fx-core)"] = e.dep
	}
}
