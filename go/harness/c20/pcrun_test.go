package c20

// C20 harness, part 7: ABI-valid but semantically hostile call data through the REAL precompile `Run`.
//
// The stream of part 3 (precompileSweep) is type-directed only: most of its calls are rejected by ABI decoding or by
// the first line of `Validate`.  This stream is state-aware: a real world (three bridged chains, tokens of every
// ownership kind registered through the real registration paths, users holding balances with approvals for the
// precompile, delegations, share allowances, pending outgoing transfers) is built first; for every method of the
// crosschain and staking ABIs an argument vector that is valid in that world is generated from the ABI input names and
// types, and then 0–3 hostile twists are applied per vector (array lengths made to disagree, arrays emptied or
// lengthened, zero / 2^63 / 2^64 / 2^64+1 / 2^255 / 2^256-1 values, unknown and empty chains and validators, zero and
// module addresses, empty and oversized byte strings, msg.value present / absent / disagreeing).  Every vector is
//   (a) decoded with the real `evmtypes.ParseMethodArgs` into the method's own args struct — the verdict (ok / err) is a
//       correspondence line `pcv …` answered by the Lean model of `Validate` REGENERATED from the Go AST (Gen/C20Run.lean);
//   (b) delivered as a real signed MsgEthereumTx to the precompile through `EvmKeeper.EthereumTx` (state kept when the
//       tx is included, so later calls see pending transfers, allowances, …) and, for a fraction, through the
//       `eth_call`-like `CallEVM(commit=false)`.
// Monitors: a panic anywhere is a concrete violation (replay = the state-changing calls so far + the failing call
// data); a vector the decoder rejects must make the transaction fail.

import (
	"encoding/hex"
	"fmt"
	"math/big"
	"math/rand"
	"reflect"
	"runtime/debug"
	"sort"
	"strings"
	"testing"

	sdkmath "cosmossdk.io/math"
	sdk "github.com/cosmos/cosmos-sdk/types"
	stakingtypes "github.com/cosmos/cosmos-sdk/x/staking/types"
	"github.com/ethereum/go-ethereum/accounts/abi"
	"github.com/ethereum/go-ethereum/common"
	"github.com/ethereum/go-ethereum/core/vm"

	"github.com/functionx/fx-core/v8/contract"
	fxtypes "github.com/functionx/fx-core/v8/types"
	crosschaintypes "github.com/functionx/fx-core/v8/x/crosschain/types"
	fxevmtypes "github.com/functionx/fx-core/v8/x/evm/types"
	fxstakingtypes "github.com/functionx/fx-core/v8/x/staking/types"

	"fxverif/harness/bridgex"
	"fxverif/harness/evmx"
	"fxverif/harness/hx"
)

// argsOf: the args struct every precompile method decodes into (the same table is regenerated from the `UnpackInput`
// bodies into Gen/C20Run.lean; the model driver answers `bad-args-type` when the two disagree)
var argsOf = map[string]func() fxevmtypes.MethodArgs{
	"crosschain.bridgeCoinAmount":     func() fxevmtypes.MethodArgs { return new(crosschaintypes.BridgeCoinAmountArgs) },
	"crosschain.hasOracle":            func() fxevmtypes.MethodArgs { return new(crosschaintypes.HasOracleArgs) },
	"crosschain.isOracleOnline":       func() fxevmtypes.MethodArgs { return new(crosschaintypes.IsOracleOnlineArgs) },
	"crosschain.cancelSendToExternal": func() fxevmtypes.MethodArgs { return new(crosschaintypes.CancelSendToExternalArgs) },
	"crosschain.increaseBridgeFee":    func() fxevmtypes.MethodArgs { return new(crosschaintypes.IncreaseBridgeFeeArgs) },
	"crosschain.crossChain":           func() fxevmtypes.MethodArgs { return new(crosschaintypes.CrossChainArgs) },
	"crosschain.bridgeCall":           func() fxevmtypes.MethodArgs { return new(crosschaintypes.BridgeCallArgs) },
	"crosschain.executeClaim":         func() fxevmtypes.MethodArgs { return new(crosschaintypes.ExecuteClaimArgs) },
	"staking.allowanceShares":         func() fxevmtypes.MethodArgs { return new(fxstakingtypes.AllowanceSharesArgs) },
	"staking.delegation":              func() fxevmtypes.MethodArgs { return new(fxstakingtypes.DelegationArgs) },
	"staking.delegationRewards":       func() fxevmtypes.MethodArgs { return new(fxstakingtypes.DelegationRewardsArgs) },
	"staking.approveShares":           func() fxevmtypes.MethodArgs { return new(fxstakingtypes.ApproveSharesArgs) },
	"staking.transferShares":          func() fxevmtypes.MethodArgs { return new(fxstakingtypes.TransferSharesArgs) },
	"staking.transferFromShares":      func() fxevmtypes.MethodArgs { return new(fxstakingtypes.TransferFromSharesArgs) },
	"staking.withdraw":                func() fxevmtypes.MethodArgs { return new(fxstakingtypes.WithdrawArgs) },
	"staking.delegateV2":              func() fxevmtypes.MethodArgs { return new(fxstakingtypes.DelegateV2Args) },
	"staking.redelegateV2":            func() fxevmtypes.MethodArgs { return new(fxstakingtypes.RedelegateV2Args) },
	"staking.undelegateV2":            func() fxevmtypes.MethodArgs { return new(fxstakingtypes.UndelegateV2Args) },
	"staking.slashingInfo":            func() fxevmtypes.MethodArgs { return new(fxstakingtypes.SlashingInfoArgs) },
	"staking.validatorList":           func() fxevmtypes.MethodArgs { return new(fxstakingtypes.ValidatorListArgs) },
}

type pcWorld struct {
	e       *env
	w       *bridgex.World
	vals    []sdk.ValAddress
	history []string            // replay lines of the included state-changing calls
	txIDs   map[string][]uint64 // chain -> ids of pending outgoing transfers created by crossChain
	twoPow  func(n uint) *big.Int
}

func pow2(n uint) *big.Int { return new(big.Int).Lsh(big.NewInt(1), n) }

// rndAddr: an address drawn from the seeded generator (helpers.Gen* use crypto/rand)
func rndAddr(rng *rand.Rand) common.Address {
	var a common.Address
	rng.Read(a[:])
	return a
}

// hostile numbers (uint256 range)
func hostileNums() []*big.Int {
	sub1 := func(x *big.Int) *big.Int { return new(big.Int).Sub(x, big.NewInt(1)) }
	return []*big.Int{big.NewInt(0), big.NewInt(1), sub1(pow2(63)), pow2(63), sub1(pow2(64)), pow2(64), new(big.Int).Add(pow2(64), big.NewInt(1)),
		pow2(128), sub1(pow2(255)), pow2(255), sub1(pow2(256)), new(big.Int).Sub(pow2(256), big.NewInt(2))}
}

type pcVec struct {
	pc, method string
	m          abi.Method
	args       []any
	value      *big.Int
	from       int
	class      []string
}

func b32(s string) [32]byte {
	var out [32]byte
	copy(out[:], s)
	return out
}

// validVector builds an argument vector that is meaningful in the current world, directed by ABI input names
func (p *pcWorld) validVector(pc string, m abi.Method) *pcVec {
	rng := p.e.rng
	w := p.w
	v := &pcVec{pc: pc, method: m.Name, m: m, value: new(big.Int), from: rng.Intn(len(w.Users))}
	user := func() common.Address { return w.Users[rng.Intn(len(w.Users))].Address() }
	ci := rng.Intn(len(bridgex.Chains))
	chain := bridgex.Chains[ci]
	// a token group bridged to that chain
	var groups []*bridgex.Group
	for _, g := range w.Groups {
		if g.OnChain[ci] {
			groups = append(groups, g)
		}
	}
	grp := groups[rng.Intn(len(groups))]
	small := func() *big.Int { return big.NewInt(int64(1 + rng.Intn(20))) }
	val := func() string { return p.vals[rng.Intn(len(p.vals))].String() }
	for _, in := range m.Inputs {
		var a any
		switch in.Type.T {
		case abi.StringTy:
			switch in.Name {
			case "_chain", "_dstChain":
				a = chain
			case "_val", "_valSrc", "_valDst":
				a = val()
			case "_receipt":
				a = crosschaintypes.ExternalAddrToStr(chain, rndAddr(rng).Bytes())
			default:
				a = "memo"
			}
		case abi.AddressTy:
			switch in.Name {
			case "_token":
				a = grp.Erc20
			case "_refund":
				a = w.Users[v.from].Address()
			default:
				a = user()
			}
		case abi.UintTy:
			switch {
			case in.Type.Size == 8:
				a = uint8(rng.Intn(2))
			case in.Name == "_txID":
				ids := p.txIDs[chain]
				if len(ids) > 0 {
					a = new(big.Int).SetUint64(ids[rng.Intn(len(ids))])
				} else {
					a = big.NewInt(1)
				}
			case in.Name == "_value":
				a = big.NewInt(0)
			case in.Name == "_fee":
				a = big.NewInt(int64(rng.Intn(4)))
			case in.Name == "_shares" && pc == "staking":
				a = new(big.Int).Mul(small(), big.NewInt(1e18))
			default:
				a = small()
			}
		case abi.FixedBytesTy:
			a = b32(chain)
		case abi.BytesTy:
			b := make([]byte, rng.Intn(6))
			rng.Read(b)
			a = b
		case abi.SliceTy:
			n := rng.Intn(3)
			switch in.Type.Elem.T {
			case abi.AddressTy:
				toks := make([]common.Address, 0, n)
				for i := 0; i < n; i++ {
					toks = append(toks, groups[rng.Intn(len(groups))].Erc20)
				}
				a = toks
			case abi.UintTy:
				// same length as a previously generated address array (tokens/amounts pairs)
				for i, prev := range v.args {
					if ts, ok := prev.([]common.Address); ok && m.Inputs[i].Type.T == abi.SliceTy {
						n = len(ts)
					}
				}
				am := make([]*big.Int, 0, n)
				for i := 0; i < n; i++ {
					am = append(am, small())
				}
				a = am
			default:
				a = randABIValue(in.Type, rng)
			}
		default:
			a = randABIValue(in.Type, rng)
		}
		if a == nil {
			a = randABIValue(in.Type, rng)
		}
		v.args = append(v.args, a)
	}
	// msg.value: the origin-token form of crossChain / increaseBridgeFee (token = zero address, value = amount + fee)
	if (m.Name == "crossChain" || m.Name == "increaseBridgeFee") && rng.Intn(4) == 0 {
		tot := new(big.Int)
		for i, in := range m.Inputs {
			if in.Name == "_token" {
				v.args[i] = common.Address{}
			}
			if in.Name == "_amount" || in.Name == "_fee" {
				tot.Add(tot, v.args[i].(*big.Int))
			}
		}
		v.value = tot
		v.class = append(v.class, "origin-token form")
	}
	return v
}

// twist applies one hostile change to one argument (or to msg.value)
func (p *pcWorld) twist(v *pcVec) {
	rng := p.e.rng
	if len(v.args) == 0 || rng.Intn(8) == 0 {
		v.value = hx.Pick(rng, []*big.Int{big.NewInt(0), big.NewInt(1), big.NewInt(7), pow2(64), new(big.Int).Sub(pow2(256), big.NewInt(1))})
		v.class = append(v.class, "msg.value="+v.value.String())
		return
	}
	i := rng.Intn(len(v.args))
	in := v.m.Inputs[i]
	name := in.Name
	switch in.Type.T {
	case abi.StringTy:
		s := hx.Pick(rng, []string{"", "nope", "tron", "chain/eth", "ETH", " eth", "eth\x00", "\xff\xfe", strings.Repeat("x", 3000), "module/evm", "ibc/0/px",
			sdk.ValAddress(rndAddr(rng).Bytes()).String(), sdk.AccAddress(rndAddr(rng).Bytes()).String(), rndAddr(rng).Hex(), "0x", fxtypes.DefaultDenom})
		v.args[i] = s
		v.class = append(v.class, fmt.Sprintf("%s=%q", name, short([]byte(s))[:min(16, len(short([]byte(s))))]))
	case abi.AddressTy:
		a := hx.Pick(rng, []common.Address{{}, rndAddr(rng), crosschaintypes.GetAddress(), fxstakingtypes.GetAddress(), p.w.Bad, bridgex.Erc20ModuleAddr(),
			common.HexToAddress("0xffffffffffffffffffffffffffffffffffffffff")})
		v.args[i] = a
		v.class = append(v.class, name+"="+a.Hex()[:10])
	case abi.UintTy:
		if in.Type.Size == 8 {
			v.args[i] = uint8(hx.Pick(rng, []int{0, 1, 2, 255}))
			v.class = append(v.class, fmt.Sprintf("%s=%d", name, v.args[i]))
			break
		}
		n := hx.Pick(rng, hostileNums())
		v.args[i] = n
		v.class = append(v.class, fmt.Sprintf("%s=2^%d-ish", name, n.BitLen()))
	case abi.FixedBytesTy:
		v.args[i] = b32(hx.Pick(rng, []string{"", "nope", "tron", "chain/gravity", "ibc/0/px", "px/transfer/channel-0", "module/evm", "\xff", "bsc", strings.Repeat("z", 32)}))
		v.class = append(v.class, name+"=other-target")
	case abi.BytesTy:
		b := make([]byte, hx.Pick(rng, []int{0, 1, 32, 33, 5000}))
		rng.Read(b)
		v.args[i] = b
		v.class = append(v.class, fmt.Sprintf("%s=%dB", name, len(b)))
	case abi.SliceTy:
		rv := reflect.ValueOf(v.args[i])
		n := rv.Len()
		switch k := rng.Intn(5); {
		case k == 0: // emptied
			v.args[i] = reflect.MakeSlice(rv.Type(), 0, 0).Interface()
			v.class = append(v.class, name+" emptied")
		case k == 1 && n > 0: // one element dropped
			v.args[i] = rv.Slice(0, n-1).Interface()
			v.class = append(v.class, name+" one shorter")
		case k <= 2: // one element more
			v.args[i] = reflect.Append(rv, reflect.ValueOf(p.elem(in.Type.Elem))).Interface()
			v.class = append(v.class, name+" one longer")
		case k == 3: // long
			out := rv
			for j := 0; j < 40; j++ {
				out = reflect.Append(out, reflect.ValueOf(p.elem(in.Type.Elem)))
			}
			v.args[i] = out.Interface()
			v.class = append(v.class, name+" +40")
		default: // hostile element
			if n > 0 && in.Type.Elem.T == abi.UintTy {
				cp := reflect.MakeSlice(rv.Type(), n, n)
				reflect.Copy(cp, rv)
				cp.Index(rng.Intn(n)).Set(reflect.ValueOf(hx.Pick(rng, hostileNums())))
				v.args[i] = cp.Interface()
				v.class = append(v.class, name+" hostile element")
			} else if n > 0 && in.Type.Elem.T == abi.AddressTy {
				cp := reflect.MakeSlice(rv.Type(), n, n)
				reflect.Copy(cp, rv)
				cp.Index(rng.Intn(n)).Set(reflect.ValueOf(hx.Pick(rng, []common.Address{{}, rndAddr(rng), p.w.Bad, cp.Index(0).Interface().(common.Address)})))
				v.args[i] = cp.Interface()
				v.class = append(v.class, name+" hostile element")
			}
		}
	}
}


// pcTwist is one named hostile change of an argument vector
type pcTwist struct {
	label string
	apply func(v *pcVec)
}

var hostileChainStrings = []string{"", "nope", "tron", "chain/eth", "ETH", " eth", "eth\x00", "\xff\xfe", "module/evm", "ibc/0/px", "0x", "e", "a/b", strings.Repeat("x", 33), strings.Repeat("x", 34), strings.Repeat("x", 3000)}

// enumTwists: the boundary classes that are applied on EVERY run (one at a time to a fresh valid vector, and the pair
// classes that need two cooperating arguments): every hostile number for every integer input, every pair of integer inputs
// both at / around the top of the uint256 range (sums that need 257 bits), every array emptied / shortened / lengthened,
// every pair of arrays with every combination of lengths 0..2, every hostile text / address / target, msg.value classes
func (p *pcWorld) enumTwists(m abi.Method) []pcTwist {
	var out []pcTwist
	set := func(i int, label string, val func() any) {
		out = append(out, pcTwist{label, func(v *pcVec) { v.args[i] = val(); v.class = append(v.class, label) }})
	}
	max := new(big.Int).Sub(pow2(256), big.NewInt(1))
	var ints, slices []int
	for i, in := range m.Inputs {
		i, in := i, in
		switch in.Type.T {
		case abi.UintTy:
			if in.Type.Size == 8 {
				for _, x := range []uint8{0, 1, 2, 255} {
					x := x
					set(i, fmt.Sprintf("%s=%d", in.Name, x), func() any { return x })
				}
				break
			}
			ints = append(ints, i)
			for _, n := range hostileNums() {
				n := n
				set(i, fmt.Sprintf("%s=2^%d-ish", in.Name, n.BitLen()), func() any { return new(big.Int).Set(n) })
			}
		case abi.StringTy:
			for _, str := range hostileChainStrings {
				str := str
				set(i, fmt.Sprintf("%s=%q", in.Name, str[:min(len(str), 10)]), func() any { return str })
			}
			set(i, in.Name+"=some valoper", func() any { return sdk.ValAddress(rndAddr(p.e.rng).Bytes()).String() })
			set(i, in.Name+"=some account", func() any { return sdk.AccAddress(rndAddr(p.e.rng).Bytes()).String() })
			set(i, in.Name+"=some hex address", func() any { return rndAddr(p.e.rng).Hex() })
		case abi.AddressTy:
			for _, a := range []common.Address{{}, crosschaintypes.GetAddress(), fxstakingtypes.GetAddress(), p.w.Bad, bridgex.Erc20ModuleAddr(), common.HexToAddress("0xffffffffffffffffffffffffffffffffffffffff")} {
				a := a
				set(i, in.Name+"="+a.Hex()[:10], func() any { return a })
			}
			set(i, in.Name+"=random", func() any { return rndAddr(p.e.rng) })
		case abi.FixedBytesTy:
			for _, t := range []string{"", "nope", "tron", "chain/gravity", "ibc/0/px", "px/transfer/channel-0", "module/evm", "\xff", "bsc", strings.Repeat("z", 32)} {
				t := t
				set(i, fmt.Sprintf("%s=%q", in.Name, t[:min(len(t), 10)]), func() any { return b32(t) })
			}
		case abi.BytesTy:
			for _, l := range []int{0, 1, 32, 33, 5000} {
				l := l
				set(i, fmt.Sprintf("%s=%dB", in.Name, l), func() any { b := make([]byte, l); p.e.rng.Read(b); return b })
			}
		case abi.SliceTy:
			slices = append(slices, i)
			for _, l := range []int{0, 1, 2, 3, 40} {
				l := l
				set(i, fmt.Sprintf("len(%s)=%d", in.Name, l), func() any { return p.sliceOf(in.Type, l) })
			}
			if in.Type.Elem.T == abi.UintTy {
				for _, n := range []*big.Int{big.NewInt(0), pow2(255), max} {
					n := n
					set(i, fmt.Sprintf("%s=[2^%d-ish ×2]", in.Name, n.BitLen()), func() any { return []*big.Int{new(big.Int).Set(n), new(big.Int).Set(n)} })
				}
			}
			if in.Type.Elem.T == abi.AddressTy {
				set(i, in.Name+"=[same token twice]", func() any { g := p.w.Groups[p.e.rng.Intn(len(p.w.Groups))].Erc20; return []common.Address{g, g} })
				set(i, in.Name+"=[zero address]", func() any { return []common.Address{{}} })
			}
		}
	}
	// two integer inputs that a method may add up
	for a := 0; a < len(ints); a++ {
		for b := a + 1; b < len(ints); b++ {
			ia, ib := ints[a], ints[b]
			for _, pr := range [][2]*big.Int{{max, max}, {pow2(255), pow2(255)}, {max, big.NewInt(1)}, {big.NewInt(3), new(big.Int).Sub(max, big.NewInt(1))}} {
				pr := pr
				label := fmt.Sprintf("%s=2^%d-ish & %s=2^%d-ish", m.Inputs[ia].Name, pr[0].BitLen(), m.Inputs[ib].Name, pr[1].BitLen())
				out = append(out, pcTwist{label, func(v *pcVec) {
					v.args[ia], v.args[ib] = new(big.Int).Set(pr[0]), new(big.Int).Set(pr[1])
					v.class = append(v.class, label)
				}})
			}
		}
	}
	// two array inputs: every combination of lengths
	for a := 0; a < len(slices); a++ {
		for b := a + 1; b < len(slices); b++ {
			ia, ib := slices[a], slices[b]
			for la := 0; la <= 2; la++ {
				for lb := 0; lb <= 2; lb++ {
					la, lb := la, lb
					label := fmt.Sprintf("len(%s)=%d & len(%s)=%d", m.Inputs[ia].Name, la, m.Inputs[ib].Name, lb)
					out = append(out, pcTwist{label, func(v *pcVec) {
						v.args[ia], v.args[ib] = p.sliceOf(m.Inputs[ia].Type, la), p.sliceOf(m.Inputs[ib].Type, lb)
						v.class = append(v.class, label)
					}})
				}
			}
		}
	}
	for _, val := range []*big.Int{big.NewInt(1), big.NewInt(7), pow2(64), max} {
		val := val
		out = append(out, pcTwist{"msg.value=" + val.String()[:min(len(val.String()), 8)], func(v *pcVec) {
			v.value = val
			v.class = append(v.class, "msg.value="+val.String()[:min(len(val.String()), 8)])
		}})
	}
	return out
}

func (p *pcWorld) sliceOf(t abi.Type, n int) any {
	sl := reflect.MakeSlice(t.GetType(), 0, n)
	for i := 0; i < n; i++ {
		sl = reflect.Append(sl, reflect.ValueOf(p.elem(t.Elem)))
	}
	return sl.Interface()
}

func (p *pcWorld) elem(t *abi.Type) any {
	rng := p.e.rng
	switch t.T {
	case abi.AddressTy:
		g := p.w.Groups[rng.Intn(len(p.w.Groups))]
		return g.Erc20
	case abi.UintTy:
		if t.Size == 256 {
			return big.NewInt(int64(1 + rng.Intn(5)))
		}
	}
	return randABIValue(*t, rng)
}

// fieldOfInput: the struct field go-ethereum's `Arguments.Copy` stores ABI input i in (a single input goes to the first
// field whatever its tag; otherwise the field tagged `abi:"<input name>"`, else the capitalised input name)
func fieldOfInput(target any, m abi.Method, i int) string {
	t := reflect.TypeOf(target).Elem()
	if len(m.Inputs) == 1 && t.NumField() > 0 {
		return t.Field(0).Name
	}
	for k := 0; k < t.NumField(); k++ {
		if t.Field(k).Tag.Get("abi") == m.Inputs[i].Name {
			return t.Field(k).Name
		}
	}
	return abi.ToCamelCase(m.Inputs[i].Name)
}

// features: what the Lean model of `Validate` may look at, keyed by the Go field name of the args struct
func (p *pcWorld) features(v *pcVec, target any) string {
	var fs []string
	for i := range v.m.Inputs {
		n := fieldOfInput(target, v.m, i)
		switch a := v.args[i].(type) {
		case string:
			fs = append(fs, fmt.Sprintf("empty:%s=%d", n, b2i(a == "")))
			fs = append(fs, fmt.Sprintf("str:%s=%s", n, hx.HexS(a))) // ValidateModuleName is computed by the model from the bytes
			_, err := sdk.ValAddressFromBech32(a)
			fs = append(fs, fmt.Sprintf("ext:ValAddressFromBech32:%s=%d", n, b2i(err != nil)))
		case common.Address:
			fs = append(fs, fmt.Sprintf("zaddr:%s=%d", n, b2i(a == common.Address{})))
		case *big.Int:
			fs = append(fs, fmt.Sprintf("big:%s=%s", n, a.String()))
		case [32]byte:
			fs = append(fs, fmt.Sprintf("zarr:%s=%d", n, b2i(a == [32]byte{})))
		case uint8:
			fs = append(fs, fmt.Sprintf("num:%s=%d", n, a))
		default:
			rv := reflect.ValueOf(v.args[i])
			if rv.Kind() == reflect.Slice {
				fs = append(fs, fmt.Sprintf("len:%s=%d", n, rv.Len()))
			}
		}
	}
	return strings.Join(fs, " ")
}

// maxBits: bit length of the largest *big.Int argument (array elements included)
func maxBits(v *pcVec) int {
	mb := 0
	for _, a := range v.args {
		switch x := a.(type) {
		case *big.Int:
			if x.BitLen() > mb {
				mb = x.BitLen()
			}
		case []*big.Int:
			for _, y := range x {
				if y.BitLen() > mb {
					mb = y.BitLen()
				}
			}
		}
	}
	return mb
}

func b2i(b bool) int {
	if b {
		return 1
	}
	return 0
}

var knownRevertKinds = []string{"invalid", "not support", "not found", "insufficient", "exceeds", "no delegation", "empty", "must be zero", "do not match", "not equal",
	"not exist", "does not exist", "unauthorized", "paused", "limit", "overflow", "out of gas", "zero", "mismatch", "execution reverted", "too", "no validator", "nonce"}

func revertKind(msg string) string {
	l := strings.ToLower(msg)
	for _, k := range knownRevertKinds {
		if strings.Contains(l, k) {
			return k
		}
	}
	return "other"
}

// send delivers a signed MsgEthereumTx to the precompile; returns "ok", "reverted:<cause>", "err:<..>", "panic:<..>"
func (p *pcWorld) send(v *pcVec, to common.Address, data []byte) string {
	s := p.w.S
	p.w.Height++
	s.Ctx = s.Ctx.WithBlockHeight(p.w.Height)
	cctx, write := s.Ctx.CacheContext()
	signer := p.w.Users[v.from]
	res := tryStack(func() error {
		tx, err := evmx.SignedTx(cctx, s.App, signer, to, v.value, data, 3_000_000, []common.Address{to})
		if err != nil {
			return err
		}
		r, err := evmx.Send(cctx, s.App, tx)
		if err != nil {
			return err
		}
		if r.Failed() {
			msg := r.VmError
			if r.VmError == vm.ErrExecutionReverted.Error() {
				if cause, e := abi.UnpackRevert(common.CopyBytes(r.Ret)); e == nil {
					msg = cause
				}
			}
			return fmt.Errorf("reverted: %s", msg)
		}
		return nil
	})
	if !isPanic(res) {
		write() // included (nonce consumed); the EVM reverted its effects when it failed
	}
	if strings.HasPrefix(res, "err:reverted: ") {
		return "reverted:" + strings.TrimPrefix(res, "err:reverted: ")
	}
	return res
}

// tryStack is hx.Try that also keeps the innermost fx-core / dependency frames of a panic (VERIF_STACK=1 prints them)
var lastStack, lastFaultFrame string

// faultFrame: the first non-runtime function after the panic, with its full import path
func faultFrame(stack string) string {
	seen := false
	for _, l := range strings.Split(stack, "\n") {
		if strings.HasPrefix(l, "\t") || l == "" {
			continue
		}
		if strings.HasPrefix(l, "panic(") {
			seen = true
			continue
		}
		if !seen || strings.HasPrefix(l, "runtime.") {
			continue
		}
		if i := strings.LastIndexByte(l, '('); i > 0 {
			l = l[:i]
		}
		return l
	}
	return ""
}

func tryStack(f func() error) (res string) {
	defer func() {
		if r := recover(); r != nil {
			msg := fmt.Sprint(r)
			if i := strings.IndexByte(msg, '\n'); i >= 0 {
				msg = msg[:i]
			}
			st := string(debug.Stack())
			lastStack = panicFrames(st)
			lastStackFull = st
			lastFaultFrame = faultFrame(st)
			res = "panic:" + msg
		}
	}()
	if err := f(); err != nil {
		return "err:" + err.Error()
	}
	return "ok"
}

// panicFrames: the function names between the panic and the EVM interpreter (innermost first), at most 8
func panicFrames(stack string) string {
	var out []string
	seenPanic := false
	for _, l := range strings.Split(stack, "\n") {
		if strings.HasPrefix(l, "\t") || l == "" {
			continue
		}
		if strings.HasPrefix(l, "panic(") {
			seenPanic = true
			out = out[:0]
			continue
		}
		if !seenPanic {
			continue
		}
		if i := strings.LastIndexByte(l, '('); i > 0 {
			l = l[:i]
		}
		if j := strings.LastIndexByte(l, '/'); j >= 0 {
			l = l[j+1:]
		}
		out = append(out, l)
		if len(out) >= 8 || strings.Contains(l, "EVMInterpreter") {
			break
		}
	}
	return strings.Join(out, " < ")
}

func (p *pcWorld) setup() {
	w := p.w
	s := w.S
	p.vals = s.ValAddr
	p.txIDs = map[string][]uint64{}
	// staking history: every user delegates to every validator and approves another user
	for ui, u := range w.Users {
		s.MintToken(u.AccAddress(), sdk.NewCoin(fxtypes.DefaultDenom, sdkmath.NewIntWithDecimal(1000, 18)))
		for _, va := range p.vals {
			val, err := s.App.StakingKeeper.GetValidator(s.Ctx, va)
			if err != nil {
				continue
			}
			if _, err := s.App.StakingKeeper.Delegate(s.Ctx, u.AccAddress(), sdkmath.NewIntWithDecimal(100, 18), stakingtypes.Unbonded, val, true); err != nil {
				p.e.out.Stats.Extra["pcrun-setup-delegate-err"] = err.Error()
			}
			sp := w.Users[(ui+1)%len(w.Users)]
			s.App.StakingKeeper.SetAllowance(s.Ctx, va, u.AccAddress(), sp.AccAddress(), new(big.Int).Mul(big.NewInt(50), big.NewInt(1e18)))
		}
	}
}

func (p *pcWorld) pending() {
	// refresh the ids of pending outgoing transfers per chain (created by successful crossChain calls)
	for c, name := range bridgex.Chains {
		var ids []uint64
		k := p.w.Keeper(c)
		for _, tx := range k.GetUnbatchedTransactions(p.w.S.Ctx) {
			ids = append(ids, tx.Id)
		}
		p.txIDs[name] = ids
	}
}

func (e *env) precompileRunSweep(t *testing.T) {
	e.out.Reset("pcrun")
	p := &pcWorld{e: e, w: bridgex.NewWorld(hx.NewSuite(t, 2))}
	p.setup()
	type pc struct {
		name string
		addr common.Address
		abi  abi.ABI
	}
	pcs := []pc{{"crosschain", crosschaintypes.GetAddress(), crosschaintypes.GetABI()}, {"staking", fxstakingtypes.GetAddress(), fxstakingtypes.GetABI()}}
	perMethod := hx.N(40, 1200)
	type job struct {
		p  pc
		m  abi.Method
		tw *pcTwist // nil = random twists
	}
	var jobs []job
	for _, c := range pcs {
		var names []string
		for n := range c.abi.Methods {
			names = append(names, n)
		}
		sort.Strings(names)
		for _, n := range names {
			if _, ok := argsOf[c.name+"."+n]; !ok {
				e.out.Violate("harness: precompile method " + c.name + "." + n + " of the ABI has no args struct in the harness table (new method? add it to argsOf)")
				continue
			}
			m := c.abi.Methods[n]
			for _, tw := range p.enumTwists(m) {
				tw := tw
				jobs = append(jobs, job{c, m, &tw})
			}
			for i := 0; i < perMethod; i++ {
				jobs = append(jobs, job{c, m, nil})
			}
		}
	}
	// interleave the methods so that every method sees the state the others build (pending transfers, allowances, …)
	e.rng.Shuffle(len(jobs), func(i, j int) { jobs[i], jobs[j] = jobs[j], jobs[i] })
	reached := map[string]int{}
	for ji, j := range jobs {
		if ji%50 == 0 {
			p.pending()
		}
		v := p.validVector(j.p.name, j.m)
		nt := 1
		if j.tw != nil {
			j.tw.apply(v)
			e.out.Count("pcrun-enumerated-boundary")
		} else {
			nt = hx.Pick(e.rng, []int{0, 1, 1, 2, 3})
			for k := 0; k < nt; k++ {
				p.twist(v)
			}
			if nt == 0 {
				v.class = append(v.class, "valid in the current world")
			}
		}
		packed, err := j.m.Inputs.Pack(v.args...)
		if err != nil {
			e.out.Count("pcrun-pack-err")
			continue
		}
		data := append(append([]byte{}, j.m.ID...), packed...)
		class := strings.Join(v.class, "; ")
		key := j.p.name + "." + j.m.Name
		// (a) the decoder's verdict vs the regenerated Lean model of Validate
		target := argsOf[key]()
		dres := hx.Try(func() error { return fxevmtypes.ParseMethodArgs(j.m, target, data[4:]) })
		dobs := "ok"
		switch {
		case isPanic(dres):
			dobs = "panic"
			desc := fmt.Sprintf("panic in argument decoding (ParseMethodArgs -> %s.Validate) of precompile %s on ABI-valid call data [%s]: %s", reflect.TypeOf(target).Elem().Name(), key, class, dres)
			e.violate("pcv-panic "+key, desc, []string{"# " + desc, "pcall " + j.p.addr.Hex() + " " + short(data)})
		case dres != "ok":
			dobs = "err"
		}
		e.out.Emit(fmt.Sprintf("pcv %s %s %s", key, reflect.TypeOf(target).Elem().Name(), p.features(v, target)), dobs)
		// (b) the real Run through a signed MsgEthereumTx
		replayLine := fmt.Sprintf("pcall from=u%d to=%s value=%s data=%s", v.from, j.p.addr.Hex(), v.value, hex.EncodeToString(data))
		res := p.send(v, j.p.addr, data)
		kind := strings.SplitN(res, ":", 2)[0]
		e.out.Stats.Evaluations++
		depth := "run-ok"
		switch {
		case kind == "panic":
			depth = "panic"
		case dobs != "ok":
			depth = "rejected-by-decoder"
		case kind != "ok":
			depth = "rejected-in-run"
		}
		reached[key+" "+depth]++
		e.out.Count("pcrun-" + depth)
		cause := ""
		if kind == "reverted" {
			cause = revertKind(res)
		}
		e.out.Nontrivial("pcrun " + key + " " + depth + " " + cause + " twists=" + fmt.Sprint(nt))
		if kind == "panic" {
			desc := fmt.Sprintf("panic in precompile %s Run on ABI-valid, semantically hostile call data [%s] (largest integer argument: %d bits) delivered as a signed MsgEthereumTx (decoder verdict %s): %s", key, class, maxBits(v), dobs, res)
			replay := append([]string{"# " + desc, "# frames: " + lastStack}, p.history...)
			e.violate("pcrun-panic "+key+" "+res, desc, append(replay, replayLine))
			continue
		}
		if dobs == "err" && kind == "ok" {
			desc := fmt.Sprintf("precompile %s executed call data that its own argument decoding rejects [%s]", key, class)
			e.violate("pcrun-accepts-rejected "+key, desc, append(append([]string{"# " + desc}, p.history...), replayLine))
		}
		if kind == "ok" && !j.m.IsConstant() {
			p.history = append(p.history, replayLine)
			if len(p.history) > 400 {
				p.history = p.history[len(p.history)-400:]
			}
		}
		// the eth_call path (no commit) on the same data for a fraction
		if ji%4 == 0 {
			cctx, _ := p.w.S.Ctx.CacheContext()
			addr := j.p.addr
			r2 := hx.Try(func() error {
				_, err := p.w.S.App.EvmKeeper.CallEVM(cctx, p.w.Users[v.from].Address(), &addr, v.value, 3_000_000, data, false)
				return err
			})
			e.out.Count("pcrun-ethcall-" + strings.SplitN(r2, ":", 2)[0])
			if isPanic(r2) {
				desc := fmt.Sprintf("panic in precompile %s Run on ABI-valid, semantically hostile call data [%s] (largest integer argument: %d bits) through CallEVM (eth_call path): %s", key, class, maxBits(v), r2)
				e.violate("pcrun-panic-call "+key+" "+r2, desc, append(append([]string{"# " + desc}, p.history...), replayLine))
			}
		}
	}
	// every method must have been driven past its decoder, and into a successful Run where the world allows it
	depths := map[string]int{}
	var shallow []string
	for _, c := range pcs {
		for n := range c.abi.Methods {
			k := c.name + "." + n
			if reached[k+" run-ok"]+reached[k+" rejected-in-run"] == 0 {
				shallow = append(shallow, k)
			}
		}
	}
	for k, n := range reached {
		depths[k] = n
	}
	sort.Strings(shallow)
	e.out.Stats.Extra["pcrun_reach"] = depths
	e.out.Stats.Extra["pcrun_methods_never_past_decoder"] = shallow
	if len(shallow) > 0 {
		e.out.Violate("harness: the semantic precompile stream never got past argument decoding for " + strings.Join(shallow, ",") + " (generator no longer valid for the ABI?)")
	}
	_ = contract.DefaultGasCap
}
