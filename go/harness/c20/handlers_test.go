package c20

// C20 harness, part 8: messages that PASS stateless validation, delivered to their real message-server handler.
//
// Parts 1–2 stop at ValidateBasic / GetSigners.  The property also says that a message offered to the chain is "either
// accepted or rejected with an error": a handler that panics on a structurally valid but semantically extreme message is
// the message-level twin of a precompile `Run` that panics on ABI-valid call data (two cooperating sites: the check in
// ValidateBasic and the code in the handler that relies on it).  This stream therefore
//   * builds a world in which handlers get past their first lookups (bridgex world + one bonded oracle with a bridger on
//     every bridged chain, users with balances, pending outgoing transfers and bridge calls);
//   * takes the valid templates of every fx-core message type, re-binds their actors to the world by field name
//     (bridger / oracle / sender / authority / chain / token contract / next event nonce), then applies 0–3 semantic
//     twists by field type (zero / one / 2^63 / 2^64-1 / 2^255 amounts, negative amounts, empty / duplicated / lengthened
//     arrays, unknown and zero addresses, unknown contracts, junk hex, wrong chain);
//   * runs ValidateBasic exactly as baseapp does; what passes goes to `MsgServiceRouter().Handler(msg)` on a cache
//     context (committed on success, so later messages see earlier effects), all under recover.
// Monitor: a panic in a handler is a concrete violation (replay = the committed messages so far + the failing message as
// `msg <type-url> <wire hex>`).

import (
	"encoding/hex"
	"fmt"
	"math/big"
	"math/rand"
	"reflect"
	"strings"
	"testing"

	sdkmath "cosmossdk.io/math"
	codectypes "github.com/cosmos/cosmos-sdk/codec/types"
	sdk "github.com/cosmos/cosmos-sdk/types"
	authtypes "github.com/cosmos/cosmos-sdk/x/auth/types"
	govtypes "github.com/cosmos/cosmos-sdk/x/gov/types"
	"github.com/ethereum/go-ethereum/common"

	fxtypes "github.com/functionx/fx-core/v8/types"
	crosschainkeeper "github.com/functionx/fx-core/v8/x/crosschain/keeper"
	crosschaintypes "github.com/functionx/fx-core/v8/x/crosschain/types"

	"fxverif/harness/bridgex"
	"fxverif/harness/hx"
)

type hWorld struct {
	e       *env
	w       *bridgex.World
	oracle  map[string]sdk.AccAddress // chain -> oracle
	bridger map[string]sdk.AccAddress
	extAddr map[string]string
	gov     string
	history []string
}

func (h *hWorld) setup(t *testing.T) {
	s := h.w.S
	h.oracle, h.bridger, h.extAddr = map[string]sdk.AccAddress{}, map[string]sdk.AccAddress{}, map[string]string{}
	h.gov = authtypes.NewModuleAddress(govtypes.ModuleName).String()
	// three oracles of equal power per chain: one bridger's claim is a vote (33 %), never a quorum — what a quorum of
	// oracles confirms is not hostile input (C01–C03 own the execution of observed events)
	for c, chain := range bridgex.Chains {
		k := h.w.Keeper(c)
		var oracles []string
		var accs []sdk.AccAddress
		for i := 0; i < 3; i++ {
			o := s.AddTestAddress(1, crosschaintypes.NewDelegateAmount(sdkmath.NewInt(300*1e3).MulRaw(1e18)))[0]
			oracles = append(oracles, o.String())
			accs = append(accs, o)
		}
		k.SetProposalOracle(s.Ctx, &crosschaintypes.ProposalOracle{Oracles: oracles})
		for i, oracle := range accs {
			bridger := s.AddTestAddress(1, sdk.NewCoin(fxtypes.DefaultDenom, sdkmath.NewInt(1000).MulRaw(1e18)))[0]
			ext := crosschaintypes.ExternalAddrToStr(chain, rndAddr(h.e.rng).Bytes())
			_, err := crosschainkeeper.NewMsgServerImpl(k).BondedOracle(s.Ctx, &crosschaintypes.MsgBondedOracle{OracleAddress: oracle.String(), BridgerAddress: bridger.String(),
				ExternalAddress: ext, ValidatorAddress: s.ValAddr[0].String(),
				DelegateAmount: crosschaintypes.NewDelegateAmount(sdkmath.NewInt(10000).MulRaw(1e18)), ChainName: chain})
			if err != nil {
				h.e.out.Stats.Extra["handlers-setup-bond-err "+chain] = err.Error()
				continue
			}
			if i == 0 {
				h.oracle[chain], h.bridger[chain], h.extAddr[chain] = oracle, bridger, ext
			}
		}
	}
	for _, u := range h.w.Users {
		s.MintToken(u.AccAddress(), sdk.NewCoin(fxtypes.DefaultDenom, sdkmath.NewIntWithDecimal(1000, 18)))
	}
}

func bigHostile(rng interface{ Intn(int) int }) sdkmath.Int {
	switch rng.Intn(9) {
	case 0:
		return sdkmath.ZeroInt()
	case 1:
		return sdkmath.OneInt()
	case 2:
		return sdkmath.NewIntFromBigInt(new(big.Int).Sub(pow2(63), big.NewInt(1)))
	case 3:
		return sdkmath.NewIntFromBigInt(pow2(63))
	case 4:
		return sdkmath.NewIntFromBigInt(new(big.Int).Sub(pow2(64), big.NewInt(1)))
	case 5:
		return sdkmath.NewIntFromBigInt(pow2(64))
	case 6:
		return sdkmath.NewIntFromBigInt(pow2(255))
	case 7:
		return sdkmath.NewIntFromBigInt(new(big.Int).Sub(pow2(256), big.NewInt(1)))
	default:
		return sdkmath.NewInt(-1)
	}
}

var intType = reflect.TypeOf(sdkmath.Int{})
var coinType = reflect.TypeOf(sdk.Coin{})

// rebind points the actors of a template at the world, by field name
func (h *hWorld) rebind(m sdk.Msg, chain string, c int) {
	rng := h.e.rng
	v := reflect.ValueOf(m).Elem()
	user := h.w.Users[rng.Intn(len(h.w.Users))]
	var groups []*bridgex.Group
	for _, g := range h.w.Groups {
		if g.OnChain[c] {
			groups = append(groups, g)
		}
	}
	grp := groups[rng.Intn(len(groups))]
	k := h.w.Keeper(c)
	setStr := func(name, val string) {
		if f := v.FieldByName(name); f.IsValid() && f.Kind() == reflect.String && f.CanSet() {
			f.SetString(val)
		}
	}
	setStr("ChainName", chain)
	if b, ok := h.bridger[chain]; ok {
		if f := v.FieldByName("BridgerAddress"); f.IsValid() && f.Kind() == reflect.String {
			if _, err := sdk.AccAddressFromBech32(f.String()); err == nil { // MsgEditBridger wants a valoper-prefixed text: leave it
				f.SetString(b.String())
			}
		}
		setStr("OracleAddress", h.oracle[chain].String())
		if f := v.FieldByName("EventNonce"); f.IsValid() && f.Kind() == reflect.Uint64 {
			f.SetUint(k.GetLastEventNonceByOracle(h.w.S.Ctx, h.oracle[chain]) + 1)
		}
		if f := v.FieldByName("BlockHeight"); f.IsValid() && f.Kind() == reflect.Uint64 {
			f.SetUint(k.GetLastObservedBlockHeight(h.w.S.Ctx).ExternalBlockHeight + 1)
		}
	}
	if f := v.FieldByName("Sender"); f.IsValid() && f.Kind() == reflect.String {
		if strings.HasPrefix(f.String(), "0x") || strings.HasPrefix(f.String(), "T") {
			f.SetString(crosschaintypes.ExternalAddrToStr(chain, user.Address().Bytes()))
		} else {
			f.SetString(user.AccAddress().String())
		}
	}
	setStr("From", user.AccAddress().String())
	setStr("Authority", h.gov)
	if rng.Intn(4) != 0 && grp.Contract[c] != "" {
		setStr("TokenContract", grp.Contract[c])
		if f := v.FieldByName("TokenContracts"); f.IsValid() && f.Kind() == reflect.Slice && f.Len() > 0 {
			for i := 0; i < f.Len(); i++ {
				g2 := groups[rng.Intn(len(groups))]
				if g2.Contract[c] != "" {
					f.Index(i).SetString(g2.Contract[c])
				}
			}
		}
	}
	// coins a user can pay: base denominations of the groups
	for _, name := range []string{"Amount", "BridgeFee", "AddBridgeFee", "Coin"} {
		// (a coin in the staking denomination — oracle stake — stays what the template says)
		if f := v.FieldByName(name); f.IsValid() && f.Type() == coinType && f.Interface().(sdk.Coin).Denom != fxtypes.DefaultDenom {
			f.Set(reflect.ValueOf(sdk.NewCoin(grp.Base, sdkmath.NewInt(int64(1+rng.Intn(20))))))
		}
	}
	// wrapped claim: rebind the inner claim too
	if mc, ok := m.(*crosschaintypes.MsgClaim); ok && mc.Claim != nil {
		var claim crosschaintypes.ExternalClaim
		if err := h.w.S.App.InterfaceRegistry().UnpackAny(mc.Claim, &claim); err == nil {
			if inner, ok := claim.(sdk.Msg); ok {
				h.rebind(inner, chain, c)
				if any, err := codectypes.NewAnyWithValue(inner); err == nil {
					mc.Claim = any
				}
			}
		}
	}
}

var hostileStrings = []string{"", "0x", "nope", "00", "zz", "abcd", strings.Repeat("ab", 40), "0x0000000000000000000000000000000000000000", "\xff\xfe", "eth", "transfer/channel-0",
	hex.EncodeToString([]byte("px/transfer/channel-0")), hex.EncodeToString([]byte("chain/bsc")), hex.EncodeToString([]byte("module/evm"))}


func hostileAddrStrings(rng *rand.Rand) []string {
	return []string{sdk.AccAddress(rndAddr(rng).Bytes()).String(), rndAddr(rng).Hex(), crosschaintypes.ExternalAddrToStr("tron", rndAddr(rng).Bytes()),
		sdk.ValAddress(rndAddr(rng).Bytes()).String(), common.Address{}.Hex(), "bsc", "polygon", "tron"}
}

func allBigHostile() []sdkmath.Int {
	sub1 := func(x *big.Int) sdkmath.Int { return sdkmath.NewIntFromBigInt(new(big.Int).Sub(x, big.NewInt(1))) }
	return []sdkmath.Int{sdkmath.ZeroInt(), sdkmath.OneInt(), sub1(pow2(63)), sdkmath.NewIntFromBigInt(pow2(63)), sub1(pow2(64)), sdkmath.NewIntFromBigInt(pow2(64)),
		sdkmath.NewIntFromBigInt(pow2(255)), sub1(pow2(256)), sdkmath.NewInt(-1)}
}

// msgTwist is one named hostile change of a message, addressed by field index so that it applies to any instance of the type
type msgTwist struct {
	label string
	apply func(v reflect.Value)
}

// enumFieldTwists: the boundary classes applied on EVERY run to every field of a message type (one at a time), plus the
// pair classes for two amounts that a handler may add up
func (h *hWorld) enumFieldTwists(t reflect.Type, prefix string, depth int) []msgTwist {
	var out []msgTwist
	var amountFields []int
	for i := 0; i < t.NumField(); i++ {
		i := i
		f := t.Field(i)
		if strings.HasPrefix(f.Name, "XXX_") || !f.IsExported() {
			continue
		}
		name := prefix + f.Name
		set := func(label string, fn func(fv reflect.Value)) {
			out = append(out, msgTwist{name + label, func(v reflect.Value) { fn(v.Field(i)) }})
		}
		switch {
		case f.Type == intType:
			amountFields = append(amountFields, i)
			for _, x := range allBigHostile() {
				x := x
				set(fmt.Sprintf("=%dbits", x.BigInt().BitLen()*x.Sign()), func(fv reflect.Value) { fv.Set(reflect.ValueOf(x)) })
			}
		case f.Type == coinType:
			amountFields = append(amountFields, i)
			for _, x := range allBigHostile() {
				x := x
				set(fmt.Sprintf(".Amount=%dbits", x.BigInt().BitLen()*x.Sign()), func(fv reflect.Value) {
					c := fv.Interface().(sdk.Coin)
					c.Amount = x
					fv.Set(reflect.ValueOf(c))
				})
			}
			for _, d := range []string{fxtypes.DefaultDenom, "nope", "eth0x1", "ibc/ABCDEF"} {
				d := d
				set(".Denom="+d, func(fv reflect.Value) {
					c := fv.Interface().(sdk.Coin)
					c.Denom = d
					fv.Set(reflect.ValueOf(c))
				})
			}
			set("=empty coin", func(fv reflect.Value) { fv.Set(reflect.ValueOf(sdk.Coin{})) })
		case f.Type.Kind() == reflect.String:
			for _, str := range hostileStrings {
				str := str
				set(fmt.Sprintf("=%q", str[:min(len(str), 12)]), func(fv reflect.Value) { fv.SetString(str) })
			}
			for k := 0; k < 8; k++ {
				k := k
				set(fmt.Sprintf("=address kind %d", k), func(fv reflect.Value) { fv.SetString(hostileAddrStrings(h.e.rng)[k]) })
			}
		case f.Type.Kind() == reflect.Uint64 || f.Type.Kind() == reflect.Uint32:
			for _, x := range []uint64{0, 1, 2, 1<<31 - 1, 1<<32 - 1, 1<<63 - 1, 1 << 63, 1<<64 - 1} {
				x := x
				set(fmt.Sprintf("=%d", x), func(fv reflect.Value) {
					if fv.Kind() == reflect.Uint32 {
						fv.SetUint(x & (1<<32 - 1))
					} else {
						fv.SetUint(x)
					}
				})
			}
			set("+1", func(fv reflect.Value) { fv.SetUint(fv.Uint() + 1) })
			set("+2", func(fv reflect.Value) { fv.SetUint(fv.Uint() + 2) })
		case f.Type.Kind() == reflect.Bool:
			set(" flipped", func(fv reflect.Value) { fv.SetBool(!fv.Bool()) })
		case f.Type.Kind() == reflect.Slice && f.Type.Elem().Kind() != reflect.Uint8:
			set(" emptied", func(fv reflect.Value) { fv.Set(reflect.MakeSlice(fv.Type(), 0, 0)) })
			set(" first element duplicated", func(fv reflect.Value) {
				if fv.Len() > 0 {
					fv.Set(reflect.Append(fv, fv.Index(0)))
				}
			})
			set(" one shorter", func(fv reflect.Value) {
				if fv.Len() > 0 {
					fv.Set(fv.Slice(0, fv.Len()-1))
				}
			})
			switch {
			case f.Type.Elem() == intType:
				for _, x := range allBigHostile() {
					x := x
					set(fmt.Sprintf("[0]=%dbits", x.BigInt().BitLen()*x.Sign()), func(fv reflect.Value) {
						if fv.Len() > 0 {
							fv.Index(0).Set(reflect.ValueOf(x))
						}
					})
					set(fmt.Sprintf("[*]=%dbits", x.BigInt().BitLen()*x.Sign()), func(fv reflect.Value) {
						for k := 0; k < fv.Len(); k++ {
							fv.Index(k).Set(reflect.ValueOf(x))
						}
					})
				}
			case f.Type.Elem() == coinType:
				for _, x := range allBigHostile() {
					x := x
					set(fmt.Sprintf("[*].Amount=%dbits", x.BigInt().BitLen()*x.Sign()), func(fv reflect.Value) {
						for k := 0; k < fv.Len(); k++ {
							c := fv.Index(k).Interface().(sdk.Coin)
							c.Amount = x
							fv.Index(k).Set(reflect.ValueOf(c))
						}
					})
				}
			case f.Type.Elem().Kind() == reflect.String:
				for _, str := range []string{"", "nope", "0x", common.Address{}.Hex()} {
					str := str
					set(fmt.Sprintf("[0]=%q", str[:min(len(str), 12)]), func(fv reflect.Value) {
						if fv.Len() > 0 {
							fv.Index(0).SetString(str)
						}
					})
				}
			case f.Type.Elem().Kind() == reflect.Struct && depth > 0:
				for _, tw := range h.enumFieldTwists(f.Type.Elem(), name+"[*].", depth-1) {
					tw := tw
					out = append(out, msgTwist{tw.label, func(v reflect.Value) {
						fv := v.Field(i)
						for k := 0; k < fv.Len(); k++ {
							tw.apply(fv.Index(k))
						}
					}})
				}
			}
		case f.Type.Kind() == reflect.Struct && depth > 0:
			for _, tw := range h.enumFieldTwists(f.Type, name+".", depth-1) {
				tw := tw
				out = append(out, msgTwist{tw.label, func(v reflect.Value) { tw.apply(v.Field(i)) }})
			}
		}
	}
	// two amounts that a handler may add up: both at / around the top of the 256-bit range
	setAmt := func(fv reflect.Value, x sdkmath.Int) {
		if fv.Type() == intType {
			fv.Set(reflect.ValueOf(x))
		} else {
			c := fv.Interface().(sdk.Coin)
			c.Amount = x
			fv.Set(reflect.ValueOf(c))
		}
	}
	top := sdkmath.NewIntFromBigInt(new(big.Int).Sub(pow2(256), big.NewInt(1)))
	half := sdkmath.NewIntFromBigInt(pow2(255))
	for a := 0; a < len(amountFields); a++ {
		for b := a + 1; b < len(amountFields); b++ {
			ia, ib := amountFields[a], amountFields[b]
			for _, pr := range [][2]sdkmath.Int{{top, top}, {half, half}, {top, sdkmath.OneInt()}, {sdkmath.OneInt(), top}} {
				pr := pr
				label := fmt.Sprintf("%s%s=%dbits & %s=%dbits", prefix, t.Field(ia).Name, pr[0].BigInt().BitLen(), t.Field(ib).Name, pr[1].BigInt().BitLen())
				out = append(out, msgTwist{label, func(v reflect.Value) { setAmt(v.Field(ia), pr[0]); setAmt(v.Field(ib), pr[1]) }})
			}
		}
	}
	return out
}

// twist changes one (possibly nested) field by type
func (h *hWorld) twistMsg(m sdk.Msg) string {
	rng := h.e.rng
	v := reflect.ValueOf(m).Elem()
	var cands []int
	for i := 0; i < v.NumField(); i++ {
		if v.Field(i).CanSet() && !strings.HasPrefix(v.Type().Field(i).Name, "XXX_") {
			cands = append(cands, i)
			if v.Field(i).Kind() != reflect.String { // amounts, arrays, counters, flags: three times the weight of text fields
				cands = append(cands, i, i)
			}
		}
	}
	if len(cands) == 0 {
		return "no field"
	}
	i := cands[rng.Intn(len(cands))]
	f := v.Field(i)
	name := v.Type().Field(i).Name
	switch {
	case f.Type() == intType:
		x := bigHostile(rng)
		f.Set(reflect.ValueOf(x))
		return fmt.Sprintf("%s=%dbits", name, x.BigInt().BitLen()*x.Sign())
	case f.Type() == coinType:
		c := f.Interface().(sdk.Coin)
		switch rng.Intn(3) {
		case 0:
			c.Amount = bigHostile(rng)
		case 1:
			c.Denom = hx.Pick(rng, []string{fxtypes.DefaultDenom, "nope", "eth0x1", "ibc/ABCDEF", h.w.Groups[rng.Intn(len(h.w.Groups))].Base})
		default:
			c = sdk.Coin{}
		}
		f.Set(reflect.ValueOf(c))
		return name + "=hostile coin"
	case f.Kind() == reflect.String:
		var pool []string
		pool = append(pool, hostileStrings...)
		pool = append(pool, hostileAddrStrings(h.e.rng)...)
		pool = append(pool, h.w.Bad.Hex())
		s := hx.Pick(rng, pool)
		f.SetString(s)
		return fmt.Sprintf("%s=%q", name, s[:min(len(s), 14)])
	case f.Kind() == reflect.Uint64 || f.Kind() == reflect.Uint32:
		x := hx.Pick(rng, []uint64{0, 1, 2, 1<<31 - 1, 1<<32 - 1, 1<<63 - 1, 1 << 63, 1<<64 - 1, f.Uint() + 1, f.Uint() + 2})
		if f.Kind() == reflect.Uint32 {
			x &= 1<<32 - 1
		}
		f.SetUint(x)
		return fmt.Sprintf("%s=%d", name, x)
	case f.Kind() == reflect.Bool:
		f.SetBool(!f.Bool())
		return name + " flipped"
	case f.Kind() == reflect.Slice && f.Type().Elem().Kind() != reflect.Uint8:
		n := f.Len()
		switch k := rng.Intn(4); {
		case k == 0:
			f.Set(reflect.MakeSlice(f.Type(), 0, 0))
			return name + " emptied"
		case k == 1 && n > 0:
			f.Set(reflect.Append(f, f.Index(rng.Intn(n))))
			return name + " element duplicated"
		case k == 2 && n > 0:
			f.Set(f.Slice(0, n-1))
			return name + " one shorter"
		case n > 0:
			// twist one element
			el := f.Index(rng.Intn(n))
			switch {
			case el.Type() == intType:
				el.Set(reflect.ValueOf(bigHostile(rng)))
			case el.Kind() == reflect.String:
				el.SetString(hx.Pick(rng, hostileStrings))
			case el.Type() == coinType:
				el.Set(reflect.ValueOf(sdk.Coin{Denom: hx.Pick(rng, []string{fxtypes.DefaultDenom, "nope"}), Amount: bigHostile(rng)}))
			case el.Kind() == reflect.Struct:
				for j := 0; j < el.NumField(); j++ {
					if el.Field(j).Kind() == reflect.Uint64 && el.Field(j).CanSet() {
						el.Field(j).SetUint(hx.Pick(rng, []uint64{0, 1, 1<<32 - 1, 1 << 32, 1<<63 - 1, 1<<64 - 1}))
					}
					if el.Field(j).Kind() == reflect.String && el.Field(j).CanSet() && rng.Intn(2) == 0 {
						el.Field(j).SetString(hx.Pick(rng, hostileStrings))
					}
				}
			}
			return name + " hostile element"
		}
	case f.Kind() == reflect.Struct:
		// nested struct (Params, Metadata, …): twist one of its scalar fields
		for try := 0; try < 4; try++ {
			j := rng.Intn(f.NumField())
			g := f.Field(j)
			if !g.CanSet() {
				continue
			}
			switch {
			case g.Type() == intType:
				g.Set(reflect.ValueOf(bigHostile(rng)))
			case g.Kind() == reflect.Uint64:
				g.SetUint(hx.Pick(rng, []uint64{0, 1, 1<<63 - 1, 1<<64 - 1}))
			case g.Kind() == reflect.String:
				g.SetString(hx.Pick(rng, hostileStrings))
			case g.Kind() == reflect.Slice && g.Type().Elem().Kind() != reflect.Uint8:
				g.Set(reflect.MakeSlice(g.Type(), 0, 0))
			default:
				continue
			}
			return name + "." + f.Type().Field(j).Name + " hostile"
		}
	}
	return name + " untouched"
}

func (e *env) handlerSweep(t *testing.T) {
	h := &hWorld{e: e, w: bridgex.NewWorld(hx.NewSuite(t, 2))}
	h.setup(t)
	app := h.w.S.App
	var tpls []sdk.Msg
	for _, tp := range e.templates() {
		// the world's chains use Ethereum-format external addresses: keep the templates built for such a chain
		if f := reflect.ValueOf(tp).Elem().FieldByName("ChainName"); f.IsValid() && f.Kind() == reflect.String && f.String() == "tron" {
			continue
		}
		tpls = append(tpls, tp)
	}
	type hjob struct {
		tpl   sdk.Msg
		tw    *msgTwist
		inner bool // the twist addresses the claim wrapped in a MsgClaim
	}
	var jobs []hjob
	for _, tp := range tpls {
		for _, tw := range h.enumFieldTwists(reflect.TypeOf(tp).Elem(), "", 2) {
			tw := tw
			jobs = append(jobs, hjob{tp, &tw, false})
		}
		if mc, ok := tp.(*crosschaintypes.MsgClaim); ok && mc.Claim != nil {
			var claim crosschaintypes.ExternalClaim
			if err := app.InterfaceRegistry().UnpackAny(mc.Claim, &claim); err == nil {
				for _, tw := range h.enumFieldTwists(reflect.TypeOf(claim).Elem(), "claim.", 2) {
					tw := tw
					jobs = append(jobs, hjob{tp, &tw, true})
				}
			}
		}
	}
	e.out.Stats.Extra["handler_enumerated_boundary_jobs"] = len(jobs)
	for i := 0; i < hx.N(800, 40000); i++ {
		jobs = append(jobs, hjob{tpls[e.rng.Intn(len(tpls))], nil, false})
	}
	e.rng.Shuffle(len(jobs), func(i, j int) { jobs[i], jobs[j] = jobs[j], jobs[i] })
	reached := map[string]int{}
	for _, jb := range jobs {
		tpl := jb.tpl
		url := sdk.MsgTypeURL(tpl)
		tw, err := app.AppCodec().Marshal(tpl)
		if err != nil {
			continue
		}
		cm, err := app.InterfaceRegistry().Resolve(url)
		if err != nil || app.AppCodec().Unmarshal(tw, cm) != nil {
			continue
		}
		m := cm.(sdk.Msg)
		c := e.rng.Intn(len(bridgex.Chains))
		chain := bridgex.Chains[c]
		h.rebind(m, chain, c)
		nt := 1
		var class []string
		if jb.tw != nil {
			e.out.Count("handler-enumerated-boundary")
			class = append(class, jb.tw.label)
			if jb.inner {
				mc := m.(*crosschaintypes.MsgClaim)
				var claim crosschaintypes.ExternalClaim
				if err := app.InterfaceRegistry().UnpackAny(mc.Claim, &claim); err == nil {
					jb.tw.apply(reflect.ValueOf(claim).Elem())
					if any, err := codectypes.NewAnyWithValue(claim); err == nil {
						mc.Claim = any
					}
				}
			} else {
				jb.tw.apply(reflect.ValueOf(m).Elem())
			}
		} else {
			nt = hx.Pick(e.rng, []int{0, 0, 1, 1, 2, 3})
			for k := 0; k < nt; k++ {
				class = append(class, h.twistMsg(m))
				if mc, ok := m.(*crosschaintypes.MsgClaim); ok && mc.Claim != nil && e.rng.Intn(2) == 0 {
					// twist the wrapped claim
					var claim crosschaintypes.ExternalClaim
					if err := app.InterfaceRegistry().UnpackAny(mc.Claim, &claim); err == nil {
						if inner, ok := claim.(sdk.Msg); ok {
							class = append(class, "claim."+h.twistMsg(inner))
							if any, err := codectypes.NewAnyWithValue(inner); err == nil {
								mc.Claim = any
							}
						}
					}
				}
			}
		}
		if nt == 0 {
			class = append(class, "re-bound valid template")
		}
		cls := strings.Join(class, "; ")
		wire, err := app.AppCodec().Marshal(m)
		if err != nil {
			e.out.Count("handler-marshal-err")
			continue
		}
		// through the codec, as a delivered message is
		dm, err := app.InterfaceRegistry().Resolve(url)
		if err != nil || app.AppCodec().Unmarshal(wire, dm) != nil {
			e.out.Count("handler-roundtrip-err")
			continue
		}
		msg := dm.(sdk.Msg)
		if mc, ok := m.(*crosschaintypes.MsgClaim); ok {
			// MsgClaim has no UnpackInterfaces: the codec leaves the nested Any unresolved and ValidateBasic rejects every
			// decoded MsgClaim ("expected claim type"); the in-memory form (what a repaired decoder would produce) is used
			// so that the claim handlers are exercised at all
			msg = mc
			cls += "; in-memory MsgClaim"
		}
		e.out.Stats.Evaluations++
		replayLine := "msg " + url + " " + short(wire)
		if vb, ok := msg.(sdk.HasValidateBasic); ok {
			r := hx.Try(func() error { return vb.ValidateBasic() })
			if isPanic(r) {
				desc := fmt.Sprintf("panic in ValidateBasic of %s on input class [%s]: %s", url, cls, r)
				e.violate("ValidateBasic "+url+" semantic", desc, []string{"# " + desc, replayLine})
				continue
			}
			if r != "ok" {
				e.out.Count("handler-rejected-by-validatebasic")
				reached[url+" vb-err"]++
				if nt == 0 {
					e.out.Stats.Extra["handler-valid-template-rejected "+url+" "+errKind(r)] = r
				}
				continue
			}
		}
		handler := app.MsgServiceRouter().Handler(msg)
		if handler == nil {
			e.out.Count("handler-none")
			continue
		}
		h.w.Height++
		h.w.S.Ctx = h.w.S.Ctx.WithBlockHeight(h.w.Height)
		cctx, write := h.w.S.Ctx.CacheContext()
		res := tryStack(func() error { _, err := handler(cctx, msg); return err })
		kind := strings.SplitN(res, ":", 2)[0]
		e.out.Count("handler-" + kind)
		reached[url+" "+kind]++
		e.out.Nontrivial("handler " + url + " " + kind + " " + errKind(res))
		switch kind {
		case "ok":
			// GENERAL RULE (spec/C20.json, assumptions): a message that only the governance authority can sign (it has an
			// `Authority` field) is executed — its handler must not panic — but on a branch that is discarded: the
			// configuration it would set (parameters, oracle lists, token registrations) is operator-trusted, like the node's
			// minimum gas prices; hostile input is what an arbitrary account can submit against a sanely configured chain
			if reflect.ValueOf(msg).Elem().FieldByName("Authority").IsValid() {
				e.out.Count("handler-authority-msg-not-committed")
				break
			}
			write()
			h.history = append(h.history, replayLine)
			if len(h.history) > 300 {
				h.history = h.history[len(h.history)-300:]
			}
		case "panic":
			desc := fmt.Sprintf("panic in the message handler of %s on a message that passes ValidateBasic, input class [%s]: %s", url, cls, res)
			replay := append([]string{"# " + desc, "# frames: " + lastStack}, h.history...)
			e.violate("handler-panic "+url+" "+res, desc, append(replay, replayLine))
		}
	}
	e.out.Stats.Extra["handler_reach"] = reached
}
