package c20

// Round 5 — the two transports of a gRPC query, and the guarded route look-up behind the crosschain query server.
//
// A query is not run by the transaction runner; what keeps a panicking query handler from ending the process is
//   * ABCI `Query`: the deferred recover() at the top of baseapp.(*BaseApp).Query, and
//   * the gRPC server: the recovery interceptor that baseapp.(*BaseApp).RegisterGRPCServer chains in front of the SDK's own
//     interceptor for every re-registered method (grpc-go itself does not recover a handler goroutine).
// Both facts are regenerated from the module cache into Gen/C20Handler.lean (`abciQueryRecoversFirst`, `grpcChain`) and proved
// about in Props/C20.lean (`query_transports_recover`).  Here they are TIED to the running code:
//
//   qtransport grpc <service>/<method>   the real app's RegisterGRPCServer is run against a capturing server; every re-registered
//                                        fx-core method handler is called with a POISONED service implementation (nil: the
//                                        generated handler's `srv.(QueryServer)` panics inside the interceptor chain)
//                                        -> recovered | escaped        (model: from grpcChain / grpcChainInHandler)
//   qtransport abci <service>/<method>   a fresh baseapp.BaseApp with the fx-core crosschain Query service registered on a
//                                        poisoned implementation, asked through BaseApp.Query
//                                        -> recovered | escaped        (model: from abciQueryRecoversFirst / abciQueryRoutesGrpc)
//   qroute <known 0/1>                   Query/Params of the crosschain module for a registered / an unknown chain name through the
//                                        real app -> routed | err | panic   (model: from the regenerated caller guard `qcalls`:
//                                        the `HasRoute` test in front of `GetRoute`, whose body panics on an unknown route)
//
// and every fx-core query method is ALSO driven with the hostile request stream through the gRPC transport (querySweep uses ABCI).

import (
	"context"
	"fmt"
	"sort"
	"strings"

	"cosmossdk.io/log"
	storetypes "cosmossdk.io/store/types"
	abci "github.com/cometbft/cometbft/abci/types"
	dbm "github.com/cosmos/cosmos-db"
	"github.com/cosmos/cosmos-sdk/baseapp"
	"github.com/cosmos/cosmos-sdk/codec"
	sdk "github.com/cosmos/cosmos-sdk/types"
	"github.com/cosmos/gogoproto/proto"
	"google.golang.org/grpc"
	"google.golang.org/grpc/metadata"
	protov2 "google.golang.org/protobuf/proto"
	"google.golang.org/protobuf/reflect/protoreflect"

	"github.com/functionx/fx-core/v8/testutil/helpers"
	crosschaintypes "github.com/functionx/fx-core/v8/x/crosschain/types"

	"fxverif/harness/hx"
)

type capServer struct {
	descs []*grpc.ServiceDesc
	impls []interface{}
}

func (c *capServer) RegisterService(sd *grpc.ServiceDesc, h interface{}) {
	c.descs = append(c.descs, sd)
	c.impls = append(c.impls, h)
}

type poisonedCrosschainQuery struct {
	crosschaintypes.QueryServer // nil: every method call dereferences a nil interface
}

func (e *env) queryTransport(s *hx.Suite, w *rawWorld) {
	e.out.Reset()
	// ---- gRPC transport of the real app ----
	cs := &capServer{}
	if r := hx.Try(func() error { s.App.RegisterGRPCServer(cs); return nil }); isPanic(r) {
		e.violate("qtransport-register", "RegisterGRPCServer of the real app panicked: "+r, []string{"# " + r})
		return
	}
	gc := codec.NewProtoCodec(s.App.InterfaceRegistry()).GRPCCodec()
	router := s.App.GRPCQueryRouter()
	ctx := metadata.NewIncomingContext(context.Background(), metadata.MD{})
	inputs := map[string]protoreflect.MessageDescriptor{}
	proto.HybridResolver.RangeFiles(func(fd protoreflect.FileDescriptor) bool {
		svcs := fd.Services()
		for i := 0; i < svcs.Len(); i++ {
			ms := svcs.Get(i).Methods()
			for k := 0; k < ms.Len(); k++ {
				inputs[string(svcs.Get(i).FullName())+"/"+string(ms.Get(k).Name())] = ms.Get(k).Input()
			}
		}
		return true
	})
	addrs := []string{w.a.AccAddress().String(), sdk.ValAddress(w.a.AccAddress()).String(), helpers.GenHexAddress().String(),
		helpers.GenExternalAddr("tron"), "eth", "tron", "bsc", "nochain"}
	order := make([]int, len(cs.descs))
	for i := range order {
		order[i] = i
	}
	sort.Slice(order, func(a, b int) bool { return cs.descs[order[a]].ServiceName < cs.descs[order[b]].ServiceName })
	n := hx.N(6, 120)
	for _, i := range order {
		sd := cs.descs[i]
		if !strings.HasPrefix(sd.ServiceName, "fx.") {
			e.out.Count("qtransport-grpc-dependency-service")
			continue
		}
		for _, m := range sd.Methods {
			name := sd.ServiceName + "/" + m.MethodName
			// (1) injected panic: poisoned implementation
			r := hx.Try(func() error {
				_, err := m.Handler(nil, ctx, func(interface{}) error { return nil }, nil)
				return err
			})
			e.out.Stats.Evaluations++
			obs := "recovered"
			switch {
			case isPanic(r):
				obs = "escaped"
				desc := fmt.Sprintf("a panic inside the gRPC query handler %s is not recovered by the interceptor chain of the gRPC server (grpc-go does not recover handler goroutines: the node process ends): %s", name, r)
				e.violate("qtransport-grpc", desc, []string{"# " + desc, "qtransport grpc " + name})
			case r == "ok":
				obs = "no-panic" // the poison did not take: the tie is void for this method
			}
			e.out.Emit("qtransport grpc "+name, obs)
			e.out.Count("qtransport-grpc-" + obs)
			// (2) the hostile request stream through the gRPC transport, real implementation
			in := inputs[name]
			if in == nil {
				e.out.Count("qtransport-grpc-no-descriptor")
				continue
			}
			for k := 0; k < n; k++ {
				var bz []byte
				class := "structured hostile request"
				switch k {
				case 0:
					class = "empty request"
				case 1:
					class = "random bytes"
					bz = make([]byte, 24)
					e.rng.Read(bz)
				default:
					var err error
					if bz, err = protov2.Marshal(hostileDyn(in, e.rng, addrs, 0)); err != nil {
						continue
					}
				}
				r := hx.Try(func() error {
					_, err := m.Handler(cs.impls[i], ctx, func(x interface{}) error { return gc.Unmarshal(bz, x.(proto.Message)) }, nil)
					return err
				})
				e.out.Stats.Evaluations++
				switch {
				case isPanic(r):
					desc := fmt.Sprintf("gRPC transport: query %s panicked through the re-registered handler on request class [%s]: %s", name, class, r)
					e.violate("qgrpc-escaped "+name, desc, []string{"# " + desc, fmt.Sprintf("grpcquery %s data=%x", name, bz)})
				case strings.Contains(r, "code = Internal") || strings.Contains(r, "panic") || strings.Contains(r, "runtime error") || strings.Contains(r, "nil pointer"):
					// possibly a panic recovered by the interceptor (it answers codes.Internal with the panic value as text; handlers
					// also answer Internal on purpose).  The interceptor has swallowed the stack: ask the registered route handler
					// directly (no recovery in between) to see whether the handler panics and whose frame it is
					blame, fr, rr := "", "", ""
					if h := router.Route("/" + name); h != nil {
						if qctx, err := s.App.CreateQueryContext(0, false); err == nil {
							rr, blame, fr = tryBlame(func() error { _, err := h(qctx, &abci.RequestQuery{Path: "/" + name, Data: bz}); return err })
						}
					}
					switch {
					case isPanic(rr) && strings.HasPrefix(blame, "github.com/functionx/fx-core/"):
						desc := fmt.Sprintf("gRPC query %s answered a malformed request with a recovered panic (gRPC transport, codes.Internal); the handler panics in fx-core code: %s: %s; request class [%s]", name, blame, rr, class)
						e.violate("qgrpc "+name, desc, []string{"# " + desc, "# frames: " + fr, fmt.Sprintf("grpcquery %s data=%x", name, bz)})
					case isPanic(rr):
						e.out.Count("qgrpc-dependency-panic")
					default:
						e.out.Count("qgrpc-err-internal")
					}
				case r == "ok":
					e.out.Count("qgrpc-ok")
				default:
					e.out.Count("qgrpc-err")
				}
			}
		}
	}

	// ---- ABCI transport: a fresh BaseApp with the crosschain Query service on a poisoned implementation ----
	func() {
		var ba *baseapp.BaseApp
		if r := hx.Try(func() error {
			ba = baseapp.NewBaseApp("qtransport", log.NewNopLogger(), dbm.NewMemDB(), nil)
			ba.SetInterfaceRegistry(s.App.InterfaceRegistry())
			ba.MountStores(storetypes.NewKVStoreKey("qtransport"))
			if err := ba.LoadLatestVersion(); err != nil {
				return err
			}
			crosschaintypes.RegisterQueryServer(ba.GRPCQueryRouter(), poisonedCrosschainQuery{})
			if _, err := ba.InitChain(&abci.RequestInitChain{InitialHeight: 1}); err != nil {
				return err
			}
			if _, err := ba.FinalizeBlock(&abci.RequestFinalizeBlock{Height: 1}); err != nil {
				return err
			}
			_, err := ba.Commit()
			return err
		}); r != "ok" {
			e.out.Count("qtransport-abci-setup-failed")
			e.out.Stats.Extra["qtransport_abci_setup"] = r
			return
		}
		for _, meth := range []string{"Params", "Oracles", "BridgeCalls", "LastObservedBlockHeight"} {
			path := "/fx.gravity.crosschain.v1.Query/" + meth
			var q *abci.ResponseQuery
			r := hx.Try(func() error {
				var err error
				q, err = ba.Query(context.Background(), &abci.RequestQuery{Path: path})
				return err
			})
			e.out.Stats.Evaluations++
			obs := "recovered"
			switch {
			case isPanic(r):
				obs = "escaped"
				desc := fmt.Sprintf("a panic inside the query handler %s escapes baseapp.Query (ABCI transport): %s", path, r)
				e.violate("qtransport-abci", desc, []string{"# " + desc, "qtransport abci " + path})
			case q == nil || !panicResponse(q.Code, q.Codespace, q.Log):
				obs = "no-panic"
			}
			e.out.Emit("qtransport abci "+strings.TrimPrefix(path, "/"), obs)
			e.out.Count("qtransport-abci-" + obs)
		}
	}()

	// ---- the guarded route look-up ----
	for _, c := range []struct {
		chain string
		known bool
	}{{"eth", true}, {"bsc", true}, {"tron", true}, {"nochain", false}, {"", false}, {"ETH", false}, {strings.Repeat("e", 300), false}, {"eth\x00", false}} {
		bz, _ := proto.Marshal(&crosschaintypes.QueryParamsRequest{ChainName: c.chain})
		var q *abci.ResponseQuery
		r := hx.Try(func() error {
			var err error
			q, err = s.App.Query(context.Background(), &abci.RequestQuery{Path: "/fx.gravity.crosschain.v1.Query/Params", Data: bz})
			return err
		})
		e.out.Stats.Evaluations++
		obs := "err"
		switch {
		case isPanic(r) || (q != nil && panicResponse(q.Code, q.Codespace, q.Log)):
			obs = "panic"
			desc := fmt.Sprintf("crosschain Query/Params for chain name %q (registered route: %v) panics in the route look-up instead of answering an error: %s", c.chain, c.known, r)
			if q != nil {
				desc += " " + strings.ReplaceAll(q.Log, "\n", " ")
			}
			if len(desc) > 600 {
				desc = desc[:600]
			}
			e.violate("qroute", desc, []string{"# " + desc, fmt.Sprintf("query /fx.gravity.crosschain.v1.Query/Params data=%x", bz)})
		case q != nil && q.Code == 0:
			obs = "routed"
		}
		k := "0"
		if c.known {
			k = "1"
		}
		e.out.Emit("qroute "+k, obs)
		e.out.Count("qroute-" + obs)
	}
}
