// Package evmx: reusable EVM helpers for the correspondence harnesses — a tiny assembler that emits runtime bytecode
// for call trees (no Solidity compiler is available), a frame/op tracer, contract installation through the EVM keeper
// and real signed MsgEthereumTx submission with a chosen gas limit.
package evmx

import (
	"encoding/binary"
	"fmt"
	"math/big"

	"github.com/ethereum/go-ethereum/common"
)

// opcodes used
const (
	STOP         = 0x00
	ISZERO       = 0x15
	POP          = 0x50
	MLOAD        = 0x51
	MSTORE       = 0x52
	SLOAD        = 0x54
	SSTORE       = 0x55
	JUMP         = 0x56
	JUMPI        = 0x57
	GAS          = 0x5a
	JUMPDEST     = 0x5b
	PUSH1        = 0x60
	PUSH2        = 0x61
	PUSH4        = 0x63
	PUSH20       = 0x73
	PUSH32       = 0x7f
	DUP1         = 0x80
	CODECOPY     = 0x39
	CALLER       = 0x33
	CALLVALUE    = 0x34
	RETURNDATASZ = 0x3d
	RETURNDATACP = 0x3e
	LOG0         = 0xa0
	CALL         = 0xf1
	CALLCODE     = 0xf2
	RETURN       = 0xf3
	DELEGATECALL = 0xf4
	STATICCALL   = 0xfa
	REVERT       = 0xfd
	INVALID      = 0xfe
)

type Kind int

const (
	KCall Kind = iota
	KStatic
	KDelegate
	KCallCode
)

func (k Kind) String() string { return [...]string{"call", "staticcall", "delegatecall", "callcode"}[k] }
func (k Kind) Opcode() byte    { return [...]byte{CALL, STATICCALL, DELEGATECALL, CALLCODE}[k] }
func (k Kind) HasValue() bool  { return k == KCall || k == KCallCode }

// Node is one element of a frame's straight-line program.
//
//	sstore:  SSTORE(Slot, Val)
//	call:    <Kind> to the contract holding Body (installed at To), Gas requested, Value, then bubble (REVERT) or swallow
//	pre:     <Kind> to a precompile (To) with calldata Data (CODECOPY'd from this contract's own code)
//	revert / stop / invalid
type Node struct {
	Op      string
	ID      int
	Slot    uint64
	Val     uint64
	Kind    Kind
	Gas     uint64 // requested gas; 0 = "all" (0xffffffff, capped by the 63/64 rule)
	Value   *big.Int
	Swallow bool
	To      common.Address
	Data    []byte
	Body    []*Node

	// filled by Assemble: pc of the first instruction of the node, of the CALL-family opcode, and one past the last
	PcStart, PcCall, PcEnd int
	OpPcs                  []int // pc of every instruction of the node
}

// fixed gas of the instruction sequences the assembler emits after a CALL-family opcode
const (
	// swallow:  POP
	PostSwallow = 2
	// bubble:   PUSH2 ok; JUMPI; [fail: PUSH1 0; PUSH1 0; REVERT] ok: JUMPDEST
	PostBubbleOk   = 3 + 10 + 1
	PostBubbleFail = 3 + 10 + 3 + 3
	// explicit REVERT(0,0): PUSH1 0; PUSH1 0; REVERT     STOP: 0     INVALID: all gas
	RevertCost = 6
)

type asm struct {
	pcs   []int // pc of every instruction emitted
	code  []byte
	fix   []fixup // data-offset placeholders
	datas [][]byte
}

type fixup struct {
	at   int // position of the 2-byte immediate
	data int // index into datas
}

// op emits one instruction: opcode followed by its immediate bytes
func (a *asm) op(b ...byte) {
	a.pcs = append(a.pcs, len(a.code))
	a.code = append(a.code, b...)
}
func (a *asm) push1(v byte) { a.op(PUSH1, v) }
func (a *asm) push2(v int)  { a.op(PUSH2, byte(v>>8), byte(v)) }
func (a *asm) push4(v uint32) {
	var b [5]byte
	b[0] = PUSH4
	binary.BigEndian.PutUint32(b[1:], v)
	a.op(b[:]...)
}

func (a *asm) pushBig(v *big.Int) {
	bz := v.Bytes()
	if len(bz) == 0 {
		bz = []byte{0}
	}
	if len(bz) > 32 {
		panic("push too wide")
	}
	a.op(append([]byte{byte(PUSH1 + len(bz) - 1)}, bz...)...)
}

func (a *asm) pushU64(v uint64) { a.pushBig(new(big.Int).SetUint64(v)) }

// Assemble emits runtime bytecode for one frame's node list and records pc ranges in the nodes.
// Bodies of `call` nodes are NOT inlined: they are separate contracts (assemble them separately, install at node.To).
func Assemble(nodes []*Node) []byte {
	a := &asm{}
	for _, n := range nodes {
		n.PcStart = len(a.code)
		n.PcCall = -1
		first := len(a.pcs)
		switch n.Op {
		case "sstore":
			a.pushU64(n.Val)
			a.pushU64(n.Slot)
			a.op(SSTORE)
		case "revert":
			a.push1(0)
			a.push1(0)
			a.op(REVERT)
		case "stop":
			a.op(STOP)
		case "invalid":
			a.op(INVALID)
		case "call", "pre":
			size := 0
			if n.Op == "pre" {
				size = len(n.Data)
				if size > 0 {
					// CODECOPY(destOffset=0, offset=<data>, size)
					a.push2(size)
					a.op(PUSH2, 0, 0)
					a.fix = append(a.fix, fixup{at: len(a.code) - 2, data: len(a.datas)})
					a.datas = append(a.datas, n.Data)
					a.push1(0)
					a.op(CODECOPY)
				}
			}
			a.push1(0)    // retSize
			a.push1(0)    // retOffset
			a.push2(size) // argsSize
			a.push1(0)    // argsOffset
			if n.Kind.HasValue() {
				v := n.Value
				if v == nil {
					v = new(big.Int)
				}
				a.pushBig(v)
			}
			a.op(append([]byte{PUSH20}, n.To.Bytes()...)...)
			g := n.Gas
			if g == 0 {
				g = 0xffffffff
			}
			a.push4(uint32(g))
			n.PcCall = len(a.code)
			a.op(n.Kind.Opcode())
			if n.Swallow {
				a.op(POP)
			} else {
				ok := len(a.code) + 3 + 1 + 2 + 2 + 1
				a.push2(ok)
				a.op(JUMPI)
				a.push1(0)
				a.push1(0)
				a.op(REVERT)
				if len(a.code) != ok {
					panic(fmt.Sprintf("asm: label mismatch %d %d", len(a.code), ok))
				}
				a.op(JUMPDEST)
			}
		default:
			panic("asm: unknown node op " + n.Op)
		}
		n.PcEnd = len(a.code)
		n.OpPcs = append([]int{}, a.pcs[first:]...)
	}
	a.op(STOP)
	// data section
	for _, f := range a.fix {
		off := len(a.code)
		a.code[f.at] = byte(off >> 8)
		a.code[f.at+1] = byte(off)
		a.code = append(a.code, a.datas[f.data]...)
	}
	if len(a.code) > 0xffff {
		panic("asm: code too large")
	}
	return a.code
}

// RequestedGas is the gas operand the assembler pushes for a node.
func (n *Node) RequestedGas() uint64 {
	if n.Gas == 0 {
		return 0xffffffff
	}
	return n.Gas
}

// Walk visits every node of a tree (pre-order), with the frame depth (0 = root contract).
func Walk(nodes []*Node, depth int, f func(n *Node, depth int)) {
	for _, n := range nodes {
		f(n, depth)
		if n.Op == "call" {
			Walk(n.Body, depth+1, f)
		}
	}
}
