package evmx

import (
	"math/big"

	sdk "github.com/cosmos/cosmos-sdk/types"
	"github.com/ethereum/go-ethereum/common"
	ethtypes "github.com/ethereum/go-ethereum/core/types"
	"github.com/ethereum/go-ethereum/core/vm"
	evmtypes "github.com/evmos/ethermint/x/evm/types"

	"github.com/functionx/fx-core/v8/app"
	"github.com/functionx/fx-core/v8/testutil/helpers"
	fxtypes "github.com/functionx/fx-core/v8/types"
)

// Install puts runtime bytecode at an address through the EVM keeper (account + code, no constructor).
func Install(ctx sdk.Context, a *app.App, addr common.Address, code []byte) error {
	return a.EvmKeeper.CreateContractWithCode(ctx, addr, code)
}

// InstallTree assembles and installs the root node list at root and every `call` body at its node.To.
func InstallTree(ctx sdk.Context, a *app.App, root common.Address, nodes []*Node) error {
	if err := Install(ctx, a, root, Assemble(nodes)); err != nil {
		return err
	}
	for _, n := range nodes {
		if n.Op == "call" {
			if err := InstallTree(ctx, a, n.To, n.Body); err != nil {
				return err
			}
		}
	}
	return nil
}

// SignedTx builds and signs a real MsgEthereumTx (EIP-2930 access-list transaction, gas price 0) from signer to `to`.
// warm: addresses put into the access list (e.g. the custom precompiles, which the fork does not pre-warm).
func SignedTx(ctx sdk.Context, a *app.App, signer *helpers.Signer, to common.Address, value *big.Int, data []byte, gasLimit uint64, warm []common.Address) (*evmtypes.MsgEthereumTx, error) {
	chainID := fxtypes.EIP155ChainID(ctx.ChainID())
	if value == nil {
		value = new(big.Int)
	}
	var al ethtypes.AccessList
	for _, w := range warm {
		al = append(al, ethtypes.AccessTuple{Address: w})
	}
	nonce := a.EvmKeeper.GetNonce(ctx, signer.Address())
	tx := evmtypes.NewTx(chainID, nonce, &to, value, gasLimit, big.NewInt(0), nil, nil, data, &al)
	tx.From = signer.Address().Bytes()
	if err := tx.Sign(ethtypes.LatestSignerForChainID(chainID), signer); err != nil {
		return nil, err
	}
	return tx, nil
}

// Send submits the signed tx to the EVM message server (the handler a delivered MsgEthereumTx reaches): the chosen gas
// limit is honoured (unlike keeper-level CallEVM, which overrides it).
func Send(ctx sdk.Context, a *app.App, tx *evmtypes.MsgEthereumTx) (*evmtypes.MsgEthereumTxResponse, error) {
	return a.EvmKeeper.EthereumTx(ctx, tx)
}

// SendTraced applies the same signed tx through ApplyMessageWithConfig with a tracer attached (same code path as
// ApplyTransaction minus hooks/refund bookkeeping); used on a scratch cache context to observe frames and op costs.
func SendTraced(ctx sdk.Context, a *app.App, tx *evmtypes.MsgEthereumTx, tr vm.EVMLogger) (*evmtypes.MsgEthereumTxResponse, error) {
	ethTx := tx.AsTransaction()
	cfg, err := a.EvmKeeper.EVMConfig(ctx, a.EvmKeeper.ChainID(), ethTx.Hash())
	if err != nil {
		return nil, err
	}
	cfg.Tracer = tr
	msg := tx.AsMessage(cfg.BaseFee)
	return a.EvmKeeper.ApplyMessageWithConfig(ctx, msg, cfg, true)
}

// ---------------------------------------------------------------------------------------------------------
// tracer

// OpEv is one executed opcode.
type OpEv struct {
	Depth int // 1 = root frame
	Pc    uint64
	Op    vm.OpCode
	Gas   uint64 // before the op
	Cost  uint64
	Code  common.Address // address whose code runs
	Frame int            // index into Tracer.Frames
	Err   bool
}

// FrameEv is one call frame (root included).
type FrameEv struct {
	Parent  int
	Typ     vm.OpCode
	From    common.Address
	To      common.Address
	Gas     uint64 // gas given to the frame (stipend included)
	Value   *big.Int
	GasUsed uint64
	Err     string // "" = returned normally
	CallPc  uint64 // pc of the CALL-family op in the parent that created it
	Done    bool
}

type Tracer struct {
	Ops      []OpEv
	Frames   []FrameEv
	stack    []int
	lastCall map[int]uint64 // frame -> pc of its last CALL-family op
	TxGas    uint64
}

func NewTracer() *Tracer { return &Tracer{lastCall: map[int]uint64{}} }

var _ vm.EVMLogger = (*Tracer)(nil)

func (t *Tracer) CaptureTxStart(gasLimit uint64) { t.TxGas = gasLimit }
func (t *Tracer) CaptureTxEnd(restGas uint64)    {}

func (t *Tracer) CaptureStart(env *vm.EVM, from, to common.Address, create bool, input []byte, gas uint64, value *big.Int) {
	t.Frames = append(t.Frames, FrameEv{Parent: -1, Typ: vm.CALL, From: from, To: to, Gas: gas, Value: value})
	t.stack = []int{0}
}

func (t *Tracer) CaptureEnd(output []byte, gasUsed uint64, err error) {
	if len(t.Frames) == 0 {
		return
	}
	t.Frames[0].GasUsed = gasUsed
	t.Frames[0].Done = true
	if err != nil {
		t.Frames[0].Err = err.Error()
	}
}

func (t *Tracer) CaptureEnter(typ vm.OpCode, from, to common.Address, input []byte, gas uint64, value *big.Int) {
	parent := -1
	if len(t.stack) > 0 {
		parent = t.stack[len(t.stack)-1]
	}
	t.Frames = append(t.Frames, FrameEv{Parent: parent, Typ: typ, From: from, To: to, Gas: gas, Value: value, CallPc: t.lastCall[parent]})
	t.stack = append(t.stack, len(t.Frames)-1)
}

func (t *Tracer) CaptureExit(output []byte, gasUsed uint64, err error) {
	if len(t.stack) <= 1 {
		return
	}
	i := t.stack[len(t.stack)-1]
	t.stack = t.stack[:len(t.stack)-1]
	t.Frames[i].GasUsed = gasUsed
	t.Frames[i].Done = true
	if err != nil {
		t.Frames[i].Err = err.Error()
	}
}

func (t *Tracer) CaptureState(pc uint64, op vm.OpCode, gas, cost uint64, scope *vm.ScopeContext, rData []byte, depth int, err error) {
	fr := -1
	if len(t.stack) > 0 {
		fr = t.stack[len(t.stack)-1]
	}
	code := common.Address{}
	if scope != nil && scope.Contract != nil && scope.Contract.CodeAddr != nil {
		code = *scope.Contract.CodeAddr
	}
	t.Ops = append(t.Ops, OpEv{Depth: depth, Pc: pc, Op: op, Gas: gas, Cost: cost, Code: code, Frame: fr, Err: err != nil})
	switch op {
	case vm.CALL, vm.CALLCODE, vm.DELEGATECALL, vm.STATICCALL:
		t.lastCall[fr] = pc
	}
}

func (t *Tracer) CaptureFault(pc uint64, op vm.OpCode, gas, cost uint64, scope *vm.ScopeContext, depth int, err error) {
	fr := -1
	if len(t.stack) > 0 {
		fr = t.stack[len(t.stack)-1]
	}
	t.Ops = append(t.Ops, OpEv{Depth: depth, Pc: pc, Op: op, Gas: gas, Cost: cost, Frame: fr, Err: true})
}

// Kept reports whether frame i and all its ancestors returned normally.
func (t *Tracer) Kept(i int) bool {
	for i >= 0 {
		if t.Frames[i].Err != "" || !t.Frames[i].Done {
			return false
		}
		i = t.Frames[i].Parent
	}
	return true
}
