package c17

// Replicas with different *process histories* executing the same block history:
//   plain    a fresh app instance that only ever executes the blocks;
//   restart  the app instance is dropped and re-opened on the same database (a node restart) before every block of a
//            seeded subset of heights ("restart-all": before every block), so whatever lives only in process memory
//            (package-level variables, keeper-level caches) is lost there and kept by the other replicas;
//   statesync  before a seeded subset of blocks the node is replaced by one that was STATE-SYNCED from it: a snapshot of the
//            committed state is taken through the SDK snapshot manager (what a node serves to its peers) and restored,
//            chunk by chunk, into a fresh application on an empty database (what a joining node does); the new node has
//            nothing but the snapshot — no process memory, no pruned-but-still-cached versions, no transient leftovers;
//   restart-histq / histq  reads at OLDER heights (after a restart before every block / on a long-running node): histq_test.go;
//   sim      between blocks the instance serves what a node serves besides block execution: CheckTx of the coming
//            transactions (also of the block after, where they mostly fail), tx simulations, the injected messages on a
//            discarded branch, gRPC queries — all of which may fill process memory but never consensus state.
// Consensus observations (app hash, results hash, per-tx gas used, result codes, events) must not depend on the mode.

import (
	"bytes"
	"crypto/sha256"
	"encoding/hex"
	"fmt"
	"math/rand"
	"os"
	"path/filepath"
	"sort"
	"strings"
	"time"

	"cosmossdk.io/log"
	"cosmossdk.io/store/snapshots"
	snapshottypes "cosmossdk.io/store/snapshots/types"
	storetypes "cosmossdk.io/store/types"
	abci "github.com/cometbft/cometbft/abci/types"
	tmproto "github.com/cometbft/cometbft/proto/tendermint/types"
	dbm "github.com/cosmos/cosmos-db"
	"github.com/cosmos/cosmos-sdk/baseapp"
	"github.com/cosmos/cosmos-sdk/client/flags"
	codectypes "github.com/cosmos/cosmos-sdk/codec/types"
	sdk "github.com/cosmos/cosmos-sdk/types"
	"github.com/cosmos/cosmos-sdk/types/query"
	banktypes "github.com/cosmos/cosmos-sdk/x/bank/types"
	evmtypes "github.com/evmos/ethermint/x/evm/types"
	"github.com/spf13/viper"

	"github.com/functionx/fx-core/v8/app"
	fxtypes "github.com/functionx/fx-core/v8/types"
	crosschaintypes "github.com/functionx/fx-core/v8/x/crosschain/types"
	erc20types "github.com/functionx/fx-core/v8/x/erc20/types"

	"fxverif/harness/detx"
)

// node = one replica: the chain driver plus the database it can be re-opened on.
type node struct {
	c       *detx.Chain
	gd      *detx.GenesisDoc
	db      dbm.DB
	backend string
	dir     string
	name    string
	stats   map[string]int
	syncs   int
	exports []string // genesis export / import observations (export_test.go)
}

func openDB(backend, dir, name string) (dbm.DB, error) {
	if backend == "goleveldb" {
		return dbm.NewGoLevelDB(name, filepath.Join(dir, "data"), nil)
	}
	return dbm.NewMemDB(), nil
}

func newApp(gd *detx.GenesisDoc, db dbm.DB, more ...func(*baseapp.BaseApp)) *app.App {
	opts := viper.New()
	opts.Set(flags.FlagChainID, gd.ChainID)
	return app.New(log.NewNopLogger(), db, nil, true, map[int64]bool{}, fxtypes.GetDefaultNodeHome(), opts, append([]func(*baseapp.BaseApp){baseapp.SetChainID(gd.ChainID)}, more...)...)
}

// snapshotOption gives the application a snapshot manager (interval 0: snapshots are only taken on request).
func snapshotOption(dir, name string) (func(*baseapp.BaseApp), error) {
	sdir := filepath.Join(dir, "snapshots-"+name)
	if err := os.MkdirAll(sdir, 0o755); err != nil {
		return nil, err
	}
	st, err := snapshots.NewStore(dbm.NewMemDB(), sdir)
	if err != nil {
		return nil, err
	}
	return baseapp.SetSnapshot(st, snapshottypes.NewSnapshotOptions(0, 2)), nil
}

// stateSync replaces the node by one restored from a snapshot of its committed state on an empty database.
func (n *node) stateSync() error {
	if n.c.Height < 1 {
		return nil
	}
	src := n.c.App.SnapshotManager()
	if src == nil {
		return fmt.Errorf("statesync: the node has no snapshot manager")
	}
	snap, err := src.Create(uint64(n.c.Height))
	if err != nil {
		return fmt.Errorf("statesync: create snapshot at %d: %w", n.c.Height, err)
	}
	n.syncs++
	name := fmt.Sprintf("%s-sync%d", n.name, n.syncs)
	db, err := openDB(n.backend, n.dir, name)
	if err != nil {
		return err
	}
	opt, err := snapshotOption(n.dir, name)
	if err != nil {
		return err
	}
	a := newApp(n.gd, db, opt)
	if err = a.SnapshotManager().Restore(*snap); err != nil {
		return fmt.Errorf("statesync: offer snapshot: %w", err)
	}
	for i := uint32(0); i < snap.Chunks; i++ {
		chunk, err := src.LoadChunk(snap.Height, snap.Format, i)
		if err != nil {
			return fmt.Errorf("statesync: load chunk %d: %w", i, err)
		}
		done, err := a.SnapshotManager().RestoreChunk(chunk)
		if err != nil {
			return fmt.Errorf("statesync: restore chunk %d: %w", i, err)
		}
		if done {
			break
		}
	}
	if a.LastBlockHeight() != n.c.Height {
		return fmt.Errorf("statesync: height %d after restore, expected %d", a.LastBlockHeight(), n.c.Height)
	}
	if cid := a.LastCommitID(); !bytes.Equal(cid.Hash, n.c.AppHash) {
		return fmt.Errorf("statesync: app hash %x after restore, expected %x", cid.Hash, n.c.AppHash)
	}
	_ = n.c.App.Close()
	nc := *n.c
	nc.App = a
	n.c, n.db = &nc, db
	n.stats["statesyncs"]++
	n.stats[fmt.Sprintf("statesync-chunks:%d", min(int(snap.Chunks), 3))]++
	hdr := tmproto.Header{ChainID: nc.ChainID, Height: nc.Height, Time: nc.Time}
	a.CapabilityKeeper.InitMemStore(a.NewUncachedContext(false, hdr)) // as the first BeginBlock after the sync would
	return nil
}

// newNode boots a fresh app on its own database and runs InitChain (same steps as detx.NewChainDB, but the database
// stays reachable so that the instance can be restarted on it).
func newNode(gd *detx.GenesisDoc, backend, dir string, snap bool) (*node, error) {
	name := fmt.Sprintf("application-%d-%d", os.Getpid(), time.Now().UnixNano())
	db, err := openDB(backend, dir, name)
	if err != nil {
		return nil, err
	}
	var more []func(*baseapp.BaseApp)
	if snap {
		opt, err := snapshotOption(dir, name)
		if err != nil {
			return nil, err
		}
		more = append(more, opt)
	}
	a := newApp(gd, db, more...)
	c := &detx.Chain{App: a, ChainID: gd.ChainID, Genesis: time.Unix(gd.TimeUnix, 0).UTC()}
	for _, v := range gd.Vals {
		pk, _ := hex.DecodeString(v.ConsPubKey)
		ad, _ := hex.DecodeString(v.ConsAddr)
		c.Vals = append(c.Vals, detx.ValState{ConsAddr: ad, PubKey: pk, Power: v.Power})
	}
	cp := app.CustomGenesisConsensusParams().ToProto()
	res, err := a.InitChain(&abci.RequestInitChain{Time: c.Genesis, ChainId: gd.ChainID, ConsensusParams: &cp, AppStateBytes: gd.AppState, InitialHeight: 1})
	if err != nil {
		return nil, err
	}
	c.InitResp, c.Time, c.AppHash = res, c.Genesis, res.AppHash
	return &node{c: c, gd: gd, db: db, backend: backend, dir: dir, name: name, stats: map[string]int{}}, nil
}

// restart drops the app instance and opens a new one on the same database (only possible once a block is committed).
func (n *node) restart() error {
	if n.c.Height < 1 {
		return nil
	}
	if n.backend == "goleveldb" { // a real close + re-open of the files
		if err := n.c.App.Close(); err != nil {
			return fmt.Errorf("close: %w", err)
		}
		db, err := openDB(n.backend, n.dir, n.name)
		if err != nil {
			return err
		}
		n.db = db
	}
	a := newApp(n.gd, n.db)
	if a.LastBlockHeight() != n.c.Height {
		return fmt.Errorf("restart: height %d after re-open, expected %d", a.LastBlockHeight(), n.c.Height)
	}
	if cid := a.LastCommitID(); !bytes.Equal(cid.Hash, n.c.AppHash) {
		return fmt.Errorf("restart: app hash %x after re-open, expected %x", cid.Hash, n.c.AppHash)
	}
	nc := *n.c
	nc.App = a
	n.c = &nc
	n.stats["restarts"]++
	// the injected messages of a history run between blocks; on a real node nothing runs before the first BeginBlock after
	// a restart, which is where x/capability rebuilds its in-memory index — do that here, as that BeginBlock would
	hdr := tmproto.Header{ChainID: nc.ChainID, Height: nc.Height, Time: nc.Time}
	a.CapabilityKeeper.InitMemStore(a.NewUncachedContext(false, hdr))
	return nil
}

// serve does what a node does besides executing blocks, for the transactions of the coming block(s).
func (n *node) serve(cur detx.Block, next *detx.Block, rng *rand.Rand) {
	a := n.c.App
	do := func(f func()) {
		defer func() {
			if r := recover(); r != nil {
				n.stats["serve-panics"]++
			}
		}()
		f()
	}
	blocks := []*detx.Block{&cur}
	if next != nil {
		blocks = append(blocks, next)
	}
	for bi, b := range blocks {
		for _, t := range b.Txs {
			bz, err := hex.DecodeString(t)
			if err != nil {
				continue
			}
			do(func() { // simulation first: CheckTx below advances the sequence in the check state
				if _, _, err := a.Simulate(bz); err != nil {
					n.stats["simulate:err"]++
				} else {
					n.stats["simulate:ok"]++
				}
			})
			do(func() {
				if bi == 0 || rng.Intn(2) == 0 {
					if res, err := a.CheckTx(&abci.RequestCheckTx{Tx: bz, Type: abci.CheckTxType_New}); err == nil && res != nil {
						n.stats[fmt.Sprintf("checktx:code=%d", min(int(res.Code), 1))]++
					}
				}
			})
		}
		// the injected messages (claims, EVM transactions) on a branch that is thrown away
		for _, in := range b.Inject {
			do(func() { n.dryInject(in, cur) })
		}
	}
	do(func() { n.queries(rng) })
}

// dryInject executes an injected message on a discarded branch of the committed state (a simulation of it).
func (n *node) dryInject(in detx.Inject, b detx.Block) {
	bz, err := hex.DecodeString(in.Data)
	if err != nil {
		return
	}
	var any codectypes.Any
	if any.Unmarshal(bz) != nil {
		return
	}
	var msg sdk.Msg
	reg := n.c.App.InterfaceRegistry()
	if reg.UnpackAny(&any, &msg) != nil {
		return
	}
	if mc, ok := msg.(*crosschaintypes.MsgClaim); ok && mc.Claim != nil {
		var ec crosschaintypes.ExternalClaim
		if reg.UnpackAny(mc.Claim, &ec) != nil {
			return
		}
	}
	hdr := tmproto.Header{ChainID: n.c.ChainID, Height: b.Height, Time: time.Unix(b.TimeUnix, 0).UTC()}
	ctx, _ := n.c.App.NewUncachedContext(true, hdr).WithEventManager(sdk.NewEventManager()).CacheContext()
	switch in.Kind {
	case "ethtx":
		if em, ok := msg.(*evmtypes.MsgEthereumTx); ok {
			_, err = n.c.App.EvmKeeper.EthereumTx(ctx, em)
		}
	case "msg":
		if h := n.c.App.MsgServiceRouter().Handler(msg); h != nil {
			_, err = h(ctx, msg)
		}
	}
	if err != nil {
		n.stats["dry-inject:err"]++
	} else {
		n.stats["dry-inject:ok"]++
	}
}

// queries: a handful of gRPC queries against the committed state through the real query router.
func (n *node) queries(rng *rand.Rand) { n.queriesAt(n.c.Height, rng) }

// queriesAt: the same queries against the state committed at height `at` (the latest one or an OLDER one: what an
// explorer / indexer asks with x-cosmos-block-height).
func (n *node) queriesAt(at int64, rng *rand.Rand) {
	if n.c.Height < 1 || at < 1 || at > n.c.Height {
		return
	}
	cdc := n.c.App.AppCodec()
	ask := func(path string, req interface{ Marshal() ([]byte, error) }) []byte {
		bz, err := req.Marshal()
		if err != nil {
			return nil
		}
		res, err := n.c.App.Query(nil, &abci.RequestQuery{Path: path, Data: bz, Height: at})
		if err != nil || res == nil || res.Code != 0 {
			n.stats["query:err"]++
			if os.Getenv("VERIF_C17_DEBUG") != "" {
				n.stats["query:err:"+path]++
			}
			return nil
		}
		n.stats["query:ok"]++
		return res.Value
	}
	_ = cdc
	for _, chain := range []string{"eth", "bsc"} {
		ask("/fx.gravity.crosschain.v1.Query/BatchFees", &crosschaintypes.QueryBatchFeeRequest{ChainName: chain})
		ask("/fx.gravity.crosschain.v1.Query/Oracles", &crosschaintypes.QueryOraclesRequest{ChainName: chain})
		ask("/fx.gravity.crosschain.v1.Query/CurrentOracleSet", &crosschaintypes.QueryCurrentOracleSetRequest{ChainName: chain})
		ask("/fx.gravity.crosschain.v1.Query/BridgeTokens", &crosschaintypes.QueryBridgeTokensRequest{ChainName: chain})
		ask("/fx.gravity.crosschain.v1.Query/OutgoingTxBatches", &crosschaintypes.QueryOutgoingTxBatchesRequest{ChainName: chain})
	}
	ask("/fx.erc20.v1.Query/TokenPairs", &erc20types.QueryTokenPairsRequest{})
	if bz := ask("/cosmos.bank.v1beta1.Query/DenomsMetadata", &banktypes.QueryDenomsMetadataRequest{Pagination: &query.PageRequest{Limit: 50}}); bz != nil {
		var res banktypes.QueryDenomsMetadataResponse
		if res.Unmarshal(bz) == nil {
			// resolve every alias / base denomination the way a client would
			for _, md := range res.Metadatas {
				if len(md.DenomUnits) == 0 {
					continue
				}
				for _, al := range append([]string{md.Base}, md.DenomUnits[0].Aliases...) {
					ask("/fx.erc20.v1.Query/TokenPair", &erc20types.QueryTokenPairRequest{Token: al})
					ask("/fx.erc20.v1.Query/DenomAliases", &erc20types.QueryDenomAliasesRequest{Denom: al})
					ask("/fx.erc20.v1.Query/AliasDenom", &erc20types.QueryAliasDenomRequest{Alias: al})
					for _, chain := range []string{"eth", "bsc"} {
						ask("/fx.gravity.crosschain.v1.Query/BridgeCoinByDenom", &crosschaintypes.QueryBridgeCoinByDenomRequest{ChainName: chain, Denom: al})
						ask("/fx.gravity.crosschain.v1.Query/DenomToToken", &crosschaintypes.QueryDenomToTokenRequest{ChainName: chain, Denom: al})
					}
				}
			}
		}
	}
	// keeper-level reads on a query context, as the JSON-RPC / precompile view calls do
	ctx, err := n.c.App.CreateQueryContext(at, false)
	if err == nil {
		ctx, _ = ctx.CacheContext()
		k := n.c.App.EthKeeper
		k.IteratorBridgeDenomWithContract(ctx, func(t *crosschaintypes.BridgeToken) bool {
			if _, err := k.GetBaseDenom(ctx, t.Denom); err == nil {
				n.stats["read:base-denom"]++
			}
			_, _ = k.ManyToOne(ctx, t.Denom)
			return false
		})
		_ = k.GetAllBatchFees(ctx, 100, nil)
	}
}

// storeHashes lists the commit hash (first 4 bytes) of every store after the last commit: when the application hash of two
// executions differs this names the module stores that diverged.
func storeHashes(c *detx.Chain) string {
	type commitInfoer interface {
		GetCommitInfo(int64) (*storetypes.CommitInfo, error)
	}
	ci, ok := c.App.CommitMultiStore().(commitInfoer)
	if !ok {
		return "-"
	}
	info, err := ci.GetCommitInfo(c.Height)
	if err != nil || info == nil {
		return "-"
	}
	var parts []string
	for _, si := range info.StoreInfos {
		h := si.CommitId.Hash
		if len(h) > 4 {
			h = h[:4]
		}
		parts = append(parts, fmt.Sprintf("%s:%x", si.Name, h))
	}
	sort.Strings(parts)
	return strings.Join(parts, ",")
}

// blockLine = obsLine + the per-store commit hashes of the chain that just executed the block.
func blockLine(c *detx.Chain, o detx.Obs) string { return obsLine(o) + " stores=" + storeHashes(c) }

// canonLog cuts the Go stack trace that baseapp's default panic recovery (SDK dependency code) appends to the log of a
// transaction whose handler panicked ("recovered: <value>\nstack:\n<goroutine N [running]: …>"): the log is not part of
// the results hash and CometBFT specifies it as non-deterministic; everything before the trace is still compared.
func canonLog(l string) string {
	if i := strings.Index(l, "\nstack:\n"); i >= 0 && strings.Contains(l, "recovered: ") {
		return l[:i]
	}
	return l
}

// fullResults: digest over code, codespace, data, gas, canonical log and info of every transaction result.
func fullResults(o detx.Obs) string {
	h := sha256.New()
	for _, r := range o.TxResults {
		fmt.Fprintf(h, "%d|%s|%x|%d|%d|%d:%s|%d:%s|", r.Code, r.Codespace, r.Data, r.GasWanted, r.GasUsed, len(canonLog(r.Log)), canonLog(r.Log), len(r.Info), r.Info)
	}
	return hex.EncodeToString(h.Sum(nil)[:12])
}

// obsLine is the compared observation of one block: the detx line plus the gas used by every transaction.
func obsLine(o detx.Obs) string {
	gas := make([]string, 0, len(o.TxResults))
	for _, r := range o.TxResults {
		gas = append(gas, fmt.Sprintf("%d/%d", r.GasUsed, r.GasWanted))
	}
	g := strings.Join(gas, ",")
	if g == "" {
		g = "-"
	}
	// detx's own `fullres` digest covers the raw log; replace it by the digest over the canonical log
	var fields []string
	for _, f := range strings.Fields(o.Line()) {
		if strings.HasPrefix(f, "fullres=") {
			f = "fullres=" + fullResults(o)
		}
		fields = append(fields, f)
	}
	return strings.Join(fields, " ") + " gas=" + g
}

// replayMode executes a history on a fresh node in the given mode and returns the observation lines.
func replayMode(h *detx.History, mode, backend, dir string, rseed int64) ([]string, map[string]int, error) {
	lines, _, st, err := replayModeX(h, mode, backend, dir, rseed, false)
	return lines, st, err
}

// replayModeX: with export, the replica also exports its genesis after the blocks of exportNotes and starts a fresh chain
// from one of the exports (export_test.go); these observations are returned separately (the generator's own execution has none).
func replayModeX(h *detx.History, mode, backend, dir string, rseed int64, export bool) ([]string, []string, map[string]int, error) {
	lines, n, err := replayNode(h, mode, backend, dir, rseed, export)
	if n == nil {
		return lines, nil, nil, err
	}
	return lines, n.exports, n.stats, err
}

func replayNode(h *detx.History, mode, backend, dir string, rseed int64, export bool) ([]string, *node, error) {
	n, err := newNode(h.Genesis, backend, dir, strings.HasPrefix(mode, "statesync"))
	if err != nil {
		return nil, nil, err
	}
	rng := rand.New(rand.NewSource(rseed))
	lines := []string{fmt.Sprintf("h=0 apphash=%x", n.c.AppHash)}
	for i, b := range h.Blocks {
		switch mode {
		case "restart-all":
			if err = n.restart(); err != nil {
				return lines, n, err
			}
		case "restart":
			if rng.Intn(3) == 0 {
				if err = n.restart(); err != nil {
					return lines, n, err
				}
			}
		case "sim":
			var next *detx.Block
			if i+1 < len(h.Blocks) {
				next = &h.Blocks[i+1]
			}
			n.serve(b, next, rng)
		case "statesync", "statesync-all":
			if mode == "statesync-all" || i == 1 || rng.Intn(4) == 0 {
				if err = n.stateSync(); err != nil {
					return lines, n, err
				}
			}
		case "restart-histq":
			if err = n.restart(); err != nil {
				return lines, n, err
			}
			n.historical(rng)
		case "histq":
			if rng.Intn(2) == 0 {
				n.historical(rng)
			}
		case "sim-restart":
			if rng.Intn(4) == 0 {
				if err = n.restart(); err != nil {
					return lines, n, err
				}
				if rng.Intn(2) == 0 {
					n.historical(rng)
				}
			}
			if rng.Intn(2) == 0 {
				var next *detx.Block
				if i+1 < len(h.Blocks) {
					next = &h.Blocks[i+1]
				}
				n.serve(b, next, rng)
			}
		}
		o := runBlock(n.c, b)
		lines = append(lines, blockLine(n.c, o))
		if export {
			n.exports = append(n.exports, n.afterBlock(b)...)
		}
	}
	return lines, n, nil
}
