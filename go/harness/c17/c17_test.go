package c17

// C17 runtime half: deterministic block execution.
//  * a seeded history (genesis + ~35 blocks of really signed transactions: bank, staking, gov with fx messages incl. a
//    proposal that drops SEVERAL bonded oracles at once and coin registrations, crosschain oracle bonding / housekeeping /
//    claims / pool with several bridged tokens / fee increase / cancel / one batch per token / bridge calls / oracle-set
//    requests / time-outs, erc20 conversion both ways, EVM -> precompiles, migrate, invalid transactions and transactions
//    whose gas limit sits at the boundary of what they need) is generated against the parent's app instance and written
//    to a file;
//  * the same history is re-executed (a) in the same process by 8 fresh app instances with different PROCESS HISTORIES
//    (plain; restarted on the same database before every / some blocks; serving CheckTx + simulations + dry runs of the
//    injected messages + gRPC queries between blocks; both), (b) by re-executing this test binary in several fresh
//    processes with different GOMAXPROCS / TZ / GOGC / GODEBUG / cwd / HOME / DB backend, staggered start times and
//    process-history modes, (c) by child processes whose wall clock is shifted (fakeclock_test.go); app hash, per-store
//    commit hashes, results hash, per-transaction gas used / wanted and result codes, full result digest, event digest
//    and validator updates must agree line by line;
//  * correspondence with the Lean models (op lines -> Driver/C17.lean): PowerDiff, binary64 addition (round53 / fadd),
//    GetSupportChains, GetAllBatchFees with and without per-token limit / base fees, UpdateProposalOracles (error kind /
//    unbonding order on a branch of each history's state), gov Tally (sum of per-validator contributions); repeated calls
//    of the real functions must be bit-identical (monitors); the transfer stack's OnAcknowledgementPacket for every
//    acknowledgement shape against the regenerated statement program (ack_test.go);
//  * round 4: forged acknowledgements of a hostile counterparty relayed as real MsgAcknowledgement transactions (ack_test.go).

import (
	"encoding/json"
	"fmt"
	"math"
	"math/big"
	"math/rand"
	"os"
	"os/exec"
	"path/filepath"
	"sort"
	"strconv"
	"strings"
	"sync"
	"testing"
	"time"

	sdkmath "cosmossdk.io/math"

	crosschaintypes "github.com/functionx/fx-core/v8/x/crosschain/types"

	"fxverif/harness/detx"
	"fxverif/harness/hx"
)

// replay executes a history on a fresh app instance in the given replica mode and returns the observation lines.
func replay(h *detx.History, mode, db, dir string) ([]string, map[string]int, error) {
	if mode == "" {
		mode = "plain"
	}
	return replayMode(h, mode, db, dir, h.Seed*31+int64(len(mode)))
}

// TestC17Child is the body of a child process: replay the history file, write one observation line per block.
func TestC17Child(t *testing.T) {
	if os.Getenv("VERIF_C17_CHILD") != "1" {
		t.Skip("child mode only")
	}
	bz, err := os.ReadFile(os.Getenv("VERIF_C17_HISTORY"))
	if err != nil {
		t.Fatal(err)
	}
	var h detx.History
	if err = json.Unmarshal(bz, &h); err != nil {
		t.Fatal(err)
	}
	cwd, _ := os.Getwd()
	lines, _, err := replay(&h, os.Getenv("VERIF_C17_MODE"), os.Getenv("VERIF_C17_DB"), cwd)
	if err != nil {
		t.Fatal(err)
	}
	if err = os.WriteFile(os.Getenv("VERIF_C17_OBS"), []byte(strings.Join(lines, "\n")+"\n"), 0o644); err != nil {
		t.Fatal(err)
	}
}

type variation struct {
	name string
	env  []string
	db   string
	mode string // process history of the replica: plain | restart | restart-all | restart-histq | histq | sim | sim-restart | statesync | statesync-all
}

var variations = []variation{
	{"procs1-utc", []string{"GOMAXPROCS=1", "TZ=UTC"}, "", "plain"},
	{"procs4-tokyo-gogc10-sim", []string{"GOMAXPROCS=4", "TZ=Asia/Tokyo", "GOGC=10"}, "", "sim"},
	{"procs16-newyork-leveldb-restart", []string{"GOMAXPROCS=16", "TZ=America/New_York", "GODEBUG=madvdontneed=1"}, "goleveldb", "restart"},
	{"procs2-kiritimati-gogc1-statesync", []string{"GOMAXPROCS=2", "TZ=Pacific/Kiritimati", "GOGC=1"}, "", "statesync-all"},
	{"procs8-abidjan-nopreempt-simrestart", []string{"GOMAXPROCS=8", "TZ=Africa/Abidjan", "GODEBUG=asyncpreemptoff=1"}, "", "sim-restart"},
	{"procs32-lordhowe-gogc400-leveldb-restartall", []string{"GOMAXPROCS=32", "TZ=Australia/Lord_Howe", "GOGC=400"}, "goleveldb", "restart-all"},
	{"procs3-chatham-leveldb-restarthistq", []string{"GOMAXPROCS=3", "TZ=Pacific/Chatham"}, "goleveldb", "restart-histq"},
}

// in-process replicas of every history (besides the generator's own instance, which also served the generator's
// state reads and gas simulations): >= 8 executions in one process so that Go's per-range-statement randomisation of
// map iteration gets enough draws, and every process-history mode is covered.
var inprocModes = []string{"plain", "restart-all", "sim", "statesync", "restart", "restart-histq", "sim-restart", "histq"}

func runChild(v variation, idx int, histPath, workDir string) ([]string, string, error) {
	return runChildBin(os.Args[0], v, idx, histPath, workDir)
}

func runChildBin(bin string, v variation, idx int, histPath, workDir string) ([]string, string, error) {
	dir := filepath.Join(workDir, fmt.Sprintf("child%d-%s", idx, v.name))
	if err := os.MkdirAll(filepath.Join(dir, "home"), 0o755); err != nil {
		return nil, "", err
	}
	obs := filepath.Join(dir, "obs.txt")
	cmd := exec.Command(bin, "-test.run", "^TestC17Child$", "-test.timeout", "600s")
	cmd.Dir = dir
	env := []string{}
	for _, e := range os.Environ() { // inherit everything except what the variation sets
		k := e[:strings.IndexByte(e+"=", '=')]
		drop := k == "GOMAXPROCS" || k == "TZ" || k == "GOGC" || k == "GODEBUG" || k == "HOME" || k == "GOMEMLIMIT" || strings.HasPrefix(k, "VERIF_C17_")
		if !drop {
			env = append(env, e)
		}
	}
	env = append(env, v.env...)
	env = append(env, "VERIF_C17_CHILD=1", "VERIF_C17_HISTORY="+histPath, "VERIF_C17_OBS="+obs, "VERIF_C17_DB="+v.db, "VERIF_C17_MODE="+v.mode, "HOME="+filepath.Join(dir, "home"))
	cmd.Env = env
	outb, err := cmd.CombinedOutput()
	if err != nil {
		tail := string(outb)
		if len(tail) > 1500 {
			tail = tail[len(tail)-1500:]
		}
		return nil, tail, err
	}
	bz, err := os.ReadFile(obs)
	if err != nil {
		return nil, string(outb), err
	}
	return strings.Split(strings.TrimRight(string(bz), "\n"), "\n"), "", nil
}

func describeHistory(h *detx.History, path string) []string {
	rep := []string{fmt.Sprintf("history seed=%d genesis_time=%d chain_id=%s validators=%d blocks=%d file=%s", h.Seed, h.Genesis.TimeUnix, h.Genesis.ChainID, len(h.Genesis.Vals), len(h.Blocks), path)}
	for _, b := range h.Blocks {
		rep = append(rep, fmt.Sprintf("block h=%d time=%d proposer=%d absent=%v ntx=%d note=%q", b.Height, b.TimeUnix, b.Proposer, b.Absent, len(b.Txs), b.Note))
	}
	return rep
}

// field returns the value of `name=` in an observation line.
func field(line, name string) string {
	for _, f := range strings.Fields(line) {
		if strings.HasPrefix(f, name+"=") {
			return f[len(name)+1:]
		}
	}
	return ""
}

// txDetail names the first transaction of a block whose gas or result code differs between two observation lines.
func txDetail(a, b string, kinds []string) string {
	ga, gb := strings.Split(field(a, "gas"), ","), strings.Split(field(b, "gas"), ",")
	ca, cb := strings.Split(field(a, "codes"), ","), strings.Split(field(b, "codes"), ",")
	for i := 0; i < len(ga) && i < len(gb); i++ {
		codeA, codeB := "?", "?"
		if i < len(ca) && i < len(cb) {
			codeA, codeB = ca[i], cb[i]
		}
		if ga[i] != gb[i] || codeA != codeB {
			kind := "?"
			if i < len(kinds) {
				kind = kinds[i]
			}
			return fmt.Sprintf("; first differing tx #%d kind=%s gasUsed/gasWanted %s vs %s, code %s vs %s", i, kind, ga[i], gb[i], codeA, codeB)
		}
	}
	return ""
}

// storeDetail names the stores whose commit hashes differ between two observation lines.
func storeDetail(a, b string) string {
	sa, sb := strings.Split(field(a, "stores"), ","), strings.Split(field(b, "stores"), ",")
	var diff []string
	for i := 0; i < len(sa) && i < len(sb); i++ {
		if sa[i] != sb[i] {
			name := sa[i]
			if j := strings.IndexByte(name, ':'); j > 0 {
				name = name[:j]
			}
			diff = append(diff, name)
		}
	}
	if len(diff) == 0 {
		return ""
	}
	return "; diverging stores: " + strings.Join(diff, ",")
}

// compare reports the first differing line between a reference execution and another one.
func compare(out *hx.Out, h *detx.History, kinds [][]string, histPath, refName string, ref []string, name string, got []string) bool {
	n := len(ref)
	if len(got) > n {
		n = len(got)
	}
	for i := 0; i < n; i++ {
		a, b := "<missing>", "<missing>"
		if i < len(ref) {
			a = ref[i]
		}
		if i < len(got) {
			b = got[i]
		}
		if a == b {
			continue
		}
		fields := detx.DiffFields(a, b)
		consensus := false
		for _, f := range fields {
			if f == "apphash" || f == "results" || f == "valupd" || f == "h" || f == "ntx" || f == "err" || f == "gas" || f == "codes" || f == "stores" || f == "inject" {
				consensus = true
			}
		}
		cls := "non-consensus observation (events/log)" // `inject` = outcome digest of the routed messages (EVM return data, gas, logs, events): what a transaction result carries
		if consensus {
			cls = "consensus-relevant digest"
		}
		note, detail := "", ""
		if i >= 1 && i-1 < len(h.Blocks) {
			note = " [" + h.Blocks[i-1].Note + "]"
			var k []string
			if i-1 < len(kinds) {
				k = kinds[i-1]
			}
			detail = txDetail(a, b, k) + storeDetail(a, b)
		}
		rep := describeHistory(h, histPath)
		rep = append(rep, "# "+refName+": "+a, "# "+name+": "+b)
		out.ViolateWith(fmt.Sprintf("nondeterminism: block %d%s %s differs between executions (%s vs %s): %s%s", i, note, strings.Join(fields, "+"), refName, name, cls, detail), rep)
		return false
	}
	return true
}

func TestC17(t *testing.T) {
	seed := hx.Seed()
	out := hx.NewOut()
	defer out.Close("validation: seeded histories of really signed transactions (bank, staking, gov+fx messages incl. multi-oracle removal, crosschain bonding/claims/pool with several tokens/batches/bridge calls/oracle sets/time-outs, erc20, EVM precompiles, migrate, invalid txs, boundary gas limits) executed on 9 in-process instances (plain / restarted / serving CheckTx+simulations+queries) and N fresh processes (GOMAXPROCS/TZ/GOGC/GODEBUG/cwd/HOME/DB/start-time/process-history/wall-clock-offset varied); app hash + per-store hashes + results hash + per-tx gas and codes + full result digest + event digest + validator updates compared per block. correspondence: PowerDiff / f64add / GetSupportChains / GetAllBatchFees(+limits) / UpdateProposalOracles / gov Tally against the Lean models; monitors: repeated calls bit-identical. non-trivial = distinct (tx kind, result code) and model-op outcome classes")
	workDir := filepath.Join(hx.OutDir(), "c17")
	_ = os.RemoveAll(workDir)
	if err := os.MkdirAll(workDir, 0o755); err != nil {
		t.Fatal(err)
	}

	// shifted-wall-clock child binary (background build; quick tier: used only if it is ready in time)
	var fake *fakeClockBuild
	if os.Getenv("VERIF_C17_FAKECLOCK") != "0" {
		wait := 100 * time.Second
		if hx.Tier() == "thorough" {
			wait = 20 * time.Minute
		}
		fake = startFakeClockBuild(workDir, wait)
	}
	type pendingFake struct {
		g        *gen
		histPath string
		ref      []string
	}
	var fakeQueue []pendingFake

	nHist := hx.N(3, 20)
	nChild := 3
	if hx.Tier() == "thorough" {
		nChild = len(variations)
	}
	if v := os.Getenv("VERIF_C17_CHILDREN"); v != "" {
		if n, err := strconv.Atoi(v); err == nil && n >= 0 && n <= len(variations) {
			nChild = n
		}
	}
	var lastGen *gen
	var probes, tallies, vlists, acks [][2]string
	executions := 0
	for hi := 0; hi < nHist; hi++ {
		hseed := seed*1000 + int64(hi)
		out.Reset("history", fmt.Sprint(hseed))
		g := newGen(hseed, out)
		g.run()
		lastGen = g
		probes = append(probes, g.probes...)
		tallies = append(tallies, g.tallies...)
		vlists = append(vlists, g.vlists...)
		acks = append(acks, g.acks...)
		ref := []string{fmt.Sprintf("h=0 apphash=%x", g.c.InitResp.AppHash)}
		okBlocks := 0
		for i, o := range g.obs {
			ref = append(ref, g.lines[i])
			if o.Err == "" {
				okBlocks++
			}
		}
		executions++
		histPath := filepath.Join(workDir, fmt.Sprintf("history_%d.json", hseed))
		bz, err := json.Marshal(g.hist)
		if err != nil {
			t.Fatal(err)
		}
		if err = os.WriteFile(histPath, bz, 0o644); err != nil {
			t.Fatal(err)
		}
		_ = os.WriteFile(filepath.Join(workDir, fmt.Sprintf("obs_parent_%d.txt", hseed)), []byte(strings.Join(ref, "\n")+"\n"), 0o644)
		if okBlocks != len(g.obs) {
			out.ViolateWith(fmt.Sprintf("block execution failed in the generated history (seed %d): %d of %d blocks executed", hseed, okBlocks, len(g.obs)), describeHistory(g.hist, histPath))
		}
		out.Count(fmt.Sprintf("blocks:%d", len(g.obs)))

		// (a) same process: fresh app instances in every process-history mode, decoded back from the file (what the children see)
		var h2 detx.History
		if err = json.Unmarshal(bz, &h2); err != nil {
			t.Fatal(err)
		}
		var refExports []string
		refExportName := ""
		for ri, mode := range inprocModes {
			name := fmt.Sprintf("inproc-%d-%s", ri, mode)
			lines, exports, st, err := replayModeX(&h2, mode, "", workDir, hseed*131+int64(ri), true)
			for k, v := range st {
				out.Stats.Hist["replica:"+mode+":"+k] += v
			}
			if err != nil {
				out.ViolateWith(fmt.Sprintf("replica %s could not replay the history: %v", name, err), describeHistory(g.hist, histPath))
				continue
			}
			executions++
			out.Count("replica:" + mode)
			compare(out, g.hist, g.kinds, histPath, "parent-generator", ref, name, lines)
			// genesis export -> import: compared between the replicas (the generator's own execution does not export)
			if refExportName == "" {
				refExports, refExportName = exports, name
				for _, e := range exports {
					switch {
					case strings.Contains(e, "import: "):
						imp := e[strings.Index(e, "import: ")+8:]
						out.Count("export+import:" + imp[:min(len(imp), 9)])
					case strings.Contains(e, "export=panic") || strings.Contains(e, "export=err"):
						out.Count("export:failed")
					default:
						out.Count("export:ok")
					}
				}
			} else if strings.Join(exports, "\n") != strings.Join(refExports, "\n") {
				first := "<count>"
				for i := 0; i < len(exports) && i < len(refExports); i++ {
					if exports[i] != refExports[i] {
						first = refExports[i] + "  VS  " + exports[i]
						break
					}
				}
				out.ViolateWith(fmt.Sprintf("nondeterminism: genesis export / import observations differ between executions (%s vs %s): %.300s", refExportName, name, first), describeHistory(g.hist, histPath))
			}
		}

		// (b) fresh processes, started one second apart
		type result struct {
			lines []string
			tail  string
			err   error
		}
		res := make([]result, nChild)
		var wg sync.WaitGroup
		for ci := 0; ci < nChild; ci++ {
			wg.Add(1)
			go func(ci int) {
				defer wg.Done()
				time.Sleep(time.Duration(ci) * time.Second)
				l, tail, err := runChild(variations[ci], ci, histPath, workDir)
				res[ci] = result{l, tail, err}
			}(ci)
		}
		wg.Wait()
		for ci := 0; ci < nChild; ci++ {
			name := "process-" + variations[ci].name
			if res[ci].err != nil {
				out.ViolateWith(fmt.Sprintf("child process %s failed to replay the history: %v", name, res[ci].err), append(describeHistory(g.hist, histPath), res[ci].tail))
				continue
			}
			executions++
			out.Count("replica:process-" + variations[ci].mode)
			compare(out, g.hist, g.kinds, histPath, "parent-generator", ref, name, res[ci].lines)
		}
		// one summary op per history so the op stream records what was compared (the model answers `ok`)
		out.Count(fmt.Sprintf("children:%d", nChild))
		if fake != nil && (hi < 3 || hi%5 == 0) {
			fakeQueue = append(fakeQueue, pendingFake{g, histPath, ref})
		}
	}
	// shifted-clock replicas of the first histories, once the overlay build is there
	if fake != nil {
		<-fake.done
		out.Stats.Extra["fakeclock_build_s"] = int(fake.took.Seconds())
		if fake.err != nil || fake.bin == "" {
			out.Count("fakeclock:unavailable")
			out.Stats.Extra["fakeclock_unavailable"] = fmt.Sprint(fake.err)
		} else {
			for qi, q := range fakeQueue {
				fc := fakeClockOffsets[qi%len(fakeClockOffsets)]
				v := variation{name: fc.name, env: []string{"GOMAXPROCS=4", "TZ=UTC", fmt.Sprintf("VERIF_FAKE_CLOCK_OFFSET=%d", fc.sec)}, mode: "plain"}
				lines, tail, err := runChildBin(fake.bin, v, 100+qi, q.histPath, workDir)
				name := "process-" + v.name
				if err != nil {
					out.ViolateWith(fmt.Sprintf("child process %s failed to replay the history: %v", name, err), append(describeHistory(q.g.hist, q.histPath), tail))
					continue
				}
				executions++
				out.Count("replica:process-fakeclock")
				compare(out, q.g.hist, q.g.kinds, q.histPath, "parent-generator", q.ref, name, lines)
			}
		}
	}
	out.Stats.Extra["executions_compared"] = executions
	out.Stats.Extra["children_per_history"] = nChild
	out.Stats.Extra["histories"] = nHist

	// UpdateProposalOracles: the real keeper (on a branch of each history's state) against the machine model
	out.Reset("models-updateoracles")
	for _, pr := range probes {
		out.Emit(pr[0], pr[1])
		out.Nontrivial("updateoracles:" + pr[1][:min(len(pr[1]), 12)])
	}
	// gov Tally: the real keeper against "sum of the per-validator contributions" (the structure `tally_perm` is about)
	out.Reset("models-tally")
	for _, pr := range tallies {
		out.Emit(pr[0], pr[1])
		out.Nontrivial("tally:" + pr[1][:min(len(pr[1]), 10)])
	}
	// validatorList(missed): the real precompile's output must meet the contract of a sort for the regenerated comparator
	out.Reset("models-validatorlist")
	for _, pr := range vlists {
		out.Emit(pr[0], pr[1])
		out.Nontrivial("validatorlist:" + strconv.Itoa(len(pr[0])/200))
	}
	// OnAcknowledgementPacket of the transfer stack: the real callback against the regenerated statement program interpreted
	// by the Lean model (error kind, what the escrow account paid back) — acknowledgement bytes of every shape, each handed
	// over several times because the JSON decoder's map order is drawn per call
	out.Reset("models-ack")
	for _, pr := range acks {
		out.Emit(pr[0], pr[1])
		out.Nontrivial("ack:" + pr[1][:min(len(pr[1]), 18)])
	}
	// GetSwitchParams: the real keeper against its regenerated, interpreted statement program + branch isolation of parameter reads
	out.Reset("models-switchparams")
	switchOps(out, lastGen)
	modelOps(t, out, seed, lastGen)
}

// ---------------------------------------------------------------------------------------------------------------
// correspondence with the Lean models + repeated-call monitors

func fmtVals(vs crosschaintypes.BridgeValidators) string {
	if len(vs) == 0 {
		return "-"
	}
	var p []string
	for _, v := range vs {
		p = append(p, fmt.Sprintf("%s:%d", v.ExternalAddress, v.Power))
	}
	return strings.Join(p, ",")
}

func modelOps(t *testing.T, out *hx.Out, seed int64, g *gen) {
	rng := rand.New(rand.NewSource(seed ^ 0x5eed))
	out.Reset("models")

	// ---- PowerDiff
	nPD := hx.N(150, 1500)
	genVals := func(n int, pool int, shape int) crosschaintypes.BridgeValidators {
		var vs crosschaintypes.BridgeValidators
		for i := 0; i < n; i++ {
			var p uint64
			switch shape {
			case 0:
				p = uint64(rng.Intn(1 << 20))
			case 1:
				p = uint64(rng.Int63n(math.MaxUint32 + 1))
			case 2:
				p = []uint64{0, 1, math.MaxUint32, math.MaxUint32 - 1, 1 << 31}[rng.Intn(5)]
			default:
				p = uint64(math.MaxUint32) / uint64(n+1)
			}
			vs = append(vs, crosschaintypes.BridgeValidator{Power: p, ExternalAddress: fmt.Sprintf("a%d", rng.Intn(pool))})
		}
		return vs
	}
	for i := 0; i < nPD; i++ {
		nb, nc := rng.Intn(8), rng.Intn(8)
		if i%5 == 0 {
			nb, nc = 50+rng.Intn(250), 50+rng.Intn(250)
		}
		pool := 1 + rng.Intn(2*(nb+nc)+1) // small pools force shared addresses and duplicates
		if i%7 == 0 {
			pool = 1 << 30 // disjoint
		}
		b, c := genVals(nb, pool, rng.Intn(4)), genVals(nc, pool, rng.Intn(4))
		if i%11 == 0 {
			c = append(crosschaintypes.BridgeValidators{}, b...) // identical sets
			rng.Shuffle(len(c), func(x, y int) { c[x], c[y] = c[y], c[x] })
		}
		first := b.PowerDiff(c)
		for r := 0; r < 40; r++ { // Go randomises map iteration per range statement
			if again := b.PowerDiff(c); math.Float64bits(again) != math.Float64bits(first) {
				out.Violate(fmt.Sprintf("nondeterminism: PowerDiff returns different floats for the same input (%v vs %v), |b|=%d |c|=%d", first, again, len(b), len(c)))
				break
			}
		}
		num := math.Round(first * float64(math.MaxUint32))
		out.Emit("powerdiff "+fmtVals(b)+" | "+fmtVals(c), strconv.FormatFloat(num, 'f', 0, 64))
		out.Count("powerdiff")
		if num > 0 {
			out.Nontrivial(fmt.Sprintf("powerdiff:%d:%d:%v", len(b)/50, len(c)/50, pool > 1000))
		}
	}

	// ---- binary64 addition of integer values against the Lean model (round53 / fadd): boundary-biased around 2^53
	out.Reset("models-f64add")
	pick := func() uint64 {
		switch rng.Intn(6) {
		case 0:
			return uint64(rng.Int63n(1 << 32))
		case 1:
			return (uint64(1) << 53) + uint64(rng.Intn(9)) - 4
		case 2:
			return (uint64(1) << uint(52+rng.Intn(10))) + uint64(rng.Intn(4097)) - 2048
		case 3:
			return uint64(rng.Int63())
		case 4:
			return uint64(rng.Intn(5))
		default:
			return uint64(rng.Int63n(1 << 54))
		}
	}
	for i := 0; i < hx.N(300, 3000); i++ {
		a, b := pick(), pick()
		sum := float64(a) + float64(b)
		v, _ := new(big.Float).SetFloat64(sum).Int(nil)
		out.Emit(fmt.Sprintf("f64add %d %d", a, b), v.String())
		out.Count("f64add")
		if new(big.Int).Add(new(big.Int).SetUint64(a), new(big.Int).SetUint64(b)).Cmp(v) != 0 {
			out.Nontrivial(fmt.Sprintf("f64add-rounded:%d", v.BitLen()))
		}
	}


	// ---- the tail of PowerDiff: one float division and "%.8f" against the Lean model (fdiv / fmtFixed), boundary-biased:
	// multiples of the divisor, numerators around decimal ties of the eighth digit, powers of two, the 2^53 end of the range
	out.Reset("models-render")
	const D = uint64(math.MaxUint32)
	pickN := func() uint64 {
		switch rng.Intn(8) {
		case 0:
			return uint64(rng.Intn(1<<21)) * D // exact quotients
		case 1: // n/D just around (j + 0.5) * 1e-8: the rounding boundary of the eighth decimal
			j := new(big.Int).SetUint64(uint64(rng.Int63n(1 << 40)))
			num := new(big.Int).Mul(new(big.Int).Add(new(big.Int).Mul(j, big.NewInt(2)), big.NewInt(1)), new(big.Int).SetUint64(D))
			num.Div(num, big.NewInt(200_000_000))
			n := num.Uint64() + uint64(rng.Intn(3))
			if n > 0 {
				n--
			}
			return n % (1 << 53)
		case 2:
			return (uint64(1) << uint(rng.Intn(53))) + uint64(rng.Intn(3)) - 1
		case 3:
			return (uint64(1) << 53) - 1 - uint64(rng.Intn(1000))
		case 4:
			return uint64(rng.Intn(100))
		case 5: // around the default 10% threshold and around 100%
			return []uint64{429496708, 429496709, 429496729, 429496730, D - 1, D, D + 1, 42949672, 42949673}[rng.Intn(9)]
		default:
			return uint64(rng.Int63n(1 << 53))
		}
	}
	for i := 0; i < hx.N(400, 4000); i++ {
		n := pickN()
		got := fmt.Sprintf("%.8f", float64(n)/float64(math.MaxUint32))
		out.Emit(fmt.Sprintf("render %d", n), got)
		out.Count("render")
		// the exact rational rounded half-even to 8 decimals, computed with big integers: where the two roundings of the code
		// (53-bit quotient, then 8 decimals) differ from the single exact rounding is worth counting
		num := new(big.Int).Mul(new(big.Int).SetUint64(n), big.NewInt(100_000_000))
		q, r := new(big.Int).QuoRem(num, new(big.Int).SetUint64(D), new(big.Int))
		if r2 := new(big.Int).Mul(r, big.NewInt(2)); r2.Cmp(new(big.Int).SetUint64(D)) > 0 || (r2.Cmp(new(big.Int).SetUint64(D)) == 0 && q.Bit(0) == 1) {
			q.Add(q, big.NewInt(1))
		}
		exact := fmt.Sprintf("%d.%08d", new(big.Int).Div(q, big.NewInt(100_000_000)), new(big.Int).Mod(q, big.NewInt(100_000_000)))
		if exact != got {
			out.Nontrivial("render-double-rounding")
			out.Count("render:differs-from-exact-rational-rounding")
		} else {
			out.Nontrivial(fmt.Sprintf("render:%d", len(got)))
		}
	}
	// the whole step: PowerDiff (float accumulation in map order) -> "%.8f" -> LegacyDec -> >= min(percent, 1): the three
	// statements of isNeedOracleSetRequest (an unexported method) applied to the real PowerDiff
	out.Reset("models-needset")
	for i := 0; i < hx.N(150, 1500); i++ {
		nb, nc := 1+rng.Intn(8), rng.Intn(8)
		if i%6 == 0 {
			nb, nc = 20+rng.Intn(80), 20+rng.Intn(80)
		}
		pool := 1 + rng.Intn(nb+nc)
		b, c := genVals(nb, pool, rng.Intn(4)), genVals(nc, pool, rng.Intn(4))
		if i%4 == 0 { // a small change of an existing set: the region around the threshold
			c = append(crosschaintypes.BridgeValidators{}, b...)
			k := rng.Intn(len(c))
			c[k].Power += uint64(rng.Intn(1 << 29))
			if c[k].Power > math.MaxUint32 {
				c[k].Power = math.MaxUint32
			}
		}
		pct := sdkmath.LegacyNewDecWithPrec(int64(rng.Intn(30)), 2)
		switch rng.Intn(5) {
		case 0:
			pct = sdkmath.LegacyNewDecWithPrec(int64(rng.Intn(2_000_000_000)), 9)
		case 1:
			pct = sdkmath.LegacyNewDec(int64(1 + rng.Intn(3))) // above 1: capped
		case 2:
			pct = sdkmath.LegacyZeroDec()
		}
		rendered := fmt.Sprintf("%.8f", b.PowerDiff(c))
		dec, err := sdkmath.LegacyNewDecFromStr(rendered)
		obs := "err:dec"
		if err == nil {
			limit := pct
			if limit.GT(sdkmath.LegacyOneDec()) {
				limit = sdkmath.LegacyOneDec()
			}
			obs = fmt.Sprintf("%s:%v", rendered, dec.GTE(limit))
			out.Nontrivial(fmt.Sprintf("needset:%v:%d", dec.GTE(limit), len(rendered)))
		}
		// the model refuses inputs outside the keeper's range (a merged difference above 2^32: an address several times in c)
		merged := map[string]int64{}
		for _, v := range b {
			merged[v.ExternalAddress] = int64(v.Power)
		}
		for _, v := range c {
			merged[v.ExternalAddress] -= int64(v.Power)
		}
		for _, v := range merged {
			if v > 1<<32 || v < -(1<<32) {
				obs = "err:out-of-range"
				out.Count("needset:out-of-range")
			}
		}
		out.Emit(fmt.Sprintf("needset %s %s | %s", pct.BigInt().String(), fmtVals(b), fmtVals(c)), obs)
		out.Count("needset")
	}
	// NewOracleSet: the stored member order against the interpreted comparator program; equal powers are the interesting
	// case (tie-break on the external address), members arrive in a shuffled order
	out.Reset("models-oracleset")
	for i := 0; i < hx.N(120, 1200); i++ {
		n := 1 + rng.Intn(12)
		if i%10 == 0 {
			n = 50 + rng.Intn(100)
		}
		var ms crosschaintypes.BridgeValidators
		powers := []uint64{uint64(rng.Intn(5)), uint64(rng.Int63n(math.MaxUint32)), math.MaxUint32 / uint64(n+1)}
		for k := 0; k < n; k++ {
			p := powers[rng.Intn(len(powers))]
			if rng.Intn(4) == 0 {
				p = uint64(rng.Int63n(math.MaxUint32))
			}
			ms = append(ms, crosschaintypes.BridgeValidator{Power: p, ExternalAddress: fmt.Sprintf("0x%040x", rng.Uint64()>>uint(rng.Intn(60)))})
		}
		if rng.Intn(5) == 0 && n > 1 {
			ms[n-1] = ms[0] // an identical member twice
		}
		in := fmtVals(ms)
		ties := map[uint64]int{}
		for _, m := range ms {
			ties[m.Power]++
		}
		maxTie := 0
		for _, c := range ties {
			if c > maxTie {
				maxTie = c
			}
		}
		var first string
		for r := 0; r < 4; r++ { // the same members in another arrival order must be stored identically
			cp := append(crosschaintypes.BridgeValidators{}, ms...)
			rng.Shuffle(len(cp), func(x, y int) { cp[x], cp[y] = cp[y], cp[x] })
			set := crosschaintypes.NewOracleSet(uint64(i+1), 1, cp)
			var as []string
			for _, m := range set.Members {
				as = append(as, m.ExternalAddress)
			}
			got := strings.Join(as, ",")
			if r == 0 {
				first = got
			} else if got != first {
				out.Violate(fmt.Sprintf("nondeterminism: NewOracleSet stores the same %d members (largest group of equal powers: %d) in different orders depending on their arrival order", n, maxTie))
				break
			}
		}
		out.Emit("oracleset "+in, first)
		out.Count("oracleset")
		out.Nontrivial(fmt.Sprintf("oracleset:ties=%d", min(maxTie, 4)))
	}

	// ---- GetSupportChains: sorted, stable across calls
	out.Reset("models-supportchains")
	first := crosschaintypes.GetSupportChains()
	for r := 0; r < 200; r++ {
		again := crosschaintypes.GetSupportChains()
		if strings.Join(again, ",") != strings.Join(first, ",") {
			out.Violate(fmt.Sprintf("nondeterminism: GetSupportChains returns different orders for repeated calls (%v vs %v)", first, again))
			break
		}
	}
	if !sort.StringsAreSorted(first) {
		out.Violate(fmt.Sprintf("GetSupportChains result is not sorted: %v", first))
	}
	shuffled := append([]string{}, first...)
	rng.Shuffle(len(shuffled), func(x, y int) { shuffled[x], shuffled[y] = shuffled[y], shuffled[x] })
	out.Emit("supportchains "+strings.Join(shuffled, ","), strings.Join(crosschaintypes.GetSupportChains(), ","))

	// ---- GetAllBatchFees on the real keeper with a populated pool (cache context over the final state of the history)
	if g == nil {
		return
	}
	k := g.c.App.EthKeeper
	out.Reset("models-batchfees")
	for round := 0; round < hx.N(6, 40); round++ {
		ctx, _ := g.c.Ctx().CacheContext()
		nTok := 2 + rng.Intn(12)
		var toks []string
		for i := 0; i < nTok; i++ {
			toks = append(toks, fmt.Sprintf("0x%040x", rng.Uint64()))
		}
		id := uint64(1_000_000)
		for i := 0; i < 5+rng.Intn(60); i++ {
			tok := toks[rng.Intn(nTok)]
			id++
			_ = k.AddUnbatchedTx(ctx, &crosschaintypes.OutgoingTransferTx{Id: id, Sender: g.users[0].Addr(), DestAddress: g.ext[0],
				Token: crosschaintypes.NewERC20Token(sdkmath.NewInt(int64(1+rng.Intn(1e6))), tok),
				Fee:   crosschaintypes.NewERC20Token(sdkmath.NewInt(int64(rng.Intn(1000))), tok)})
		}
		// independent view of the pool: every unbatched tx, in a shuffled order
		var entries []string
		k.IterateUnbatchedTransactions(ctx, "", func(tx *crosschaintypes.OutgoingTransferTx) bool {
			entries = append(entries, fmt.Sprintf("%s:%s:%s", tx.Fee.Contract, tx.Fee.Amount.String(), tx.Token.Amount.String()))
			return false
		})
		rng.Shuffle(len(entries), func(x, y int) { entries[x], entries[y] = entries[y], entries[x] })
		render := func(fs []*crosschaintypes.BatchFees) string {
			var p []string
			for _, f := range fs {
				p = append(p, fmt.Sprintf("%s:%s:%s:%d", f.TokenContract, f.TotalFees.String(), f.TotalAmount.String(), f.TotalTxs))
			}
			if len(p) == 0 {
				return "-"
			}
			return strings.Join(p, ",")
		}
		ref := render(k.GetAllBatchFees(ctx, 1000, nil))
		for r := 0; r < 30; r++ {
			if again := render(k.GetAllBatchFees(ctx, 1000, nil)); again != ref {
				out.Violate(fmt.Sprintf("nondeterminism: GetAllBatchFees returns different slices for repeated calls on the same pool (%d tokens)", nTok))
				break
			}
		}
		out.Emit("batchfees "+strings.Join(entries, ";"), ref)
		out.Count("batchfees")
		out.Nontrivial(fmt.Sprintf("batchfees:%d", nTok))
		// the same pool with a per-token limit and base fees: now the STORE ORDER of the pool matters (which transactions
		// are counted), so the op line carries the pool in iteration order
		var ordered []string
		k.IterateUnbatchedTransactions(ctx, "", func(tx *crosschaintypes.OutgoingTransferTx) bool {
			ordered = append(ordered, fmt.Sprintf("%s:%s:%s", tx.Fee.Contract, tx.Fee.Amount.String(), tx.Token.Amount.String()))
			return false
		})
		for sub := 0; sub < 3; sub++ {
			maxEl := uint(1 + rng.Intn(6))
			if sub == 2 {
				maxEl = uint(len(ordered) + rng.Intn(3))
			}
			var mins []crosschaintypes.MinBatchFee
			var base []string
			for _, tok := range toks {
				if rng.Intn(3) == 0 {
					bf := int64(rng.Intn(1100))
					mins = append(mins, crosschaintypes.MinBatchFee{TokenContract: tok, BaseFee: sdkmath.NewInt(bf)})
					base = append(base, fmt.Sprintf("%s:%d", tok, bf))
				}
			}
			bs := "-"
			if len(base) > 0 {
				bs = strings.Join(base, ",")
			}
			pool := "-"
			if len(ordered) > 0 {
				pool = strings.Join(ordered, ";")
			}
			refMax := render(k.GetAllBatchFees(ctx, maxEl, mins))
			for r := 0; r < 10; r++ {
				if again := render(k.GetAllBatchFees(ctx, maxEl, mins)); again != refMax {
					out.Violate(fmt.Sprintf("nondeterminism: GetAllBatchFees(maxElements=%d, %d base fees) returns different slices for repeated calls on the same pool", maxEl, len(mins)))
					break
				}
			}
			out.Emit(fmt.Sprintf("batchfeesmax %d %s %s", maxEl, bs, pool), refMax)
			out.Count("batchfeesmax")
		}
	}
}
