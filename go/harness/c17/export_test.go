package c17

// GENESIS EXPORT -> IMPORT as a replica observation.  The application hash of a chain started from an exported genesis is
// not comparable with the original chain's (heights and store versions restart), but the EXPORT itself and what a chain
// imported from it does are functions of the block history too: every in-process replica (whatever its process history:
// restarted, state-synced, serving simulations / historical reads) exports its application state after a fixed set of
// blocks of the history — the digests must agree between the replicas — and, once per history and replica, a fresh
// application is started from the exported genesis (InitChain at the exported height with the exported consensus
// parameters) and executes one empty block: the application hashes after InitChain and after the block must agree too.

import (
	"crypto/sha256"
	"encoding/hex"
	"fmt"
	"strings"
	"time"

	abci "github.com/cometbft/cometbft/abci/types"
	dbm "github.com/cosmos/cosmos-db"
	servertypes "github.com/cosmos/cosmos-sdk/server/types"

	"fxverif/harness/detx"
)

// after which blocks (by note) the replicas export; the import is done from the export after importNote (the last point
// of the scenario before the history deliberately overwrites the erc20 parameters with undecodable bytes)
var exportNotes = map[string]bool{"request batch": true, "unbonded oracles / erc20 conversions": true}

// (no export after the history overwrote the erc20 parameters: the SDK module manager exports every module in a goroutine of
// its own, a panic there — GetParams on undecodable bytes — cannot be recovered and takes the process down)

const importNote = "unbonded oracles / erc20 conversions"

func firstLineOf(s string) string {
	if i := strings.IndexByte(s, '\n'); i >= 0 {
		s = s[:i]
	}
	if len(s) > 80 {
		s = s[:80]
	}
	return s
}

// export returns the exported application and the observation word (digest of the state, validators, height, consensus
// parameters — or the kind of failure, which must agree as well).
func (n *node) export() (exp servertypes.ExportedApp, obs string) {
	defer func() {
		if r := recover(); r != nil {
			obs = "panic:" + firstLineOf(fmt.Sprint(r))
			n.stats["export:panic"]++
		}
	}()
	exp, err := n.c.App.ExportAppStateAndValidators(false, nil, nil)
	if err != nil {
		n.stats["export:err"]++
		return exp, "err:" + firstLineOf(err.Error())
	}
	h := sha256.New()
	h.Write(exp.AppState)
	for _, v := range exp.Validators {
		fmt.Fprintf(h, "|%x:%d:%s", v.Address, v.Power, v.Name)
	}
	fmt.Fprintf(h, "|%d|%s", exp.Height, exp.ConsensusParams.String())
	n.stats["export:ok"]++
	return exp, hex.EncodeToString(h.Sum(nil)[:12])
}

// importRun starts a fresh application from the exported genesis and executes one empty block.
func (n *node) importRun(exp servertypes.ExportedApp, blockTime time.Time) (obs string) {
	defer func() {
		if r := recover(); r != nil {
			obs = "panic:" + firstLineOf(fmt.Sprint(r))
			n.stats["import:panic"]++
		}
	}()
	a := newApp(n.gd, dbm.NewMemDB())
	defer a.Close()
	cp := exp.ConsensusParams
	res, err := a.InitChain(&abci.RequestInitChain{Time: blockTime, ChainId: n.gd.ChainID, ConsensusParams: &cp, AppStateBytes: exp.AppState, InitialHeight: exp.Height})
	if err != nil {
		n.stats["import:init-err:"+firstLineOf(err.Error())]++
		return "init-err:" + firstLineOf(err.Error())
	}
	out := fmt.Sprintf("init=%x/valupd=%d", res.AppHash[:min(len(res.AppHash), 8)], len(res.Validators))
	var prop []byte
	var votes []abci.VoteInfo
	for _, v := range exp.Validators {
		if prop == nil {
			prop = v.Address
		}
		votes = append(votes, abci.VoteInfo{Validator: abci.Validator{Address: v.Address, Power: v.Power}, BlockIdFlag: 2})
	}
	fb, err := a.FinalizeBlock(&abci.RequestFinalizeBlock{Height: exp.Height, Time: blockTime.Add(5 * time.Second), ProposerAddress: prop,
		DecidedLastCommit: abci.CommitInfo{Votes: votes}, Hash: []byte("c17-import-block-hash-0123456789")})
	if err != nil {
		n.stats["import:block-err:"+firstLineOf(err.Error())]++
		return out + " block-err:" + firstLineOf(err.Error())
	}
	if _, err = a.Commit(); err != nil {
		return out + " commit-err:" + firstLineOf(err.Error())
	}
	eh := sha256.New()
	for _, e := range fb.Events {
		eh.Write([]byte(e.Type))
		for _, at := range e.Attributes {
			eh.Write([]byte(at.Key + "=" + at.Value + ";"))
		}
	}
	n.stats["import:ok"]++
	return fmt.Sprintf("%s block=%x events=%x", out, fb.AppHash[:min(len(fb.AppHash), 8)], eh.Sum(nil)[:6])
}

// afterBlock: the export (and import) observations of a replica after block b.
func (n *node) afterBlock(b detx.Block) []string {
	if !exportNotes[b.Note] {
		return nil
	}
	exp, obs := n.export()
	line := fmt.Sprintf("h=%d [%s] export=%s", b.Height, b.Note, obs)
	if b.Note == importNote && !strings.Contains(obs, ":") {
		line += " import: " + n.importRun(exp, time.Unix(b.TimeUnix, 0).UTC())
	}
	return []string{line}
}
