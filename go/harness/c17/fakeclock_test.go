package c17

// A replica under a shifted WALL CLOCK.  Replicas started within the same minute cannot expose a dependence on the
// wall clock that is coarser than their start-time differences (an hour- or day-granular use of time.Now reached through
// code outside the translator's scope).  Go reads the clock through the vDSO, so it cannot be faked from outside the
// process; instead the child test binary is built a second time with a build overlay that replaces the standard library's
// time.Now by "real clock + VERIF_FAKE_CLOCK_OFFSET seconds" (monotonic readings untouched).  The overlay changes the
// build ID of every package, so the first build is a full rebuild (minutes); afterwards it comes from the build cache.

import (
	"context"
	"encoding/json"
	"fmt"
	"os"
	"os/exec"
	"path/filepath"
	"strings"
	"time"
)

type fakeClockBuild struct {
	bin  string
	err  error
	done chan struct{}
	took time.Duration
}

const fakeClockFile = `package time

import "syscall"

var fakeClockParsed bool
var fakeClockSec int64

// fakeClockOffset: seconds added to the wall clock of this process (VERIF_FAKE_CLOCK_OFFSET, decimal, may be negative)
func fakeClockOffset() int64 {
	if !fakeClockParsed {
		fakeClockParsed = true
		if v, ok := syscall.Getenv("VERIF_FAKE_CLOCK_OFFSET"); ok {
			neg, n := false, int64(0)
			for i := 0; i < len(v); i++ {
				c := v[i]
				if i == 0 && c == '-' {
					neg = true
					continue
				}
				if c < '0' || c > '9' {
					break
				}
				n = n*10 + int64(c-'0')
			}
			if neg {
				n = -n
			}
			fakeClockSec = n
		}
	}
	return fakeClockSec
}
`

// startFakeClockBuild builds the shifted-clock child binary in the background; maxWait bounds the build.
func startFakeClockBuild(workDir string, maxWait time.Duration) *fakeClockBuild {
	fb := &fakeClockBuild{done: make(chan struct{})}
	go func() {
		defer close(fb.done)
		t0 := time.Now()
		defer func() { fb.took = time.Since(t0) }()
		out, err := exec.Command("go", "env", "GOROOT").Output()
		if err != nil {
			fb.err = fmt.Errorf("go env GOROOT: %w", err)
			return
		}
		goroot := strings.TrimSpace(string(out))
		src, err := os.ReadFile(filepath.Join(goroot, "src", "time", "time.go"))
		if err != nil {
			fb.err = err
			return
		}
		const anchor = "func Now() Time {\n\tsec, nsec, mono := now()\n"
		if strings.Count(string(src), anchor) != 1 {
			fb.err = fmt.Errorf("time.Now of this toolchain does not have the expected shape")
			return
		}
		patched := strings.Replace(string(src), anchor, anchor+"\tsec += fakeClockOffset()\n", 1)
		dir := filepath.Join(workDir, "fakeclock")
		if err = os.MkdirAll(dir, 0o755); err != nil {
			fb.err = err
			return
		}
		_ = os.WriteFile(filepath.Join(dir, "time.go"), []byte(patched), 0o644)
		_ = os.WriteFile(filepath.Join(dir, "zz_fakeclock.go"), []byte(fakeClockFile), 0o644)
		ov, _ := json.Marshal(map[string]any{"Replace": map[string]string{
			filepath.Join(goroot, "src", "time", "time.go"):         filepath.Join(dir, "time.go"),
			filepath.Join(goroot, "src", "time", "zz_fakeclock.go"): filepath.Join(dir, "zz_fakeclock.go"),
		}})
		ovPath := filepath.Join(dir, "overlay.json")
		_ = os.WriteFile(ovPath, ov, 0o644)
		bin := filepath.Join(dir, "c17fake.test")
		ctx, cancel := context.WithTimeout(context.Background(), maxWait)
		defer cancel()
		cmd := exec.CommandContext(ctx, "go", "test", "-c", "-vet=off", "-overlay", ovPath, "-o", bin, "./c17")
		if wd, err := os.Getwd(); err == nil && filepath.Base(wd) == "c17" {
			cmd.Dir = filepath.Dir(wd) // `go test` runs a test binary inside its package directory
		}
		if b, err := cmd.CombinedOutput(); err != nil {
			tail := string(b)
			if len(tail) > 400 {
				tail = tail[len(tail)-400:]
			}
			fb.err = fmt.Errorf("build: %v %s", err, strings.ReplaceAll(tail, "\n", " "))
			return
		}
		fb.bin = bin
	}()
	return fb
}

// fake-clock variations: (name, offset in seconds)
var fakeClockOffsets = []struct {
	name string
	sec  int64
}{
	{"clock+25h17m", 25*3600 + 17*60},
	{"clock-400d", -400 * 24 * 3600},
	{"clock+9y", 9 * 365 * 24 * 3600},
}
