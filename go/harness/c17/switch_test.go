package c17

// Governance SWITCH parameters (x/gov MsgUpdateSwitchParams: disabled message types, disabled precompile methods) in the
// generated histories.  They are the one parameter set that is read on EVERY transaction (ante DisableMsgDecorator) and on
// every crosschain / staking precompile call (Contract.Run) and changed only by governance — the textbook candidate for a
// process-level cache.  The history changes them twice (seeded lists) and, before and after every change, sends the
// traffic whose outcome depends on them:
//   * authz.MsgGrant of a GenericAuthorization for a candidate message type (refused by the ante handler once disabled),
//   * authz.MsgExec by the grantee wrapping that message type (refused once disabled; executed under the earlier grant
//     otherwise),
//   * calls of candidate precompile methods (refused with "precompile … is disabled" once disabled).

import (
	"encoding/hex"
	"fmt"
	"math/big"
	"strings"
	"time"

	sdk "github.com/cosmos/cosmos-sdk/types"
	"github.com/cosmos/cosmos-sdk/x/authz"
	banktypes "github.com/cosmos/cosmos-sdk/x/bank/types"
	distrtypes "github.com/cosmos/cosmos-sdk/x/distribution/types"
	stakingtypes "github.com/cosmos/cosmos-sdk/x/staking/types"
	"github.com/ethereum/go-ethereum/common"

	"github.com/functionx/fx-core/v8/contract"
	crosschaintypes "github.com/functionx/fx-core/v8/x/crosschain/types"
	fxgovtypes "github.com/functionx/fx-core/v8/x/gov/types"
	fxstakingtypes "github.com/functionx/fx-core/v8/x/staking/types"

	"fxverif/harness/detx"
)

var switchMsgCandidates = []string{
	sdk.MsgTypeURL(&banktypes.MsgSend{}),
	sdk.MsgTypeURL(&stakingtypes.MsgDelegate{}),
	sdk.MsgTypeURL(&distrtypes.MsgWithdrawDelegatorReward{}),
}

// switchPrecompileCandidates: address/methodId entries and one whole address.
func switchPrecompileCandidates() []string {
	st, cc := strings.ToLower(contract.StakingAddress), strings.ToLower(contract.CrossChainAddress)
	sabi, cabi := fxstakingtypes.GetABI(), crosschaintypes.GetABI()
	return []string{
		st + "/" + hex.EncodeToString(sabi.Methods["delegateV2"].ID),
		st + "/" + hex.EncodeToString(sabi.Methods["withdraw"].ID),
		st + "/" + hex.EncodeToString(sabi.Methods["delegation"].ID),
		cc + "/" + hex.EncodeToString(cabi.Methods["executeClaim"].ID),
		cc, // the whole crosschain precompile
	}
}

// switchParams draws the lists of one governance change; round 0 always disables at least one message type AND one
// precompile entry, later rounds may re-enable everything of one kind (a change back is a change too).
func (g *gen) switchParams(round int) fxgovtypes.SwitchParams {
	var p fxgovtypes.SwitchParams
	pcs := switchPrecompileCandidates()
	for _, m := range switchMsgCandidates {
		if g.rng.Intn(2) == 0 {
			p.DisableMsgTypes = append(p.DisableMsgTypes, m)
		}
	}
	for _, c := range pcs {
		if g.rng.Intn(3) == 0 {
			p.DisablePrecompiles = append(p.DisablePrecompiles, c)
		}
	}
	if round == 0 {
		if len(p.DisableMsgTypes) == 0 {
			p.DisableMsgTypes = []string{switchMsgCandidates[g.rng.Intn(len(switchMsgCandidates))]}
		}
		if len(p.DisablePrecompiles) == 0 {
			p.DisablePrecompiles = []string{pcs[g.rng.Intn(len(pcs))]}
		}
	} else if g.rng.Intn(3) == 0 {
		p.DisableMsgTypes = nil
	}
	g.out.Count(fmt.Sprintf("switch-params: round=%d msgs=%d precompiles=%d", round, len(p.DisableMsgTypes), len(p.DisablePrecompiles)))
	return p
}

// switchTraffic queues the transactions whose outcome depends on the switch parameters.
func (g *gen) switchTraffic() {
	exp := time.Unix(genesisUnix, 0).Add(20 * 365 * day).UTC()
	disabled := map[string]bool{} // as committed: what the ante handler of the next block will see
	for _, u := range g.c.App.GovKeeper.GetDisabledMsgs(g.c.Ctx()) {
		disabled[u] = true
	}
	send := func(k detx.Key, refused bool, m sdk.Msg) {
		if refused {
			g.txv(k, "ante-reject", 3_000_000, m)
			return
		}
		g.tx(k, m)
	}
	granter, grantee := g.users[1], g.users[3] // cosmos-key accounts
	for i, url := range switchMsgCandidates {
		if i == 0 || g.rng.Intn(2) == 0 {
			m, err := authz.NewMsgGrant(granter.Acc(), grantee.Acc(), authz.NewGenericAuthorization(url), &exp)
			must(err)
			send(granter, disabled[url], m)
		}
	}
	inner := []sdk.Msg{
		banktypes.NewMsgSend(granter.Acc(), g.anyUser().Acc(), sdk.NewCoins(fxFrac(int64(1+g.rng.Intn(9))))),
		stakingtypes.NewMsgDelegate(granter.Addr(), g.valAddr(), fxFrac(int64(1000+g.rng.Intn(1000)))),
		distrtypes.NewMsgWithdrawDelegatorReward(granter.Addr(), g.valAddr()),
	}
	k := g.rng.Intn(len(inner))
	ex := authz.NewMsgExec(grantee.Acc(), []sdk.Msg{inner[k]})
	send(grantee, disabled[sdk.MsgTypeURL(inner[k])], &ex)
	if g.rng.Intn(2) == 0 { // a nested MsgExec (the decorator recurses)
		k2 := g.rng.Intn(len(inner))
		in := authz.NewMsgExec(grantee.Acc(), []sdk.Msg{inner[k2]})
		outer := authz.NewMsgExec(grantee.Acc(), []sdk.Msg{&in})
		send(grantee, disabled[sdk.MsgTypeURL(inner[k2])], &outer)
	}
	// precompile calls of the candidate methods
	sabi, cabi := fxstakingtypes.GetABI(), crosschaintypes.GetABI()
	st, cc := addr(contract.StakingAddress), addr(contract.CrossChainAddress)
	val := g.valAddr()
	u := g.ethUser()
	if d, err := sabi.Pack("delegateV2", val, fxFrac(int64(1+g.rng.Intn(999))).Amount.BigInt()); err == nil {
		g.eth(u, "staking.delegateV2(switch)", "", st, nil, 2_000_000, d)
	}
	if d, err := sabi.Pack("withdraw", val); err == nil {
		g.eth(u, "staking.withdraw(switch)", "", st, nil, 2_000_000, d)
	}
	if d, err := sabi.Pack("delegation", val, u.Hex()); err == nil {
		g.eth(u, "staking.delegation(switch)", "", st, nil, 2_000_000, d)
	}
	if d, err := cabi.Pack("executeClaim", ethChain, big.NewInt(int64(7000+g.rng.Intn(100)))); err == nil {
		g.eth(g.ethUser(), "crosschain.executeClaim(switch)", "", cc, nil, 2_000_000, d)
	}
	if d, err := cabi.Pack("hasOracle", ethChain, common.HexToAddress(g.ext[0])); err == nil {
		g.eth(g.ethUser(), "crosschain.hasOracle(switch)", "", cc, nil, 2_000_000, d)
	}
	g.out.Count("switch-traffic")
}
