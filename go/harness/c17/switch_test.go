package c17

// Governance SWITCH parameters (x/gov MsgUpdateSwitchParams: disabled message types, disabled precompile methods) in the
// generated histories.  They are the one parameter set that is read on EVERY transaction (ante DisableMsgDecorator) and on
// every crosschain / staking precompile call (Contract.Run) and changed only by governance — the textbook candidate for a
// process-level cache.  The history changes them twice (seeded lists) and, before and after every change, sends the
// traffic whose outcome depends on them:
//   * authz.MsgGrant of a GenericAuthorization for a candidate message type (refused by the ante handler once disabled),
//   * authz.MsgExec by the grantee wrapping that message type (refused once disabled; executed under the earlier grant
//     otherwise),
//   * calls of candidate precompile methods (refused with "precompile … is disabled" once disabled).

import (
	"encoding/hex"
	"fmt"
	"math/big"
	"strings"
	"time"

	sdk "github.com/cosmos/cosmos-sdk/types"
	"github.com/cosmos/cosmos-sdk/x/authz"
	banktypes "github.com/cosmos/cosmos-sdk/x/bank/types"
	distrtypes "github.com/cosmos/cosmos-sdk/x/distribution/types"
	govtypes "github.com/cosmos/cosmos-sdk/x/gov/types"
	stakingtypes "github.com/cosmos/cosmos-sdk/x/staking/types"
	"github.com/ethereum/go-ethereum/common"

	"github.com/functionx/fx-core/v8/contract"
	crosschaintypes "github.com/functionx/fx-core/v8/x/crosschain/types"
	fxgovtypes "github.com/functionx/fx-core/v8/x/gov/types"
	fxstakingtypes "github.com/functionx/fx-core/v8/x/staking/types"

	"fxverif/harness/detx"
	"fxverif/harness/hx"
)

var switchMsgCandidates = []string{
	sdk.MsgTypeURL(&banktypes.MsgSend{}),
	sdk.MsgTypeURL(&stakingtypes.MsgDelegate{}),
	sdk.MsgTypeURL(&distrtypes.MsgWithdrawDelegatorReward{}),
}

// switchPrecompileCandidates: address/methodId entries and one whole address.
func switchPrecompileCandidates() []string {
	st, cc := strings.ToLower(contract.StakingAddress), strings.ToLower(contract.CrossChainAddress)
	sabi, cabi := fxstakingtypes.GetABI(), crosschaintypes.GetABI()
	return []string{
		st + "/" + hex.EncodeToString(sabi.Methods["delegateV2"].ID),
		st + "/" + hex.EncodeToString(sabi.Methods["withdraw"].ID),
		st + "/" + hex.EncodeToString(sabi.Methods["delegation"].ID),
		cc + "/" + hex.EncodeToString(cabi.Methods["executeClaim"].ID),
		cc, // the whole crosschain precompile
	}
}

// switchParams draws the lists of one governance change; round 0 always disables at least one message type AND one
// precompile entry, later rounds may re-enable everything of one kind (a change back is a change too).
func (g *gen) switchParams(round int) fxgovtypes.SwitchParams {
	var p fxgovtypes.SwitchParams
	pcs := switchPrecompileCandidates()
	if round == 1 && g.lastSwitch != nil && g.rng.Intn(2) == 0 {
		// boundary: the SAME NUMBER of entries as before with one entry exchanged (a fingerprint by length cannot tell them apart)
		p.DisableMsgTypes = append([]string{}, g.lastSwitch.DisableMsgTypes...)
		p.DisablePrecompiles = append([]string{}, g.lastSwitch.DisablePrecompiles...)
		var free []string
		for _, c := range pcs {
			if !contains(p.DisablePrecompiles, c) {
				free = append(free, c)
			}
		}
		if len(free) > 0 && len(p.DisablePrecompiles) > 0 {
			p.DisablePrecompiles[g.rng.Intn(len(p.DisablePrecompiles))] = free[g.rng.Intn(len(free))]
			g.out.Count("switch-params: round=1 same-length-exchange")
			g.lastSwitch = &p
			return p
		}
		p = fxgovtypes.SwitchParams{}
	}
	for _, m := range switchMsgCandidates {
		if g.rng.Intn(2) == 0 {
			p.DisableMsgTypes = append(p.DisableMsgTypes, m)
		}
	}
	for _, c := range pcs {
		if g.rng.Intn(3) == 0 {
			p.DisablePrecompiles = append(p.DisablePrecompiles, c)
		}
	}
	if round == 0 {
		if len(p.DisableMsgTypes) == 0 {
			p.DisableMsgTypes = []string{switchMsgCandidates[g.rng.Intn(len(switchMsgCandidates))]}
		}
		if len(p.DisablePrecompiles) == 0 {
			p.DisablePrecompiles = []string{pcs[g.rng.Intn(len(pcs))]}
		}
	} else if g.rng.Intn(3) == 0 {
		p.DisableMsgTypes = nil
	}
	if round < 2 {
		g.out.Count(fmt.Sprintf("switch-params: round=%d msgs=%d precompiles=%d", round, len(p.DisableMsgTypes), len(p.DisablePrecompiles)))
		g.lastSwitch = &p
	}
	return p
}

// switchTraffic queues the transactions whose outcome depends on the switch parameters.
func (g *gen) switchTraffic() {
	exp := time.Unix(genesisUnix, 0).Add(20 * 365 * day).UTC()
	disabled := map[string]bool{} // as committed: what the ante handler of the next block will see
	for _, u := range g.c.App.GovKeeper.GetDisabledMsgs(g.c.Ctx()) {
		disabled[u] = true
	}
	send := func(k detx.Key, refused bool, m sdk.Msg) {
		if refused {
			g.txv(k, "ante-reject", 3_000_000, m)
			return
		}
		g.tx(k, m)
	}
	granter, grantee := g.users[1], g.users[3] // cosmos-key accounts
	for i, url := range switchMsgCandidates {
		if i == 0 || g.rng.Intn(2) == 0 {
			m, err := authz.NewMsgGrant(granter.Acc(), grantee.Acc(), authz.NewGenericAuthorization(url), &exp)
			must(err)
			send(granter, disabled[url], m)
		}
	}
	inner := []sdk.Msg{
		banktypes.NewMsgSend(granter.Acc(), g.anyUser().Acc(), sdk.NewCoins(fxFrac(int64(1+g.rng.Intn(9))))),
		stakingtypes.NewMsgDelegate(granter.Addr(), g.valAddr(), fxFrac(int64(1000+g.rng.Intn(1000)))),
		distrtypes.NewMsgWithdrawDelegatorReward(granter.Addr(), g.valAddr()),
	}
	k := g.rng.Intn(len(inner))
	ex := authz.NewMsgExec(grantee.Acc(), []sdk.Msg{inner[k]})
	send(grantee, disabled[sdk.MsgTypeURL(inner[k])], &ex)
	if g.rng.Intn(2) == 0 { // a nested MsgExec (the decorator recurses)
		k2 := g.rng.Intn(len(inner))
		in := authz.NewMsgExec(grantee.Acc(), []sdk.Msg{inner[k2]})
		outer := authz.NewMsgExec(grantee.Acc(), []sdk.Msg{&in})
		send(grantee, disabled[sdk.MsgTypeURL(inner[k2])], &outer)
	}
	// precompile calls of the candidate methods
	sabi, cabi := fxstakingtypes.GetABI(), crosschaintypes.GetABI()
	st, cc := addr(contract.StakingAddress), addr(contract.CrossChainAddress)
	val := g.valAddr()
	u := g.ethUser()
	if d, err := sabi.Pack("delegateV2", val, fxFrac(int64(1+g.rng.Intn(999))).Amount.BigInt()); err == nil {
		g.eth(u, "staking.delegateV2(switch)", "", st, nil, 2_000_000, d)
	}
	if d, err := sabi.Pack("withdraw", val); err == nil {
		g.eth(u, "staking.withdraw(switch)", "", st, nil, 2_000_000, d)
	}
	if d, err := sabi.Pack("delegation", val, u.Hex()); err == nil {
		g.eth(u, "staking.delegation(switch)", "", st, nil, 2_000_000, d)
	}
	if d, err := cabi.Pack("executeClaim", ethChain, big.NewInt(int64(7000+g.rng.Intn(100)))); err == nil {
		g.eth(g.ethUser(), "crosschain.executeClaim(switch)", "", cc, nil, 2_000_000, d)
	}
	if d, err := cabi.Pack("hasOracle", ethChain, common.HexToAddress(g.ext[0])); err == nil {
		g.eth(g.ethUser(), "crosschain.hasOracle(switch)", "", cc, nil, 2_000_000, d)
	}
	g.out.Count("switch-traffic")
}

// ---------------------------------------------------------------------------------------------------------------
// correspondence + monitor: the regenerated statement program of GetSwitchParams (interpreted by the Lean driver, op
// `swget`) against the real keeper, and BRANCH ISOLATION of parameter reads: what a read returns is a function of the store
// of the context it is given — not of what was read or written on another context (another height, a simulation, a
// discarded proposal branch) by the same process before.

func encSwitch(p fxgovtypes.SwitchParams) []string {
	var l []string
	for _, m := range p.DisableMsgTypes {
		l = append(l, "m:"+m)
	}
	for _, c := range p.DisablePrecompiles {
		l = append(l, "p:"+c)
	}
	return l
}

func showNames(l []string) string {
	if len(l) == 0 {
		return "-"
	}
	return strings.Join(l, ",")
}

func switchOps(out *hx.Out, g *gen) {
	gk := g.c.App.GovKeeper
	govKey := g.c.App.GetKey(govtypes.StoreKey)
	for i := 0; i < hx.N(40, 200); i++ {
		base := g.c.Ctx()
		now, _ := base.CacheContext()   // the context that is read
		other, _ := base.CacheContext() // another context of the same process (an older height, a simulation, a discarded branch)
		var prev, store *fxgovtypes.SwitchParams
		if g.rng.Intn(4) != 0 {
			p := g.switchParams(2 + i)
			prev = &p
		}
		if g.rng.Intn(4) != 0 {
			p := g.switchParams(2 + i)
			if g.rng.Intn(6) == 0 {
				p = fxgovtypes.SwitchParams{}
			}
			store = &p
		}
		if store == nil {
			now.KVStore(govKey).Delete(fxgovtypes.FxSwitchParamsKey)
		} else {
			must(gk.SetSwitchParams(now, store))
		}
		prevW, storeW := "none", "absent"
		if prev != nil {
			must(gk.SetSwitchParams(other, prev))
			_ = gk.GetSwitchParams(other)
			prevW = showNames(encSwitch(*prev))
		} else if g.rng.Intn(2) == 0 {
			_ = gk.GetSwitchParams(other) // a read of the committed record
		}
		want := []string{}
		if store != nil {
			want = encSwitch(*store)
			storeW = showNames(want)
		}
		got := encSwitch(gk.GetSwitchParams(now))
		out.Emit(fmt.Sprintf("swget %s %s", prevW, storeW), showNames(got))
		out.Nontrivial(fmt.Sprintf("swget:prev=%v,store=%v,n=%d", prev != nil, store != nil, min(len(got), 3)))
		if showNames(got) != showNames(want) {
			out.Violate(fmt.Sprintf("process memory: GetSwitchParams on a context whose store holds [%s] returned [%s] after a read / write of [%s] on ANOTHER context of the same process (parameter reads are not isolated between contexts)", storeW, showNames(got), prevW))
			return
		}
	}
	// the same isolation for the crosschain and erc20 parameters and the disabled-message / precompile views
	type probe struct {
		name  string
		touch func(ctx sdk.Context)
		read  func(ctx sdk.Context) string
	}
	probes := []probe{
		{"crosschain(eth).GetParams", func(ctx sdk.Context) {
			p := g.c.App.EthKeeper.GetParams(ctx)
			p.SignedWindow += 7
			p.AverageBlockTime += 1
			_ = g.c.App.EthKeeper.SetParams(ctx, &p)
			_ = g.c.App.EthKeeper.GetParams(ctx)
		}, func(ctx sdk.Context) string { return fmt.Sprint(g.c.App.EthKeeper.GetParams(ctx)) }},
		{"erc20.GetParams", func(ctx sdk.Context) {
			p := g.c.App.Erc20Keeper.GetParams(ctx)
			p.EnableErc20 = !p.EnableErc20
			_ = g.c.App.Erc20Keeper.SetParams(ctx, &p)
			_ = g.c.App.Erc20Keeper.GetEnableErc20(ctx)
		}, func(ctx sdk.Context) string { return fmt.Sprint(g.c.App.Erc20Keeper.GetParams(ctx)) }},
		{"gov.GetDisabledMsgs+CheckDisabledPrecompiles", func(ctx sdk.Context) {
			p := g.switchParams(99)
			p.DisablePrecompiles = append(p.DisablePrecompiles, strings.ToLower(contract.StakingAddress))
			_ = gk.SetSwitchParams(ctx, &p)
			_ = gk.GetDisabledMsgs(ctx)
		}, func(ctx sdk.Context) string {
			return fmt.Sprint(gk.GetDisabledMsgs(ctx), gk.CheckDisabledPrecompiles(ctx, common.HexToAddress(contract.StakingAddress), []byte{1, 2, 3, 4}))
		}},
	}
	for _, pr := range probes {
		func() {
			defer func() {
				if recover() != nil {
					out.Count("isolation:" + pr.name + ":panic") // the history overwrote these parameters with undecodable bytes
				}
			}()
			base := g.c.Ctx()
			a, _ := base.CacheContext()
			before := pr.read(a)
			b, _ := base.CacheContext()
			pr.touch(b)
			c, _ := base.CacheContext()
			after := pr.read(c)
			out.Count("isolation:" + pr.name)
			if before != after {
				out.Violate(fmt.Sprintf("process memory: %s on an untouched context of the committed state returned %.80s after a write + read on ANOTHER (discarded) context, %.80s before (parameter reads are not isolated between contexts)", pr.name, after, before))
			}
		}()
	}
}
