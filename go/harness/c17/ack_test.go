package c17

// Hostile acknowledgements in the replica histories (round 4).
//
// A counterparty chain decides which bytes it writes as the acknowledgement of a packet; the IBC core of the receiving
// side only checks that the relayed bytes hash to the commitment proven for the counterparty's store.  On the loopback
// channel pair the "counterparty store" is this chain's own IBC store, so the generator plays the hostile counterparty by
// writing the commitment of the bytes it wants acknowledged (a harness step recorded in the history as an inject of kind
// `c17-ackcommit`, applied by EVERY execution right before the block) and then relays a REAL MsgAcknowledgement carrying
// those bytes through FinalizeBlock: proof verification by ibc-go's 09-localhost client, the fx middleware stack, the
// ICS-20 application.  Shapes: both arms of the oneof in one object (either member order), a non-canonical spelling of a
// one-arm object, an empty object, an unknown member, and the canonical error / result acknowledgement of a packet that
// was never delivered (the refund path through the middleware hook).  jsonpb resolves a oneof by ranging over a Go map, so
// bytes with both arms decode differently from one call to the next unless they are rejected first.
//
// The same shapes are handed DIRECTLY to the transfer stack's OnAcknowledgementPacket on a discarded branch and compared
// with the Lean model's interpretation of the regenerated statement program (`ack` op lines).

import (
	"encoding/hex"
	"encoding/json"
	"fmt"
	"strings"

	sdkmath "cosmossdk.io/math"
	storetypes "cosmossdk.io/store/types"
	tmproto "github.com/cometbft/cometbft/proto/tendermint/types"
	sdk "github.com/cosmos/cosmos-sdk/types"
	transfertypes "github.com/cosmos/ibc-go/v8/modules/apps/transfer/types"
	clienttypes "github.com/cosmos/ibc-go/v8/modules/core/02-client/types"
	channeltypes "github.com/cosmos/ibc-go/v8/modules/core/04-channel/types"

	fxtypes "github.com/functionx/fx-core/v8/types"

	"fxverif/harness/detx"
)

const ackCommitKind = "c17-ackcommit"

type ackCommit struct {
	Port    string `json:"port"`
	Channel string `json:"channel"`
	Seq     uint64 `json:"seq"`
	Ack     string `json:"ack"` // hex
}

// runBlock applies the harness steps recorded in the block (counterparty acknowledgement commitments) on the committed
// state and executes the block.  Every execution of a history — generator, in-process replicas, child processes — goes
// through here.
func runBlock(c *detx.Chain, b detx.Block) detx.Obs {
	if c.Height > 0 {
		for _, in := range b.Inject {
			if in.Kind != ackCommitKind {
				continue
			}
			bz, err := hex.DecodeString(in.Data)
			if err != nil {
				continue
			}
			var ac ackCommit
			if json.Unmarshal(bz, &ac) != nil {
				continue
			}
			ack, err := hex.DecodeString(ac.Ack)
			if err != nil {
				continue
			}
			ctx := c.App.NewUncachedContext(false, tmproto.Header{ChainID: c.ChainID, Height: b.Height})
			c.App.IBCKeeper.ChannelKeeper.SetPacketAcknowledgement(ctx, ac.Port, ac.Channel, ac.Seq, channeltypes.CommitAcknowledgement(ack))
		}
	}
	return c.RunBlock(b)
}

// ackShape: the members of the acknowledgement object in the order they are written, and the spelling (0 = exactly what
// json.Marshal writes for these members).
type ackShape struct {
	name     string
	members  [][2]string
	spelling int
}

var ackShapes = []ackShape{
	{"both-arms", [][2]string{{"result", "AQ=="}, {"error", "x"}}, 0},
	{"both-arms-reversed", [][2]string{{"error", "x"}, {"result", "AQ=="}}, 0},
	{"result-spaced", [][2]string{{"result", "AQ=="}}, 1},
	{"error-spaced", [][2]string{{"error", "x"}}, 1},
	{"empty", nil, 0},
	{"unknown-member", [][2]string{{"foo", "1"}}, 0},
	{"error", [][2]string{{"error", "x"}}, 0},
	{"result", [][2]string{{"result", "AQ=="}}, 0},
}

func (s ackShape) bytes() []byte {
	var parts []string
	for _, m := range s.members {
		k, _ := json.Marshal(m[0])
		v, _ := json.Marshal(m[1])
		sep := ":"
		if s.spelling != 0 {
			sep = ": "
		}
		parts = append(parts, string(k)+sep+string(v))
	}
	return []byte("{" + strings.Join(parts, ",") + "}")
}

func (s ackShape) opMembers() string {
	if len(s.members) == 0 {
		return "-"
	}
	var parts []string
	for _, m := range s.members {
		parts = append(parts, m[0]+":"+m[1])
	}
	return strings.Join(parts, ";")
}

// hostileAck queues, for the next block, the counterparty's commitment of forged acknowledgement bytes for a packet that
// was sent but never delivered, and the relayer's MsgAcknowledgement carrying them.
func (g *gen) hostileAck(p channeltypes.Packet) {
	s := ackShapes[g.rng.Intn(len(ackShapes))]
	if g.rng.Intn(2) == 0 || g.nHostile == 0 { // the first one and half of the others: the both-arms shapes
		s = ackShapes[g.rng.Intn(2)]
	}
	g.nHostile++
	ack := s.bytes()
	bz, _ := json.Marshal(ackCommit{Port: p.DestinationPort, Channel: p.DestinationChannel, Seq: p.Sequence, Ack: hex.EncodeToString(ack)})
	g.hostileQ = append(g.hostileQ, hostileRelay{
		commit: detx.Inject{Kind: ackCommitKind, Data: hex.EncodeToString(bz)},
		msg:    channeltypes.NewMsgAcknowledgement(p, ack, sentinelProof, clienttypes.ZeroHeight(), g.relayer.Addr()),
		shape:  s.name,
	})
	g.out.Count("ibc:hostile-ack:" + s.name)
}

type hostileRelay struct {
	commit detx.Inject
	msg    *channeltypes.MsgAcknowledgement
	shape  string
}

// flushHostile moves the queued forged acknowledgements into the block under construction.
func (g *gen) flushHostile() {
	for _, h := range g.hostileQ {
		g.inj = append(g.inj, h.commit)
		g.injKind = append(g.injKind, "harness:ack-commitment("+h.shape+")")
		h.msg.ProofHeight = g.proofHeight()
		g.txMaybeTight(g.relayer, h.msg)
	}
	g.hostileQ = nil
}

// probeAcks hands every acknowledgement shape directly to the transfer stack's OnAcknowledgementPacket (the fx middleware
// on top of the ICS-20 application) on a discarded branch of the committed state, for a synthetic packet of a user who
// has tokens in the channel's escrow account, and records the op line for the Lean model with the observation: error
// kind and what the escrow account paid back.
func (g *gen) probeAcks() {
	if !g.ibcOpen() {
		return
	}
	mod, ok := g.c.App.IBCKeeper.PortKeeper.Router.GetRoute(ibcPort)
	if !ok {
		g.out.Count("ackprobe:no-route")
		return
	}
	escrow := transfertypes.GetEscrowAddress(ibcPort, "channel-0")
	have := g.c.App.BankKeeper.GetBalance(g.c.Ctx(), escrow, fxtypes.DefaultDenom).Amount
	total := g.c.App.IBCTransferKeeper.GetTotalEscrowForDenom(g.c.Ctx(), fxtypes.DefaultDenom).Amount
	if have.LT(sdkmath.NewInt(1000)) || total.LT(sdkmath.NewInt(1000)) {
		g.out.Count("ackprobe:escrow-empty")
		return
	}
	amount := int64(1 + g.rng.Intn(999))
	sender := g.cosmosUser()
	data := transfertypes.NewFungibleTokenPacketData(fxtypes.DefaultDenom, fmt.Sprint(amount), sender.Addr(), g.anyUser().Addr(), "")
	packet := channeltypes.NewPacket(data.GetBytes(), 1_000_000+uint64(g.rng.Intn(1000)), ibcPort, "channel-0", ibcPort, "channel-1", clienttypes.ZeroHeight(), uint64(g.c.Time.UnixNano())+3600e9)
	for _, s := range ackShapes {
		for rep := 0; rep < 3; rep++ { // the decoder's map order is drawn per call
			base := g.c.Ctx().WithBlockGasMeter(storetypes.NewInfiniteGasMeter()).WithGasMeter(storetypes.NewInfiniteGasMeter()).WithEventManager(sdk.NewEventManager())
			ctx, _ := base.CacheContext()
			before := g.c.App.BankKeeper.GetBalance(ctx, escrow, fxtypes.DefaultDenom).Amount
			obs := ""
			func() {
				defer func() {
					if r := recover(); r != nil {
						obs = "panic:" + fmt.Sprint(r)
					}
				}()
				err := mod.OnAcknowledgementPacket(ctx, packet, s.bytes(), g.relayer.Acc())
				switch {
				case err == nil:
					obs = "ok"
				case strings.Contains(err.Error(), "did not marshal to expected bytes"):
					obs = "err:not-canonical"
				case strings.Contains(err.Error(), "cannot unmarshal ICS-20 transfer packet acknowledgement"):
					obs = "err:unmarshal"
				case strings.Contains(err.Error(), "expected one of"):
					obs = "err:invalid-type"
				default:
					e := err.Error()
					if len(e) > 60 {
						e = e[:60]
					}
					obs = "err:other:" + strings.ReplaceAll(e, " ", "_")
				}
			}()
			refund := before.Sub(g.c.App.BankKeeper.GetBalance(ctx, escrow, fxtypes.DefaultDenom).Amount)
			if !strings.HasPrefix(obs, "ok") {
				refund = sdkmath.ZeroInt() // a failing callback's writes are discarded by the caller
			}
			g.acks = append(g.acks, [2]string{fmt.Sprintf("ack %d %d %s", amount, s.spelling, s.opMembers()), fmt.Sprintf("%s refund=%s", obs, refund)})
			g.out.Count("ackprobe:" + s.name + " => " + obs)
		}
	}
}
