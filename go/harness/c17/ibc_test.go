package c17

// IBC in the generated histories: a loopback transfer channel pair (channel-0 <-> channel-1 over ibc-go's built-in
// `connection-localhost` / 09-localhost client, whose proofs are the sentinel byte) is opened with the four REAL handshake
// messages, one per block; afterwards the histories carry MsgTransfer transactions and crossChain precompile calls with
// an IBC target, and a small relayer in the generator turns every `send_packet` / `write_acknowledgement` event of the
// generator's execution into a MsgRecvPacket / MsgAcknowledgement of the next block (through the fx middleware stack).

import (
	"encoding/hex"
	"fmt"
	"math/big"
	"strconv"
	"strings"

	abci "github.com/cometbft/cometbft/abci/types"
	sdk "github.com/cosmos/cosmos-sdk/types"
	transfertypes "github.com/cosmos/ibc-go/v8/modules/apps/transfer/types"
	clienttypes "github.com/cosmos/ibc-go/v8/modules/core/02-client/types"
	channeltypes "github.com/cosmos/ibc-go/v8/modules/core/04-channel/types"
	"github.com/ethereum/go-ethereum/common"

	"github.com/functionx/fx-core/v8/contract"
	fxtypes "github.com/functionx/fx-core/v8/types"
	crosschaintypes "github.com/functionx/fx-core/v8/x/crosschain/types"
)

const (
	ibcPort       = "transfer"
	ibcVersion    = "ics20-1"
	ibcConnection = "connection-localhost"
)

var sentinelProof = []byte{0x01}

func (g *gen) proofHeight() clienttypes.Height { return clienttypes.NewHeight(0, uint64(g.c.Height)) }

// ibcHandshake queues the next handshake message (call once per block until it reports done).
func (g *gen) ibcHandshake() {
	r := g.relayer.Addr()
	switch g.ibcStep {
	case 0:
		g.tx(g.relayer, channeltypes.NewMsgChannelOpenInit(ibcPort, ibcVersion, channeltypes.UNORDERED, []string{ibcConnection}, ibcPort, r))
	case 1:
		g.tx(g.relayer, channeltypes.NewMsgChannelOpenTry(ibcPort, ibcVersion, channeltypes.UNORDERED, []string{ibcConnection}, ibcPort, "channel-0", ibcVersion,
			sentinelProof, g.proofHeight(), r))
	case 2:
		g.tx(g.relayer, channeltypes.NewMsgChannelOpenAck(ibcPort, "channel-0", "channel-1", ibcVersion, sentinelProof, g.proofHeight(), r))
	case 3:
		g.tx(g.relayer, channeltypes.NewMsgChannelOpenConfirm(ibcPort, "channel-1", sentinelProof, g.proofHeight(), r))
	default:
		return
	}
	g.ibcStep++
}

func (g *gen) ibcOpen() bool {
	if g.ibcStep < 4 {
		return false
	}
	ch, ok := g.c.App.IBCKeeper.ChannelKeeper.GetChannel(g.c.Ctx(), ibcPort, "channel-0")
	return ok && ch.State == channeltypes.OPEN
}

// ibcTraffic queues IBC sends: bank-side MsgTransfer transactions and crossChain precompile calls with an IBC target.
func (g *gen) ibcTraffic(n int) {
	if !g.ibcOpen() {
		g.out.Count("ibc:channel-not-open")
		return
	}
	ccABI := crosschaintypes.GetABI()
	cc := common.HexToAddress(contract.CrossChainAddress)
	for k := 0; k < n; k++ {
		u := g.anyUser()
		ch := []string{"channel-0", "channel-1"}[g.rng.Intn(2)]
		recv := g.anyUser().Hex().Hex() // a hex receiver: credited as ERC-20 by the fx middleware on the receiving end
		if g.rng.Intn(3) == 0 {
			recv = g.anyUser().Addr()
		}
		timeout := uint64(g.c.Time.UnixNano()) + uint64(3600+g.rng.Intn(3600))*1e9
		switch g.rng.Intn(3) {
		case 0: // EVM -> crosschain precompile -> ibc transfer
			amt := fxFrac(int64(10 + g.rng.Intn(900))).Amount.BigInt()
			prefix, to := "0x", g.anyUser().Hex().Hex()
			switch g.rng.Intn(4) {
			case 0:
				prefix, to = "cosmos", g.anyUser().Addr()
			case 1:
				prefix = "px" // does not match the receiver: rejected
			}
			target := fxtypes.MustStrToByte32(fmt.Sprintf("%s/%s/%s", prefix, ibcPort, ch))
			data, err := ccABI.Pack("crossChain", common.Address{}, to, amt, big.NewInt(0), target, "")
			must(err)
			g.eth(g.ethUser(), "crosschain.crossChain(ibc)", "", &cc, amt, 2_000_000, data)
		default:
			memo := ""
			if g.rng.Intn(4) == 0 {
				memo = "memo-" + strconv.Itoa(g.rng.Intn(100))
			}
			g.txMaybeTight(u, transfertypes.NewMsgTransfer(ibcPort, ch, fxFrac(int64(1+g.rng.Intn(500))), u.Addr(), recv, clienttypes.ZeroHeight(), timeout, memo))
		}
	}
}

func evAttr(e abci.Event, key string) string {
	for _, a := range e.Attributes {
		if a.Key == key {
			return a.Value
		}
	}
	return ""
}

func packetOf(e abci.Event) (channeltypes.Packet, bool) {
	data, err := hex.DecodeString(evAttr(e, channeltypes.AttributeKeyDataHex))
	if err != nil || len(data) == 0 {
		return channeltypes.Packet{}, false
	}
	seq, err := strconv.ParseUint(evAttr(e, channeltypes.AttributeKeySequence), 10, 64)
	if err != nil {
		return channeltypes.Packet{}, false
	}
	th, err := clienttypes.ParseHeight(evAttr(e, channeltypes.AttributeKeyTimeoutHeight))
	if err != nil {
		th = clienttypes.ZeroHeight()
	}
	ts, _ := strconv.ParseUint(evAttr(e, channeltypes.AttributeKeyTimeoutTimestamp), 10, 64)
	return channeltypes.NewPacket(data, seq, evAttr(e, channeltypes.AttributeKeySrcPort), evAttr(e, channeltypes.AttributeKeySrcChannel),
		evAttr(e, channeltypes.AttributeKeyDstPort), evAttr(e, channeltypes.AttributeKeyDstChannel), th, ts), true
}

// relayFrom inspects the transaction events of an executed block and queues the relay messages for the next one.
func (g *gen) relayFrom(results []*abci.ExecTxResult) {
	for _, r := range results {
		if r.Code != 0 {
			continue
		}
		for _, e := range r.Events {
			switch e.Type {
			case channeltypes.EventTypeSendPacket:
				if p, ok := packetOf(e); ok {
					if k := g.rng.Intn(12); k >= 5 && g.nHostile > 0 {
						g.relayQ = append(g.relayQ, channeltypes.NewMsgRecvPacket(p, sentinelProof, clienttypes.ZeroHeight(), g.relayer.Addr()))
					} else if k >= 2 { // never delivered, but a hostile counterparty acknowledges it with bytes of its choosing (the
						// first packet of every history, then one in four)
						g.hostileAck(p)
						g.unrelayed = append(g.unrelayed, p)
					} else { // one packet in six is never delivered: it is timed out (refund through the fx middleware) once its time is up
						g.unrelayed = append(g.unrelayed, p)
					}
				}
			case channeltypes.EventTypeWriteAck:
				if p, ok := packetOf(e); ok {
					if ack, err := hex.DecodeString(evAttr(e, channeltypes.AttributeKeyAckHex)); err == nil {
						g.relayQ = append(g.relayQ, channeltypes.NewMsgAcknowledgement(p, ack, sentinelProof, clienttypes.ZeroHeight(), g.relayer.Addr()))
					}
				}
			}
		}
	}
}

// flushRelay queues the pending relay messages as transactions of the relayer (proof heights = the committed height).
func (g *gen) flushRelay() {
	q := g.relayQ
	g.relayQ = nil
	// packets that were never delivered and whose timeout has passed on the (loopback) counterparty: MsgTimeout; one of
	// them a second time in a later block (fails: the commitment is gone)
	var keep []channeltypes.Packet
	for _, p := range g.unrelayed {
		if p.TimeoutTimestamp != 0 && uint64(g.c.Time.UnixNano()) > p.TimeoutTimestamp {
			g.tx(g.relayer, channeltypes.NewMsgTimeout(p, 1, sentinelProof, g.proofHeight(), g.relayer.Addr()))
			g.out.Count("ibc:timeout-queued")
			if g.rng.Intn(3) == 0 {
				g.timedOut = append(g.timedOut, p)
			}
			continue
		}
		keep = append(keep, p)
	}
	g.unrelayed = keep
	if len(g.timedOut) > 0 && g.rng.Intn(2) == 0 {
		g.tx(g.relayer, channeltypes.NewMsgTimeout(g.timedOut[0], 1, sentinelProof, g.proofHeight(), g.relayer.Addr()))
		g.timedOut = g.timedOut[1:]
	}
	for _, m := range q {
		switch x := m.(type) {
		case *channeltypes.MsgRecvPacket:
			x.ProofHeight = g.proofHeight()
		case *channeltypes.MsgAcknowledgement:
			x.ProofHeight = g.proofHeight()
		}
		g.tx(g.relayer, m)
	}
}

var _ = strings.TrimSpace
var _ sdk.Msg
