package c17

// Process-history modes in which a replica serves READS AT ANOTHER HEIGHT before it goes on executing blocks: the general
// class "a read at another height populates process state".  What a node serves besides block execution is not limited to
// the latest state: explorers, indexers and archive clients ask gRPC / REST / JSON-RPC queries with a block height, and
// they do so right after a restart as well, before the node has executed anything.  Anything such a read leaves behind in
// process memory (an unkeyed parameter cache, a memoised decode, a lazily built index) and that FinalizeBlock later uses
// makes the block result depend on what the process happened to be asked.
//
//   restart-histq   the node is restarted before EVERY block and, before executing it, answers parameter / registry
//                   queries and a precompile eth_call at a seeded list of OLDER heights (height 1, the previous height,
//                   the middle, a random one — in a seeded order, so that the FIRST read after the restart is at an old
//                   height most of the time) and then at the latest one;
//   histq           no restarts: the same reads at older heights between blocks (a long-running archive node);
//   sim-restart     (existing mode) now also serves historical reads after its restarts.
// A state-synced node has no older versions: its historical reads fail (counted) — that is the real behaviour as well.

import (
	"encoding/json"
	"fmt"
	"math/rand"

	abci "github.com/cometbft/cometbft/abci/types"
	banktypes "github.com/cosmos/cosmos-sdk/x/bank/types"
	distrtypes "github.com/cosmos/cosmos-sdk/x/distribution/types"
	govv1 "github.com/cosmos/cosmos-sdk/x/gov/types/v1"
	stakingtypes "github.com/cosmos/cosmos-sdk/x/staking/types"
	"github.com/ethereum/go-ethereum/common"
	"github.com/ethereum/go-ethereum/common/hexutil"
	evmtypes "github.com/evmos/ethermint/x/evm/types"

	"github.com/functionx/fx-core/v8/contract"
	fxtypes "github.com/functionx/fx-core/v8/types"
	crosschaintypes "github.com/functionx/fx-core/v8/x/crosschain/types"
	erc20types "github.com/functionx/fx-core/v8/x/erc20/types"
	fxgovtypes "github.com/functionx/fx-core/v8/x/gov/types"
	fxstakingtypes "github.com/functionx/fx-core/v8/x/staking/types"
)

// paramReads asks, at height `at`, for every parameter set and registry that transaction execution consults (the
// governance switch parameters read by the ante handler and the precompiles, the per-message governance parameters, the
// crosschain / erc20 / EVM / fee-market / staking / bank / distribution parameters, token pairs, oracle registry) through
// the real query router, evaluates one precompile view through the EVM's eth_call entry point at that height, and reads
// the same parameters through the keepers on a query context of that height (what JSON-RPC back ends do).
func (n *node) paramReads(at int64) {
	if at < 1 || at > n.c.Height {
		return
	}
	tag := "latest"
	if at < n.c.Height {
		tag = "old"
	}
	ask := func(path string, req interface{ Marshal() ([]byte, error) }) {
		bz, err := req.Marshal()
		if err != nil {
			return
		}
		res, err := n.c.App.Query(nil, &abci.RequestQuery{Path: path, Data: bz, Height: at})
		if err != nil || res == nil || res.Code != 0 {
			n.stats["histq:"+tag+":err"]++
			return
		}
		n.stats["histq:"+tag+":ok"]++
	}
	ask("/fx.gov.v1.Query/SwitchParams", &fxgovtypes.QuerySwitchParamsRequest{})
	for _, url := range []string{"/cosmos.distribution.v1beta1.MsgCommunityPoolSpend", "/fx.erc20.v1.MsgRegisterCoin", "/cosmos.bank.v1beta1.MsgSend"} {
		ask("/fx.gov.v1.Query/CustomParams", &fxgovtypes.QueryCustomParamsRequest{MsgUrl: url})
	}
	ask("/cosmos.gov.v1.Query/Params", &govv1.QueryParamsRequest{ParamsType: "voting"})
	for _, chain := range []string{"eth", "bsc"} {
		ask("/fx.gravity.crosschain.v1.Query/Params", &crosschaintypes.QueryParamsRequest{ChainName: chain})
		ask("/fx.gravity.crosschain.v1.Query/Oracles", &crosschaintypes.QueryOraclesRequest{ChainName: chain})
		ask("/fx.gravity.crosschain.v1.Query/BridgeTokens", &crosschaintypes.QueryBridgeTokensRequest{ChainName: chain})
		ask("/fx.gravity.crosschain.v1.Query/CurrentOracleSet", &crosschaintypes.QueryCurrentOracleSetRequest{ChainName: chain})
	}
	ask("/fx.erc20.v1.Query/Params", &erc20types.QueryParamsRequest{})
	ask("/fx.erc20.v1.Query/TokenPairs", &erc20types.QueryTokenPairsRequest{})
	ask("/ethermint.evm.v1.Query/Params", &evmtypes.QueryParamsRequest{})
	ask("/cosmos.staking.v1beta1.Query/Params", &stakingtypes.QueryParamsRequest{})
	ask("/cosmos.bank.v1beta1.Query/Params", &banktypes.QueryParamsRequest{})
	ask("/cosmos.distribution.v1beta1.Query/Params", &distrtypes.QueryParamsRequest{})
	// eth_call of a staking precompile view and of a crosschain precompile view at that height (Contract.Run consults the
	// switch parameters before dispatching)
	from := common.BytesToAddress([]byte("c17-histq"))
	gas := hexutil.Uint64(500_000)
	call := func(to string, data []byte) {
		toA := common.HexToAddress(to)
		in := hexutil.Bytes(data)
		args, err := json.Marshal(evmtypes.TransactionArgs{From: &from, To: &toA, Gas: &gas, Input: &in})
		if err != nil {
			return
		}
		ask("/ethermint.evm.v1.Query/EthCall", &evmtypes.EthCallRequest{Args: args, GasCap: 1_000_000, ChainId: fxtypes.EIP155ChainID(n.c.ChainID).Int64()})
	}
	if d, err := fxstakingtypes.GetABI().Pack("validatorList", uint8(0)); err == nil {
		call(contract.StakingAddress, d)
	}
	if d, err := crosschaintypes.GetABI().Pack("hasOracle", "eth", from); err == nil {
		call(contract.CrossChainAddress, d)
	}
	// keeper-level reads on a query context of that height
	if ctx, err := n.c.App.CreateQueryContext(at, false); err == nil {
		ctx, _ = ctx.CacheContext()
		func() {
			defer func() {
				if recover() != nil {
					n.stats["histq:keeper-read-panics"]++ // e.g. the erc20 parameters overwritten by the history
				}
			}()
			sp := n.c.App.GovKeeper.GetSwitchParams(ctx)
			n.stats[fmt.Sprintf("histq:%s:switch-params:msgs=%d,precompiles=%d", tag, min(len(sp.DisableMsgTypes), 2), min(len(sp.DisablePrecompiles), 2))]++
			_ = n.c.App.GovKeeper.GetDisabledMsgs(ctx)
			_ = n.c.App.GovKeeper.CheckDisabledPrecompiles(ctx, common.HexToAddress(contract.StakingAddress), []byte{1, 2, 3, 4})
			_ = n.c.App.EthKeeper.GetParams(ctx)
			_ = n.c.App.BscKeeper.GetParams(ctx)
			_ = n.c.App.Erc20Keeper.GetParams(ctx)
			_ = n.c.App.EvmKeeper.GetParams(ctx)
		}()
	}
}

// historical serves reads at older heights (seeded choice and ORDER: whatever is read first after a restart is what an
// unkeyed cache would keep) and finally at the latest height.
func (n *node) historical(rng *rand.Rand) {
	cur := n.c.Height
	if cur < 2 {
		return
	}
	hs := []int64{1, cur - 1, (cur + 1) / 2, 1 + rng.Int63n(cur-1)}
	if cur > 2 {
		hs = append(hs, cur-2)
	}
	rng.Shuffle(len(hs), func(i, j int) { hs[i], hs[j] = hs[j], hs[i] })
	if rng.Intn(5) == 0 { // now and then the latest height is asked first (the benign order)
		hs = append([]int64{cur}, hs...)
	}
	for _, h := range hs[:3] {
		n.paramReads(h)
		switch {
		case h == 1:
			n.stats["histq:height:first"]++
		case h == cur-1:
			n.stats["histq:height:previous"]++
		case h == cur:
			n.stats["histq:height:latest"]++
		default:
			n.stats["histq:height:middle"]++
		}
	}
	if rng.Intn(3) == 0 { // the full query set (aliases, batch fees, bridge denominations) at an older height
		n.queriesAt(hs[0], rng)
	}
	n.paramReads(cur)
}
