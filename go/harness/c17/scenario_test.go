package c17

// History generator: a scripted-but-seeded scenario driven against the parent's app instance.  Every transaction is
// really signed; the generator reads the committed state between blocks (sequences, oracle sets, batches) — the
// resulting block list is written to a history file and replayed verbatim by every other execution.

import (
	storetypes "cosmossdk.io/store/types"
	channeltypes "github.com/cosmos/ibc-go/v8/modules/core/04-channel/types"
	"encoding/hex"
	"fmt"
	"math/big"
	"math/rand"
	"os"
	"reflect"
	"strings"
	"time"

	"cosmossdk.io/collections"
	sdkmath "cosmossdk.io/math"
	"github.com/cosmos/cosmos-sdk/client"
	"github.com/cosmos/cosmos-sdk/codec"
	codectypes "github.com/cosmos/cosmos-sdk/codec/types"
	sdk "github.com/cosmos/cosmos-sdk/types"
	authtypes "github.com/cosmos/cosmos-sdk/x/auth/types"
	banktypes "github.com/cosmos/cosmos-sdk/x/bank/types"
	distrtypes "github.com/cosmos/cosmos-sdk/x/distribution/types"
	govtypes "github.com/cosmos/cosmos-sdk/x/gov/types"
	govv1 "github.com/cosmos/cosmos-sdk/x/gov/types/v1"
	stakingtypes "github.com/cosmos/cosmos-sdk/x/staking/types"
	ibcexported "github.com/cosmos/ibc-go/v8/modules/core/exported"
	ibctypes "github.com/cosmos/ibc-go/v8/modules/core/types"
	"github.com/ethereum/go-ethereum/common"
	ethcrypto "github.com/ethereum/go-ethereum/crypto"

	"github.com/functionx/fx-core/v8/app"
	"github.com/functionx/fx-core/v8/contract"
	fxtypes "github.com/functionx/fx-core/v8/types"
	crosschaintypes "github.com/functionx/fx-core/v8/x/crosschain/types"
	erc20types "github.com/functionx/fx-core/v8/x/erc20/types"
	fxgovtypes "github.com/functionx/fx-core/v8/x/gov/types"
	migratetypes "github.com/functionx/fx-core/v8/x/migrate/types"
	fxstakingtypes "github.com/functionx/fx-core/v8/x/staking/types"

	"fxverif/harness/detx"
	"fxverif/harness/hx"
)

const (
	chainID     = "fxcore"
	genesisUnix = 1_700_000_000 // fixed genesis time
	ethChain    = "eth"
	day         = 24 * time.Hour
)

type pendingTx struct {
	hex   string
	kind  string // label for the histogram: "<msg>[/<bad-kind>]"
	prop  bool   // a MsgSubmitProposal (result code 0 => a new proposal id)
	shape string // message type + the argument its gas mostly depends on (key of lastGas)
}

// shapeKey groups transactions whose gas use is expected to be (nearly) equal.
func shapeKey(m sdk.Msg) string {
	n := msgName(m)
	switch x := m.(type) {
	case *crosschaintypes.MsgSendToExternal:
		n += ":" + x.Amount.Denom
	case *crosschaintypes.MsgRequestBatch:
		n += ":" + x.Denom
	case *crosschaintypes.MsgIncreaseBridgeFee:
		n += ":" + x.AddBridgeFee.Denom
	case *govv1.MsgVote:
		n += fmt.Sprintf(":%d", x.Option)
	}
	return n
}

type gen struct {
	seed  int64
	rng   *rand.Rand
	c     *detx.Chain
	cfg   client.TxConfig
	out   *hx.Out
	hist  *detx.History
	obs   []detx.Obs
	kinds [][]string // per block: the kind label of every transaction (diagnostics of a differing result)
	lines []string   // per block: the compared observation line of the generator's own execution

	vals     []detx.ValSpec
	users    []detx.Key
	oracles  []detx.Key
	bridgers []detx.Key
	ext      []string // oracle external addresses
	extKeys  []*detx.Key
	migFrom  detx.Key
	migTo    detx.Key
	outsider detx.Key
	relayer  detx.Key
	ibcStep  int       // next step of the channel handshake
	relayQ   []sdk.Msg // relay messages for the next block
	vlists   [][2]string // validatorList(missed) probes: op line, observation
	unrelayed, timedOut []channeltypes.Packet // sent packets that are never delivered / were timed out already
	nHostile int            // forged acknowledgements so far
	hostileQ []hostileRelay // forged acknowledgements (counterparty commitment + relay message) for the next block
	acks     [][2]string    // (op line, observation) of direct OnAcknowledgementPacket probes

	seq          map[string]uint64
	pend         []pendingTx
	inj          []detx.Inject
	injKind      []string
	nextProp     uint64
	evNonce      uint64 // last external event nonce claimed
	extBlock     uint64 // external chain height
	debug        bool
	govAddr      string
	fxToken      string // external contract of the FX bridge token
	tokens       []bridgeTok
	nSmall       int               // the last nSmall oracles bond the minimum: a proposal can drop several of them at once
	lastGas      map[string]uint64 // gas used by the last successful transaction of a kind (boundary-biased gas limits)
	probes       [][2]string       // (op line, observation) of UpdateProposalOracles probes against the real keeper
	tallies      [][2]string       // (op line, observation) of gov Tally probes
	erc20Holders [][2]string       // (external token contract, user index) of deposits that were converted to the ERC-20 side
	lastSwitch   *fxgovtypes.SwitchParams // the switch parameters of the previous governance change
}

// bridgeTok is a many-to-one coin registered by governance whose aliases are its bridge denominations.
type bridgeTok struct {
	sym      string
	base     string
	contract string // on the eth chain
	denom    string // eth bridge denomination (alias of base)
	aliases  []string
}

func fx(n int64) sdk.Coin {
	return sdk.NewCoin(fxtypes.DefaultDenom, sdkmath.NewInt(n).MulRaw(1e18))
}

func fxFrac(n int64) sdk.Coin { // n * 1e15
	return sdk.NewCoin(fxtypes.DefaultDenom, sdkmath.NewInt(n).MulRaw(1e15))
}

func newGen(seed int64, out *hx.Out) *gen {
	g := &gen{seed: seed, rng: rand.New(rand.NewSource(seed)), out: out, seq: map[string]uint64{}, nextProp: 1,
		debug: os.Getenv("VERIF_C17_DEBUG") != "", govAddr: authtypes.NewModuleAddress(govtypes.ModuleName).String()}
	nVal := 3 + g.rng.Intn(3)
	nOra := 7 + g.rng.Intn(3)
	g.nSmall = 2 + g.rng.Intn(2)
	g.lastGas = map[string]uint64{}
	for i := 0; i < nVal; i++ {
		g.vals = append(g.vals, detx.ValSpec{
			Oper:  detx.CosmosKey(seed, fmt.Sprintf("val%d", i)),
			Cons:  detx.ConsKey(seed, fmt.Sprintf("val%d", i)),
			Power: int64(100 + g.rng.Intn(400)),
		})
	}
	var accs []detx.AccSpec
	for i := 0; i < 6; i++ {
		var k detx.Key
		if i%2 == 0 {
			k = detx.EthKey(seed, fmt.Sprintf("user%d", i))
		} else {
			k = detx.CosmosKey(seed, fmt.Sprintf("user%d", i))
		}
		g.users = append(g.users, k)
		accs = append(accs, detx.AccSpec{Addr: k.Acc(), Coins: sdk.NewCoins(fx(1_000_000))})
	}
	for i := 0; i < nOra; i++ {
		o := detx.CosmosKey(seed, fmt.Sprintf("oracle%d", i))
		b := detx.CosmosKey(seed, fmt.Sprintf("bridger%d", i))
		e := detx.ECDSA(seed, fmt.Sprintf("oracle%d", i))
		g.oracles, g.bridgers = append(g.oracles, o), append(g.bridgers, b)
		g.ext = append(g.ext, ethcrypto.PubkeyToAddress(e.PublicKey).Hex())
		accs = append(accs, detx.AccSpec{Addr: o.Acc(), Coins: sdk.NewCoins(fx(400_000))})
		accs = append(accs, detx.AccSpec{Addr: b.Acc(), Coins: sdk.NewCoins(fx(1_000))})
	}
	g.migFrom = detx.CosmosKey(seed, "migrate-from")
	g.migTo = detx.EthKey(seed, "migrate-to")
	g.outsider = detx.CosmosKey(seed, "outsider")
	g.relayer = detx.CosmosKey(seed, "relayer")
	accs = append(accs, detx.AccSpec{Addr: g.relayer.Acc(), Coins: sdk.NewCoins(fx(100_000))})
	accs = append(accs, detx.AccSpec{Addr: g.migFrom.Acc(), Coins: sdk.NewCoins(fx(5_000))})
	accs = append(accs, detx.AccSpec{Addr: g.outsider.Acc(), Coins: sdk.NewCoins(fx(300_000))})
	g.fxToken = ethcrypto.PubkeyToAddress(detx.ECDSA(seed, "fx-token").PublicKey).Hex()
	for i, sym := range []string{"TKA", "TKB", "TKC"}[:2+g.rng.Intn(2)] {
		c := ethcrypto.PubkeyToAddress(detx.ECDSA(seed, "token-"+sym).PublicKey).Hex()
		tk := bridgeTok{sym: sym, base: strings.ToLower(sym), contract: c, denom: crosschaintypes.NewBridgeDenom(ethChain, c)}
		tk.aliases = []string{tk.denom}
		if i%2 == 0 { // also bridged from a second chain: two aliases
			tk.aliases = append(tk.aliases, crosschaintypes.NewBridgeDenom("bsc", ethcrypto.PubkeyToAddress(detx.ECDSA(seed, "bsc-token-"+sym).PublicKey).Hex()))
		}
		g.tokens = append(g.tokens, tk)
	}

	gd := detx.BuildGenesis(detx.GenesisSpec{ChainID: chainID, TimeUnix: genesisUnix, Vals: g.vals, Accounts: accs,
		Mutate: func(cdc codec.Codec, gs app.GenesisState) {
			// the built-in loopback client is an allowed client (ibc client parameter), so that a transfer channel pair can
			// be opened over `connection-localhost` with real handshake messages
			var ibcGen ibctypes.GenesisState
			cdc.MustUnmarshalJSON(gs[ibcexported.ModuleName], &ibcGen)
			has := false
			for _, c := range ibcGen.ClientGenesis.Params.AllowedClients {
				if c == ibcexported.Localhost {
					has = true
				}
			}
			if !has {
				ibcGen.ClientGenesis.Params.AllowedClients = append(ibcGen.ClientGenesis.Params.AllowedClients, ibcexported.Localhost)
			}
			gs[ibcexported.ModuleName] = cdc.MustMarshalJSON(&ibcGen)
		}})
	c, err := detx.NewChain(gd)
	if err != nil {
		panic(err)
	}
	g.c = c
	g.cfg = c.App.GetTxConfig()
	g.hist = &detx.History{Seed: seed, Genesis: gd}
	return g
}

// ---------------------------------------------------------------------------------------------------------------
// transaction builders

func (g *gen) nextSeq(k detx.Key) (uint64, uint64) {
	an, sq, ok := g.c.AccountInfo(k.Acc())
	if !ok {
		return 0, 0
	}
	if s, ok := g.seq[k.Addr()]; ok {
		sq = s
	}
	return an, sq
}

func msgName(m sdk.Msg) string {
	n := reflect.TypeOf(m).Elem().Name()
	if c, ok := m.(*crosschaintypes.MsgClaim); ok && c.Claim != nil {
		if cv := c.Claim.GetCachedValue(); cv != nil {
			n += "<" + reflect.TypeOf(cv).Elem().Name() + ">"
		}
	}
	if p, ok := m.(*govv1.MsgSubmitProposal); ok {
		if ms, err := p.GetMsgs(); err == nil && len(ms) > 0 {
			n += "<" + reflect.TypeOf(ms[0]).Elem().Name() + ">"
		}
	}
	return n
}

// tx queues a transaction that is meant to pass the ante handler; bad selects a deliberately broken variant.
func (g *gen) txv(k detx.Key, bad string, gas uint64, msgs ...sdk.Msg) {
	an, sq := g.nextSeq(k)
	t := detx.CosmosTx{Signer: k, AccNum: an, Seq: sq, Gas: gas, Fee: detx.DefaultFee(gas), ChainID: chainID, Msgs: msgs,
		Memo: fmt.Sprintf("m%d", g.rng.Intn(1000))}
	advance := true
	switch bad {
	case "":
	case "bad-seq":
		t.Seq = sq + 3 + uint64(g.rng.Intn(5))
		advance = false
	case "old-seq":
		if sq == 0 {
			t.Seq = 7
		} else {
			t.Seq = sq - 1
		}
		advance = false
	case "bad-chain-id":
		t.ChainID = "fxcore-other"
		advance = false
	case "bad-accnum":
		t.AccNum = an + 1000
		advance = false
	case "out-of-gas":
		t.Gas = 30_000
		t.Fee = detx.DefaultFee(t.Gas)
		advance = false
	case "fee-too-big":
		t.Fee = sdk.NewCoins(fx(900_000_000))
		advance = false
	case "zero-fee":
		t.Fee = sdk.NewCoins()
	case "wrong-fee-denom":
		t.Fee = sdk.NewCoins(sdk.NewCoin("usdt", sdkmath.NewInt(1_000_000)))
		advance = false
	case "ante-reject": // a well-formed transaction the generator EXPECTS the ante handler to refuse (disabled message type): the sequence stays
		advance = false
	case "tight-sim", "tight-last": // gas limit at / just around what the transaction needs (decided below)
	default:
		panic("unknown bad kind " + bad)
	}
	h, err := detx.SignCosmos(g.cfg, t)
	if err != nil {
		panic(fmt.Sprintf("sign %s: %v", msgName(msgs[0]), err))
	}
	if strings.HasPrefix(bad, "tight") {
		// boundary-biased gas limit: the gas the last successful transaction of this kind used (exactly, +-1, a little
		// more or less), or what a simulation on this instance reports plus a small offset
		limit := uint64(0)
		if lg, ok := g.lastGas[shapeKey(msgs[0])]; ok && bad == "tight-last" {
			limit = uint64(int64(lg) + []int64{0, -1, 1, -40, 40, 700, -700}[g.rng.Intn(7)])
		} else if bz, derr := hex.DecodeString(h); derr == nil {
			if gi, _, serr := g.c.App.Simulate(bz); serr == nil && gi.GasUsed > 0 {
				limit = uint64(int64(gi.GasUsed) + []int64{0, -1, 1, -300, 300, -2500, 2500, 6000}[g.rng.Intn(8)])
				bad = "tight-sim"
			}
		}
		if limit > 0 {
			t.Gas, t.Fee = limit, detx.DefaultFee(limit)
			if h, err = detx.SignCosmos(g.cfg, t); err != nil {
				panic(err)
			}
		} else {
			bad = "tight-none"
		}
	}
	if advance {
		g.seq[k.Addr()] = sq + 1
	}
	kind := msgName(msgs[0])
	if bad != "" {
		kind += "/" + bad
	}
	_, isProp := msgs[0].(*govv1.MsgSubmitProposal)
	shape := ""
	if len(msgs) == 1 {
		shape = shapeKey(msgs[0])
	}
	g.pend = append(g.pend, pendingTx{hex: h, kind: kind, prop: isProp && (bad == "" || bad == "zero-fee"), shape: shape})
}

func (g *gen) tx(k detx.Key, msgs ...sdk.Msg) { g.txv(k, "", 3_000_000, msgs...) }

// txMaybeTight queues the transaction with an ample gas limit, or (one time in three) with a limit at the boundary of
// what it needs, so that any replica-dependent gas cost flips its outcome.
func (g *gen) txMaybeTight(k detx.Key, msgs ...sdk.Msg) {
	switch g.rng.Intn(3) {
	case 0:
		mode := "tight-sim"
		if g.rng.Intn(2) == 0 {
			mode = "tight-last"
		}
		if _, pending := g.seq[k.Addr()]; !pending { // a simulation needs the committed sequence number
			g.txv(k, mode, 3_000_000, msgs...)
			return
		}
		g.txv(k, "tight-last", 3_000_000, msgs...)
	default:
		g.tx(k, msgs...)
	}
}

// eth routes a signed MsgEthereumTx directly to the EVM message server (the snapshot's tx decoder cannot deliver
// MsgEthereumTx: no custom GetSigners for its bytes `from` field); bad variants go through a real tx (and fail there).
func (g *gen) eth(k detx.Key, kind, bad string, to *common.Address, value *big.Int, gas uint64, data []byte) {
	if bad != "" {
		g.ethTx(k, kind, bad, to, value, gas, data)
		return
	}
	_, sq := g.nextSeq(k)
	msg, err := detx.SignEthMsg(chainID, detx.EthTx{Signer: k, Nonce: sq, To: to, Value: value, Gas: gas, Data: data})
	if err != nil {
		panic(err)
	}
	g.seq[k.Addr()] = sq + 1
	g.inj = append(g.inj, detx.EncodeInject("ethtx", msg))
	g.injKind = append(g.injKind, "evm:"+kind)
}

// injectMsg routes an sdk.Msg directly through the message service router before the block.
func (g *gen) injectMsg(m sdk.Msg) {
	g.inj = append(g.inj, detx.EncodeInject("msg", m))
	g.injKind = append(g.injKind, "inject:"+msgName(m))
}

// ethTx queues an EVM transaction from an eth-key account as a real transaction.
func (g *gen) ethTx(k detx.Key, kind, bad string, to *common.Address, value *big.Int, gas uint64, data []byte) {
	_, sq := g.nextSeq(k)
	t := detx.EthTx{Signer: k, Nonce: sq, To: to, Value: value, Gas: gas, Data: data}
	advance := true
	switch bad {
	case "":
	case "bad-nonce":
		t.Nonce = sq + 5
		advance = false
	case "low-gas-price":
		t.GasPrice = big.NewInt(1)
		advance = false
	case "bad-chain-id":
		t.ChainID = big.NewInt(1)
		advance = false
	case "intrinsic-gas":
		t.Gas = 1000
		advance = false
	default:
		panic("unknown bad eth kind " + bad)
	}
	h, err := detx.SignEth(g.cfg, chainID, t)
	if err != nil {
		panic(err)
	}
	if advance {
		g.seq[k.Addr()] = sq + 1
	}
	if bad != "" {
		kind += "/" + bad
	}
	g.pend = append(g.pend, pendingTx{hex: h, kind: "evm:" + kind})
}

// endBlock shuffles nothing (order is part of the history), executes the block on the parent instance and records it.
func (g *gen) endBlock(dt time.Duration, note string) detx.Obs {
	if g.c.Height > 0 {
		g.ibcHandshake()
		g.flushRelay()
		g.flushHostile()
	}
	for k := g.rng.Intn(3); k > 0 && g.c.Height > 0; k-- { // background traffic
		from := g.anyUser()
		switch g.rng.Intn(4) {
		case 0:
			g.txMaybeTight(from, stakingtypes.NewMsgDelegate(from.Addr(), g.valAddr(), fxFrac(int64(1000+g.rng.Intn(100000)))))
		case 1:
			g.txMaybeTight(from, distrtypes.NewMsgWithdrawDelegatorReward(from.Addr(), g.valAddr()))
		default:
			g.txMaybeTight(from, banktypes.NewMsgSend(from.Acc(), g.anyUser().Acc(), sdk.NewCoins(fxFrac(int64(1+g.rng.Intn(999))))))
		}
	}
	act := g.c.ActiveVals()
	b := detx.Block{Height: g.c.Height + 1, TimeUnix: g.c.Time.Add(dt).Unix(), Proposer: act[g.rng.Intn(len(act))], Note: note}
	if g.rng.Intn(4) == 0 && len(act) > 2 {
		b.Absent = []int{act[g.rng.Intn(len(act))]}
	}
	for _, p := range g.pend {
		b.Txs = append(b.Txs, p.hex)
	}
	if b.Txs == nil {
		b.Txs = []string{}
	}
	if g.c.Height > 0 {
		b.Inject = g.inj
	}
	o := runBlock(g.c, b)
	for i, r := range o.InjectRes {
		short := r
		if j := strings.IndexByte(short, ':'); j > 0 && !strings.HasPrefix(short, "vmerror") {
			short = short[:j]
		}
		g.out.Count("inject:" + g.injKind[i] + " => " + short)
		g.out.Nontrivial(g.injKind[i] + "=>" + short)
		if g.debug {
			if len(r) > 150 {
				r = r[:150]
			}
			fmt.Printf("  [h=%d] %-60s %s\n", b.Height, g.injKind[i], r)
		}
	}
	g.inj, g.injKind = nil, nil
	g.relayFrom(o.TxResults)
	g.hist.Blocks = append(g.hist.Blocks, b)
	g.obs = append(g.obs, o)
	g.lines = append(g.lines, blockLine(g.c, o))
	var ks []string
	for _, p := range g.pend {
		ks = append(ks, p.kind)
	}
	g.kinds = append(g.kinds, ks)
	if o.Err != "" {
		g.out.Count("block-error:" + o.Err)
	}
	for i, p := range g.pend {
		code := "?"
		if i < len(o.TxResults) {
			r := o.TxResults[i]
			code = "ok"
			if r.Code != 0 {
				code = fmt.Sprintf("%s/%d", r.Codespace, r.Code)
			}
			if p.prop && r.Code == 0 {
				g.nextProp++
			}
			if r.Code == 0 && p.shape != "" {
				g.lastGas[p.shape] = uint64(r.GasUsed)
			}
			if g.debug {
				lg := r.Log
				if len(lg) > 160 {
					lg = lg[:160]
				}
				fmt.Printf("  [h=%d] %-60s %-14s gas=%d/%d %s\n", b.Height, p.kind, code, r.GasUsed, r.GasWanted, strings.ReplaceAll(lg, "\n", " "))
			}
		}
		g.out.Count("tx:" + p.kind + " => " + code)
		g.out.Nontrivial(p.kind + "=>" + code)
	}
	if g.debug {
		fmt.Printf("[h=%d +%s %s] %s\n", b.Height, dt, note, o.Line())
		for _, e := range o.BlockEv {
			if strings.Contains(e.Type, "proposal") || strings.Contains(e.Type, "oracle") || strings.Contains(e.Type, "slash") {
				var kv []string
				for _, a := range e.Attributes {
					kv = append(kv, a.Key+"="+a.Value)
				}
				fmt.Printf("    block-event %s {%s}\n", e.Type, strings.Join(kv, ", "))
			}
		}
	}
	g.pend = nil
	g.seq = map[string]uint64{}
	return o
}

// ---------------------------------------------------------------------------------------------------------------
// message helpers

func (g *gen) submit(k detx.Key, bad string, deposit sdk.Coin, title string, msgs ...sdk.Msg) uint64 {
	m, err := govv1.NewMsgSubmitProposal(msgs, sdk.NewCoins(deposit), k.Addr(), "", title, "summary of "+title, false)
	if err != nil {
		panic(err)
	}
	id := g.nextProp + uint64(g.countPendingProps())
	g.txv(k, bad, 5_000_000, m)
	return id
}

func (g *gen) countPendingProps() int {
	n := 0
	for _, p := range g.pend {
		if p.prop {
			n++
		}
	}
	return n
}

// voteAll makes every validator operator vote; opt(i) picks the option of validator i (0 = no vote).
func (g *gen) voteAll(id uint64, opt func(i int) govv1.VoteOption) { g.voteAllT(id, opt, false) }

// voteAllT: with tight, some votes get a boundary gas limit (a vote that runs out of gas does not count, so this is only
// used for proposals the rest of the scenario does not depend on).
func (g *gen) voteAllT(id uint64, opt func(i int) govv1.VoteOption, tight bool) {
	for i, v := range g.vals {
		o := opt(i)
		if o == govv1.OptionEmpty {
			continue
		}
		if tight {
			g.txMaybeTight(v.Oper, govv1.NewMsgVote(v.Oper.Acc(), id, o, ""))
		} else {
			g.tx(v.Oper, govv1.NewMsgVote(v.Oper.Acc(), id, o, ""))
		}
	}
}

func yes(int) govv1.VoteOption { return govv1.OptionYes }

func (g *gen) claim(i int, c crosschaintypes.ExternalClaim, bad string) {
	any, err := codectypes.NewAnyWithValue(c)
	if err != nil {
		panic(err)
	}
	m := &crosschaintypes.MsgClaim{ChainName: ethChain, BridgerAddress: g.bridgers[i].Addr(), Claim: any}
	if bad == "tx" { // as a real transaction: fails in this snapshot (MsgClaim has no UnpackInterfaces, the inner claim is lost on decode)
		g.tx(g.bridgers[i], m)
		return
	}
	g.injectMsg(m)
}

// claimAll submits the same external event from every bridger in a seeded order (quorum is reached part-way).
func (g *gen) claimAll(mk func(bridger string) crosschaintypes.ExternalClaim, skip int) {
	order := g.rng.Perm(len(g.bridgers))
	for n, i := range order {
		if skip > 0 && n >= len(order)-skip {
			continue
		}
		g.claim(i, mk(g.bridgers[i].Addr()), "")
	}
}

func (g *gen) nextEvent() (uint64, uint64) {
	g.evNonce++
	g.extBlock += uint64(1 + g.rng.Intn(20))
	return g.evNonce, g.extBlock
}

func (g *gen) ethUser() detx.Key    { return g.users[2*g.rng.Intn(3)] }
func (g *gen) cosmosUser() detx.Key { return g.users[1+2*g.rng.Intn(3)] }
func (g *gen) anyUser() detx.Key    { return g.users[g.rng.Intn(len(g.users))] }
func (g *gen) valAddr() string      { return g.vals[g.rng.Intn(len(g.vals))].Oper.Val().String() }

func addr(s string) *common.Address { a := common.HexToAddress(s); return &a }

// ---------------------------------------------------------------------------------------------------------------
// the scenario

func (g *gen) run() {
	stakingABI := fxstakingtypes.GetABI()
	ccABI := crosschaintypes.GetABI()
	short := 5 * time.Second
	eth := g.c.App.EthKeeper

	// ---- phase 1: bank / staking / erc20 / plain EVM, with invalid transactions mixed in
	bads := []string{"bad-seq", "old-seq", "bad-chain-id", "bad-accnum", "out-of-gas", "fee-too-big", "zero-fee", "wrong-fee-denom"}
	for blk := 0; blk < 2; blk++ {
		n := 3 + g.rng.Intn(4)
		for i := 0; i < n; i++ {
			from, to := g.anyUser(), g.anyUser()
			amt := fxFrac(int64(1 + g.rng.Intn(5000)))
			if g.rng.Intn(6) == 0 {
				amt = fx(2_000_000) // more than the balance: message fails after the ante handler passed
			}
			g.tx(from, banktypes.NewMsgSend(from.Acc(), to.Acc(), sdk.NewCoins(amt)))
		}
		for i := 0; i < 2; i++ {
			from := g.anyUser()
			g.txv(from, bads[g.rng.Intn(len(bads))], 3_000_000, banktypes.NewMsgSend(from.Acc(), g.anyUser().Acc(), sdk.NewCoins(fxFrac(7))))
		}
		u := g.anyUser()
		g.tx(u, stakingtypes.NewMsgDelegate(u.Addr(), g.valAddr(), fx(int64(100+g.rng.Intn(5000)))))
		g.tx(g.migFrom, stakingtypes.NewMsgDelegate(g.migFrom.Addr(), g.valAddr(), fx(int64(100+g.rng.Intn(500)))))
		e := g.ethUser()
		g.eth(e, "transfer", "", addr(g.anyUser().Hex().Hex()), big.NewInt(int64(1+g.rng.Intn(1e9))), 21000, nil)
		if blk == 1 {
			g.ethTx(g.ethUser(), "transfer(as-tx)", "", addr(g.anyUser().Hex().Hex()), big.NewInt(77), 21000, nil)
			g.eth(g.ethUser(), "transfer", []string{"bad-nonce", "low-gas-price", "bad-chain-id", "intrinsic-gas"}[g.rng.Intn(4)], addr(g.anyUser().Hex().Hex()), big.NewInt(5), 21000, nil)
			c := g.anyUser()
			g.tx(c, &erc20types.MsgConvertCoin{Coin: fx(int64(1 + g.rng.Intn(50))), Receiver: g.anyUser().Hex().Hex(), Sender: c.Addr()})
			// multi-message transaction, second message fails => whole tx reverted
			m := g.cosmosUser()
			g.tx(m, banktypes.NewMsgSend(m.Acc(), g.anyUser().Acc(), sdk.NewCoins(fxFrac(3))), banktypes.NewMsgSend(m.Acc(), g.anyUser().Acc(), sdk.NewCoins(fx(9_000_000))))
		}
		g.endBlock(short, "bank/staking/evm")
	}

	// ---- phase 2: governance: register the eth oracles (passes), bsc oracles (seeded outcome), wrong authority (fails)
	var oracleAddrs []string
	for _, o := range g.oracles {
		oracleAddrs = append(oracleAddrs, o.Addr())
	}
	pEth := g.submit(g.users[1], "", fx(10_000), "eth oracles", &crosschaintypes.MsgUpdateChainOracles{ChainName: ethChain, Authority: g.govAddr, Oracles: oracleAddrs})
	pBsc := g.submit(g.users[3], "", fx(1_000+int64(g.rng.Intn(3000))), "bsc oracles", &crosschaintypes.MsgUpdateChainOracles{ChainName: "bsc", Authority: g.govAddr, Oracles: oracleAddrs[:2]})
	// further bridged tokens: many-to-one coins whose aliases are their bridge denominations on eth (and bsc)
	var pToks []uint64
	for i, tk := range g.tokens {
		md := fxtypes.GetCrossChainMetadataManyToOne("Token "+tk.sym, tk.sym, 18, tk.aliases...)
		pToks = append(pToks, g.submit(g.users[(2*i)%6], "", fx(10_000), "register "+tk.sym, &erc20types.MsgRegisterCoin{Authority: g.govAddr, Metadata: md}))
	}
	g.submit(g.users[5], "", fx(10_000), "wrong authority", &crosschaintypes.MsgUpdateChainOracles{ChainName: ethChain, Authority: g.users[5].Addr(), Oracles: oracleAddrs})
	g.submit(g.users[5], "bad-seq", fx(10_000), "never", &erc20types.MsgToggleTokenConversion{Authority: g.govAddr, Token: fxtypes.DefaultDenom})
	g.endBlock(short, "gov submit")

	g.tx(g.users[0], govv1.NewMsgDeposit(g.users[0].Acc(), pBsc, sdk.NewCoins(fx(9_000))))
	g.tx(g.users[2], govv1.NewMsgDeposit(g.users[2].Acc(), 999, sdk.NewCoins(fx(1))))
	g.voteAll(pEth, yes)
	for _, id := range pToks {
		g.voteAll(id, yes)
	}
	g.endBlock(short, "gov deposit+vote")

	bscPass := g.rng.Intn(2) == 0
	g.voteAllT(pBsc, func(i int) govv1.VoteOption {
		if bscPass {
			return []govv1.VoteOption{govv1.OptionYes, govv1.OptionYes, govv1.OptionAbstain, govv1.OptionYes, govv1.OptionNo}[i%5]
		}
		return []govv1.VoteOption{govv1.OptionNo, govv1.OptionNoWithVeto, govv1.OptionYes, govv1.OptionNo, govv1.OptionEmpty}[i%5]
	}, true)
	d := g.anyUser() // a delegator overrides with a weighted vote
	g.tx(d, govv1.NewMsgVoteWeighted(d.Acc(), pBsc, govv1.WeightedVoteOptions{
		{Option: govv1.OptionYes, Weight: "0.3"}, {Option: govv1.OptionNo, Weight: "0.5"}, {Option: govv1.OptionAbstain, Weight: "0.2"}}, ""))
	g.tx(g.outsider, govv1.NewMsgVote(g.outsider.Acc(), pEth, govv1.OptionNo, "")) // no stake: counts for nothing
	g.endBlock(short, "gov vote")
	g.endBlock(14*day+time.Second, "voting period elapses: tally")

	// ---- phase 3: oracles bond (different powers), first oracle set request from the end blocker
	for i, o := range g.oracles {
		amt := fx(10_000 * int64(2+g.rng.Intn(3)))
		if i >= len(g.oracles)-g.nSmall {
			amt = fx(10_000) // the minimum: several of these together stay below the 30% power-change threshold
		}
		g.tx(o, &crosschaintypes.MsgBondedOracle{ChainName: ethChain, OracleAddress: o.Addr(), BridgerAddress: g.bridgers[i].Addr(),
			ExternalAddress: g.ext[i], ValidatorAddress: g.vals[i%len(g.vals)].Oper.Val().String(), DelegateAmount: amt})
	}
	g.tx(g.outsider, &crosschaintypes.MsgBondedOracle{ChainName: ethChain, OracleAddress: g.outsider.Addr(), BridgerAddress: g.users[1].Addr(),
		ExternalAddress: g.fxToken, ValidatorAddress: g.valAddr(), DelegateAmount: fx(10_000)})
	g.endBlock(short, "bond oracles")
	for i := 0; i < 2; i++ { // a second message of the same signers: next block
		g.tx(g.oracles[i], &crosschaintypes.MsgBondedOracle{ChainName: "bsc", OracleAddress: g.oracles[i].Addr(), BridgerAddress: g.bridgers[i].Addr(),
			ExternalAddress: g.ext[i], ValidatorAddress: g.valAddr(), DelegateAmount: fx(10_000 * int64(1+g.rng.Intn(2)))})
	}
	g.ibcTraffic(1 + g.rng.Intn(3))
	g.endBlock(short, "empty")

	// ---- phase 4: claims reaching quorum: bridge token, oracle set updated, send-to-fx
	n1, h1 := g.nextEvent()
	g.claimAll(func(b string) crosschaintypes.ExternalClaim {
		return &crosschaintypes.MsgBridgeTokenClaim{EventNonce: n1, BlockHeight: h1, TokenContract: g.fxToken, Name: "Function X", Symbol: fxtypes.DefaultDenom,
			Decimals: 18, BridgerAddress: b, ChainName: ethChain}
	}, 0)
	for _, tk := range g.tokens {
		nt, ht := g.nextEvent()
		tk := tk
		g.claimAll(func(b string) crosschaintypes.ExternalClaim {
			return &crosschaintypes.MsgBridgeTokenClaim{EventNonce: nt, BlockHeight: ht, TokenContract: tk.contract, Name: "Token " + tk.sym, Symbol: tk.sym,
				Decimals: 18, BridgerAddress: b, ChainName: ethChain}
		}, 0)
	}
	n1 = g.evNonce
	g.claim(0, &crosschaintypes.MsgBridgeTokenClaim{EventNonce: n1 + 5, BlockHeight: h1, TokenContract: g.fxToken, Name: "x", Symbol: "X", Decimals: 18,
		BridgerAddress: g.bridgers[0].Addr(), ChainName: ethChain}, "") // non-contiguous nonce
	g.injectMsg(&crosschaintypes.MsgClaim{ChainName: ethChain, BridgerAddress: g.users[1].Addr(), Claim: mustAny(&crosschaintypes.MsgBridgeTokenClaim{
		EventNonce: 1, BlockHeight: h1, TokenContract: g.fxToken, Name: "x", Symbol: "X", Decimals: 18, BridgerAddress: g.users[1].Addr(), ChainName: ethChain})}) // not a bridger
	g.claim(1, &crosschaintypes.MsgBridgeTokenClaim{EventNonce: n1 + 1, BlockHeight: h1, TokenContract: g.fxToken, Name: "x", Symbol: "X", Decimals: 18,
		BridgerAddress: g.bridgers[1].Addr(), ChainName: ethChain}, "tx")
	g.endBlock(short, "bridge token claim")

	if oset := eth.GetLatestOracleSet(g.c.Ctx()); oset != nil {
		n2, h2 := g.nextEvent()
		members := oset.Members
		g.claimAll(func(b string) crosschaintypes.ExternalClaim {
			return &crosschaintypes.MsgOracleSetUpdatedClaim{EventNonce: n2, BlockHeight: h2, OracleSetNonce: oset.Nonce, Members: members, BridgerAddress: b, ChainName: ethChain}
		}, g.rng.Intn(2))
		// oracle set confirmations (real external-key signatures) from a seeded subset: the others are slashed later
		if cp, err := oset.GetCheckpoint(eth.GetGravityID(g.c.Ctx())); err == nil {
			for i := range g.oracles {
				if i == 0 || g.rng.Intn(2) == 0 {
					sig, _ := crosschaintypes.NewEthereumSignature(cp, detx.ECDSA(g.seed, fmt.Sprintf("oracle%d", i)))
					g.tx(g.bridgers[i], &crosschaintypes.MsgOracleSetConfirm{Nonce: oset.Nonce, BridgerAddress: g.bridgers[i].Addr(), ExternalAddress: g.ext[i],
						Signature: hex.EncodeToString(sig), ChainName: ethChain})
				}
			}
			sig, _ := crosschaintypes.NewEthereumSignature(cp, detx.ECDSA(g.seed, "someone-else"))
			g.tx(g.bridgers[1], &crosschaintypes.MsgOracleSetConfirm{Nonce: oset.Nonce, BridgerAddress: g.bridgers[1].Addr(), ExternalAddress: g.ext[1],
				Signature: hex.EncodeToString(sig), ChainName: ethChain}) // wrong key
		}
	}
	var s2f []uint64
	contracts := []string{g.fxToken}
	for _, tk := range g.tokens {
		contracts = append(contracts, tk.contract, tk.contract) // two deposits of every further token
	}
	for k := 0; k < 1+g.rng.Intn(3); k++ {
		contracts = append(contracts, g.fxToken)
	}
	g.rng.Shuffle(len(contracts), func(i, j int) { contracts[i], contracts[j] = contracts[j], contracts[i] })
	for k, contractAddr := range contracts {
		n3, h3 := g.nextEvent()
		recv := g.users[k%len(g.users)]
		amt := sdkmath.NewInt(int64(100 + g.rng.Intn(900))).MulRaw(1e18)
		target := ""
		if g.rng.Intn(4) == 0 {
			target = hex.EncodeToString([]byte("erc20"))
		}
		ibcTarget := false
		if g.ibcOpen() && (k == 0 || g.rng.Intn(3) == 0) { // the deposit is forwarded over IBC (crosschain -> ICS-20 transfer; relative timeout)
			target = hex.EncodeToString([]byte("fx/" + ibcPort + "/channel-" + fmt.Sprint(g.rng.Intn(2))))
			ibcTarget = true
			g.out.Count("send-to-fx:ibc-target")
		}
		if target != "" && !ibcTarget {
			g.erc20Holders = append(g.erc20Holders, [2]string{contractAddr, fmt.Sprint(k % len(g.users))})
		}
		sender := g.ext[g.rng.Intn(len(g.ext))]
		contractAddr := contractAddr
		g.claimAll(func(b string) crosschaintypes.ExternalClaim {
			return &crosschaintypes.MsgSendToFxClaim{EventNonce: n3, BlockHeight: h3, TokenContract: contractAddr, Amount: amt, Sender: sender, Receiver: recv.Addr(),
				TargetIbc: target, BridgerAddress: b, ChainName: ethChain}
		}, 0)
		s2f = append(s2f, n3)
	}
	// the SECOND chain (bsc): the same kinds of events through the same keeper code with another module name / store /
	// address format table entry; accepted when the bsc proposal passed (seeded) and its two oracles bonded, refused
	// otherwise (both are deterministic outcomes to compare)
	bscToken := "0x" + strings.Repeat("b5", 20)
	bscNonce, bscHeight := uint64(0), uint64(1000)
	bscClaimAll := func(mk func(b string, n, h uint64) crosschaintypes.ExternalClaim) {
		bscNonce++
		bscHeight += uint64(1 + g.rng.Intn(9))
		for _, i := range g.rng.Perm(2) {
			g.injectMsg(&crosschaintypes.MsgClaim{ChainName: "bsc", BridgerAddress: g.bridgers[i].Addr(), Claim: mustAny(mk(g.bridgers[i].Addr(), bscNonce, bscHeight))})
		}
	}
	bscClaimAll(func(b string, n, h uint64) crosschaintypes.ExternalClaim {
		return &crosschaintypes.MsgBridgeTokenClaim{EventNonce: n, BlockHeight: h, TokenContract: bscToken, Name: "Function X", Symbol: fxtypes.DefaultDenom,
			Decimals: 18, BridgerAddress: b, ChainName: "bsc"}
	})
	for k := 0; k < 1+g.rng.Intn(3); k++ {
		recv, amt := g.anyUser(), sdkmath.NewInt(int64(1+g.rng.Intn(900))).MulRaw(1e18)
		bscClaimAll(func(b string, n, h uint64) crosschaintypes.ExternalClaim {
			return &crosschaintypes.MsgSendToFxClaim{EventNonce: n, BlockHeight: h, TokenContract: bscToken, Amount: amt, Sender: g.ext[0], Receiver: recv.Addr(),
				TargetIbc: "", BridgerAddress: b, ChainName: "bsc"}
		})
	}
	bu := g.anyUser()
	g.txMaybeTight(bu, &crosschaintypes.MsgSendToExternal{Sender: bu.Addr(), Dest: g.ext[1], Amount: fxFrac(int64(100 + g.rng.Intn(900))),
		BridgeFee: fxFrac(int64(1 + g.rng.Intn(9))), ChainName: "bsc"})
	g.endBlock(short, "oracle-set-updated + send-to-fx claims")

	// ---- phase 5: EVM -> precompiles: executeClaim (crosschain), delegateV2 (staking), crossChain
	cc, st := addr(contract.CrossChainAddress), addr(contract.StakingAddress)
	for _, n := range s2f {
		data, err := ccABI.Pack("executeClaim", ethChain, new(big.Int).SetUint64(n))
		must(err)
		g.eth(g.ethUser(), "crosschain.executeClaim", "", cc, nil, 2_000_000, data)
	}
	data, err := ccABI.Pack("executeClaim", ethChain, big.NewInt(9999))
	must(err)
	g.eth(g.ethUser(), "crosschain.executeClaim(unknown)", "", cc, nil, 2_000_000, data)
	data, err = stakingABI.Pack("delegateV2", g.valAddr(), fx(int64(1+g.rng.Intn(100))).Amount.BigInt())
	must(err)
	g.eth(g.ethUser(), "staking.delegateV2", "", st, nil, 2_000_000, data)
	data, err = stakingABI.Pack("delegateV2", g.valAddr(), fx(50_000_000).Amount.BigInt())
	must(err)
	g.eth(g.ethUser(), "staking.delegateV2(too-much)", "", st, nil, 2_000_000, data)
	data, err = stakingABI.Pack("delegateV2", g.valAddr(), fx(3).Amount.BigInt())
	must(err)
	g.eth(g.ethUser(), "staking.delegateV2(low-gas)", "", st, nil, 60_000, data)
	// the rest of the staking precompile, by one delegator: views whose RETURN DATA is observed (validatorList sorts the
	// bonded validators by missed blocks with an unstable sort and a comparator that leaves ties — all counters are equal
	// here, so the order is whatever sort.Slice makes of the store order), share approval / transfer, reward withdrawal,
	// undelegation, redelegation
	du, dv := g.users[0], g.vals[g.rng.Intn(len(g.vals))].Oper.Val().String()
	dv2 := g.vals[(g.rng.Intn(len(g.vals)-1)+1)%len(g.vals)].Oper.Val().String()
	stk := func(kind string, gas uint64, method string, args ...interface{}) {
		d, err := stakingABI.Pack(method, args...)
		must(err)
		g.eth(du, "staking."+kind, "", st, nil, gas, d)
	}
	stk("delegateV2(own)", 2_000_000, "delegateV2", dv, fx(100).Amount.BigInt())
	for _, sortBy := range []uint8{1, 0, 1, uint8(2 + g.rng.Intn(3))} {
		stk(fmt.Sprintf("validatorList(%d)", min(int(sortBy), 2)), 2_000_000, "validatorList", sortBy)
	}
	stk("delegation", 2_000_000, "delegation", dv, du.Hex())
	stk("delegationRewards", 2_000_000, "delegationRewards", dv, du.Hex())
	stk("slashingInfo", 2_000_000, "slashingInfo", dv)
	stk("withdraw", 2_000_000, "withdraw", dv)
	stk("approveShares", 2_000_000, "approveShares", dv, g.users[2].Hex(), fx(int64(1+g.rng.Intn(20))).Amount.BigInt())
	stk("allowanceShares", 2_000_000, "allowanceShares", dv, du.Hex(), g.users[2].Hex())
	stk("transferShares", 2_000_000, "transferShares", dv, g.users[4].Hex(), fx(int64(1+g.rng.Intn(10))).Amount.BigInt())
	stk("transferShares(too-many)", 2_000_000, "transferShares", dv, g.users[4].Hex(), fx(5_000).Amount.BigInt())
	stk("undelegateV2", 2_000_000, "undelegateV2", dv, fx(int64(1+g.rng.Intn(5))).Amount.BigInt())
	if dv2 != dv {
		stk("redelegateV2", 2_000_000, "redelegateV2", dv, dv2, fx(int64(1+g.rng.Intn(5))).Amount.BigInt())
	}
	stk("withdraw(low-gas)", uint64(30_000+g.rng.Intn(40_000)), "withdraw", dv)
	g.ibcTraffic(1 + g.rng.Intn(3))
	g.endBlock(short, "evm precompiles")
	g.probeValidatorList()
	g.probeAcks()

	// ---- phase 6: power changes -> oracle set requests through the PowerDiff path
	g.tx(g.oracles[1], &crosschaintypes.MsgAddDelegate{ChainName: ethChain, OracleAddress: g.oracles[1].Addr(), Amount: fx(int64(1 + g.rng.Intn(200)))})
	// oracle housekeeping: reward withdrawal, re-delegation to another validator, bridger replacement (of the last oracle)
	g.txMaybeTight(g.oracles[2], &crosschaintypes.MsgWithdrawReward{ChainName: ethChain, OracleAddress: g.oracles[2].Addr()})
	g.txMaybeTight(g.oracles[3], &crosschaintypes.MsgReDelegate{ChainName: ethChain, OracleAddress: g.oracles[3].Addr(),
		ValidatorAddress: g.vals[(3+1+g.rng.Intn(len(g.vals)-1))%len(g.vals)].Oper.Val().String()})
	last := len(g.oracles) - 1
	g.txMaybeTight(g.oracles[last], &crosschaintypes.MsgEditBridger{ChainName: ethChain, OracleAddress: g.oracles[last].Addr(),
		BridgerAddress: detx.CosmosKey(g.seed, "bridger-replacement").Addr()})
	g.endBlock(short, "small add-delegate (< 10%)")
	g.tx(g.oracles[0], &crosschaintypes.MsgAddDelegate{ChainName: ethChain, OracleAddress: g.oracles[0].Addr(), Amount: fx(10_000 * int64(2+g.rng.Intn(4)))})
	g.tx(g.oracles[2], &crosschaintypes.MsgAddDelegate{ChainName: ethChain, OracleAddress: g.oracles[2].Addr(), Amount: fx(2_000_000)}) // above maximum
	g.endBlock(short, "large add-delegate (>= 10%)")

	// ---- phase 7: outgoing pool, batch, batch confirmation, batch executed claim
	nOut := 3 + g.rng.Intn(4)
	for k := 0; k < nOut; k++ {
		u := g.anyUser()
		g.txMaybeTight(u, &crosschaintypes.MsgSendToExternal{Sender: u.Addr(), Dest: g.ext[g.rng.Intn(len(g.ext))], Amount: fxFrac(int64(1000 + g.rng.Intn(9000))),
			BridgeFee: fxFrac(int64(1 + g.rng.Intn(50))), ChainName: ethChain})
	}
	// the further tokens: every holder sends part of the balance out (resolves the bridge denomination of the coin);
	// several transactions per token and several tokens => several fee-map entries, several batches
	bank := g.c.App.BankKeeper
	for _, tk := range g.tokens {
		for _, u := range g.users {
			bal := bank.GetBalance(g.c.Ctx(), u.Acc(), tk.base).Amount
			if !bal.IsPositive() {
				continue
			}
			g.out.Count("holder:" + tk.sym)
			for k := 0; k < 1+g.rng.Intn(2); k++ {
				amt := bal.QuoRaw(int64(4 + g.rng.Intn(8)))
				fee := sdkmath.NewInt(int64(1 + g.rng.Intn(50))).MulRaw(1e15)
				g.txMaybeTight(u, &crosschaintypes.MsgSendToExternal{Sender: u.Addr(), Dest: g.ext[g.rng.Intn(len(g.ext))], Amount: sdk.NewCoin(tk.base, amt),
					BridgeFee: sdk.NewCoin(tk.base, fee), ChainName: ethChain})
			}
		}
	}
	for k := 0; k < 1+g.rng.Intn(3); k++ { // outgoing bridge calls (never confirmed: they time out / their non-signers are slashed)
		bu := g.anyUser()
		g.txMaybeTight(bu, &crosschaintypes.MsgBridgeCall{ChainName: ethChain, Sender: bu.Addr(), Refund: bu.Addr(),
			Coins: sdk.NewCoins(fxFrac(int64(1 + g.rng.Intn(500)))), To: g.ext[g.rng.Intn(len(g.ext))], Data: "", Value: sdkmath.ZeroInt(), Memo: ""})
	}
	u := g.anyUser()
	g.tx(u, &crosschaintypes.MsgSendToExternal{Sender: u.Addr(), Dest: g.ext[0], Amount: sdk.NewCoin("nope", sdkmath.NewInt(5)), BridgeFee: sdk.NewCoin("nope", sdkmath.NewInt(1)), ChainName: ethChain})
	target := fxtypes.MustStrToByte32(ethChain)
	amt, fee := fxFrac(int64(100+g.rng.Intn(900))).Amount.BigInt(), fxFrac(int64(1+g.rng.Intn(9))).Amount.BigInt()
	data, err = ccABI.Pack("crossChain", common.Address{}, g.ext[0], amt, fee, target, "")
	must(err)
	g.eth(g.ethUser(), "crosschain.crossChain", "", cc, new(big.Int).Add(amt, fee), 2_000_000, data)
	data, err = ccABI.Pack("crossChain", common.Address{}, g.ext[0], amt, fee, target, "")
	must(err)
	g.eth(g.ethUser(), "crosschain.crossChain(value-mismatch)", "", cc, amt, 2_000_000, data)
	g.ibcTraffic(1 + g.rng.Intn(3))
	g.endBlock(short, "send-to-external")

	// fee increase / cancellation of pooled transfers (both resolve the token of the pooled transaction again)
	var pooled []*crosschaintypes.OutgoingTransferTx
	eth.IterateUnbatchedTransactions(g.c.Ctx(), "", func(tx *crosschaintypes.OutgoingTransferTx) bool {
		pooled = append(pooled, tx)
		return false
	})
	g.rng.Shuffle(len(pooled), func(i, j int) { pooled[i], pooled[j] = pooled[j], pooled[i] })
	for i, ptx := range pooled {
		if i >= 3 {
			break
		}
		var who *detx.Key
		for ui := range g.users {
			if g.users[ui].Addr() == ptx.Sender {
				who = &g.users[ui]
			}
		}
		denom := fxtypes.DefaultDenom
		for _, tk := range g.tokens {
			if tk.contract == ptx.Token.Contract {
				denom = tk.denom // the fee is added in the bridge denomination (which the sender does not hold: fails after the look-ups)
			}
		}
		if who == nil {
			continue
		}
		if i == 0 {
			g.txMaybeTight(*who, &crosschaintypes.MsgCancelSendToExternal{TransactionId: ptx.Id, Sender: who.Addr(), ChainName: ethChain})
		} else {
			g.txMaybeTight(*who, &crosschaintypes.MsgIncreaseBridgeFee{ChainName: ethChain, TransactionId: ptx.Id, Sender: who.Addr(),
				AddBridgeFee: sdk.NewCoin(denom, sdkmath.NewInt(int64(1+g.rng.Intn(9))).MulRaw(1e15))})
		}
	}
	g.tx(g.bridgers[0], &crosschaintypes.MsgRequestBatch{Sender: g.bridgers[0].Addr(), Denom: fxtypes.DefaultDenom, MinimumFee: sdkmath.NewInt(1), FeeReceive: g.ext[0],
		ChainName: ethChain, BaseFee: sdkmath.ZeroInt()})
	g.tx(g.users[1], &crosschaintypes.MsgRequestBatch{Sender: g.users[1].Addr(), Denom: fxtypes.DefaultDenom, MinimumFee: sdkmath.NewInt(1), FeeReceive: g.ext[0],
		ChainName: ethChain, BaseFee: sdkmath.ZeroInt()}) // not a bridger
	// confirm the second oracle set (PowerDiff path) by oracle 0 and a seeded subset: only the others are slashed later
	if oset := eth.GetLatestOracleSet(g.c.Ctx()); oset != nil && oset.Nonce > 1 {
		if cp, err := oset.GetCheckpoint(eth.GetGravityID(g.c.Ctx())); err == nil {
			for i := range g.oracles {
				if i == 0 || g.rng.Intn(2) == 0 {
					sig, _ := crosschaintypes.NewEthereumSignature(cp, detx.ECDSA(g.seed, fmt.Sprintf("oracle%d", i)))
					g.tx(g.bridgers[i], &crosschaintypes.MsgOracleSetConfirm{Nonce: oset.Nonce, BridgerAddress: g.bridgers[i].Addr(), ExternalAddress: g.ext[i],
						Signature: hex.EncodeToString(sig), ChainName: ethChain})
				}
			}
		}
	}
	g.endBlock(short, "request batch")
	for i, tk := range g.tokens { // one batch request per block and chain is allowed: the further tokens follow block by block
		b := 1 + i%(len(g.bridgers)-1)
		g.txMaybeTight(g.bridgers[b], &crosschaintypes.MsgRequestBatch{Sender: g.bridgers[b].Addr(), Denom: tk.denom, MinimumFee: sdkmath.NewInt(1), FeeReceive: g.ext[b],
			ChainName: ethChain, BaseFee: sdkmath.ZeroInt()})
		u := g.anyUser()
		g.txMaybeTight(u, &crosschaintypes.MsgSendToExternal{Sender: u.Addr(), Dest: g.ext[g.rng.Intn(len(g.ext))], Amount: fxFrac(int64(1000 + g.rng.Intn(9000))),
			BridgeFee: fxFrac(int64(1 + g.rng.Intn(50))), ChainName: ethChain})
		g.endBlock(short, "request batch "+tk.sym)
	}

	for _, batch := range eth.GetOutgoingTxBatches(g.c.Ctx()) {
		cp, err := batch.GetCheckpoint(eth.GetGravityID(g.c.Ctx()))
		if err != nil {
			continue
		}
		for i := range g.oracles {
			if g.rng.Intn(3) != 0 {
				sig, _ := crosschaintypes.NewEthereumSignature(cp, detx.ECDSA(g.seed, fmt.Sprintf("oracle%d", i)))
				g.tx(g.bridgers[i], &crosschaintypes.MsgConfirmBatch{Nonce: batch.BatchNonce, TokenContract: batch.TokenContract, BridgerAddress: g.bridgers[i].Addr(),
					ExternalAddress: g.ext[i], Signature: hex.EncodeToString(sig), ChainName: ethChain})
			}
		}
	}
	// a second round into the pool that stays unbatched
	for k := 0; k < 2; k++ {
		u := g.anyUser()
		g.tx(u, &crosschaintypes.MsgSendToExternal{Sender: u.Addr(), Dest: g.ext[1], Amount: fxFrac(int64(10 + g.rng.Intn(90))), BridgeFee: fxFrac(int64(1 + g.rng.Intn(5))), ChainName: ethChain})
	}
	g.endBlock(short, "confirm batch")
	batches := eth.GetOutgoingTxBatches(g.c.Ctx())
	g.out.Count(fmt.Sprintf("batches-pending:%d", len(batches)))
	if g.rng.Intn(2) == 0 {
		// the external chain is far ahead when the next events are observed: the batches and bridge calls that are not
		// executed now have timed out (cancelled / refunded in the same pass over the store)
		g.extBlock += 100_000
		g.out.Count("external-height-jump")
	}
	keep := -1
	if len(batches) > 1 {
		keep = g.rng.Intn(len(batches)) // this one is never executed: it times out / its non-signers are slashed
	}
	for bi, batch := range batches {
		if bi == keep {
			continue
		}
		n4, h4 := g.nextEvent()
		bn, tc := batch.BatchNonce, batch.TokenContract
		g.claimAll(func(b string) crosschaintypes.ExternalClaim {
			return &crosschaintypes.MsgSendToExternalClaim{EventNonce: n4, BlockHeight: h4, BatchNonce: bn, TokenContract: tc, BridgerAddress: b, ChainName: ethChain}
		}, 0)
	}
	g.switchTraffic() // before any switch-parameter change: everything is enabled
	g.endBlock(short, "batch executed claim")

	// ---- phase 8: fx governance messages, passing, rejected and failing on execution
	cp := eth.GetParams(g.c.Ctx())
	cp.SignedWindow = uint64(3 + g.rng.Intn(3))
	cp.OracleSetUpdatePowerChangePercent = sdkmath.LegacyNewDecWithPrec(int64(1+g.rng.Intn(20)), 2)
	badParams := cp
	badParams.SignedWindow = 1 // fails validation
	vp := time.Duration(2+g.rng.Intn(5)) * day
	type prop struct {
		id   uint64
		vote func(int) govv1.VoteOption
	}
	// oracle-set proposals computed from the bonded powers: one that drops SEVERAL bonded oracles at once while staying
	// below the 30% power-change threshold (every dropped oracle is unbonded by the proposal handler, in some order),
	// and one that drops the biggest oracles until the threshold is reached (rejected on execution)
	dropSmall, dropBig := g.oracleDrops(oracleAddrs)
	no := func(i int) govv1.VoteOption { return []govv1.VoteOption{govv1.OptionNo, govv1.OptionNoWithVeto}[i%2] }
	props := []prop{
		{g.submit(g.users[1], "", fx(10_000), "toggle FX", &erc20types.MsgToggleTokenConversion{Authority: g.govAddr, Token: fxtypes.DefaultDenom}), yes},
		{g.submit(g.users[3], "", fx(10_000), "toggle unknown", &erc20types.MsgToggleTokenConversion{Authority: g.govAddr, Token: "unknown-token"}), yes},
		{g.submit(g.users[5], "", fx(10_000), "eth params", &crosschaintypes.MsgUpdateParams{ChainName: ethChain, Authority: g.govAddr, Params: cp}), yes},
		{g.submit(g.users[2], "", fx(10_000), "update store", &fxgovtypes.MsgUpdateStore{Authority: g.govAddr, UpdateStores: []fxgovtypes.UpdateStore{
			{Space: "erc20", Key: hex.EncodeToString([]byte{0xFE, byte(g.rng.Intn(4))}), OldValue: "", Value: fmt.Sprintf("%02x", g.rng.Intn(256))}}}), yes},
		{g.submit(g.users[4], "", fx(10_000), "update store stale", &fxgovtypes.MsgUpdateStore{Authority: g.govAddr, UpdateStores: []fxgovtypes.UpdateStore{
			{Space: "erc20", Key: "fe09", OldValue: "aa", Value: "bb"}}}), yes},
		{g.submit(g.users[1], "", fx(10_000), "custom params", &fxgovtypes.MsgUpdateCustomParams{Authority: g.govAddr, MsgUrl: sdk.MsgTypeURL(&distrtypes.MsgCommunityPoolSpend{}),
			CustomParams: *fxgovtypes.NewCustomParams("0.5", vp, "0.3")}), yes},
		{g.submit(g.users[3], "", fx(10_000), "rejected oracles", &crosschaintypes.MsgUpdateChainOracles{ChainName: ethChain, Authority: g.govAddr, Oracles: oracleAddrs[:1]}), no},
		{g.submit(g.users[4], "", fx(10_000), "drop several small oracles", &crosschaintypes.MsgUpdateChainOracles{ChainName: ethChain, Authority: g.govAddr, Oracles: dropSmall}), yes},
		{g.submit(g.users[5], "", fx(10_000), "drop too much power", &crosschaintypes.MsgUpdateChainOracles{ChainName: ethChain, Authority: g.govAddr, Oracles: dropBig}), yes},
		{g.submit(g.users[0], "", fx(10_000), "spend", &distrtypes.MsgCommunityPoolSpend{Authority: g.govAddr, Recipient: g.users[0].Addr(), Amount: sdk.NewCoins(fxFrac(1))}), yes},
		{g.submit(g.users[2], "", fx(10_000), "switch params", &fxgovtypes.MsgUpdateSwitchParams{Authority: g.govAddr, Params: g.switchParams(0)}), yes},
	}
	g.submit(g.users[4], "", fx(10_000), "bad eth params", &crosschaintypes.MsgUpdateParams{ChainName: ethChain, Authority: g.govAddr, Params: badParams}) // rejected at submission
	g.endBlock(short, "fx gov proposals")
	perm := g.rng.Perm(len(props))
	for _, pi := range perm {
		// the oracle-set and parameter proposals must come out as planned; the others may lose votes to tight gas limits
		g.voteAllT(props[pi].id, props[pi].vote, pi != 2 && pi != 6 && pi != 7 && pi != 8 && pi != 10)
	}
	g.endBlock(short, "votes")
	// gov Tally of every proposal in its voting period, on a discarded branch: the real result against the sum of the
	// contributions computed independently per validator
	for _, pr := range props {
		g.probeTally(pr.id)
	}
	// correspondence probes of UpdateProposalOracles on a discarded branch of the committed state (all oracles bonded)
	g.probeUpdateOracles(dropSmall)
	g.probeUpdateOracles(dropBig)
	g.probeUpdateOracles(oracleAddrs)
	for k := 0; k < 6; k++ {
		var sub []string
		for _, a := range oracleAddrs {
			if g.rng.Intn(4) != 0 {
				sub = append(sub, a)
			}
		}
		if g.rng.Intn(3) == 0 {
			sub = append(sub, g.users[1].Addr()) // never bonded
		}
		g.rng.Shuffle(len(sub), func(i, j int) { sub[i], sub[j] = sub[j], sub[i] })
		g.probeUpdateOracles(sub)
	}
	var many []string
	for k := 0; k < 101; k++ {
		many = append(many, detx.CosmosKey(g.seed, fmt.Sprintf("many%d", k)).Addr())
	}
	g.probeUpdateOracles(many)
	g.endBlock(7*day+time.Second, "7-day custom voting periods end")
	g.endBlock(7*day+time.Second, "14-day voting periods end")

	// ---- phase 9: after the toggle: conversions fail; signed window elapses: slashing of non-confirming oracles
	cu := g.anyUser()
	g.tx(cu, &erc20types.MsgConvertCoin{Coin: fx(1), Receiver: cu.Hex().Hex(), Sender: cu.Addr()})
	g.ibcTraffic(1 + g.rng.Intn(3))
	g.switchTraffic() // right after the first switch-parameter change
	g.endBlock(short, "convert after toggle")
	for k := 0; k < 7; k++ {
		if k == 2 {
			// migrate an account that holds a balance and a delegation to a fresh eth address
			sig, err := ethcrypto.Sign(migratetypes.MigrateAccountSignatureHash(g.migFrom.Acc(), g.migTo.Hex().Bytes()), g.migTo.ECDSAKey())
			must(err)
			g.tx(g.migFrom, migratetypes.NewMsgMigrateAccount(g.migFrom.Acc(), g.migTo.Hex(), hex.EncodeToString(sig)))
			bad, err := ethcrypto.Sign(migratetypes.MigrateAccountSignatureHash(g.users[1].Acc(), g.migTo.Hex().Bytes()), g.users[0].ECDSAKey())
			must(err)
			g.tx(g.users[1], migratetypes.NewMsgMigrateAccount(g.users[1].Acc(), g.migTo.Hex(), hex.EncodeToString(bad)))
		}
		if k == 4 {
			g.eth(g.migTo, "transfer(after-migrate)", "", addr(g.users[0].Hex().Hex()), big.NewInt(12345), 21000, nil)
			u := g.anyUser()
			g.tx(u, stakingtypes.NewMsgUndelegate(u.Addr(), g.valAddr(), fx(1)))
		}
		from := g.anyUser()
		g.tx(from, banktypes.NewMsgSend(from.Acc(), g.anyUser().Acc(), sdk.NewCoins(fxFrac(int64(1+g.rng.Intn(99))))))
		if k%2 == 1 {
			g.ibcTraffic(1)
		}
		if k == 1 || k == 5 {
			g.switchTraffic()
		}
		g.endBlock(short, "signed window / slashing")
	}
	g.endBlock(22*day, "unbonding period elapses")
	for i, o := range g.oracles { // the oracles dropped by the proposal take their stake back
		if !contains(dropSmall, o.Addr()) {
			g.txMaybeTight(g.oracles[i], &crosschaintypes.MsgUnbondedOracle{ChainName: ethChain, OracleAddress: o.Addr()})
		}
	}
	g.tx(g.oracles[0], &crosschaintypes.MsgUnbondedOracle{ChainName: ethChain, OracleAddress: g.oracles[0].Addr()}) // still a proposal oracle
	for _, tk := range g.tokens {                                                                                   // holders of the ERC-20 side convert back to coins
		if pair, ok := g.c.App.Erc20Keeper.GetTokenPair(g.c.Ctx(), tk.base); ok {
			for ui, cu := range g.users {
				holds := false
				for _, h := range g.erc20Holders {
					if h[0] == tk.contract && h[1] == fmt.Sprint(ui) {
						holds = true
					}
				}
				if !holds && ui != 0 {
					continue // user 0 always tries (fails without a balance)
				}
				// routed directly: the snapshot's tx decoder cannot take the signer from a hex `sender`
				g.injectMsg(&erc20types.MsgConvertERC20{ContractAddress: pair.Erc20Address, Amount: sdkmath.NewInt(int64(1 + g.rng.Intn(1000))).MulRaw(1e15),
					Receiver: cu.Addr(), Sender: cu.Hex().Hex()})
			}
		}
	}
	g.endBlock(short, "unbonded oracles / erc20 conversions")

	// ---- phase 10: a passed proposal whose message handler PANICS in the gov end blocker: a first proposal overwrites the
	// erc20 parameters with bytes the keeper cannot decode (the real MsgUpdateStore route), a second, perfectly valid
	// MsgRegisterCoin proposal of the same block then panics in GetEnableErc20; the recovered error becomes the failed
	// reason of the proposal (state) and the proposal_log event.  From here on every handler that reads the erc20
	// parameters panics: transactions doing so are delivered as well (recovered by baseapp).
	erc20Store := g.c.Ctx().KVStore(g.c.App.GetKey(erc20types.StoreKey))
	oldParams := erc20Store.Get(erc20types.ParamsKey)
	pCorrupt := g.submit(g.users[2], "", fx(10_000), "overwrite erc20 params", &fxgovtypes.MsgUpdateStore{Authority: g.govAddr, UpdateStores: []fxgovtypes.UpdateStore{
		{Space: erc20types.StoreKey, Key: hex.EncodeToString(erc20types.ParamsKey), OldValue: hex.EncodeToString(oldParams), Value: "ff"}}})
	g.endBlock(short, "proposal: overwrite erc20 params")
	g.voteAll(pCorrupt, yes)
	g.endBlock(short, "votes")
	g.endBlock(14*day+time.Second, "voting period ends: erc20 params overwritten")
	pPanic := g.submit(g.users[4], "", fx(10_000), "register TKZ", &erc20types.MsgRegisterCoin{Authority: g.govAddr,
		Metadata: fxtypes.GetCrossChainMetadataManyToOne("Token TKZ", "TKZ", 18)})
	pAfter := g.submit(g.users[0], "", fx(10_000), "toggle after", &erc20types.MsgToggleTokenConversion{Authority: g.govAddr, Token: fxtypes.DefaultDenom})
	pSwitch2 := g.submit(g.users[1], "", fx(10_000), "switch params again", &fxgovtypes.MsgUpdateSwitchParams{Authority: g.govAddr, Params: g.switchParams(1)})
	g.endBlock(short, "proposals whose handlers read the erc20 params")
	g.voteAll(pSwitch2, yes)
	g.voteAll(pPanic, yes)
	g.voteAllT(pAfter, yes, true)
	g.endBlock(short, "votes")
	g.endBlock(14*day+time.Second, "voting periods end: the handlers panic")
	if prop, err := g.c.App.GovKeeper.Proposals.Get(g.c.Ctx(), pPanic); err == nil {
		reason := "other"
		if strings.Contains(prop.FailedReason, "PANICKED") {
			reason = "handler-panicked"
		}
		g.out.Count(fmt.Sprintf("proposal-with-panicking-handler: status=%s reason=%s", prop.Status, reason))
	}
	cv := g.anyUser()
	g.tx(cv, &erc20types.MsgConvertCoin{Coin: fx(1), Receiver: cv.Hex().Hex(), Sender: cv.Addr()}) // panics in DeliverTx
	g.eth(g.ethUser(), "transfer(after-params-overwrite)", "", addr(g.users[0].Hex().Hex()), big.NewInt(99), 21000, nil)
	from := g.anyUser()
	g.tx(from, banktypes.NewMsgSend(from.Acc(), g.anyUser().Acc(), sdk.NewCoins(fxFrac(5))))
	g.switchTraffic() // right after the second switch-parameter change
	g.endBlock(short, "final")
	g.switchTraffic()
	g.endBlock(short, "after final")
	g.probeValidatorList()
	g.probeAcks()
	ctx := g.c.Ctx()
	online, offline := 0, 0
	for _, o := range eth.GetAllOracles(ctx, false) {
		if o.Online {
			online++
		} else {
			offline++
		}
	}
	g.out.Count(fmt.Sprintf("final: oracles online=%d offline=%d", online, offline))
	g.out.Count(fmt.Sprintf("final: oracle-set-nonce=%d observed-event-nonce=%d", eth.GetLatestOracleSetNonce(ctx), eth.GetLastObservedEventNonce(ctx)))
	if g.debug {
		fmt.Printf("final: oracles online=%d offline=%d oracle-set-nonce=%d observed-event-nonce=%d slashed-at=%d\n", online, offline,
			eth.GetLatestOracleSetNonce(ctx), eth.GetLastObservedEventNonce(ctx), eth.GetLastOracleSlashBlockHeight(ctx))
	}
}

// probeValidatorList executes the staking precompile's validatorList(missed) on a discarded branch of the committed state
// (a really signed MsgEthereumTx through the EVM message server) and records, for the Lean model, the bonded validators
// with their missed-block counters in STORE order (the input of the sort) and in the returned order: the model checks the
// contract of a sort for the regenerated comparator (a permutation without inversions) — the order among equal counters is
// the algorithm's and is compared between the replicas only.
func (g *gen) probeValidatorList() {
	stakingABI := fxstakingtypes.GetABI()
	data, err := stakingABI.Pack("validatorList", uint8(fxstakingtypes.ValidatorSortByMissed))
	must(err)
	k := g.users[0]
	_, sq := g.nextSeq(k)
	st := common.HexToAddress(contract.StakingAddress)
	msg, err := detx.SignEthMsg(chainID, detx.EthTx{Signer: k, Nonce: sq, To: &st, Gas: 2_000_000, Data: data})
	must(err)
	ctx, _ := g.c.Ctx().CacheContext()
	ctx = ctx.WithEventManager(sdk.NewEventManager()).WithBlockGasMeter(storetypes.NewInfiniteGasMeter())
	resp, err := g.c.App.EvmKeeper.EthereumTx(ctx, msg)
	if err != nil || resp.VmError != "" {
		g.out.Count("validatorlist-probe:failed")
		return
	}
	outs, err := stakingABI.Unpack("validatorList", resp.Ret)
	if err != nil || len(outs) != 1 {
		g.out.Count("validatorlist-probe:bad-output")
		return
	}
	got, ok := outs[0].([]string)
	if !ok {
		g.out.Count("validatorlist-probe:bad-output")
		return
	}
	missed := func(oper string) (int64, bool) {
		va, err := sdk.ValAddressFromBech32(oper)
		if err != nil {
			return 0, false
		}
		v, err := g.c.App.StakingKeeper.GetValidator(ctx, va)
		if err != nil {
			return 0, false
		}
		ca, err := v.GetConsAddr()
		if err != nil {
			return 0, false
		}
		info, err := g.c.App.SlashingKeeper.GetValidatorSigningInfo(ctx, ca)
		if err != nil {
			return 0, false
		}
		return info.MissedBlocksCounter, true
	}
	bonded, err := g.c.App.StakingKeeper.GetLastValidators(ctx)
	if err != nil {
		return
	}
	var in, outl []string
	distinct := map[int64]bool{}
	for _, v := range bonded {
		m, ok := missed(v.OperatorAddress)
		if !ok {
			return
		}
		distinct[m] = true
		in = append(in, fmt.Sprintf("%s:%d", v.OperatorAddress, m))
	}
	for _, a := range got {
		m, ok := missed(a)
		if !ok {
			return
		}
		outl = append(outl, fmt.Sprintf("%s:%d", a, m))
	}
	if len(in) == 0 || len(outl) == 0 {
		return
	}
	g.vlists = append(g.vlists, [2]string{"checksorted " + strings.Join(in, ",") + " | " + strings.Join(outl, ","), "sorted-permutation"})
	g.out.Count(fmt.Sprintf("validatorlist-probe: validators=%d distinct-counters=%d", len(in), len(distinct)))
}

// oracleDrops returns two new oracle lists for MsgUpdateChainOracles: (a) the current list without as many of the
// least powerful bonded oracles as stay strictly below the 30% threshold (at least two whenever two fit), in a seeded
// order; (b) the current list without the most powerful oracles, enough to reach the threshold.
func (g *gen) oracleDrops(current []string) (small, big []string) {
	eth := g.c.App.EthKeeper
	all := eth.GetAllOracles(g.c.Ctx(), false)
	total := sdkmath.ZeroInt()
	for _, o := range all {
		if o.Online {
			total = total.Add(o.GetPower())
		}
	}
	threshold := crosschaintypes.AttestationProposalOracleChangePowerThreshold.Mul(total).Quo(sdkmath.NewInt(100))
	asc := append(crosschaintypes.Oracles{}, all...)
	for i := 1; i < len(asc); i++ { // insertion sort by (power, address): no dependence on sort stability
		for j := i; j > 0 && (asc[j].GetPower().LT(asc[j-1].GetPower()) || (asc[j].GetPower().Equal(asc[j-1].GetPower()) && asc[j].OracleAddress < asc[j-1].OracleAddress)); j-- {
			asc[j], asc[j-1] = asc[j-1], asc[j]
		}
	}
	drop := map[string]bool{}
	sum := sdkmath.ZeroInt()
	for _, o := range asc {
		if !o.Online {
			continue
		}
		if next := sum.Add(o.GetPower()); next.LT(threshold) {
			sum = next
			drop[o.OracleAddress] = true
		}
	}
	g.out.Count(fmt.Sprintf("proposal-drops-oracles:%d", len(drop)))
	for _, a := range current {
		if !drop[a] {
			small = append(small, a)
		}
	}
	g.rng.Shuffle(len(small), func(i, j int) { small[i], small[j] = small[j], small[i] })
	dropB := map[string]bool{}
	sum = sdkmath.ZeroInt()
	for i := len(asc) - 1; i >= 0 && sum.LT(threshold); i-- {
		if asc[i].Online {
			sum = sum.Add(asc[i].GetPower())
			dropB[asc[i].OracleAddress] = true
		}
	}
	for _, a := range current {
		if !dropB[a] {
			big = append(big, a)
		}
	}
	return small, big
}

// probeUpdateOracles runs the real UpdateProposalOracles on a branch of the committed state and records the op line for
// the Lean machine model (oracles in store order with power / online / delegation, stored proposal, new list) together
// with the observation: the error kind, or the dropped oracles in the order of the unbonding ids x/staking gave them.
func (g *gen) probeUpdateOracles(newList []string) {
	eth := g.c.App.EthKeeper
	sk := g.c.App.StakingKeeper
	ctx, _ := g.c.Ctx().CacheContext()
	ctx = ctx.WithEventManager(sdk.NewEventManager())
	all := eth.GetAllOracles(ctx, false)
	list := func(l []string) string {
		if len(l) == 0 {
			return "-"
		}
		return strings.Join(l, ",")
	}
	ids := func(o crosschaintypes.Oracle) map[uint64]bool {
		out := map[uint64]bool{}
		if ubd, err := sk.GetUnbondingDelegation(ctx, o.GetDelegateAddress(ethChain), o.GetValidator()); err == nil {
			for _, e := range ubd.Entries {
				out[e.UnbondingId] = true
			}
		}
		return out
	}
	var os []string
	before := map[string]map[uint64]bool{}
	for _, o := range all {
		del := uint64(0)
		if tok, err := eth.GetOracleDelegateToken(ctx, o.GetDelegateAddress(ethChain), o.GetValidator()); err == nil && tok.IsPositive() {
			del = tok.Quo(sdkmath.NewInt(1e18)).Uint64() + 1
		}
		on := 0
		if o.Online {
			on = 1
		}
		os = append(os, fmt.Sprintf("%s:%s:%d:%d", o.OracleAddress, o.GetPower().String(), on, del))
		before[o.OracleAddress] = ids(o)
	}
	old, _ := eth.GetProposalOracle(ctx)
	op := fmt.Sprintf("updateoracles %s | %s | %s", list(os), list(old.Oracles), list(newList))
	obs := ""
	if err := eth.UpdateProposalOracles(ctx, newList); err != nil {
		switch {
		case strings.Contains(err.Error(), "oracle length must be less"):
			obs = "err:too-many"
		case strings.Contains(err.Error(), "max change power"):
			obs = "err:max-change"
		default:
			obs = "err:unbond"
		}
	} else {
		type nu struct {
			addr string
			id   uint64
		}
		var fresh []nu
		for _, o := range all {
			for id := range ids(o) {
				if !before[o.OracleAddress][id] {
					fresh = append(fresh, nu{o.OracleAddress, id})
				}
			}
		}
		for i := 1; i < len(fresh); i++ {
			for j := i; j > 0 && fresh[j].id < fresh[j-1].id; j-- {
				fresh[j], fresh[j-1] = fresh[j-1], fresh[j]
			}
		}
		var order []string
		for _, f := range fresh {
			order = append(order, f.addr)
		}
		obs = "ok:" + list(order)
		g.out.Count(fmt.Sprintf("probe-updateoracles:unbonded=%d", len(order)))
	}
	if strings.HasPrefix(obs, "err") {
		g.out.Count("probe-updateoracles:" + obs)
	}
	g.probes = append(g.probes, [2]string{op, obs})
}

// probeTally runs the real gov Tally of a proposal on a branch of the committed state and records an op line carrying
// (a) the part accumulated while walking the votes in store order (delegators' own voting power) and (b) one contribution
// vector per bonded validator that voted (shares after deductions * bonded / shares, split by the vote's weights), both
// computed here independently of Tally; the Lean model adds them up (in any order) and truncates.
func (g *gen) probeTally(id uint64) {
	gk, sk := g.c.App.GovKeeper, g.c.App.StakingKeeper
	ctx, _ := g.c.Ctx().CacheContext()
	prop, err := gk.Proposals.Get(ctx, id)
	if err != nil || prop.Status != govv1.StatusVotingPeriod {
		return
	}
	type valInfo struct {
		bonded     sdkmath.Int
		shares     sdkmath.LegacyDec
		deductions sdkmath.LegacyDec
		vote       govv1.WeightedVoteOptions
	}
	vals := map[string]*valInfo{}
	var order []string
	_ = sk.IterateBondedValidatorsByPower(ctx, func(_ int64, v stakingtypes.ValidatorI) bool {
		vals[v.GetOperator()] = &valInfo{bonded: v.GetBondedTokens(), shares: v.GetDelegatorShares(), deductions: sdkmath.LegacyZeroDec()}
		order = append(order, v.GetOperator())
		return false
	})
	zero := func() []sdkmath.LegacyDec {
		return []sdkmath.LegacyDec{sdkmath.LegacyZeroDec(), sdkmath.LegacyZeroDec(), sdkmath.LegacyZeroDec(), sdkmath.LegacyZeroDec(), sdkmath.LegacyZeroDec()}
	}
	idx := map[govv1.VoteOption]int{govv1.OptionYes: 0, govv1.OptionAbstain: 1, govv1.OptionNo: 2, govv1.OptionNoWithVeto: 3}
	addTo := func(vec []sdkmath.LegacyDec, power sdkmath.LegacyDec, opts govv1.WeightedVoteOptions) {
		for _, o := range opts {
			w, _ := sdkmath.LegacyNewDecFromStr(o.Weight)
			vec[idx[o.Option]] = vec[idx[o.Option]].Add(power.Mul(w))
		}
		vec[4] = vec[4].Add(power)
	}
	base := zero()
	rng := collections.NewPrefixedPairRange[uint64, sdk.AccAddress](id)
	nVotes := 0
	_ = gk.Votes.Walk(ctx, rng, func(key collections.Pair[uint64, sdk.AccAddress], vote govv1.Vote) (bool, error) {
		nVotes++
		voter := sdk.MustAccAddressFromBech32(vote.Voter)
		if v, ok := vals[sdk.ValAddress(voter).String()]; ok {
			v.vote = vote.Options
		}
		_ = sk.IterateDelegations(ctx, voter, func(_ int64, d stakingtypes.DelegationI) bool {
			if v, ok := vals[d.GetValidatorAddr()]; ok {
				v.deductions = v.deductions.Add(d.GetShares())
				addTo(base, d.GetShares().MulInt(v.bonded).Quo(v.shares), vote.Options)
			}
			return false
		})
		return false, nil
	})
	render := func(vec []sdkmath.LegacyDec) string {
		var p []string
		for _, d := range vec {
			p = append(p, d.BigInt().String())
		}
		return strings.Join(p, ":")
	}
	var contribs []string
	for _, op := range order {
		v := vals[op]
		if len(v.vote) == 0 {
			continue
		}
		c := zero()
		addTo(c, v.shares.Sub(v.deductions).MulInt(v.bonded).Quo(v.shares), v.vote)
		contribs = append(contribs, render(c))
	}
	g.rng.Shuffle(len(contribs), func(i, j int) { contribs[i], contribs[j] = contribs[j], contribs[i] })
	cs := "-"
	if len(contribs) > 0 {
		cs = strings.Join(contribs, ";")
	}
	_, _, res, err := gk.Tally(ctx, prop)
	if err != nil {
		return
	}
	g.out.Count(fmt.Sprintf("probe-tally:votes=%d,validators-voted=%d", min(nVotes, 9), len(contribs)))
	g.tallies = append(g.tallies, [2]string{fmt.Sprintf("tallyop %s | %s", render(base), cs),
		fmt.Sprintf("%s:%s:%s:%s", res.YesCount, res.AbstainCount, res.NoCount, res.NoWithVetoCount)})
}

func contains(l []string, x string) bool {
	for _, e := range l {
		if e == x {
			return true
		}
	}
	return false
}

func mustAny(c crosschaintypes.ExternalClaim) *codectypes.Any {
	a, err := codectypes.NewAnyWithValue(c)
	if err != nil {
		panic(err)
	}
	return a
}

func must(err error) {
	if err != nil {
		panic(err)
	}
}
