package c01

// round 5: a LYING (or faulty) oracle tells an event differently from the others — one field of the claim's identity differs
// (value / call data / memo / tx origin / amount / sender / cause / name / decimals / a member's power), or the boundary
// between two adjacent identity fields is moved — and its vote is the one that would cross the 66% bar.  C02: an event takes
// effect only if oracles with 66% of the power "have each voted for that very event"; the lie is a different event and must
// sit on an attestation of its own.

import (
	"fmt"

	sdkmath "cosmossdk.io/math"
)

func (w *world) scenarioLyingOracle() {
	lo := w.k.GetLastObservedEventNonce(w.s.Ctx)
	n := lo + 1
	var cands []orcView
	for _, r := range w.registered() {
		// lastEff is the effective last nonce (absent key: lastObserved - 1 ... the oracle's next admissible nonce is n when it is lo)
		if r.o.Online && r.lastEff == lo {
			cands = append(cands, r)
		}
	}
	if len(cands) < 2 {
		w.out.Count("scenario:lying-oracle:too-few-voters")
		return
	}
	w.rng.Shuffle(len(cands), func(i, j int) { cands[i], cands[j] = cands[j], cands[i] })
	total := w.k.GetLastTotalPower(w.s.Ctx)
	req := total.MulRaw(66).QuoRaw(100)
	sum := sdkmath.ZeroInt()
	var honest []orcView
	var liar *orcView
	for i := range cands {
		p := w.power(cands[i].o)
		if sum.Add(p).GTE(req) {
			liar = &cands[i]
			break
		}
		honest = append(honest, cands[i])
		sum = sum.Add(p)
	}
	if liar == nil || len(honest) == 0 {
		w.out.Count("scenario:lying-oracle:no-crossing-voter")
		return
	}
	kind := []string{"c", "c", "c", "p", "r", "o", "c"}[w.rng.Intn(7)]
	h0 := uint64(w.rng.Intn(2))
	if w.rng.Intn(6) == 0 {
		h0 += 4
	}
	lie := uint64(1 + w.rng.Intn(5))
	if kind == "c" && w.rng.Intn(3) == 0 {
		lie = 3 // the field boundary between call data and value moves, their concatenation stays
	}
	hl := w.normH(n, h0+8*lie, w.spec(n, h0, kind))
	if lieOf(hl) == 0 {
		w.out.Count("scenario:lying-oracle:no-lie-for-this-claim-type")
		return
	}
	w.out.Count(fmt.Sprintf("scenario:lying-oracle:%s:lie=%d", w.spec(n, h0, kind).kind[:1], lieOf(hl)))
	if sum.Add(w.power(liar.o)).Equal(req) {
		w.out.Count("scenario:lying-oracle:liar-reaches-exactly-the-bar")
	}
	lb := w.bridgerID[liar.o.BridgerAddress]
	liarFirst := w.rng.Intn(2) == 0
	if liarFirst {
		w.opClaim(lb, lb, n, hl, kind)
	}
	for _, r := range honest {
		b := w.bridgerID[r.o.BridgerAddress]
		w.opClaim(b, b, n, h0, kind)
	}
	if !liarFirst {
		w.opClaim(lb, lb, n, hl, kind)
	}
	if w.k.GetLastObservedEventNonce(w.s.Ctx) == lo {
		w.out.Count("scenario:lying-oracle:not-observed(as it must)")
	} else {
		w.out.Count("scenario:lying-oracle:observed(votes cast earlier for the base claim completed the quorum, or a violation)")
	}
	// the others finish the event (or not)
	if w.rng.Intn(2) == 0 {
		for _, r := range w.registered() {
			if r.o.Online && r.lastEff == lo && w.k.GetLastObservedEventNonce(w.s.Ctx) == lo {
				b := w.bridgerID[r.o.BridgerAddress]
				w.opClaim(b, b, n, h0, kind)
			}
		}
	}
}
