package c01

// C01 / C02 correspondence + monitors.
//
// Drives the REAL in-process fxcore app (real bank, staking, distribution, EVM): several really bonded oracles of the
// real eth / bsc / tron crosschain keepers, every op through the real message router (ValidateBasic + per-message cache
// context as baseapp does), block boundaries through real FinalizeBlock/Commit, deferred execution through the real
// crosschain precompile (EVM call).  After every op one canonical observation line (result kind, lastObserved, total
// power, per-oracle last nonce, oracle table, bridger / external indexes, proposal list, attestation table with votes,
// pending keys) is written for the Lean model driver to reproduce, and the property monitors are evaluated directly on
// the real state.  A transaction-level stream (signed transactions through ante + FinalizeBlock) checks who must sign a
// claim and whose vote it records.

import (
	"bytes"
	"encoding/hex"
	"errors"
	"fmt"
	"math/big"
	"math/rand"
	"os"
	"path/filepath"
	"sort"
	"strconv"
	"strings"
	"testing"
	"time"

	sdkmath "cosmossdk.io/math"
	storetypes "cosmossdk.io/store/types"
	abci "github.com/cometbft/cometbft/abci/types"
	tenderminttypes "github.com/cometbft/cometbft/proto/tendermint/types"
	tmtime "github.com/cometbft/cometbft/types/time"
	clienttx "github.com/cosmos/cosmos-sdk/client/tx"
	codectypes "github.com/cosmos/cosmos-sdk/codec/types"
	cryptocodec "github.com/cosmos/cosmos-sdk/crypto/codec"
	cryptotypes "github.com/cosmos/cosmos-sdk/crypto/types"
	sdk "github.com/cosmos/cosmos-sdk/types"
	"github.com/cosmos/cosmos-sdk/types/tx/signing"
	authsigning "github.com/cosmos/cosmos-sdk/x/auth/signing"
	authtypes "github.com/cosmos/cosmos-sdk/x/auth/types"
	govtypes "github.com/cosmos/cosmos-sdk/x/gov/types"
	slashingtypes "github.com/cosmos/cosmos-sdk/x/slashing/types"
	"github.com/ethereum/go-ethereum/common"

	"github.com/functionx/fx-core/v8/testutil/helpers"
	fxtypes "github.com/functionx/fx-core/v8/types"
	crosschainkeeper "github.com/functionx/fx-core/v8/x/crosschain/keeper"
	crosschaintypes "github.com/functionx/fx-core/v8/x/crosschain/types"

	"fxverif/harness/hx"
)

const (
	oracleBase  = 1
	bridgerBase = 101
	extBase     = 201
)

type claimSpec struct {
	kind    string // "p" (send-to-fx) | "c" (bridge call) | "o" | "s:<ids>"
	members []int
	token   string
	// deferred claims: where their effects land (measured after every op: ex=)
	recv     sdk.AccAddress // send-to-fx receiver (fresh per claim)
	contract common.Address // bridge-call target (fresh per claim; code is installed by the exec op)
	refund   string         // bridge-call refund address (external format)
	// round 4: the real objects a claim refers to
	batchToken string // send-to-external (batch executed) claim: token contract and nonce of a real batch (or of none)
	batchNonce uint64
	outNonce   uint64 // bridge-call-result claim: nonce of a real outgoing bridge call (0: an unknown one)
	realSet    bool   // oracle-set claim built from the latest stored oracle set
	setNonce   uint64
	setMembers []crosschaintypes.BridgeValidator
}

// callNode is one `executeClaim(chain, n)` call of an exec op: the call the harness sends (root) or a call the called-back
// contract of the parent makes (kids, in order).  o: 'o' handler ok, 'r' contract call reverts -> refund, 'f' handler error.
type callNode struct {
	n    uint64
	o    byte
	kids []*callNode
}

func (c *callNode) forest() string {
	var sb strings.Builder
	sb.WriteByte('[')
	for i, k := range c.kids {
		if i > 0 {
			sb.WriteByte(',')
		}
		fmt.Fprintf(&sb, "%d:%c%s", k.n, k.o, k.forest())
	}
	sb.WriteByte(']')
	return sb.String()
}

func (c *callNode) size() int {
	n := 1
	for _, k := range c.kids {
		n += k.size()
	}
	return n
}

func (c *callNode) depth() int {
	d := 0
	for _, k := range c.kids {
		if x := k.depth(); x > d {
			d = x
		}
	}
	return d + 1
}

// parseForest parses `[n:o[...],...]`
func parseForest(s string) ([]*callNode, string, bool) {
	if len(s) == 0 || s[0] != '[' {
		return nil, s, false
	}
	s = s[1:]
	var out []*callNode
	if len(s) > 0 && s[0] == ']' {
		return out, s[1:], true
	}
	for {
		i := 0
		for i < len(s) && s[i] >= '0' && s[i] <= '9' {
			i++
		}
		if i == 0 || i+1 >= len(s) || s[i] != ':' {
			return nil, s, false
		}
		n, _ := strconv.ParseUint(s[:i], 10, 64)
		node := &callNode{n: n, o: s[i+1]}
		kids, rest, ok := parseForest(s[i+2:])
		if !ok {
			return nil, s, false
		}
		node.kids = kids
		out = append(out, node)
		s = rest
		if len(s) == 0 {
			return nil, s, false
		}
		if s[0] == ',' {
			s = s[1:]
			continue
		}
		if s[0] == ']' {
			return out, s[1:], true
		}
		return nil, s, false
	}
}

const (
	callAmount = 1000 // bridged amount of every bridge-call claim (module token)
	callGas    = 400_000 // gas a re-entrant contract gives to each executeClaim call
)

type world struct {
	t   *testing.T
	s   *hx.Suite
	out *hx.Out
	rng *rand.Rand

	chain string
	k     crosschainkeeper.Keeper
	key   storetypes.StoreKey
	gov   string

	oracles     []sdk.AccAddress
	oracleKeys  []cryptotypes.PrivKey // round 4: registry messages can be delivered as transactions signed by the oracle
	bridgers    []sdk.AccAddress
	bridgerKeys []cryptotypes.PrivKey
	exts        []string
	oracleID    map[string]int
	bridgerID   map[string]int
	extID       map[string]int

	hashID  map[string]int // claim hash hex -> id chosen by the op
	specs   map[[2]uint64]claimSpec
	fxToken string
	sender  string
	recv    sdk.AccAddress
	caller  common.Address
	// a module-owned bridge token of this chain (bridged amounts of bridge-call claims): external contract, ERC-20
	modToken string
	modErc20 common.Address
	exCache  string
	exDirty  bool
	lastObs  []obsEvent // `observation` events of the last routed message
	touched  map[common.Address]bool // bridge-call targets whose claim was ever parked
	touchedCode map[common.Address]bool // bridge-call targets that carry code
	former      map[int][]int           // oracle id -> bridger ids it was registered with earlier (edit-bridger, unbond)

	pr        sdkmath.Int
	threshold sdkmath.Int
	multiple  int64

	// monitor state
	prevLo     uint64
	observedAt map[uint64]string // nonce -> hash hex of the observed attestation
	executed   map[uint64]bool
	rebonded   map[int]bool
	reported   map[string]bool
	unbonded   map[int]bool
	// round 3
	votedH     map[string]map[uint64]uint64 // oracle address -> event nonce -> id (content + reported height) of the claim it voted for
	curH       uint64                       // id of the claim the current op submits
	curClaim   bool
	curFP      string // the whole claim the current op submits (without the submitting bridger)
	lostRefund map[uint64]int64 // refund records (outgoing bridge calls) of event nonces that a genesis export/import dropped
	saved      *savedWorld
	// round 4
	user      sdk.AccAddress  // sends transfers into the outgoing pool
	batchSeq  int64
	asTx      bool // the next bond / add-delegate / unbond op is delivered as a signed transaction in a block of its own
	lostCalls map[[2]uint64]bool // result claims whose outgoing bridge calls a genesis export / import dropped
	consumed  map[[2]uint64]bool // result claims whose outgoing bridge call was consumed by their execution
	// round 5
	sender2 string               // another external account (lying bridgers report it as sender / tx origin)
	fp      map[[2]uint64]string // (event nonce, claim id) -> the whole claim as submitted, without the submitting bridger
}

// savedWorld: what `save` remembers (small-scope enumeration): the store branch point and the monitor state
type savedWorld struct {
	ctx         sdk.Context
	prevLo      uint64
	observedAt  map[uint64]string
	executed    map[uint64]bool
	reported    map[string]bool
	votedH      map[string]map[uint64]uint64
	hashID      map[string]int
	specs       map[[2]uint64]claimSpec
	touched     map[common.Address]bool
	touchedCode map[common.Address]bool
	exCache     string
	exDirty     bool
}

func keeperOf(s *hx.Suite, chain string) crosschainkeeper.Keeper {
	switch chain {
	case "eth":
		return s.App.EthKeeper
	case "bsc":
		return s.App.BscKeeper
	case "tron":
		return s.App.TronKeeper
	}
	panic("chain " + chain)
}

func newWorld(t *testing.T, s *hx.Suite, out *hx.Out, rng *rand.Rand, chain string, nO int, thrUnits, mult int64, slashFrac string, window uint64) *world {
	w := &world{t: t, s: s, out: out, rng: rng, chain: chain, k: keeperOf(s, chain), key: s.App.GetKey(chain),
		gov:      authtypes.NewModuleAddress(govtypes.ModuleName).String(),
		oracleID: map[string]int{}, bridgerID: map[string]int{}, extID: map[string]int{}, hashID: map[string]int{},
		specs: map[[2]uint64]claimSpec{}, observedAt: map[uint64]string{}, executed: map[uint64]bool{},
		fp: map[[2]uint64]string{}, lostCalls: map[[2]uint64]bool{}, consumed: map[[2]uint64]bool{}, rebonded: map[int]bool{}, reported: map[string]bool{}, unbonded: map[int]bool{}, votedH: map[string]map[uint64]uint64{}, lostRefund: map[uint64]int64{}, touched: map[common.Address]bool{}, touchedCode: map[common.Address]bool{}, former: map[int][]int{}, pr: sdk.DefaultPowerReduction, multiple: mult}
	w.threshold = w.pr.MulRaw(thrUnits)
	rich := sdk.NewCoin(fxtypes.DefaultDenom, w.pr.MulRaw(100_000_000))
	poor := -1 // one oracle account that can pay the minimum stake twice but not more: larger bonds / add-delegates fail in the bank
	if nO >= 3 && rng.Intn(2) == 0 {
		poor = nO - 1
	}
	for i := 0; i < nO; i++ {
		opk := helpers.NewPriKey()
		a := sdk.AccAddress(opk.PubKey().Address())
		w.oracleKeys = append(w.oracleKeys, opk)
		if i == poor {
			s.MintToken(a, sdk.NewCoin(fxtypes.DefaultDenom, w.threshold.MulRaw(2)))
			w.oracles = append(w.oracles, a)
			w.oracleID[a.String()] = oracleBase + i
			out.Count("world:underfunded-oracle")
			continue
		}
		s.MintToken(a, rich)
		w.oracles = append(w.oracles, a)
		w.oracleID[a.String()] = oracleBase + i
	}
	for i := 0; i < nO+3; i++ {
		pk := helpers.NewPriKey()
		a := sdk.AccAddress(pk.PubKey().Address())
		s.MintToken(a, rich)
		w.bridgers = append(w.bridgers, a)
		w.bridgerKeys = append(w.bridgerKeys, pk)
		w.bridgerID[a.String()] = bridgerBase + i
	}
	for i := 0; i < nO+2; i++ {
		e := helpers.GenExternalAddr(chain)
		w.exts = append(w.exts, e)
		w.extID[e] = extBase + i
	}
	w.fxToken = helpers.GenExternalAddr(chain)
	w.sender = helpers.GenExternalAddr(chain)
	w.sender2 = helpers.GenExternalAddr(chain)
	w.recv = helpers.GenAccAddress()
	w.caller = helpers.GenHexAddress()
	s.MintToken(w.caller.Bytes(), rich)

	// staking unbonding time of two block intervals of the harness clock, so that an undelegation made by a governance
	// removal matures after a few blocks (UnbondedOracle refuses while an unbonding delegation exists)
	if sp, err := s.App.StakingKeeper.GetParams(s.Ctx); err == nil {
		sp.UnbondingTime = 2 * blockInterval
		if err = s.App.StakingKeeper.SetParams(s.Ctx, sp); err != nil {
			t.Fatalf("staking SetParams: %v", err)
		}
	}
	p := w.k.GetParams(s.Ctx)
	p.DelegateThreshold = crosschaintypes.NewDelegateAmount(w.threshold)
	p.DelegateMultiple = mult
	p.SlashFraction = sdkmath.LegacyMustNewDecFromStr(slashFrac)
	p.SignedWindow = window
	if err := w.k.SetParams(s.Ctx, &p); err != nil {
		t.Fatalf("SetParams: %v", err)
	}
	// a bridge token for FX so that some deferred SendToFx claims can execute successfully
	_ = w.k.AddBridgeTokenExecuted(s.Ctx, &crosschaintypes.MsgBridgeTokenClaim{TokenContract: w.fxToken, Name: "Function X",
		Symbol: fxtypes.DefaultDenom, Decimals: 18, ChainName: chain})
	s.MintTokenToModule(chain, sdk.NewCoin(fxtypes.DefaultDenom, w.pr.MulRaw(1000)))
	// a module-owned token bridged from this chain, for bridge-call claims; the callback sender pays `value` = 1 per callback
	w.modToken = helpers.GenExternalAddr(chain)
	sym := "TK" + strings.ToUpper(chain)
	md := fxtypes.GetCrossChainMetadataManyToOne("Token "+sym, sym, 18, crosschaintypes.NewBridgeDenom(chain, w.modToken))
	pair, perr := s.App.Erc20Keeper.RegisterNativeCoin(s.Ctx, md)
	if perr != nil {
		t.Fatalf("RegisterNativeCoin: %v", perr)
	}
	w.modErc20 = pair.GetERC20Contract()
	if err := w.k.AddBridgeTokenExecuted(s.Ctx, &crosschaintypes.MsgBridgeTokenClaim{TokenContract: w.modToken, Name: "Token " + sym,
		Symbol: sym, Decimals: 18, ChainName: chain}); err != nil {
		t.Fatalf("AddBridgeTokenExecuted: %v", err)
	}
	s.MintToken(w.k.GetCallbackFrom().Bytes(), sdk.NewCoin(fxtypes.DefaultDenom, sdkmath.NewInt(1_000_000)))
	w.exDirty = true
	w.prevLo = w.k.GetLastObservedEventNonce(s.Ctx)
	frac := p.SlashFraction.BigInt() // Dec mantissa
	out.Reset(w.threshold.String(), strconv.FormatInt(mult, 10), frac.String(), chain, strconv.FormatUint(window, 10), strconv.Itoa(nO))
	return w
}

// ---------------------------------------------------------------------------------------------------------
// result kinds

func classify(err error) string {
	switch {
	case err == nil:
		return "ok"
	case errors.Is(err, crosschaintypes.ErrNoFoundOracle):
		return "err:no-oracle"
	case errors.Is(err, crosschaintypes.ErrOracleNotOnLine):
		return "err:offline"
	case errors.Is(err, crosschaintypes.ErrNonContiguousEventNonce):
		return "err:non-contiguous"
	case errors.Is(err, crosschaintypes.ErrDelegateAmountBelowMinimum):
		return "err:below-min"
	case errors.Is(err, crosschaintypes.ErrDelegateAmountAboveMaximum):
		return "err:above-max"
	case errors.Is(err, crosschaintypes.ErrInvalid):
		return "err:invalid"
	}
	return "err:dep"
}

// route runs one message as baseapp does: ValidateBasic, then the routed handler in a cache context that is written
// only on success.
func (w *world) route(m sdk.Msg, skipVB ...bool) (res string, err error) {
	if v, ok := m.(sdk.HasValidateBasic); ok && len(skipVB) == 0 {
		if e := v.ValidateBasic(); e != nil {
			return "err:validate-basic", e
		}
	}
	cctx, write := w.s.Ctx.CacheContext()
	var evs sdk.Events
	r := hx.Try(func() error {
		if eb, ok := m.(*crosschaintypes.MsgEditBridger); ok && len(skipVB) > 0 {
			// the SDK's routed handler runs ValidateBasic itself; go to the chain's message server
			_, err = crosschainkeeper.NewMsgServerImpl(w.k).EditBridger(cctx, eb)
			return nil
		}
		var sres *sdk.Result
		sres, err = w.s.App.MsgServiceRouter().Handler(m)(cctx, m)
		if sres != nil {
			evs = sres.GetEvents()
		}
		return nil
	})
	if strings.HasPrefix(r, "panic") {
		return r, errors.New(r)
	}
	w.lastObs = w.lastObs[:0]
	if err == nil {
		// `observation` events emitted by the handler (one per event nonce that took effect): nonce / claim hash / handler success
		for _, ev := range evs {
			if ev.Type != crosschaintypes.EventTypeContractEvent {
				continue
			}
			var oe obsEvent
			for _, a := range ev.Attributes {
				switch a.Key {
				case crosschaintypes.AttributeKeyEventNonce:
					oe.nonce, _ = strconv.ParseUint(a.Value, 10, 64)
				case crosschaintypes.AttributeKeyClaimHash:
					oe.hash = a.Value
				case crosschaintypes.AttributeKeyStateSuccess:
					oe.ok = a.Value == "true"
				case sdk.AttributeKeyModule:
					oe.module = a.Value
				}
			}
			if oe.module == w.chain {
				w.lastObs = append(w.lastObs, oe)
			}
		}
		write()
	}
	return classify(err), err
}

type obsEvent struct {
	nonce  uint64
	hash   string
	ok     bool
	module string
}

// evLine: the event nonce / claim-hash id the op made take effect, from the emitted `observation` events ("-" if none);
// the model prints the entry its step appended to the observation log.
func (w *world) evLine() string {
	if len(w.lastObs) == 0 {
		return "-"
	}
	var xs []string
	for _, e := range w.lastObs {
		id, ok := w.hashID[e.hash]
		if !ok {
			id = 900000
		}
		xs = append(xs, fmt.Sprintf("%d/%d", e.nonce, id))
	}
	return strings.Join(xs, "+")
}

// ---------------------------------------------------------------------------------------------------------
// reading the real state

type attView struct {
	nonce    uint64
	hashHex  string
	hid      int
	votes    []string
	observed bool
}

func (w *world) atts() []attView {
	var res []attView
	w.k.IterateAttestationAndClaim(w.s.Ctx, func(att *crosschaintypes.Attestation, claim crosschaintypes.ExternalClaim) bool {
		hh := hex.EncodeToString(claim.ClaimHash())
		id, ok := w.hashID[hh]
		if !ok {
			id = 900000 + len(w.hashID)
		}
		res = append(res, attView{nonce: claim.GetEventNonce(), hashHex: hh, hid: id, votes: append([]string{}, att.Votes...), observed: att.Observed})
		return false
	})
	sort.Slice(res, func(i, j int) bool {
		if res[i].nonce != res[j].nonce {
			return res[i].nonce < res[j].nonce
		}
		return res[i].hid < res[j].hid
	})
	return res
}

func joinOr(xs []string, sep string) string {
	if len(xs) == 0 {
		return "-"
	}
	return strings.Join(xs, sep)
}

func (w *world) oid(addr string) int {
	if id, ok := w.oracleID[addr]; ok {
		return id
	}
	return 999
}

func (w *world) observe() string {
	ctx := w.s.Ctx
	var ln, ors, bb, be, prop, at, pend []string
	type kv struct {
		id int
		s  string
	}
	sortKV := func(xs []kv) []string {
		sort.Slice(xs, func(i, j int) bool { return xs[i].id < xs[j].id })
		var out []string
		for _, x := range xs {
			out = append(out, x.s)
		}
		return out
	}
	var tmp []kv
	for _, p := range hx.RawPrefix(ctx, w.key, crosschaintypes.LastEventNonceByOracleKey) {
		id := w.oid(sdk.AccAddress(p[0][1:]).String())
		tmp = append(tmp, kv{id, fmt.Sprintf("%d:%d", id, sdk.BigEndianToUint64(p[1]))})
	}
	ln = sortKV(tmp)
	tmp = nil
	for _, o := range w.k.GetAllOracles(ctx, false) {
		id := w.oid(o.OracleAddress)
		on := 0
		if o.Online {
			on = 1
		}
		tmp = append(tmp, kv{id, fmt.Sprintf("%d:%d:%d:%s:%d:%d", id, w.bridgerID[o.BridgerAddress], w.extID[o.ExternalAddress], o.DelegateAmount.String(), on, o.SlashTimes)})
	}
	ors = sortKV(tmp)
	tmp = nil
	for _, p := range hx.RawPrefix(ctx, w.key, crosschaintypes.OracleAddressByBridgerKey) {
		id := w.bridgerID[sdk.AccAddress(p[0][1:]).String()]
		tmp = append(tmp, kv{id, fmt.Sprintf("%d:%d", id, w.oid(sdk.AccAddress(p[1]).String()))})
	}
	bb = sortKV(tmp)
	tmp = nil
	for _, p := range hx.RawPrefix(ctx, w.key, crosschaintypes.OracleAddressByExternalKey) {
		id := w.extID[string(p[0][1:])]
		tmp = append(tmp, kv{id, fmt.Sprintf("%d:%d", id, w.oid(sdk.AccAddress(p[1]).String()))})
	}
	be = sortKV(tmp)
	tmp = nil
	po, _ := w.k.GetProposalOracle(ctx)
	for _, a := range po.Oracles {
		tmp = append(tmp, kv{w.oid(a), strconv.Itoa(w.oid(a))})
	}
	prop = sortKV(tmp)
	for _, a := range w.atts() {
		var vs []string
		for _, v := range a.votes {
			vs = append(vs, strconv.Itoa(w.oid(v)))
		}
		ob := 0
		if a.observed {
			ob = 1
		}
		at = append(at, fmt.Sprintf("%d/%d/%s/%d", a.nonce, a.hid, joinOr(vs, "."), ob))
	}
	for _, p := range hx.RawPrefix(ctx, w.key, crosschaintypes.PendingExecuteClaimKey) {
		pend = append(pend, strconv.FormatUint(sdk.BigEndianToUint64(p[0][1:]), 10))
	}
	ev := w.evLine()
	w.lastObs = w.lastObs[:0]
	return fmt.Sprintf("lo=%d tp=%s ln=%s or=%s bb=%s be=%s prop=%s atts=%s pend=%s ex=%s ev=%s",
		w.k.GetLastObservedEventNonce(ctx), w.k.GetLastTotalPower(ctx).String(), joinOr(ln, ","), joinOr(ors, ","), joinOr(bb, ","),
		joinOr(be, ","), joinOr(prop, ","), joinOr(at, ";"), joinOr(pend, ","), w.effectsLine(), ev)
}

// effects measures, on the real state, how many times the deferred effects of every event nonce are in force:
//   - send-to-fx claim (n,h): FX balance of its (fresh) receiver / bridged amount;
//   - bridge-call claim (n,h): ERC-20 balance of its (fresh) target / bridged amount  (credits that were kept)
//     + outgoing bridge-call records created for event nonce n                       (credits that were refunded).
func (w *world) effects() map[uint64]int64 {
	ctx := w.s.Ctx
	res := map[uint64]int64{}
	for k, sp := range w.specs {
		switch sp.kind {
		case "p":
			b := w.s.App.BankKeeper.GetBalance(ctx, sp.recv, fxtypes.DefaultDenom).Amount
			if b.IsPositive() {
				res[k[0]] += b.QuoRaw(int64(1 + k[1]%4)).Int64()
			}
		case "c":
			if !w.touched[sp.contract] {
				continue
			}
			b, err := w.s.App.EvmKeeper.ERC20BalanceOf(ctx, w.modErc20, sp.contract)
			if err != nil {
				w.t.Fatalf("ERC20BalanceOf: %v", err)
			}
			if b.Sign() > 0 {
				res[k[0]] += new(big.Int).Quo(b, big.NewInt(callAmount)).Int64()
			}
		case "r":
			// result claim of a real outgoing bridge call: its effect is that the record is consumed
			// (sticky: after a genesis import the id counter of outgoing bridge calls can hand out a consumed nonce again)
			if sp.outNonce != 0 && !w.lostCalls[k] && (w.consumed[k] || !w.k.HasOutgoingBridgeCall(ctx, sp.outNonce)) {
				res[k[0]]++
				w.consumed[k] = true
			}
		}
	}
	w.k.IterateOutgoingBridgeCalls(ctx, func(o *crosschaintypes.OutgoingBridgeCall) bool {
		if o.EventNonce > 0 {
			res[o.EventNonce]++
		}
		return false
	})
	for n, c := range w.lostRefund {
		res[n] += c
	}
	return res
}

// effectsLine: `nonce:times,...` ("-" when nothing is in force); ERC-20 balances are re-read only after ops that can
// move them (exec, and claims that advanced the last observed nonce).
func (w *world) effectsLine() string {
	if !w.exDirty {
		return w.exCache
	}
	m := w.effects()
	var ks []uint64
	for k := range m {
		ks = append(ks, k)
	}
	sort.Slice(ks, func(i, j int) bool { return ks[i] < ks[j] })
	var xs []string
	for _, k := range ks {
		xs = append(xs, fmt.Sprintf("%d:%d", k, m[k]))
		if m[k] > 1 {
			w.violate("C01", fmt.Sprintf("a claim parked for later execution ran its effects more than once: effects of event nonce %d are in force %d times", k, m[k]))
		}
		if _, ok := w.observedAt[k]; !ok && m[k] > 0 && !w.pendingNow(k) {
			// (observedAt is filled by monitors() after the op that observed it; an exec in the same op cannot precede it)
			w.violate("C01", fmt.Sprintf("deferred effects of event nonce %d are in force although it was never observed", k))
		}
		if m[k] > 0 && w.pendingNow(k) {
			w.violate("C01", fmt.Sprintf("deferred effects of event nonce %d are in force while its claim is still parked (it can run again)", k))
		}
	}
	w.exCache = joinOr(xs, ",")
	w.exDirty = false
	return w.exCache
}

func (w *world) pendingNow(n uint64) bool {
	_, ok := w.k.GetPendingExecuteClaim(w.s.Ctx, n)
	return ok
}

// ---------------------------------------------------------------------------------------------------------
// monitors (the property, stated directly on the real state)

type pre struct {
	observed map[string]bool // nonce/hash of observed attestations before the op
}

func (w *world) snapshot() pre {
	p := pre{observed: map[string]bool{}}
	for _, a := range w.atts() {
		if a.observed {
			p.observed[fmt.Sprintf("%d/%s", a.nonce, a.hashHex)] = true
		}
	}
	return p
}

func (w *world) power(o crosschaintypes.Oracle) sdkmath.Int { return o.DelegateAmount.Quo(w.pr) }

// the harness serves two properties; a monitor raises a violation only for the property it states (spec env C01_PROP),
// for the other one it is only counted.
var prop = func() string {
	if v := os.Getenv("C01_PROP"); v != "" {
		return v
	}
	return "C01"
}()

func (w *world) violateWith(props string, desc string, replay []string) {
	if strings.Contains(props, prop) {
		w.out.ViolateWith(desc, replay)
	}
}

func (w *world) violate(props string, desc string) {
	if strings.Contains(props, prop) {
		w.out.Violate(desc)
	} else {
		w.out.Count("other-property-monitor:" + strings.SplitN(desc, ":", 2)[0])
	}
}

func (w *world) monitors(before pre) {
	ctx := w.s.Ctx
	lo := w.k.GetLastObservedEventNonce(ctx)
	if lo != w.prevLo && lo != w.prevLo+1 {
		w.violate("C01", fmt.Sprintf("last observed event nonce moved from %d to %d (not by exactly one)", w.prevLo, lo))
	}
	total := w.k.GetLastTotalPower(ctx)
	online := sdkmath.ZeroInt()
	for _, o := range w.k.GetAllOracles(ctx, true) {
		online = online.Add(w.power(o))
	}
	if total.LT(online) {
		w.violate("C02", fmt.Sprintf("recorded total power %s is lower than the combined power %s of the online oracles", total, online))
	}
	// the bridger index: every entry must name the bridger registered in the record of the oracle it points at (otherwise
	// an address that is not the oracle's registered bridger can cast its vote)
	for _, p := range hx.RawPrefix(ctx, w.key, crosschaintypes.OracleAddressByBridgerKey) {
		b := sdk.AccAddress(p[0][1:])
		o, found := w.k.GetOracle(ctx, sdk.AccAddress(p[1]))
		if !found || o.BridgerAddress != b.String() {
			key := "bridger-index/" + b.String()
			if !w.reported[key] {
				w.reported[key] = true
				reg := "none (no such oracle)"
				if found {
					reg = strconv.Itoa(w.bridgerID[o.BridgerAddress])
				}
				w.violate("C01 C02", fmt.Sprintf("bridger index lets bridger %d vote for oracle %d whose registered bridger is %s", w.bridgerID[b.String()], w.oid(sdk.AccAddress(p[1]).String()), reg))
			}
		}
	}
	perNonce := map[uint64]map[string]int{}
	for _, a := range w.atts() {
		m := perNonce[a.nonce]
		if m == nil {
			m = map[string]int{}
			perNonce[a.nonce] = m
		}
		seen := map[string]bool{}
		dup := false
		for _, v := range a.votes {
			m[v]++
			if seen[v] {
				dup = true
			}
			seen[v] = true
		}
		key := fmt.Sprintf("%d/%s", a.nonce, a.hashHex)
		if a.observed && !before.observed[key] {
			// newly observed: exactly the next nonce, only one per nonce, quorum of DISTINCT REGISTERED voters
			if a.nonce != w.prevLo+1 {
				w.violate("C01", fmt.Sprintf("attestation observed at nonce %d while last observed was %d (out of order)", a.nonce, w.prevLo))
			}
			if h, ok := w.observedAt[a.nonce]; ok && h != a.hashHex {
				w.violate("C01", fmt.Sprintf("two different claims observed for event nonce %d", a.nonce))
			}
			if h, ok := w.observedAt[a.nonce]; ok && h == a.hashHex {
				w.violate("C01", fmt.Sprintf("event nonce %d observed twice", a.nonce))
			}
			w.observedAt[a.nonce] = a.hashHex
			sum := sdkmath.ZeroInt()
			for v := range seen {
				if o, found := w.k.GetOracle(ctx, sdk.MustAccAddressFromBech32(v)); found {
					sum = sum.Add(w.power(o))
				}
			}
			req := total.MulRaw(66).QuoRaw(100)
			// ... "have each voted for that very event": the voters whose own claim for this nonce is the claim that takes effect
			// (same content AND same reported external height as the claim of the op that crossed the bar)
			if w.curClaim {
				same := sdkmath.ZeroInt()
				differ := 0
				for v := range seen {
					// (the id AND the whole claim as it was submitted: every field but the submitting bridger)
					if hv, ok := w.votedH[v][a.nonce]; ok && hv == w.curH && w.fp[[2]uint64{a.nonce, hv}] == w.curFP {
						if o, found := w.k.GetOracle(ctx, sdk.MustAccAddressFromBech32(v)); found {
							same = same.Add(w.power(o))
						}
					} else {
						differ++
					}
				}
				if differ > 0 && same.LT(req) {
					w.violate("C02", fmt.Sprintf("attestation observed without a 66%% quorum of oracles that voted for that very event: %d of its %d voters claimed something else for event nonce %d (other content — another value / call data / memo / tx origin / amount / sender … — or other external block height) and were tallied together; power of the voters of the event that took effect %s < required %s of recorded total %s", differ, len(seen), a.nonce, same, req, total))
				}
				if differ == 0 {
					w.out.Count("observed:all-voters-same-event")
				}
			}
			if sum.LT(req) {
				cls := "attestation observed without a 66% quorum of distinct registered oracles"
				if dup {
					cls += " (vote of an oracle that unbonded and re-bonded counted twice)"
				}
				w.violate("C02", fmt.Sprintf("%s: distinct power %s < required %s of recorded total %s", cls, sum, req, total))
			}
			w.out.Count("observed")
			if sum.Equal(req) {
				w.out.Count("observed:power==required")
			} else if sum.Sub(req).LTE(sdkmath.OneInt()) {
				w.out.Count("observed:power==required+1")
			}
			if dup {
				w.out.Count("observed:with-duplicate-votes")
			}
		}
	}
	for n, m := range perNonce {
		for v, c := range m {
			if c > 1 && !w.reported[fmt.Sprintf("%d/%s", n, v)] {
				w.reported[fmt.Sprintf("%d/%s", n, v)] = true
				id := w.oid(v)
				if w.rebonded[id] {
					w.violate("C01", fmt.Sprintf("oracle voted twice for one event nonce after unbond and re-bond (per-oracle last nonce deleted by UnbondedOracle): oracle %d nonce %d", id, n))
				} else {
					w.violate("C01", fmt.Sprintf("oracle voted twice for one event nonce: oracle %d nonce %d", id, n))
				}
			}
		}
	}
	w.prevLo = lo
}

// ---------------------------------------------------------------------------------------------------------
// claims

func (w *world) spec(n, h uint64, wantKind string) claimSpec {
	k := [2]uint64{n, h % 4} // the content of a claim is h%4; h/4 only shifts the external block height it reports
	if sp, ok := w.specs[k]; ok {
		return sp
	}
	sp := claimSpec{kind: wantKind}
	if wantKind == "x" {
		sp.kind = "e"
	}
	if strings.HasPrefix(wantKind, "S:") || strings.HasPrefix(wantKind, "x:") {
		wantKind = "s:" + wantKind[2:]
		sp.kind, sp.realSet = wantKind, true
	}
	if strings.HasPrefix(wantKind, "s:") {
		for _, x := range strings.Split(wantKind[2:], ",") {
			if id, err := strconv.Atoi(x); err == nil && id >= extBase && id < extBase+len(w.exts) {
				sp.members = append(sp.members, id)
			}
		}
		var ids []string
		for _, id := range sp.members {
			ids = append(ids, strconv.Itoa(id))
		}
		sp.kind = "s:" + strings.Join(ids, ",")
	}
	sp.token = helpers.GenExternalAddr(w.chain)
	sp.recv = helpers.GenAccAddress()
	sp.contract = helpers.GenHexAddress()
	sp.refund = helpers.GenExternalAddr(w.chain)
	w.fillSpec(&sp, h)
	w.specs[k] = sp
	return sp
}

func (w *world) mkClaim(n, hid uint64, sp claimSpec, bridger string) crosschaintypes.ExternalClaim {
	c := w.mkBaseClaim(n, hid, sp, bridger)
	if lieOf(hid) != 0 && !w.applyLie(c, n, lieOf(hid)) {
		panic(fmt.Sprintf("claim id %d: lie %d does not apply (ids must be normalised with normH first)", hid, lieOf(hid)))
	}
	w.fp[[2]uint64{n, hid}] = w.fingerprint(c)
	return c
}

// claim ids: h%4 = content, (h/4)%2 = the external height it is reported at is shifted by one, h/8 = how a lying (or faulty)
// bridger tells the same event differently (round 5): see applyLie
func lieOf(h uint64) uint64   { return h / 8 }
func extOf(n, h uint64) uint64 { return 1000 + n + (h/4)%2 }

// normH: the id the claim (n, h) of this spec really has: a lie that does not apply to the claim type leaves the base claim
func (w *world) normH(n, h uint64, sp claimSpec) uint64 {
	if lieOf(h) == 0 {
		return h
	}
	c := w.mkBaseClaim(n, h, sp, "")
	k := lieKinds(c)
	if k == 0 {
		return h % 8
	}
	h = h%8 + 8*((lieOf(h)-1)%k+1) // one id per distinct lie
	if !w.applyLie(c, n, lieOf(h)) {
		return h % 8
	}
	return h
}

// lieKinds: how many different lies applyLie knows for this claim type
func lieKinds(c crosschaintypes.ExternalClaim) uint64 {
	switch c.(type) {
	case *crosschaintypes.MsgBridgeCallClaim:
		return 5
	case *crosschaintypes.MsgBridgeCallResultClaim, *crosschaintypes.MsgBridgeTokenClaim:
		return 2
	case *crosschaintypes.MsgSendToFxClaim, *crosschaintypes.MsgOracleSetUpdatedClaim:
		return 1
	}
	return 0
}

// fingerprint: the whole claim except who submits it (proto bytes with the bridger field blanked)
func (w *world) fingerprint(c crosschaintypes.ExternalClaim) string {
	var bz []byte
	var err error
	switch m := c.(type) {
	case *crosschaintypes.MsgBridgeCallClaim:
		x := *m
		x.BridgerAddress = ""
		bz, err = x.Marshal()
	case *crosschaintypes.MsgBridgeCallResultClaim:
		x := *m
		x.BridgerAddress = ""
		bz, err = x.Marshal()
	case *crosschaintypes.MsgSendToFxClaim:
		x := *m
		x.BridgerAddress = ""
		bz, err = x.Marshal()
	case *crosschaintypes.MsgSendToExternalClaim:
		x := *m
		x.BridgerAddress = ""
		bz, err = x.Marshal()
	case *crosschaintypes.MsgBridgeTokenClaim:
		x := *m
		x.BridgerAddress = ""
		bz, err = x.Marshal()
	case *crosschaintypes.MsgOracleSetUpdatedClaim:
		x := *m
		x.BridgerAddress = ""
		bz, err = x.Marshal()
	}
	if err != nil || bz == nil {
		w.t.Fatalf("fingerprint %T: %v", c, err)
	}
	return fmt.Sprintf("%T/%x", c, bz)
}

// callDataOf: call data of the bridge-call claims of event nonce n: hex that ENDS IN TWO DECIMAL DIGITS (first one non-zero),
// so that the boundary between the data and the value that follows it in the claim identity can be moved
func callDataOf(n uint64) string { return fmt.Sprintf("c0de%02d", 10+n%90) }

// applyLie rewrites the base claim into what a lying bridger submits for the same event nonce: exactly ONE field that is
// part of the claim's identity differs (memo / tx origin / token amount / call data / sender / cause / name / decimals / a
// member's power), or the BOUNDARY between two adjacent identity fields is moved while their concatenation stays the same
// (the tail of the call data becomes the head of the value).  Every lie is a valid message (passes ValidateBasic) and a
// different event: it must never be tallied together with the votes for the base claim.  false: no such lie for this type.
func (w *world) applyLie(c crosschaintypes.ExternalClaim, n, lie uint64) bool {
	switch m := c.(type) {
	case *crosschaintypes.MsgBridgeCallClaim:
		switch (lie - 1) % 5 {
		case 0:
			m.Memo = "6c6965"
		case 1:
			m.TxOrigin = w.sender2
		case 2:
			// data "c0deNN" value 1  ->  data "c0de" value NN1
			if len(m.Data) < 2 || !m.Value.Equal(sdkmath.OneInt()) {
				return false
			}
			tail := m.Data[len(m.Data)-2:]
			v, ok := sdkmath.NewIntFromString(tail + m.Value.String())
			if !ok || tail[0] == '0' {
				return false
			}
			m.Data, m.Value = m.Data[:len(m.Data)-2], v
		case 3:
			m.Amounts = []sdkmath.Int{m.Amounts[0].AddRaw(1)}
		default:
			m.Data += "ff"
		}
		return true
	case *crosschaintypes.MsgBridgeCallResultClaim:
		if (lie-1)%2 == 0 {
			m.TxOrigin = w.sender2
		} else {
			m.Cause += "ee"
		}
		return true
	case *crosschaintypes.MsgSendToFxClaim:
		m.Sender = w.sender2
		return true
	case *crosschaintypes.MsgBridgeTokenClaim:
		if (lie-1)%2 == 0 {
			m.Name = "U"
		} else {
			m.Decimals = 6
		}
		return true
	case *crosschaintypes.MsgOracleSetUpdatedClaim:
		if m.OracleSetNonce != 0 || len(m.Members) == 0 {
			return false // claims about a stored oracle set: whether their handler panics is decided on the spec
		}
		ms := append([]crosschaintypes.BridgeValidator{}, m.Members...)
		ms[0].Power += 500
		m.Members = ms
		return true
	}
	return false
}

func (w *world) mkBaseClaim(n, hid uint64, sp claimSpec, bridger string) crosschaintypes.ExternalClaim {
	ext := extOf(n, hid) // a bridger that saw the event at another external height (lagging node, re-org) reports another event
	h := hid % 4
	switch {
	case sp.kind == "r":
		// result of an outgoing bridge call that does not exist: parked like the others, its deferred handler fails
		// (round 4: or of a real one — then the deferred execution succeeds and consumes the record)
		out := 900000 + n
		if sp.outNonce != 0 {
			out = sp.outNonce
		}
		return &crosschaintypes.MsgBridgeCallResultClaim{ChainName: w.chain, BridgerAddress: bridger, EventNonce: n, BlockHeight: ext,
			Nonce: out, TxOrigin: w.sender, Success: h%2 == 0, Cause: fmt.Sprintf("%02x", h)}
	case sp.kind == "e":
		return &crosschaintypes.MsgSendToExternalClaim{EventNonce: n, BlockHeight: ext, BatchNonce: sp.batchNonce, TokenContract: sp.batchToken,
			BridgerAddress: bridger, ChainName: w.chain}
	case sp.kind == "p":
		token := sp.token // unknown token: the deferred handler fails
		if h%2 == 0 {
			token = w.fxToken
		}
		return &crosschaintypes.MsgSendToFxClaim{EventNonce: n, BlockHeight: ext, TokenContract: token, Amount: sdkmath.NewInt(int64(1 + h)),
			Sender: w.sender, Receiver: sp.recv.String(), BridgerAddress: bridger, ChainName: w.chain}
	case sp.kind == "c":
		// bridge call to a (possibly re-entrant) contract: the module token when h is even, an unknown token (the deferred
		// handler fails before the callback) when h is odd; the callback carries value 1
		token := sp.token
		if h%2 == 0 {
			token = w.modToken
		}
		return &crosschaintypes.MsgBridgeCallClaim{ChainName: w.chain, BridgerAddress: bridger, EventNonce: n, BlockHeight: ext,
			Sender: w.sender, Refund: sp.refund, TokenContracts: []string{token}, Amounts: []sdkmath.Int{sdkmath.NewInt(callAmount)},
			To: crosschaintypes.ExternalAddrToStr(w.chain, sp.contract.Bytes()), Data: callDataOf(n), Value: sdkmath.OneInt(), Memo: "", TxOrigin: w.sender}
	case sp.kind == "o":
		token := sp.token
		if h%3 == 2 || (h == 0 && n%5 == 0) {
			token = w.modToken // already registered: the event is observed, its handler fails ("bridge token is exist")
		}
		return &crosschaintypes.MsgBridgeTokenClaim{EventNonce: n, BlockHeight: ext, TokenContract: token, Name: "T", Symbol: fmt.Sprintf("S%dX%d", n, h),
			Decimals: 18, BridgerAddress: bridger, ChainName: w.chain}
	default:
		var ms []crosschaintypes.BridgeValidator
		for _, id := range sp.members {
			ms = append(ms, crosschaintypes.BridgeValidator{Power: 1000 + h, ExternalAddress: w.exts[id-extBase]})
		}
		if sp.setNonce != 0 {
			ms = sp.setMembers
		}
		return &crosschaintypes.MsgOracleSetUpdatedClaim{EventNonce: n, BlockHeight: ext, OracleSetNonce: sp.setNonce, Members: ms, BridgerAddress: bridger, ChainName: w.chain}
	}
}

func (w *world) bridgerAddr(id int) (sdk.AccAddress, bool) {
	if id >= bridgerBase && id < bridgerBase+len(w.bridgers) {
		return w.bridgers[id-bridgerBase], true
	}
	// round 4: an ORACLE account used where a bridger is expected (a claim signed with the oracle key itself)
	if id >= oracleBase && id < oracleBase+len(w.oracles) {
		return w.oracles[id-oracleBase], true
	}
	return nil, false
}

func (w *world) oracleAddr(id int) (sdk.AccAddress, bool) {
	if id >= oracleBase && id < oracleBase+len(w.oracles) {
		return w.oracles[id-oracleBase], true
	}
	return nil, false
}

// ---------------------------------------------------------------------------------------------------------
// ops (each emits exactly one op line + observation line)

func b2i(b bool) int {
	if b {
		return 1
	}
	return 0
}

func (w *world) opClaim(wrapper, inner int, n, h uint64, kind string) string {
	wa, ok1 := w.bridgerAddr(wrapper)
	ia, ok2 := w.bridgerAddr(inner)
	if !ok1 || !ok2 || n == 0 {
		return "skip"
	}
	sp := w.spec(n, h, kind)
	if strings.HasPrefix(sp.kind, "s:") && len(sp.members) == 0 {
		return "skip"
	}
	h = w.normH(n, h, sp)
	if lieOf(h) != 0 {
		w.out.Count(fmt.Sprintf("claim:lying-variant:%s:lie=%d", sp.kind[:1], lieOf(h)))
	}
	claim := w.mkClaim(n, h, sp, ia.String())
	w.hashID[hex.EncodeToString(claim.ClaimHash())] = int(h)
	anyv, err := codectypes.NewAnyWithValue(claim)
	if err != nil {
		w.t.Fatal(err)
	}
	// pre-state for the admission monitor
	oa, found := w.k.GetOracleAddrByBridgerAddr(w.s.Ctx, ia)
	admissible := false
	if found {
		if o, f := w.k.GetOracle(w.s.Ctx, oa); f && o.Online && o.BridgerAddress == ia.String() {
			admissible = true
		}
	}
	// the oracle's next admissible nonce, computed from the raw store (absent key: lastObserved-1, floor 0)
	var expect uint64
	if found {
		if bz := w.s.Ctx.KVStore(w.key).Get(crosschaintypes.GetLastEventNonceByOracleKey(oa)); len(bz) > 0 {
			expect = sdk.BigEndianToUint64(bz) + 1
		} else if lo := w.k.GetLastObservedEventNonce(w.s.Ctx); lo >= 1 {
			expect = lo
		} else {
			expect = 1
		}
	}
	before := w.snapshot()
	nAtts := len(w.atts())
	w.curH, w.curClaim, w.curFP = h, true, w.fingerprint(claim)
	defer func() { w.curClaim = false }()
	label := w.kindLabel(sp)
	obsBefore := ""
	if label[0] == 'x' {
		obsBefore = w.observe()
	}
	res, _ := w.route(&crosschaintypes.MsgClaim{ChainName: w.chain, BridgerAddress: wa.String(), Claim: anyv})
	if strings.HasPrefix(res, "panic") {
		// the handler panicked inside TryAttestation: baseapp recovers it, the message fails as a whole
		w.out.Count("claim:handler-panic:" + label[:1])
		if _, seen := w.out.Stats.Extra["claim-panic-sample"]; !seen {
			w.out.Stats.Extra["claim-panic-sample"] = res
		}
		if label[0] != 'x' {
			w.out.Count("claim:UNEXPECTED-handler-panic")
		}
		res = "panic"
		if now := w.observe(); obsBefore != "" && now != obsBefore {
			w.violate("C01 C02", "a claim whose handler panicked left a trace in the module state")
		}
	}
	if res == "ok" && found {
		m := w.votedH[oa.String()]
		if m == nil {
			m = map[uint64]uint64{}
			w.votedH[oa.String()] = m
		}
		if old, ok := m[n]; ok && old != h {
			w.violate("C01", fmt.Sprintf("oracle voted for two different claims of one event nonce: oracle %d nonce %d", w.oid(oa.String()), n))
		}
		m[n] = h
		if h >= 4 {
			w.out.Count("claim:accepted-with-deviating-external-height")
		}
	}
	if len(w.atts()) < nAtts {
		w.out.Count("claim:pruned-attestations")
	}
	if lo2 := w.k.GetLastObservedEventNonce(w.s.Ctx); lo2 != w.prevLo {
		w.out.Count("observed:claim-kind:" + label[:1])
		if label[0] == 'x' && res == "ok" {
			// the theorem `panicking_handler_never_observes`, stated on the real state
			what := "its batch is not in the store (never built, already executed, cancelled or timed out)"
			if strings.HasPrefix(label, "x:") {
				what = "it contradicts the stored oracle set of its nonce"
			}
			w.violate("C01", fmt.Sprintf("event nonce %d took effect although its handler has nothing it can apply: %s — such an event must not be observable (an event takes effect exactly once, with its effects)", n, what))
		}
		if sp.setNonce != 0 {
			w.out.Count("observed:oracle-set-claim-with-real-nonce")
		}
		for k, s2 := range w.specs {
			if s2.kind == "c" && k[0] <= lo2 {
				w.touched[s2.contract] = true
			}
		}
		w.exDirty = true
	}
	if res == "ok" && found {
		if n != expect {
			w.violate("C01", fmt.Sprintf("claim accepted for event nonce %d although the oracle's next nonce is %d (skipped or repeated a nonce)", n, expect))
		}
		if bz := w.s.Ctx.KVStore(w.key).Get(crosschaintypes.GetLastEventNonceByOracleKey(oa)); sdk.BigEndianToUint64(bz) != n {
			w.violate("C01", fmt.Sprintf("accepted claim for nonce %d did not move the oracle's last event nonce to it", n))
		}
	}
	// event level: an event nonce takes effect at most once per message, exactly when the last observed nonce moved, and
	// it is the next nonce
	{
		lo2 := w.k.GetLastObservedEventNonce(w.s.Ctx)
		if len(w.lastObs) > 1 {
			w.violate("C01", fmt.Sprintf("one claim message made %d events take effect (observation events)", len(w.lastObs)))
		}
		for _, e := range w.lastObs {
			if e.nonce != w.prevLo+1 {
				w.violate("C01", fmt.Sprintf("observation event for event nonce %d while the last observed nonce was %d (out of order)", e.nonce, w.prevLo))
			}
			if !e.ok {
				w.out.Count("observed:handler-failed")
			}
		}
		if (lo2 != w.prevLo) != (len(w.lastObs) > 0) {
			w.violate("C01", fmt.Sprintf("last observed nonce moved %d -> %d with %d observation events", w.prevLo, lo2, len(w.lastObs)))
		}
	}
	if res == "err:validate-basic" && wrapper != inner {
		res = "err:signer-mismatch"
	}
	if res == "ok" && !admissible {
		w.violate("C01 C02", "claim accepted from a bridger that is not the registered bridger of an online oracle")
	}
	if res == "ok" && wrapper != inner {
		w.out.Count("claim:accepted-with-wrapper!=inner(in-process)")
	}
	w.out.Emit(fmt.Sprintf("claim %d %d %d %d %s %d", wrapper, inner, n, h, label, extOf(n, h)), res+" "+w.observe())
	w.monitors(before)
	return res
}

func (w *world) opBond(o, b, e int, amt sdkmath.Int) string {
	oa, ok1 := w.oracleAddr(o)
	ba, ok2 := w.bridgerAddr(b)
	if !ok1 || !ok2 || e < extBase || e >= extBase+len(w.exts) {
		return "skip"
	}
	before := w.snapshot()
	val := w.s.ValAddr[w.rng.Intn(len(w.s.ValAddr))]
	bm := &crosschaintypes.MsgBondedOracle{ChainName: w.chain, OracleAddress: oa.String(), BridgerAddress: ba.String(),
		ExternalAddress: w.exts[e-extBase], ValidatorAddress: val.String(), DelegateAmount: crosschaintypes.NewDelegateAmount(amt)}
	if w.asTx {
		w.asTx = false
		return w.opTxMsg("bond", o, bm, before, func(dep bool) string { return fmt.Sprintf("bond %d %d %d %s %d", o, b, e, amt.String(), b2i(dep)) },
			func(res string) {
				if res == "ok" && w.unbonded[o] {
					w.rebonded[o] = true
				}
			})
	}
	res, _ := w.route(bm)
	dep := res != "err:dep"
	if res == "ok" && w.unbonded[o] {
		w.rebonded[o] = true
	}
	w.out.Emit(fmt.Sprintf("bond %d %d %d %s %d", o, b, e, amt.String(), b2i(dep)), res+" "+w.observe())
	w.monitors(before)
	return res
}

func (w *world) opAddDelegate(o int, amt sdkmath.Int) string {
	oa, ok := w.oracleAddr(o)
	if !ok || !amt.IsPositive() {
		return "skip"
	}
	before := w.snapshot()
	am := &crosschaintypes.MsgAddDelegate{ChainName: w.chain, OracleAddress: oa.String(), Amount: crosschaintypes.NewDelegateAmount(amt)}
	if w.asTx {
		w.asTx = false
		return w.opTxMsg("adddel", o, am, before, func(dep bool) string { return fmt.Sprintf("adddel %d %s %d", o, amt.String(), b2i(dep)) }, nil)
	}
	res, _ := w.route(am)
	dep := res != "err:dep"
	w.out.Emit(fmt.Sprintf("adddel %d %s %d", o, amt.String(), b2i(dep)), res+" "+w.observe())
	w.monitors(before)
	return res
}

func (w *world) opEditBridger(o, b int) string {
	oa, ok1 := w.oracleAddr(o)
	ba, ok2 := w.bridgerAddr(b)
	if !ok1 || !ok2 {
		return "skip"
	}
	if orc, found := w.k.GetOracle(w.s.Ctx, oa); found {
		defer func(old int) {
			if cur, f := w.k.GetOracle(w.s.Ctx, oa); !f || w.bridgerID[cur.BridgerAddress] != old {
				w.former[o] = append(w.former[o], old)
			}
		}(w.bridgerID[orc.BridgerAddress])
	}
	before := w.snapshot()
	// MsgEditBridger.ValidateBasic demands a *validator* bech32 bridger address while the handler parses an account
	// address, so no transaction can edit a bridger on this tree; the handler is driven directly (message-server level),
	// which only adds behaviours to what the theorems cover.
	m := &crosschaintypes.MsgEditBridger{ChainName: w.chain, OracleAddress: oa.String(), BridgerAddress: ba.String()}
	if m.ValidateBasic() != nil {
		w.out.Count("editbr:validate-basic-rejects-account-address")
	}
	res, _ := w.route(m, true)
	w.out.Emit(fmt.Sprintf("editbr %d %d", o, b), res+" "+w.observe())
	w.monitors(before)
	return res
}

func (w *world) opUnbond(o int) string {
	oa, ok := w.oracleAddr(o)
	if !ok {
		return "skip"
	}
	ubd, bal := false, sdkmath.ZeroInt()
	if orc, found := w.k.GetOracle(w.s.Ctx, oa); found {
		defer func(old int) {
			if _, f := w.k.GetOracle(w.s.Ctx, oa); !f {
				w.former[o] = append(w.former[o], old)
			}
		}(w.bridgerID[orc.BridgerAddress])
		da := orc.GetDelegateAddress(w.chain)
		if _, err := w.s.App.StakingKeeper.GetUnbondingDelegation(w.s.Ctx, da, orc.GetValidator()); err == nil {
			ubd = true
		}
		bal = w.s.App.BankKeeper.GetBalance(w.s.Ctx, da, fxtypes.DefaultDenom).Amount
	}
	before := w.snapshot()
	um := &crosschaintypes.MsgUnbondedOracle{ChainName: w.chain, OracleAddress: oa.String()}
	if w.asTx {
		w.asTx = false
		return w.opTxMsg("unbond", o, um, before, func(dep bool) string { return fmt.Sprintf("unbond %d %d %s %d", o, b2i(ubd), bal.String(), b2i(dep)) },
			func(res string) {
				if res == "ok" {
					w.unbonded[o] = true
				}
			})
	}
	res, _ := w.route(um)
	dep := res != "err:dep"
	if res == "ok" {
		w.unbonded[o] = true
	}
	w.out.Emit(fmt.Sprintf("unbond %d %d %s %d", o, b2i(ubd), bal.String(), b2i(dep)), res+" "+w.observe())
	w.monitors(before)
	return res
}

func (w *world) opGov(list []int) string {
	var addrs, ids []string
	for _, id := range list {
		a, ok := w.oracleAddr(id)
		if !ok {
			return "skip"
		}
		addrs = append(addrs, a.String())
		ids = append(ids, strconv.Itoa(id))
	}
	if len(addrs) == 0 {
		return "skip"
	}
	before := w.snapshot()
	res, _ := w.route(&crosschaintypes.MsgUpdateChainOracles{ChainName: w.chain, Authority: w.gov, Oracles: addrs})
	dep := res != "err:dep"
	w.out.Emit(fmt.Sprintf("gov %s %d", strings.Join(ids, ","), b2i(dep)), res+" "+w.observe())
	w.monitors(before)
	return res
}

// opEndBlock runs `blocks` real blocks (FinalizeBlock + Commit: every module's end blocker, including this chain's
// slashing / oracle-set request).  Which oracles the end blocker slashed and whether it stored a new oracle set are
// outcomes of parts of the module that are not modelled here; they are handed to the model as inputs.
func (w *world) opEndBlock(blocks int64) string {
	st := map[string]int64{}
	for _, o := range w.k.GetAllOracles(w.s.Ctx, false) {
		st[o.OracleAddress] = o.SlashTimes
	}
	osn := w.k.GetLatestOracleSetNonce(w.s.Ctx)
	before := w.snapshot()
	res := hx.Try(func() error {
		for i := int64(0); i < blocks; i++ {
			w.block()
		}
		return nil
	})
	var slashed []string
	for _, o := range w.k.GetAllOracles(w.s.Ctx, false) {
		if o.SlashTimes > st[o.OracleAddress] {
			slashed = append(slashed, strconv.Itoa(w.oid(o.OracleAddress)))
		}
	}
	osr := w.k.GetLatestOracleSetNonce(w.s.Ctx) != osn
	w.out.Emit(fmt.Sprintf("endblock %s %d %d", joinOr(slashed, ","), b2i(osr), blocks), res+" "+w.observe())
	if len(slashed) > 0 {
		w.out.Count("endblock:slashed")
	}
	w.monitors(before)
	return res
}

// reentrantCode: runtime code of a bridge-call target.  When it is called while its own native balance is exactly 1 (the
// callback carries value 1, so: during the first callback that is in force) it calls
// `crosschain.executeClaim(chain, m)` for every m of `calls`, in order, ignoring the results, and then stops or reverts;
// at any other balance it just stops (this only bounds the recursion on trees where a parked claim can be re-entered).
func reentrantCode(pre common.Address, datas [][]byte, revert bool) []byte {
	// SELFBALANCE PUSH1 1 EQ PUSH1 L JUMPI STOP L: JUMPDEST
	code := []byte{0x47, 0x60, 0x01, 0x14, 0x60, 0x08, 0x57, 0x00, 0x5b}
	type fix struct{ at, idx int }
	var fixes []fix
	for i, d := range datas {
		code = append(code, 0x61, byte(len(d)>>8), byte(len(d)), 0x61, 0, 0) // PUSH2 size PUSH2 offset(code)
		fixes = append(fixes, fix{len(code) - 2, i})
		code = append(code, 0x60, 0x00, 0x39) // PUSH1 0 CODECOPY
		// retSize 0, retOffset 0, argsSize, argsOffset 0, value 0, PUSH20 precompile, PUSH3 gas, CALL, POP
		// (a fixed gas allowance per call: a precompile call that returns an error burns all the gas it was given)
		code = append(code, 0x60, 0x00, 0x60, 0x00, 0x61, byte(len(d)>>8), byte(len(d)), 0x60, 0x00, 0x60, 0x00, 0x73)
		code = append(code, pre.Bytes()...)
		code = append(code, 0x62, byte((callGas>>16)&0xff), byte((callGas>>8)&0xff), byte(callGas&0xff), 0xf1, 0x50)
	}
	if revert {
		code = append(code, 0x60, 0x00, 0x60, 0x00, 0xfd)
	} else {
		code = append(code, 0x00)
	}
	for _, f := range fixes {
		off := len(code)
		code[f.at], code[f.at+1] = byte(off>>8), byte(off)
		code = append(code, datas[f.idx]...)
	}
	return code
}

func (w *world) execData(n uint64) []byte {
	d, err := crosschaintypes.GetABI().Pack("executeClaim", w.chain, new(big.Int).SetUint64(n))
	if err != nil {
		w.t.Fatal(err)
	}
	return d
}

// install puts the code realising the call tree on the targets of the parked bridge-call claims that occur in it (the
// first occurrence of a nonce defines what its contract does).
func (w *world) install(root *callNode) {
	done := map[uint64]bool{}
	var walk func(c *callNode)
	walk = func(c *callNode) {
		if !done[c.n] {
			done[c.n] = true
			if cl, ok := w.k.GetPendingExecuteClaim(w.s.Ctx, c.n); ok {
				// a leaf with an odd nonce keeps a target without code (no callback at all) unless code was installed before
				if bc, ok := cl.(*crosschaintypes.MsgBridgeCallClaim); ok && (len(c.kids) > 0 || c.o == 'r' || c.n%2 == 0 || w.touchedCode[bc.GetToAddr()]) {
					w.touchedCode[bc.GetToAddr()] = true
					var datas [][]byte
					for _, k := range c.kids {
						datas = append(datas, w.execData(k.n))
					}
					if err := w.s.App.EvmKeeper.CreateContractWithCode(w.s.Ctx, bc.GetToAddr(), reentrantCode(crosschaintypes.GetAddress(), datas, c.o == 'r')); err != nil {
						w.t.Fatalf("CreateContractWithCode: %v", err)
					}
					w.touched[bc.GetToAddr()] = true
				}
			}
		}
		for _, k := range c.kids {
			walk(k)
		}
	}
	walk(root)
}

// opExec calls the real crosschain precompile `executeClaim(chain, n)` through the EVM; the targets of parked bridge-call
// claims are contracts that call `executeClaim` again from inside the callback, as `root` prescribes.
func (w *world) opExec(root *callNode) string {
	n := root.n
	pcl, pending := w.k.GetPendingExecuteClaim(w.s.Ctx, n)
	ptype := "none"
	if pending {
		ptype = strings.TrimPrefix(fmt.Sprintf("%T", pcl), "*types.")
	}
	defer func() { w.out.Count("exec:root-claim-type:" + ptype) }()
	before := w.snapshot()
	w.install(root)
	from := w.caller
	var err error
	cctx, write := w.s.Ctx.CacheContext()
	r := hx.Try(func() error {
		_, err = w.s.App.EvmKeeper.ApplyContract(cctx, from, crosschaintypes.GetAddress(), nil, crosschaintypes.GetABI(), "executeClaim", w.chain, new(big.Int).SetUint64(n))
		return nil
	})
	if !strings.HasPrefix(r, "panic") {
		write()
	}
	res := "ok"
	switch {
	case strings.HasPrefix(r, "panic") && pending && strings.Contains(r, "bridge call not found"):
		// BridgeCallResultHandler panics for an unknown outgoing bridge call; a transaction recovers it and fails as a whole
		res = "err:exec-failed"
		w.out.Count("exec:handler-panic-recovered(result of unknown bridge call)")
	case strings.HasPrefix(r, "panic"):
		res = r
	case err != nil && !pending:
		res = "err:not-found"
	case err != nil:
		res = "err:exec-failed"
		if _, ok := w.out.Stats.Extra["exec-failure-sample"]; !ok {
			w.out.Stats.Extra["exec-failure-sample"] = strings.SplitN(err.Error(), "\n", 2)[0]
		}
	}
	if res == "ok" {
		w.out.Count("exec:ok:" + ptype)
		if w.executed[n] {
			w.violate("C01", fmt.Sprintf("pending claim of event nonce %d executed twice", n))
		}
		if _, ok := w.observedAt[n]; !ok {
			w.violate("C01", fmt.Sprintf("claim of event nonce %d executed although it was never observed", n))
		}
		w.executed[n] = true
	}
	// how the handler of the outermost call ended is an input of the model: an error of the real handler is `f`
	o := root.o
	if res == "err:exec-failed" {
		o = 'f'
	} else if o == 'f' {
		o = 'o'
	}
	w.exDirty = true
	w.out.Emit(fmt.Sprintf("exec %d %c %s", n, o, root.forest()), res+" "+w.observe())
	w.monitors(before)
	return res
}

// ---------------------------------------------------------------------------------------------------------
// scripted sequences (corpus / replay files): the same op lines the harness writes; environment flags are recomputed

func (w *world) runLine(line string) {
	f := strings.Fields(line)
	if len(f) == 0 {
		return
	}
	atoi := func(s string) int { n, _ := strconv.Atoi(s); return n }
	atou := func(s string) uint64 { n, _ := strconv.ParseUint(s, 10, 64); return n }
	amtOf := func(s string) sdkmath.Int {
		v, ok := sdkmath.NewIntFromString(s)
		if !ok {
			return sdkmath.ZeroInt()
		}
		return v
	}
	list := func(s string) []int {
		var out []int
		if s == "-" {
			return out
		}
		for _, x := range strings.Split(s, ",") {
			out = append(out, atoi(x))
		}
		return out
	}
	switch {
	case f[0] == "claim" && len(f) >= 6:
		w.opClaim(atoi(f[1]), atoi(f[2]), atou(f[3]), atou(f[4]), f[5])
	case f[0] == "bond" && len(f) >= 5:
		w.opBond(atoi(f[1]), atoi(f[2]), atoi(f[3]), amtOf(f[4]))
	case f[0] == "adddel" && len(f) >= 3:
		w.opAddDelegate(atoi(f[1]), amtOf(f[2]))
	case f[0] == "editbr" && len(f) >= 3:
		w.opEditBridger(atoi(f[1]), atoi(f[2]))
	case f[0] == "unbond" && len(f) >= 2:
		w.opUnbond(atoi(f[1]))
	case f[0] == "gov" && len(f) >= 2:
		w.opGov(list(f[1]))
	case f[0] == "endblock":
		blocks := int64(1)
		if len(f) >= 4 {
			if b, err := strconv.ParseInt(f[3], 10, 64); err == nil && b > 0 && b < 50 {
				blocks = b
			}
		}
		w.opEndBlock(blocks)
	case f[0] == "exec" && len(f) >= 4:
		if kids, rest, ok := parseForest(f[3]); ok && rest == "" && len(f[2]) == 1 {
			w.opExec(&callNode{n: atou(f[1]), o: f[2][0], kids: kids})
		}
	case f[0] == "exec" && len(f) >= 2:
		w.opExec(&callNode{n: atou(f[1]), o: 'o'})
	case f[0] == "genesis":
		w.opGenesis()
	case f[0] == "save":
		w.opSave()
	case f[0] == "load":
		w.opLoad()
	}
}

// runScript replays a file of op lines; `reset t m f` lines start a fresh app.
func runScript(t *testing.T, out *hx.Out, rng *rand.Rand, path string) {
	var w *world
	for _, line := range hx.ReadLines(path) {
		if strings.HasPrefix(line, "#") {
			continue
		}
		f := strings.Fields(line)
		if f[0] == "reset" {
			thr, mult, frac := int64(1), int64(100), "0.8"
			if len(f) >= 4 {
				if v, ok := sdkmath.NewIntFromString(f[1]); ok {
					thr = v.Quo(sdk.DefaultPowerReduction).Int64()
				}
				mult, _ = strconv.ParseInt(f[2], 10, 64)
				if m, ok := sdkmath.NewIntFromString(f[3]); ok {
					frac = sdkmath.LegacyNewDecFromBigIntWithPrec(m.BigInt(), 18).String()
				}
			}
			chain, window, nO := "eth", uint64(30000), 8
			if len(f) >= 7 {
				if f[4] == "bsc" || f[4] == "tron" {
					chain = f[4]
				}
				if v, err := strconv.ParseUint(f[5], 10, 64); err == nil && v > 1 {
					window = v
				}
				if v, err := strconv.Atoi(f[6]); err == nil && v > 0 && v <= 100 {
					nO = v
				}
			}
			s := hx.NewSuite(t, 2)
			w = newWorld(t, s, out, rng, chain, nO, thr, mult, frac, window)
			continue
		}
		if w != nil {
			w.runLine(line)
		}
	}
	out.Count("script:" + filepath.Base(path))
}

// ---------------------------------------------------------------------------------------------------------
// random sequences

func (w *world) units(u int64) sdkmath.Int { return w.pr.MulRaw(u) }

func (w *world) randomStake() sdkmath.Int {
	thr := w.threshold.Quo(w.pr).Int64()
	max := thr * w.multiple
	u := thr + w.rng.Int63n(max-thr+1)
	switch w.rng.Intn(10) {
	case 0:
		u = thr
	case 1:
		u = max
	case 2:
		u = thr - 1 // below minimum
	case 3:
		u = max + 1 // above maximum
	}
	if u < 0 {
		u = 0
	}
	amt := w.units(u)
	switch w.rng.Intn(4) {
	case 0: // truncation of GetPower: just below the next unit
		if u < max {
			amt = amt.Add(w.pr.SubRaw(1))
		}
	case 1:
		if u < max {
			amt = amt.AddRaw(w.rng.Int63n(1000))
		}
	}
	if !amt.IsPositive() {
		amt = sdkmath.OneInt()
	}
	return amt
}

type orcView struct {
	id      int
	o       crosschaintypes.Oracle
	lastEff uint64
}

func (w *world) registered() []orcView {
	var out []orcView
	for _, o := range w.k.GetAllOracles(w.s.Ctx, false) {
		out = append(out, orcView{id: w.oid(o.OracleAddress), o: o, lastEff: w.k.GetLastEventNonceByOracle(w.s.Ctx, o.GetOracle())})
	}
	return out
}

func (w *world) freeBridger() int {
	for tries := 0; tries < 20; tries++ {
		i := w.rng.Intn(len(w.bridgers))
		if !w.k.HasOracleAddrByBridgerAddr(w.s.Ctx, w.bridgers[i]) {
			return bridgerBase + i
		}
	}
	return bridgerBase + w.rng.Intn(len(w.bridgers))
}

func (w *world) freeExt() int {
	for tries := 0; tries < 20; tries++ {
		i := w.rng.Intn(len(w.exts))
		if !w.k.HasOracleAddrByExternalAddr(w.s.Ctx, w.exts[i]) {
			return extBase + i
		}
	}
	return extBase + w.rng.Intn(len(w.exts))
}

func (w *world) proposalIDs() []int {
	po, _ := w.k.GetProposalOracle(w.s.Ctx)
	var ids []int
	for _, a := range po.Oracles {
		ids = append(ids, w.oid(a))
	}
	sort.Ints(ids)
	return ids
}

func (w *world) randKind(n, h uint64) string {
	switch w.rng.Intn(10) {
	case 0, 1:
		return "o"
	case 2:
		// oracle-set claim: members mostly bound external addresses, sometimes an unbound one
		var ms []string
		for i := range w.exts {
			bound := w.k.HasOracleAddrByExternalAddr(w.s.Ctx, w.exts[i])
			if (bound && w.rng.Intn(2) == 0) || (!bound && w.rng.Intn(8) == 0) {
				ms = append(ms, strconv.Itoa(extBase+i))
			}
		}
		if len(ms) == 0 {
			return "p"
		}
		if w.rng.Intn(2) == 0 && w.k.GetLatestOracleSetNonce(w.s.Ctx) > 0 {
			return "S:" + strings.Join(ms, ",") // from the latest stored oracle set (members replaced by its members)
		}
		return "s:" + strings.Join(ms, ",")
	case 3, 4, 5:
		return "c"
	case 6:
		return "r"
	case 7:
		return "e"
	}
	return "p"
}

// genTree builds the call tree of one exec op from per-claim plans (what the target contract of a parked bridge-call claim
// does during its callback): re-enter its own nonce, call an ancestor's nonce, another parked nonce, a nonce that is not
// parked; revert at the end or not.  The same nonce gets the same plan wherever it occurs in the tree.
func (w *world) genTree(n uint64) *callNode {
	type plan struct {
		calls  []uint64
		revert bool
	}
	plans := map[uint64]*plan{}
	var pend []uint64
	for _, p := range hx.RawPrefix(w.s.Ctx, w.key, crosschaintypes.PendingExecuteClaimKey) {
		pend = append(pend, sdk.BigEndianToUint64(p[0][1:]))
	}
	lo := w.k.GetLastObservedEventNonce(w.s.Ctx)
	budget := 2 + w.rng.Intn(8)
	var gen func(n uint64, anc []uint64, depth int) *callNode
	gen = func(n uint64, anc []uint64, depth int) *callNode {
		node := &callNode{n: n, o: 'o'}
		cl, found := w.k.GetPendingExecuteClaim(w.s.Ctx, n)
		if !found {
			return node
		}
		switch c := cl.(type) {
		case *crosschaintypes.MsgSendToFxClaim:
			if c.TokenContract != w.fxToken {
				node.o = 'f'
			}
			return node
		case *crosschaintypes.MsgBridgeCallClaim:
			if c.TokenContracts[0] != w.modToken {
				node.o = 'f'
				return node
			}
			if !c.Value.Equal(sdkmath.OneInt()) {
				w.out.Count("exec:plan:callback-with-value!=1(contract-stops)")
				return node // the target only acts at balance 1 (see reentrantCode)
			}
		case *crosschaintypes.MsgBridgeCallResultClaim:
			if !w.k.HasOutgoingBridgeCall(w.s.Ctx, c.Nonce) {
				node.o = 'f' // unknown outgoing bridge call: the handler panics
			} else {
				w.out.Count("exec:plan:result-of-real-bridge-call")
			}
			return node
		default:
			return node
		}
		for _, a := range anc {
			if a == n {
				return node // re-entered while its own callback is running: the contract is at balance 2 and stops
			}
		}
		pl := plans[n]
		if pl == nil {
			pl = &plan{revert: w.rng.Intn(5) == 0}
			k := 0
			if depth < 4 {
				k = []int{0, 1, 1, 2, 2, 3}[w.rng.Intn(6)]
			}
			for i := 0; i < k && budget > 0; i++ {
				budget--
				var m uint64
				switch r := w.rng.Intn(10); {
				case r < 3:
					m = n // re-enter the nonce being executed
					w.out.Count("exec:plan:re-enter-own-nonce")
				case r < 4 && len(anc) > 0:
					m = anc[w.rng.Intn(len(anc))]
					w.out.Count("exec:plan:ancestor-nonce")
				case r < 9 && len(pend) > 0:
					m = pend[w.rng.Intn(len(pend))]
					w.out.Count("exec:plan:other-parked-nonce")
				default:
					m = 1 + uint64(w.rng.Int63n(int64(lo)+2))
					w.out.Count("exec:plan:random-nonce")
				}
				pl.calls = append(pl.calls, m)
			}
			plans[n] = pl
		}
		if pl.revert {
			node.o = 'r'
		}
		for _, m := range pl.calls {
			node.kids = append(node.kids, gen(m, append(append([]uint64{}, anc...), n), depth+1))
		}
		return node
	}
	return gen(n, nil, 0)
}

func (w *world) randomClaim() {
	regs := w.registered()
	lo := w.k.GetLastObservedEventNonce(w.s.Ctx)
	inner := bridgerBase + w.rng.Intn(len(w.bridgers))
	var n uint64 = lo + 1
	if len(regs) > 0 && w.rng.Intn(12) != 0 {
		// prefer oracles that can still vote on the next nonce or are behind
		r := regs[w.rng.Intn(len(regs))]
		for tries := 0; tries < 3 && (!r.o.Online || r.lastEff > lo+1); tries++ {
			r = regs[w.rng.Intn(len(regs))]
		}
		inner = w.bridgerID[r.o.BridgerAddress]
		n = r.lastEff + 1
		switch w.rng.Intn(14) {
		case 0:
			n = r.lastEff // repeat
		case 1:
			n = r.lastEff + 2 // skip
		case 2:
			n = lo + 1
		}
	}
	// a bridger the oracle was registered with earlier (before an edit-bridger / an unbond), with the nonce that would be
	// accepted from its current bridger
	if len(regs) > 0 && w.rng.Intn(15) == 0 {
		var cands []orcView
		for _, r := range regs {
			if len(w.former[r.id]) > 0 && r.o.Online {
				cands = append(cands, r)
			}
		}
		if len(cands) > 0 {
			r := cands[w.rng.Intn(len(cands))]
			inner = w.former[r.id][w.rng.Intn(len(w.former[r.id]))]
			n = r.lastEff + 1
			w.out.Count("claim:through-former-bridger")
		}
	}
	// the oracle's OWN account in the bridger field (not its registered bridger), with the nonce that would be accepted
	if len(regs) > 0 && w.rng.Intn(20) == 0 {
		r := regs[w.rng.Intn(len(regs))]
		inner = r.id
		n = r.lastEff + 1
		w.out.Count("claim:with-the-oracle-account-as-bridger")
	}
	if n == 0 {
		n = 1
	}
	h := uint64(0)
	switch w.rng.Intn(6) {
	case 0:
		h = 1
	case 1:
		h = uint64(w.rng.Intn(4))
	}
	// the same content seen at another external block height (a different event as far as the vote is concerned)
	if w.rng.Intn(7) == 0 {
		h += 4
	}
	// the same event told differently by a lying bridger (one identity field differs / a field boundary is moved)
	if w.rng.Intn(8) == 0 {
		h += 8 * uint64(1+w.rng.Intn(5))
	}
	wrapper := inner
	if w.rng.Intn(25) == 0 {
		wrapper = bridgerBase + w.rng.Intn(len(w.bridgers))
	}
	res := w.opClaim(wrapper, inner, n, h, w.randKind(n, h))
	w.out.Count("claim:" + res)
	if n > lo+1 && res == "ok" {
		w.out.Count("claim:accepted-ahead-of-lastObserved")
	}
	if n <= lo && res == "ok" {
		w.out.Count("claim:accepted-for-already-observed-nonce")
	}
}

// scenarioRebond: governance removes an oracle, it unbonds, is listed again and bonds again (DESIGN §6-H), interleaved
// with claims; afterwards the sequence continues randomly.
func (w *world) scenarioRebond() {
	regs := w.registered()
	if len(regs) < 3 {
		return
	}
	x := regs[w.rng.Intn(len(regs))]
	cur := w.proposalIDs()
	var without []int
	for _, id := range cur {
		if id != x.id {
			without = append(without, id)
		}
	}
	if len(without) == 0 || len(without) == len(cur) {
		return
	}
	w.out.Count("scenario:rebond")
	if w.rng.Intn(2) == 0 {
		w.randomClaim()
	}
	if w.opGov(without) != "ok" {
		return
	}
	if w.rng.Intn(3) == 0 {
		w.randomClaim()
	}
	// the undelegation made by the removal has to mature before UnbondedOracle is accepted
	if w.rng.Intn(6) != 0 {
		w.opEndBlock(3)
	}
	if w.opUnbond(x.id) != "ok" {
		return
	}
	for i := w.rng.Intn(3); i > 0; i-- {
		w.randomClaim()
	}
	if w.opGov(cur) != "ok" {
		return
	}
	amt := x.o.DelegateAmount
	if w.rng.Intn(2) == 0 {
		amt = w.randomStake()
	}
	if w.opBond(x.id, w.bridgerID[x.o.BridgerAddress], w.extID[x.o.ExternalAddress], amt) == "ok" {
		w.out.Count("scenario:rebond:completed")
		// the re-bonded oracle catches up
		for i := 0; i < 3; i++ {
			n := w.k.GetLastEventNonceByOracle(w.s.Ctx, x.o.GetOracle()) + 1
			w.opClaim(w.bridgerID[x.o.BridgerAddress], w.bridgerID[x.o.BridgerAddress], n, uint64(w.rng.Intn(2)), "p")
		}
	}
}

func (w *world) randomOp() {
	regs := w.registered()
	r := w.rng.Intn(100)
	if w.rng.Intn(60) == 0 {
		w.scenarioRebond()
		return
	}
	switch w.rng.Intn(150) {
	case 0, 1:
		w.scenarioGenesis()
		return
	case 2:
		w.scenarioStaleTotal()
		return
	case 3:
		res := w.opGenesis()
		w.out.Count("genesis(random):" + res)
		return
	case 4, 5, 6:
		w.scenarioLyingOracle()
		return
	}
	switch {
	case r < 62:
		w.randomClaim()
	case r < 68: // bond
		w.asTx = w.rng.Intn(8) == 0
		o := oracleBase + w.rng.Intn(len(w.oracles))
		res := w.opBond(o, w.freeBridger(), w.freeExt(), w.randomStake())
		w.asTx = false
		w.out.Count("bond:" + res)
	case r < 74: // add delegate (brings slashed oracles back online)
		o := oracleBase + w.rng.Intn(len(w.oracles))
		for _, x := range regs {
			if !x.o.Online && w.rng.Intn(2) == 0 {
				o = x.id
			}
		}
		amt := w.units(1 + w.rng.Int63n(5))
		if w.rng.Intn(3) == 0 {
			amt = w.randomStake()
		}
		if w.rng.Intn(4) == 0 {
			amt = sdkmath.NewInt(1 + w.rng.Int63n(1000))
		}
		// boundary: a slashed oracle returns paying exactly its slash amount (no stake moves), one unit less, one unit more
		if oa, ok := w.oracleAddr(o); ok {
			if orc, found := w.k.GetOracle(w.s.Ctx, oa); found && !orc.Online && w.rng.Intn(2) == 0 {
				if sl := orc.GetSlashAmount(w.k.GetSlashFraction(w.s.Ctx)); sl.IsPositive() {
					d := int64(w.rng.Intn(3)) - 1
					amt = sl.AddRaw(d)
					w.out.Count(fmt.Sprintf("adddel:amount=slash%+d", d))
				}
			}
		}
		w.asTx = w.rng.Intn(8) == 0
		res := w.opAddDelegate(o, amt)
		w.asTx = false
		w.out.Count("adddel:" + res)
	case r < 78:
		o := oracleBase + w.rng.Intn(len(w.oracles))
		b := w.freeBridger()
		if w.rng.Intn(4) == 0 {
			b = bridgerBase + w.rng.Intn(len(w.bridgers))
		}
		res := w.opEditBridger(o, b)
		w.out.Count("editbr:" + res)
	case r < 85: // governance: remove one / add back / random subset
		cur := w.proposalIDs()
		var list []int
		switch w.rng.Intn(3) {
		case 0: // remove one
			if len(cur) > 1 {
				drop := w.rng.Intn(len(cur))
				for i, id := range cur {
					if i != drop {
						list = append(list, id)
					}
				}
			}
		case 1: // add one
			list = append(list, cur...)
			id := oracleBase + w.rng.Intn(len(w.oracles))
			have := false
			for _, x := range cur {
				have = have || x == id
			}
			if !have {
				list = append(list, id)
			}
		default:
			for i := range w.oracles {
				if w.rng.Intn(4) != 0 {
					list = append(list, oracleBase+i)
				}
			}
		}
		if len(list) == 0 {
			list = []int{oracleBase}
		}
		res := w.opGov(list)
		w.out.Count("gov:" + res)
	case r < 90:
		res := w.opEndBlock(int64(1 + w.rng.Intn(3)))
		w.out.Count("endblock:" + res)
	case r < 94:
		o := oracleBase + w.rng.Intn(len(w.oracles))
		for _, x := range regs {
			if !x.o.Online && w.rng.Intn(2) == 0 {
				o = x.id
			}
		}
		w.asTx = w.rng.Intn(8) == 0
		res := w.opUnbond(o)
		w.asTx = false
		w.out.Count("unbond:" + res)
	default:
		lo := w.k.GetLastObservedEventNonce(w.s.Ctx)
		n := uint64(1)
		if lo > 0 {
			n = 1 + uint64(w.rng.Int63n(int64(lo)+1))
		}
		pend := hx.RawPrefix(w.s.Ctx, w.key, crosschaintypes.PendingExecuteClaimKey)
		if len(pend) > 0 && w.rng.Intn(5) != 0 {
			n = sdk.BigEndianToUint64(pend[w.rng.Intn(len(pend))][0][1:])
		}
		tree := w.genTree(n)
		res := w.opExec(tree)
		w.out.Count("exec:" + res)
		w.out.Count(fmt.Sprintf("exec:tree-depth=%d", tree.depth()))
		if tree.size() > 1 {
			w.out.Count("exec:with-nested-calls:" + res)
		}
	}
}

// boundaryStakes returns power units for nO oracles whose total sits at a truncation boundary of 66*total/100.
func boundaryStakes(rng *rand.Rand, nO int, lo, hi int64) []int64 {
	us := make([]int64, nO)
	var tot int64
	for i := range us {
		us[i] = lo + rng.Int63n(hi-lo+1)
		tot += us[i]
	}
	want := []int64{0, 1, 99, 50}[rng.Intn(4)]
	for d := int64(0); d < 100; d++ {
		if ((tot+d)*66)%100 == want && us[nO-1]+d <= hi {
			us[nO-1] += d
			break
		}
	}
	return us
}

// runLongHistory: two oracles observe more than MaxKeepEventSize event nonces one after the other (pruning boundary at
// lastObserved = MaxKeepEventSize, +1, +2), a third oracle bonds late (absent-key fallback far from 0) and catches up with
// competing hashes; old parked claims are executed after their attestations were pruned.
func runLongHistory(t *testing.T, s *hx.Suite, out *hx.Out, rng *rand.Rand, chain string) *world {
	w := newWorld(t, s, out, rng, chain, 4, 1, 100, "0.1", 30000)
	w.opGov([]int{1, 2, 3, 4})
	w.opBond(1, 101, 201, w.units(34))
	w.opBond(2, 102, 202, w.units(33))
	w.opBond(3, 103, 203, w.units(10)) // total 77, bar 50: 34+33 reaches it, 34+10 and 33+10 do not
	total := uint64(crosschaintypes.MaxKeepEventSize) + 4 + uint64(rng.Intn(6))
	late := 20 + uint64(rng.Intn(60))
	for n := uint64(1); n <= total; n++ {
		kind := []string{"p", "c", "o", "p", "c", "o", "e", "r"}[rng.Intn(8)]
		if rng.Intn(6) == 0 {
			// the small oracle catches up with competing claims first (no quorum), then the two big ones agree
			for m := w.k.GetLastEventNonceByOracle(w.s.Ctx, w.oracles[2]) + 1; m <= n; m++ {
				w.opClaim(103, 103, m, 1, kind)
			}
		}
		w.opClaim(101, 101, n, 0, kind)
		w.opClaim(102, 102, n, 0, kind)
		if n == late {
			w.opBond(4, 104, 204, w.units(5))
		}
		if n > late && rng.Intn(3) == 0 {
			m := w.k.GetLastEventNonceByOracle(w.s.Ctx, w.oracles[3]) + 1
			w.opClaim(104, 104, m, uint64(rng.Intn(2)), "p")
		}
		if rng.Intn(10) == 0 {
			m := 1 + uint64(rng.Int63n(int64(n)))
			w.opExec(w.genTree(m))
		}
	}
	if lo := w.k.GetLastObservedEventNonce(w.s.Ctx); lo > crosschaintypes.MaxKeepEventSize {
		out.Count("scenario:long-history(pruning)")
	} else {
		out.Count(fmt.Sprintf("scenario:long-history:stuck-at-%d", lo))
	}
	for i := 0; i < 40; i++ {
		w.randomOp()
	}
	return w
}

func runRandom(t *testing.T, s *hx.Suite, out *hx.Out, rng *rand.Rand, chain string, steps int, nO int) *world {
	thr := []int64{1, 1, 2, 5, 100}[rng.Intn(5)]
	mult := []int64{10, 40, 100}[rng.Intn(3)]
	frac := []string{"0.8", "0.5", "0.1", "0.001", "0"}[rng.Intn(5)]
	window := []uint64{3, 5, 30000}[rng.Intn(3)]
	w := newWorld(t, s, out, rng, chain, nO, thr, mult, frac, window)
	out.Count("chain:" + chain)
	// set-up: governance lists (most of) the oracles, most of them bond; powers at a truncation boundary half of the time
	var all []int
	for i := range w.oracles {
		if rng.Intn(8) != 0 {
			all = append(all, oracleBase+i)
		}
	}
	if len(all) == 0 {
		all = []int{oracleBase}
	}
	w.opGov(all)
	us := boundaryStakes(rng, nO, thr, thr*mult)
	for i := range w.oracles {
		if rng.Intn(7) == 0 {
			continue
		}
		amt := w.units(us[i])
		if rng.Intn(2) == 0 {
			amt = w.randomStake()
		}
		w.opBond(oracleBase+i, bridgerBase+i, extBase+i, amt)
	}
	for i := 0; i < steps; i++ {
		w.randomOp()
	}
	return w
}

// ---------------------------------------------------------------------------------------------------------
// transaction level: who must sign a claim, whose vote does it record

func (w *world) signedTx(priv cryptotypes.PrivKey, msgs ...sdk.Msg) ([]byte, error) {
	app := w.s.App
	cfg := app.GetTxConfig()
	b := cfg.NewTxBuilder()
	if err := b.SetMsgs(msgs...); err != nil {
		return nil, err
	}
	b.SetGasLimit(2_000_000)
	b.SetFeeAmount(sdk.NewCoins(sdk.NewCoin(fxtypes.DefaultDenom, sdkmath.NewInt(20).MulRaw(1e18))))
	addr := sdk.AccAddress(priv.PubKey().Address())
	acc := app.AccountKeeper.GetAccount(w.s.Ctx, addr)
	if acc == nil {
		return nil, fmt.Errorf("no account for signer")
	}
	seq, num := acc.GetSequence(), acc.GetAccountNumber()
	mode := signing.SignMode_SIGN_MODE_DIRECT
	if err := b.SetSignatures(signing.SignatureV2{PubKey: priv.PubKey(), Data: &signing.SingleSignatureData{SignMode: mode}, Sequence: seq}); err != nil {
		return nil, err
	}
	sd := authsigning.SignerData{ChainID: w.s.Ctx.ChainID(), AccountNumber: num, Sequence: seq, PubKey: priv.PubKey(), Address: addr.String()}
	sig, err := clienttx.SignWithPrivKey(w.s.Ctx, mode, sd, b, priv, cfg, seq)
	if err != nil {
		return nil, err
	}
	if err := b.SetSignatures(sig); err != nil {
		return nil, err
	}
	return cfg.TxEncoder()(b.GetTx())
}

// the harness clock: block time advances by blockInterval per block (monotonic over the whole run)
const blockInterval = 10 * time.Minute

var clock = tmtime.Now()

// block runs one real block (same steps as BaseSuite.Commit: FinalizeBlock with every module's begin/end blocker, Commit,
// ProcessProposal for the next height) with the given transactions, at the harness clock.
func (w *world) block(txs ...[]byte) []*abci.ExecTxResult {
	s := w.s
	ci := abci.CommitInfo{Round: 1}
	for _, val := range s.ValSet.Validators {
		pk, err := cryptocodec.FromCmtPubKeyInterface(val.PubKey)
		if err != nil {
			w.t.Fatal(err)
		}
		ci.Votes = append(ci.Votes, abci.VoteInfo{Validator: abci.Validator{Address: pk.Address(), Power: val.VotingPower}, BlockIdFlag: tenderminttypes.BlockIDFlagCommit})
		si := slashingtypes.NewValidatorSigningInfo(sdk.ConsAddress(pk.Address()), s.Ctx.BlockHeight(), 0, time.Unix(0, 0), false, 0)
		if err = s.App.SlashingKeeper.SetValidatorSigningInfo(s.Ctx, sdk.ConsAddress(pk.Address()), si); err != nil {
			w.t.Fatal(err)
		}
	}
	h := s.Ctx.BlockHeight()
	clock = clock.Add(blockInterval)
	res, err := s.App.FinalizeBlock(&abci.RequestFinalizeBlock{Height: h, Time: clock, ProposerAddress: s.Ctx.BlockHeader().ProposerAddress, DecidedLastCommit: ci, Txs: txs})
	if err != nil {
		w.t.Fatalf("FinalizeBlock: %v", err)
	}
	if _, err = s.App.Commit(); err != nil {
		w.t.Fatal(err)
	}
	if _, err = s.App.ProcessProposal(&abci.RequestProcessProposal{Height: h + 1, Time: clock, ProposerAddress: s.Ctx.BlockHeader().ProposerAddress, ProposedLastCommit: ci}); err != nil {
		w.t.Fatal(err)
	}
	s.Ctx = s.App.GetContextForFinalizeBlock(nil)
	return res.TxResults
}

func (w *world) votesOf(oracle sdk.AccAddress) int {
	n := 0
	for _, a := range w.atts() {
		for _, v := range a.votes {
			if v == oracle.String() {
				n++
			}
		}
	}
	return n
}

// txLevel: signed transactions through the real ante handler and FinalizeBlock.
//
//	(a) MsgClaim signed by its wrapper bridger W only, wrapping a claim whose bridger is a registered bridger B != W;
//	(b) MsgClaim with W = B signed by B;  (c) the wrapped claim message submitted directly, signed by B.
//
// Monitors: a vote may be recorded only for an oracle whose registered bridger signed the transaction; the signers
// the codec derives for a claim message must include the bridger the vote is counted for whenever the tx is accepted.
func (w *world) txLevel() {
	pp := w.k.GetParams(w.s.Ctx)
	pp.SignedWindow = 30000 // no slashing while the transaction blocks run
	_ = w.k.SetParams(w.s.Ctx, &pp)
	w.opEndBlock(1)
	regs := w.registered()
	var tgt *orcView
	for i := range regs {
		if regs[i].o.Online {
			tgt = &regs[i]
			break
		}
	}
	if tgt == nil {
		w.out.Count("tx:no-online-oracle")
		return
	}
	bID := w.bridgerID[tgt.o.BridgerAddress]
	bKey := w.bridgerKeys[bID-bridgerBase]
	bAddr := w.bridgers[bID-bridgerBase]
	next := func() uint64 { return w.k.GetLastEventNonceByOracle(w.s.Ctx, tgt.o.GetOracle()) + 1 }
	mk := func() crosschaintypes.ExternalClaim {
		n := next()
		sp := w.spec(n, 7, "p")
		return w.mkClaim(n, 7, sp, bAddr.String())
	}
	signers := func(m sdk.Msg) []string {
		bs, _, err := w.s.App.AppCodec().GetMsgV1Signers(m)
		if err != nil {
			return []string{"error:" + strings.SplitN(err.Error(), "\n", 2)[0]}
		}
		var out []string
		for _, b := range bs {
			out = append(out, sdk.AccAddress(b).String())
		}
		return out
	}
	run := func(label string, key cryptotypes.PrivKey, m sdk.Msg) (accepted bool, voted bool) {
		before := w.votesOf(tgt.o.GetOracle())
		bz, err := w.signedTx(key, m)
		if err != nil {
			w.out.Count("tx:" + label + ":build-error:" + strings.SplitN(err.Error(), "\n", 2)[0])
			return false, false
		}
		rs := w.block(bz)
		code := uint32(999)
		log := ""
		if len(rs) == 1 {
			code, log = rs[0].Code, rs[0].Log
		}
		after := w.votesOf(tgt.o.GetOracle())
		if len(log) > 90 {
			log = log[:90]
		}
		w.out.Count(fmt.Sprintf("tx:%s:code=%d", label, code))
		w.out.Stats.Extra["tx:"+label] = fmt.Sprintf("code=%d voteRecorded=%v log=%q", code, after > before, log)
		return code == 0, after > before
	}

	// (a) wrapper W != inner B, signed by W only (W: an account that is nobody's registered bridger) — op `txclaim`, compared
	// with the model's txClaimStep (which consults the regenerated deliverability fact)
	if wID := w.freeBridger(); wID != bID && !w.k.HasOracleAddrByBridgerAddr(w.s.Ctx, w.bridgers[wID-bridgerBase]) {
		wAddr := w.bridgers[wID-bridgerBase]
		n := next()
		claim := w.mkClaim(n, 7, w.spec(n, 7, "p"), bAddr.String())
		anyv, _ := codectypes.NewAnyWithValue(claim)
		sa := signers(&crosschaintypes.MsgClaim{ChainName: w.chain, BridgerAddress: wAddr.String(), Claim: anyv})
		w.out.Stats.Extra["tx:signers(MsgClaim wrapper!=inner)"] = fmt.Sprintf("required=%v wrapper=%s inner=%s", sa, wAddr, bAddr)
		votesBefore := w.votesOf(tgt.o.GetOracle())
		w.opTxClaim("MsgClaim-wrapper!=inner", w.bridgerKeys[wID-bridgerBase], wID, bID, n, 7, "p")
		if w.votesOf(tgt.o.GetOracle()) > votesBefore {
			w.violateWith("C02", "signed MsgClaim transaction recorded a vote for an oracle whose registered bridger did not sign (wrapper bridger_address != wrapped claim's bridger_address)",
				[]string{"# tx-level: MsgClaim{bridger_address: W, claim: {bridger_address: B}} signed by W only; FinalizeBlock accepted it and oracle(B)'s vote was recorded",
					"# required signers per codec: " + strings.Join(sa, ",")})
		}
	}
	// (b) wrapper == inner, signed by B
	{
		votesBefore := w.votesOf(tgt.o.GetOracle())
		okb := w.opTxClaim("MsgClaim-wrapper==inner", bKey, bID, bID, next(), 7, "p")
		votedb := w.votesOf(tgt.o.GetOracle()) > votesBefore
		if okb != votedb {
			w.out.Violate("MsgClaim transaction result and vote recording disagree")
		}
		if okb != factBool("C01.claimTxDeliverable") {
			w.out.Count(fmt.Sprintf("tx:deliverability-fact-disagrees(accepted=%v)", okb))
		}
	}
	// (c) the wrapped claim message on its own, signed by B
	claim := mk()
	if cm, ok := claim.(sdk.Msg); ok {
		sc := signers(cm)
		w.out.Stats.Extra["tx:signers(direct claim msg)"] = fmt.Sprintf("required=%v bridger=%s", sc, bAddr)
		okc, votedc := run("direct-claim-msg", bKey, cm)
		if votedc {
			has := false
			for _, x := range sc {
				has = has || x == bAddr.String()
			}
			if !has {
				w.violate("C02", "directly submitted claim message recorded a vote although the counted bridger is not among the required signers")
			}
		}
		if okc && len(factList("C01.directClaimMsgTypes")) == 0 {
			w.violate("C01 C02", "a claim message submitted on its own as a transaction was accepted although no claim type is extracted as a transaction message")
		}
	}
	wAddr := sdk.AccAddress(helpers.NewPriKey().PubKey().Address())
	// every wrapped claim type: the signer the codec derives from the proto signer option must be the bridger the vote
	// is counted for (GetClaimer)
	for _, cm := range []crosschaintypes.ExternalClaim{
		&crosschaintypes.MsgSendToFxClaim{BridgerAddress: bAddr.String()}, &crosschaintypes.MsgBridgeCallClaim{BridgerAddress: bAddr.String()},
		&crosschaintypes.MsgBridgeCallResultClaim{BridgerAddress: bAddr.String()}, &crosschaintypes.MsgSendToExternalClaim{BridgerAddress: bAddr.String()},
		&crosschaintypes.MsgBridgeTokenClaim{BridgerAddress: bAddr.String()}, &crosschaintypes.MsgOracleSetUpdatedClaim{BridgerAddress: bAddr.String()},
	} {
		m, ok := cm.(sdk.Msg)
		if !ok {
			continue
		}
		sg := signers(m)
		w.out.Count("signers:claim-type-checked")
		if len(sg) != 1 || sg[0] != cm.GetClaimer().String() {
			w.violate("C02", fmt.Sprintf("required signer %v of claim message %T is not the bridger the vote is counted for", sg, cm))
		}
	}
	// in-process router (no wire round trip): is the mismatch accepted by ValidateBasic + handler?
	claim = mk()
	anyv, _ := codectypes.NewAnyWithValue(claim)
	md := &crosschaintypes.MsgClaim{ChainName: w.chain, BridgerAddress: wAddr.String(), Claim: anyv}
	cctx, _ := w.s.Ctx.CacheContext()
	vb := md.ValidateBasic()
	var herr error
	if vb == nil {
		_ = hx.Try(func() error { _, herr = w.s.App.MsgServiceRouter().Handler(md)(cctx, md); return nil })
	}
	if o, f := w.k.GetOracle(w.s.Ctx, tgt.o.GetOracle()); !f || !o.Online {
		w.out.Count("inproc:target-went-offline")
		return
	}
	w.out.Stats.Extra["inproc:MsgClaim wrapper!=inner"] = fmt.Sprintf("validateBasicErr=%v handlerErr=%v", vb, herr)
	w.out.Count(fmt.Sprintf("inproc:wrapper!=inner:accepted=%v", vb == nil && herr == nil))
}

// ---------------------------------------------------------------------------------------------------------

func TestC01(t *testing.T) {
	seed := hx.Seed()
	rng := rand.New(rand.NewSource(seed))
	out := hx.NewOut()
	defer out.Close("correspondence: random op sequences (claims with competing hashes / vote interleavings / nonces ahead of and behind lastObserved, bond, add-delegate, edit-bridger, governance oracle updates, real blocks with slashing, unbond + re-bond, executeClaim through the precompile) on real eth/bsc/tron keepers with really bonded oracles, stakes at 66% truncation boundaries; every op's full observation compared with the Lean model; monitors on real state; tx-level signer stream. non-trivial = distinct (op kind, result, lastObserved moved?, membership state)")

	_ = bytes.Equal
	// corpus first
	if dir := os.Getenv("VERIF_CORPUS"); dir != "" {
		files, _ := filepath.Glob(filepath.Join(dir, "*.ops"))
		sort.Strings(files)
		for _, f := range files {
			runScript(t, out, rng, f)
		}
	}
	if rp := hx.ReplayFile(); rp != "" {
		runScript(t, out, rng, rp)
	}

	chains := []string{"eth", "bsc", "tron"}
	runLongHistory(t, hx.NewSuite(t, 1), out, rng, chains[rng.Intn(3)])
	// small-scope exhaustive enumeration: all sequences of length 3 over the 16-letter alphabet; the quick tier runs one
	// sixth of them (chosen by the seed), the thorough tier all of them, on each chain in turn
	{
		parts := hx.N(6, 1)
		chain := chains[int(seed%3+3)%3]
		sw := newWorld(t, hx.NewSuite(t, 1), out, rng, chain, 3, 1, 100, "0.1", 30000)
		out.Count("small-scope:chain:" + chain)
		runSmallScope(sw, 3, int((seed%int64(parts)+int64(parts))%int64(parts)), parts)
	}
	nSeq := hx.N(300, 2400)
	for it := 0; it < nSeq; {
		s := hx.NewSuite(t, 1+rng.Intn(3))
		for _, chain := range chains {
			if it >= nSeq {
				break
			}
			nO := 2 + rng.Intn(6)
			steps := 40 + rng.Intn(80)
			if hx.Tier() == "thorough" && rng.Intn(10) == 0 {
				nO = 10 + rng.Intn(30)
				steps = 300
				if rng.Intn(8) == 0 {
					nO = 100 // MaxOracleSize-scale set
					out.Count("oracles=100")
				}
			}
			w := runRandom(t, s, out, rng, chain, steps, nO)
			if it%5 == 0 {
				w.txLevel()
			}
			it++
		}
	}
	for k, v := range out.Stats.Hist {
		_ = v
		out.Nontrivial(k)
	}
}
