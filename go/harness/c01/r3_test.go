package c01

// round 3: genesis export / import round trips, small-scope exhaustive enumeration, stale recorded total after
// governance removals.

import (
	"fmt"
	"sort"
	"strconv"
	"strings"

	sdkmath "cosmossdk.io/math"
	sdk "github.com/cosmos/cosmos-sdk/types"
	"github.com/ethereum/go-ethereum/common"

	crosschainkeeper "github.com/functionx/fx-core/v8/x/crosschain/keeper"
	crosschaintypes "github.com/functionx/fx-core/v8/x/crosschain/types"

	"fxverif/harness/hx"
)

// field returns the value of `name=` in an observation line
func field(obs, name string) string {
	for _, f := range strings.Fields(obs) {
		if strings.HasPrefix(f, name+"=") {
			return f[len(name)+1:]
		}
	}
	return ""
}

// opGenesis: the chain is stopped, the module state exported (ExportGenesis, through its JSON form), and a fresh store of the
// module is initialised from that genesis (InitGenesis) — everything the module does not export is gone, everything it
// derives is re-derived.  The other modules (bank, staking, erc20, evm) keep their state, as a faithful export / import
// of theirs would.
func (w *world) opGenesis() string {
	before := w.snapshot()
	preObs := w.observe()
	refundsBefore := map[uint64]int64{}
	w.k.IterateOutgoingBridgeCalls(w.s.Ctx, func(o *crosschaintypes.OutgoingBridgeCall) bool {
		if o.EventNonce > 0 {
			refundsBefore[o.EventNonce]++
		}
		return false
	})
	callsBefore := map[[2]uint64]uint64{}
	for k, sp := range w.specs {
		if sp.kind == "r" && w.outCallThere(sp) {
			callsBefore[k] = sp.outNonce
		}
	}
	// the id counters (transfer / batch / bridge-call ids) are not exported either (C05 finding `genesis-id-counters`): with
	// them restarted, a result claim voted before the restart would consume a NEW outgoing bridge call that got the old
	// nonce again.  Not this property's subject: the harness carries the counters over and counts it.
	seqBefore := hx.RawPrefix(w.s.Ctx, w.key, crosschaintypes.SequenceKeyPrefix)
	nPend := len(hx.RawPrefix(w.s.Ctx, w.key, crosschaintypes.PendingExecuteClaimKey))
	res := hx.Try(func() error {
		st := crosschainkeeper.ExportGenesis(w.s.Ctx, w.k)
		cdc := w.s.App.AppCodec()
		bz := cdc.MustMarshalJSON(st)
		var st2 crosschaintypes.GenesisState
		cdc.MustUnmarshalJSON(bz, &st2)
		store := w.s.Ctx.KVStore(w.key)
		var keys [][]byte
		it := store.Iterator(nil, nil)
		for ; it.Valid(); it.Next() {
			keys = append(keys, append([]byte{}, it.Key()...))
		}
		it.Close()
		for _, k := range keys {
			store.Delete(k)
		}
		crosschainkeeper.InitGenesis(w.s.Ctx, w.k, &st2)
		return nil
	})
	// bridge-token bookkeeping is not this property's subject: the FX entry (value == "FX") is skipped by the export and the
	// (Token, Denom) pairs come back under other keys; the harness re-registers its two tokens so that deferred claims keep
	// executing, and records the loss
	if res == "ok" {
		store := w.s.Ctx.KVStore(w.key)
		for _, p := range seqBefore {
			if cur := store.Get(p[0]); len(cur) == 0 || sdk.BigEndianToUint64(cur) < sdk.BigEndianToUint64(p[1]) {
				store.Set(p[0], p[1])
				w.out.Count("genesis:id-counter-restarted(carried over by the harness)")
			}
		}
		if _, ok := w.k.GetBridgeDenomByContract(w.s.Ctx, w.fxToken); !ok {
			w.out.Count("genesis:fx-bridge-token-entry-lost(re-registered)")
			_ = w.k.AddBridgeTokenExecuted(w.s.Ctx, &crosschaintypes.MsgBridgeTokenClaim{TokenContract: w.fxToken, Name: "Function X",
				Symbol: "FX", Decimals: 18, ChainName: w.chain})
		}
		if _, ok := w.k.GetBridgeDenomByContract(w.s.Ctx, w.modToken); !ok {
			w.out.Count("genesis:module-bridge-token-entry-lost(re-registered)")
			sym := "TK" + strings.ToUpper(w.chain)
			_ = w.k.AddBridgeTokenExecuted(w.s.Ctx, &crosschaintypes.MsgBridgeTokenClaim{TokenContract: w.modToken, Name: "Token " + sym,
				Symbol: sym, Decimals: 18, ChainName: w.chain})
		}
	}
	// refund records the export dropped stay counted as effects that took place (they are lost to the external chain: C05)
	after := map[uint64]int64{}
	w.k.IterateOutgoingBridgeCalls(w.s.Ctx, func(o *crosschaintypes.OutgoingBridgeCall) bool {
		if o.EventNonce > 0 {
			after[o.EventNonce]++
		}
		return false
	})
	for n, c := range refundsBefore {
		if d := c - after[n]; d > 0 {
			w.lostRefund[n] += d
			w.out.Count("genesis:refund-record-dropped")
		}
	}
	for k, n := range callsBefore {
		if !w.k.HasOutgoingBridgeCall(w.s.Ctx, n) {
			w.lostCalls[k] = true // (the export does not carry the outgoing bridge calls: C05 matter) not an effect of a result claim
			w.out.Count("genesis:outgoing-bridge-call-dropped")
		}
	}
	if nPend > 0 && len(hx.RawPrefix(w.s.Ctx, w.key, crosschaintypes.PendingExecuteClaimKey)) == 0 {
		w.out.Count("genesis:parked-claims-dropped")
		w.out.Stats.Extra["genesis:parked-claims-dropped"] = "ExportGenesis does not export the pending-execute claims (0x54): observed send-to-fx / bridge-call events parked at export time never take effect after the import"
	}
	w.exDirty = true
	obs := w.observe()
	w.out.Emit("genesis", res+" "+obs)
	w.out.Count("genesis:" + res)
	// the part of the state that the round trip must reproduce exactly
	for _, f := range []string{"lo", "or", "bb", "be", "prop", "atts"} {
		if a, b := field(preObs, f), field(obs, f); a != b {
			key := "genesis-field/" + f
			if !w.reported[key] {
				w.reported[key] = true
				w.violate("C01 C02", fmt.Sprintf("genesis export/import changed `%s` of the module state: %.120s -> %.120s", f, a, b))
			}
		}
	}
	// no oracle may be able to vote again for a nonce it has voted on: every vote must sit at or below the voter's next-nonce base
	for _, a := range w.atts() {
		for _, v := range a.votes {
			if eff := w.k.GetLastEventNonceByOracle(w.s.Ctx, sdk.MustAccAddressFromBech32(v)); eff < a.nonce {
				w.violate("C01", fmt.Sprintf("after genesis import oracle %d can vote again for event nonce %d (its last event nonce was reconstructed as %d)", w.oid(v), a.nonce, eff))
			}
		}
	}
	w.monitors(before)
	return res
}

func cloneB[K comparable](m map[K]bool) map[K]bool {
	c := make(map[K]bool, len(m))
	for k, v := range m {
		c[k] = v
	}
	return c
}

func (w *world) snapshotMon(ctx sdk.Context) *savedWorld {
	sv := &savedWorld{ctx: ctx, prevLo: w.prevLo, observedAt: map[uint64]string{}, executed: cloneB(w.executed), reported: cloneB(w.reported),
		votedH: map[string]map[uint64]uint64{}, hashID: map[string]int{}, specs: map[[2]uint64]claimSpec{}, touched: cloneB(w.touched),
		touchedCode: cloneB(w.touchedCode), exCache: w.exCache, exDirty: w.exDirty}
	for k, v := range w.observedAt {
		sv.observedAt[k] = v
	}
	for k, v := range w.votedH {
		m := map[uint64]uint64{}
		for a, b := range v {
			m[a] = b
		}
		sv.votedH[k] = m
	}
	for k, v := range w.hashID {
		sv.hashID[k] = v
	}
	for k, v := range w.specs {
		sv.specs[k] = v
	}
	return sv
}

// opSave remembers the current state (store branch point + monitor state); every later op runs on a branch of it.
func (w *world) opSave() {
	w.saved = w.snapshotMon(w.s.Ctx)
	w.s.Ctx, _ = w.saved.ctx.CacheContext()
	w.out.Emit("save", "ok")
}

// opLoad drops the branch and starts a new one from the remembered state.
func (w *world) opLoad() {
	if w.saved == nil {
		return
	}
	sv := w.saved
	re := w.snapshotMonFrom(sv)
	w.prevLo, w.observedAt, w.executed, w.reported, w.votedH, w.hashID, w.specs = re.prevLo, re.observedAt, re.executed, re.reported, re.votedH, re.hashID, re.specs
	w.touched, w.touchedCode, w.exCache, w.exDirty = re.touched, re.touchedCode, re.exCache, true
	w.s.Ctx, _ = sv.ctx.CacheContext()
	w.out.Emit("load", "ok")
}

// snapshotMonFrom deep-copies a saved monitor state (so that a branch cannot modify it)
func (w *world) snapshotMonFrom(sv *savedWorld) *savedWorld {
	tmp := &world{prevLo: sv.prevLo, observedAt: sv.observedAt, executed: sv.executed, reported: sv.reported, votedH: sv.votedH, hashID: sv.hashID,
		specs: sv.specs, touched: sv.touched, touchedCode: sv.touchedCode, exCache: sv.exCache, exDirty: sv.exDirty}
	return tmp.snapshotMon(sv.ctx)
}

// endEnum leaves the enumeration: the remembered state becomes the current one again.
func (w *world) endEnum() {
	if w.saved == nil {
		return
	}
	w.opLoad()
	w.s.Ctx = w.saved.ctx
	w.saved = nil
}

// smallScope: EXHAUSTIVE enumeration of all op sequences of length <= depth over a small alphabet (3 oracles x 2 event
// nonces x 2 claim ids, a slashed oracle paying its slash, a governance removal, an unbond, a genesis round trip, a deferred
// execution), each replayed on the real keeper from the same state and on the Lean model (`save` / `load`).
func runSmallScope(w *world, depth int, part, parts int) {
	w.opGov([]int{1, 2, 3})
	w.opBond(1, 101, 201, w.units(40))
	w.opBond(2, 102, 202, w.units(35))
	w.opBond(3, 103, 203, w.units(25)) // total 100, bar 66: {1,2} and {1,2,3} reach it, {1,3}=65 and {2,3}=60 do not
	type letter struct {
		name string
		run  func()
	}
	var alpha []letter
	for o := 1; o <= 3; o++ {
		for n := uint64(1); n <= 2; n++ {
			for _, h := range []uint64{0, 1} {
				o, n, h := o, n, h
				kind := "p"
				if n == 2 {
					kind = "o"
				}
				alpha = append(alpha, letter{fmt.Sprintf("claim%d/%d/%d", o, n, h), func() { w.opClaim(100+o, 100+o, n, h, kind) }})
			}
		}
	}
	alpha = append(alpha,
		letter{"gov-remove-3", func() { w.opGov([]int{1, 2}) }},
		letter{"adddel-3", func() { w.opAddDelegate(3, w.units(1)) }},
		letter{"genesis", func() { w.opGenesis() }},
		letter{"exec-1", func() { w.opExec(&callNode{n: 1, o: 'o'}) }},
	)
	w.opSave()
	count := 0
	var rec func(prefix []int)
	rec = func(prefix []int) {
		if len(prefix) == depth {
			count++
			if count%parts != part {
				return
			}
			w.opLoad()
			for _, i := range prefix {
				alpha[i].run()
			}
			w.out.Count("small-scope:sequence")
			return
		}
		for i := range alpha {
			rec(append(prefix, i))
		}
	}
	rec(nil)
	w.endEnum()
	w.out.Count(fmt.Sprintf("small-scope:alphabet=%d depth=%d part=%d/%d", len(alpha), depth, part, parts))
}

// scenarioGenesis: a state with votes pending on the next nonce, a competing claim, an oracle that is ahead, possibly a
// slashed / governance-removed oracle and parked claims; then export / import; then every oracle tries to vote again for
// the nonces it has voted on (same and competing claim) and the voting goes on.
func (w *world) scenarioGenesis() {
	w.out.Count("scenario:genesis")
	for i := w.rng.Intn(4); i > 0; i-- {
		w.randomClaim()
	}
	if w.opGenesis() != "ok" {
		return
	}
	lo := w.k.GetLastObservedEventNonce(w.s.Ctx)
	for _, r := range w.registered() {
		if !r.o.Online {
			continue
		}
		b := w.bridgerID[r.o.BridgerAddress]
		// repeat: the nonce it voted last (must be refused), with the same and with a competing claim
		if r.lastEff >= 1 && w.rng.Intn(2) == 0 {
			res := w.opClaim(b, b, r.lastEff, uint64(w.rng.Intn(2)), "p")
			w.out.Count("genesis:revote-last-nonce:" + res)
		}
		if w.rng.Intn(3) == 0 {
			res := w.opClaim(b, b, lo+1, uint64(w.rng.Intn(2)), "p")
			w.out.Count("genesis:vote-next:" + res)
		}
	}
	if w.rng.Intn(3) == 0 {
		w.opGenesis() // twice in a row: the second import must change nothing at all
	}
}

// scenarioStaleTotal: governance removes oracles (each removal below 30% of the online power) and NOTHING refreshes the
// recorded total in between: the bar stays at 66% of the old total.  Then every online oracle votes for the next nonce.
// Measured: whether the event is observed (the bar can exceed 100% of the live power after two removals).
func (w *world) scenarioStaleTotal() {
	cur := w.proposalIDs()
	if len(cur) < 4 {
		return
	}
	w.out.Count("scenario:stale-total")
	removed := 0
	for tries := 0; tries < 6 && removed < 2; tries++ {
		cur = w.proposalIDs()
		// remove the smallest online oracle that is on the list
		regs := w.registered()
		sort.Slice(regs, func(i, j int) bool { return regs[i].o.DelegateAmount.LT(regs[j].o.DelegateAmount) })
		done := false
		for _, r := range regs {
			if !r.o.Online {
				continue
			}
			var list []int
			for _, id := range cur {
				if id != r.id {
					list = append(list, id)
				}
			}
			if len(list) == len(cur) || len(list) == 0 {
				continue
			}
			if w.opGov(list) == "ok" {
				removed++
				done = true
				break
			}
		}
		if !done {
			break
		}
	}
	if removed == 0 {
		return
	}
	total := w.k.GetLastTotalPower(w.s.Ctx)
	online := sdkmath.ZeroInt()
	for _, o := range w.k.GetAllOracles(w.s.Ctx, true) {
		online = online.Add(w.power(o))
	}
	req := total.MulRaw(66).QuoRaw(100)
	w.out.Count(fmt.Sprintf("stale-total:removed=%d", removed))
	if online.LT(req) {
		w.out.Count("stale-total:bar-above-live-power(quorum unreachable until a refresh)")
	}
	lo := w.k.GetLastObservedEventNonce(w.s.Ctx)
	// everybody who can, votes for the next nonce
	for round := 0; round < 3; round++ {
		for _, r := range w.registered() {
			if r.o.Online && r.lastEff <= lo {
				b := w.bridgerID[r.o.BridgerAddress]
				w.opClaim(b, b, r.lastEff+1, 0, "o")
			}
		}
	}
	if w.k.GetLastObservedEventNonce(w.s.Ctx) == lo && online.LT(req) {
		w.out.Count("stale-total:all-online-voted,not-observed")
		w.out.Stats.Extra["stale-total"] = "after governance removals without a refresh the recorded total stayed " + total.String() + " (bar " + req.String() + ") while the online power was " + online.String() + ": no event can be observed until SetLastTotalPower runs (liveness, not safety)"
	}
	// an end block (oracle-set request) refreshes the total; afterwards the same votes count
	w.opEndBlock(1)
	_ = strconv.Itoa
	_ = common.Address{}
}
