package c03

// C03 correspondence + monitors for the six `ClaimHash` methods (pure functions: no app boot).
//
//  * correspondence: every generated claim (valid, single-field variants, adversarial re-splits, malformed) is printed
//    as an op line carrying all its fields (text hex-encoded); the observation is the hex of the REAL `ClaimHash()` and
//    the verdict kind of the REAL `ValidateBasic()`.  The Lean driver answers with SHA-256 (implemented in Lean) of
//    the path GENERATED from the source and the model's `valid` verdict; bin/check diffs the two streams.
//  * monitors (the property itself, on the real functions): two claims that pass the real `ValidateBasic`, differ in
//    an effect-relevant field and have equal real `ClaimHash` — per single-field variant, per adjacent-field re-split,
//    and globally over everything generated (including across claim types).

import (
	"encoding/hex"
	"fmt"
	"math/big"
	"math/rand"
	"reflect"
	"strings"
	"testing"

	sdkmath "cosmossdk.io/math"
	sdk "github.com/cosmos/cosmos-sdk/types"
	"github.com/ethereum/go-ethereum/common"

	fxtypes "github.com/functionx/fx-core/v8/types"
	_ "github.com/functionx/fx-core/v8/x/arbitrum/types"
	_ "github.com/functionx/fx-core/v8/x/avalanche/types"
	_ "github.com/functionx/fx-core/v8/x/bsc/types"
	ct "github.com/functionx/fx-core/v8/x/crosschain/types"
	_ "github.com/functionx/fx-core/v8/x/eth/types"
	_ "github.com/functionx/fx-core/v8/x/layer2/types"
	_ "github.com/functionx/fx-core/v8/x/optimism/types"
	_ "github.com/functionx/fx-core/v8/x/polygon/types"
	_ "github.com/functionx/fx-core/v8/x/tron/types"

	"fxverif/harness/hx"
)

// ---------------------------------------------------------------------------------------------------------
// generic view of a claim

type claim interface {
	ct.ExternalClaim
}

type field struct {
	name   string
	effect bool                                // does the field influence execution (see lean/FxVerif/Props/C03.lean)
	mutate func(g *gen, c claim, chain string) // set the field to a different, still valid value
}

type kind struct {
	tag    string
	name   string
	base   func(g *gen, chain string) claim
	clone  func(c claim) claim
	zero   func() claim
	line   func(c claim) string // op line without the trailing checksum bit
	addrs  func(c claim) (chain string, ext []string, bech []string)
	effect func(c claim) string // canonical text of the effect-relevant fields
	fields []field
	nums   []numField // unsigned integer fields (for digit re-splits between two of them)
}

type numField struct {
	name string
	get  func(c claim) uint64
	set  func(c claim, v uint64)
}

type gen struct {
	rng  *rand.Rand
	pool []string // when set, external addresses are mostly drawn from here (registered oracles of the keeper run)
}

var ethChains = []string{"eth", "bsc", "polygon", "avalanche", "arbitrum", "optimism", "layer2"}

func (g *gen) chain() string {
	if g.rng.Intn(4) == 0 {
		return "tron"
	}
	return hx.Pick(g.rng, ethChains)
}

func (g *gen) bytes(n int) []byte {
	b := make([]byte, n)
	g.rng.Read(b)
	return b
}

func (g *gen) ext(chain string) string {
	if len(g.pool) > 0 && g.rng.Intn(8) != 0 {
		return hx.Pick(g.rng, g.pool)
	}
	return ct.ExternalAddrToStr(chain, g.bytes(20))
}

var targetPrefixes = []string{"px", "cosmos", "0x", "fx", "osmo", "PX", " ", "p x", ""}

// target: the texts `SendToFxExecuted` interprets through fxtypes.ParseFxTarget (and near misses of them)
func (g *gen) target() string {
	n := fmt.Sprint(hx.Pick(g.rng, []uint64{0, 1, 7, 10, 99, 1<<64 - 1}))
	if g.rng.Intn(12) == 0 {
		n = hx.Pick(g.rng, []string{"00", "07", "18446744073709551616", "-1", "", "x"})
	}
	px := hx.Pick(g.rng, targetPrefixes)
	switch g.rng.Intn(14) {
	case 0:
		return ""
	case 1:
		return fxtypes.ERC20Target
	case 2:
		return fxtypes.LegacyERC20Target
	case 3:
		return hx.Pick(g.rng, []string{fxtypes.GravityTarget, fxtypes.EthTarget, fxtypes.LegacyChainPrefix + fxtypes.GravityTarget, fxtypes.LegacyChainPrefix + "bsc", "bsc", "tron"})
	case 4, 5:
		return px + "/transfer/channel-" + n
	case 6:
		return fxtypes.IBCPrefix + n + "/" + px
	case 7:
		return fxtypes.IBCPrefix + px + "/transfer/channel-" + n
	case 8:
		return "channel-" + n + "/" + px
	case 9:
		return fxtypes.LegacyChainPrefix + px + "/transfer/channel-" + n
	case 10:
		return px + "/" + hx.Pick(g.rng, []string{"Transfer", "transfer ", "icahost", ""}) + "/channel-" + n
	case 11:
		return "transfer/channel-" + n
	case 12:
		return g.free()
	default:
		return string(g.bytes(1 + g.rng.Intn(12)))
	}
}

func (g *gen) hexCase(s string) string {
	switch g.rng.Intn(4) {
	case 0:
		return strings.ToUpper(s)
	case 1:
		b := []byte(s)
		for i := range b {
			if g.rng.Intn(2) == 0 {
				b[i] = strings.ToUpper(string(b[i]))[0]
			}
		}
		return string(b)
	}
	return s
}

// hexText: a hex-encoded text field (TargetIbc, ChannelIbc): mostly a structured target, sometimes arbitrary bytes
func (g *gen) hexText() string {
	if g.rng.Intn(5) == 0 {
		return g.hexData()
	}
	return g.hexCase(hex.EncodeToString([]byte(g.target())))
}

func (g *gen) hexTextOther(old string) string {
	for {
		v := g.hexText()
		if v != old {
			return v
		}
	}
}

// memo: bridge-call memos are 32-byte words; MemoSendCallTo switches receiver and EVM caller
func (g *gen) memo() string {
	switch g.rng.Intn(4) {
	case 0:
		return g.hexCase(hex.EncodeToString(ct.MemoSendCallTo.Bytes()))
	case 1:
		return ""
	default:
		return g.hexData()
	}
}

func (g *gen) bech() string {
	n := 20
	if g.rng.Intn(16) == 0 {
		n = 32 // fx-core's address verifier only accepts 20 bytes: a rejected bech32 string
	}
	return sdk.AccAddress(g.bytes(n)).String()
}

var u64s = []uint64{1, 2, 9, 10, 11, 99, 100, 101, 255, 256, 1000, 65535, 1 << 31, 1 << 32, 1<<63 - 1, 1 << 63, 1<<64 - 1}

func (g *gen) u64() uint64 {
	switch g.rng.Intn(3) {
	case 0:
		return hx.Pick(g.rng, u64s)
	case 1:
		return uint64(g.rng.Intn(1000)) + 1
	default:
		return g.rng.Uint64()>>uint(g.rng.Intn(64)) + 1
	}
}

func (g *gen) u64Other(old uint64) uint64 {
	for {
		v := g.u64()
		if v != old && v != 0 {
			return v
		}
	}
}

// non-negative amounts up to 2^256-1
func (g *gen) amount() sdkmath.Int {
	switch g.rng.Intn(5) {
	case 0:
		return sdkmath.NewInt(int64(g.rng.Intn(3)))
	case 1:
		return sdkmath.NewIntFromBigInt(new(big.Int).Sub(new(big.Int).Lsh(big.NewInt(1), 256), big.NewInt(1)))
	case 2:
		return sdkmath.NewIntFromBigInt(new(big.Int).Exp(big.NewInt(10), big.NewInt(int64(g.rng.Intn(60))), nil))
	default:
		return sdkmath.NewIntFromBigInt(new(big.Int).SetBytes(g.bytes(1 + g.rng.Intn(32))))
	}
}

// list amounts are not validated by ValidateBasic: negative and nil values too
func (g *gen) anyAmount() sdkmath.Int {
	switch g.rng.Intn(8) {
	case 0:
		return sdkmath.Int{}
	case 1:
		return g.amount().Neg()
	default:
		return g.amount()
	}
}

func (g *gen) amountOther(old sdkmath.Int) sdkmath.Int {
	for {
		v := g.amount()
		if old.IsNil() || !v.Equal(old) {
			return v
		}
	}
}

func (g *gen) hexData() string {
	if g.rng.Intn(4) == 0 {
		return ""
	}
	s := hex.EncodeToString(g.bytes(1 + g.rng.Intn(40)))
	switch g.rng.Intn(3) {
	case 0:
		return strings.ToUpper(s)
	case 1:
		// mixed case
		b := []byte(s)
		for i := range b {
			if g.rng.Intn(2) == 0 {
				b[i] = strings.ToUpper(string(b[i]))[0]
			}
		}
		return string(b)
	}
	return s
}

func (g *gen) hexOther(old string) string {
	for {
		v := g.hexData()
		if v != old {
			return v
		}
	}
}

var freeAlphabet = []string{"/", "/", "[", "]", " ", "{", "}", "0", "1", "9", "x", "F", "X", "A", "fx", "FX", "%", "\\", "\"", "é", "\xff", "\x00", "-", "<nil>", "0x", "T"}

func (g *gen) free() string {
	n := 1 + g.rng.Intn(6)
	var sb strings.Builder
	for i := 0; i < n; i++ {
		sb.WriteString(hx.Pick(g.rng, freeAlphabet))
	}
	return sb.String()
}

func (g *gen) freeOther(old string) string {
	for {
		v := g.free()
		if v != old {
			return v
		}
	}
}

func (g *gen) extOther(chain, old string) string {
	for {
		v := g.ext(chain)
		if v != old {
			return v
		}
	}
}

// ---------------------------------------------------------------------------------------------------------
// op-line encoding

func encInt(i sdkmath.Int) string {
	if i.IsNil() {
		return "nil"
	}
	return i.BigInt().String()
}

func encList(xs []string) string {
	var sb strings.Builder
	sb.WriteString("L")
	for _, x := range xs {
		sb.WriteString("," + hx.HexS(x))
	}
	return sb.String()
}

func encInts(xs []sdkmath.Int) string {
	var sb strings.Builder
	sb.WriteString("L")
	for _, x := range xs {
		sb.WriteString("," + encInt(x))
	}
	return sb.String()
}

func encMembers(ms []ct.BridgeValidator) string {
	var sb strings.Builder
	sb.WriteString("L")
	for _, m := range ms {
		fmt.Fprintf(&sb, ",%d:%s", m.Power, hx.HexS(m.ExternalAddress))
	}
	return sb.String()
}

func b01(b bool) string {
	if b {
		return "1"
	}
	return "0"
}

// ck: every address-like field passes the real (checksum-bearing) validator; the model checks the character class
// and takes this bit for the part it does not model (Keccak / double-SHA / bech32 checksums, bech32 prefix).
func ckBit(k *kind, c claim) string {
	chain, ext, bech := k.addrs(c)
	known := false
	for _, n := range ct.GetSupportChains() {
		if n == chain {
			known = true
		}
	}
	for _, a := range ext {
		if known && ct.ValidateExternalAddr(chain, a) != nil {
			return "0"
		}
	}
	for _, a := range bech {
		if _, err := sdk.AccAddressFromBech32(a); err != nil {
			return "0"
		}
	}
	return "1"
}

func verdict(c claim) (res string) {
	defer func() {
		if r := recover(); r != nil {
			res = "panic"
		}
	}()
	if err := c.ValidateBasic(); err != nil {
		return "invalid"
	}
	return "ok"
}

func hashOf(c claim) (res string) {
	defer func() {
		if r := recover(); r != nil {
			res = "panic"
		}
	}()
	return hex.EncodeToString(c.ClaimHash())
}

// ---------------------------------------------------------------------------------------------------------
// the six claim types

func kinds() []*kind {
	stf := &kind{tag: "stf", name: "MsgSendToFxClaim", zero: func() claim { return &ct.MsgSendToFxClaim{} },
		base: func(g *gen, ch string) claim {
			return &ct.MsgSendToFxClaim{EventNonce: g.u64(), BlockHeight: g.u64(), TokenContract: g.ext(ch), Amount: g.amount(),
				Sender: g.ext(ch), Receiver: g.bech(), TargetIbc: g.hexText(), BridgerAddress: g.bech(), ChainName: ch}
		},
		clone: func(c claim) claim { cp := *c.(*ct.MsgSendToFxClaim); return &cp },
		line: func(c claim) string {
			m := c.(*ct.MsgSendToFxClaim)
			return fmt.Sprintf("stf %s %s %d %d %s %s %s %s %s", hx.HexS(m.ChainName), hx.HexS(m.BridgerAddress), m.EventNonce, m.BlockHeight,
				hx.HexS(m.TokenContract), encInt(m.Amount), hx.HexS(m.Sender), hx.HexS(m.Receiver), hx.HexS(m.TargetIbc))
		},
		addrs: func(c claim) (string, []string, []string) {
			m := c.(*ct.MsgSendToFxClaim)
			return m.ChainName, []string{m.Sender, m.TokenContract}, []string{m.BridgerAddress, m.Receiver}
		},
		effect: func(c claim) string {
			m := c.(*ct.MsgSendToFxClaim)
			return fmt.Sprintf("%d|%d|%q|%s|%q|%q|%q", m.EventNonce, m.BlockHeight, m.TokenContract, encInt(m.Amount), m.Sender, m.Receiver, m.TargetIbc)
		},
		fields: []field{
			{"EventNonce", true, func(g *gen, c claim, ch string) {
				m := c.(*ct.MsgSendToFxClaim)
				m.EventNonce = g.u64Other(m.EventNonce)
			}},
			{"BlockHeight", true, func(g *gen, c claim, ch string) {
				m := c.(*ct.MsgSendToFxClaim)
				m.BlockHeight = g.u64Other(m.BlockHeight)
			}},
			{"TokenContract", true, func(g *gen, c claim, ch string) {
				m := c.(*ct.MsgSendToFxClaim)
				m.TokenContract = g.extOther(ch, m.TokenContract)
			}},
			{"Amount", true, func(g *gen, c claim, ch string) { m := c.(*ct.MsgSendToFxClaim); m.Amount = g.amountOther(m.Amount) }},
			{"Sender", true, func(g *gen, c claim, ch string) { m := c.(*ct.MsgSendToFxClaim); m.Sender = g.extOther(ch, m.Sender) }},
			{"Receiver", true, func(g *gen, c claim, ch string) { m := c.(*ct.MsgSendToFxClaim); m.Receiver = g.bech() }},
			{"TargetIbc", true, func(g *gen, c claim, ch string) {
				m := c.(*ct.MsgSendToFxClaim)
				m.TargetIbc = g.hexTextOther(m.TargetIbc)
			}},
			{"BridgerAddress", false, func(g *gen, c claim, ch string) { m := c.(*ct.MsgSendToFxClaim); m.BridgerAddress = g.bech() }},
		}}

	bc := &kind{tag: "bc", name: "MsgBridgeCallClaim", zero: func() claim { return &ct.MsgBridgeCallClaim{} },
		base: func(g *gen, ch string) claim {
			n := g.rng.Intn(4)
			if g.rng.Intn(10) == 0 {
				n = 8
			}
			m := &ct.MsgBridgeCallClaim{ChainName: ch, BridgerAddress: g.bech(), EventNonce: g.u64(), BlockHeight: g.u64(), Sender: g.ext(ch),
				Refund: g.ext(ch), To: g.ext(ch), Data: g.hexData(), Value: g.amount(), Memo: g.memo(), TxOrigin: g.ext(ch),
				TokenContracts: []string{}, Amounts: []sdkmath.Int{}}
			for i := 0; i < n; i++ {
				m.TokenContracts = append(m.TokenContracts, g.ext(ch))
				m.Amounts = append(m.Amounts, g.anyAmount())
			}
			return m
		},
		clone: func(c claim) claim {
			cp := *c.(*ct.MsgBridgeCallClaim)
			cp.TokenContracts = append([]string{}, cp.TokenContracts...)
			cp.Amounts = append([]sdkmath.Int{}, cp.Amounts...)
			return &cp
		},
		line: func(c claim) string {
			m := c.(*ct.MsgBridgeCallClaim)
			return fmt.Sprintf("bc %s %s %d %d %s %s %s %s %s %s %s %s %s", hx.HexS(m.ChainName), hx.HexS(m.BridgerAddress), m.EventNonce, m.BlockHeight,
				hx.HexS(m.Sender), hx.HexS(m.Refund), encList(m.TokenContracts), encInts(m.Amounts), hx.HexS(m.To), hx.HexS(m.Data), encInt(m.Value),
				hx.HexS(m.Memo), hx.HexS(m.TxOrigin))
		},
		addrs: func(c claim) (string, []string, []string) {
			m := c.(*ct.MsgBridgeCallClaim)
			return m.ChainName, append([]string{m.Sender, m.Refund, m.To, m.TxOrigin}, m.TokenContracts...), []string{m.BridgerAddress}
		},
		effect: func(c claim) string {
			m := c.(*ct.MsgBridgeCallClaim)
			return fmt.Sprintf("%d|%d|%q|%q|%q|%q|%s|%q|%s|%q|%q", m.EventNonce, m.BlockHeight, m.Sender, m.Refund, m.To, m.TokenContracts,
				encInts(m.Amounts), m.Data, encInt(m.Value), m.Memo, m.TxOrigin)
		},
		fields: []field{
			{"EventNonce", true, func(g *gen, c claim, ch string) {
				m := c.(*ct.MsgBridgeCallClaim)
				m.EventNonce = g.u64Other(m.EventNonce)
			}},
			{"BlockHeight", true, func(g *gen, c claim, ch string) {
				m := c.(*ct.MsgBridgeCallClaim)
				m.BlockHeight = g.u64Other(m.BlockHeight)
			}},
			{"Sender", true, func(g *gen, c claim, ch string) { m := c.(*ct.MsgBridgeCallClaim); m.Sender = g.extOther(ch, m.Sender) }},
			{"Refund", true, func(g *gen, c claim, ch string) { m := c.(*ct.MsgBridgeCallClaim); m.Refund = g.extOther(ch, m.Refund) }},
			{"To", true, func(g *gen, c claim, ch string) { m := c.(*ct.MsgBridgeCallClaim); m.To = g.extOther(ch, m.To) }},
			{"TokenContracts", true, func(g *gen, c claim, ch string) {
				m := c.(*ct.MsgBridgeCallClaim)
				if len(m.TokenContracts) == 0 {
					m.TokenContracts = append(m.TokenContracts, g.ext(ch))
					m.Amounts = append(m.Amounts, g.anyAmount())
					return
				}
				i := g.rng.Intn(len(m.TokenContracts))
				m.TokenContracts[i] = g.extOther(ch, m.TokenContracts[i])
			}},
			{"Amounts", true, func(g *gen, c claim, ch string) {
				m := c.(*ct.MsgBridgeCallClaim)
				if len(m.Amounts) == 0 {
					m.TokenContracts = append(m.TokenContracts, g.ext(ch))
					m.Amounts = append(m.Amounts, g.anyAmount())
					return
				}
				i := g.rng.Intn(len(m.Amounts))
				old := encInt(m.Amounts[i])
				for encInt(m.Amounts[i]) == old {
					m.Amounts[i] = g.anyAmount()
				}
			}},
			{"Data", true, func(g *gen, c claim, ch string) { m := c.(*ct.MsgBridgeCallClaim); m.Data = g.hexOther(m.Data) }},
			{"Value", true, func(g *gen, c claim, ch string) { m := c.(*ct.MsgBridgeCallClaim); m.Value = g.amountOther(m.Value) }},
			{"Memo", true, func(g *gen, c claim, ch string) {
				m := c.(*ct.MsgBridgeCallClaim)
				sendCallTo := hex.EncodeToString(ct.MemoSendCallTo.Bytes())
				if m.Memo != sendCallTo && g.rng.Intn(2) == 0 {
					m.Memo = sendCallTo
				} else {
					m.Memo = g.hexOther(m.Memo)
				}
			}},
			{"TxOrigin", true, func(g *gen, c claim, ch string) {
				m := c.(*ct.MsgBridgeCallClaim)
				m.TxOrigin = g.extOther(ch, m.TxOrigin)
			}},
			{"BridgerAddress", false, func(g *gen, c claim, ch string) { m := c.(*ct.MsgBridgeCallClaim); m.BridgerAddress = g.bech() }},
		}}

	bcr := &kind{tag: "bcr", name: "MsgBridgeCallResultClaim", zero: func() claim { return &ct.MsgBridgeCallResultClaim{} },
		base: func(g *gen, ch string) claim {
			return &ct.MsgBridgeCallResultClaim{ChainName: ch, BridgerAddress: g.bech(), EventNonce: g.u64(), BlockHeight: g.u64(), Nonce: g.u64(),
				TxOrigin: g.ext(ch), Success: g.rng.Intn(2) == 0, Cause: g.hexData()}
		},
		clone: func(c claim) claim { cp := *c.(*ct.MsgBridgeCallResultClaim); return &cp },
		line: func(c claim) string {
			m := c.(*ct.MsgBridgeCallResultClaim)
			return fmt.Sprintf("bcr %s %s %d %d %d %s %s %s", hx.HexS(m.ChainName), hx.HexS(m.BridgerAddress), m.EventNonce, m.BlockHeight, m.Nonce,
				hx.HexS(m.TxOrigin), b01(m.Success), hx.HexS(m.Cause))
		},
		addrs: func(c claim) (string, []string, []string) {
			m := c.(*ct.MsgBridgeCallResultClaim)
			return m.ChainName, []string{m.TxOrigin}, []string{m.BridgerAddress}
		},
		effect: func(c claim) string {
			m := c.(*ct.MsgBridgeCallResultClaim)
			return fmt.Sprintf("%d|%d|%d|%q|%v|%q", m.EventNonce, m.BlockHeight, m.Nonce, m.TxOrigin, m.Success, m.Cause)
		},
		fields: []field{
			{"EventNonce", true, func(g *gen, c claim, ch string) {
				m := c.(*ct.MsgBridgeCallResultClaim)
				m.EventNonce = g.u64Other(m.EventNonce)
			}},
			{"BlockHeight", true, func(g *gen, c claim, ch string) {
				m := c.(*ct.MsgBridgeCallResultClaim)
				m.BlockHeight = g.u64Other(m.BlockHeight)
			}},
			{"Nonce", true, func(g *gen, c claim, ch string) { m := c.(*ct.MsgBridgeCallResultClaim); m.Nonce = g.u64Other(m.Nonce) }},
			{"TxOrigin", true, func(g *gen, c claim, ch string) {
				m := c.(*ct.MsgBridgeCallResultClaim)
				m.TxOrigin = g.extOther(ch, m.TxOrigin)
			}},
			{"Success", true, func(g *gen, c claim, ch string) { m := c.(*ct.MsgBridgeCallResultClaim); m.Success = !m.Success }},
			{"Cause", true, func(g *gen, c claim, ch string) { m := c.(*ct.MsgBridgeCallResultClaim); m.Cause = g.hexOther(m.Cause) }},
			{"BridgerAddress", false, func(g *gen, c claim, ch string) { m := c.(*ct.MsgBridgeCallResultClaim); m.BridgerAddress = g.bech() }},
		}}

	ste := &kind{tag: "ste", name: "MsgSendToExternalClaim", zero: func() claim { return &ct.MsgSendToExternalClaim{} },
		base: func(g *gen, ch string) claim {
			return &ct.MsgSendToExternalClaim{EventNonce: g.u64(), BlockHeight: g.u64(), BatchNonce: g.u64(), TokenContract: g.ext(ch),
				BridgerAddress: g.bech(), ChainName: ch}
		},
		clone: func(c claim) claim { cp := *c.(*ct.MsgSendToExternalClaim); return &cp },
		line: func(c claim) string {
			m := c.(*ct.MsgSendToExternalClaim)
			return fmt.Sprintf("ste %s %s %d %d %d %s", hx.HexS(m.ChainName), hx.HexS(m.BridgerAddress), m.EventNonce, m.BlockHeight, m.BatchNonce,
				hx.HexS(m.TokenContract))
		},
		addrs: func(c claim) (string, []string, []string) {
			m := c.(*ct.MsgSendToExternalClaim)
			return m.ChainName, []string{m.TokenContract}, []string{m.BridgerAddress}
		},
		effect: func(c claim) string {
			m := c.(*ct.MsgSendToExternalClaim)
			return fmt.Sprintf("%d|%d|%d|%q", m.EventNonce, m.BlockHeight, m.BatchNonce, m.TokenContract)
		},
		fields: []field{
			{"EventNonce", true, func(g *gen, c claim, ch string) {
				m := c.(*ct.MsgSendToExternalClaim)
				m.EventNonce = g.u64Other(m.EventNonce)
			}},
			{"BlockHeight", true, func(g *gen, c claim, ch string) {
				m := c.(*ct.MsgSendToExternalClaim)
				m.BlockHeight = g.u64Other(m.BlockHeight)
			}},
			{"BatchNonce", true, func(g *gen, c claim, ch string) {
				m := c.(*ct.MsgSendToExternalClaim)
				m.BatchNonce = g.u64Other(m.BatchNonce)
			}},
			{"TokenContract", true, func(g *gen, c claim, ch string) {
				m := c.(*ct.MsgSendToExternalClaim)
				m.TokenContract = g.extOther(ch, m.TokenContract)
			}},
			{"BridgerAddress", false, func(g *gen, c claim, ch string) { m := c.(*ct.MsgSendToExternalClaim); m.BridgerAddress = g.bech() }},
		}}

	bt := &kind{tag: "bt", name: "MsgBridgeTokenClaim", zero: func() claim { return &ct.MsgBridgeTokenClaim{} },
		base: func(g *gen, ch string) claim {
			m := &ct.MsgBridgeTokenClaim{EventNonce: g.u64(), BlockHeight: g.u64(), TokenContract: g.ext(ch), Name: g.free(), Symbol: g.free(),
				Decimals: uint64(g.rng.Intn(40)), BridgerAddress: g.bech(), ChannelIbc: g.hexText(), ChainName: ch}
			if g.rng.Intn(4) == 0 {
				m.Symbol = fxtypes.DefaultDenom
				m.Decimals = 18
			}
			return m
		},
		clone: func(c claim) claim { cp := *c.(*ct.MsgBridgeTokenClaim); return &cp },
		line: func(c claim) string {
			m := c.(*ct.MsgBridgeTokenClaim)
			return fmt.Sprintf("bt %s %s %d %d %s %s %s %d %s", hx.HexS(m.ChainName), hx.HexS(m.BridgerAddress), m.EventNonce, m.BlockHeight,
				hx.HexS(m.TokenContract), hx.HexS(m.Name), hx.HexS(m.Symbol), m.Decimals, hx.HexS(m.ChannelIbc))
		},
		addrs: func(c claim) (string, []string, []string) {
			m := c.(*ct.MsgBridgeTokenClaim)
			return m.ChainName, []string{m.TokenContract}, []string{m.BridgerAddress}
		},
		effect: func(c claim) string {
			m := c.(*ct.MsgBridgeTokenClaim)
			// Name is not read by AddBridgeTokenExecuted: not part of the effect
			return fmt.Sprintf("%d|%d|%q|%q|%d|%q", m.EventNonce, m.BlockHeight, m.TokenContract, m.Symbol, m.Decimals, m.ChannelIbc)
		},
		fields: []field{
			{"EventNonce", true, func(g *gen, c claim, ch string) {
				m := c.(*ct.MsgBridgeTokenClaim)
				m.EventNonce = g.u64Other(m.EventNonce)
			}},
			{"BlockHeight", true, func(g *gen, c claim, ch string) {
				m := c.(*ct.MsgBridgeTokenClaim)
				m.BlockHeight = g.u64Other(m.BlockHeight)
			}},
			{"TokenContract", true, func(g *gen, c claim, ch string) {
				m := c.(*ct.MsgBridgeTokenClaim)
				m.TokenContract = g.extOther(ch, m.TokenContract)
			}},
			{"Name", false, func(g *gen, c claim, ch string) { m := c.(*ct.MsgBridgeTokenClaim); m.Name = g.freeOther(m.Name) }},
			{"Symbol", true, func(g *gen, c claim, ch string) { m := c.(*ct.MsgBridgeTokenClaim); m.Symbol = g.freeOther(m.Symbol) }},
			{"Decimals", true, func(g *gen, c claim, ch string) {
				m := c.(*ct.MsgBridgeTokenClaim)
				m.Decimals = g.u64Other(m.Decimals)
			}},
			{"ChannelIbc", true, func(g *gen, c claim, ch string) {
				m := c.(*ct.MsgBridgeTokenClaim)
				m.ChannelIbc = g.hexTextOther(m.ChannelIbc)
			}},
			{"BridgerAddress", false, func(g *gen, c claim, ch string) { m := c.(*ct.MsgBridgeTokenClaim); m.BridgerAddress = g.bech() }},
		}}

	osu := &kind{tag: "osu", name: "MsgOracleSetUpdatedClaim", zero: func() claim { return &ct.MsgOracleSetUpdatedClaim{} },
		base: func(g *gen, ch string) claim {
			n := 1 + g.rng.Intn(4)
			if g.rng.Intn(10) == 0 {
				n = 20
			}
			m := &ct.MsgOracleSetUpdatedClaim{EventNonce: g.u64(), BlockHeight: g.u64(), OracleSetNonce: g.u64() - 1, BridgerAddress: g.bech(), ChainName: ch}
			for i := 0; i < n; i++ {
				m.Members = append(m.Members, ct.BridgeValidator{Power: g.u64(), ExternalAddress: g.ext(ch)})
			}
			return m
		},
		clone: func(c claim) claim {
			cp := *c.(*ct.MsgOracleSetUpdatedClaim)
			cp.Members = append([]ct.BridgeValidator{}, cp.Members...)
			return &cp
		},
		line: func(c claim) string {
			m := c.(*ct.MsgOracleSetUpdatedClaim)
			return fmt.Sprintf("osu %s %s %d %d %d %s", hx.HexS(m.ChainName), hx.HexS(m.BridgerAddress), m.EventNonce, m.BlockHeight, m.OracleSetNonce,
				encMembers(m.Members))
		},
		addrs: func(c claim) (string, []string, []string) {
			m := c.(*ct.MsgOracleSetUpdatedClaim)
			var ext []string
			for _, mm := range m.Members {
				ext = append(ext, mm.ExternalAddress)
			}
			return m.ChainName, ext, []string{m.BridgerAddress}
		},
		effect: func(c claim) string {
			m := c.(*ct.MsgOracleSetUpdatedClaim)
			return fmt.Sprintf("%d|%d|%d|%s", m.EventNonce, m.BlockHeight, m.OracleSetNonce, encMembers(m.Members))
		},
		fields: []field{
			{"EventNonce", true, func(g *gen, c claim, ch string) {
				m := c.(*ct.MsgOracleSetUpdatedClaim)
				m.EventNonce = g.u64Other(m.EventNonce)
			}},
			{"BlockHeight", true, func(g *gen, c claim, ch string) {
				m := c.(*ct.MsgOracleSetUpdatedClaim)
				m.BlockHeight = g.u64Other(m.BlockHeight)
			}},
			{"OracleSetNonce", true, func(g *gen, c claim, ch string) {
				m := c.(*ct.MsgOracleSetUpdatedClaim)
				m.OracleSetNonce = g.u64Other(m.OracleSetNonce)
			}},
			{"Members", true, func(g *gen, c claim, ch string) {
				m := c.(*ct.MsgOracleSetUpdatedClaim)
				i := g.rng.Intn(len(m.Members))
				switch g.rng.Intn(4) {
				case 0:
					m.Members[i].Power = g.u64Other(m.Members[i].Power)
				case 1:
					m.Members[i].ExternalAddress = g.extOther(ch, m.Members[i].ExternalAddress)
				case 2:
					m.Members = append(m.Members, ct.BridgeValidator{Power: g.u64(), ExternalAddress: g.ext(ch)})
				default:
					if len(m.Members) > 1 {
						m.Members = m.Members[:len(m.Members)-1]
					} else {
						m.Members[i].Power = g.u64Other(m.Members[i].Power)
					}
				}
			}},
			{"BridgerAddress", false, func(g *gen, c claim, ch string) { m := c.(*ct.MsgOracleSetUpdatedClaim); m.BridgerAddress = g.bech() }},
		}}
	stf.nums = []numField{
		{"EventNonce", func(c claim) uint64 { return c.(*ct.MsgSendToFxClaim).EventNonce }, func(c claim, v uint64) { c.(*ct.MsgSendToFxClaim).EventNonce = v }},
		{"BlockHeight", func(c claim) uint64 { return c.(*ct.MsgSendToFxClaim).BlockHeight }, func(c claim, v uint64) { c.(*ct.MsgSendToFxClaim).BlockHeight = v }},
	}
	bc.nums = []numField{
		{"EventNonce", func(c claim) uint64 { return c.(*ct.MsgBridgeCallClaim).EventNonce }, func(c claim, v uint64) { c.(*ct.MsgBridgeCallClaim).EventNonce = v }},
		{"BlockHeight", func(c claim) uint64 { return c.(*ct.MsgBridgeCallClaim).BlockHeight }, func(c claim, v uint64) { c.(*ct.MsgBridgeCallClaim).BlockHeight = v }},
	}
	bcr.nums = []numField{
		{"EventNonce", func(c claim) uint64 { return c.(*ct.MsgBridgeCallResultClaim).EventNonce }, func(c claim, v uint64) { c.(*ct.MsgBridgeCallResultClaim).EventNonce = v }},
		{"BlockHeight", func(c claim) uint64 { return c.(*ct.MsgBridgeCallResultClaim).BlockHeight }, func(c claim, v uint64) { c.(*ct.MsgBridgeCallResultClaim).BlockHeight = v }},
		{"Nonce", func(c claim) uint64 { return c.(*ct.MsgBridgeCallResultClaim).Nonce }, func(c claim, v uint64) { c.(*ct.MsgBridgeCallResultClaim).Nonce = v }},
	}
	ste.nums = []numField{
		{"EventNonce", func(c claim) uint64 { return c.(*ct.MsgSendToExternalClaim).EventNonce }, func(c claim, v uint64) { c.(*ct.MsgSendToExternalClaim).EventNonce = v }},
		{"BlockHeight", func(c claim) uint64 { return c.(*ct.MsgSendToExternalClaim).BlockHeight }, func(c claim, v uint64) { c.(*ct.MsgSendToExternalClaim).BlockHeight = v }},
		{"BatchNonce", func(c claim) uint64 { return c.(*ct.MsgSendToExternalClaim).BatchNonce }, func(c claim, v uint64) { c.(*ct.MsgSendToExternalClaim).BatchNonce = v }},
	}
	bt.nums = []numField{
		{"EventNonce", func(c claim) uint64 { return c.(*ct.MsgBridgeTokenClaim).EventNonce }, func(c claim, v uint64) { c.(*ct.MsgBridgeTokenClaim).EventNonce = v }},
		{"BlockHeight", func(c claim) uint64 { return c.(*ct.MsgBridgeTokenClaim).BlockHeight }, func(c claim, v uint64) { c.(*ct.MsgBridgeTokenClaim).BlockHeight = v }},
		{"Decimals", func(c claim) uint64 { return c.(*ct.MsgBridgeTokenClaim).Decimals }, func(c claim, v uint64) { c.(*ct.MsgBridgeTokenClaim).Decimals = v }},
	}
	osu.nums = []numField{
		{"EventNonce", func(c claim) uint64 { return c.(*ct.MsgOracleSetUpdatedClaim).EventNonce }, func(c claim, v uint64) { c.(*ct.MsgOracleSetUpdatedClaim).EventNonce = v }},
		{"BlockHeight", func(c claim) uint64 { return c.(*ct.MsgOracleSetUpdatedClaim).BlockHeight }, func(c claim, v uint64) { c.(*ct.MsgOracleSetUpdatedClaim).BlockHeight = v }},
		{"OracleSetNonce", func(c claim) uint64 { return c.(*ct.MsgOracleSetUpdatedClaim).OracleSetNonce }, func(c claim, v uint64) { c.(*ct.MsgOracleSetUpdatedClaim).OracleSetNonce = v }},
	}
	return []*kind{stf, bc, bcr, ste, bt, osu}
}

// resplit moves one decimal digit from the front of numeric field j to the end of numeric field i: the concatenation of
// the two renderings stays the same ("1"+"23" vs "12"+"3") — collides iff the two are printed without a separator
func (r *run) resplit(g *gen, k *kind, base claim) {
	for i := range k.nums {
		for j := range k.nums {
			if i == j {
				continue
			}
			a := k.clone(base)
			x := uint64(1 + g.rng.Intn(99))
			y := uint64(10 + g.rng.Intn(990))
			k.nums[i].set(a, x)
			k.nums[j].set(a, y)
			ys := fmt.Sprint(y)
			var x2, y2 uint64
			fmt.Sscan(fmt.Sprint(x)+ys[:1], &x2)
			fmt.Sscan(ys[1:], &y2)
			if fmt.Sprint(y2) != ys[1:] || y2 == 0 {
				continue // leading zero: not the same digit string
			}
			b := k.clone(base)
			k.nums[i].set(b, x2)
			k.nums[j].set(b, y2)
			r.pair(k, "the split of "+k.nums[i].name+"/"+k.nums[j].name, a, b)
		}
	}
}

// ---------------------------------------------------------------------------------------------------------
// emission and monitors

type seen struct {
	kind   string
	effect string
	line   string
}

type run struct {
	out        *hx.Out
	global     map[string]seen // real hash -> first valid claim with that hash
	reported   map[string]bool
	nViol      map[string]int
	nVariants  int
	facts      map[string]factClaim
	found      []collision // colliding pairs found by the pure search, replayed on the real keeper
	corpus     []loadedPair
	nPure      int // violations recorded by the pure search
	nOutcome   int // handler-outcome comparisons done on the real keeper
	nOutcomeBy map[string]int
	rng        *rand.Rand
}

// collision: two ValidateBasic-valid claims of one type with different effect and the same real ClaimHash
type collision struct {
	k    *kind
	what string
	a, b claim
}

// emit prints the claim and returns (hash, verdict, line)
func (r *run) emit(k *kind, c claim) (string, string, string) {
	line := k.line(c) + " " + ckBit(k, c)
	h, v := hashOf(c), verdict(c)
	r.record(k, c, h, v, line)
	return h, v, line
}

// violate records a monitor violation, once per description; the pure search may use at most 24 of the 50 slots of the
// shared record so that what the real keeper shows afterwards is always reported too
func (r *run) violate(desc string, replay []string) {
	r.nViol[desc]++
	if r.nViol[desc] > 1 {
		return
	}
	if !strings.HasPrefix(desc, "real keeper") {
		r.nPure++
		if r.nPure > 24 {
			return
		}
	}
	r.out.ViolateWith(desc, replay)
}

func (r *run) record(k *kind, c claim, h, v, line string) {
	r.out.Emit(line, h+" "+v)
	r.out.Count(k.tag + ":" + v)
	if v != "ok" {
		return
	}
	eff := k.effect(c)
	prev, ok := r.global[h]
	if !ok {
		r.global[h] = seen{k.name, eff, line}
		return
	}
	if (prev.kind != k.name || prev.effect != eff) && !r.reported[h] {
		r.reported[h] = true
		r.violate(fmt.Sprintf("%s and %s: two valid claims with different executed effect share a ClaimHash (global search)", prev.kind, k.name),
			[]string{prev.line, line, "# both pass ValidateBasic; real ClaimHash of both = " + h})
	}
}

func (r *run) pair(k *kind, what string, a, b claim) {
	ha, va, la := r.emit(k, a)
	r.against(k, what, a, ha, va, la, b)
}

// against emits b and compares it with the already emitted claim a
func (r *run) against(k *kind, what string, a claim, ha, va, la string, b claim) {
	lb, hb, vb := r.monitor(k, what, a, ha, va, la, b)
	r.record(k, b, hb, vb, lb)
}

// check compares b with the already emitted claim a on the real functions only (b is not sent through the model)
func (r *run) check(k *kind, what string, a claim, ha, va, la string, b claim) {
	r.monitor(k, what, a, ha, va, la, b)
}

// monitor: the property on the real functions — two valid claims with different executed effect must not share a hash
func (r *run) monitor(k *kind, what string, a claim, ha, va, la string, b claim) (lb, hb, vb string) {
	lb = k.line(b) + " " + ckBit(k, b)
	hb, vb = hashOf(b), verdict(b)
	r.out.Count("pair:" + va + "/" + vb)
	if va == "ok" && vb == "ok" {
		r.out.Nontrivial(k.tag + ":" + what)
		if ha == hb && k.effect(a) != k.effect(b) {
			r.reported[ha] = true
			desc := fmt.Sprintf("%s: valid claims differing only in %s share a ClaimHash", k.name, what)
			if interpreted(k, a) != interpreted(k, b) {
				// not merely two spellings of one value: the handlers act differently on the two claims
				desc += "; the handlers interpret the two differently"
			}
			if r.nViol[desc] == 0 {
				r.found = append(r.found, collision{k, what, k.clone(a), k.clone(b)})
			}
			r.violate(desc,
				[]string{la, lb, "# both pass ValidateBasic; real ClaimHash of both = " + ha, fmt.Sprintf("# a = %+v", a), fmt.Sprintf("# b = %+v", b)})
		}
	}
	return lb, hb, vb
}

// interpreted: the effect-relevant fields as the handlers read them — hex text decoded (letter case of hex digits is
// immaterial), the SendToFx target parsed by fxtypes.ParseFxTarget as SendToFxExecuted does
func interpreted(k *kind, c claim) string {
	cp := k.clone(c)
	v := elem(cp)
	for _, name := range []string{"Data", "Memo", "Cause", "ChannelIbc"} {
		if f := v.FieldByName(name); f.IsValid() && f.Kind() == reflect.String {
			f.SetString(strings.ToLower(f.String()))
		}
	}
	if f := v.FieldByName("TargetIbc"); f.IsValid() {
		f.SetString(fmt.Sprintf("%+v", fxtypes.ParseFxTarget(f.String(), true)))
	}
	// an address the handlers read only through its typed accessor (regenerated handlerView): the account it names
	if chain := v.FieldByName("ChainName").String(); knownChain(chain) {
		for name := range typedOnly[k.name] {
			if f := v.FieldByName(name); f.IsValid() && f.Kind() == reflect.String && ct.ValidateExternalAddr(chain, f.String()) == nil {
				f.SetString("@" + ct.ExternalAddrToHexAddr(chain, f.String()).Hex())
			}
		}
	}
	return k.effect(cp)
}

// recorded witnesses (lean/FxVerif/Props/C03.lean `legacy_*_not_injective`) and fixed adversarial pairs
func (r *run) witnesses(ks map[string]*kind) {
	ethA := "0x0000000000000000000000000000000000000001"
	ethB := "0x0000000000000000000000000000000000000002"
	bech := sdk.AccAddress(make([]byte, 20)).String()
	r.out.Reset("witnesses")
	call := &ct.MsgBridgeCallClaim{ChainName: "eth", BridgerAddress: bech, EventNonce: 1, BlockHeight: 1, Sender: ethA, Refund: ethA, To: ethA,
		TokenContracts: []string{}, Amounts: []sdkmath.Int{}, Data: "", Value: sdkmath.ZeroInt(), Memo: "", TxOrigin: ethA}
	c2 := ks["bc"].clone(call).(*ct.MsgBridgeCallClaim)
	c2.Memo = hex.EncodeToString(ct.MemoSendCallTo.Bytes())
	r.pair(ks["bc"], "Memo", call, c2)
	c3 := ks["bc"].clone(call).(*ct.MsgBridgeCallClaim)
	c3.TxOrigin = ethB
	r.pair(ks["bc"], "TxOrigin", call, c3)
	res := &ct.MsgBridgeCallResultClaim{ChainName: "eth", BridgerAddress: bech, EventNonce: 1, BlockHeight: 1, Nonce: 1, TxOrigin: ethA, Success: true}
	r2 := *res
	r2.TxOrigin = ethB
	r.pair(ks["bcr"], "TxOrigin", res, &r2)
	tok := &ct.MsgBridgeTokenClaim{EventNonce: 1, BlockHeight: 1, TokenContract: ethA, Name: "A/FX", Symbol: "FX", Decimals: 18, BridgerAddress: bech, ChainName: "eth"}
	t2 := *tok
	t2.Name, t2.Symbol = "A", "FX/FX"
	r.pair(ks["bt"], "the split of Name/Symbol", tok, &t2)
	// empty list vs list of one empty string (the latter is invalid: must not be tallied, hashes may agree)
	e1 := ks["bc"].clone(call).(*ct.MsgBridgeCallClaim)
	e1.TokenContracts, e1.Amounts = []string{""}, []sdkmath.Int{{}}
	r.pair(ks["bc"], "TokenContracts [] vs [\"\"]", call, e1)
	// number/address boundary of `%d%s`
	s1 := &ct.MsgSendToFxClaim{EventNonce: 1, BlockHeight: 1, TokenContract: ethA, Amount: sdkmath.NewInt(5), Sender: ethA, Receiver: bech, BridgerAddress: bech, ChainName: "eth"}
	s2 := *s1
	s2.EventNonce, s2.TokenContract = 10, ethA[1:]
	r.pair(ks["stf"], "the split of EventNonce/TokenContract", s1, &s2)
}

func TestC03(t *testing.T) {
	if sdk.GetConfig().GetBech32AccountAddrPrefix() != fxtypes.AddressPrefix {
		fxtypes.SetConfig(false)
	}
	out := hx.NewOut()
	rng := rand.New(rand.NewSource(hx.Seed()))
	g := &gen{rng: rng}
	r := &run{out: out, global: map[string]seen{}, reported: map[string]bool{}, nViol: map[string]int{}, facts: loadFacts(), rng: rng}
	ks := kinds()
	byTag := map[string]*kind{}
	for _, k := range ks {
		byTag[k.tag] = k
	}
	r.witnesses(byTag)
	r.corpus = loadCorpus(byTag)
	if len(r.corpus) > 0 {
		out.Reset("corpus")
		for _, p := range r.corpus {
			out.Count("corpus:" + p.k.tag)
			r.pair(p.k, p.what, p.a, p.b)
		}
	}
	r.targets(g)
	r.addresses(g)

	nBase := hx.N(60, 800) // base claims per type
	for _, k := range ks {
		for i := 0; i < nBase; i++ {
			out.Reset(k.tag)
			ch := g.chain()
			base := k.base(g, ch)
			hb, vb, lb := r.emit(k, base)
			// single-field variants
			for _, f := range k.fields {
				v := k.clone(base)
				f.mutate(g, v, ch)
				if f.effect {
					r.against(k, f.name, base, hb, vb, lb, v)
				} else {
					r.emit(k, v)
				}
			}
			// adjacent-field re-splits and malformed variants
			r.adversarial(g, k, base, ch)
			r.formatResplit(g, k, base)
			if i%4 == 0 {
				r.resplit(g, k, base)
			}
			// spellings, normal forms, boundaries, orderings of every part of the claim
			r.perturb(g, k, base, hb, vb, lb)
		}
	}
	// the real keeper: fixed and generated disagreements, and every collision the search above found
	keeperRun(t, r, g, byTag)
	// the entry point: MsgClaim in signed transactions through baseapp (ante handler, stateless validation)
	txEntry(t, r, g, byTag)
	out.Stats.Extra["claim_types"] = len(ks)
	out.Stats.Extra["perturbation_variants"] = r.nVariants
	out.Stats.Extra["collisions_found"] = len(r.found)
	out.Close("real ClaimHash == SHA-256(generated path), real ValidateBasic verdict == model valid (regenerated validGen) and real " +
		"ParseFxTarget == model, per line; real keeper attestation table == Lean attestation model per vote; " +
		"monitors: no two ValidateBasic-valid claims with different effect-relevant fields share a real ClaimHash; on the real keeper the " +
		"executed claim and the stored result agree field for field with every vote tallied in the observed attestation")
	if len(out.Stats.Violations) > 0 {
		t.Logf("monitor violations: %d", len(out.Stats.Violations))
	}
}

// targets: fxtypes.ParseFxTarget(hexText, true) — the routing decision of SendToFxExecuted — against the Lean model
func (r *run) targets(g *gen) {
	r.out.Reset("targets")
	seenT := map[string]bool{}
	one := func(raw string) {
		if seenT[raw] {
			return
		}
		seenT[raw] = true
		t := fxtypes.ParseFxTarget(raw, true)
		kindS := "local"
		if t.IsIBC() {
			kindS = "ibc"
		}
		r.out.Count("target:" + kindS)
		r.out.Emit("tgt "+hx.HexS(raw), fmt.Sprintf("%s %s %s %s %s %s", kindS, hx.HexS(t.GetTarget()), hx.HexS(t.Prefix), hx.HexS(t.SourcePort),
			hx.HexS(t.SourceChannel), hx.HexS(t.String())))
	}
	for i := 0; i < hx.N(250, 3000); i++ {
		txt := g.target()
		raw := g.hexCase(hex.EncodeToString([]byte(txt)))
		one(raw)
		if i%3 == 0 {
			for _, p := range textNormalForms(g, txt) {
				one(hex.EncodeToString([]byte(p.val)))
			}
		}
		if i%10 == 0 {
			// not hex / odd length: ParseFxTarget ignores the decoding error and parses the decoded prefix
			one(raw + "0")
			one(raw + "zz")
			one("0x" + raw)
		}
	}
}

// addresses: text -> account of both address classes (types.ValidateExternalAddr, ExternalAddrToHexAddr, ExternalAddrToAccAddr)
// against Model/C03Addr.lean — well-formed texts, the other texts of the same tron account (other version bytes, a 22-byte
// payload), broken checksums, wrong lengths, foreign characters, and the witnesses of the Lean theorems.  Monitor: on a
// chain of the eth class two accepted texts never name one account (on tron they do — counted, it is the fact the hash
// formats must live with: Props.C03.tron_class_admits_several_texts)
func (r *run) addresses(g *gen) {
	r.out.Reset("addresses")
	seenA := map[string]bool{}
	ethText := map[string]string{} // account -> accepted text, eth class
	one := func(chain, s string) {
		if seenA[chain+"/"+s] {
			return
		}
		seenA[chain+"/"+s] = true
		ck := common.IsHexAddress(s) && common.HexToAddress(s).Hex() == s
		obs := "invalid"
		if ct.ValidateExternalAddr(chain, s) == nil {
			hexA := ct.ExternalAddrToHexAddr(chain, s)
			obs = fmt.Sprintf("ok %s %s", hex.EncodeToString(hexA.Bytes()), hex.EncodeToString(ct.ExternalAddrToAccAddr(chain, s)))
			r.out.Count("addr:" + chain + ":valid")
			if chain != "tron" {
				if prev, ok := ethText[hexA.Hex()]; ok && prev != s {
					r.violate("address class eth: two accepted texts name one account", []string{"xaddr " + chain + " " + prev, "xaddr " + chain + " " + s})
				}
				ethText[hexA.Hex()] = s
			}
		} else {
			r.out.Count("addr:" + chain + ":invalid")
		}
		r.out.Emit("xaddr "+hx.HexS(chain)+" "+hx.HexS(s)+" "+b01(ck), obs)
	}
	for _, w := range []string{"TA4Y62o6YC2Zsck9rZVGTvqW1AQ7X9zTnj", "TZQ9596PFNVSh3tEsypax47Hdff4DKLkmj", "1QRw55if6eNVXspcHiAsRuR9isujzr8woR",
		"16L5yRNPTuciSgXGHqYwn9N6NeoKqopAu", "1111111111111111111111111111111111"} {
		one("tron", w)
	}
	if ct.ValidateExternalAddr("tron", "TA4Y62o6YC2Zsck9rZVGTvqW1AQ7X9zTnj") != nil || ct.ValidateExternalAddr("tron", "TZQ9596PFNVSh3tEsypax47Hdff4DKLkmj") != nil {
		r.out.Violate("harness: the witnesses of tron_class_admits_several_texts are not accepted by the real ValidateTronAddress")
	}
	one("eth", "0x0000000000000000000000000000000000000001")
	one("eth", "0x00000000000000000000000000000000000000aB")
	one("eth", "0x00000000000000000000000000000000000000Ab")
	const b58 = "123456789ABCDEFGHJKLMNPQRSTUVWXYZabcdefghijkmnopqrstuvwxyz"
	for i := 0; i < hx.N(150, 2000); i++ {
		chain := g.chain()
		s := ct.ExternalAddrToStr(chain, g.bytes(20))
		if i%7 == 0 {
			// accounts with leading zero bytes (short numbers after the version byte)
			bz := g.bytes(20)
			for j := 0; j <= g.rng.Intn(4); j++ {
				bz[j] = 0
			}
			s = ct.ExternalAddrToStr(chain, bz)
		}
		one(chain, s)
		others := tronOtherTexts(s)
		r.out.Count(fmt.Sprintf("addr:%s:other-texts-of-the-account:%d", chain, len(others)))
		for _, o := range others {
			one(chain, o.val)
			if ct.ExternalAddrToHexAddr(chain, o.val) != ct.ExternalAddrToHexAddr(chain, s) {
				r.out.Violate("harness: tronOtherTexts produced a text of another account")
			}
		}
		ps := plainPerturb(g, s)
		for _, j := range g.rng.Perm(len(ps))[:4] {
			one(chain, ps[j].val)
		}
		// one character replaced (checksum), one dropped / added (length), the text under the other class
		bs := []byte(s)
		k := g.rng.Intn(len(bs))
		bs[k] = b58[g.rng.Intn(len(b58))]
		one(chain, string(bs))
		one(chain, s[:len(s)-1])
		one(chain, s+string(b58[g.rng.Intn(len(b58))]))
		if chain == "tron" {
			one("eth", s)
			rb := make([]byte, 34)
			for j := range rb {
				rb[j] = b58[g.rng.Intn(len(b58))]
			}
			one("tron", string(rb))
		} else {
			one("tron", s)
		}
	}
}

func (r *run) adversarial(g *gen, k *kind, base claim, ch string) {
	switch m := base.(type) {
	case *ct.MsgBridgeTokenClaim:
		// move a "/…" piece across the Name/Symbol boundary, and across Symbol/Decimals
		x := g.free()
		a, b := *m, *m
		a.Name, a.Symbol = m.Name+"/"+x, m.Symbol
		b.Name, b.Symbol = m.Name, x+"/"+m.Symbol
		r.pair(k, "the split of Name/Symbol", &a, &b)
		c, d := *m, *m
		c.Symbol, c.Decimals = m.Symbol+"/7", 8
		d.Symbol, d.Decimals = m.Symbol, 7
		r.pair(k, "the split of Symbol/Decimals", &c, &d)
		// invalid: empty name / symbol, bad hex channel
		e := *m
		e.Name = ""
		r.emit(k, &e)
		f := *m
		f.Symbol = ""
		r.emit(k, &f)
		h := *m
		h.ChannelIbc = "abc"
		r.emit(k, &h)
	case *ct.MsgBridgeCallClaim:
		// mismatched lengths, list of empty strings, nil value, bad hex, a space inside an element
		a := k.clone(m).(*ct.MsgBridgeCallClaim)
		a.TokenContracts = append(a.TokenContracts, g.ext(ch))
		r.emit(k, a)
		b := k.clone(m).(*ct.MsgBridgeCallClaim)
		b.TokenContracts, b.Amounts = []string{"", ""}, []sdkmath.Int{{}, {}}
		r.emit(k, b)
		c := k.clone(m).(*ct.MsgBridgeCallClaim)
		c.Value = sdkmath.Int{}
		r.emit(k, c)
		d := k.clone(m).(*ct.MsgBridgeCallClaim)
		d.Data = "0x" + d.Data
		r.emit(k, d)
		if len(m.TokenContracts) >= 2 {
			// ["a b"] vs ["a","b"]: same rendering; the first is invalid
			e := k.clone(m).(*ct.MsgBridgeCallClaim)
			e.TokenContracts = append([]string{m.TokenContracts[0] + " " + m.TokenContracts[1]}, m.TokenContracts[2:]...)
			e.Amounts = m.Amounts[1:]
			r.pair(k, "TokenContracts [\"a b\"] vs [\"a\",\"b\"]", m, e)
		}
		f := k.clone(m).(*ct.MsgBridgeCallClaim)
		f.Memo = "zz"
		r.emit(k, f)
		h := k.clone(m).(*ct.MsgBridgeCallClaim)
		h.TxOrigin = strings.ToLower(h.TxOrigin)
		r.emit(k, h)
	case *ct.MsgSendToFxClaim:
		a := *m
		a.Amount = sdkmath.Int{}
		r.emit(k, &a)
		b := *m
		b.Amount = sdkmath.NewInt(-1 - int64(g.rng.Intn(1000)))
		r.emit(k, &b)
		c := *m
		c.TargetIbc = "0"
		r.emit(k, &c)
		d := *m
		d.EventNonce = 0
		r.emit(k, &d)
		e := *m
		e.ChainName = "nochain"
		r.emit(k, &e)
		f := *m
		f.TokenContract = strings.ToUpper(m.TokenContract)
		r.emit(k, &f)
		h := *m
		h.Receiver = m.Receiver + "/"
		r.emit(k, &h)
		// the other chain family's address class
		i := *m
		if ch == "tron" {
			i.ChainName = "eth"
		} else {
			i.ChainName = "tron"
		}
		r.emit(k, &i)
	case *ct.MsgBridgeCallResultClaim:
		a := *m
		a.Nonce = 0
		r.emit(k, &a)
		b := *m
		b.Cause = "not hex"
		r.emit(k, &b)
		c := *m
		c.TxOrigin = ""
		r.emit(k, &c)
	case *ct.MsgSendToExternalClaim:
		a := *m
		a.BatchNonce = 0
		r.emit(k, &a)
		b := *m
		b.TokenContract = m.TokenContract + "0"
		r.emit(k, &b)
		c := *m
		c.BridgerAddress = "fx1notbech32"
		r.emit(k, &c)
	case *ct.MsgOracleSetUpdatedClaim:
		a := k.clone(m).(*ct.MsgOracleSetUpdatedClaim)
		a.Members = nil
		r.emit(k, a)
		b := k.clone(m).(*ct.MsgOracleSetUpdatedClaim)
		b.Members[0].Power = 0
		r.emit(k, b)
		c := k.clone(m).(*ct.MsgOracleSetUpdatedClaim)
		c.Members[0].ExternalAddress = ""
		r.emit(k, c)
		if len(m.Members) >= 2 {
			// {p a} {q b}  vs one member whose "address" swallows the boundary: "{p a} {q b}" — invalid address
			d := k.clone(m).(*ct.MsgOracleSetUpdatedClaim)
			d.Members = append([]ct.BridgeValidator{{Power: m.Members[0].Power,
				ExternalAddress: fmt.Sprintf("%s} {%d %s", m.Members[0].ExternalAddress, m.Members[1].Power, m.Members[1].ExternalAddress)}}, m.Members[2:]...)
			r.pair(k, "the split of Members", m, d)
		}
	}
}
