package c03

// Collision search by perturbation (validation / search only; the theorems are in lean/FxVerif/Props/C03.lean).
//
// For a ValidateBasic-valid base claim every text field (strings, list elements, member addresses), every integer and
// every list is perturbed in the ways in which two *spellings* of one value, or two values a lossy normaliser would
// identify, differ: letter case, surrounding whitespace, leading zeros, 0x prefix, checksummed vs lower-case address,
// re-encoded hex, and — for hex-encoded text — the same perturbations of the decoded text plus the renderings of its
// parsed form (fxtypes.ParseFxTarget(..).GetTarget()/String(), legacy aliases, path segments reordered); integers by
// ±2^32, ±2^63, ±2^64, ×10, mod 2^64, …; lists by permutation, duplication, truncation.  Each variant is replayed on the
// REAL ClaimHash + ValidateBasic: a variant that is valid, has a different executed effect and the same hash is a
// violation.  A sample of the variants is also sent through the Lean model (hash and verdict correspondence).
//
// Re-splits are derived from the format string the translator extracted (facts.json): for two text fields f_i … f_j of a
// path, the text between them is moved from one field into the other.

import (
	"encoding/hex"
	"encoding/json"
	"fmt"
	"math/big"
	"os"
	"reflect"
	"strings"

	sdkmath "cosmossdk.io/math"
	sdk "github.com/cosmos/cosmos-sdk/types"
	"github.com/ethereum/go-ethereum/common"
	troncommon "github.com/fbsobreira/gotron-sdk/pkg/common"

	fxtypes "github.com/functionx/fx-core/v8/types"
	ct "github.com/functionx/fx-core/v8/x/crosschain/types"
	trontypes "github.com/functionx/fx-core/v8/x/tron/types"
)

// ---------------------------------------------------------------------------------------------------------
// references to the parts of a claim (reflection over the protobuf struct)

type strRef struct {
	name string
	get  func(c claim) string
	set  func(c claim, v string)
}

type intRef struct {
	name string
	get  func(c claim) sdkmath.Int
	set  func(c claim, v sdkmath.Int)
}

type u64Ref struct {
	name string
	get  func(c claim) uint64
	set  func(c claim, v uint64)
}

var notEffect = map[string]bool{"ChainName": true, "BridgerAddress": true}

var (
	tString  = reflect.TypeOf("")
	tInt     = reflect.TypeOf(sdkmath.Int{})
	tMembers = reflect.TypeOf([]ct.BridgeValidator{})
)

func elem(c claim) reflect.Value { return reflect.ValueOf(c).Elem() }

// strRefs lists every text position of the claim (fields, list elements, member addresses)
func strRefs(c claim) []strRef {
	var out []strRef
	v := elem(c)
	for i := 0; i < v.NumField(); i++ {
		f := v.Type().Field(i)
		if notEffect[f.Name] {
			continue
		}
		idx := i
		switch {
		case f.Type == tString:
			out = append(out, strRef{f.Name, func(c claim) string { return elem(c).Field(idx).String() },
				func(c claim, s string) { elem(c).Field(idx).SetString(s) }})
		case f.Type.Kind() == reflect.Slice && f.Type.Elem() == tString:
			for j := 0; j < v.Field(i).Len(); j++ {
				jj := j
				out = append(out, strRef{fmt.Sprintf("%s[%d]", f.Name, j), func(c claim) string { return elem(c).Field(idx).Index(jj).String() },
					func(c claim, s string) { elem(c).Field(idx).Index(jj).SetString(s) }})
			}
		case f.Type == tMembers:
			for j := 0; j < v.Field(i).Len(); j++ {
				jj := j
				out = append(out, strRef{fmt.Sprintf("%s[%d].ExternalAddress", f.Name, j),
					func(c claim) string { return elem(c).Field(idx).Index(jj).FieldByName("ExternalAddress").String() },
					func(c claim, s string) { elem(c).Field(idx).Index(jj).FieldByName("ExternalAddress").SetString(s) }})
			}
		}
	}
	return out
}

func intRefs(c claim) []intRef {
	var out []intRef
	v := elem(c)
	for i := 0; i < v.NumField(); i++ {
		f := v.Type().Field(i)
		idx := i
		switch {
		case f.Type == tInt:
			out = append(out, intRef{f.Name, func(c claim) sdkmath.Int { return elem(c).Field(idx).Interface().(sdkmath.Int) },
				func(c claim, x sdkmath.Int) { elem(c).Field(idx).Set(reflect.ValueOf(x)) }})
		case f.Type.Kind() == reflect.Slice && f.Type.Elem() == tInt:
			for j := 0; j < v.Field(i).Len(); j++ {
				jj := j
				out = append(out, intRef{fmt.Sprintf("%s[%d]", f.Name, j), func(c claim) sdkmath.Int { return elem(c).Field(idx).Index(jj).Interface().(sdkmath.Int) },
					func(c claim, x sdkmath.Int) { elem(c).Field(idx).Index(jj).Set(reflect.ValueOf(x)) }})
			}
		}
	}
	return out
}

func u64Refs(c claim) []u64Ref {
	var out []u64Ref
	v := elem(c)
	for i := 0; i < v.NumField(); i++ {
		f := v.Type().Field(i)
		idx := i
		switch {
		case f.Type.Kind() == reflect.Uint64:
			out = append(out, u64Ref{f.Name, func(c claim) uint64 { return elem(c).Field(idx).Uint() },
				func(c claim, x uint64) { elem(c).Field(idx).SetUint(x) }})
		case f.Type == tMembers:
			for j := 0; j < v.Field(i).Len(); j++ {
				jj := j
				out = append(out, u64Ref{fmt.Sprintf("%s[%d].Power", f.Name, j),
					func(c claim) uint64 { return elem(c).Field(idx).Index(jj).FieldByName("Power").Uint() },
					func(c claim, x uint64) { elem(c).Field(idx).Index(jj).FieldByName("Power").SetUint(x) }})
			}
		}
	}
	return out
}

// ---------------------------------------------------------------------------------------------------------
// text perturbations

type pv struct {
	how string
	val string
}

func swapCaseAt(s string, i int) string {
	b := []byte(s)
	switch {
	case b[i] >= 'a' && b[i] <= 'z':
		b[i] -= 32
	case b[i] >= 'A' && b[i] <= 'Z':
		b[i] += 32
	}
	return string(b)
}

func reverseSegments(s, sep string) string {
	p := strings.Split(s, sep)
	for i, j := 0, len(p)-1; i < j; i, j = i+1, j-1 {
		p[i], p[j] = p[j], p[i]
	}
	return strings.Join(p, sep)
}

// plainPerturb: spellings of a text value
func plainPerturb(g *gen, s string) []pv {
	out := []pv{
		{"upper-case", strings.ToUpper(s)}, {"lower-case", strings.ToLower(s)},
		{"leading space", " " + s}, {"trailing space", s + " "}, {"leading tab", "\t" + s}, {"trailing newline", s + "\n"},
		{"leading zero", "0" + s}, {"two leading zeros", "00" + s}, {"trailing NUL", s + "\x00"},
		{"title-case", strings.Title(strings.ToLower(s))}, //nolint:staticcheck
	}
	if len(s) > 0 {
		out = append(out, pv{"case of one letter", swapCaseAt(s, g.rng.Intn(len(s)))})
		out = append(out, pv{"case of first letter", swapCaseAt(s, 0)})
		out = append(out, pv{"without last byte", s[:len(s)-1]})
	}
	if strings.HasPrefix(s, "0x") || strings.HasPrefix(s, "0X") {
		out = append(out, pv{"without 0x prefix", s[2:]}, pv{"0X prefix", "0X" + s[2:]}, pv{"zero after 0x", "0x0" + s[2:]},
			pv{"zero byte after 0x", "0x00" + s[2:]}, pv{"lower-case after 0x", "0x" + strings.ToLower(s[2:])},
			pv{"upper-case after 0x", "0x" + strings.ToUpper(s[2:])})
		if len(s) > 3 {
			out = append(out, pv{"0x and one digit dropped", "0x" + s[3:]})
		}
	} else {
		out = append(out, pv{"with 0x prefix", "0x" + s})
	}
	if common.IsHexAddress(s) {
		out = append(out, pv{"EIP-55 checksummed", common.HexToAddress(s).Hex()}, pv{"address as 32-byte hash", common.HexToHash(s).Hex()})
	}
	for _, t := range tronOtherTexts(s) {
		out = append(out, t)
	}
	if strings.Contains(s, "/") {
		out = append(out, pv{"path segments reversed", reverseSegments(s, "/")}, pv{"trailing slash", s + "/"}, pv{"leading slash", "/" + s},
			pv{"slashes doubled", strings.ReplaceAll(s, "/", "//")})
	}
	return out
}

// tronOtherTexts: the OTHER well-formed texts of the account a tron address text names.  ValidateTronAddress checks the
// base58 length (34) and the base58check checksum, not the version byte, and ExternalAddrToAccAddr / ExternalAddrToHexAddr
// drop the first decoded byte: base58check(v ‖ account) is accepted for every version byte v whose text has 34 characters
// (0x41 is the real one), and so is base58check(0x00 ‖ b ‖ account) for the few b that keep the length (the account the
// hex accessor returns is the LAST 20 bytes).  Whatever identifies an address by its parsed form identifies these texts.
func tronOtherTexts(s string) (out []pv) {
	if trontypes.ValidateTronAddress(s) != nil {
		return nil
	}
	raw, err := troncommon.DecodeCheck(s)
	if err != nil || len(raw) < 21 {
		return nil
	}
	acc := raw[len(raw)-20:]
	dup := map[string]bool{s: true}
	try := func(how string, payload []byte) {
		t := troncommon.EncodeCheck(payload)
		if !dup[t] && trontypes.ValidateTronAddress(t) == nil {
			dup[t] = true
			out = append(out, pv{how, t})
		}
	}
	for _, v := range []byte{0x42, 0x40, 0x00, 0x01, 0x10, 0x7f, 0x80, 0x8f, raw[0] + 1, raw[0] ^ 0x20} {
		try("tron address text with another version byte (same 20 bytes)", append([]byte{v}, acc...))
	}
	for _, b := range []byte{0x01, 0x02} {
		try("tron address text with a 22-byte payload (same last 20 bytes)", append([]byte{0x00, b}, acc...))
	}
	return out
}

// textNormalForms: other spellings / parsed renderings of a decoded text value (targets, channels, memos)
func textNormalForms(g *gen, t string) []pv {
	out := plainPerturb(g, t)
	out = append(out, pv{"trimmed", strings.TrimSpace(t)}, pv{"with chain/ prefix", fxtypes.LegacyChainPrefix + t},
		pv{"without chain/ prefix", strings.TrimPrefix(t, fxtypes.LegacyChainPrefix)}, pv{"with ibc/ prefix", fxtypes.IBCPrefix + t},
		pv{"without ibc/ prefix", strings.TrimPrefix(t, fxtypes.IBCPrefix)})
	p := fxtypes.ParseFxTarget(t)
	out = append(out, pv{"ParseFxTarget.GetTarget()", p.GetTarget()}, pv{"ParseFxTarget.String()", p.String()})
	if p.IsIBC() {
		out = append(out, pv{"prefix/port/channel", p.Prefix + "/" + p.SourcePort + "/" + p.SourceChannel},
			pv{"ibc/N/prefix", fxtypes.IBCPrefix + strings.TrimPrefix(p.SourceChannel, "channel-") + "/" + p.Prefix},
			pv{"channel/prefix", p.SourceChannel + "/" + p.Prefix}, pv{"port/channel", p.SourcePort + "/" + p.SourceChannel},
			pv{"channel with leading zero", p.Prefix + "/" + p.SourcePort + "/channel-0" + strings.TrimPrefix(p.SourceChannel, "channel-")})
	}
	switch t {
	case fxtypes.LegacyERC20Target:
		out = append(out, pv{"alias", fxtypes.ERC20Target})
	case fxtypes.ERC20Target:
		out = append(out, pv{"alias", fxtypes.LegacyERC20Target})
	case fxtypes.GravityTarget:
		out = append(out, pv{"alias", fxtypes.EthTarget})
	case fxtypes.EthTarget:
		out = append(out, pv{"alias", fxtypes.GravityTarget})
	}
	return out
}

// perturbations of one text position: as a plain string, and (when it is hex) of the bytes it encodes
func strPerturb(g *gen, s string) []pv {
	out := plainPerturb(g, s)
	if bz, err := hex.DecodeString(s); err == nil && len(s) > 0 {
		out = append(out, pv{"hex re-encoded lower-case", hex.EncodeToString(bz)}, pv{"hex re-encoded upper-case", strings.ToUpper(hex.EncodeToString(bz))},
			pv{"hex with a zero byte prepended", "00" + s}, pv{"hex with a zero byte appended", s + "00"})
		for _, n := range textNormalForms(g, string(bz)) {
			out = append(out, pv{"decoded text " + n.how, hex.EncodeToString([]byte(n.val))})
		}
	} else if len(s) == 0 {
		out = append(out, pv{"hex of a space", "20"}, pv{"hex of a zero byte", "00"})
	}
	return out
}

var (
	two32  = new(big.Int).Lsh(big.NewInt(1), 32)
	two63  = new(big.Int).Lsh(big.NewInt(1), 63)
	two64  = new(big.Int).Lsh(big.NewInt(1), 64)
	two128 = new(big.Int).Lsh(big.NewInt(1), 128)
	two256 = new(big.Int).Lsh(big.NewInt(1), 256)
)

type iv struct {
	how string
	val sdkmath.Int
}

func (g *gen) bigOK(b *big.Int) (res sdkmath.Int, ok bool) {
	defer func() {
		if recover() != nil {
			ok = false
		}
	}()
	return sdkmath.NewIntFromBigInt(b), true
}

func intPerturb(g *gen, v sdkmath.Int) []iv {
	var out []iv
	if v.IsNil() {
		return []iv{{"nil -> 0", sdkmath.ZeroInt()}}
	}
	b := v.BigInt()
	add := func(how string, x *big.Int) {
		if r, ok := g.bigOK(x); ok && !r.Equal(v) {
			out = append(out, iv{how, r})
		}
	}
	add("+2^32", new(big.Int).Add(b, two32))
	add("+2^63", new(big.Int).Add(b, two63))
	add("+2^64", new(big.Int).Add(b, two64))
	add("+2^128", new(big.Int).Add(b, two128))
	add("mod 2^64", new(big.Int).Mod(b, two64))
	add("mod 2^63", new(big.Int).Mod(b, two63))
	add("mod 2^32", new(big.Int).Mod(b, two32))
	add("2^256-1-v", new(big.Int).Sub(new(big.Int).Sub(two256, big.NewInt(1)), b))
	add("x10", new(big.Int).Mul(b, big.NewInt(10)))
	add("/10", new(big.Int).Quo(b, big.NewInt(10)))
	add("+1", new(big.Int).Add(b, big.NewInt(1)))
	add("negated", new(big.Int).Neg(b))
	add("absolute value", new(big.Int).Abs(b))
	add("digits reversed", func() *big.Int {
		s := new(big.Int).Abs(b).String()
		r := []byte(s)
		for i, j := 0, len(r)-1; i < j; i, j = i+1, j-1 {
			r[i], r[j] = r[j], r[i]
		}
		x, _ := new(big.Int).SetString(string(r), 10)
		return x
	}())
	out = append(out, iv{"nil", sdkmath.Int{}})
	return out
}

type uv struct {
	how string
	val uint64
}

func u64Perturb(v uint64) []uv {
	cands := []uv{{"+2^32", v + 1<<32}, {"xor 2^32", v ^ 1<<32}, {"xor 2^63", v ^ 1<<63}, {"xor 2^31", v ^ 1<<31}, {"mod 2^32", v & (1<<32 - 1)},
		{"mod 2^31", v & (1<<31 - 1)}, {"x10", v * 10}, {"/10", v / 10}, {"+1", v + 1}, {"-1", v - 1}, {"two's complement", -v}, {"mod 256", v & 255},
		{"0", 0}}
	var out []uv
	for _, c := range cands {
		if c.val != v {
			out = append(out, c)
		}
	}
	return out
}

// ---------------------------------------------------------------------------------------------------------
// the search

// sampleEvery: one perturbation variant in this many is also sent through the Lean model
const sampleEvery = 16

func (r *run) variant(g *gen, k *kind, what string, base claim, hb, vb, lb string, v claim) {
	r.nVariants++
	if r.nVariants%sampleEvery == 0 {
		r.against(k, what, base, hb, vb, lb, v)
		return
	}
	r.check(k, what, base, hb, vb, lb, v)
}

// perturb runs every perturbation of every position of base (already emitted: hash hb, verdict vb, line lb)
func (r *run) perturb(g *gen, k *kind, base claim, hb, vb, lb string) {
	for _, ref := range strRefs(base) {
		old := ref.get(base)
		for _, p := range strPerturb(g, old) {
			if p.val == old {
				continue
			}
			v := k.clone(base)
			ref.set(v, p.val)
			r.out.Count("perturb:text:" + p.how)
			r.variant(g, k, baseName(ref.name)+" ("+p.how+")", base, hb, vb, lb, v)
		}
	}
	for _, ref := range intRefs(base) {
		for _, p := range intPerturb(g, ref.get(base)) {
			v := k.clone(base)
			ref.set(v, p.val)
			r.out.Count("perturb:int:" + p.how)
			r.variant(g, k, baseName(ref.name)+" ("+p.how+")", base, hb, vb, lb, v)
		}
	}
	for _, ref := range u64Refs(base) {
		for _, p := range u64Perturb(ref.get(base)) {
			v := k.clone(base)
			ref.set(v, p.val)
			r.out.Count("perturb:uint:" + p.how)
			r.variant(g, k, baseName(ref.name)+" ("+p.how+")", base, hb, vb, lb, v)
		}
	}
	for _, v := range chainVariants(g, k, base) {
		r.out.Count("perturb:chain:" + v.how)
		r.variant(g, k, v.how, base, hb, vb, lb, v.val)
	}
	r.listPerturb(g, k, base, hb, vb, lb)
	for _, v := range listElemResplits(k, base) {
		r.out.Count("perturb:list-elements:" + v.how)
		r.variant(g, k, v.how, base, hb, vb, lb, v.val)
	}
}

// chainVariants: the claim as a voter could submit it under ANOTHER chain name — the claim's own ChainName is neither
// hashed nor compared with the chain the enclosing MsgClaim is routed to, and it selects the address class ValidateBasic
// applies.  (a) another chain of the same address class: same effect, must stay so; (b) a chain of the other address
// class, with every external address re-rendered for that class (0x-hex <-> base58check of the same 20 bytes): passes
// ValidateBasic, names other addresses as far as the handlers are concerned, and must not share the hash
func chainVariants(g *gen, k *kind, base claim) (out []cv) {
	chain := elem(base).FieldByName("ChainName").String()
	if ct.ValidateExternalAddr(chain, "") == nil || !knownChain(chain) {
		return nil
	}
	same, other := ethChains, []string{"tron"}
	if chain == "tron" {
		same, other = []string{"tron"}, ethChains
	}
	if len(same) > 1 {
		v := k.clone(base)
		for {
			if c2 := hx_pick(g, same); c2 != chain {
				elem(v).FieldByName("ChainName").SetString(c2)
				break
			}
		}
		out = append(out, cv{"ChainName (another chain of the same address class)", v})
	}
	oc := hx_pick(g, other)
	v := k.clone(base)
	elem(v).FieldByName("ChainName").SetString(oc)
	changed := false
	for _, ref := range strRefs(v) {
		old := ref.get(v)
		if ct.ValidateExternalAddr(chain, old) != nil {
			continue
		}
		bz := ct.ExternalAddrToAccAddr(chain, old)
		ref.set(v, ct.ExternalAddrToStr(oc, bz))
		changed = true
	}
	if changed {
		out = append(out, cv{"the external addresses (re-rendered for the other address class, ChainName switched)", v})
	}
	return out
}

func knownChain(chain string) bool {
	for _, n := range ct.GetSupportChains() {
		if n == chain {
			return true
		}
	}
	return false
}

// listElemResplits: for every list-valued field, the same character string split at another position between adjacent
// elements (digits of amounts / powers, characters of text elements), an element split in two or two merged, an empty
// element — collides whenever the elements are written out without a separator or with one the elements may contain
func listElemResplits(k *kind, base claim) (out []cv) {
	v := elem(base)
	for fi := 0; fi < v.NumField(); fi++ {
		f := v.Type().Field(fi)
		idx := fi
		n := v.Field(fi).Len
		switch {
		case f.Type.Kind() == reflect.Slice && f.Type.Elem() == tInt:
			for i := 0; i+1 < n(); i++ {
				a, b := v.Field(idx).Index(i).Interface().(sdkmath.Int), v.Field(idx).Index(i+1).Interface().(sdkmath.Int)
				if a.IsNil() || b.IsNil() || a.IsNegative() || b.IsNegative() {
					continue
				}
				da, db := a.String(), b.String()
				for _, mv := range []int{1, 2, len(da) - 1, -1, -2, -(len(db) - 1)} {
					var na, nb string
					switch {
					case mv > 0 && mv < len(da):
						na, nb = da[:len(da)-mv], da[len(da)-mv:]+db
					case mv < 0 && -mv < len(db):
						na, nb = da+db[:-mv], db[-mv:]
					default:
						continue
					}
					xa, ok1 := new(big.Int).SetString(na, 10)
					xb, ok2 := new(big.Int).SetString(nb, 10)
					if !ok1 || !ok2 || xa.BitLen() > 256 || xb.BitLen() > 256 {
						continue
					}
					c := k.clone(base)
					elem(c).Field(idx).Index(i).Set(reflect.ValueOf(sdkmath.NewIntFromBigInt(xa)))
					elem(c).Field(idx).Index(i + 1).Set(reflect.ValueOf(sdkmath.NewIntFromBigInt(xb)))
					out = append(out, cv{f.Name + " (digits moved between adjacent elements)", c})
				}
			}
			if n() >= 1 {
				c := k.clone(base)
				elem(c).Field(idx).Index(0).Set(reflect.ValueOf(sdkmath.Int{}))
				out = append(out, cv{f.Name + " (unset element)", c})
			}
		case f.Type.Kind() == reflect.Slice && f.Type.Elem() == tString:
			for i := 0; i+1 < n(); i++ {
				a, b := v.Field(idx).Index(i).String(), v.Field(idx).Index(i+1).String()
				if len(a) > 1 {
					c := k.clone(base)
					elem(c).Field(idx).Index(i).SetString(a[:len(a)-1])
					elem(c).Field(idx).Index(i + 1).SetString(a[len(a)-1:] + b)
					out = append(out, cv{f.Name + " (character moved between adjacent elements)", c})
				}
				if len(b) > 1 {
					c := k.clone(base)
					elem(c).Field(idx).Index(i).SetString(a + b[:1])
					elem(c).Field(idx).Index(i + 1).SetString(b[1:])
					out = append(out, cv{f.Name + " (character moved between adjacent elements)", c})
				}
				c := k.clone(base)
				elem(c).Field(idx).Index(i).SetString(a + b)
				elem(c).Field(idx).Index(i + 1).SetString("")
				out = append(out, cv{f.Name + " (two elements merged, empty element)", c})
				c2 := k.clone(base)
				elem(c2).Field(idx).Index(i).SetString(a + " " + b)
				elem(c2).Field(idx).Index(i + 1).SetString("")
				out = append(out, cv{f.Name + " (two elements merged with a space, empty element)", c2})
			}
		case f.Type == tMembers:
			for i := 0; i+1 < n(); i++ {
				pa := v.Field(idx).Index(i).FieldByName("Power").Uint()
				pb := v.Field(idx).Index(i + 1).FieldByName("Power").Uint()
				da, db := fmt.Sprint(pa), fmt.Sprint(pb)
				for _, mv := range []int{1, -1} {
					var na, nb string
					switch {
					case mv > 0 && len(da) > 1:
						na, nb = da[:len(da)-1], da[len(da)-1:]+db
					case mv < 0 && len(db) > 1:
						na, nb = da+db[:1], db[1:]
					default:
						continue
					}
					var xa, xb uint64
					if _, err := fmt.Sscan(na, &xa); err != nil {
						continue
					}
					if _, err := fmt.Sscan(nb, &xb); err != nil {
						continue
					}
					c := k.clone(base)
					elem(c).Field(idx).Index(i).FieldByName("Power").SetUint(xa)
					elem(c).Field(idx).Index(i + 1).FieldByName("Power").SetUint(xb)
					out = append(out, cv{f.Name + " (power digits moved between adjacent members)", c})
				}
				// the digit between a power and the neighbouring address
				aa := v.Field(idx).Index(i).FieldByName("ExternalAddress").String()
				if len(aa) > 0 && aa[0] >= '0' && aa[0] <= '9' && pa < (1<<64-1)/10-1 {
					c := k.clone(base)
					elem(c).Field(idx).Index(i).FieldByName("Power").SetUint(pa*10 + uint64(aa[0]-'0'))
					elem(c).Field(idx).Index(i).FieldByName("ExternalAddress").SetString(aa[1:])
					out = append(out, cv{f.Name + " (digit moved between power and address)", c})
				}
			}
		}
	}
	return out
}

func baseName(ref string) string {
	if i := strings.IndexByte(ref, '['); i >= 0 {
		return ref[:i]
	}
	return ref
}

type cv struct {
	how string
	val claim
}

// listPerturb: order, duplicates and length of the list-valued fields
func (r *run) listPerturb(g *gen, k *kind, base claim, hb, vb, lb string) {
	for _, v := range listVariants(k, base) {
		r.out.Count("perturb:list:" + v.how)
		r.variant(g, k, v.how, base, hb, vb, lb, v.val)
	}
}

func listVariants(k *kind, base claim) (out []cv) {
	try := func(how string, f func(c claim) bool) {
		v := k.clone(base)
		if f(v) {
			out = append(out, cv{how, v})
		}
	}
	switch base.(type) {
	case *ct.MsgBridgeCallClaim:
		try("TokenContracts and Amounts (both rotated)", func(c claim) bool {
			m := c.(*ct.MsgBridgeCallClaim)
			if len(m.TokenContracts) < 2 {
				return false
			}
			m.TokenContracts = append(m.TokenContracts[1:], m.TokenContracts[0])
			m.Amounts = append(m.Amounts[1:], m.Amounts[0])
			return true
		})
		try("TokenContracts (rotated, Amounts kept)", func(c claim) bool {
			m := c.(*ct.MsgBridgeCallClaim)
			if len(m.TokenContracts) < 2 {
				return false
			}
			m.TokenContracts = append(m.TokenContracts[1:], m.TokenContracts[0])
			return true
		})
		try("Amounts (rotated, TokenContracts kept)", func(c claim) bool {
			m := c.(*ct.MsgBridgeCallClaim)
			if len(m.Amounts) < 2 {
				return false
			}
			m.Amounts = append(m.Amounts[1:], m.Amounts[0])
			return true
		})
		try("TokenContracts and Amounts (last pair dropped)", func(c claim) bool {
			m := c.(*ct.MsgBridgeCallClaim)
			if len(m.TokenContracts) < 1 {
				return false
			}
			m.TokenContracts, m.Amounts = m.TokenContracts[:len(m.TokenContracts)-1], m.Amounts[:len(m.Amounts)-1]
			return true
		})
		try("TokenContracts and Amounts (last pair duplicated)", func(c claim) bool {
			m := c.(*ct.MsgBridgeCallClaim)
			if len(m.TokenContracts) < 1 {
				return false
			}
			m.TokenContracts, m.Amounts = append(m.TokenContracts, m.TokenContracts[len(m.TokenContracts)-1]), append(m.Amounts, m.Amounts[len(m.Amounts)-1])
			return true
		})
		try("TokenContracts and Amounts (two entries of one token merged)", func(c claim) bool {
			m := c.(*ct.MsgBridgeCallClaim)
			if len(m.TokenContracts) < 2 || m.Amounts[0].IsNil() || m.Amounts[1].IsNil() {
				return false
			}
			m.TokenContracts[1] = m.TokenContracts[0]
			return true
		})
	case *ct.MsgOracleSetUpdatedClaim:
		try("Members (rotated)", func(c claim) bool {
			m := c.(*ct.MsgOracleSetUpdatedClaim)
			if len(m.Members) < 2 {
				return false
			}
			m.Members = append(m.Members[1:], m.Members[0])
			return true
		})
		try("Members (powers swapped between two members)", func(c claim) bool {
			m := c.(*ct.MsgOracleSetUpdatedClaim)
			if len(m.Members) < 2 || m.Members[0].Power == m.Members[1].Power {
				return false
			}
			m.Members[0].Power, m.Members[1].Power = m.Members[1].Power, m.Members[0].Power
			return true
		})
		try("Members (last dropped)", func(c claim) bool {
			m := c.(*ct.MsgOracleSetUpdatedClaim)
			if len(m.Members) < 2 {
				return false
			}
			m.Members = m.Members[:len(m.Members)-1]
			return true
		})
		try("Members (last duplicated)", func(c claim) bool {
			m := c.(*ct.MsgOracleSetUpdatedClaim)
			m.Members = append(m.Members, m.Members[len(m.Members)-1])
			return true
		})
		try("Members (sorted by address)", func(c claim) bool {
			m := c.(*ct.MsgOracleSetUpdatedClaim)
			before := fmt.Sprint(m.Members)
			ms := ct.BridgeValidators(m.Members)
			for i := 0; i < len(ms); i++ {
				for j := i + 1; j < len(ms); j++ {
					if ms[j].ExternalAddress < ms[i].ExternalAddress {
						ms[i], ms[j] = ms[j], ms[i]
					}
				}
			}
			return fmt.Sprint(m.Members) != before
		})
		try("Members (total power kept, split differently)", func(c claim) bool {
			m := c.(*ct.MsgOracleSetUpdatedClaim)
			if len(m.Members) < 2 || m.Members[0].Power < 2 || m.Members[1].Power == 1<<64-1 {
				return false
			}
			m.Members[0].Power--
			m.Members[1].Power++
			return true
		})
	}
	return out
}

// ---------------------------------------------------------------------------------------------------------
// re-splits derived from the extracted format (facts.json)

type factSeg struct {
	Lit   string `json:"lit"`
	Verb  string `json:"verb"`
	Field string `json:"field"`
	Tag   string `json:"tag"`
	Plain bool   `json:"plain"`
}

type factClaim struct {
	Format   string    `json:"format"`
	Segments []factSeg `json:"segments"`
}

func loadFacts() map[string]factClaim {
	res := map[string]factClaim{}
	p := os.Getenv("VERIF_FACTS")
	if p == "" {
		return res
	}
	bz, err := os.ReadFile(p)
	if err != nil {
		return res
	}
	var all map[string]json.RawMessage
	if json.Unmarshal(bz, &all) != nil {
		return res
	}
	_ = json.Unmarshal(all["C03.claims"], &res)
	return res
}

// typedOnlyFields: per claim type, the fields the handlers read ONLY through a typed address accessor
// (`GetXAddr(){ExternalAddrToHexAddr#class,X}` in the regenerated handlerView): two texts of one account in such a field are
// two spellings of one value as far as execution goes; every other field is read as text
func loadTypedOnly() map[string]map[string]bool {
	res := map[string]map[string]bool{}
	p := os.Getenv("VERIF_FACTS")
	bz, err := os.ReadFile(p)
	if p == "" || err != nil {
		return res
	}
	var all map[string]json.RawMessage
	if json.Unmarshal(bz, &all) != nil {
		return res
	}
	var hv map[string][]struct{ Fn, Expr string }
	if json.Unmarshal(all["C03.handlerView"], &hv) != nil {
		return res
	}
	word := func(expr, f string) bool {
		for _, w := range strings.FieldsFunc(expr, func(r rune) bool {
			return !(r == '_' || r >= '0' && r <= '9' || r >= 'a' && r <= 'z' || r >= 'A' && r <= 'Z')
		}) {
			if w == f {
				return true
			}
		}
		return false
	}
	for tn, es := range hv {
		typed, other := map[string]bool{}, map[string]bool{}
		for _, e := range es {
			if i := strings.Index(e.Expr, "{ExternalAddrToHexAddr#class,"); i >= 0 && strings.HasSuffix(e.Expr, "}") && strings.Count(e.Expr, "{") == 1 {
				typed[strings.TrimSuffix(e.Expr[i+len("{ExternalAddrToHexAddr#class,"):], "}")] = true
			}
		}
		for _, e := range es {
			for f := range typed {
				if word(e.Expr, f) && !strings.HasSuffix(e.Expr, "{ExternalAddrToHexAddr#class,"+f+"}") {
					other[f] = true
				}
			}
		}
		res[tn] = map[string]bool{}
		for f := range typed {
			if !other[f] {
				res[tn][f] = true
			}
		}
	}
	return res
}

var typedOnly = loadTypedOnly()

// render prints one argument segment with the real fmt package (nil when the argument is not a plain field)
func renderSeg(c claim, s factSeg) (string, bool) {
	if s.Verb == "" {
		return s.Lit, true
	}
	if !s.Plain || len(s.Verb) != 1 {
		return "", false
	}
	f := elem(c).FieldByName(s.Field)
	if !f.IsValid() {
		return "", false
	}
	var v any = f.Interface()
	if s.Tag == "IntString" {
		v = f.Interface().(sdkmath.Int).String()
	}
	return fmt.Sprintf("%"+s.Verb, v), true
}

// scalarSeg: an argument that is exactly one text / sdkmath.Int / uint64 field of the claim
func scalarSeg(c claim, s factSeg) bool {
	if s.Verb == "" || !s.Plain || len(s.Verb) != 1 {
		return false
	}
	f := elem(c).FieldByName(s.Field)
	return f.IsValid() && (f.Kind() == reflect.String || f.Kind() == reflect.Uint64 || f.Type() == tInt)
}

// setSegText sets the field of a scalar argument to the value whose rendering is `text` (false when there is none)
func setSegText(c claim, s factSeg, text string) bool {
	f := elem(c).FieldByName(s.Field)
	switch {
	case f.Kind() == reflect.String:
		f.SetString(text)
	case f.Kind() == reflect.Uint64:
		var x uint64
		if _, err := fmt.Sscan(text, &x); err != nil || fmt.Sprint(x) != text {
			return false
		}
		f.SetUint(x)
	case f.Type() == tInt:
		x, ok := new(big.Int).SetString(text, 10)
		if !ok || x.String() != text || x.BitLen() > 256 {
			return false
		}
		f.Set(reflect.ValueOf(sdkmath.NewIntFromBigInt(x)))
	default:
		return false
	}
	got, ok := renderSeg(c, s)
	return ok && got == text
}

// formatResplit: for every pair of text fields i < j of the extracted path, move the rendered text between them (plus a
// short piece) out of field j into field i: the concatenation is unchanged whenever both are printed raw
func (r *run) formatResplit(g *gen, k *kind, base claim) {
	fc, ok := r.facts[k.name]
	if !ok {
		return
	}
	segs := fc.Segments
	isText := func(s factSeg) bool {
		return s.Verb != "" && s.Plain && s.Tag == "string" && elem(base).FieldByName(s.Field).IsValid() && !notEffect[s.Field]
	}
	for i := range segs {
		if !isText(segs[i]) {
			continue
		}
		for j := i + 1; j < len(segs); j++ {
			if !isText(segs[j]) {
				continue
			}
			mid := ""
			okMid := true
			for _, s := range segs[i+1 : j] {
				t, ok := renderSeg(base, s)
				if !ok {
					okMid = false
					break
				}
				mid += t
			}
			if !okMid || mid == "" {
				continue
			}
			fi, fj := segs[i].Field, segs[j].Field
			x, y2 := elem(base).FieldByName(fi).String(), elem(base).FieldByName(fj).String()
			y1 := hx_pick(g, []string{"", "A", "0x", "00", "ab"})
			a, b := k.clone(base), k.clone(base)
			elem(a).FieldByName(fj).SetString(y1 + mid + y2)
			elem(b).FieldByName(fi).SetString(x + mid + y1)
			r.out.Count("resplit:" + k.tag)
			r.pair(k, "the split of "+fi+"/"+fj, a, b)
		}
	}
	// two scalar arguments printed with NOTHING between them (`%s%s`, `%s%d`, `%v%s` … — a separator lost in a rewrite of the
	// format): a short piece moves across the boundary, each side re-read in its own type (text as it is, numbers in
	// canonical decimal) — hex text next to a decimal number share the digits, two texts share everything
	for i := 0; i+1 < len(segs); i++ {
		if !scalarSeg(base, segs[i]) || !scalarSeg(base, segs[i+1]) || notEffect[segs[i].Field] || notEffect[segs[i+1].Field] || segs[i].Field == segs[i+1].Field {
			continue
		}
		ti, ok1 := renderSeg(base, segs[i])
		tj, ok2 := renderSeg(base, segs[i+1])
		if !ok1 || !ok2 {
			continue
		}
		for _, piece := range []string{"1", "12", "40", "7", "ab", "9000", hx_pick(g, []string{"2", "34", "c0", "A", "5678"})} {
			a, b := k.clone(base), k.clone(base)
			if !setSegText(a, segs[i], ti+piece) || !setSegText(b, segs[i+1], piece+tj) {
				continue
			}
			r.out.Count("resplit:adjacent:" + k.tag)
			r.pair(k, "the split of "+segs[i].Field+"/"+segs[i+1].Field+" (printed without a separator)", a, b)
		}
	}
	// a number immediately followed by a text field (`%d%s`): a digit moves across the boundary
	for i := 0; i+1 < len(segs); i++ {
		if segs[i].Verb != "d" || !segs[i].Plain || !isText(segs[i+1]) {
			continue
		}
		nf, tf := elem(base).FieldByName(segs[i].Field), elem(base).FieldByName(segs[i+1].Field)
		if !nf.IsValid() || nf.Kind() != reflect.Uint64 {
			continue
		}
		t := tf.String()
		if len(t) == 0 || t[0] < '0' || t[0] > '9' || nf.Uint() > (1<<64-1)/10-1 {
			continue
		}
		b := k.clone(base)
		elem(b).FieldByName(segs[i].Field).SetUint(nf.Uint()*10 + uint64(t[0]-'0'))
		elem(b).FieldByName(segs[i+1].Field).SetString(t[1:])
		r.out.Count("resplit:" + k.tag)
		r.pair(k, "the split of "+segs[i].Field+"/"+segs[i+1].Field, base, b)
	}
}

// ---------------------------------------------------------------------------------------------------------
// corpus: pairs of claims of dangerous shapes kept from earlier findings (corpus/C03/*.json), run first

type corpusPair struct {
	Kind string          `json:"kind"`
	What string          `json:"what"`
	A    json.RawMessage `json:"a"`
	B    json.RawMessage `json:"b"`
}

type loadedPair struct {
	k    *kind
	what string
	a, b claim
}

func loadCorpus(ks map[string]*kind) (out []loadedPair) {
	dir := os.Getenv("VERIF_CORPUS")
	if dir == "" {
		return nil
	}
	ents, err := os.ReadDir(dir)
	if err != nil {
		return nil
	}
	for _, en := range ents {
		if !strings.HasSuffix(en.Name(), ".json") {
			continue
		}
		bz, err := os.ReadFile(dir + "/" + en.Name())
		if err != nil {
			continue
		}
		var ps []corpusPair
		if err := json.Unmarshal(bz, &ps); err != nil {
			panic("corpus " + en.Name() + ": " + err.Error())
		}
		for _, p := range ps {
			k := ks[p.Kind]
			if k == nil {
				panic("corpus: unknown kind " + p.Kind)
			}
			a, b := k.clone(k.zero()), k.clone(k.zero())
			if err := json.Unmarshal(p.A, a); err != nil {
				panic("corpus " + p.What + ": " + err.Error())
			}
			if err := json.Unmarshal(p.B, b); err != nil {
				panic("corpus " + p.What + ": " + err.Error())
			}
			// "@" stands for a valid fx account address
			for _, c := range []claim{a, b} {
				v := elem(c)
				for i := 0; i < v.NumField(); i++ {
					if f := v.Field(i); f.Kind() == reflect.String && f.String() == "@" {
						f.SetString(sdk.AccAddress(make([]byte, 20)).String())
					}
				}
			}
			out = append(out, loadedPair{k, p.What, a, b})
		}
	}
	return out
}

func hx_pick(g *gen, xs []string) string { return xs[g.rng.Intn(len(xs))] }
