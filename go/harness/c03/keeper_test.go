package c03

// executed_is_voted on the REAL keeper: four bonded oracles of equal power vote on an event nonce through the real
// message server (`Claim` -> `Attest` -> `TryAttestation`); two vote for claim M, the third — whose vote crosses the
// 66 % threshold — submits a claim D that differs from M in an effect-relevant field.  Monitor (the property itself):
// whenever an attestation becomes observed, the claim object that was executed (the crossing voter's) has the same
// effect-relevant fields as the claim of every voter tallied in that attestation.

import (
	"encoding/hex"
	"fmt"
	"testing"

	sdkmath "cosmossdk.io/math"
	codectypes "github.com/cosmos/cosmos-sdk/codec/types"
	sdk "github.com/cosmos/cosmos-sdk/types"

	"github.com/functionx/fx-core/v8/testutil/helpers"
	crosschainkeeper "github.com/functionx/fx-core/v8/x/crosschain/keeper"
	ct "github.com/functionx/fx-core/v8/x/crosschain/types"

	"fxverif/harness/hx"
)

type scenario struct {
	what string
	kind *kind
	m, d func(nonce uint64, bridger string) claim
}

func keeperScenarios(t *testing.T, r *run, ks map[string]*kind) {
	out := r.out
	const chain = "eth"
	const nOracle = 4
	s := hx.NewSuite(t, nOracle)
	k := s.App.EthKeeper
	srv := crosschainkeeper.NewMsgServerImpl(k)
	amt := sdkmath.NewInt(300 * 1e3).MulRaw(1e18)
	oracles := s.AddTestAddress(nOracle, ct.NewDelegateAmount(amt))
	bridgers := s.AddTestAddress(nOracle, ct.NewDelegateAmount(amt))
	po := &ct.ProposalOracle{}
	for _, o := range oracles {
		po.Oracles = append(po.Oracles, o.String())
	}
	k.SetProposalOracle(s.Ctx, po)
	for i := 0; i < nOracle; i++ {
		_, err := srv.BondedOracle(s.Ctx, &ct.MsgBondedOracle{OracleAddress: oracles[i].String(), BridgerAddress: bridgers[i].String(),
			ExternalAddress: helpers.GenExternalAddr(chain), ValidatorAddress: s.ValAddr[i].String(),
			DelegateAmount: ct.NewDelegateAmount(sdkmath.NewInt(10 * 1e3).MulRaw(1e18)), ChainName: chain})
		if err != nil {
			t.Fatalf("bond oracle %d: %v", i, err)
		}
	}
	if _, err := s.App.EndBlocker(s.Ctx); err != nil {
		t.Fatalf("end block: %v", err)
	}
	s.Ctx = s.Ctx.WithBlockHeight(s.Ctx.BlockHeight() + 1)

	ethA, ethB := helpers.GenExternalAddr(chain), helpers.GenExternalAddr(chain)
	tok := helpers.GenExternalAddr(chain)
	call := func(memo, origin string) func(uint64, string) claim {
		return func(n uint64, b string) claim {
			return &ct.MsgBridgeCallClaim{ChainName: chain, BridgerAddress: b, EventNonce: n, BlockHeight: 1000 + n, Sender: ethA, Refund: ethA, To: ethA,
				TokenContracts: []string{}, Amounts: []sdkmath.Int{}, Data: "", Value: sdkmath.ZeroInt(), Memo: memo, TxOrigin: origin}
		}
	}
	token := func(name, symbol string) func(uint64, string) claim {
		return func(n uint64, b string) claim {
			return &ct.MsgBridgeTokenClaim{EventNonce: n, BlockHeight: 1000 + n, TokenContract: tok, Name: name, Symbol: symbol, Decimals: 18, BridgerAddress: b, ChainName: chain}
		}
	}
	result := func(origin string) func(uint64, string) claim {
		return func(n uint64, b string) claim {
			return &ct.MsgBridgeCallResultClaim{ChainName: chain, BridgerAddress: b, EventNonce: n, BlockHeight: 1000 + n, Nonce: 77, TxOrigin: origin, Success: true}
		}
	}
	send := func(amount int64) func(uint64, string) claim {
		return func(n uint64, b string) claim {
			return &ct.MsgSendToFxClaim{EventNonce: n, BlockHeight: 1000 + n, TokenContract: tok, Amount: sdkmath.NewInt(amount), Sender: ethA,
				Receiver: sdk.AccAddress(oracles[0]).String(), BridgerAddress: b, ChainName: chain}
		}
	}
	scs := []scenario{
		{"MsgBridgeTokenClaim Name/Symbol split", ks["bt"], token("A", "FX/FX"), token("A/FX", "FX")},
		{"MsgBridgeCallClaim Memo", ks["bc"], call("", ""+hex.EncodeToString(ct.MemoSendCallTo.Bytes())+""), nil},
		{"MsgBridgeCallClaim TxOrigin", ks["bc"], call("", ethA), call("", ethB)},
		{"MsgBridgeCallResultClaim TxOrigin", ks["bcr"], result(ethA), result(ethB)},
		{"MsgSendToFxClaim Amount", ks["stf"], send(5), send(6)},
	}
	// the Memo scenario: M has the empty memo, D the send-call-to memo (same origin)
	scs[1].m, scs[1].d = call("", ethA), call(hex.EncodeToString(ct.MemoSendCallTo.Bytes()), ethA)

	nonce := k.GetLastObservedEventNonce(s.Ctx)
	for _, sc := range scs {
		nonce++
		votes := map[string]claim{} // oracle address -> the claim it submitted for this nonce
		var replay []string
		observed := false
		// oracle 0, 1: M; oracle 2: D (crosses 3/4 if tallied together); oracle 3: M
		order := []func(uint64, string) claim{sc.m, sc.m, sc.d, sc.m}
		for i := 0; i < nOracle; i++ {
			c := order[i](nonce, bridgers[i].String())
			if err := c.ValidateBasic(); err != nil {
				t.Fatalf("%s: scenario claim invalid: %v", sc.what, err)
			}
			votes[oracles[i].String()] = c
			replay = append(replay, fmt.Sprintf("# oracle %d votes nonce %d: %+v", i, nonce, c))
			anyClaim, _ := codectypes.NewAnyWithValue(c)
			res := hx.Try(func() error {
				_, err := srv.Claim(s.Ctx, &ct.MsgClaim{ChainName: chain, BridgerAddress: bridgers[i].String(), Claim: anyClaim})
				return err
			})
			out.Count("keeper:vote:" + res[:2])
			att := k.GetAttestation(s.Ctx, nonce, c.ClaimHash())
			if att == nil || !att.Observed || observed {
				continue
			}
			observed = true
			out.Nontrivial("keeper:" + sc.what)
			// c is the claim object TryAttestation executed
			for _, v := range att.Votes {
				vc, ok := votes[v]
				if !ok {
					continue
				}
				if sc.kind.effect(vc) != sc.kind.effect(c) {
					replay = append(replay, fmt.Sprintf("# attestation %x observed with votes %v; executed claim = oracle %d's", c.ClaimHash(), att.Votes, i))
					r.violate(fmt.Sprintf("real keeper: executed claim differs from a tallied vote in %s", sc.what), replay)
					break
				}
			}
		}
		if !observed {
			out.Count("keeper:not-observed")
		}
	}
}
