package c03

// executed_is_voted on the REAL keeper: bonded oracles vote on an event nonce through the real message server
// (`Claim` -> `claimLogicCheck` -> `Attest` -> `TryAttestation` -> `AttestationHandler`).  Most voters submit claim M, one or
// two submit a claim D that differs from M in one effect-relevant part (a field, a spelling, a boundary value, an order),
// in a random vote order and with several power distributions, so that every position of the deviating vote relative to
// the threshold-crossing vote occurs.
//
// Monitors (the property itself, on real state): whenever an attestation becomes observed, the claim object that was
// executed (the crossing voter's) has the same effect-relevant fields as the claim of EVERY voter tallied in that
// attestation, as the claim recorded in the attestation, and as what the handler stored (pending execute claim, last
// observed oracle set, bridge token registration).
//
// Correspondence: every vote is also an op line of the Lean attestation model (Model/C03Attest.lean: `Attest` /
// `TryAttestation` over the generated paths); the compared observation is the result kind, the last observed nonce, the
// attestation table of the nonce (hash, voters in order, observed) and the hash of the executed claim.
//
// Every colliding pair the pure search found is replayed here as (M, D).

import (
	"crypto/sha256"
	"encoding/hex"
	"fmt"
	"math/big"
	"sort"
	"strings"
	"testing"

	sdkmath "cosmossdk.io/math"
	codectypes "github.com/cosmos/cosmos-sdk/codec/types"
	sdk "github.com/cosmos/cosmos-sdk/types"
	"github.com/ethereum/go-ethereum/common"

	"github.com/functionx/fx-core/v8/testutil/helpers"
	fxtypes "github.com/functionx/fx-core/v8/types"
	crosschainkeeper "github.com/functionx/fx-core/v8/x/crosschain/keeper"
	ct "github.com/functionx/fx-core/v8/x/crosschain/types"

	"fxverif/harness/hx"
)

// the chains whose keeper is driven: an EVM chain, a second EVM chain (another module name, same address class) and tron
// (base58 addresses)
// (base58 addresses) with the larger scenario sets, then the other five EVM-class keepers (same code, their own module name,
// store and oracle set) with the fixed scenarios and a small generated set
var keeperChains = []string{"eth", "bsc", "tron", "polygon", "avalanche", "arbitrum", "optimism", "layer2"}

func keeperOf(s *hx.Suite, chain string) crosschainkeeper.Keeper {
	switch chain {
	case "bsc":
		return s.App.BscKeeper
	case "tron":
		return s.App.TronKeeper
	case "polygon":
		return s.App.PolygonKeeper
	case "avalanche":
		return s.App.AvalancheKeeper
	case "arbitrum":
		return s.App.ArbitrumKeeper
	case "optimism":
		return s.App.OptimismKeeper
	case "layer2":
		return s.App.Layer2Keeper
	}
	return s.App.EthKeeper
}

// sameClassChains: the chain names registered with the same external address class (Gen/C03.lean `chains`)
func sameClassChains(chain string) []string {
	if chain == "tron" {
		return []string{"tron"}
	}
	return ethChains
}

type keeperEnv struct {
	chain    string
	token    string // a registered bridge token of the chain
	outNonce uint64 // nonce of an existing outgoing bridge call
	t        *testing.T
	r        *run
	s        *hx.Suite
	k        crosschainkeeper.Keeper
	srv      ct.MsgServer
	oracles  []sdk.AccAddress
	bridgers []sdk.AccAddress
	exts     []string
	powers   []int64
	index    map[string]int // oracle address -> index
	inflight *inflight      // the next replay starts with this attestation already in the store
}

// inflight: an attestation that was open when the claim-hash formats changed (b7515bc): it sits under the hash the EARLIER
// release computed for the recorded claim, with the votes cast before the upgrade
type inflight struct {
	claim  claim
	voters []int
}

// legacyHash: ClaimHash as the release before b7515bc computed it (git show 6774338:x/crosschain/types/msgs.go); the three
// formats that changed.  Compared with the model's legacy paths per use (`lhash` lines).
func legacyHash(c claim) []byte {
	path := ""
	switch m := c.(type) {
	case *ct.MsgBridgeCallClaim:
		path = fmt.Sprintf("%d/%d/%s/%s/%s/%s/%v/%v/%s", m.BlockHeight, m.EventNonce, m.Sender, m.Refund, m.To, m.TokenContracts, m.Amounts, m.Data, m.Value.String())
	case *ct.MsgBridgeCallResultClaim:
		path = fmt.Sprintf("%d/%d/%d/%t/%s", m.BlockHeight, m.EventNonce, m.Nonce, m.Success, m.Cause)
	case *ct.MsgBridgeTokenClaim:
		path = fmt.Sprintf("%d/%d%s/%s/%s/%d/%s/", m.BlockHeight, m.EventNonce, m.TokenContract, m.Name, m.Symbol, m.Decimals, m.ChannelIbc)
	default:
		return c.ClaimHash()
	}
	h := sha256.Sum256([]byte(path))
	return h[:]
}

var powerProfiles = [][]int64{{10, 10, 10, 10}, {40, 30, 20, 10}, {34, 33, 32, 10}, {66, 20, 10, 10}, {25, 25, 25, 25, 25}, {50, 16, 16, 16, 10}}

func newKeeperEnv(t *testing.T, r *run, profile []int64, keeperChain string) *keeperEnv {
	n := len(profile)
	s := hx.NewSuite(t, n)
	e := &keeperEnv{chain: keeperChain, t: t, r: r, s: s, k: keeperOf(s, keeperChain), index: map[string]int{}, powers: profile}
	e.srv = crosschainkeeper.NewMsgServerImpl(e.k)
	amt := sdkmath.NewInt(300 * 1e3).MulRaw(1e18)
	e.oracles = s.AddTestAddress(n, ct.NewDelegateAmount(amt))
	e.bridgers = s.AddTestAddress(n, ct.NewDelegateAmount(amt))
	po := &ct.ProposalOracle{}
	for _, o := range e.oracles {
		po.Oracles = append(po.Oracles, o.String())
	}
	e.k.SetProposalOracle(s.Ctx, po)
	for i := 0; i < n; i++ {
		ext := helpers.GenExternalAddr(keeperChain)
		e.exts = append(e.exts, ext)
		e.index[e.oracles[i].String()] = i
		_, err := e.srv.BondedOracle(s.Ctx, &ct.MsgBondedOracle{OracleAddress: e.oracles[i].String(), BridgerAddress: e.bridgers[i].String(),
			ExternalAddress: ext, ValidatorAddress: s.ValAddr[i].String(),
			DelegateAmount: ct.NewDelegateAmount(sdkmath.NewInt(profile[i] * 1e3).MulRaw(1e18)), ChainName: keeperChain})
		if err != nil {
			t.Fatalf("bond oracle %d: %v", i, err)
		}
	}
	if _, err := s.App.EndBlocker(s.Ctx); err != nil {
		t.Fatalf("end block: %v", err)
	}
	s.Ctx = s.Ctx.WithBlockHeight(s.Ctx.BlockHeight() + 1)
	// state the deferred handlers can act on: a registered bridge token of this chain (a module-owned coin with one alias),
	// and an outgoing bridge call a result claim can refer to
	e.token = helpers.GenExternalAddr(keeperChain)
	md := fxtypes.GetCrossChainMetadataManyToOne("Token TKA", "TKA", 18, ct.NewBridgeDenom(keeperChain, e.token))
	if _, err := s.App.Erc20Keeper.RegisterNativeCoin(s.Ctx, md); err != nil {
		t.Fatalf("register coin: %v", err)
	}
	if err := e.k.AddBridgeTokenExecuted(s.Ctx, &ct.MsgBridgeTokenClaim{TokenContract: e.token, Name: "Token TKA", Symbol: "TKA", Decimals: 18, ChainName: keeperChain}); err != nil {
		t.Fatalf("bridge token: %v", err)
	}
	e.k.SetLastObservedBlockHeight(s.Ctx, 1000, uint64(s.Ctx.BlockHeight()))
	user := common.BytesToAddress(e.oracles[0].Bytes())
	if n, err := e.k.AddOutgoingBridgeCall(s.Ctx, user, user, sdk.NewCoins(), common.Address{}, nil, nil, 0); err != nil {
		t.Fatalf("outgoing bridge call: %v", err)
	} else {
		e.outNonce = n
	}
	return e
}

// okAmount: amounts the bridge can mint, boundary-biased (units, around powers of ten, 2^64, a whole token of 18 decimals)
func (e *keeperEnv) okAmount(g *gen) sdkmath.Int {
	switch g.rng.Intn(6) {
	case 0:
		return sdkmath.NewInt(int64(1 + g.rng.Intn(3)))
	case 1:
		p := sdkmath.NewIntFromBigInt(new(big.Int).Exp(big.NewInt(10), big.NewInt(int64(1+g.rng.Intn(24))), nil))
		return p.AddRaw(int64(g.rng.Intn(3)) - 1)
	case 2:
		return sdkmath.NewIntFromUint64(1 << 63).MulRaw(2).AddRaw(int64(g.rng.Intn(3)) - 1)
	case 3:
		return sdkmath.NewInt(1e18).MulRaw(int64(1 + g.rng.Intn(1000)))
	default:
		return sdkmath.NewInt(int64(1 + g.rng.Intn(100000)))
	}
}

// acceptable rewrites the parts of a generated claim that decide whether the real handler gets anywhere: the registered
// bridge token with a small amount, a plain receiver, an existing outgoing bridge call — everything else stays as generated
func (e *keeperEnv) acceptable(g *gen, c claim) {
	switch m := c.(type) {
	case *ct.MsgSendToFxClaim:
		m.TokenContract = e.token
		m.Amount = e.okAmount(g)
		m.Receiver = sdk.AccAddress(g.bytes(20)).String()
		m.TargetIbc = hx.Pick(g.rng, []string{"", hex.EncodeToString([]byte(fxtypes.ERC20Target)), m.TargetIbc})
	case *ct.MsgBridgeCallClaim:
		for i := range m.TokenContracts {
			m.TokenContracts[i] = e.token
			m.Amounts[i] = e.okAmount(g)
		}
		m.Value = sdkmath.ZeroInt()
	case *ct.MsgBridgeCallResultClaim:
		m.Nonce = e.outNonce
	}
}

func setBridger(c claim, b string) {
	elem(c).FieldByName("BridgerAddress").SetString(b)
}

func setChain(c claim, ch string) {
	elem(c).FieldByName("ChainName").SetString(ch)
}

func isDeferred(c claim) bool {
	switch c.(type) {
	case *ct.MsgSendToFxClaim, *ct.MsgBridgeCallClaim, *ct.MsgBridgeCallResultClaim:
		return true
	}
	return false
}

// handlerOutcome: what executing claim c NOW would leave behind — the real AttestationHandler (and, for the claim types it
// only stores, the real ExecuteClaim) on a throw-away branch of the state: the result kind and the digest of every KV store
// of the app.  A failure before the end means nothing is written (processAttestation / the transaction discard the branch).
func (e *keeperEnv) handlerOutcome(ctx sdk.Context, c claim) string {
	cctx, _ := ctx.CacheContext()
	if res := hx.Try(func() error { return e.k.AttestationHandler(cctx, c) }); res != "ok" {
		return "handler: " + res
	}
	if isDeferred(c) {
		if res := hx.Try(func() error { return e.k.ExecuteClaim(cctx, c.GetEventNonce()) }); res != "ok" {
			return "execute: " + res
		}
	}
	d := hx.DumpAll(cctx, e.s.App.GetKVStoreKey())
	var sb strings.Builder
	names := make([]string, 0, len(d))
	for n := range d {
		names = append(names, n)
	}
	sort.Strings(names)
	for _, n := range names {
		sb.WriteString(n + "=" + d[n][:12] + " ")
	}
	return sb.String()
}

// outcomeMonitor — "the effect applied is the one voted for, NO MATTER WHICH oracle's vote crosses the threshold", on the
// real handlers: what the handlers leave behind for claim c must not depend on anything two votes of one attestation may
// differ in — who relays it (`BridgerAddress`) and which chain of the same address class the claim itself names
// (`ChainName`): both are outside the ClaimHash.  The claim is executed twice from the same state, once as it is and once
// as another voter of the same attestation could have submitted it.
func (e *keeperEnv) outcomeMonitor(ctx sdk.Context, k *kind, what string, c claim, voter int, replay []string) {
	out := e.r.out
	if e.r.nOutcomeBy == nil {
		e.r.nOutcomeBy = map[string]int{}
	}
	// one comparison per distinct event and chain (the fixed scenarios submit the same few events many times)
	if ek := "seen:" + e.chain + ":" + k.tag + ":" + k.effect(c); e.r.nOutcomeBy[ek] > 0 {
		return
	} else {
		e.r.nOutcomeBy[ek]++
	}
	if bk := e.chain + ":" + k.tag; e.r.nOutcomeBy[bk] >= hx.N(30, 300) {
		return
	} else {
		e.r.nOutcomeBy[bk]++
	}
	e.r.nOutcome++
	base := e.handlerOutcome(ctx, c)
	variants := []struct {
		what string
		mk   func(claim)
	}{
		{"BridgerAddress", func(d claim) { setBridger(d, e.bridgers[(voter+1)%len(e.bridgers)].String()) }},
	}
	if alt := sameClassChains(e.chain); len(alt) > 1 {
		cur := elem(c).FieldByName("ChainName").String()
		other := alt[(e.r.rng.Intn(len(alt)-1)+1+indexOf(alt, cur))%len(alt)]
		variants = append(variants, struct {
			what string
			mk   func(claim)
		}{"ChainName (another chain of the same address class)", func(d claim) { setChain(d, other) }})
	}
	for _, v := range variants {
		d := k.clone(c)
		v.mk(d)
		if verdict(d) != "ok" || hashOf(d) != hashOf(c) {
			out.Count("keeper:outcome:variant-not-tallied-together")
			continue
		}
		got := e.handlerOutcome(ctx, d)
		kindO := "state"
		if strings.HasPrefix(base, "handler:") || strings.HasPrefix(base, "execute:") {
			kindO = strings.SplitN(base, ":", 2)[0] + "-fails"
		}
		out.Count("keeper:outcome:" + k.tag + ":" + kindO)
		if got != base {
			rp := append(append([]string{}, replay...),
				fmt.Sprintf("# state: real %s keeper before oracle %d votes; the claim executed as submitted:  %+v", e.chain, voter, c),
				"#   -> "+base,
				fmt.Sprintf("# the same claim as another voter of the same attestation could submit it (same ClaimHash, passes ValidateBasic): %+v", d),
				"#   -> "+got)
			e.r.violate(fmt.Sprintf("real keeper: what the handlers of %s leave behind depends on %s, which the quorum does not vote on", k.name, v.what), rp)
		}
	}
}

func indexOf(xs []string, x string) int {
	for i, y := range xs {
		if y == x {
			return i
		}
	}
	return 0
}

// bridgeTokenLines: the real AddBridgeTokenExecuted against its regenerated statement list interpreted by the model
// (`hbt` lines): fresh and already registered contracts, the symbol FX (any spelling near it) with and without 18
// decimals, on a store that does / does not yet hold the native coin's entry; some runs are kept so that later ones see them
func (e *keeperEnv) bridgeTokenLines(g *gen, k *kind) {
	out := e.r.out
	out.Reset("bridge-token-handler")
	ctx, _ := e.s.Ctx.CacheContext()
	store := func(c sdk.Context) func(string) (string, bool) {
		return func(key string) (string, bool) {
			bz := c.KVStore(e.s.App.GetKey(e.chain)).Get(ct.GetBridgeDenomKey(key))
			return string(bz), len(bz) > 0
		}
	}
	for i := 0; i < hx.N(24, 200); i++ {
		m := k.base(g, e.chain).(*ct.MsgBridgeTokenClaim)
		switch g.rng.Intn(4) {
		case 0:
			m.TokenContract = e.token // registered at set-up
		}
		switch g.rng.Intn(5) {
		case 0, 1:
			m.Symbol = fxtypes.DefaultDenom
		case 2:
			m.Symbol = hx.Pick(g.rng, []string{"fx", "FX ", "FX/FX", "Fx", "F", "FXX"})
		}
		switch g.rng.Intn(3) {
		case 0:
			m.Decimals = 18
		case 1:
			m.Decimals = hx.Pick(g.rng, []uint64{0, 6, 17, 19, 18 + 1<<32})
		}
		if verdict(m) != "ok" {
			continue
		}
		bd := ct.NewBridgeDenom(e.chain, m.TokenContract)
		keys := []string{bd, fxtypes.DefaultDenom}
		sort.Strings(keys)
		var pre []string
		get := store(ctx)
		for _, kk := range keys {
			if v, ok := get(kk); ok {
				pre = append(pre, hx.HexS(kk)+":"+hx.HexS(v))
			}
		}
		preS := "-"
		if len(pre) > 0 {
			preS = strings.Join(pre, ",")
		}
		cctx, commit := ctx.CacheContext()
		res := hx.Try(func() error { return e.k.AddBridgeTokenExecuted(cctx, m) })
		obs := "err"
		if res == "ok" {
			var post []string
			getP := store(cctx)
			for _, kk := range keys {
				if v, ok := getP(kk); ok {
					post = append(post, hx.HexS(kk)+"="+hx.HexS(v))
				}
			}
			sort.Strings(post)
			obs = "ok " + strings.Join(post, ",")
			if g.rng.Intn(2) == 0 {
				commit()
			}
		} else if strings.HasPrefix(res, "panic:") {
			obs = "panic"
		}
		out.Count("bridge-token-handler:" + strings.SplitN(obs, " ", 2)[0] + ":" + map[bool]string{true: "FX", false: "other"}[m.Symbol == fxtypes.DefaultDenom])
		out.Emit(fmt.Sprintf("hbt %s %s %s %s", hx.HexS(e.chain), preS, k.line(m), ckBit(k, m)), obs)
	}
}

// viewDepLines — is the regenerated handler view COMPLETE?  One field of a handler-acceptable claim is changed (to another
// valid value) and the real handlers are run on both claims from one state; if what they leave behind differs, the field
// must be one of those the regenerated `handlerView` lists (the model answers from Gen/C03.lean `viewFields`).  EventNonce
// is left alone (it is the pending-store key, read through the ExternalClaim interface).
func (e *keeperEnv) viewDepLines(g *gen, ks map[string]*kind) {
	out := e.r.out
	out.Reset("view-dependence")
	ctx, _ := e.s.Ctx.CacheContext()
	for _, tag := range []string{"stf", "bc", "bcr", "ste", "bt", "osu"} {
		k := ks[tag]
		for i := 0; i < hx.N(3, 25); i++ {
			base := k.base(g, e.chain)
			e.acceptable(g, base)
			if m, ok := base.(*ct.MsgOracleSetUpdatedClaim); ok {
				m.OracleSetNonce = 0
			}
			if verdict(base) != "ok" {
				continue
			}
			o0 := e.handlerOutcome(ctx, base)
			try := func(name string, d claim) {
				if d == nil || verdict(d) != "ok" {
					return
				}
				finding := "indep"
				if e.handlerOutcome(ctx, d) != o0 {
					finding = "dep"
				}
				out.Count("view-dependence:" + tag + ":" + name + ":" + finding)
				out.Emit(fmt.Sprintf("hdep %s %s %s", tag, name, finding), "ok")
			}
			for _, f := range k.fields {
				if f.name == "EventNonce" {
					continue
				}
				d := k.clone(base)
				f.mutate(g, d, e.chain)
				try(f.name, d)
			}
			if alt := sameClassChains(e.chain); len(alt) > 1 {
				d := k.clone(base)
				setChain(d, alt[(indexOf(alt, e.chain)+1+g.rng.Intn(len(alt)-1))%len(alt)])
				try("ChainName", d)
			}
		}
	}
}

// keyLines: types.GetAttestationKey / GetPendingExecuteClaimKey against the regenerated layouts interpreted by the model
func (e *keeperEnv) keyLines(g *gen) {
	out := e.r.out
	out.Reset("keys")
	for i := 0; i < hx.N(12, 100); i++ {
		n := g.u64()
		h := g.bytes(32)
		if i%5 == 4 {
			h = g.bytes(1 + g.rng.Intn(40))
		}
		out.Emit(fmt.Sprintf("akey %d %s", n, hex.EncodeToString(h)), hex.EncodeToString(ct.GetAttestationKey(n, h)))
		out.Emit(fmt.Sprintf("pkey %d", n), hex.EncodeToString(ct.GetPendingExecuteClaimKey(n)))
		out.Count("keys:compared")
	}
}

// attTable: attestations of one event nonce on the real store, by STORE KEY: hash part of the key -> (voter indices, observed)
func (e *keeperEnv) attTable(ctx sdk.Context, nonce uint64) string {
	var rows []string
	prefix := ct.GetAttestationKey(nonce, nil)
	for _, kv := range hx.RawPrefix(ctx, e.s.App.GetKey(e.chain), prefix) {
		var att ct.Attestation
		e.s.App.AppCodec().MustUnmarshal(kv[1], &att)
		var vs []string
		for _, v := range att.Votes {
			if i, ok := e.index[v]; ok {
				vs = append(vs, fmt.Sprint(i))
			} else {
				vs = append(vs, "?")
			}
		}
		h := hex.EncodeToString(kv[0][len(prefix):])
		if len(h) > 16 {
			h = h[:16]
		}
		rows = append(rows, fmt.Sprintf("%s:%s:%s", h, strings.Join(vs, "."), b01(att.Observed)))
	}
	sort.Strings(rows)
	if len(rows) == 0 {
		return "-"
	}
	return strings.Join(rows, ",")
}

// handlerPanics: does the real AttestationHandler panic on this claim in this state (environment input of the model:
// the handlers are not modelled)
func (e *keeperEnv) handlerPanics(ctx sdk.Context, c claim) (res bool, err error) {
	defer func() {
		if recover() != nil {
			res = true
		}
	}()
	cctx, _ := ctx.CacheContext()
	err = e.k.AttestationHandler(cctx, c)
	return false, err
}

// stored: what the handler left behind for the executed nonce, as an effect text comparable with kind.effect
func (e *keeperEnv) stored(ctx sdk.Context, k *kind, executed claim) (string, bool) {
	switch m := executed.(type) {
	case *ct.MsgSendToFxClaim, *ct.MsgBridgeCallClaim, *ct.MsgBridgeCallResultClaim:
		p, found := e.k.GetPendingExecuteClaim(ctx, executed.GetEventNonce())
		if !found {
			return "no pending execute claim", true
		}
		if fmt.Sprintf("%T", p) != fmt.Sprintf("%T", executed) {
			return fmt.Sprintf("pending claim of type %T", p), true
		}
		return k.effect(p), true
	case *ct.MsgOracleSetUpdatedClaim:
		os := e.k.GetLastObservedOracleSet(ctx)
		if os == nil {
			return "no last observed oracle set", true
		}
		cp := k.clone(executed).(*ct.MsgOracleSetUpdatedClaim)
		cp.OracleSetNonce, cp.Members = os.Nonce, os.Members
		return k.effect(cp), true
	case *ct.MsgBridgeTokenClaim:
		d, found := e.k.GetBridgeDenomByContract(ctx, m.TokenContract)
		if !found {
			return "", false // handler returned an error (token exists, decimals mismatch): nothing stored
		}
		// the registration depends on Symbol only through `== FX`
		isFX := d == fxtypes.DefaultDenom
		if isFX != (m.Symbol == fxtypes.DefaultDenom) {
			return "bridge token registered as " + d, true
		}
		return k.effect(executed), true
	}
	return "", false
}

// shift: a change of oracle power between two votes
type shift struct {
	kind   string // "add": MsgAddDelegate of `amount` thousand FX; "slash": SlashOracle + SetLastTotalPower (as the end blocker does)
	oracle int
	amount int64
}

// applyShifts performs the power changes on the real keeper and tells the model the resulting powers (environment)
func (e *keeperEnv) applyShifts(ctx sdk.Context, shifts []shift, replay *[]string) {
	out := e.r.out
	for _, sh := range shifts {
		res := "ok"
		switch sh.kind {
		case "add":
			cctx, commit := ctx.CacheContext()
			res = hx.Try(func() error {
				_, err := e.srv.AddDelegate(cctx, &ct.MsgAddDelegate{ChainName: e.chain, OracleAddress: e.oracles[sh.oracle].String(),
					Amount: ct.NewDelegateAmount(sdkmath.NewInt(sh.amount * 1e3).MulRaw(1e18))})
				return err
			})
			if res == "ok" {
				commit()
			}
		case "slash":
			e.k.SlashOracle(ctx, e.oracles[sh.oracle].String())
			e.k.SetLastTotalPower(ctx)
		}
		out.Count("keeper:shift:" + sh.kind + ":" + strings.SplitN(res, ":", 2)[0])
		*replay = append(*replay, fmt.Sprintf("# power shift: %s oracle %d amount %d -> %s", sh.kind, sh.oracle, sh.amount, res))
	}
	for i := range e.oracles {
		p := "none"
		if o, found := e.k.GetOracle(ctx, e.oracles[i]); found {
			p = o.GetPower().String()
		}
		line := fmt.Sprintf("pow %d %s", i, p)
		*replay = append(*replay, line)
		out.Emit(line, "ok")
	}
	line := "total " + e.k.GetLastTotalPower(ctx).String()
	*replay = append(*replay, line)
	out.Emit(line, "ok")
}

// replay: voters submit `claims[i]` (nil = does not vote) in `order`; `shifts[p]` are applied before the p-th vote of the order
func (e *keeperEnv) replay(k *kind, what string, claims []claim, order []int, shifts map[int][]shift) {
	r, out := e.r, e.r.out
	ctx, _ := e.s.Ctx.CacheContext() // every replay starts from the same state and is discarded
	var first claim
	for _, c := range claims {
		if c != nil {
			first = c
			break
		}
	}
	if first == nil {
		return
	}
	nonce := first.GetEventNonce()
	if nonce == 0 {
		return
	}
	// environment: the chain has observed everything up to nonce-1 and so has every oracle
	e.k.SetLastObservedEventNonce(ctx, nonce-1)
	for _, o := range e.oracles {
		e.k.SetLastEventNonceByOracle(ctx, o, nonce-1)
	}
	if m, ok := first.(*ct.MsgSendToExternalClaim); ok && m.BatchNonce%5 != 0 {
		// an outgoing batch the claim can confirm
		_ = e.k.StoreBatch(ctx, &ct.OutgoingTxBatch{BatchNonce: m.BatchNonce, TokenContract: m.TokenContract, Block: uint64(ctx.BlockHeight())})
	}
	out.Reset("keeper")
	var ps []string
	total := e.k.GetLastTotalPower(ctx)
	for i := range e.oracles {
		o, _ := e.k.GetOracle(ctx, e.oracles[i])
		ps = append(ps, o.GetPower().String()+":"+hx.HexS(e.exts[i]))
	}
	out.Emit(fmt.Sprintf("cfg %s %s", total.String(), strings.Join(ps, " ")), "ok")
	out.Emit(fmt.Sprintf("last %d %d", nonce-1, e.k.GetLastObservedBlockHeight(ctx).ExternalBlockHeight), "ok")
	replay := []string{fmt.Sprintf("# real keeper (%s), %d oracles of power %v, last observed nonce %d; votes in order:", e.chain, len(e.oracles), e.powers, nonce-1)}
	votes := map[int]claim{}
	observedBefore := map[string]bool{}
	if pf := e.inflight; pf != nil && len(pf.voters) > 0 {
		// the state an upgraded chain can be in: the attestation of this event was opened by the earlier release
		m := k.clone(pf.claim)
		setBridger(m, e.bridgers[pf.voters[0]].String())
		anyM, _ := codectypes.NewAnyWithValue(m)
		// … in an earlier block (Attestation.Height is the fxcore height at which the first vote arrived)
		opened := ctx.BlockHeight() - 1 - int64(e.r.rng.Intn(3))
		if opened < 1 {
			opened = 1
		}
		att := &ct.Attestation{Observed: false, Height: uint64(opened), Claim: anyM}
		var vs []string
		for _, i := range pf.voters {
			att.Votes = append(att.Votes, e.oracles[i].String())
			e.k.SetLastEventNonceByOracle(ctx, e.oracles[i], nonce)
			votes[i] = m
			vs = append(vs, fmt.Sprint(i))
		}
		lh := legacyHash(m)
		e.k.SetAttestation(ctx, nonce, lh, att)
		out.Count("keeper:inflight:" + k.tag + ":" + map[bool]string{true: "legacy-hash-differs", false: "hash-unchanged"}[hex.EncodeToString(lh) != hashOf(m)])
		out.Emit(fmt.Sprintf("lhash %s %s", k.line(m), ckBit(k, m)), hex.EncodeToString(lh))
		line := fmt.Sprintf("iatt %d %s %s %s %s", nonce, hex.EncodeToString(lh), strings.Join(vs, "."), k.line(m), ckBit(k, m))
		out.Emit(line, "ok atts="+e.attTable(ctx, nonce))
		replay = append(replay, fmt.Sprintf("# before the upgrade (claim hash of the release before b7515bc = %x) oracles %v voted for: %+v", lh, pf.voters, m), line)
		for _, i := range pf.voters {
			l := fmt.Sprintf("olast %d %d", i, nonce)
			out.Emit(l, "ok")
			replay = append(replay, l)
		}
	}
	for pos, i := range order {
		if sh := shifts[pos]; len(sh) > 0 {
			e.applyShifts(ctx, sh, &replay)
		}
		if claims[i] == nil {
			continue
		}
		c := k.clone(claims[i])
		setBridger(c, e.bridgers[i].String())
		if alt := sameClassChains(e.chain); len(alt) > 1 && e.r.rng.Intn(3) == 0 {
			// the claim's OWN chain name is neither hashed nor compared with the chain the MsgClaim is routed to: a voter may
			// name any chain (ValidateBasic then applies that chain's address class)
			if c2 := k.clone(c); true {
				setChain(c2, hx.Pick(e.r.rng, alt))
				if verdict(c2) == "ok" {
					c = c2
					out.Count("keeper:vote:inner-chain-name-differs")
				}
			}
		}
		prevVote, hadVote := votes[i]
		votes[i] = c
		hp, herr := e.handlerPanics(ctx, c)
		e.outcomeMonitor(ctx, k, what, c, i, replay)
		line := fmt.Sprintf("vote %d %s %s %s", i, b01(hp), k.line(c), ckBit(k, c))
		replay = append(replay, line, fmt.Sprintf("#   oracle %d: %+v", i, c))
		anyClaim, _ := codectypes.NewAnyWithValue(c)
		cctx, commit := ctx.CacheContext()
		res := hx.Try(func() error {
			_, err := e.srv.Claim(cctx, &ct.MsgClaim{ChainName: e.chain, BridgerAddress: e.bridgers[i].String(), Claim: anyClaim})
			return err
		})
		kindR := "ok"
		switch {
		case res == "ok":
			commit()
		case strings.HasPrefix(res, "panic:"):
			kindR = "panic"
		case strings.Contains(res, ct.ErrNonContiguousEventNonce.Error()):
			kindR = "err:non-contiguous"
		case strings.Contains(res, "external address"):
			kindR = "err:logic-check"
		default:
			kindR = "err:other"
		}
		out.Count("keeper:vote:" + kindR)
		if kindR != "ok" {
			// a rejected vote is no vote: what the oracle voted for is what it submitted successfully (if anything)
			if hadVote {
				votes[i] = prevVote
			} else {
				delete(votes, i)
			}
		}
		lastObs := e.k.GetLastObservedEventNonce(ctx)
		execHash := "-"
		// did this vote make an attestation observed?
		var att *ct.Attestation
		if kindR == "ok" {
			att = e.k.GetAttestation(ctx, c.GetEventNonce(), c.ClaimHash())
		}
		// (6) a vote is filed only with votes for the same ClaimHash: the attestation that now holds this vote records a claim
		// with the hash of the submitted claim, and so did every oracle whose vote it holds
		if att != nil {
			if rec, err := ct.UnpackAttestationClaim(e.s.App.AppCodec(), att); err == nil && hashOf(rec) != hashOf(c) {
				rp := append(append([]string{}, replay...), fmt.Sprintf("# oracle %d's vote was filed in an attestation recording %+v", i, rec))
				r.violate(fmt.Sprintf("real keeper: a vote is filed in an attestation that records a claim with another ClaimHash in %s: %s", k.name, what), rp)
			}
			for _, v := range att.Votes {
				if vi, ok := e.index[v]; ok && votes[vi] != nil && hashOf(votes[vi]) != hashOf(c) {
					rp := append(append([]string{}, replay...), fmt.Sprintf("# attestation %x now holds the votes of oracles %v; oracle %d voted for %+v", c.ClaimHash(), att.Votes, vi, votes[vi]))
					r.violate(fmt.Sprintf("real keeper: votes for claims with different ClaimHash are filed in one attestation in %s: %s", k.name, what), rp)
					break
				}
			}
		}
		key := fmt.Sprintf("%d/%x", c.GetEventNonce(), c.ClaimHash())
		if att != nil && att.Observed && !observedBefore[key] {
			observedBefore[key] = true
			execHash = hex.EncodeToString(c.ClaimHash())[:16]
			out.Nontrivial("keeper:observed:" + k.tag + ":" + what)
			out.Count(fmt.Sprintf("keeper:observed-with-%d-votes", len(att.Votes)))
			// (1) every tallied vote agrees with the executed claim
			for _, v := range att.Votes {
				vi, ok := e.index[v]
				if !ok || votes[vi] == nil {
					continue
				}
				if k.effect(votes[vi]) != k.effect(c) {
					rp := append(append([]string{}, replay...), fmt.Sprintf("# attestation %x observed with votes of oracles %v; executed claim = oracle %d's; oracle %d voted for a different event", c.ClaimHash(), att.Votes, i, vi))
					r.violate(fmt.Sprintf("real keeper: executed claim differs from a tallied vote in %s: %s", k.name, what), rp)
					break
				}
			}
			// (2) the claim recorded in the attestation (first voter's) agrees too
			if rec, err := ct.UnpackAttestationClaim(e.s.App.AppCodec(), att); err == nil && k.effect(rec) != k.effect(c) {
				r.violate(fmt.Sprintf("real keeper: claim recorded in the observed attestation differs from the executed one in %s: %s", k.name, what), replay)
			}
			// (3) what the handler stored is the executed claim
			if herr != nil {
				out.Count("keeper:handler-error")
			} else if got, ok := e.stored(ctx, k, c); ok && got != k.effect(c) {
				rp := append(append([]string{}, replay...), "# stored: "+got, "# executed: "+k.effect(c))
				r.violate(fmt.Sprintf("real keeper: state written by the handler differs from the executed claim in %s: %s", k.name, what), rp)
			}
		}
		out.Emit(line, fmt.Sprintf("%s last=%d h=%d exec=%s pend=%s atts=%s", kindR, lastObs, e.k.GetLastObservedBlockHeight(ctx).ExternalBlockHeight, execHash, e.pendOf(ctx, nonce), e.attTable(ctx, nonce)))
	}
	// (5) tallied together only if they agree: in the final table of the nonce, the voters of every attestation (observed
	// or not) submitted claims with one and the same effect
	e.k.IterateAttestationAndClaim(ctx, func(att *ct.Attestation, rec ct.ExternalClaim) bool {
		if rec.GetEventNonce() != nonce {
			return false
		}
		var firstV claim
		for _, v := range att.Votes {
			vi, ok := e.index[v]
			if !ok || votes[vi] == nil {
				continue
			}
			if firstV == nil {
				firstV = votes[vi]
			} else if k.effect(votes[vi]) != k.effect(firstV) {
				rp := append(append([]string{}, replay...), fmt.Sprintf("# attestation %x holds the votes of oracles %v, who voted for different events", rec.ClaimHash(), att.Votes))
				r.violate(fmt.Sprintf("real keeper: votes for different events are tallied in one attestation in %s: %s", k.name, what), rp)
				return true
			}
		}
		return false
	})
	// (7) every attestation of the nonce sits under the key of the claim it RECORDS — which is where ExportGenesis → InitGenesis
	// (SetAttestation(claim.GetEventNonce(), claim.ClaimHash(), att) on the recorded claim) would file it again; the one
	// exception is an attestation this scenario put there under the earlier release's hash, which must still hold exactly the
	// votes it had
	{
		prefix := ct.GetAttestationKey(nonce, nil)
		for _, kv := range hx.RawPrefix(ctx, e.s.App.GetKey(e.chain), prefix) {
			var att ct.Attestation
			e.s.App.AppCodec().MustUnmarshal(kv[1], &att)
			rec, err := ct.UnpackAttestationClaim(e.s.App.AppCodec(), &att)
			if err != nil {
				continue
			}
			keyHash := hex.EncodeToString(kv[0][len(prefix):])
			if keyHash == hashOf(rec) && rec.GetEventNonce() == nonce {
				out.Count("keeper:filed-under-recorded-claim")
				continue
			}
			if pf := e.inflight; pf != nil && keyHash == hex.EncodeToString(legacyHash(rec)) && !att.Observed && len(att.Votes) == len(pf.voters) {
				out.Count("keeper:stale-attestation-untouched")
				continue
			}
			rp := append(append([]string{}, replay...), fmt.Sprintf("# attestation under hash %s records %+v (ClaimHash %s), votes %v, observed %v", keyHash, rec, hashOf(rec), att.Votes, att.Observed))
			r.violate(fmt.Sprintf("real keeper: an attestation is not filed under the hash of the claim it records in %s: %s", k.name, what), rp)
		}
	}
	// deferred execution: ExecuteClaim runs the stored copy (whether the real handler succeeds is an input of the model)
	ran := 0
	for round := 0; round < 2; round++ {
		stored, had := e.k.GetPendingExecuteClaim(ctx, nonce)
		fails := false
		if had {
			cctx, _ := ctx.CacheContext()
			fails = hx.Try(func() error { return e.k.ExecuteClaim(cctx, nonce) }) != "ok"
		} else if round == 1 {
			break
		}
		cctx, commit := ctx.CacheContext()
		res := hx.Try(func() error { return e.k.ExecuteClaim(cctx, nonce) })
		kindR := "err"
		switch {
		case !had:
			kindR = "none"
		case res == "ok":
			kindR = "ok"
			commit()
			ran++
			// (4) the claim that was run from the store is the executed (voted) one: checked against every vote cast for it
			for i, v := range votes {
				if hashOf(v) == hashOf(stored) && k.effect(v) != k.effect(stored) {
					r.violate(fmt.Sprintf("real keeper: claim run by ExecuteClaim differs from the vote of oracle %d tallied for it in %s: %s", i, k.name, what), replay)
				}
			}
		}
		out.Count("keeper:execute-claim:" + kindR)
		out.Emit(fmt.Sprintf("run %d %s", nonce, b01(fails)), fmt.Sprintf("%s pend=%s ran=%d", kindR, e.pendOf(ctx, nonce), ran))
	}
}

func (e *keeperEnv) pendOf(ctx sdk.Context, nonce uint64) string {
	if c, ok := e.k.GetPendingExecuteClaim(ctx, nonce); ok {
		return hex.EncodeToString(c.ClaimHash())[:16]
	}
	return "-"
}

// renameMembers maps the distinct member addresses of two oracle-set claims, in order of first appearance, onto the
// registered external addresses
func (e *keeperEnv) renameMembers(k *kind, a, b claim, mustCollide bool) (claim, claim, bool) {
	ma, ok1 := k.clone(a).(*ct.MsgOracleSetUpdatedClaim)
	mb, ok2 := k.clone(b).(*ct.MsgOracleSetUpdatedClaim)
	if !ok1 || !ok2 {
		return nil, nil, false
	}
	names := map[string]string{}
	for _, ms := range [][]ct.BridgeValidator{ma.Members, mb.Members} {
		for i := range ms {
			if _, ok := names[ms[i].ExternalAddress]; !ok {
				names[ms[i].ExternalAddress] = e.exts[len(names)%len(e.exts)]
			}
			ms[i].ExternalAddress = names[ms[i].ExternalAddress]
		}
	}
	ma.ChainName, mb.ChainName = e.chain, e.chain
	if verdict(ma) != "ok" || verdict(mb) != "ok" || (mustCollide && hashOf(ma) != hashOf(mb)) || k.effect(ma) == k.effect(mb) {
		return nil, nil, false
	}
	return ma, mb, true
}

// orders: vote orders for n oracles with the deviators at every position
func orders(g *gen, n int) []int {
	return g.rng.Perm(n)
}

// keeperRun drives the real keeper of every chain of `keeperChains`: the first one with the full scenario set, the others
// (another module name / tron's base58 addresses) with the fixed scenarios, every collision found and a smaller generated set
func keeperRun(t *testing.T, r *run, g *gen, ks map[string]*kind) {
	for i, chain := range keeperChains {
		keeperRunOn(t, r, g, ks, chain, i == 0, i)
	}
	if len(keeperChains) != 8 {
		r.out.Violate("harness: not every crosschain keeper is driven")
	}
}

func keeperRunOn(t *testing.T, r *run, g *gen, ks map[string]*kind, keeperChain string, full bool, idx int) {
	profile := powerProfiles[int(hx.Seed()+3+int64(idx))%len(powerProfiles)]
	if hx.Seed() < 0 {
		profile = powerProfiles[0]
	}
	e := newKeeperEnv(t, r, profile, keeperChain)
	n := len(e.oracles)
	r.out.Stats.Extra["keeper_power_profile:"+keeperChain] = fmt.Sprint(profile)
	r.out.Count("keeper:chain:" + keeperChain)
	kg := &gen{rng: g.rng, pool: e.exts}
	light := idx >= 3 // the five further EVM-class keepers
	if !light {
		e.keyLines(g)
		e.viewDepLines(kg, ks)
	}
	e.bridgeTokenLines(kg, ks["bt"])

	// disagree: M from everyone except the deviators, who vote D
	disagree := func(k *kind, what string, m, d claim, deviators []int, order []int) {
		claims := make([]claim, n)
		for i := range claims {
			claims[i] = m
		}
		for _, i := range deviators {
			claims[i] = d
		}
		e.replay(k, what, claims, order, nil)
	}
	// shifted: `early` oracles vote M (below the threshold), then power shifts so that their recorded votes alone would
	// reach it — delegation added to them, the oracles that have not voted slashed — and only then a low-power oracle
	// votes the conflicting D; the oracles that were slashed do not vote any more, the others vote M afterwards
	shifted := func(k *kind, what string, m, d claim) {
		order := orders(g, n)
		early := 1 + g.rng.Intn(n-2)
		claims := make([]claim, n)
		var sh []shift
		for pos, i := range order {
			switch {
			case pos < early:
				claims[i] = m
				if room := 100 - e.powers[i]; room > 0 {
					sh = append(sh, shift{"add", i, room})
				}
			case pos == early:
				claims[i] = d
			default:
				claims[i] = m
				if g.rng.Intn(3) != 0 {
					sh = append(sh, shift{"slash", i, 0})
					claims[i] = nil
				}
			}
		}
		r.out.Count("keeper:scenario:power-shift")
		e.replay(k, what+", after a power shift", claims, order, map[int][]shift{early: sh})
	}
	// inflightSc: some oracles voted M before the claim-hash formats changed (the attestation sits under M's LEGACY hash);
	// after the upgrade the others vote D (one of them perhaps M); the early voters cannot vote again
	inflightSc := func(k *kind, what string, m, d claim) {
		order := orders(g, n)
		early := 1 + g.rng.Intn(n-2)
		claims := make([]claim, n)
		for pos, i := range order {
			switch {
			case pos < early:
				claims[i] = nil
				if g.rng.Intn(4) == 0 {
					claims[i] = d // tries to vote again: rejected, its nonce is no longer contiguous
				}
			default:
				claims[i] = d
				if pos > early && g.rng.Intn(4) == 0 {
					claims[i] = m
				}
			}
		}
		r.out.Count("keeper:scenario:inflight-at-upgrade")
		e.inflight = &inflight{claim: m, voters: append([]int{}, order[:early]...)}
		g.rng.Shuffle(len(order), func(i, j int) { order[i], order[j] = order[j], order[i] })
		e.replay(k, what+", with an attestation open since before the claim-hash change", claims, order, nil)
		e.inflight = nil
	}
	allPositions := func(k *kind, what string, m, d claim) {
		shifted(k, what, m, d)
		inflightSc(k, what, m, d)
		if light {
			// one deviator at a random position, and the deviating claim as the majority's
			order := orders(g, n)
			disagree(k, what, m, d, []int{order[g.rng.Intn(n)]}, order)
			order = orders(g, n)
			disagree(k, what, d, m, []int{order[n-2]}, order)
			return
		}
		shifted(k, what, d, m)
		inflightSc(k, what, d, m)
		// the single deviator at every position of the vote order, both ways round; then two deviators
		for pos := 0; pos < n; pos++ {
			order := orders(g, n)
			disagree(k, what, m, d, []int{order[pos]}, order)
		}
		order := orders(g, n)
		disagree(k, what, d, m, []int{order[n-2]}, order)
		disagree(k, what, m, d, []int{order[0], order[n-1]}, orders(g, n))
	}

	// 1. every collision the pure search found (none on a tree where the property holds); when the claims name oracle-set
	// members, also with the member addresses consistently renamed to registered ones (claimLogicCheck), provided the
	// renamed pair still collides on the real ClaimHash
	for _, col := range r.found {
		r.out.Count("keeper:replayed-collision")
		allPositions(col.k, col.what, col.a, col.b)
		if a2, b2, ok := e.renameMembers(col.k, col.a, col.b, true); ok {
			r.out.Count("keeper:replayed-collision:renamed")
			allPositions(col.k, col.what+", members renamed to registered oracles", a2, b2)
		}
	}

	// 2. the recorded witnesses of the pinned commit
	ethA, ethB := helpers.GenExternalAddr(keeperChain), helpers.GenExternalAddr(keeperChain)
	tok := helpers.GenExternalAddr(keeperChain)
	bech := sdk.AccAddress(e.oracles[0]).String()
	next := e.k.GetLastObservedEventNonce(e.s.Ctx) + 1
	call := func(memo, origin string) claim {
		return &ct.MsgBridgeCallClaim{ChainName: keeperChain, BridgerAddress: bech, EventNonce: next, BlockHeight: 1000, Sender: ethA, Refund: ethA, To: ethA,
			TokenContracts: []string{}, Amounts: []sdkmath.Int{}, Data: "", Value: sdkmath.ZeroInt(), Memo: memo, TxOrigin: origin}
	}
	token := func(name, symbol string) claim {
		return &ct.MsgBridgeTokenClaim{EventNonce: next, BlockHeight: 1000, TokenContract: tok, Name: name, Symbol: symbol, Decimals: 18, BridgerAddress: bech, ChainName: keeperChain}
	}
	result := func(origin string) claim {
		return &ct.MsgBridgeCallResultClaim{ChainName: keeperChain, BridgerAddress: bech, EventNonce: next, BlockHeight: 1000, Nonce: e.outNonce, TxOrigin: origin, Success: true}
	}
	send := func(amount int64, target string) claim {
		return &ct.MsgSendToFxClaim{EventNonce: next, BlockHeight: 1000, TokenContract: e.token, Amount: sdkmath.NewInt(amount), Sender: ethA,
			Receiver: bech, TargetIbc: hex.EncodeToString([]byte(target)), BridgerAddress: bech, ChainName: keeperChain}
	}
	sendCallTo := hex.EncodeToString(ct.MemoSendCallTo.Bytes())
	fixed := []struct {
		what string
		k    *kind
		m, d claim
	}{
		{"the split of Name/Symbol", ks["bt"], token("A", "FX/FX"), token("A/FX", "FX")},
		{"Memo", ks["bc"], call("", ethA), call(sendCallTo, ethA)},
		{"TxOrigin", ks["bc"], call("", ethA), call("", ethB)},
		{"TxOrigin", ks["bcr"], result(ethA), result(ethB)},
		{"Amount", ks["stf"], send(5, ""), send(6, "")},
		{"TargetIbc", ks["stf"], send(5, "px/transfer/channel-0"), send(5, "erc20")},
	}
	for _, sc := range fixed {
		allPositions(sc.k, sc.what, sc.m, sc.d)
	}
	// 2b. the corpus pairs that are valid (oracle-set members renamed to registered oracles)
	for _, p := range r.corpus {
		if !full {
			break
		}
		a, b := p.a, p.b
		if a2, b2, ok := e.renameMembers(p.k, a, b, false); ok {
			a, b = a2, b2
		}
		if verdict(a) != "ok" || verdict(b) != "ok" || a.GetEventNonce() != b.GetEventNonce() {
			continue
		}
		r.out.Count("keeper:corpus:" + p.k.tag)
		allPositions(p.k, p.what, a, b)
	}

	// 3. generated disagreements: single-field variants and perturbation variants of keeper-acceptable claims
	nGen := hx.N(24, 200)
	if !full {
		nGen = hx.N(6, 60)
	}
	if light {
		nGen = hx.N(3, 30)
	}
	for _, tag := range []string{"stf", "bc", "bcr", "ste", "bt", "osu"} {
		k := ks[tag]
		for i := 0; i < nGen; i++ {
			base := k.base(kg, keeperChain)
			if g.rng.Intn(3) != 0 {
				e.acceptable(g, base)
				r.out.Count("keeper:generated:acceptable-to-handler")
			}
			if verdict(base) != "ok" {
				continue
			}
			if m, ok := base.(*ct.MsgOracleSetUpdatedClaim); ok && g.rng.Intn(3) != 0 {
				m.OracleSetNonce = 0 // the members of oracle set 0 are taken from the claim as they are
			}
			// a deviating claim: one field changed, or one perturbation of one part
			var d claim
			what := ""
			if g.rng.Intn(2) == 0 {
				f := hx.Pick(g.rng, k.fields)
				if !f.effect {
					continue
				}
				d = k.clone(base)
				f.mutate(kg, d, keeperChain)
				what = f.name
			} else {
				d, what = pickPerturbed(kg, k, base)
			}
			if d == nil || verdict(d) != "ok" || k.effect(d) == k.effect(base) || d.GetEventNonce() != base.GetEventNonce() {
				r.out.Count("keeper:generated:skipped")
				continue
			}
			r.out.Count("keeper:generated:" + tag)
			order := orders(g, n)
			dev := []int{order[g.rng.Intn(n)]}
			if g.rng.Intn(4) == 0 {
				dev = append(dev, order[g.rng.Intn(n)])
			}
			if g.rng.Intn(5) == 0 {
				// an oracle tries to vote a second time (rejected: its nonce is no longer contiguous)
				order = append(order[:2:2], append([]int{order[0]}, order[2:]...)...)
			}
			switch g.rng.Intn(5) {
			case 4:
				inflightSc(k, what, base, d)
			case 0:
				shifted(k, what, base, d)
			case 1:
				// a random power change at a random point of the vote
				claims := make([]claim, n)
				for i := range claims {
					claims[i] = base
				}
				for _, i := range dev {
					claims[i] = d
				}
				o := g.rng.Intn(n)
				sh := shift{"add", o, 1 + int64(g.rng.Intn(int(100-e.powers[o])+1))}
				r.out.Count("keeper:scenario:random-shift")
				e.replay(k, what+", with a power change between votes", claims, order, map[int][]shift{1 + g.rng.Intn(n-1): {sh}})
			default:
				disagree(k, what, base, d, dev, order)
			}
		}
	}
}

// pickPerturbed: a random valid perturbation variant of base with a different effect (nil if the draw is not valid)
func pickPerturbed(g *gen, k *kind, base claim) (claim, string) {
	v := k.clone(base)
	switch g.rng.Intn(4) {
	case 3:
		if lv := listVariants(k, base); len(lv) > 0 {
			p := hx.Pick(g.rng, lv)
			return p.val, p.how
		}
		return nil, ""
	case 0:
		refs := strRefs(v)
		if len(refs) == 0 {
			return nil, ""
		}
		ref := hx.Pick(g.rng, refs)
		ps := strPerturb(g, ref.get(v))
		g.rng.Shuffle(len(ps), func(i, j int) { ps[i], ps[j] = ps[j], ps[i] })
		for _, p := range ps {
			w := k.clone(base)
			ref.set(w, p.val)
			if verdict(w) == "ok" && k.effect(w) != k.effect(base) {
				return w, baseName(ref.name) + " (" + p.how + ")"
			}
		}
	case 1:
		refs := intRefs(v)
		if len(refs) == 0 {
			return nil, ""
		}
		ref := hx.Pick(g.rng, refs)
		ps := intPerturb(g, ref.get(v))
		p := hx.Pick(g.rng, ps)
		ref.set(v, p.val)
		return v, baseName(ref.name) + " (" + p.how + ")"
	default:
		refs := u64Refs(v)
		var ok []u64Ref
		for _, r := range refs {
			if r.name != "EventNonce" {
				ok = append(ok, r)
			}
		}
		if len(ok) == 0 {
			return nil, ""
		}
		ref := hx.Pick(g.rng, ok)
		ps := u64Perturb(ref.get(v))
		p := hx.Pick(g.rng, ps)
		ref.set(v, p.val)
		return v, baseName(ref.name) + " (" + p.how + ")"
	}
	return nil, ""
}
