package c03

// The entry point: `MsgClaim` inside SIGNED TRANSACTIONS through the real baseapp runTx in finalize mode (decoding with signer
// extraction, stateless validation, the fx-core ante handler with signature verification, then the message server).
//
// The theorems of Props/C03.lean assume that every submitted claim passed its own `ValidateBasic` (`wellFormed`: the claim's
// OWN ChainName is a registered chain and the fields have that chain's classes).  This file checks that assumption where it
// is discharged in the real system: a claim that fails its own ValidateBasic — malformed field, a chain name of another
// address class, an unknown chain — must never end up in an attestation when it arrives in a transaction, while a claim
// naming ANOTHER chain of the same class inside (which nothing compares with the MsgClaim's chain) is tallied.

import (
	"fmt"
	"strings"
	"testing"

	sdkmath "cosmossdk.io/math"
	"github.com/cosmos/cosmos-sdk/client"
	clienttx "github.com/cosmos/cosmos-sdk/client/tx"
	codectypes "github.com/cosmos/cosmos-sdk/codec/types"
	sdk "github.com/cosmos/cosmos-sdk/types"
	"github.com/cosmos/cosmos-sdk/types/tx/signing"
	authsigning "github.com/cosmos/cosmos-sdk/x/auth/signing"

	"github.com/functionx/fx-core/v8/testutil/helpers"
	fxtypes "github.com/functionx/fx-core/v8/types"
	crosschainkeeper "github.com/functionx/fx-core/v8/x/crosschain/keeper"
	ct "github.com/functionx/fx-core/v8/x/crosschain/types"

	"fxverif/harness/hx"
)

func signedTx(s *hx.Suite, txc client.TxConfig, by *helpers.Signer, msgs ...sdk.Msg) (sdk.Tx, error) {
	ctx := s.Ctx
	txb := txc.NewTxBuilder()
	if err := txb.SetMsgs(msgs...); err != nil {
		return nil, err
	}
	txb.SetGasLimit(5_000_000)
	txb.SetFeeAmount(sdk.NewCoins(sdk.NewCoin(fxtypes.DefaultDenom, sdkmath.NewInt(4e12).MulRaw(5_000_000))))
	acc := s.App.AccountKeeper.GetAccount(ctx, by.AccAddress())
	var num, seq uint64
	if acc != nil {
		num, seq = acc.GetAccountNumber(), acc.GetSequence()
	}
	mode := signing.SignMode_SIGN_MODE_DIRECT
	sig := signing.SignatureV2{PubKey: by.PrivKey().PubKey(), Data: &signing.SingleSignatureData{SignMode: mode}, Sequence: seq}
	if err := txb.SetSignatures(sig); err != nil {
		return nil, err
	}
	sd := authsigning.SignerData{Address: by.AccAddress().String(), ChainID: ctx.ChainID(), AccountNumber: num, Sequence: seq, PubKey: by.PrivKey().PubKey()}
	sig, err := clienttx.SignWithPrivKey(ctx, mode, sd, txb, by.PrivKey(), txc, seq)
	if err != nil {
		return nil, err
	}
	if err := txb.SetSignatures(sig); err != nil {
		return nil, err
	}
	return txb.GetTx(), nil
}

func txEntry(t *testing.T, r *run, g *gen, ks map[string]*kind) {
	out := r.out
	out.Reset("tx-entry")
	const chain = "eth"
	n := 4
	s := hx.NewSuite(t, n)
	k := s.App.EthKeeper
	srv := crosschainkeeper.NewMsgServerImpl(k)
	txc := s.App.GetTxConfig()
	amt := sdkmath.NewInt(300 * 1e3).MulRaw(1e18)
	oracles := s.AddTestAddress(n, ct.NewDelegateAmount(amt))
	signers := make([]*helpers.Signer, n)
	po := &ct.ProposalOracle{}
	for i := range signers {
		signers[i] = s.AddTestSigner(100_000)
		po.Oracles = append(po.Oracles, oracles[i].String())
	}
	k.SetProposalOracle(s.Ctx, po)
	var exts []string
	for i := 0; i < n; i++ {
		ext := helpers.GenExternalAddr(chain)
		exts = append(exts, ext)
		if _, err := srv.BondedOracle(s.Ctx, &ct.MsgBondedOracle{OracleAddress: oracles[i].String(), BridgerAddress: signers[i].AccAddress().String(),
			ExternalAddress: ext, ValidatorAddress: s.ValAddr[i].String(),
			DelegateAmount: ct.NewDelegateAmount(sdkmath.NewInt(10 * 1e3).MulRaw(1e18)), ChainName: chain}); err != nil {
			t.Fatalf("bond oracle %d: %v", i, err)
		}
	}
	kg := &gen{rng: g.rng, pool: exts}
	tags := []string{"stf", "bc", "bcr", "ste", "bt", "osu"}
	nCases := hx.N(48, 400)
	observable := false
	for i := 0; i < nCases; i++ {
		kd := ks[tags[i%len(tags)]]
		o := g.rng.Intn(n)
		c := kd.base(kg, chain)
		elem(c).FieldByName("EventNonce").SetUint(k.GetLastEventNonceByOracle(s.Ctx, oracles[o]) + 1)
		setBridger(c, signers[o].AccAddress().String())
		class := "valid"
		switch g.rng.Intn(6) {
		case 0:
			// another chain of the same address class named INSIDE the claim
			setChain(c, hx.Pick(g.rng, ethChains[1:]))
			class = "inner-chain-same-class"
		case 1:
			setChain(c, "tron")
			class = "inner-chain-other-class"
		case 2:
			setChain(c, hx.Pick(g.rng, []string{"", "Eth", "ethereum", "eth ", "fxcore"}))
			class = "inner-chain-unknown"
		case 3:
			// one field malformed
			refs := strRefs(c)
			var cand []strRef
			for _, rf := range refs {
				if b := baseName(rf.name); b != "ChainName" && b != "BridgerAddress" && b != "Name" && b != "Symbol" {
					cand = append(cand, rf)
				}
			}
			if len(cand) > 0 {
				rf := hx.Pick(g.rng, cand)
				rf.set(c, hx.Pick(g.rng, []string{"0x12", "zz", rf.get(c) + "/", " " + rf.get(c), "0X" + strings.TrimPrefix(rf.get(c), "0x")}))
			}
			class = "field-malformed"
		}
		v := verdict(c)
		anyClaim, err := codectypes.NewAnyWithValue(c)
		if err != nil {
			continue
		}
		msg := &ct.MsgClaim{ChainName: chain, BridgerAddress: signers[o].AccAddress().String(), Claim: anyClaim}
		res := "ok"
		tx, berr := signedTx(s, txc, signers[o], msg)
		if berr != nil {
			res = "build: " + berr.Error()
		} else {
			var derr error
			if p := hx.Try(func() error { _, _, derr = s.App.SimDeliver(txc.TxEncoder(), tx); return nil }); p != "ok" {
				res = p
			} else if derr != nil {
				res = "err: " + derr.Error()
			}
		}
		route := "tx"
		if strings.Contains(res, "expected claim type") {
			// In this snapshot MsgClaim has no UnpackInterfaces: the inner claim is lost when the transaction is decoded and
			// every MsgClaim transaction is rejected by MsgClaim.ValidateBasic (recorded by the C17 harness as well).  What
			// baseapp would do with a decoded message is then done in process: validateBasicTxMsgs (the message's
			// ValidateBasic), then the handler the MsgServiceRouter routes the message to.
			route = "in-process"
			cctx, commit := s.Ctx.CacheContext()
			res = hx.Try(func() error {
				if err := msg.ValidateBasic(); err != nil {
					return err
				}
				h := s.App.MsgServiceRouter().Handler(msg)
				if h == nil {
					return fmt.Errorf("no route")
				}
				_, err := h(cctx, msg)
				return err
			})
			if res == "ok" {
				commit()
			}
		}
		out.Count("tx-entry:route:" + route)
		tallied := false
		// (ClaimHash of a malformed claim may panic: such a claim cannot have been filed)
		_ = hx.Try(func() error {
			if att := k.GetAttestation(s.Ctx, c.GetEventNonce(), c.ClaimHash()); att != nil {
				for _, vt := range att.Votes {
					if vt == oracles[o].String() {
						tallied = true
					}
				}
			}
			return nil
		})
		if tallied {
			observable = true
		}
		kindR := "rejected"
		if tallied {
			kindR = "tallied"
		}
		out.Count("tx-entry:" + class + ":" + v + ":" + kindR)
		if rs := res; v == "ok" {
			if len(rs) > 90 {
				rs = rs[:90]
			}
			out.Count("tx-entry:result-of-valid:" + rs)
		}
		out.Nontrivial("tx-entry:" + kd.tag + ":" + class)
		// the claim itself through the model (hash and verdict), as for every generated claim
		r.emit(kd, c)
		if tallied && v != "ok" {
			r.violate(fmt.Sprintf("real keeper: a %s that fails its own ValidateBasic (%s) was tallied when submitted in a transaction", kd.name, class),
				[]string{kd.line(c) + " " + ckBit(kd, c), fmt.Sprintf("# MsgClaim{ChainName: %s} signed by bridger %d: %+v", chain, o, c), "# ValidateBasic of the claim: " + v, "# transaction: " + res})
		}
		if !tallied && v == "ok" && res == "ok" {
			r.violate(fmt.Sprintf("real keeper: transaction with a valid %s succeeded but the vote is in no attestation under the claim's hash (%s)", kd.name, class),
				[]string{kd.line(c) + " " + ckBit(kd, c), fmt.Sprintf("# %+v", c)})
		}
	}
	if !observable {
		// the finalize-mode state is not visible through the suite's context: nothing was checked
		out.Count("tx-entry:unobservable")
	}
}
