package c15

// Round 4: genesis export / import round trip of the gov module on the real app, at the end of every sequence.

import (
	"encoding/json"
	"fmt"
	"regexp"

	sdkmath "cosmossdk.io/math"

	abci "github.com/cometbft/cometbft/abci/types"
	"github.com/cosmos/cosmos-sdk/codec"
	sdk "github.com/cosmos/cosmos-sdk/types"
	govtypes "github.com/cosmos/cosmos-sdk/x/gov/types"

	"fxverif/harness/hx"
)

type genesisModule interface {
	InitGenesis(sdk.Context, codec.JSONCodec, json.RawMessage) []abci.ValidatorUpdate
	ExportGenesis(sdk.Context, codec.JSONCodec) json.RawMessage
}

var custPart = regexp.MustCompile(` cust=\[[^\]]*\]`)

// genesisRoundTrip: ExportGenesis of the gov module in a cache context, the whole gov store wiped there, InitGenesis of the
// exported state.  The SDK's InitGenesis itself insists that the module account holds exactly the sum of the exported
// deposits (it panics otherwise) and rebuilds both queues from the proposals' statuses and times; afterwards the observation
// line — next proposal id, module balance, every proposal with status / total / times / kind / final tally result, the
// deposit records, both queues, the depositors' balances, the store cells, the votes — must be the one before.  The fx
// custom parameters are not part of the exported genesis (x/gov/module.go exports the SDK genesis state only; InitGenesis
// installs the default table): their loss is COUNTED in stats, it is outside C15's quantifier (no export/import there).
func (h *H) genesisRoundTrip() {
	if h.halted {
		return
	}
	app := h.s.App
	gm, ok := app.GetModules()[govtypes.ModuleName].(genesisModule)
	if !ok {
		h.out.Count("genesis-roundtrip:module-has-no-genesis")
		return
	}
	before := h.observe()
	old := h.s.Ctx
	cctx, _ := old.CacheContext()
	var data json.RawMessage
	res := hx.Try(func() error { data = gm.ExportGenesis(cctx, app.AppCodec()); return nil })
	if res != "ok" {
		h.out.Violate("gov genesis of a reachable state cannot be exported: " + res)
		return
	}
	store := cctx.KVStore(app.GetKey(govtypes.StoreKey))
	var keys [][]byte
	it := store.Iterator(nil, nil)
	for ; it.Valid(); it.Next() {
		if k := it.Key(); len(k) >= 2 && k[0] == 0xFE && k[1] == 0xC1 {
			continue // the harness's own raw cells (targets of MsgUpdateStore), not gov state
		}
		keys = append(keys, append([]byte{}, it.Key()...))
	}
	it.Close()
	for _, k := range keys {
		store.Delete(k)
	}
	res = hx.Try(func() error { gm.InitGenesis(cctx, app.AppCodec(), data); return nil })
	if res != "ok" {
		h.out.Violate("gov genesis exported from a reachable state is refused by InitGenesis (module balance against the sum of the exported deposits, queues, votes): " + res)
		return
	}
	h.s.Ctx = cctx
	after := h.observe()
	h.s.Ctx = old
	h.out.Count("genesis-roundtrip:done")
	b, a := custPart.ReplaceAllString(before.line, ""), custPart.ReplaceAllString(after.line, "")
	if a != b {
		h.out.Violate("gov state differs after a genesis export/import round trip: before " + b + " after " + a)
	}
	if custPart.FindString(before.line) != custPart.FindString(after.line) {
		h.out.Count("genesis-roundtrip:custom-params-reset-to-defaults")
	} else {
		h.out.Count("genesis-roundtrip:custom-params-same")
	}
	// the property's conservation clause on the imported state
	sum := sdkmath.ZeroInt()
	for k, v := range after.deps {
		if p, ok := after.props[k[0]]; ok && open(p.status) {
			sum = sum.Add(v)
		}
	}
	if !sum.Equal(after.govAll.AmountOf(denom)) {
		h.out.Violate(fmt.Sprintf("after a genesis import the gov module balance %s differs from the sum of deposits of open proposals %s", after.govAll.AmountOf(denom), sum))
	}
}
