package c15

// C15 harness, round 3: gov messages as SIGNED TRANSACTIONS delivered by the block's FinalizeBlock (real ante chain, real
// baseapp message routing, authz.MsgExec dispatch), deposits that contain a non-deposit denomination, and directed
// scenarios for cancellation at its boundaries and for parameter changes while proposals are open.
//
// op lines: `tx <op…>` — the op (submit / deposit / vote / cancel) is carried by a transaction of the block that the next
// `endblock` line finalizes; model and implementation answer the result kind only (the state is observed after the block);
// `depositx id a fx other` — a MsgDeposit whose coins contain `other` of a non-deposit denomination.

import (
	"fmt"
	"math/big"
	"strings"
	"time"

	errorsmod "cosmossdk.io/errors"
	abci "github.com/cometbft/cometbft/abci/types"
	clienttx "github.com/cosmos/cosmos-sdk/client/tx"
	sdk "github.com/cosmos/cosmos-sdk/types"
	sdkerrors "github.com/cosmos/cosmos-sdk/types/errors"
	"github.com/cosmos/cosmos-sdk/types/tx/signing"
	authsigning "github.com/cosmos/cosmos-sdk/x/auth/signing"
	"github.com/cosmos/cosmos-sdk/x/authz"
	govtypes "github.com/cosmos/cosmos-sdk/x/gov/types"
	v1 "github.com/cosmos/cosmos-sdk/x/gov/types/v1"
	erc20types "github.com/functionx/fx-core/v8/x/erc20/types"

	"fxverif/harness/hx"
)

// txDep: coins a transaction of the current block paid into gov for a proposal
type txDep struct {
	pid uint64
	who int
	amt int64
}

// txItem: one transaction of a block
type txItem struct {
	words   string    // the model op it carries
	signer  int       // tracked account that signs (and pays the zero fee)
	msgs    []sdk.Msg // the transaction's messages (possibly one authz.MsgExec)
	payer   int       // account whose coins go to gov when it succeeds
	pays    int64
	submit  []pmsg // a submission: its proposal messages (shadow data of the monitors)
	isSub   bool
	cancels uint64 // a cancellation: the proposal
	depPid  uint64 // a deposit: the proposal
	votePid uint64 // a vote: the proposal
	class   string
}

// buildTx signs `msgs` with the key of tracked account `signer` (SIGN_MODE_DIRECT, zero fee — the minimum gas price is a
// CheckTx rule), sequence = account sequence + the number of this signer's earlier transactions in the block
func (h *H) buildTx(signer int, ahead uint64, msgs ...sdk.Msg) ([]byte, error) {
	txc := h.s.App.GetTxConfig()
	ctx := h.ctx()
	txb := txc.NewTxBuilder()
	if err := txb.SetMsgs(msgs...); err != nil {
		return nil, err
	}
	txb.SetGasLimit(3_000_000)
	acc := h.s.App.AccountKeeper.GetAccount(ctx, h.accs[signer])
	if acc == nil {
		return nil, fmt.Errorf("no account")
	}
	seq := acc.GetSequence() + ahead
	pk := h.keys[signer].PubKey()
	mode := signing.SignMode_SIGN_MODE_DIRECT
	sig := signing.SignatureV2{PubKey: pk, Data: &signing.SingleSignatureData{SignMode: mode}, Sequence: seq}
	if err := txb.SetSignatures(sig); err != nil {
		return nil, err
	}
	sd := authsigning.SignerData{Address: h.accs[signer].String(), ChainID: ctx.ChainID(), AccountNumber: acc.GetAccountNumber(), Sequence: seq, PubKey: pk}
	sig, err := clienttx.SignWithPrivKey(ctx, mode, sd, txb, h.keys[signer], txc, seq)
	if err != nil {
		return nil, err
	}
	if err := txb.SetSignatures(sig); err != nil {
		return nil, err
	}
	return txc.TxEncoder()(txb.GetTx())
}

var txErrs = []*errorsmod.Error{
	govtypes.ErrInvalidProposalType, govtypes.ErrMinDepositTooSmall, govtypes.ErrInvalidSigner, govtypes.ErrInvalidProposalMsg,
	govtypes.ErrUnroutableProposalMsg, govtypes.ErrInactiveProposal, govtypes.ErrInvalidProposer, govtypes.ErrVotingPeriodEnded,
	govtypes.ErrInvalidProposal, govtypes.ErrInvalidVote, govtypes.ErrInvalidDepositDenom, sdkerrors.ErrInsufficientFunds,
	sdkerrors.ErrInvalidCoins,
}

// txKind: result kind of a delivered transaction, from its ABCI code (the error itself does not leave baseapp)
func txKind(r *abci.ExecTxResult) string {
	if r.Code == 0 {
		return "ok"
	}
	for _, e := range txErrs {
		if e.Codespace() == r.Codespace && e.ABCICode() == r.Code {
			return kind(e)
		}
	}
	if r.Codespace == "undefined" && strings.Contains(r.Log, "collections: not found") {
		return "err:notfound"
	}
	return fmt.Sprintf("err:other:%s/%d:%s", r.Codespace, r.Code, strings.ReplaceAll(r.Log, " ", "_"))
}

func big0() *big.Int { return big.NewInt(0) }

// wrap: the message inside an authz.MsgExec executed by `grantee`; a grant is stored first when grantee differs from the
// message's signer
func (h *H) wrap(grantee, granter int, msg sdk.Msg) sdk.Msg {
	if grantee != granter {
		exp := h.ctx().BlockTime().Add(1000 * time.Hour)
		if err := h.s.App.AuthzKeeper.SaveGrant(h.ctx(), h.accs[grantee], h.accs[granter], authz.NewGenericAuthorization(sdk.MsgTypeURL(msg)), &exp); err != nil {
			h.t.Fatalf("SaveGrant: %v", err)
		}
	}
	m := authz.NewMsgExec(h.accs[grantee], []sdk.Msg{msg})
	return &m
}

// how: 0 = the message is the transaction's message, signed by its own signer; 1 = inside an authz.MsgExec signed by the
// same account; 2 = inside an authz.MsgExec signed by another tracked account holding a grant
func (h *H) route(how, who int, msg sdk.Msg) (int, sdk.Msg, string) {
	switch how {
	case 1:
		return who, h.wrap(who, who, msg), "authz-self"
	case 2:
		g := (who + 1) % len(h.accs)
		return g, h.wrap(g, who, msg), "authz-grantee"
	}
	return who, msg, "direct"
}

func (h *H) txSubmit(how, who int, expedited bool, initial int64, msgs []pmsg) txItem {
	var real []sdk.Msg
	var words []string
	for _, m := range msgs {
		real = append(real, m.real)
		words = append(words, m.word())
	}
	msg, err := v1.NewMsgSubmitProposal(real, coins(initial), h.accs[who].String(), "m", "t", "s", expedited)
	if err != nil {
		h.t.Fatalf("NewMsgSubmitProposal: %v", err)
	}
	signer, m, cls := h.route(how, who, msg)
	return txItem{words: strings.TrimSpace(fmt.Sprintf("submit %d %s %d %s", who, b01(expedited), initial, strings.Join(words, " "))),
		signer: signer, msgs: []sdk.Msg{m}, payer: who, pays: initial, submit: msgs, isSub: true, class: "submit/" + cls}
}

func (h *H) txDeposit(how int, pid uint64, who int, n int64) txItem {
	signer, m, cls := h.route(how, who, &v1.MsgDeposit{ProposalId: pid, Depositor: h.accs[who].String(), Amount: coins(n)})
	return txItem{words: fmt.Sprintf("deposit %d %d %d", pid, who, n), signer: signer, msgs: []sdk.Msg{m}, payer: who, pays: n, depPid: pid, class: "deposit/" + cls}
}

func (h *H) txVote(how int, pid uint64, who int, opt string) txItem {
	signer, m, cls := h.route(how, who, &v1.MsgVote{ProposalId: pid, Voter: h.accs[who].String(), Option: optName[opt]})
	return txItem{words: fmt.Sprintf("vote %d %d %s:%s", pid, who, opt, dec18), signer: signer, msgs: []sdk.Msg{m}, payer: -1, votePid: pid, class: "vote/" + cls}
}

func (h *H) txCancel(how int, pid uint64, who int) txItem {
	signer, m, cls := h.route(how, who, &v1.MsgCancelProposal{ProposalId: pid, Proposer: h.accs[who].String()})
	return txItem{words: fmt.Sprintf("cancel %d %d", pid, who), signer: signer, msgs: []sdk.Msg{m}, payer: -1, cancels: pid, class: "cancel/" + cls}
}

// opTxBlock: a block whose FinalizeBlock delivers the transactions (in order) and then runs the end-blocker
func (h *H) opTxBlock(dt int64, items []txItem) {
	before := h.observe()
	specs := h.dueTallies()
	stk := strings.Join(h.stakingWords(), " ")
	ahead := map[int]uint64{}
	var raws [][]byte
	var kept []txItem
	for _, it := range items {
		raw, err := h.buildTx(it.signer, ahead[it.signer], it.msgs...)
		if err != nil {
			h.out.Count("tx:not-built")
			continue
		}
		ahead[it.signer]++
		raws = append(raws, raw)
		kept = append(kept, it)
	}
	nextID, _ := h.s.App.GovKeeper.ProposalID.Peek(h.ctx())
	var err error
	res := hx.Try(func() error {
		err = h.commitAtTxs(h.ctx().BlockTime().Add(time.Duration(dt)*time.Second), raws)
		return nil
	})
	op := strings.TrimSpace(fmt.Sprintf("endblock %d %s", dt, stk))
	if res != "ok" || err != nil || len(h.lastTxRes) != len(kept) {
		h.halted = true
		why := res
		if err != nil {
			why = err.Error()
		}
		h.out.Emit(op, "halt:"+strings.ReplaceAll(why, " ", "_"))
		h.out.Violate("block processing halted in a reachable gov state (a block with gov transactions; end-blocker returned an error or panicked): " + why)
		return
	}
	h.txPaid, h.txCancelled, h.txDeps = map[int]int64{}, map[uint64]bool{}, nil
	voted := map[uint64]bool{}
	for i, it := range kept {
		k := txKind(h.lastTxRes[i])
		h.out.Emit("tx "+it.words, k)
		h.out.Count("tx:" + it.class + ":" + strings.SplitN(k, ":other", 2)[0])
		if strings.HasPrefix(k, "err:other") {
			h.out.Count("tx-unclassified:" + k)
		}
		if k != "ok" {
			continue
		}
		if it.payer >= 0 {
			h.txPaid[it.payer] += it.pays
		}
		if it.isSub {
			h.props[nextID] = it.submit
			h.txDeps = append(h.txDeps, txDep{nextID, it.payer, it.pays})
			nextID++
		}
		if it.depPid != 0 {
			h.txDeps = append(h.txDeps, txDep{it.depPid, it.payer, it.pays})
		}
		if it.cancels != 0 {
			h.txCancelled[it.cancels] = true
		}
		if it.votePid != 0 {
			voted[it.votePid] = true
		}
	}
	// a vote delivered in the block that tallies its proposal changes that tally: the monitor's dry run is stale for it
	var live []tallySpec
	for _, ts := range specs {
		if !voted[ts.pid] && !h.txCancelled[ts.pid] {
			live = append(live, ts)
		}
	}
	h.emit(op, before, nil, -1, 0, live)
	h.txPaid, h.txCancelled, h.txDeps = nil, nil, nil
}

// opDepositX: a MsgDeposit carrying a non-deposit denomination besides (or instead of) the deposit denomination
func (h *H) opDepositX(pid uint64, who int, fx, other int64) {
	before := h.observe()
	c := sdk.NewCoins()
	if fx > 0 {
		c = c.Add(sdk.NewInt64Coin(denom, fx))
	}
	if other > 0 {
		c = c.Add(sdk.NewInt64Coin(otherDenom, other))
	}
	err := h.deliver(&v1.MsgDeposit{ProposalId: pid, Depositor: h.accs[who].String(), Amount: c})
	h.emit(fmt.Sprintf("depositx %d %d %d %d", pid, who, fx, other), before, err, who, fx, nil)
}

// scenario Tx: submissions, deposits, votes and a cancellation as signed transactions — direct, inside an authz.MsgExec of
// the same account, inside an authz.MsgExec of a grantee — including mixed-type submissions on every route (the one-type
// rule must hold wherever the MsgSubmitProposal sits in the transaction) and a deposit that reaches the minimum exactly
func (h *H) scenarioTx() {
	h.opParams(defaultParams())
	for i := range h.accs {
		h.opMint(i, 1_000_000)
		h.s.MintToken(h.accs[i], sdk.NewInt64Coin(otherDenom, 1_000))
	}
	mixed := []pmsg{h.msgCas(0, 0, 1, true), h.msgToggle(true)}
	same := []pmsg{h.msgCas(0, 0, 1, true), h.msgCas(1, 0, 2, true)}
	var items []txItem
	for how := 0; how < 3; how++ {
		items = append(items, h.txSubmit(how, how, false, 999, same), h.txSubmit(how, how, false, 1000, mixed))
	}
	h.opTxBlock(1, items)
	// proposals 1..3 exist with 999 each: one unit more through each route; then votes and a cancellation
	h.opTxBlock(1, []txItem{h.txDeposit(0, 1, 3, 1), h.txDeposit(1, 2, 3, 1), h.txDeposit(2, 3, 3, 1), h.txDeposit(0, 9, 3, 0)})
	h.opDepositX(1, 2, 5, 7)
	h.opDepositX(1, 2, 0, 7)
	h.opTxBlock(1, []txItem{h.txVote(0, 1, 0, "yes"), h.txVote(1, 2, 1, "no"), h.txVote(2, 3, 2, "yes"), h.txCancel(2, 3, 2), h.txCancel(0, 2, 0)})
	for v := range h.vals {
		h.opVote(1, 100+v, one("yes"))
	}
	// the last vote arrives in the very block whose end-blocker tallies the proposal
	h.opEndBlock(57)
	h.opTxBlock(1, []txItem{h.txVote(0, 1, 3, "veto")})
	h.opEndBlock(1)
}

// scenario Cancel: MsgCancelProposal at its boundaries — cancel ratio 0, 1 and 1/3 with deposits whose charge truncates, every
// destination of the charge (burn, community pool, an account), in the deposit period, in the voting period, in the block
// whose time IS the voting end (still allowed: the end-blocker of that block has not run yet), one block later (gone), by a
// non-proposer, twice
func (h *H) scenarioCancel(ratio [2]int64, dest int) {
	p := defaultParams()
	p.cancel = frac(ratio[0], ratio[1])
	p.cancelDest = dest
	h.opParams(p)
	for i := range h.accs {
		h.opMint(i, 1_000_000)
	}
	h.opSubmit(0, false, 7, []pmsg{h.msgCas(0, 0, 1, true)})    // 1: deposit period, odd amounts
	h.opDeposit(1, 1, 1)
	h.opDeposit(1, 2, 100)
	h.opSubmit(1, false, 1001, []pmsg{h.msgCas(1, 0, 1, true)}) // 2: voting until 60
	h.opDeposit(2, 3, 2)
	h.opSubmit(2, false, 1000, []pmsg{h.msgCas(2, 0, 1, true)}) // 3: voting until 60
	h.opSubmit(3, true, 5003, []pmsg{h.msgCas(3, 0, 1, true)})  // 4: expedited, voting until 20
	h.opVote(2, 100, one("yes"))
	h.opCancel(1, 1) // not the proposer
	h.opCancel(1, 0)
	h.opCancel(1, 0) // twice
	h.opEndBlock(20)
	h.opCancel(4, 3) // block time = voting end of 4: allowed
	h.opEndBlock(40)
	h.opCancel(2, 1) // block time = voting end of 2
	h.opEndBlock(1)  // 3 is tallied here
	h.opCancel(3, 2) // ended
	h.opEndBlock(1)
}

// scenario MidFlight: MsgUpdateParams / MsgUpdateCustomParams while proposals are open — the minimum deposit raised and
// lowered around a proposal's total (activation is tested with the parameters of the moment of the deposit, a change alone
// activates nothing), the voting period changed after activation (the stored end does not move), the custom period of the
// type and the global period changed between activation and the conversion of a failed expedited proposal (the conversion
// takes the period of ITS moment, from the START), burn flags flipped right before the tally
func (h *H) scenarioMidFlight() {
	p := defaultParams()
	h.opParams(p)
	for i := range h.accs {
		h.opMint(i, 1_000_000)
	}
	url := sdk.MsgTypeURL(h.msgCas(0, 0, 1, true).real)
	h.opSubmit(0, false, 999, []pmsg{h.msgCas(0, 0, 1, true)}) // 1
	p.minDep = 500
	h.opParams(p) // total 999 ≥ 500 now, but nothing activates by itself
	h.opSubmit(1, false, 499, []pmsg{h.msgCas(1, 0, 1, true)}) // 2
	p.minDep = 2000
	h.opParams(p)
	h.opDeposit(1, 2, 1) // 1000 < 2000
	h.opDeposit(2, 2, 1) // 500 < 2000
	p.minDep = 1000
	h.opParams(p)
	h.opDeposit(1, 2, 1) // 1001 ≥ 1000: voting, period 60
	p.vp = 30
	p.expVp = 10
	h.opParams(p) // the end of 1 stays at start + 60
	h.opSubmit(2, true, 5000, []pmsg{h.msgCas(2, 0, 1, true)}) // 3: expedited, period 10
	h.opCustom(url, false, big0(), 45, frac(1, 4))              // custom period for the type, after both activations
	for v := range h.vals {
		h.opVote(3, 100+v, one("no"))
		h.opVote(1, 100+v, one("veto"))
	}
	h.opEndBlock(10)
	p.vp = 33
	h.opParams(p)
	h.opEndBlock(1) // 3 converted here: end = start + 45 (custom of that moment)
	h.opCustom(url, true, nil, 0, nil)
	p.burnVeto = false
	h.opParams(p)
	h.opEndBlock(34)
	h.opEndBlock(15) // 3 (end 45) and 1 (end 60) tallied in later blocks
	h.opEndBlock(1)
	h.opEndBlock(1)
}

// randomTxBlock: a block with one to three gov transactions on random routes (state-aware targets, boundary amounts, a
// mixed-type or single-type submission)
// scenario SameBlock (round 4): custom parameters rewritten by a proposal executed EARLIER IN THE SAME end-blocker walk.
// The toggle type starts with (period 20, quorum 40 %).  1 (expedited MsgUpdateCustomParams: toggle type → period 25, quorum
// 90 %), 3 (expedited toggle) and 4 (regular toggle) all end at 20; 1 is first in queue order, passes and executes, so 3 and
// 4 — turnout 2/3, below the NEW quorum only — are tallied against the rewritten quorum: 3 is converted with the rewritten
// period (end = start + 25), 4 is rejected.  Later 2 (regular MsgUpdateCustomParams removing the entry) and 5 (regular toggle,
// turnout 2/3) end together at 60: 5 is tallied with the default quorum of that moment (40 %), the entry having been removed
// by 2 just before — with the parameters of the block start (90 %) it would have been rejected.
func (h *H) scenarioSameBlock() {
	h.opParams(defaultParams())
	for i := range h.accs {
		h.opMint(i, 1_000_000)
	}
	url := sdk.MsgTypeURL(&erc20types.MsgToggleTokenConversion{})
	h.opCustom(url, false, big0(), 20, frac(4, 10))
	h.opSubmit(0, true, 5000, []pmsg{h.msgSetCustom(url, false, big0(), 25, frac(9, 10))}) // 1: end 20
	h.opSubmit(1, false, 1000, []pmsg{h.msgSetCustom(url, true, nil, 0, nil)})              // 2: end 60
	h.opSubmit(2, true, 5000, []pmsg{h.msgToggle(true)})                                    // 3: end 20
	h.opSubmit(3, false, 1000, []pmsg{h.msgToggle(true)})                                   // 4: end 20
	for v := range h.vals {
		h.opVote(1, 100+v, one("yes"))
		h.opVote(2, 100+v, one("yes"))
	}
	for _, pid := range []uint64{3, 4} {
		h.opVote(pid, 100, one("yes"))
		h.opVote(pid, 101, one("yes"))
	}
	h.opEndBlock(20)
	h.opEndBlock(5) // time 20: 1 passes and sets (25 s, 90 %); then 3: quorum missed, converted, end = 25; then 4: rejected
	for v := range h.vals {
		h.opVote(3, 100+v, one("yes"))
	}
	h.opEndBlock(10)                                      // time 25: 3 tallied as a regular proposal, 3/3 ≥ 90 %
	h.opSubmit(0, false, 1000, []pmsg{h.msgToggle(true)}) // 5 at time 35: period 25 (custom of that moment), end 60
	h.opVote(5, 100, one("yes"))
	h.opVote(5, 101, one("yes"))
	h.opEndBlock(25)
	h.opEndBlock(1) // time 60: 2 removes the entry, then 5 is tallied with the default quorum (2/3 ≥ 40 %): passed
	h.opEndBlock(1)
}

// scenario GovDeposit (round 4, fix 45d0bc2): passed proposals whose message deposits FROM the gov module account.  1 carries
// MsgDeposit{depositor: gov} of 1 on proposal 3 (which is 1 short of its minimum), 2 carries MsgSubmitProposal{proposer: gov}
// with an initial deposit of 5.  Expected: both messages fail in AddDeposit, 1 and 2 end FAILED, nothing is written, 3 dies at
// its deposit end and is refunded; module balance = open deposits throughout, every end blocker returns no error.  (Without
// the guard: 3 is activated by a deposit that moved no coin, records (3, gov, 1) and (4, gov, 5) exist without funds, and the
// refund at the end of 3 fails: the end blocker returns the error.)
func (h *H) scenarioGovDeposit() {
	h.opParams(defaultParams())
	for i := range h.accs {
		h.opMint(i, 1_000_000)
	}
	h.opSubmit(0, false, 1000, []pmsg{h.msgGovDeposit(3, 1)})     // 1: voting until 60
	h.opSubmit(1, false, 1000, []pmsg{h.msgGovSubmit(5, false)}) // 2: voting until 60
	for v := range h.vals {
		h.opVote(1, 100+v, one("yes"))
		h.opVote(2, 100+v, one("yes"))
	}
	h.opEndBlock(50)
	h.opSubmit(2, false, 999, []pmsg{h.msgCas(0, 0, 1, true)}) // 3: deposit period until 90, 1 short
	h.opEndBlock(10)
	h.opEndBlock(1) // time 60: 1 and 2 pass their tallies, their messages run
	h.opDeposit(3, 3, 0)
	h.opEndBlock(30) // time 61
	h.opEndBlock(10) // time 91: 3 has died (fixed tree) …
	h.opEndBlock(20) // time 101
	h.opEndBlock(1)  // time 121: … or its voting period ends here (without the guard)
	h.opEndBlock(1)
}

func (h *H) randomTxBlock(sn snap, dt int64) {
	r := h.rng
	var items []txItem
	for n := 1 + r.Intn(3); n > 0; n-- {
		how, who := r.Intn(3), r.Intn(len(h.accs))
		switch x := r.Intn(10); {
		case x < 4:
			exp := r.Intn(4) == 0
			min := sdk.NewCoins(sn.params.MinDeposit...).AmountOf(denom).Int64()
			if exp {
				min = sdk.NewCoins(sn.params.ExpeditedMinDeposit...).AmountOf(denom).Int64()
			}
			items = append(items, h.txSubmit(how, who, exp, hx.Pick(r, []int64{0, min - 1, min, min + 1, min / 2}), h.randomMsgs()))
		case x < 7:
			if ids := h.openIDs(sn, ""); len(ids) > 0 {
				pid := hx.Pick(r, ids)
				amt := hx.Pick(r, []int64{1, 10, 500})
				if p := sn.props[pid]; p.status == "deposit" {
					if d := h.specMin(sn, pid, p.exp).Sub(p.total); d.IsInt64() && d.Int64() > 1 {
						amt = hx.Pick(r, []int64{d.Int64() - 1, d.Int64(), d.Int64() + 1})
					}
				}
				items = append(items, h.txDeposit(how, pid, who, amt))
			}
		case x < 9:
			if ids := h.openIDs(sn, "voting"); len(ids) > 0 {
				items = append(items, h.txVote(how, hx.Pick(r, ids), who, hx.Pick(r, []string{"yes", "no", "abstain", "veto"})))
			}
		default:
			if ids := h.openIDs(sn, ""); len(ids) > 0 {
				pid := hx.Pick(r, ids)
				if p, err := h.s.App.GovKeeper.Proposals.Get(h.ctx(), pid); err == nil && r.Intn(4) != 0 {
					if a, err := sdk.AccAddressFromBech32(p.Proposer); err == nil {
						who = h.idx[a.String()]
					}
				}
				items = append(items, h.txCancel(how, pid, who))
			}
		}
	}
	if len(items) == 0 {
		h.opEndBlock(dt)
		return
	}
	h.opTxBlock(dt, items)
}
