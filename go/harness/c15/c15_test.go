package c15

// C15 correspondence + monitors on the REAL app: fx gov keeper (wrapper over the SDK keeper), real bank, real staking
// for the tallies (validators vote through the real MsgVote / MsgVoteWeighted), real distribution for community-pool
// spends, real blocks (FinalizeBlock with chosen times) so the real gov EndBlocker runs.
//
// ops (one per line; the Lean driver Driver/C15.lean runs the same lines through the model):
//   mint a n | params … | custom url r p q | custom url remove | submit proposer exp initial msg… | deposit id a n |
//   cancel id a | vote id voter opt:weight,… | delegate a val n | endblock dt staking…
// voters are the tracked accounts (delegators of the validators, through the real MsgDelegate) and the validators'
// operator accounts (model addresses 100+i); `staking…` are the numbers the real Tally reads in that block (total bonded,
// bonded tokens and delegator shares of every bonded validator, every delegation of a possible voter) — the tally
// arithmetic itself (per-option sums with the LegacyDec roundings, turnout, veto, threshold) is computed by the model.
// observation after every op: result kind, gov module balance, every proposal (status, total deposit, deposit end,
// voting start/end relative to the sequence start, expedited, final tally result), deposits, both queues, tracked
// balances, four raw store cells (effects of MsgUpdateStore proposals), the custom-parameter store, the stored votes.
//
// monitors (property stated on real state, independent of the model): see `monitor`.

import (
	"encoding/json"
	"errors"
	"fmt"
	"math/big"
	"math/rand"
	"os"
	"sort"
	"strings"
	"testing"
	"time"

	"cosmossdk.io/collections"
	sdkmath "cosmossdk.io/math"
	"github.com/cosmos/gogoproto/proto"
	abci "github.com/cometbft/cometbft/abci/types"
	tenderminttypes "github.com/cometbft/cometbft/proto/tendermint/types"
	cryptocodec "github.com/cosmos/cosmos-sdk/crypto/codec"
	cryptotypes "github.com/cosmos/cosmos-sdk/crypto/types"
	sdk "github.com/cosmos/cosmos-sdk/types"
	sdkerrors "github.com/cosmos/cosmos-sdk/types/errors"
	authtypes "github.com/cosmos/cosmos-sdk/x/auth/types"
	distrtypes "github.com/cosmos/cosmos-sdk/x/distribution/types"
	govtypes "github.com/cosmos/cosmos-sdk/x/gov/types"
	v1 "github.com/cosmos/cosmos-sdk/x/gov/types/v1"
	"github.com/cosmos/cosmos-sdk/x/gov/types/v1beta1"
	slashingtypes "github.com/cosmos/cosmos-sdk/x/slashing/types"
	stakingtypes "github.com/cosmos/cosmos-sdk/x/staking/types"

	"github.com/functionx/fx-core/v8/testutil/helpers"
	fxtypes "github.com/functionx/fx-core/v8/types"
	erc20types "github.com/functionx/fx-core/v8/x/erc20/types"
	fxgovtypes "github.com/functionx/fx-core/v8/x/gov/types"

	"fxverif/harness/hx"
)

const (
	denom      = fxtypes.DefaultDenom
	otherDenom = "usdx"
	nCells     = 4
)

var dec18 = new(big.Int).Exp(big.NewInt(10), big.NewInt(18), nil)

func decOf(n *big.Int) sdkmath.LegacyDec { return sdkmath.LegacyNewDecFromBigIntWithPrec(n, 18) }
func decStr(n *big.Int) string           { return decOf(n).String() }
func scaled(s string) *big.Int {
	d, err := sdkmath.LegacyNewDecFromStr(s)
	if err != nil {
		return big.NewInt(-1)
	}
	return d.BigInt()
}
func frac(num, den int64) *big.Int {
	return new(big.Int).Div(new(big.Int).Mul(big.NewInt(num), dec18), big.NewInt(den))
}
func b01(b bool) string {
	if b {
		return "1"
	}
	return "0"
}

// ------------------------------------------------------------------------------------------------- model-side message

type pmsg struct {
	url   string
	inner string // for a MsgExecLegacyContent: the type url of the wrapped v1beta1 content
	wf    bool
	ok   bool
	act  string // "noop" | "cas,k,o,n" | "credit,fx,other,to" | "setc,url,r,p,q" | "delc,url"
	real sdk.Msg
	// spec data for the monitors
	spendFx    sdkmath.Int
	spendOther int64
	isSpend    bool
	creditTo   int
}

func (m pmsg) word() string {
	u := m.url
	if m.inner != "" {
		u += ">" + m.inner
	}
	return fmt.Sprintf("%s,%s,%s,%s", u, b01(m.wf), b01(m.ok), m.act)
}

// ------------------------------------------------------------------------------------------------- harness state

type H struct {
	t    *testing.T
	s    *hx.Suite
	out  *hx.Out
	rng  *rand.Rand
	gov  string
	t0   time.Time
	accs []sdk.AccAddress
	idx  map[string]int
	vals []sdk.AccAddress
	// model address of every possible voter: tracked accounts 0.., validator operators 100+i
	voter map[string]int
	bond  sdkmath.Int // tokens of every validator at genesis
	// shadow data used only by the monitors / generators
	props   map[uint64][]pmsg
	votes   map[uint64]map[int]bool
	halted  bool
	urls    []string
	scratch []byte
	// signed transactions (c15tx_test.go): keys of the tracked accounts, what the transactions of the current block paid
	// into gov per account, proposals cancelled by a transaction of the current block
	keys        []cryptotypes.PrivKey
	txPaid      map[int]int64
	txCancelled map[uint64]bool
	txDeps      []txDep
	lastTxRes   []*abci.ExecTxResult
	// what governance configured per message type in this sequence (nil = removed): MsgUpdateCustomParams delivered
	// directly or executed by a passed proposal; only the types touched in the sequence are tracked
	cfg map[string]*fxgovtypes.CustomParams
}

// setConfigured records what a successful MsgUpdateCustomParams configured for a message type
func (h *H) setConfigured(m *fxgovtypes.MsgUpdateCustomParams) {
	if h.cfg == nil {
		h.cfg = map[string]*fxgovtypes.CustomParams{}
	}
	if m.GetCustomParams() == (fxgovtypes.CustomParams{}) {
		h.cfg[m.MsgUrl] = nil
		return
	}
	cp := m.CustomParams
	h.cfg[m.MsgUrl] = &cp
}

// checkConfigured: the custom parameters configured for a message type ARE what the keeper's look-up for a proposal of
// that type finds (GetCustomParams is what GetCustomMsgVotingPeriod / GetCustomMsgQuorum / the EGF rule read)
func (h *H) checkConfigured() {
	urls := make([]string, 0, len(h.cfg))
	for u := range h.cfg {
		urls = append(urls, u)
	}
	sort.Strings(urls)
	for _, u := range urls {
		want := h.cfg[u]
		got, found := h.s.App.GovKeeper.GetCustomParams(h.ctx(), u)
		h.out.Count("configured:checked")
		switch {
		case want == nil && found:
			h.out.Violate(fmt.Sprintf("custom parameters of message type %s were removed by governance but the look-up for that type still finds period %s quorum %s", u, got.VotingPeriod, got.Quorum))
		case want != nil && !found:
			h.out.Violate(fmt.Sprintf("custom parameters configured for message type %s (period %s, quorum %s) are not found by the look-up for that type", u, want.VotingPeriod, want.Quorum))
		case want != nil && (got.VotingPeriod == nil || want.VotingPeriod == nil || *got.VotingPeriod != *want.VotingPeriod || got.Quorum != want.Quorum || got.DepositRatio != want.DepositRatio):
			h.out.Violate(fmt.Sprintf("custom parameters configured for message type %s are period %s quorum %s ratio %s, the look-up for that type finds period %s quorum %s ratio %s", u, want.VotingPeriod, want.Quorum, want.DepositRatio, got.VotingPeriod, got.Quorum, got.DepositRatio))
		}
	}
}

func cellKey(k int) []byte { return []byte{0xFE, 0xC1, 0x50 + byte(k)} }

func (h *H) ctx() sdk.Context { return h.s.Ctx }

func (h *H) rel(t *time.Time) string {
	if t == nil {
		return "-"
	}
	return fmt.Sprint(int64(t.Sub(h.t0) / time.Second))
}

// commitAt finalizes the current block (whose context the ops have been writing to) at its block time and opens the
// next one at `next`; same steps as helpers.BaseSuite.Commit, with chosen times.
func (h *H) commitAt(next time.Time) error { return h.commitAtTxs(next, nil) }

// commitAtTxs: the same with signed transactions delivered by this block's FinalizeBlock (after the ops already written to
// the block's context, before its end-blocker)
func (h *H) commitAtTxs(next time.Time, txs [][]byte) error {
	s := h.s
	ctx := s.Ctx
	commitInfo := abci.CommitInfo{Round: 1}
	for _, val := range s.ValSet.Validators {
		pk, err := cryptocodec.FromCmtPubKeyInterface(val.PubKey)
		if err != nil {
			return err
		}
		commitInfo.Votes = append(commitInfo.Votes, abci.VoteInfo{
			Validator:   abci.Validator{Address: pk.Address(), Power: val.VotingPower},
			BlockIdFlag: tenderminttypes.BlockIDFlagCommit,
		})
		info := slashingtypes.NewValidatorSigningInfo(sdk.ConsAddress(pk.Address()), ctx.BlockHeight(), 0, time.Unix(0, 0), false, 0)
		if err := s.App.SlashingKeeper.SetValidatorSigningInfo(ctx, sdk.ConsAddress(pk.Address()), info); err != nil {
			return err
		}
	}
	height := ctx.BlockHeight()
	fres, err := s.App.FinalizeBlock(&abci.RequestFinalizeBlock{
		Height: height, Time: ctx.BlockTime(), ProposerAddress: ctx.BlockHeader().ProposerAddress, DecidedLastCommit: commitInfo, Txs: txs,
	})
	if err != nil {
		return err
	}
	h.lastTxRes = fres.TxResults
	if _, err := s.App.Commit(); err != nil {
		return err
	}
	if _, err := s.App.ProcessProposal(&abci.RequestProcessProposal{
		Height: height + 1, Time: next, ProposerAddress: ctx.BlockHeader().ProposerAddress, ProposedLastCommit: commitInfo,
	}); err != nil {
		return err
	}
	s.Ctx = s.App.GetContextForFinalizeBlock(nil)
	return nil
}

// deliver runs a message through the real router on a cache context and writes it only on success (what baseapp does
// for a transaction message).
func (h *H) deliver(msg sdk.Msg) error {
	cctx, write := h.ctx().CacheContext()
	var err error
	res := hx.Try(func() error {
		hd := h.s.App.MsgServiceRouter().Handler(msg)
		if hd == nil {
			return fmt.Errorf("unroutable %T", msg)
		}
		_, err = hd(cctx, msg)
		return nil
	})
	if res != "ok" {
		return errors.New(res)
	}
	if err == nil {
		write()
	}
	return err
}

func kind(err error) string {
	switch {
	case err == nil:
		return "ok"
	case strings.HasPrefix(err.Error(), "panic:"):
		return "panic"
	case errors.Is(err, govtypes.ErrInvalidProposalType):
		return "err:type"
	case errors.Is(err, govtypes.ErrInvalidDepositDenom):
		return "err:denom"
	case errors.Is(err, govtypes.ErrMinDepositTooSmall):
		return "err:small"
	case errors.Is(err, govtypes.ErrInvalidSigner), errors.Is(err, govtypes.ErrInvalidProposalMsg), errors.Is(err, govtypes.ErrUnroutableProposalMsg):
		return "err:msg"
	case errors.Is(err, govtypes.ErrInactiveProposal):
		return "err:inactive"
	case errors.Is(err, govtypes.ErrInvalidProposer):
		return "err:proposer"
	case errors.Is(err, govtypes.ErrVotingPeriodEnded):
		return "err:ended"
	case errors.Is(err, govtypes.ErrInvalidProposal):
		return "err:inactive"
	case errors.Is(err, govtypes.ErrInvalidVote):
		return "err:vote"
	case errors.Is(err, collections.ErrNotFound):
		return "err:notfound"
	case errors.Is(err, sdkerrors.ErrInsufficientFunds):
		return "err:funds"
	case errors.Is(err, sdkerrors.ErrInvalidCoins):
		return "err:coins"
	}
	return "err:other:" + strings.ReplaceAll(err.Error(), " ", "_")
}

// ------------------------------------------------------------------------------------------------- observation

type propObs struct {
	id                 uint64
	status             string
	total              sdkmath.Int
	dEnd, vStart, vEnd *time.Time
	exp                bool
	urls               []string
	tally              string
}

type snap struct {
	govAll   sdk.Coins
	props    map[uint64]propObs
	deps     map[[2]uint64]sdkmath.Int // (pid, account index) -> amount
	depsAll  map[uint64]sdk.Coins
	bal      []sdkmath.Int
	cells    [nCells]int
	custom   map[string]fxgovtypes.CustomParams
	params   v1.Params
	inactive []string
	active   []string
	votes    map[uint64]int // stored votes per proposal
	now      time.Time
	line     string
}

var optWord = map[v1.VoteOption]string{v1.OptionYes: "yes", v1.OptionAbstain: "abstain", v1.OptionNo: "no", v1.OptionNoWithVeto: "veto"}

var statusName = map[v1.ProposalStatus]string{
	v1.StatusDepositPeriod: "deposit", v1.StatusVotingPeriod: "voting", v1.StatusPassed: "passed",
	v1.StatusRejected: "rejected", v1.StatusFailed: "failed",
}

func (h *H) observe() snap {
	ctx := h.ctx()
	k := h.s.App.GovKeeper
	sn := snap{props: map[uint64]propObs{}, deps: map[[2]uint64]sdkmath.Int{}, depsAll: map[uint64]sdk.Coins{}, custom: map[string]fxgovtypes.CustomParams{}}
	sn.now = ctx.BlockTime()
	govAddr := authtypes.NewModuleAddress(govtypes.ModuleName)
	sn.govAll = h.s.App.BankKeeper.GetAllBalances(ctx, govAddr)
	sn.params, _ = k.Params.Get(ctx)
	var ps []string
	_ = k.Proposals.Walk(ctx, nil, func(id uint64, p v1.Proposal) (bool, error) {
		po := propObs{id: id, status: statusName[p.Status], total: sdk.NewCoins(p.TotalDeposit...).AmountOf(denom),
			dEnd: p.DepositEndTime, vStart: p.VotingStartTime, vEnd: p.VotingEndTime, exp: p.Expedited}
		for _, m := range p.Messages {
			po.urls = append(po.urls, m.TypeUrl)
		}
		tr := "0/0/0/0"
		if r := p.FinalTallyResult; r != nil {
			tr = r.YesCount + "/" + r.AbstainCount + "/" + r.NoCount + "/" + r.NoWithVetoCount
		}
		po.tally = tr
		sn.props[id] = po
		ps = append(ps, fmt.Sprintf("%d:%s:%s:%s:%s:%s:%s:%s", id, po.status, po.total, h.rel(po.dEnd), h.rel(po.vStart), h.rel(po.vEnd), b01(po.exp), tr))
		return false, nil
	})
	type dline struct {
		pid uint64
		who int
		s   string
	}
	var ds []dline
	_ = k.Deposits.Walk(ctx, nil, func(key collections.Pair[uint64, sdk.AccAddress], d v1.Deposit) (bool, error) {
		who, ok := h.idx[key.K2().String()]
		if !ok {
			who = 9999
		}
		amt := sdk.NewCoins(d.Amount...).AmountOf(denom)
		sn.deps[[2]uint64{key.K1(), uint64(who)}] = amt
		sn.depsAll[key.K1()] = sn.depsAll[key.K1()].Add(d.Amount...)
		ds = append(ds, dline{key.K1(), who, fmt.Sprintf("%d/%d=%s", key.K1(), who, amt)})
		return false, nil
	})
	sort.Slice(ds, func(i, j int) bool {
		if ds[i].pid != ds[j].pid {
			return ds[i].pid < ds[j].pid
		}
		return ds[i].who < ds[j].who
	})
	var dss []string
	for _, d := range ds {
		dss = append(dss, d.s)
	}
	_ = k.InactiveProposalsQueue.Walk(ctx, nil, func(key collections.Pair[time.Time, uint64], _ uint64) (bool, error) {
		t := key.K1()
		sn.inactive = append(sn.inactive, fmt.Sprintf("%s/%d", h.rel(&t), key.K2()))
		return false, nil
	})
	_ = k.ActiveProposalsQueue.Walk(ctx, nil, func(key collections.Pair[time.Time, uint64], _ uint64) (bool, error) {
		t := key.K1()
		sn.active = append(sn.active, fmt.Sprintf("%s/%d", h.rel(&t), key.K2()))
		return false, nil
	})
	var bs []string
	for i, a := range h.accs {
		b := h.s.App.BankKeeper.GetBalance(ctx, a, denom).Amount
		sn.bal = append(sn.bal, b)
		bs = append(bs, fmt.Sprintf("%d=%s", i, b))
	}
	store := ctx.KVStore(h.s.App.GetKey(govtypes.StoreKey))
	var cs []string
	for i := 0; i < nCells; i++ {
		v := store.Get(cellKey(i))
		if len(v) > 0 {
			sn.cells[i] = int(v[0])
		}
		cs = append(cs, fmt.Sprint(sn.cells[i]))
	}
	var cus []string
	_ = k.CustomerParams.Walk(ctx, nil, func(url string, c fxgovtypes.CustomParams) (bool, error) {
		sn.custom[url] = c
		p := int64(0)
		if c.VotingPeriod != nil {
			p = int64(*c.VotingPeriod / time.Second)
		}
		cus = append(cus, fmt.Sprintf("%s=%s/%d/%s", url, scaled(c.DepositRatio), p, scaled(c.Quorum)))
		return false, nil
	})
	sort.Strings(cus)
	type vline struct {
		pid uint64
		who int
		s   string
	}
	var vs []vline
	sn.votes = map[uint64]int{}
	_ = k.Votes.Walk(ctx, nil, func(key collections.Pair[uint64, sdk.AccAddress], v v1.Vote) (bool, error) {
		who, ok := h.voter[key.K2().String()]
		if !ok {
			who = 9999
		}
		var os []string
		for _, o := range v.Options {
			os = append(os, optWord[o.Option]+":"+scaled(o.Weight).String())
		}
		vs = append(vs, vline{key.K1(), who, fmt.Sprintf("%d/%d=%s", key.K1(), who, strings.Join(os, ","))})
		sn.votes[key.K1()]++
		return false, nil
	})
	sort.Slice(vs, func(i, j int) bool {
		if vs[i].pid != vs[j].pid {
			return vs[i].pid < vs[j].pid
		}
		return vs[i].who < vs[j].who
	})
	var vss []string
	for _, v := range vs {
		vss = append(vss, v.s)
	}
	nid, _ := k.ProposalID.Peek(ctx)
	sn.line = fmt.Sprintf("nid=%d gov=%s props=[%s] deps=[%s] inact=[%s] act=[%s] bal=[%s] kv=%s cust=[%s] votes=[%s]",
		nid, sn.govAll.AmountOf(denom), strings.Join(ps, ";"), strings.Join(dss, ";"), strings.Join(sn.inactive, ";"),
		strings.Join(sn.active, ";"), strings.Join(bs, ";"), strings.Join(cs, ","), strings.Join(cus, ";"), strings.Join(vss, ";"))
	return sn
}

// ------------------------------------------------------------------------------------------------- monitors

func open(st string) bool { return st == "deposit" || st == "voting" }

// specPeriod: the voting period configured for the proposal's message type at this moment
func specPeriod(sn snap, urls []string, expedited bool) time.Duration {
	ty := ""
	if len(urls) > 0 {
		ty = urls[0]
	}
	if c, ok := sn.custom[ty]; ok && c.VotingPeriod != nil {
		return *c.VotingPeriod
	}
	if expedited {
		return *sn.params.ExpeditedVotingPeriod
	}
	return *sn.params.VotingPeriod
}

func specQuorum(sn snap, urls []string) sdkmath.LegacyDec {
	ty := ""
	if len(urls) > 0 {
		ty = urls[0]
	}
	q := sn.params.Quorum
	if c, ok := sn.custom[ty]; ok {
		q = c.Quorum
	}
	return sdkmath.LegacyMustNewDecFromStr(q)
}

// specMin: the minimum total deposit (in the deposit denom) the property asks for: the default for the proposal kind,
// or the configured share of the requested community-pool amount when that is larger.
func (h *H) specMin(sn snap, pid uint64, expedited bool) sdkmath.Int {
	def := sdk.NewCoins(sn.params.MinDeposit...).AmountOf(denom)
	if expedited {
		def = sdk.NewCoins(sn.params.ExpeditedMinDeposit...).AmountOf(denom)
	}
	msgs := h.props[pid]
	req := sdkmath.ZeroInt()
	for _, m := range msgs {
		if !m.isSpend {
			return def
		}
		req = req.Add(m.spendFx)
	}
	c, ok := sn.custom[sdk.MsgTypeURL(&distrtypes.MsgCommunityPoolSpend{})]
	if !ok {
		return def
	}
	r := sdkmath.LegacyMustNewDecFromStr(c.DepositRatio)
	share := sdkmath.LegacyNewDecFromInt(req).Mul(r).RoundInt()
	if share.GT(def) {
		return share
	}
	return def
}

// tallySpec: the per-option counts of the real Tally (whole tokens: TallyResult truncates), from a dry run on a discarded
// cache context, with what the monitor needs to restate the decision with the quorum the PROPERTY asks for
type tallySpec struct {
	pid                   uint64
	yes, no, abst, veto   sdkmath.Int
	bonded                sdkmath.Int
	thr, expThr, vetoThr  sdkmath.LegacyDec
	expedite              bool
	urls                  []string
	// dry run of the proposal's messages, in order, on a discarded cache of the state before the block: do they all
	// succeed, and if not which one fails (error or panic)
	execOK   bool
	failIdx  int
	failWhy  string
	nMsgs    int
	// what the votes and the stakes give, by the rule "every staked token of a bonded validator is counted once: for its
	// delegator if the delegator voted, else for the validator's operator if that voted", in exact rationals
	want [4]*big.Rat // yes, abstain, no, veto
}

func ratOfDec(d sdkmath.LegacyDec) *big.Rat { return new(big.Rat).SetFrac(d.BigInt(), dec18) }

// specCounts: independent of x/gov/keeper/tally.go — reads the votes and the staking state only
func (h *H) specCounts(ctx sdk.Context, pid uint64) [4]*big.Rat {
	k := h.s.App.GovKeeper
	sk := h.s.App.StakingKeeper
	res := [4]*big.Rat{new(big.Rat), new(big.Rat), new(big.Rat), new(big.Rat)}
	slot := map[v1.VoteOption]int{v1.OptionYes: 0, v1.OptionAbstain: 1, v1.OptionNo: 2, v1.OptionNoWithVeto: 3}
	type val struct {
		tokens, shares, voted *big.Rat
	}
	vals := map[string]*val{}
	_ = sk.IterateBondedValidatorsByPower(ctx, func(_ int64, v stakingtypes.ValidatorI) bool {
		vals[v.GetOperator()] = &val{new(big.Rat).SetInt(v.GetBondedTokens().BigInt()), ratOfDec(v.GetDelegatorShares()), new(big.Rat)}
		return false
	})
	votes := map[string]v1.WeightedVoteOptions{}
	rng := collections.NewPrefixedPairRange[uint64, sdk.AccAddress](pid)
	_ = k.Votes.Walk(ctx, rng, func(key collections.Pair[uint64, sdk.AccAddress], v v1.Vote) (bool, error) {
		votes[key.K2().String()] = v.Options
		return false, nil
	})
	add := func(pw *big.Rat, opts v1.WeightedVoteOptions) {
		for _, o := range opts {
			w := ratOfDec(sdkmath.LegacyMustNewDecFromStr(o.Weight))
			res[slot[o.Option]].Add(res[slot[o.Option]], new(big.Rat).Mul(pw, w))
		}
	}
	for voter, opts := range votes {
		addr, _ := sdk.AccAddressFromBech32(voter)
		_ = sk.IterateDelegations(ctx, addr, func(_ int64, d stakingtypes.DelegationI) bool {
			if v, ok := vals[d.GetValidatorAddr()]; ok && v.shares.Sign() > 0 {
				sh := ratOfDec(d.GetShares())
				v.voted.Add(v.voted, sh)
				add(new(big.Rat).Quo(new(big.Rat).Mul(sh, v.tokens), v.shares), opts)
			}
			return false
		})
	}
	for op, v := range vals {
		bz, err := sk.ValidatorAddressCodec().StringToBytes(op)
		if err != nil || v.shares.Sign() == 0 {
			continue
		}
		if opts, ok := votes[sdk.AccAddress(bz).String()]; ok {
			rest := new(big.Rat).Sub(v.shares, v.voted)
			add(new(big.Rat).Quo(new(big.Rat).Mul(rest, v.tokens), v.shares), opts)
		}
	}
	return res
}

// passes restates the decision on counts perturbed by d (the truncated fractions are unknown: the monitor only judges
// when every perturbation agrees)
func (ts tallySpec) passes(q sdkmath.LegacyDec, d [4]int64) bool {
	yes, no, abst, veto := ts.yes.AddRaw(d[0]), ts.no.AddRaw(d[1]), ts.abst.AddRaw(d[2]), ts.veto.AddRaw(d[3])
	total := yes.Add(no).Add(abst).Add(veto)
	if ts.bonded.IsZero() {
		return false
	}
	if sdkmath.LegacyNewDecFromInt(total).Quo(sdkmath.LegacyNewDecFromInt(ts.bonded)).LT(q) {
		return false
	}
	if total.Sub(abst).IsZero() {
		return false
	}
	if sdkmath.LegacyNewDecFromInt(veto).Quo(sdkmath.LegacyNewDecFromInt(total)).GT(ts.vetoThr) {
		return false
	}
	thr := ts.thr
	if ts.expedite {
		thr = ts.expThr
	}
	return sdkmath.LegacyNewDecFromInt(yes).Quo(sdkmath.LegacyNewDecFromInt(total.Sub(abst))).GT(thr)
}

func (ts tallySpec) pct() sdkmath.LegacyDec {
	if ts.bonded.IsZero() {
		return sdkmath.LegacyZeroDec()
	}
	return sdkmath.LegacyNewDecFromInt(ts.yes.Add(ts.no).Add(ts.abst).Add(ts.veto)).Quo(sdkmath.LegacyNewDecFromInt(ts.bonded))
}

// verdict: (passes, conclusive)
func (ts tallySpec) verdict(q sdkmath.LegacyDec) (bool, bool) {
	base := ts.passes(q, [4]int64{})
	for _, d := range [][4]int64{{1, 0, 0, 0}, {0, 1, 0, 0}, {0, 0, 1, 0}, {0, 0, 0, 1}, {1, 1, 1, 1}} {
		if ts.passes(q, d) != base {
			return base, false
		}
	}
	return base, true
}

// monitor compares the state before and after one op with the property, stated directly.
func (h *H) monitor(op string, before, after snap, paidWho int, paid int64, specs []tallySpec) {
	out := h.out
	// (1) module balance = Σ deposits of proposals still in deposit or voting period; no deposit record elsewhere
	sum := sdk.NewCoins()
	for pid, c := range after.depsAll {
		p, ok := after.props[pid]
		if !ok || !open(p.status) {
			out.Violate(fmt.Sprintf("deposit records remain for proposal %d which is no longer open (status %q)", pid, p.status))
		}
		sum = sum.Add(c...)
	}
	if !sum.Equal(after.govAll) {
		out.Violate(fmt.Sprintf("gov module balance %s differs from the sum of deposits of open proposals %s", after.govAll, sum))
	}
	for pid, p := range after.props {
		if open(p.status) && !after.depsAll[pid].AmountOf(denom).Equal(p.total) {
			out.Violate(fmt.Sprintf("proposal %d total deposit %s differs from the sum of its deposit records %s", pid, p.total, after.depsAll[pid]))
		}
	}
	for pid, n := range after.votes {
		if p, ok := after.props[pid]; n > 0 && (!ok || p.status != "voting") {
			out.Violate(fmt.Sprintf("%d votes are stored for proposal %d which is not in its voting period (status %q)", n, pid, p.status))
		}
	}
	// (1c) queue consistency on the real state: the inactive queue holds exactly the (deposit end, id) of the proposals in
	// their deposit period, the active queue exactly the (voting end, id) of those in their voting period
	{
		wantI, wantA := map[string]bool{}, map[string]bool{}
		for pid, p := range after.props {
			if p.status == "deposit" {
				wantI[fmt.Sprintf("%s/%d", h.rel(p.dEnd), pid)] = true
			}
			if p.status == "voting" {
				wantA[fmt.Sprintf("%s/%d", h.rel(p.vEnd), pid)] = true
			}
		}
		chk := func(name string, got []string, want map[string]bool) {
			seen := map[string]bool{}
			for _, e := range got {
				if !want[e] {
					out.Violate(fmt.Sprintf("%s queue has the entry %s but no proposal in that period with that end time", name, e))
				}
				seen[e] = true
			}
			for e := range want {
				if !seen[e] {
					out.Violate(fmt.Sprintf("a proposal is open with end/id %s but the %s queue has no such entry (it would never end)", e, name))
				}
			}
		}
		chk("inactive", after.inactive, wantI)
		chk("active", after.active, wantA)
	}
	// (1d) the end-blocker of a block ends every period whose end is at or before the block's time
	if f := strings.Fields(op); f[0] == "endblock" {
		for pid, p := range after.props {
			bp, existed := before.props[pid]
			if !existed {
				continue
			}
			if bp.status == "deposit" && !bp.dEnd.After(before.now) && p.status == "deposit" {
				out.Violate(fmt.Sprintf("proposal %d: deposit period ended at %s, block time %s, but it is still in its deposit period", pid, h.rel(bp.dEnd), h.rel(&before.now)))
			}
			if bp.status == "voting" && !bp.vEnd.After(before.now) && p.status == "voting" && p.vEnd.Equal(*bp.vEnd) && bp.exp == p.exp {
				out.Violate(fmt.Sprintf("proposal %d: voting period ended at %s, block time %s, but it was not tallied", pid, h.rel(bp.vEnd), h.rel(&before.now)))
			}
			if open(bp.status) && !open(p.status) && ((bp.status == "deposit" && bp.dEnd.After(before.now)) || (bp.status == "voting" && bp.vEnd.After(before.now))) {
				out.Violate(fmt.Sprintf("proposal %d ended (%s) before the end of its %s period", pid, p.status, bp.status))
			}
		}
		for pid, bp := range before.props {
			if _, still := after.props[pid]; !still && !(bp.status == "deposit" && !bp.dEnd.After(before.now)) && !h.txCancelled[pid] {
				out.Violate(fmt.Sprintf("proposal %d (%s) was deleted by the end-blocker although its deposit period had not ended", pid, bp.status))
			}
		}
	}
	// (2) each deposit that disappears left the module exactly once, towards its depositor or out of supply
	paid0 := paid
	settled := sdkmath.ZeroInt()
	perWho := map[int]sdkmath.Int{}
	for key, amt := range before.deps {
		if _, still := after.deps[key]; !still {
			settled = settled.Add(amt)
			w := int(key[1])
			if _, ok := perWho[w]; !ok {
				perWho[w] = sdkmath.ZeroInt()
			}
			perWho[w] = perWho[w].Add(amt)
		}
	}
	for _, n := range h.txPaid {
		paid += n
	}
	// coins a transaction of this block paid in for a proposal that the same block closed were settled in it as well
	for _, d := range h.txDeps {
		if p, ok := after.props[d.pid]; !ok || !open(p.status) {
			settled = settled.AddRaw(d.amt)
			if _, ok := perWho[d.who]; !ok {
				perWho[d.who] = sdkmath.ZeroInt()
			}
			perWho[d.who] = perWho[d.who].AddRaw(d.amt)
		}
	}
	gb, ga := before.govAll.AmountOf(denom), after.govAll.AmountOf(denom)
	if !gb.AddRaw(paid).Sub(settled).Equal(ga) {
		out.Violate(fmt.Sprintf("settlement not exactly once: module balance %s + paid in %d - settled deposits %s != %s", gb, paid, settled, ga))
	}
	credits := map[int]sdkmath.Int{}
	for i := range h.accs {
		credits[i] = sdkmath.ZeroInt()
	}
	for pid, p := range after.props {
		if bp, ok := before.props[pid]; ok && bp.status == "voting" && p.status == "passed" {
			for _, m := range h.props[pid] {
				if m.isSpend {
					credits[m.creditTo] = credits[m.creditTo].Add(m.spendFx)
				}
			}
		}
	}
	cancelTo := -1
	if strings.HasPrefix(op, "cancel ") || len(h.txCancelled) > 0 {
		if a, err := sdk.AccAddressFromBech32(before.params.ProposalCancelDest); err == nil {
			if i, ok := h.idx[a.String()]; ok {
				cancelTo = i
			}
		}
	}
	for i := range h.accs {
		delta := after.bal[i].Sub(before.bal[i]).Sub(credits[i])
		if i == paidWho {
			delta = delta.AddRaw(paid0)
		}
		delta = delta.AddRaw(h.txPaid[i])
		max, ok := perWho[i]
		if !ok {
			max = sdkmath.ZeroInt()
		}
		if i == cancelTo || strings.HasPrefix(op, "mint ") {
			continue
		}
		if delta.IsNegative() || delta.GT(max) {
			out.Violate(fmt.Sprintf("account %d balance changed by %s although its settled deposits amount to %s (refunded twice, or taken)", i, delta, max))
		}
	}
	// custom parameters rewritten by a proposal executed in this very block: "configured at that moment" is then a
	// moment inside the end-blocker, which only the model comparison follows exactly
	churnInBlock := false
	for pid, p := range after.props {
		if bp, ok := before.props[pid]; ok && bp.status == "voting" && p.status == "passed" {
			for _, m := range h.props[pid] {
				if strings.HasPrefix(m.act, "setc") || strings.HasPrefix(m.act, "delc") {
					churnInBlock = true
				}
			}
		}
	}
	// (3) (4) activation: minimum deposit and voting period by type
	for pid, p := range after.props {
		bp, existed := before.props[pid]
		activated := p.status == "voting" && (!existed || bp.status == "deposit")
		if activated {
			min := h.specMin(before, pid, p.exp)
			if p.total.LT(min) {
				cls := "plain"
				for _, m := range h.props[pid] {
					if m.isSpend && m.spendOther > 0 {
						cls = "community-pool spend requesting a non-deposit denom"
					}
				}
				out.Violate(fmt.Sprintf("voting activated below the minimum deposit (%s): total %s < required %s", cls, p.total, min))
			}
			if want := specPeriod(before, p.urls, p.exp); p.vEnd.Sub(*p.vStart) != want {
				out.Violate(fmt.Sprintf("voting period at activation is %s, configured for message type is %s", p.vEnd.Sub(*p.vStart), want))
			}
			out.Count("activation")
		}
		if existed && bp.status == "voting" && bp.exp && p.status == "voting" && !p.exp {
			out.Count("expedited->regular")
			want := specPeriod(before, p.urls, false)
			if got := p.vEnd.Sub(*p.vStart); got != want && !churnInBlock {
				ty := ""
				if len(p.urls) > 0 {
					ty = p.urls[0]
				}
				_, hasCustom := before.custom[ty]
				out.Violate(fmt.Sprintf("expedited proposal converted to regular got voting period %s, the period configured for its message type is %s (custom params for type: %v)", got, want, hasCustom))
			}
			out.Nontrivial("conversion")
		}
	}
	// (3b) the converse, for the proposal that just received a deposit: minimum reached ⇒ voting starts (requests in a
	// non-deposit denom excepted: their share cannot be deposited)
	if f := strings.Fields(op); paid > 0 && (f[0] == "deposit" || f[0] == "submit") {
		for pid, p := range after.props {
			bp, existed := before.props[pid]
			if p.status != "deposit" || (existed && bp.total.Equal(p.total)) {
				continue
			}
			foreign := false
			for _, m := range h.props[pid] {
				foreign = foreign || m.spendOther > 0
			}
			if min := h.specMin(before, pid, p.exp); !foreign && p.total.GTE(min) {
				out.Violate(fmt.Sprintf("minimum deposit reached (total %s >= %s) but voting was not activated", p.total, min))
			}
		}
	}
	// (4b) quorum by type: outcome of every tally in this block
	for _, ts := range specs {
		bp := before.props[ts.pid]
		ap, still := after.props[ts.pid]
		if !still {
			out.Violate(fmt.Sprintf("tallied proposal %d vanished", ts.pid))
			continue
		}
		q := specQuorum(before, ts.urls)
		ts.expedite = bp.exp
		want, conclusive := ts.verdict(q)
		got := ap.status == "passed" || ap.status == "failed"
		if !conclusive {
			out.Count("tally-monitor-inconclusive(at a boundary)")
		} else if want != got && !churnInBlock {
			out.Violate(fmt.Sprintf("tally outcome passes=%v but with the quorum configured for the message type (%s, turnout %s) it is %v", got, q, ts.pct(), want))
		}
		out.Count("tally:" + ap.status)
		if bp.exp && ap.status == "voting" {
			out.Count("tally:expedited-failed")
		}
		gq := sdkmath.LegacyMustNewDecFromStr(before.params.Quorum)
		if !gq.Equal(q) && (ts.pct().LT(q) != ts.pct().LT(gq)) {
			out.Nontrivial("tally-decided-by-type-quorum:" + ap.status)
		}
		// the per-option counts are those the votes and the stakes give (each staked token once)
		if f := strings.Split(ap.tally, "/"); len(f) == 4 && ts.want[0] != nil {
			out.Count("tally:counts-compared-with-stakes")
			for i, name := range []string{"yes", "abstain", "no", "no_with_veto"} {
				got, _ := new(big.Int).SetString(f[i], 10)
				want := new(big.Int).Quo(ts.want[i].Num(), ts.want[i].Denom())
				if d := new(big.Int).Sub(got, want); got != nil && d.CmpAbs(big.NewInt(1)) > 0 {
					out.Violate(fmt.Sprintf("tally counted %s for %s, the votes and the stakes give %s (difference %s: voting power counted twice, or not at all)", got, name, want, d))
				}
			}
			tot := new(big.Rat)
			for i := range ts.want {
				tot.Add(tot, ts.want[i])
			}
			if tot.Cmp(new(big.Rat).SetInt(ts.bonded.BigInt())) > 0 {
				out.Violate(fmt.Sprintf("more voting power (%s) than bonded tokens (%s)", tot.FloatString(0), ts.bonded))
			}
		}
		// the counted votes are gone (a converted expedited proposal starts its regular period without votes)
		if after.votes[ts.pid] != 0 {
			out.Violate(fmt.Sprintf("proposal %d was tallied but %d of its votes are still stored", ts.pid, after.votes[ts.pid]))
		}
		if before.votes[ts.pid] > 0 {
			out.Count("tally:with-votes")
		}
	}
	// (5) single type
	for pid, p := range after.props {
		for _, u := range p.urls {
			if u != p.urls[0] {
				out.Violate(fmt.Sprintf("proposal %d has messages of different types %v", pid, p.urls))
			}
		}
	}
	// what the proposals that PASSED in this block configured (queue order = execution order), for checkConfigured
	{
		var pids []uint64
		for pid, ap := range after.props {
			if bp, ok := before.props[pid]; ok && bp.status == "voting" && ap.status == "passed" {
				pids = append(pids, pid)
			}
		}
		sort.Slice(pids, func(i, j int) bool {
			a, b := before.props[pids[i]], before.props[pids[j]]
			if a.vEnd != nil && b.vEnd != nil && !a.vEnd.Equal(*b.vEnd) {
				return a.vEnd.Before(*b.vEnd)
			}
			return pids[i] < pids[j]
		})
		for _, pid := range pids {
			for _, m := range h.props[pid] {
				if um, isUpd := m.real.(*fxgovtypes.MsgUpdateCustomParams); isUpd {
					h.setConfigured(um)
				}
			}
		}
	}
	// (6) all-or-nothing: a failed proposal leaves no cell / custom-parameter write when it is the only one executed
	nExec, failed := 0, false
	for pid, p := range after.props {
		if bp, ok := before.props[pid]; ok && bp.status == "voting" && (p.status == "passed" || p.status == "failed") {
			nExec++
			failed = failed || p.status == "failed"
		}
	}
	if nExec == 1 && failed {
		out.Count("exec-failed-alone")
		if before.cells != after.cells || fmt.Sprint(before.custom) != fmt.Sprint(after.custom) {
			out.Violate("a proposal whose message failed left writes of its earlier messages")
		}
	}
	// (6b) all together or not at all, stated directly for the proposal executed alone in this block: it is PASSED iff
	// every one of its messages succeeds when run in order (dry run on the state before the block), then every effect is
	// there; otherwise it is FAILED and no effect is there
	if nExec == 1 {
		for _, ts := range specs {
			ap, ok := after.props[ts.pid]
			bp := before.props[ts.pid]
			if !ok || bp.status != "voting" || (ap.status != "passed" && ap.status != "failed") {
				continue
			}
			pos := "only"
			switch {
			case ts.execOK:
				pos = "none"
			case ts.nMsgs > 1 && ts.failIdx == 0:
				pos = "first"
			case ts.nMsgs > 1 && ts.failIdx == ts.nMsgs-1:
				pos = "last"
			case ts.nMsgs > 1:
				pos = "middle"
			}
			out.Count(fmt.Sprintf("exec:%s:fails-at-%s-of-%d:%s", ap.status, pos, ts.nMsgs, ts.failWhy))
			if ap.status == "passed" && !ts.execOK {
				out.Violate(fmt.Sprintf("proposal with %d messages is PASSED although its message %d fails when executed (%s; fails at: %s): the messages did not take effect all together or not at all", ts.nMsgs, ts.failIdx+1, ts.failWhy, pos))
			}
			if ap.status == "failed" && ts.execOK {
				out.Violate(fmt.Sprintf("proposal with %d messages is FAILED although every message succeeds when executed in order", ts.nMsgs))
			}
			// expected effects
			cells, changedCustom := before.cells, false
			for _, m := range h.props[ts.pid] {
				f := strings.Split(m.act, ",")
				switch f[0] {
				case "cas":
					var k, nw int
					fmt.Sscan(f[1], &k)
					fmt.Sscan(f[3], &nw)
					cells[k] = nw
				case "setc", "delc":
					changedCustom = true
				}
			}
			if ap.status == "passed" && ts.execOK {
				if cells != after.cells {
					out.Violate(fmt.Sprintf("passed proposal: store cells are %v, expected %v after all its messages", after.cells, cells))
				}
			}
			if ap.status == "failed" {
				for i := range h.accs {
					// (a cancellation in the same block may pay its charges to an ACCOUNT — params.ProposalCancelDest — that is no depositor)
					if after.bal[i].GT(before.bal[i]) && !strings.HasPrefix(op, "mint ") && perWho[i].IsNil() && len(h.txCancelled) == 0 {
						out.Violate(fmt.Sprintf("failed proposal: account %d was credited %s by one of its messages", i, after.bal[i].Sub(before.bal[i])))
					}
				}
			}
			_ = changedCustom
		}
	}
}

// ------------------------------------------------------------------------------------------------- ops

func (h *H) emit(op string, before snap, err error, paidWho int, paid int64, specs []tallySpec) snap {
	after := h.observe()
	res := kind(err)
	if err != nil {
		paid = 0
	}
	h.out.Emit(op, res+" "+after.line)
	h.out.Count(strings.Fields(op)[0] + ":" + strings.SplitN(res, ":other", 2)[0])
	if res == "panic" {
		h.out.Violate("panic in gov message handling: " + err.Error())
	}
	h.monitor(op, before, after, paidWho, paid, specs)
	h.checkConfigured()
	return after
}

func coins(n int64) sdk.Coins {
	if n == 0 {
		return sdk.NewCoins()
	}
	return sdk.NewCoins(sdk.NewInt64Coin(denom, n))
}

func (h *H) opMint(who int, n int64) {
	before := h.observe()
	h.s.MintToken(h.accs[who], sdk.NewInt64Coin(denom, n))
	h.emit(fmt.Sprintf("mint %d %d", who, n), before, nil, -1, 0, nil)
}

type mparams struct {
	minDep, expMin, maxDepP, vp, expVp   int64
	quorum, minInit, minDepRatio, cancel *big.Int
	cancelDest                           int
	burnPrevote, burnQuorum, burnVeto    bool
	thr, expThr, vetoThr                 *big.Int
}

func (h *H) opParams(m mparams) {
	before := h.observe()
	p := before.params
	p.MinDeposit = coins(m.minDep)
	p.ExpeditedMinDeposit = coins(m.expMin)
	d1, d2, d3 := time.Duration(m.maxDepP)*time.Second, time.Duration(m.vp)*time.Second, time.Duration(m.expVp)*time.Second
	p.MaxDepositPeriod, p.VotingPeriod, p.ExpeditedVotingPeriod = &d1, &d2, &d3
	p.Quorum = decStr(m.quorum)
	p.MinInitialDepositRatio = decStr(m.minInit)
	p.MinDepositRatio = decStr(m.minDepRatio)
	p.ProposalCancelRatio = decStr(m.cancel)
	switch {
	case m.cancelDest == 0:
		p.ProposalCancelDest = ""
	case m.cancelDest == 1:
		p.ProposalCancelDest = authtypes.NewModuleAddress(distrtypes.ModuleName).String()
	default:
		p.ProposalCancelDest = h.accs[m.cancelDest-2].String()
	}
	p.BurnProposalDepositPrevote, p.BurnVoteQuorum, p.BurnVoteVeto = m.burnPrevote, m.burnQuorum, m.burnVeto
	p.Threshold, p.ExpeditedThreshold, p.VetoThreshold = decStr(m.thr), decStr(m.expThr), decStr(m.vetoThr)
	err := h.deliver(&v1.MsgUpdateParams{Authority: h.gov, Params: p})
	op := fmt.Sprintf("params %d %d %d %d %d %s %s %s %s %d %s %s %s %s %s %s", m.minDep, m.expMin, m.maxDepP, m.vp, m.expVp, m.quorum,
		m.minInit, m.minDepRatio, m.cancel, m.cancelDest, b01(m.burnPrevote), b01(m.burnQuorum), b01(m.burnVeto), m.thr, m.expThr, m.vetoThr)
	if err != nil {
		err = fmt.Errorf("params")
		h.out.Emit(op, "err:params "+h.observe().line)
		return
	}
	h.emit(op, before, nil, -1, 0, nil)
}

func (h *H) opCustom(url string, remove bool, r *big.Int, period int64, q *big.Int) {
	before := h.observe()
	msg := &fxgovtypes.MsgUpdateCustomParams{Authority: h.gov, MsgUrl: url}
	op := fmt.Sprintf("custom %s remove", url)
	if !remove {
		msg.CustomParams = *fxgovtypes.NewCustomParams(decStr(r), time.Duration(period)*time.Second, decStr(q))
		op = fmt.Sprintf("custom %s %s %d %s", url, r, period, q)
	}
	err := h.deliver(msg)
	if err != nil {
		if remove {
			// a removal carries nothing that could be malformed: governance HAS decided that the type has no custom parameters,
			// whatever the message server answers; checkConfigured reports an entry the look-up still finds (round 5)
			h.setConfigured(msg)
			h.out.Count("custom:remove-refused")
		}
		h.out.Emit(op, "err:params "+h.observe().line)
		h.out.Count("custom:err")
		return
	}
	h.setConfigured(msg)
	h.emit(op, before, nil, -1, 0, nil)
}

func (h *H) opSubmit(who int, expedited bool, initial int64, msgs []pmsg) {
	before := h.observe()
	var real []sdk.Msg
	var words []string
	for _, m := range msgs {
		real = append(real, m.real)
		words = append(words, m.word())
	}
	op := strings.TrimSpace(fmt.Sprintf("submit %d %s %d %s", who, b01(expedited), initial, strings.Join(words, " ")))
	msg, err := v1.NewMsgSubmitProposal(real, coins(initial), h.accs[who].String(), "m", "t", "s", expedited)
	if err != nil {
		h.t.Fatalf("NewMsgSubmitProposal: %v", err)
	}
	nextID, _ := h.s.App.GovKeeper.ProposalID.Peek(h.ctx())
	err = h.deliver(msg)
	if err == nil {
		h.props[nextID] = msgs
	}
	h.emit(op, before, err, who, initial, nil)
}

func (h *H) opDeposit(pid uint64, who int, n int64) {
	before := h.observe()
	msg := &v1.MsgDeposit{ProposalId: pid, Depositor: h.accs[who].String(), Amount: coins(n)}
	err := h.deliver(msg)
	h.emit(fmt.Sprintf("deposit %d %d %d", pid, who, n), before, err, who, n, nil)
}

func (h *H) opCancel(pid uint64, who int) {
	before := h.observe()
	err := h.deliver(&v1.MsgCancelProposal{ProposalId: pid, Proposer: h.accs[who].String()})
	h.emit(fmt.Sprintf("cancel %d %d", pid, who), before, err, -1, 0, nil)
}

var optName = map[string]v1.VoteOption{"yes": v1.OptionYes, "no": v1.OptionNo, "abstain": v1.OptionAbstain, "veto": v1.OptionNoWithVeto}

type wopt struct {
	opt string
	w   *big.Int // ·10^18
}

func one(opt string) []wopt { return []wopt{{opt, new(big.Int).Set(dec18)}} }

func (h *H) voterAddr(i int) sdk.AccAddress {
	if i >= 100 {
		return h.vals[i-100]
	}
	return h.accs[i]
}

// opVote: a single full-weight option goes through MsgVote or MsgVoteWeighted, anything else through MsgVoteWeighted
func (h *H) opVote(pid uint64, voter int, opts []wopt) {
	before := h.observe()
	var msg sdk.Msg
	var words []string
	for _, o := range opts {
		words = append(words, o.opt+":"+o.w.String())
	}
	if len(opts) == 1 && opts[0].w.Cmp(dec18) == 0 && h.rng.Intn(2) == 0 {
		msg = v1.NewMsgVote(h.voterAddr(voter), pid, optName[opts[0].opt], "")
	} else {
		var ws v1.WeightedVoteOptions
		for _, o := range opts {
			ws = append(ws, &v1.WeightedVoteOption{Option: optName[o.opt], Weight: decStr(o.w)})
		}
		msg = v1.NewMsgVoteWeighted(h.voterAddr(voter), pid, ws, "")
	}
	err := h.deliver(msg)
	h.emit(fmt.Sprintf("vote %d %d %s", pid, voter, strings.Join(words, ",")), before, err, -1, 0, nil)
}

// opDelegate: a tracked account delegates to validator `val` through the real MsgDelegate
func (h *H) opDelegate(who, val int, n sdkmath.Int) {
	before := h.observe()
	msg := stakingtypes.NewMsgDelegate(h.accs[who].String(), sdk.ValAddress(h.vals[val]).String(), sdk.NewCoin(denom, n))
	err := h.deliver(msg)
	op := fmt.Sprintf("delegate %d %d %s", who, 100+val, n)
	after := h.observe()
	h.out.Emit(op, kind(err)+" "+after.line)
	h.out.Count("delegate:" + strings.SplitN(kind(err), ":other", 2)[0])
	h.monitorBalanceOnly(before, after)
}

// a delegation moves nothing of gov's
func (h *H) monitorBalanceOnly(before, after snap) {
	if !before.govAll.Equal(after.govAll) {
		h.out.Violate(fmt.Sprintf("gov module balance changed from %s to %s by a staking delegation", before.govAll, after.govAll))
	}
}

// stakingWords: the numbers the real Tally reads in the end-blocker of the current block (gov's end-blocker runs before
// staking's, so these are the values at the end of the block's transactions): total bonded, every bonded validator's
// bonded tokens and delegator shares, every delegation of a possible voter.
func (h *H) stakingWords() []string {
	ctx := h.ctx()
	sk := h.s.App.StakingKeeper
	bonded, _ := sk.TotalBondedTokens(ctx)
	words := []string{"b," + bonded.String()}
	valIdx := func(valAddr string) int {
		bz, err := sk.ValidatorAddressCodec().StringToBytes(valAddr)
		if err != nil {
			return 9998
		}
		if i, ok := h.voter[sdk.AccAddress(bz).String()]; ok {
			return i
		}
		return 9998
	}
	_ = sk.IterateBondedValidatorsByPower(ctx, func(_ int64, v stakingtypes.ValidatorI) bool {
		words = append(words, fmt.Sprintf("v,%d,%s,%s", valIdx(v.GetOperator()), v.GetBondedTokens(), v.GetDelegatorShares().BigInt()))
		return false
	})
	var voters []int
	for i := range h.accs {
		voters = append(voters, i)
	}
	for i := range h.vals {
		voters = append(voters, 100+i)
	}
	for _, w := range voters {
		_ = sk.IterateDelegations(ctx, h.voterAddr(w), func(_ int64, d stakingtypes.DelegationI) bool {
			words = append(words, fmt.Sprintf("d,%d,%d,%s", w, valIdx(d.GetValidatorAddr()), d.GetShares().BigInt()))
			return false
		})
	}
	return words
}

// tallies of the proposals the end-blocker of the current block will tally, from the real votes and the real staking
// state (dry run of the real Tally on a discarded cache context gives the per-option power; turnout, veto and
// threshold tests are recomputed here, the quorum is NOT taken from the implementation).
func (h *H) dueTallies() []tallySpec {
	ctx := h.ctx()
	k := h.s.App.GovKeeper
	var specs []tallySpec
	rng := collections.NewPrefixUntilPairRange[time.Time, uint64](ctx.BlockTime())
	_ = k.ActiveProposalsQueue.Walk(ctx, rng, func(key collections.Pair[time.Time, uint64], _ uint64) (bool, error) {
		p, err := k.Proposals.Get(ctx, key.K2())
		if err != nil {
			return false, nil
		}
		cctx, _ := ctx.CacheContext()
		var res v1.TallyResult
		if r := hx.Try(func() error { var err error; _, _, res, err = k.Tally(cctx, p); return err }); r != "ok" {
			// the real end-blocker will meet the same error or panic: reported there, with the block as failing input
			h.out.Count("dry-run-tally:" + strings.SplitN(r, ":", 2)[0])
			return false, nil
		}
		toInt := func(s string) sdkmath.Int { i, _ := sdkmath.NewIntFromString(s); return i }
		bonded, _ := h.s.App.StakingKeeper.TotalBondedTokens(ctx)
		params, _ := k.Params.Get(ctx)
		ts := tallySpec{pid: key.K2(), expedite: p.Expedited, yes: toInt(res.YesCount), no: toInt(res.NoCount),
			abst: toInt(res.AbstainCount), veto: toInt(res.NoWithVetoCount), bonded: bonded,
			thr: sdkmath.LegacyMustNewDecFromStr(params.Threshold), expThr: sdkmath.LegacyMustNewDecFromStr(params.ExpeditedThreshold),
			vetoThr: sdkmath.LegacyMustNewDecFromStr(params.VetoThreshold)}
		for _, m := range p.Messages {
			ts.urls = append(ts.urls, m.TypeUrl)
		}
		ts.want = h.specCounts(ctx, key.K2())
		ts.execOK, ts.failIdx = true, -1
		if msgs, err := p.GetMsgs(); err != nil {
			ts.execOK, ts.failWhy = false, "unpack"
		} else {
			ts.nMsgs = len(msgs)
			ectx, _ := ctx.CacheContext()
			for i, m := range msgs {
				m := m
				res := hx.Try(func() error {
					hd := h.s.App.MsgServiceRouter().Handler(m)
					if hd == nil {
						return fmt.Errorf("unroutable")
					}
					_, err := hd(ectx, m)
					return err
				})
				if res != "ok" {
					ts.execOK, ts.failIdx, ts.failWhy = false, i, "error"
					if strings.HasPrefix(res, "panic:") {
						ts.failWhy = "panic"
					}
					break
				}
			}
		}
		specs = append(specs, ts)
		return false, nil
	})
	return specs
}

func (h *H) opEndBlock(dt int64) {
	before := h.observe()
	specs := h.dueTallies()
	op := strings.TrimSpace(fmt.Sprintf("endblock %d %s", dt, strings.Join(h.stakingWords(), " ")))
	var err error
	res := hx.Try(func() error { err = h.commitAt(h.ctx().BlockTime().Add(time.Duration(dt) * time.Second)); return nil })
	if res != "ok" || err != nil {
		h.halted = true
		why := res
		if err != nil {
			why = err.Error()
		}
		h.out.Emit(op, "halt:"+strings.ReplaceAll(why, " ", "_"))
		h.out.Violate("block processing halted in a reachable gov state (end-blocker returned an error or panicked): " + why)
		return
	}
	h.emit(op, before, nil, -1, 0, specs)
}

// ------------------------------------------------------------------------------------------------- message builders

func (h *H) msgCas(k, old, new int, wf bool) pmsg {
	enc := func(n int) string {
		if n == 0 {
			return ""
		}
		return fmt.Sprintf("%02x", n)
	}
	auth := h.gov
	if !wf {
		auth = h.accs[0].String()
	}
	m := &fxgovtypes.MsgUpdateStore{Authority: auth, UpdateStores: []fxgovtypes.UpdateStore{{
		Space: govtypes.StoreKey, Key: fmt.Sprintf("%x", cellKey(k)), OldValue: enc(old), Value: enc(new)}}}
	return pmsg{url: sdk.MsgTypeURL(m), wf: wf, ok: true, act: fmt.Sprintf("cas,%d,%d,%d", k, old, new), real: m, creditTo: -1}
}

func (h *H) msgSpend(fx64, other int64, to int, ok bool) pmsg {
	amt := sdk.NewCoins()
	fx := sdkmath.NewInt(fx64)
	if !ok { // more than exists: the handler fails when it runs
		fx, _ = sdkmath.NewIntFromString("1000000000000000000000000000000000000")
	}
	if fx.IsPositive() {
		amt = amt.Add(sdk.NewCoin(denom, fx))
	}
	if other > 0 {
		amt = amt.Add(sdk.NewInt64Coin(otherDenom, other))
	}
	m := &distrtypes.MsgCommunityPoolSpend{Authority: h.gov, Recipient: h.accs[to].String(), Amount: amt}
	// whether the handler succeeds is an environment fact (an empty amount is rejected, the pool must cover the rest):
	// ask the real handler on a discarded cache context
	cctx, _ := h.ctx().CacheContext()
	if _, err := h.s.App.MsgServiceRouter().Handler(m)(cctx, m); (err == nil) != ok {
		ok = err == nil
	}
	if amt.Empty() {
		// stored and decoded again, an empty amount is a nil slice, which the distribution handler rejects
		// ("amount cannot be nil") when the proposal is executed
		ok = false
	}
	return pmsg{url: sdk.MsgTypeURL(m), wf: true, ok: ok, act: fmt.Sprintf("credit,%s,%d,%d", fx, other, to), real: m,
		spendFx: fx, spendOther: other, isSpend: true, creditTo: to}
}

func (h *H) msgSetCustom(url string, remove bool, r *big.Int, period int64, q *big.Int) pmsg {
	m := &fxgovtypes.MsgUpdateCustomParams{Authority: h.gov, MsgUrl: url}
	act := "delc," + url
	wf := true // MsgUpdateCustomParams has no ValidateBasic: invalid parameters are only rejected when the handler runs
	if !remove {
		m.CustomParams = *fxgovtypes.NewCustomParams(decStr(r), time.Duration(period)*time.Second, decStr(q))
		act = fmt.Sprintf("setc,%s,%s,%d,%s", url, r, period, q)
	}
	return pmsg{url: sdk.MsgTypeURL(m), wf: wf, ok: true, act: act, real: m, creditTo: -1}
}

// msgGovDeposit: MsgDeposit whose depositor is the gov module account (its only signer is then the gov account, so the SDK's
// SubmitProposal accepts it as a proposal message) — round 4, fix 45d0bc2
func (h *H) msgGovDeposit(pid uint64, amt int64) pmsg {
	m := &v1.MsgDeposit{ProposalId: pid, Depositor: h.gov, Amount: coins(amt)}
	return pmsg{url: sdk.MsgTypeURL(m), wf: true, ok: true, act: fmt.Sprintf("govdep,%d,%d", pid, amt), real: m, creditTo: -1}
}

// msgGovSubmit: MsgSubmitProposal whose proposer is the gov module account (no messages of its own, metadata only)
func (h *H) msgGovSubmit(initial int64, expedited bool) pmsg {
	m := &v1.MsgSubmitProposal{InitialDeposit: coins(initial), Proposer: h.gov, Metadata: "m", Title: "t", Summary: "s", Expedited: expedited}
	return pmsg{url: sdk.MsgTypeURL(m), wf: true, ok: true, act: fmt.Sprintf("govsub,%d,%s", initial, b01(expedited)), real: m, creditTo: -1}
}

func (h *H) msgToggle(exists bool) pmsg {
	tok := denom
	if !exists {
		tok = "nosuchtoken"
	}
	m := &erc20types.MsgToggleTokenConversion{Authority: h.gov, Token: tok}
	// whether the handler succeeds is an environment fact: ask the real handler on a discarded cache context
	cctx, _ := h.ctx().CacheContext()
	_, err := h.s.App.MsgServiceRouter().Handler(m)(cctx, m)
	return pmsg{url: sdk.MsgTypeURL(m), wf: true, ok: err == nil, act: "noop", real: m, creditTo: -1}
}

// msgLegacy: a v1beta1 text proposal wrapped in MsgExecLegacyContent.  The proposal's message — and hence its message type —
// is the MsgExecLegacyContent; the wrapped content has a type url of its own.
func (h *H) msgLegacy(wf bool) pmsg {
	auth := h.gov
	if !wf {
		auth = h.accs[0].String()
	}
	content := v1beta1.NewTextProposal("t", "d")
	m, err := v1.NewLegacyContent(content, auth)
	if err != nil {
		h.t.Fatalf("NewLegacyContent: %v", err)
	}
	return pmsg{url: sdk.MsgTypeURL(m), inner: m.Content.TypeUrl, wf: wf, ok: true, act: "noop", real: m, creditTo: -1}
}

func (h *H) msgErc20Params() pmsg {
	m := &erc20types.MsgUpdateParams{Authority: h.gov, Params: erc20types.DefaultParams()}
	return pmsg{url: sdk.MsgTypeURL(m), wf: true, ok: true, act: "noop", real: m, creditTo: -1}
}

// ------------------------------------------------------------------------------------------------- sequence set-up

func newH(t *testing.T, out *hx.Out, rng *rand.Rand, nVal, nAcc int) *H {
	s := hx.NewSuite(t, nVal)
	h := &H{t: t, s: s, out: out, rng: rng, gov: authtypes.NewModuleAddress(govtypes.ModuleName).String(),
		idx: map[string]int{}, props: map[uint64][]pmsg{}, votes: map[uint64]map[int]bool{}}
	h.voter = map[string]int{}
	for i, v := range s.ValAddr {
		h.vals = append(h.vals, sdk.AccAddress(v))
		h.voter[sdk.AccAddress(v).String()] = 100 + i
	}
	for i := 0; i < nAcc; i++ {
		// every second account has an ethereum-style key (both kinds sign cosmos transactions on fx-core)
		var k cryptotypes.PrivKey = helpers.NewPriKey()
		if i%2 == 1 {
			k = helpers.NewEthPrivKey()
		}
		h.keys = append(h.keys, k)
		a := sdk.AccAddress(k.PubKey().Address())
		h.accs = append(h.accs, a)
		h.idx[a.String()] = i
		h.voter[a.String()] = i
	}
	if v, err := s.App.StakingKeeper.GetValidator(s.Ctx, s.ValAddr[0]); err == nil {
		h.bond = v.GetTokens()
	}
	// community pool: plenty of both denoms, from a funder outside the tracked accounts
	funder := helpers.GenAccAddress()
	pool := sdk.NewCoins(sdk.NewInt64Coin(denom, 1_000_000_000), sdk.NewInt64Coin(otherDenom, 1_000_000_000))
	s.MintToken(funder, pool...)
	if err := s.App.DistrKeeper.FundCommunityPool(s.Ctx, pool, funder); err != nil {
		t.Fatalf("fund community pool: %v", err)
	}
	// first block, then the sequence starts at t0
	h.t0 = time.Unix(1_700_000_000, 0).UTC()
	if err := h.commitAt(h.t0); err != nil {
		t.Fatalf("first commit: %v", err)
	}
	h.urls = []string{
		sdk.MsgTypeURL(&distrtypes.MsgCommunityPoolSpend{}), sdk.MsgTypeURL(&fxgovtypes.MsgUpdateStore{}),
		sdk.MsgTypeURL(&fxgovtypes.MsgUpdateCustomParams{}), sdk.MsgTypeURL(&erc20types.MsgToggleTokenConversion{}),
		sdk.MsgTypeURL(&erc20types.MsgUpdateParams{}),
		sdk.MsgTypeURL(&v1.MsgExecLegacyContent{}), "/" + proto.MessageName(&v1beta1.TextProposal{}),
	}
	return h
}

// start: `reset`, then bring the model to the app's genesis custom parameters by re-setting each of them through the
// real MsgUpdateCustomParams (and check the regenerated genesis table against the real store).
func (h *H) start(facts map[string]json.RawMessage) {
	h.out.Reset()
	sn := h.observe()
	var urls []string
	for u := range sn.custom {
		urls = append(urls, u)
	}
	sort.Strings(urls)
	if raw, ok := facts["C15.genesisCustom"]; ok {
		var rows []map[string]string
		_ = json.Unmarshal(raw, &rows)
		tbl := map[string]string{}
		for _, r := range rows {
			tbl[r["url"]] = r["ratio"] + "/" + r["period"] + "/" + r["quorum"]
		}
		for _, u := range urls {
			c := sn.custom[u]
			got := fmt.Sprintf("%s/%d/%s", scaled(c.DepositRatio), int64(*c.VotingPeriod/time.Second), scaled(c.Quorum))
			if tbl[u] != got {
				h.out.Violate(fmt.Sprintf("translator: genesis custom params of %s are %s in the store, %q in the regenerated table", u, got, tbl[u]))
			}
		}
		if len(tbl) != len(urls) {
			h.out.Violate(fmt.Sprintf("translator: regenerated genesis custom table has %d rows, the store %d", len(tbl), len(urls)))
		}
	}
	for _, u := range urls {
		c := sn.custom[u]
		h.out.Emit(fmt.Sprintf("gcustom %s %s %d %s", u, scaled(c.DepositRatio), int64(*c.VotingPeriod/time.Second), scaled(c.Quorum)), "ok")
	}
	// the genesis staking state (bonded validators, their delegations): from here on the model computes the numbers the
	// tallies read (delegations, slashes) and every `endblock` line is checked against the real staking keeper
	h.out.Emit(fmt.Sprintf("gstaking %s %s", h.s.App.StakingKeeper.PowerReduction(h.ctx()), strings.Join(h.stakingWords(), " ")), "ok")
}

func defaultParams() mparams {
	return mparams{minDep: 1000, expMin: 5000, maxDepP: 40, vp: 60, expVp: 20, quorum: frac(4, 10), minInit: big.NewInt(0),
		minDepRatio: big.NewInt(0), cancel: frac(1, 2), cancelDest: 0, burnVeto: true,
		thr: frac(1, 2), expThr: frac(667, 1000), vetoThr: frac(334, 1000)}
}

// ------------------------------------------------------------------------------------------------- directed scenarios

// scenario J: custom params for a type with a voting period different from the global one; an expedited proposal of
// that type fails the expedited tally; what is the new voting end?
func (h *H) scenarioExpedited(customPeriod int64) {
	h.opParams(defaultParams())
	for i := range h.accs {
		h.opMint(i, 1_000_000)
	}
	url := sdk.MsgTypeURL(&erc20types.MsgToggleTokenConversion{})
	h.opCustom(url, false, big.NewInt(0), customPeriod, frac(25, 100))
	h.opSubmit(0, true, 5000, []pmsg{h.msgToggle(true)})
	for v := range h.vals {
		h.opVote(1, 100+v, one("no"))
	}
	h.opEndBlock(customPeriod)
	h.opEndBlock(1) // expedited tally fails here: converted
	h.opEndBlock(60)
	h.opEndBlock(1)
	h.opEndBlock(1)
}

// scenario EGF: the community-pool-spend deposit rule at its boundaries, including requests in a non-deposit denom
func (h *H) scenarioEGF() {
	h.opParams(defaultParams())
	for i := range h.accs {
		h.opMint(i, 10_000_000)
	}
	egf := sdk.MsgTypeURL(&distrtypes.MsgCommunityPoolSpend{})
	h.opCustom(egf, false, frac(1, 10), 30, frac(4, 10))
	// share 10% of 20000 = 2000 > default 1000: boundary 1999 / 2000
	h.opSubmit(0, false, 1999, []pmsg{h.msgSpend(20000, 0, 1, true)})
	h.opDeposit(1, 1, 1)
	// share below default: default applies (999 / 1000)
	h.opSubmit(0, false, 999, []pmsg{h.msgSpend(5000, 0, 1, true)})
	h.opDeposit(2, 2, 1)
	// two spends are added up: 12000 + 8000
	h.opSubmit(1, false, 1999, []pmsg{h.msgSpend(12000, 0, 1, true), h.msgSpend(8000, 0, 2, true)})
	h.opDeposit(3, 1, 1)
	// rounding half to even: 10% of 10005 = 1000.5 -> 1000 ; of 10015 = 1001.5 -> 1002
	h.opSubmit(2, false, 1000, []pmsg{h.msgSpend(10005, 0, 1, true)})
	h.opSubmit(2, false, 1001, []pmsg{h.msgSpend(10015, 0, 1, true)})
	h.opDeposit(5, 2, 1)
	// request in a non-deposit denom, dust: share rounds to 0
	h.opSubmit(3, false, 1, []pmsg{h.msgSpend(0, 4, 1, true)})
	// request in a non-deposit denom, large: can never be reached with the deposit denom
	h.opSubmit(3, false, 3000, []pmsg{h.msgSpend(0, 50000, 1, true)})
	// mixed denoms
	h.opSubmit(3, false, 10, []pmsg{h.msgSpend(3, 3, 1, true)})
	h.opEndBlock(41)
	h.opEndBlock(1)
}

// scenario Legacy: custom parameters configured for the MsgExecLegacyContent type url and, separately, for the type url
// of the wrapped content; a legacy text proposal (regular and expedited) must get the period and quorum of ITS message
// type, the wrapper's.
func (h *H) scenarioLegacy() {
	h.opParams(defaultParams())
	for i := range h.accs {
		h.opMint(i, 1_000_000)
	}
	outer := sdk.MsgTypeURL(&v1.MsgExecLegacyContent{})
	inner := "/" + proto.MessageName(&v1beta1.TextProposal{})
	h.opCustom(outer, false, big.NewInt(0), 25, frac(3, 4))
	h.opCustom(inner, false, big.NewInt(0), 45, frac(1, 4))
	h.opSubmit(0, false, 1000, []pmsg{h.msgLegacy(true)})
	h.opSubmit(1, true, 5000, []pmsg{h.msgLegacy(true), h.msgLegacy(true)})
	h.opSubmit(2, false, 1000, []pmsg{h.msgLegacy(false)})
	// two of three validators: turnout 2/3 is below the wrapper's quorum 3/4 and above the content's 1/4
	for _, pid := range []uint64{1, 2} {
		h.opVote(pid, 100, one("yes"))
		h.opVote(pid, 101, one("yes"))
	}
	h.opEndBlock(25)
	h.opEndBlock(1)
	h.opCustom(outer, true, nil, 0, nil)
	h.opVote(2, 100, one("yes"))
	h.opVote(2, 101, one("yes"))
	h.opEndBlock(34)
	h.opEndBlock(1)
}

// scenario Tally: the decision sequence at its boundaries with four equal validators (bond B each), delegators that
// override their validator, a silent validator whose delegator votes, weighted votes, a slashed validator (quotients
// round), an expedited proposal that fails and is tallied again without its old votes.
func (h *H) scenarioTally(slash bool) {
	m := defaultParams()
	m.quorum, m.vetoThr = frac(1, 2), frac(1, 4)
	h.opParams(m)
	for i := range h.accs {
		h.opMint(i, 1_000_000)
	}
	if slash {
		h.slash(3, sdkmath.LegacyNewDecWithPrec(333333333333333333, 18))
	}
	h.stake(0, 0, h.bond)            // validator 0: 2B, half of it account 0's
	h.stake(1, 3, h.bond.QuoRaw(3))  // validator 3 (slashed or not): fractional shares
	tog := func() []pmsg { return []pmsg{h.msgToggle(true)} }
	for i := 0; i < 7; i++ {
		h.opSubmit(i%4, false, 1000, tog())
	}
	h.opSubmit(0, true, 5000, tog()) // 8: expedited
	// 1: turnout exactly the quorum (validators 1 and 2 of 5B+B/3… bonded) is not exact any more: use yes share instead
	// 1: yes share exactly the threshold 1/2 -> rejected (GT)
	h.opVote(1, 101, one("yes"))
	h.opVote(1, 102, one("no"))
	// 2: veto share exactly the veto threshold 1/4 -> not vetoed, passes
	h.opVote(2, 101, one("veto"))
	h.opVote(2, 102, one("yes"))
	h.opVote(2, 100, one("yes")) // 2B, of which B is overridden below
	h.opVote(2, 0, one("yes"))
	// 3: everyone abstains -> rejected, no burn; division by the non-abstaining power must not be reached
	h.opVote(3, 101, one("abstain"))
	h.opVote(3, 102, one("abstain"))
	h.opVote(3, 100, one("abstain"))
	// 4: the delegator overrides its validator: validator 0 yes (B left), account 0 no (B), validator 1 no
	h.opVote(4, 100, one("yes"))
	h.opVote(4, 0, one("no"))
	h.opVote(4, 101, []wopt{{"yes", third}, {"abstain", twoThirds}})
	// 5: a silent validator whose delegator votes: only the delegator's part counts; below the quorum
	h.opVote(5, 1, one("yes"))
	// 6: weighted votes on the slashed validator and its delegator
	h.opVote(6, 103, []wopt{{"yes", third}, {"no", twoThirds}})
	h.opVote(6, 1, []wopt{{"abstain", restDust}, {"yes", dust}})
	h.opVote(6, 101, one("yes"))
	h.opVote(6, 102, []wopt{{"yes", frac(7, 10)}, {"no", frac(3, 10)}})
	// 7: a vote that is replaced
	h.opVote(7, 101, one("no"))
	h.opVote(7, 101, one("yes"))
	h.opVote(7, 102, one("yes"))
	h.opVote(7, 100, one("yes"))
	// 8: expedited: yes share 3/5+… below 2/3 -> converted, votes gone; second tally without votes fails the quorum
	h.opVote(8, 100, one("yes"))
	h.opVote(8, 101, one("yes"))
	h.opVote(8, 102, one("no"))
	h.opVote(8, 103, one("no"))
	// malformed votes
	h.opVote(7, 103, []wopt{{"yes", frac(1, 2)}, {"yes", frac(1, 2)}})
	h.opVote(7, 103, []wopt{{"yes", frac(6, 10)}, {"no", frac(3, 10)}})
	h.opVote(99, 103, one("yes"))
	h.opEndBlock(20)
	h.opEndBlock(1) // expedited tally
	h.opVote(8, 103, one("yes")) // the converted proposal can be voted on again
	h.opEndBlock(39)
	h.opEndBlock(1) // regular tallies
	h.opEndBlock(1)
}

// ------------------------------------------------------------------------------------------------- random sequences

func (h *H) randomParams(allowInvalid bool) mparams {
	r := h.rng
	m := defaultParams()
	m.minDep = hx.Pick(r, []int64{1000, 2000, 1})
	m.expMin = m.minDep * hx.Pick(r, []int64{2, 5})
	m.maxDepP = hx.Pick(r, []int64{15, 40})
	m.vp = hx.Pick(r, []int64{30, 60})
	m.expVp = hx.Pick(r, []int64{10, 20})
	m.quorum = hx.Pick(r, []*big.Int{frac(4, 10), frac(1, 2), frac(1, 4), frac(334, 1000), big.NewInt(0), frac(1, 1)})
	m.minInit = hx.Pick(r, []*big.Int{big.NewInt(0), big.NewInt(0), frac(1, 10), frac(1, 4)})
	m.minDepRatio = hx.Pick(r, []*big.Int{big.NewInt(0), big.NewInt(0), frac(1, 100), frac(1, 10)})
	m.cancel = hx.Pick(r, []*big.Int{big.NewInt(0), frac(1, 2), frac(1, 1), frac(1, 3)})
	m.cancelDest = r.Intn(2 + len(h.accs))
	m.burnPrevote, m.burnQuorum, m.burnVeto = r.Intn(3) == 0, r.Intn(2) == 0, r.Intn(2) == 0
	// thresholds on the fractions that k of n equal validators produce, and the usual ones
	switch r.Intn(4) {
	case 0:
		m.thr, m.expThr = frac(1, 3), frac(1, 2)
	case 1:
		m.thr, m.expThr = frac(1, 2), frac(2, 3) // 0.666666666666666666
	case 2:
		m.thr, m.expThr = frac(1, 2), frac(3, 4)
	}
	m.vetoThr = hx.Pick(r, []*big.Int{frac(334, 1000), frac(1, 3), frac(1, 2), frac(1, 4)})
	if allowInvalid && r.Intn(8) == 0 {
		m.expThr = m.thr // invalid: rejected by ValidateBasic
	}
	return m
}

func (h *H) randomCustom() (remove bool, ratio *big.Int, period int64, q *big.Int) {
	r := h.rng
	nv := int64(len(h.vals))
	k := int64(r.Intn(int(nv) + 1))
	q = frac(k, nv) // exactly the turnout of k equal validators…
	if r.Intn(2) == 0 {
		q = h.quorumAt(r.Intn(int(nv)), int(k)) // …or of k of the validators as they are now (after delegations, slashes)
	}
	switch r.Intn(4) {
	case 0:
		q = new(big.Int).Add(q, big.NewInt(1)) // …or one unit above
	case 1:
		if q.Sign() > 0 {
			q = new(big.Int).Sub(q, big.NewInt(1))
		}
	}
	if q.Cmp(dec18) > 0 {
		q = new(big.Int).Set(dec18)
	}
	return r.Intn(5) == 0, hx.Pick(r, []*big.Int{big.NewInt(0), frac(1, 10), frac(1, 2), frac(1, 1), frac(1, 3)}),
		hx.Pick(r, []int64{5, 10, 25, 45, 70}), q
}

var (
	third     = frac(1, 3)                                  // 0.333333333333333333
	twoThirds = new(big.Int).Sub(dec18, frac(1, 3))         // 0.666666666666666667
	dust      = big.NewInt(1)                               // 10^-18
	restDust  = new(big.Int).Sub(dec18, big.NewInt(1))
)

// randomOpts: mostly valid (single options, splits whose weights force the LegacyDec roundings), some malformed
func (h *H) randomOpts() []wopt {
	r := h.rng
	switch r.Intn(16) {
	case 0, 1, 2, 3, 4, 5:
		return one("yes")
	case 6:
		return one("no")
	case 7:
		return one("abstain")
	case 8:
		return one("veto")
	case 9:
		return []wopt{{"yes", frac(7, 10)}, {"no", frac(3, 10)}}
	case 10:
		return []wopt{{"yes", third}, {"abstain", twoThirds}}
	case 11:
		return []wopt{{"veto", frac(1, 2)}, {"yes", frac(1, 2)}}
	case 12:
		return []wopt{{"yes", frac(1, 4)}, {"no", frac(1, 4)}, {"abstain", frac(1, 4)}, {"veto", frac(1, 4)}}
	case 13:
		return []wopt{{"abstain", restDust}, {"yes", dust}}
	case 14:
		return []wopt{{"no", twoThirds}, {"yes", third}}
	}
	switch r.Intn(4) { // malformed
	case 0:
		return []wopt{{"yes", frac(1, 2)}, {"yes", frac(1, 2)}}
	case 1:
		return []wopt{{"yes", frac(6, 10)}, {"no", frac(3, 10)}}
	case 2:
		return []wopt{{"yes", frac(6, 10)}, {"no", frac(5, 10)}}
	}
	return []wopt{{"yes", new(big.Int).Set(dec18)}, {"no", big.NewInt(0)}}
}

// slash: a validator loses a fraction of its tokens (its delegator shares stay), so that shares and tokens are no longer
// one to one and the voting-power quotients round
func (h *H) slash(val int, factor sdkmath.LegacyDec) {
	ctx := h.ctx()
	sk := h.s.App.StakingKeeper
	v, err := sk.GetValidator(ctx, sdk.ValAddress(h.vals[val]))
	if err != nil {
		return
	}
	cons, err := v.GetConsAddr()
	if err != nil {
		return
	}
	var serr error
	if res := hx.Try(func() error {
		_, serr = sk.Slash(ctx, cons, ctx.BlockHeight(), v.GetConsensusPower(sk.PowerReduction(ctx)), factor)
		return nil
	}); res == "ok" && serr == nil {
		h.out.Count("env:slash")
		// an op of the staking model: tokens burnt = trunc(power·reduction · factor), shares untouched
		h.out.Emit(fmt.Sprintf("slash %d %s", 100+val, factor.BigInt()), "ok "+h.observe().line)
	}
}

// stake: account `who` gets `n` extra coins and delegates them to validator `val`
func (h *H) stake(who, val int, n sdkmath.Int) {
	if !n.IsPositive() || !n.IsInt64() && n.BigInt().BitLen() > 200 {
		return
	}
	before := h.observe()
	h.s.MintToken(h.accs[who], sdk.NewCoin(denom, n))
	h.emit(fmt.Sprintf("mint %d %s", who, n), before, nil, -1, 0, nil)
	h.opDelegate(who, val, n)
}

func (h *H) randomStakeAmount() sdkmath.Int {
	r := h.rng
	b := h.bond
	return hx.Pick(r, []sdkmath.Int{b, b.QuoRaw(2), b.QuoRaw(3), b.QuoRaw(10), sdkmath.NewInt(1), sdkmath.NewInt(7), b.MulRaw(2), b.QuoRaw(3).AddRaw(1)})
}

// quorumAt: the turnout obtained when exactly the validators first..first+n-1 vote (their delegators inheriting), so
// that a custom quorum can sit exactly on, one unit above or one unit below an attainable turnout
func (h *H) quorumAt(first, n int) *big.Int {
	ctx := h.ctx()
	sk := h.s.App.StakingKeeper
	bonded, _ := sk.TotalBondedTokens(ctx)
	if bonded.IsZero() {
		return big.NewInt(0)
	}
	sum := sdkmath.LegacyZeroDec()
	for j := 0; j < n; j++ {
		if v, err := sk.GetValidator(ctx, sdk.ValAddress(h.vals[(first+j)%len(h.vals)])); err == nil {
			sum = sum.Add(v.GetDelegatorShares().MulInt(v.GetBondedTokens()).Quo(v.GetDelegatorShares()))
		}
	}
	return sum.Quo(sdkmath.LegacyNewDecFromInt(bonded)).BigInt()
}

func (h *H) randomMsgs() []pmsg {
	r := h.rng
	n := 1 + r.Intn(3)
	if r.Intn(10) == 0 {
		n = 0
	}
	var ms []pmsg
	switch r.Intn(8) {
	case 7: // a message that deposits FROM the gov module account: MsgDeposit on an open proposal, or MsgSubmitProposal
		sn := h.observe()
		for i := 0; i < n; i++ {
			if r.Intn(3) == 0 {
				ms = append(ms, h.msgGovSubmit(hx.Pick(r, []int64{0, 1, 5, 1000}), r.Intn(4) == 0))
				continue
			}
			pid := uint64(1 + r.Intn(4))
			if ids := h.openIDs(sn, ""); len(ids) > 0 && r.Intn(4) != 0 {
				pid = hx.Pick(r, ids)
			}
			ms = append(ms, h.msgGovDeposit(pid, hx.Pick(r, []int64{0, 1, 5, 100, 1000})))
		}
		for i := range ms { // one type
			if ms[i].url != ms[0].url {
				ms[i] = ms[0]
			}
		}
	case 6: // legacy content: the message type is MsgExecLegacyContent, whatever it wraps
		for i := 0; i < n; i++ {
			ms = append(ms, h.msgLegacy(r.Intn(12) != 0))
		}
	case 0, 1: // community pool spend
		for i := 0; i < n; i++ {
			fx := hx.Pick(r, []int64{0, 3, 4, 5, 9990, 9995, 10000, 10005, 10015, 20000, 50000})
			other := int64(0)
			if r.Intn(4) == 0 {
				other = hx.Pick(r, []int64{1, 4, 5, 6, 100000})
			}
			ok := true
			if r.Intn(5) == 0 {
				ok = false // more than the pool holds
			}
			if fx == 0 && other == 0 && r.Intn(2) == 0 {
				fx = 7
			}
			ms = append(ms, h.msgSpend(fx, other, r.Intn(len(h.accs)), ok))
		}
	case 2, 3: // raw store compare-and-set chain; may fail midway
		sn := h.observe()
		for i := 0; i < n; i++ {
			k := r.Intn(nCells)
			old := sn.cells[k]
			if r.Intn(4) == 0 {
				old = r.Intn(3)
			}
			ms = append(ms, h.msgCas(k, old, 1+r.Intn(5), r.Intn(12) != 0))
		}
	case 4:
		for i := 0; i < n; i++ {
			remove, ratio, period, q := h.randomCustom()
			if r.Intn(8) == 0 {
				period = 0 // invalid: rejected at submission by ValidateBasic
			}
			ms = append(ms, h.msgSetCustom(hx.Pick(r, h.urls), remove, ratio, period, q))
		}
	default:
		for i := 0; i < n; i++ {
			if r.Intn(2) == 0 {
				ms = append(ms, h.msgToggle(r.Intn(4) != 0))
			} else {
				ms = append(ms, h.msgErc20Params())
			}
		}
		// keep one type (the submission is rejected otherwise; the malformed stream below mixes on purpose)
		for i := range ms {
			if ms[i].url != ms[0].url {
				ms[i] = ms[0]
			}
		}
	}
	if len(ms) >= 2 && r.Intn(12) == 0 { // malformed: mixed types
		ms[len(ms)-1] = h.msgErc20Params()
		if ms[0].url == ms[len(ms)-1].url {
			ms[len(ms)-1] = h.msgCas(0, 0, 1, true)
		}
	}
	return ms
}

func (h *H) openIDs(sn snap, status string) []uint64 {
	var ids []uint64
	for id, p := range sn.props {
		if status == "" && open(p.status) || p.status == status {
			ids = append(ids, id)
		}
	}
	sort.Slice(ids, func(i, j int) bool { return ids[i] < ids[j] })
	return ids
}

func (h *H) randomSequence(nOps int) {
	r := h.rng
	h.opParams(h.randomParams(false))
	for i := range h.accs {
		h.opMint(i, hx.Pick(r, []int64{1_000_000, 1_000_000, 30_000, 2_000}))
	}
	// staking environment: sometimes a slashed validator (before and/or after the delegations), delegators
	if r.Intn(3) == 0 {
		h.slash(r.Intn(len(h.vals)), hx.Pick(r, []sdkmath.LegacyDec{sdkmath.LegacyNewDecWithPrec(333333333333333333, 18), sdkmath.LegacyNewDecWithPrec(7, 2), sdkmath.LegacyNewDecWithPrec(5, 1)}))
	}
	delegated := map[[2]int]bool{}
	for i := range h.accs {
		for k := r.Intn(3); k > 0; k-- {
			val := r.Intn(len(h.vals))
			if !delegated[[2]int{i, val}] {
				delegated[[2]int{i, val}] = true
				h.stake(i, val, h.randomStakeAmount())
			}
		}
	}
	if r.Intn(4) == 0 {
		h.slash(r.Intn(len(h.vals)), hx.Pick(r, []sdkmath.LegacyDec{sdkmath.LegacyNewDecWithPrec(1, 1), sdkmath.LegacyNewDecWithPrec(333333333333333333, 18)}))
	}
	for i := 0; i < nOps && !h.halted; i++ {
		sn := h.observe()
		x := r.Intn(100)
		switch {
		case x < 20:
			exp := r.Intn(3) == 0
			min := sdk.NewCoins(sn.params.MinDeposit...).AmountOf(denom).Int64()
			if exp {
				min = sdk.NewCoins(sn.params.ExpeditedMinDeposit...).AmountOf(denom).Int64()
			}
			initial := hx.Pick(r, []int64{0, 1, min / 10, min / 4, min - 1, min - 1, min, min, min + 1, 2 * min, 2 * min, 3_000_000})
			h.opSubmit(r.Intn(len(h.accs)), exp, initial, h.randomMsgs())
		case x < 42:
			ids := h.openIDs(sn, "")
			pid := uint64(1 + r.Intn(4))
			if len(ids) > 0 && r.Intn(15) != 0 {
				pid = hx.Pick(r, ids)
			}
			amt := hx.Pick(r, []int64{1, 10, 100, 500, 0, 5_000_000})
			if p, ok := sn.props[pid]; ok && p.status == "deposit" {
				need := int64(1)
				if d := h.specMin(sn, pid, p.exp).Sub(p.total); d.IsInt64() {
					need = d.Int64()
				}
				amt = hx.Pick(r, []int64{need - 1, need, need + 1, need / 2, 1, amt})
				if amt < 0 {
					amt = 1
				}
			}
			if r.Intn(12) == 0 { // the same deposit with a non-deposit denomination in its coins
				h.opDepositX(pid, r.Intn(len(h.accs)), amt, hx.Pick(r, []int64{1, 1000}))
			} else {
				h.opDeposit(pid, r.Intn(len(h.accs)), amt)
			}
		case x < 62:
			ids := h.openIDs(sn, "voting")
			pid := uint64(1 + r.Intn(4))
			if len(ids) > 0 && r.Intn(10) != 0 {
				pid = hx.Pick(r, ids)
			}
			// a burst of votes: the voters decide the turnout, the options the outcome; delegators that vote override
			// the validator they delegated to for their part
			nv := 1 + r.Intn(len(h.vals))
			first := r.Intn(len(h.vals))
			for j := 0; j < nv; j++ {
				h.opVote(pid, 100+(first+j)%len(h.vals), h.randomOpts())
			}
			for a := range h.accs {
				if r.Intn(3) == 0 {
					h.opVote(pid, a, h.randomOpts())
				}
			}
		case x < 82:
			dt := hx.Pick(r, []int64{1, 2, 5, 10, 20, 30})
			if r.Intn(3) == 0 { // land exactly on, or one second before / after, the next queue time
				now := int64(h.ctx().BlockTime().Sub(h.t0) / time.Second)
				best := int64(-1)
				for _, p := range sn.props {
					for _, t := range []*time.Time{p.dEnd, p.vEnd} {
						if t == nil || !open(p.status) {
							continue
						}
						if d := int64(t.Sub(h.t0)/time.Second) - now; d > 1 && (best < 0 || d < best) {
							best = d
						}
					}
				}
				if best > 1 {
					dt = best + hx.Pick(r, []int64{-1, 0, 0, 1})
				}
			}
			if r.Intn(5) == 0 {
				h.randomTxBlock(sn, dt)
			} else {
				h.opEndBlock(dt)
			}
		case x < 92:
			remove, ratio, period, q := h.randomCustom()
			h.opCustom(hx.Pick(r, h.urls), remove, ratio, period, q)
		case x < 94: // a new delegation while proposals are open (each pair at most once: a second one would pay out rewards)
			who, val := r.Intn(len(h.accs)), r.Intn(len(h.vals))
			if !delegated[[2]int{who, val}] {
				delegated[[2]int{who, val}] = true
				if r.Intn(6) == 0 {
					h.opDelegate(who, val, sdkmath.NewInt(5_000_000)) // usually more than the account holds
				} else {
					h.stake(who, val, h.randomStakeAmount())
				}
			}
		case x < 97:
			h.opParams(h.randomParams(true))
		default:
			ids := h.openIDs(sn, "")
			pid := uint64(1 + r.Intn(4))
			if len(ids) > 0 {
				pid = hx.Pick(r, ids)
			}
			who := r.Intn(len(h.accs))
			if ms, ok := h.props[pid]; ok && r.Intn(5) != 0 {
				_ = ms
				if p, err := h.s.App.GovKeeper.Proposals.Get(h.ctx(), pid); err == nil {
					if a, err := sdk.AccAddressFromBech32(p.Proposer); err == nil {
						who = h.idx[a.String()]
					}
				}
			}
			h.opCancel(pid, who)
		}
	}
	// drain: let every open proposal end
	for i := 0; i < 6 && !h.halted; i++ {
		h.opEndBlock(40)
	}
	sn := h.observe()
	if len(h.openIDs(sn, "")) == 0 {
		h.out.Nontrivial("drained")
		if !sn.govAll.IsZero() {
			h.out.Violate(fmt.Sprintf("all proposals ended but the gov module account still holds %s", sn.govAll))
		}
	}
}

// ------------------------------------------------------------------------------------------------- test

func TestC15(t *testing.T) {
	seed := hx.Seed()
	rng := rand.New(rand.NewSource(seed))
	out := hx.NewOut()
	defer out.Close("correspondence: every op of directed scenarios (expedited->regular with a per-type period, EGF deposit rule boundaries incl. non-deposit denoms and sums over several spends, legacy-content proposals with custom parameters for the wrapper and for the wrapped content, the tally decision sequence at its boundaries with delegators overriding validators, weighted votes and a slashed validator) and of random sequences (submit / deposit / vote and weighted vote by validators and delegators / delegate / cancel / custom-parameter churn / parameter changes incl. thresholds / blocks with the real EndBlocker, slashed validators) compared line by line with the Lean model, which computes the tallies itself from the stored votes and the block's staking numbers; monitors on real state: module balance = Σ open deposits, settled exactly once, activation ⇒ minimum deposit (and the converse), period and quorum by message type, queue consistency, every period ends at its end time, per-option counts = what the votes and stakes give (each staked token once), counted votes removed, votes only for proposals in their voting period, single type, all-or-nothing execution stated directly (passed ⇔ every message succeeds in order; failure at first / middle / last message), end-blocker never halts. non-trivial = distinct (op kind, result) and decisive tallies")

	facts := map[string]json.RawMessage{}
	if fp := os.Getenv("VERIF_FACTS"); fp != "" {
		if bz, err := os.ReadFile(fp); err == nil {
			_ = json.Unmarshal(bz, &facts)
		}
	}

	// registry: no two routed message type urls are equal under case folding (so EqualFold = equality on real messages)
	{
		s := hx.NewSuite(t, 1)
		urls := s.App.InterfaceRegistry().ListImplementations(sdk.MsgInterfaceProtoName)
		seen := map[string]string{}
		for _, u := range urls {
			l := strings.ToLower(u)
			if o, ok := seen[l]; ok && o != u {
				out.Violate("two registered message type urls differ only by case: " + o + " / " + u)
			}
			seen[l] = u
		}
		var egf string
		_ = json.Unmarshal(facts["C15.egfUrl"], &egf)
		if len(facts) > 0 && egf != sdk.MsgTypeURL(&distrtypes.MsgCommunityPoolSpend{}) {
			out.Violate("translator: extracted EGF type url " + egf + " is not the url of MsgCommunityPoolSpend")
		}
	}

	for _, cp := range []int64{25, 90} {
		h := newH(t, out, rng, 3, 4)
		h.start(facts)
		h.scenarioExpedited(cp)
		h.genesisRoundTrip()
	}
	{
		h := newH(t, out, rng, 3, 4)
		h.start(facts)
		h.scenarioEGF()
		h.genesisRoundTrip()
	}
	{
		h := newH(t, out, rng, 3, 4)
		h.start(facts)
		h.scenarioLegacy()
		h.genesisRoundTrip()
	}
	for _, sl := range []bool{false, true} {
		h := newH(t, out, rng, 4, 4)
		h.start(facts)
		h.scenarioTally(sl)
		h.genesisRoundTrip()
	}
	{
		h := newH(t, out, rng, 3, 4)
		h.start(facts)
		h.scenarioTx()
		h.genesisRoundTrip()
	}
	for i, c := range [][2]int64{{0, 1}, {1, 1}, {1, 3}} {
		h := newH(t, out, rng, 3, 4)
		h.start(facts)
		h.scenarioCancel(c, []int{0, 1, 5}[i])
		h.genesisRoundTrip()
	}
	{
		h := newH(t, out, rng, 3, 4)
		h.start(facts)
		h.scenarioMidFlight()
		h.genesisRoundTrip()
	}
	{
		h := newH(t, out, rng, 3, 4)
		h.start(facts)
		h.scenarioSameBlock()
		h.genesisRoundTrip()
	}
	{
		h := newH(t, out, rng, 3, 4)
		h.start(facts)
		h.scenarioGovDeposit()
		h.genesisRoundTrip()
	}
	nSeq := hx.N(240, 1500)
	for i := 0; i < nSeq; i++ {
		h := newH(t, out, rng, 2+rng.Intn(4), 4)
		h.start(facts)
		h.randomSequence(40 + rng.Intn(40))
		h.genesisRoundTrip()
	}
	for k, v := range out.Stats.Hist {
		if v > 0 {
			out.Nontrivial(k)
		}
	}
}
