package c10

// C10 correspondence + monitors on the real app:
//   op   : disp <kind> <method> <0x-methodId> <writer 0/1> <disabled entries, comma separated | ->
//   impl : ran | blocked:readonly | blocked:disabled      (from the error the precompile frame returned, traced)
//   model: the Lean dispatcher `run` over the regenerated tables.
// Monitors: (1) a blocked call leaves every Cosmos store unchanged; (2) a governance entry equal (in any letter case) to
// the precompile address or address/methodId blocks the call (set through the REAL MsgUpdateSwitchParams handler);
// (3) STATICCALL / DELEGATECALL / CALLCODE into a state-changing method changes nothing; (4) portfolios of non-callers
// (balance + rewards, shares, allowances granted, queued withdrawals) are never reduced by a call of somebody else,
// except transferFromShares within the allowance, which drops by exactly the moved shares; (5) a contract entered through
// STATICCALL that CALLs a state-changing method must not change state (inherited static context).

import (
	"encoding/hex"
	"fmt"
	"math/big"
	"math/rand"
	"sort"
	"strings"
	"testing"

	sdkmath "cosmossdk.io/math"
	sdk "github.com/cosmos/cosmos-sdk/types"
	authtypes "github.com/cosmos/cosmos-sdk/x/auth/types"
	distrkeeper "github.com/cosmos/cosmos-sdk/x/distribution/keeper"
	distrtypes "github.com/cosmos/cosmos-sdk/x/distribution/types"
	govtypes "github.com/cosmos/cosmos-sdk/x/gov/types"
	stakingtypes "github.com/cosmos/cosmos-sdk/x/staking/types"
	"github.com/ethereum/go-ethereum/common"
	evmtypes "github.com/evmos/ethermint/x/evm/types"

	"github.com/functionx/fx-core/v8/testutil/helpers"
	fxtypes "github.com/functionx/fx-core/v8/types"
	crosschaintypes "github.com/functionx/fx-core/v8/x/crosschain/types"
	ethtypes "github.com/functionx/fx-core/v8/x/eth/types"
	fxgovtypes "github.com/functionx/fx-core/v8/x/gov/types"
	fxstakingtypes "github.com/functionx/fx-core/v8/x/staking/types"

	"fxverif/harness/evmx"
	"fxverif/harness/hx"
)

type env struct {
	s        *hx.Suite
	signer   *helpers.Signer
	victim   *helpers.Signer
	x, y     common.Address // contracts: x calls the precompile (or y); y is the nested frame
	vals     []string
	staking  common.Address
	cross    common.Address
	xTx, vTx []uint64 // queued withdrawals of x and of the victim
}

var cosmosStores = []string{"bank", "staking", "distribution", "eth", "erc20", "slashing", "mint", "bsc", "tron", "transfer", "crosschain"}

func (e *env) dump(ctx sdk.Context) map[string]string {
	res := map[string]string{}
	keys := e.s.App.GetKVStoreKey()
	for _, n := range cosmosStores {
		if k, ok := keys[n]; ok {
			d, _ := hx.DumpStore(ctx, k)
			res[n] = d
		}
	}
	return res
}

func setup(t *testing.T) *env {
	s := hx.NewSuite(t, 2)
	e := &env{s: s, staking: fxstakingtypes.GetAddress(), cross: crosschaintypes.GetAddress()}
	e.signer = s.AddTestSigner(100_000)
	e.victim = s.AddTestSigner(100_000)
	e.x = common.BytesToAddress([]byte{0xC1, 0x0A, 0, 0, 0, 0, 0, 0, 0, 0, 0, 0, 0, 0, 0, 0, 0, 0, 0, 1})
	e.y = common.BytesToAddress([]byte{0xC1, 0x0A, 0, 0, 0, 0, 0, 0, 0, 0, 0, 0, 0, 0, 0, 0, 0, 0, 0, 2})
	for _, v := range s.ValAddr {
		e.vals = append(e.vals, v.String())
	}
	big18 := func(n int64) sdkmath.Int { return sdkmath.NewInt(n).Mul(sdkmath.NewInt(1e18)) }
	delegate := func(who sdk.AccAddress, val sdk.ValAddress, amt sdkmath.Int) {
		v, err := s.App.StakingKeeper.GetValidator(s.Ctx, val)
		if err != nil {
			t.Fatal(err)
		}
		if _, err := s.App.StakingKeeper.Delegate(s.Ctx, who, amt, stakingtypes.Unbonded, v, true); err != nil {
			t.Fatal(err)
		}
	}
	bridgeDenom := crosschaintypes.NewBridgeDenom(ethtypes.ModuleName, helpers.GenExternalAddr(ethtypes.ModuleName))
	s.App.EthKeeper.AddBridgeToken(s.Ctx, bridgeDenom, fxtypes.DefaultDenom)
	s.App.EthKeeper.AddBridgeToken(s.Ctx, fxtypes.DefaultDenom, bridgeDenom)
	s.App.EthKeeper.SetLastObservedBlockHeight(s.Ctx, 1000, uint64(s.Ctx.BlockHeight()))
	for _, a := range []common.Address{e.x, e.y} {
		s.MintToken(a.Bytes(), sdk.NewCoin(fxtypes.DefaultDenom, big18(1_000_000)))
		delegate(a.Bytes(), s.ValAddr[0], big18(1000))
		delegate(a.Bytes(), s.ValAddr[1], big18(1000))
	}
	delegate(e.victim.AccAddress(), s.ValAddr[0], big18(5000))
	pool := func(who sdk.AccAddress) uint64 {
		id, err := s.App.EthKeeper.AddToOutgoingPool(s.Ctx, who, helpers.GenExternalAddr(ethtypes.ModuleName),
			sdk.NewCoin(fxtypes.DefaultDenom, sdkmath.NewInt(1000)), sdk.NewCoin(fxtypes.DefaultDenom, sdkmath.NewInt(10)))
		if err != nil {
			t.Fatal(err)
		}
		return id
	}
	e.xTx = []uint64{pool(e.x.Bytes()), pool(e.x.Bytes())}
	e.vTx = []uint64{pool(e.victim.AccAddress()), pool(e.victim.AccAddress())}
	s.Commit()
	s.Commit()
	return e
}

type portfolio struct {
	funds  *big.Int // balance + pending rewards
	shares *big.Int
	allowX *big.Int
	allowY *big.Int
	pool   map[uint64]string // id -> sender|amount+fee
}

func (e *env) portfolioOf(ctx sdk.Context, who common.Address) portfolio {
	cctx, _ := ctx.CacheContext()
	app := e.s.App
	p := portfolio{pool: map[uint64]string{}}
	p.funds = app.BankKeeper.GetBalance(cctx, who.Bytes(), fxtypes.DefaultDenom).Amount.BigInt()
	p.shares = new(big.Int)
	if d, err := app.StakingKeeper.GetDelegation(cctx, who.Bytes(), e.s.ValAddr[0]); err == nil {
		p.shares = d.Shares.TruncateInt().BigInt()
		q := distrkeeper.NewQuerier(app.DistrKeeper)
		if r, err := q.DelegationRewards(cctx, &distrtypes.QueryDelegationRewardsRequest{DelegatorAddress: sdk.AccAddress(who.Bytes()).String(), ValidatorAddress: e.vals[0]}); err == nil {
			p.funds = new(big.Int).Add(p.funds, r.Rewards.AmountOf(fxtypes.DefaultDenom).TruncateInt().BigInt())
		}
	}
	p.allowX = app.StakingKeeper.GetAllowance(cctx, e.s.ValAddr[0], who.Bytes(), e.x.Bytes())
	p.allowY = app.StakingKeeper.GetAllowance(cctx, e.s.ValAddr[0], who.Bytes(), e.y.Bytes())
	for _, tx := range app.EthKeeper.GetUnbatchedTransactions(cctx) {
		if tx.Sender == sdk.AccAddress(who.Bytes()).String() {
			p.pool[tx.Id] = tx.Token.Amount.Add(tx.Fee.Amount).String()
		}
	}
	return p
}

type callSpec struct {
	method string
	to     common.Address
	data   []byte
	value  *big.Int
	writer bool
	moved  *big.Int // shares moved from the victim (transferFromShares)
}

func (e *env) calls(rng *rand.Rand, victim common.Address) []callSpec {
	sabi, cabi := fxstakingtypes.GetABI(), crosschaintypes.GetABI()
	v0, v1 := e.vals[0], e.vals[1]
	amt := func(k int64) *big.Int { return new(big.Int).Mul(big.NewInt(k+int64(rng.Intn(50))), big.NewInt(1e15)) }
	mk := func(to common.Address, writer bool, value *big.Int, m string, args ...interface{}) callSpec {
		ab := sabi
		if to == e.cross {
			ab = cabi
		}
		d, err := ab.Pack(m, args...)
		if err != nil {
			panic(err)
		}
		return callSpec{method: m, to: to, data: d, value: value, writer: writer}
	}
	ext := helpers.GenExternalAddr(ethtypes.ModuleName)
	tfs := amt(10)
	list := []callSpec{
		mk(e.staking, true, nil, "delegateV2", v0, amt(1000)),
		mk(e.staking, true, nil, "undelegateV2", v0, amt(10)),
		mk(e.staking, true, nil, "redelegateV2", v0, v1, amt(10)),
		mk(e.staking, true, nil, "withdraw", v0),
		mk(e.staking, true, nil, "approveShares", v0, victim, amt(5)),
		mk(e.staking, true, nil, "transferShares", v0, victim, amt(10)),
		mk(e.staking, true, nil, "transferFromShares", v0, victim, e.x, tfs),
		mk(e.staking, true, nil, "transferFromShares", v0, victim, victim, tfs),
		mk(e.staking, false, nil, "delegation", v0, victim),
		mk(e.staking, false, nil, "allowanceShares", v0, victim, e.x),
		mk(e.cross, true, big.NewInt(1010), "crossChain", common.Address{}, ext, big.NewInt(1000), big.NewInt(10), fxtypes.MustStrToByte32(ethtypes.ModuleName), ""),
		mk(e.cross, true, nil, "cancelSendToExternal", ethtypes.ModuleName, new(big.Int).SetUint64(e.vTx[0])), // somebody else's withdrawal
		mk(e.cross, true, nil, "cancelSendToExternal", ethtypes.ModuleName, new(big.Int).SetUint64(e.xTx[0])),
		mk(e.cross, true, big.NewInt(7), "increaseBridgeFee", ethtypes.ModuleName, new(big.Int).SetUint64(e.vTx[1]), common.Address{}, big.NewInt(7)),
		mk(e.cross, true, big.NewInt(7), "increaseBridgeFee", ethtypes.ModuleName, new(big.Int).SetUint64(e.xTx[1]), common.Address{}, big.NewInt(7)),
		mk(e.cross, true, big.NewInt(2000), "bridgeCall", ethtypes.ModuleName, victim, []common.Address{}, []*big.Int{}, victim, []byte{1}, big.NewInt(0), []byte{}),
		mk(e.cross, true, nil, "executeClaim", ethtypes.ModuleName, big.NewInt(424242)),
		mk(e.cross, false, nil, "hasOracle", ethtypes.ModuleName, victim),
	}
	list[6].moved, list[7].moved = tfs, tfs
	return list
}

func errKind(s string) string {
	switch {
	case s == "":
		return "ran"
	case strings.Contains(s, "write protection"):
		return "blocked:readonly"
	case strings.Contains(s, "is disabled"):
		return "blocked:disabled"
	default:
		return "ran" // dispatched; the method itself returned an error
	}
}

func TestC10(t *testing.T) {
	rng := rand.New(rand.NewSource(hx.Seed()))
	out := hx.NewOut()
	defer out.Close("every method of both precompiles (12 state-changing incl. third-party-argument variants, 4 views) x CALL/STATICCALL/DELEGATECALL/CALLCODE x governance switch settings set through the real MsgUpdateSwitchParams handler (none, address lower/upper/mixed, address/methodId lower/upper, other method, other address, near misses) x allowance 0/small/large; nested STATICCALL->CALL; portfolios of the third party before/after. non-trivial = distinct (method, kind, switch class, outcome)")
	e := setup(t)
	app := e.s.App
	gov := authtypes.NewModuleAddress(govtypes.ModuleName).String()
	victim := e.victim.Address()
	warm := []common.Address{e.staking, e.cross}
	rounds := hx.N(6, 60)
	for r := 0; r < rounds; r++ {
		out.Reset()
		for ci, cs := range e.calls(rng, victim) {
			mid := hex.EncodeToString(cs.data[:4])
			addrLower := strings.ToLower(cs.to.Hex())
			otherAddr := e.staking
			if cs.to == e.staking {
				otherAddr = e.cross
			}
			type sw struct {
				class   string
				entries []string
				match   bool
			}
			mixed := []byte(addrLower)
			for i := range mixed {
				if rng.Intn(2) == 0 && mixed[i] >= 'a' && mixed[i] <= 'f' {
					mixed[i] -= 32
				}
			}
			sws := []sw{
				{"none", nil, false},
				{"addr-lower", []string{addrLower}, true},
				{"addr-checksum", []string{cs.to.Hex()}, true},
				{"addr-upper", []string{"0X" + strings.ToUpper(addrLower[2:])}, true},
				{"addr-mixed", []string{string(mixed)}, true},
				{"addr-method", []string{addrLower + "/" + mid}, true},
				{"addr-method-upper", []string{strings.ToUpper(addrLower+"/"+mid)[:2] + strings.ToUpper(addrLower + "/" + mid)[2:]}, true},
				{"other-method", []string{addrLower + "/deadbeef"}, false},
				{"other-addr", []string{strings.ToLower(otherAddr.Hex())}, false},
				{"no-0x", []string{addrLower[2:]}, false},
				{"addr-method-0x", []string{addrLower + "/0x" + mid}, false},
				{"many", []string{strings.ToLower(otherAddr.Hex()) + "/" + mid, "junk", cs.to.Hex() + "/" + strings.ToUpper(mid)}, true},
			}
			for _, kind := range []evmx.Kind{evmx.KCall, evmx.KStatic, evmx.KDelegate, evmx.KCallCode} {
				for _, w := range sws {
					if w.class != "none" && kind != evmx.KCall && rng.Intn(3) != 0 {
						continue
					}
					for _, allowance := range []int64{0, 3, 1_000_000} {
						if cs.moved == nil && allowance != 0 {
							continue
						}
						cctx, _ := e.s.Ctx.CacheContext()
						if allowance > 0 {
							app.StakingKeeper.SetAllowance(cctx, e.s.ValAddr[0], victim.Bytes(), e.x.Bytes(), new(big.Int).Mul(big.NewInt(allowance), big.NewInt(1e15)))
						}
						if w.entries != nil {
							msg := &fxgovtypes.MsgUpdateSwitchParams{Authority: gov, Params: fxgovtypes.SwitchParams{DisablePrecompiles: w.entries}}
							if _, err := app.MsgServiceRouter().Handler(msg)(cctx, msg); err != nil {
								t.Fatalf("switch params: %v", err)
							}
						}
						nd := &evmx.Node{Op: "pre", ID: 1, Kind: kind, To: cs.to, Data: cs.data, Swallow: true}
						if kind.HasValue() {
							nd.Value = cs.value
						}
						if err := evmx.InstallTree(cctx, app, e.x, []*evmx.Node{nd}); err != nil {
							t.Fatal(err)
						}
						before := e.dump(cctx)
						pv := e.portfolioOf(cctx, victim)
						tx, err := evmx.SignedTx(cctx, app, e.signer, e.x, nil, nil, 3_000_000, warm)
						if err != nil {
							t.Fatal(err)
						}
						tr := evmx.NewTracer()
						var res *evmtypes.MsgEthereumTxResponse
						if pr := hx.Try(func() error { res, err = evmx.SendTraced(cctx, app, tx, tr); return nil }); pr != "ok" {
							out.Violate(fmt.Sprintf("precompile call panicked (%s): method=%s kind=%s switch=%s", pr, cs.method, kind, w.class))
							continue
						}
						if err != nil || res.Failed() || len(tr.Frames) < 2 {
							t.Fatalf("unexpected outer failure: %v %v", err, res)
						}
						obs := errKind(tr.Frames[1].Err)
						after := e.dump(cctx)
						pa := e.portfolioOf(cctx, victim)
						changed := hx.DiffDump(before, after)
						wr := 0
						if cs.writer {
							wr = 1
						}
						ent := "-"
						if len(w.entries) > 0 {
							ent = strings.Join(w.entries, ",")
						}
						out.Emit(fmt.Sprintf("disp %s %s %s %d %s %s", kind, cs.method, mid, wr, strings.ToLower(cs.to.Hex()), ent), obs)
						out.Count(fmt.Sprintf("%s:%s", kind, obs))
						out.Nontrivial(fmt.Sprintf("%s|%d|%s|%s|%s|%v", cs.method, ci, kind, w.class, obs, tr.Frames[1].Err == ""))
						desc := fmt.Sprintf("method=%s kind=%s switch=%s", cs.method, kind, w.class)
						if obs != "ran" && len(changed) > 0 {
							out.Violate("blocked precompile call changed Cosmos stores " + fmt.Sprint(changed) + " " + desc)
						}
						if w.match && obs != "blocked:disabled" && !(obs == "blocked:readonly") {
							out.Violate("disabled precompile executed: " + desc + " entries=" + ent)
						}
						if kind != evmx.KCall && cs.writer && len(changed) > 0 {
							out.Violate("state-changing method changed state through " + kind.String() + ": " + desc)
						}
						// third-party portfolio
						if pa.funds.Cmp(pv.funds) < 0 {
							out.Violate(fmt.Sprintf("funds of a non-caller reduced by %s (%s -> %s)", desc, pv.funds, pa.funds))
						}
						drop := new(big.Int).Sub(pv.shares, pa.shares)
						if drop.Sign() > 0 {
							ad := new(big.Int).Sub(pv.allowX, pa.allowX)
							if cs.moved == nil || drop.Cmp(pv.allowX) > 0 || ad.Cmp(drop) != 0 {
								out.Violate(fmt.Sprintf("shares of a non-caller reduced by %s: moved %s allowance before %s after %s %s", drop, drop, pv.allowX, pa.allowX, desc))
							}
						} else if cs.moved != nil && pa.allowY.Cmp(pv.allowY) == 0 && new(big.Int).Sub(pv.allowX, pa.allowX).Cmp(cs.moved) == 0 && cs.moved.Cmp(pv.allowX) <= 0 {
							// transferFromShares(from = to = third party): allowance consumed by exactly the moved shares, shares not reduced
						} else if pa.allowX.Cmp(pv.allowX) != 0 || pa.allowY.Cmp(pv.allowY) != 0 {
							out.Violate("allowance granted by a non-caller changed without a transfer: " + desc)
						}
						var ids []int
						for id := range pv.pool {
							ids = append(ids, int(id))
						}
						sort.Ints(ids)
						for _, id := range ids {
							av, ok := pa.pool[uint64(id)]
							if !ok {
								out.Violate(fmt.Sprintf("queued withdrawal %d of a non-caller cancelled by %s", id, desc))
							} else if b, _ := new(big.Int).SetString(pv.pool[uint64(id)], 10); b != nil {
								a2, _ := new(big.Int).SetString(av, 10)
								if a2.Cmp(b) < 0 {
									out.Violate(fmt.Sprintf("queued withdrawal %d of a non-caller reduced by %s", id, desc))
								}
							}
						}
					}
				}
			}
			// (5) inherited static context: x --STATICCALL--> y --CALL--> precompile
			if cs.writer && (cs.value == nil || cs.value.Sign() == 0) {
				cctx, _ := e.s.Ctx.CacheContext()
				inner := &evmx.Node{Op: "pre", ID: 2, Kind: evmx.KCall, To: cs.to, Data: cs.data, Swallow: true, Value: new(big.Int)}
				outer := &evmx.Node{Op: "call", ID: 1, Kind: evmx.KStatic, To: e.y, Swallow: true, Body: []*evmx.Node{inner}}
				if err := evmx.InstallTree(cctx, app, e.x, []*evmx.Node{outer}); err != nil {
					t.Fatal(err)
				}
				before := e.dump(cctx)
				tx, _ := evmx.SignedTx(cctx, app, e.signer, e.x, nil, nil, 3_000_000, warm)
				tr := evmx.NewTracer()
				res, err := evmx.SendTraced(cctx, app, tx, tr)
				if err != nil || res.Failed() {
					t.Fatalf("unexpected outer failure: %v", err)
				}
				changed := hx.DiffDump(before, e.dump(cctx))
				out.Stats.Evaluations++
				ran := len(tr.Frames) >= 3 && tr.Frames[2].Err == ""
				out.Count(fmt.Sprintf("nested-static:%s:ran=%v:changed=%v", cs.method, ran, len(changed) > 0))
				if len(changed) > 0 {
					out.ViolateWith(fmt.Sprintf("static context: state-changing method %s executed and changed %v when reached by a plain CALL from a contract that was itself entered through STATICCALL", cs.method, changed),
						[]string{"# x --STATICCALL--> y --CALL(value 0)--> precompile." + cs.method, "# calldata " + hex.EncodeToString(cs.data)})
				}
			}
		}
	}
}
